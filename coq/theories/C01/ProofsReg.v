(* C01/ProofsReg.v — the registry: every pool keeps its invariant; AllocateFromProfile answers from
   the override or from the first same-VRF pool of the profile's (priority-sorted) list that has a
   free address. *)
From Coq Require Import ZifyBool ZifyNat ZifyN Permutation Sorted.
From OV Require Import Common.Base C01.Model C01.Proofs.
Local Open Scope N_scope.

Lemma key_eqb_eq a b : key_eqb a b = true <-> a = b.
Proof.
  destruct a, b; unfold key_eqb; simpl. rewrite andb_true_iff, !N.eqb_eq.
  split; [intros [-> ->]; reflexivity | intros H; inversion H; auto].
Qed.

(* ---------------------------------------------------------------- association lists *)
Section Assoc.
  Context {A B : Type} (eqb : A -> A -> bool).
  Variable P : A * B -> Prop.

  Lemma assoc_find_Forall k x l :
    Forall P l -> assoc_find eqb k l = Some x -> exists k', eqb k k' = true /\ P (k', x).
  Proof.
    induction l as [|[k' y] r IH]; simpl; intros F H; [discriminate|].
    inversion F; subst. destruct (eqb k k') eqn:E.
    - inversion H; subst. eauto.
    - auto.
  Qed.

  Lemma assoc_set_Forall k x l :
    Forall P l -> (forall k', eqb k k' = true -> P (k', x)) -> P (k, x) -> Forall P (assoc_set eqb k x l).
  Proof.
    induction l as [|[k' y] r IH]; simpl; intros F H1 H2.
    - constructor; auto.
    - inversion F; subst. destruct (eqb k k') eqn:E; constructor; auto.
  Qed.
End Assoc.

Definition pool_ok (e : key * (pcfg * pstate)) : Prop := Inv (fst (snd e)) (snd (snd e)).
Definition RInv (st : rstate) : Prop := Forall pool_ok (r_allocs st).

Lemma rinv_find st k c ps : RInv st -> assoc_find key_eqb k (r_allocs st) = Some (c, ps) -> Inv c ps.
Proof.
  intros F H. destruct (assoc_find_Forall key_eqb pool_ok _ _ _ F H) as [k' [_ HP]]. exact HP.
Qed.

Lemma rinv_set st k c ps : RInv st -> Inv c ps -> RInv (set_alloc st k c ps).
Proof.
  intros F H. unfold RInv, set_alloc; simpl. apply assoc_set_Forall; auto.
Qed.

Lemma rinv_on_pool st k pc st' o : RInv st -> on_pool Repaired st k pc = Some (st', o) -> RInv st'.
Proof.
  unfold on_pool. intros F H.
  destruct (assoc_find key_eqb k (r_allocs st)) as [[c ps]|] eqn:E; [|discriminate].
  destruct (pool_call Repaired c ps pc) as [[ps' o']|] eqn:C; [|discriminate].
  inversion H; subst. apply rinv_set; [exact F|]. eapply inv_call; [eapply rinv_find; eauto | exact C].
Qed.

Lemma rinv_map st (pc : call) :
  RInv st ->
  Forall pool_ok (map (fun e => match pool_call Repaired (fst (snd e)) (snd (snd e)) pc with
                                | Some (ps', _) => (fst e, (fst (snd e), ps'))
                                | None => e end) (r_allocs st)).
Proof.
  unfold RInv. induction (r_allocs st) as [|e r IH]; simpl; intros F; [constructor|].
  inversion F; subst. constructor; [|auto].
  destruct (pool_call Repaired (fst (snd e)) (snd (snd e)) pc) as [[ps' o]|] eqn:C; [|assumption].
  unfold pool_ok; simpl. eapply inv_call; eauto.
Qed.

Lemma rinv_walk st a s obs st' o : RInv st -> reserve_walk Repaired st a s obs = Some (st', o) -> RInv st'.
Proof.
  unfold reserve_walk. intros F H. destruct obs as [k|].
  - destruct (assoc_find key_eqb k (r_allocs st)) as [[c ps]|]; [|discriminate].
    destruct (contains c a); [|discriminate].
    destruct (on_pool Repaired st k (CReserve a s)) as [[st1 o1]|] eqn:E; [|discriminate].
    inversion H; subst. eapply rinv_on_pool; eauto.
  - destruct (existsb _ _); inversion H; subst; exact F.
Qed.

Lemma rinv_step st k st' o : RInv st -> reg_step Repaired st k = Some (st', o) -> RInv st'.
Proof.
  intros F H. destruct k as [pf ov vrf s obs | k a | k a s obs | a s obs | a | b | k]; simpl in H.
  - destruct (alloc_target st pf ov vrf) as [t|]; destruct obs as [[k' a]|]; try discriminate.
    + destruct (key_eqb t k'); [|discriminate].
      destruct (on_pool Repaired st t (CAlloc s (Some a))) as [[st1 o1]|] eqn:E; [|discriminate].
      inversion H; subst. eapply rinv_on_pool; eauto.
    + inversion H; subst; exact F.
  - destruct (on_pool Repaired st k (CRelease a)) as [[st1 o1]|] eqn:E; inversion H; subst; [|exact F].
    eapply rinv_on_pool; eauto.
  - destruct (assoc_find key_eqb k (r_allocs st)).
    + destruct (on_pool Repaired st k (CReserve a s)) as [[st1 o1]|] eqn:E; [|discriminate].
      inversion H; subst. eapply rinv_on_pool; eauto.
    + eapply rinv_walk; eauto.
  - eapply rinv_walk; eauto.
  - inversion H; subst. unfold RInv; simpl. apply rinv_map; exact F.
  - inversion H; subst. unfold RInv; simpl. apply rinv_map; exact F.
  - destruct (assoc_find key_eqb k (r_allocs st)) as [[c ps]|]; inversion H; subst; exact F.
Qed.

Lemma rinv_init_pool pf st p : RInv st -> RInv (init_pool pf st p).
Proof.
  unfold init_pool, RInv; simpl. intros F.
  destruct (assoc_find key_eqb (pf, rp_name p) (r_allocs st)); [exact F|].
  destruct (rp_cfg p) as [c|]; [|exact F].
  apply Forall_app; split; [exact F|]. constructor; [|constructor]. unfold pool_ok; simpl. apply inv_init.
Qed.

Lemma rinv_fold_pools pf : forall ps st, RInv st -> RInv (fold_left (init_pool pf) ps st).
Proof. induction ps as [|p r IH]; simpl; intros st F; [exact F|]. apply IH, rinv_init_pool, F. Qed.

Lemma rinv_init_profile st pf : RInv st -> RInv (init_profile st pf).
Proof. intros F. unfold init_profile. apply rinv_fold_pools. exact F. Qed.

Lemma rinv_init pfs : RInv (reg_init pfs).
Proof.
  unfold reg_init. assert (G : forall l st, RInv st -> RInv (fold_left init_profile l st)).
  { induction l as [|p r IH]; simpl; intros st F; [exact F|]. apply IH, rinv_init_profile, F. }
  apply G. constructor.
Qed.

Lemma rinv_run : forall ks st st' evs,
  RInv st -> reg_run_from Repaired st ks = Some (st', evs) -> RInv st'.
Proof.
  induction ks as [|k r IH]; simpl; intros st st' evs F H.
  - inversion H; subst; exact F.
  - destruct (reg_step Repaired st k) as [[st1 o]|] eqn:E; [|discriminate].
    destruct (reg_run_from Repaired st1 r) as [[st2 evs']|] eqn:R; [|discriminate].
    inversion H; subst. eapply IH; [eapply rinv_step; eauto | eauto].
Qed.

(* ---------------------------------------------------------------- the walk *)
Lemma find_split {A} (f : A -> bool) l x :
  find f l = Some x -> exists l1 l2, l = l1 ++ x :: l2 /\ f x = true /\ forall y, In y l1 -> f y = false.
Proof.
  induction l as [|y r IH]; simpl; intros H; [discriminate|].
  destruct (f y) eqn:E.
  - inversion H; subst. exists [], r. repeat split; auto. intros ? [].
  - destruct (IH H) as [l1 [l2 [E1 [E2 E3]]]]. exists (y :: l1), l2. subst r. repeat split; auto.
    intros z [->|Hz]; auto.
Qed.

Lemma find_none {A} (f : A -> bool) l : find f l = None -> forall y, In y l -> f y = false.
Proof.
  induction l as [|y r IH]; simpl; intros H z Hz; [contradiction|].
  destruct (f y) eqn:E; [discriminate|]. destruct Hz as [->|Hz]; auto.
Qed.

(* AllocateFromProfile answered (k, a) *)
Lemma alloc_answer st pf ov vrf s k a st' o :
  RInv st -> reg_step Repaired st (RAlloc pf ov vrf s (Some (k, a))) = Some (st', o) ->
  o = ROAddr k a /\
  (exists c ps, assoc_find key_eqb k (r_allocs st) = Some (c, ps) /\
                assignable c a = true /\ lm_lookup a (leases ps) = None) /\
  ((ov <> 0 /\ k = (pf, ov)) \/
   (exists l1 l2, pools_of st pf = l1 ++ k :: l2 /\ vrf_of st k = vrf /\
                  (ov = 0 \/ has_free st (pf, ov) = false) /\
                  forall k', In k' l1 -> vrf_of st k' = vrf -> has_free st k' = false)).
Proof.
  intros F H. simpl in H.
  destruct (alloc_target st pf ov vrf) as [t|] eqn:T; [|discriminate].
  destruct (key_eqb t k) eqn:EK; [|discriminate]. apply key_eqb_eq in EK; subst t.
  unfold on_pool in H.
  destruct (assoc_find key_eqb k (r_allocs st)) as [[c ps]|] eqn:EA; [|discriminate].
  unfold pool_call, norm_call, pool_step in H.
  destruct (mem_addr a (free ps)) eqn:M; [|discriminate]. inversion H; subst; clear H.
  split; [reflexivity|]. split.
  - exists c, ps. split; [reflexivity|]. apply mem_addr_In in M.
    apply (rinv_find _ _ _ _ F EA) in M. exact M.
  - unfold alloc_target in T.
    destruct (negb (ov =? 0) && has_free st (pf, ov)) eqn:EO.
    + inversion T; subst. left. apply andb_true_iff in EO. destruct EO as [EO _].
      apply negb_true_iff, N.eqb_neq in EO. auto.
    + right. unfold walk_target in T. apply find_split in T. destruct T as [l1 [l2 [E1 [E2 E3]]]].
      apply andb_true_iff in E2. destruct E2 as [E2 _]. apply N.eqb_eq in E2.
      exists l1, l2. repeat split; auto.
      * apply andb_false_iff in EO. destruct EO as [EO|EO]; [left | right; exact EO].
        apply negb_false_iff, N.eqb_eq in EO. exact EO.
      * intros k' Hk Hv. specialize (E3 _ Hk). apply andb_false_iff in E3.
        destruct E3 as [E3|E3]; [|exact E3]. apply N.eqb_neq in E3. contradiction.
Qed.

(* AllocateFromProfile reported exhaustion *)
Lemma alloc_exhausted st pf ov vrf s st' o :
  reg_step Repaired st (RAlloc pf ov vrf s None) = Some (st', o) ->
  (ov = 0 \/ has_free st (pf, ov) = false) /\
  forall k, In k (pools_of st pf) -> vrf_of st k = vrf -> has_free st k = false.
Proof.
  intros H. simpl in H. destruct (alloc_target st pf ov vrf) as [t|] eqn:T; [discriminate|].
  unfold alloc_target in T.
  destruct (negb (ov =? 0) && has_free st (pf, ov)) eqn:EO; [discriminate|]. split.
  - apply andb_false_iff in EO. destruct EO as [EO|EO]; [left | right; exact EO].
    apply negb_false_iff, N.eqb_eq in EO. exact EO.
  - intros k Hk Hv. unfold walk_target in T. pose proof (find_none _ _ T _ Hk) as E.
    apply andb_false_iff in E. destruct E as [E|E]; [|exact E]. apply N.eqb_neq in E. contradiction.
Qed.

(* has_free is what it says: the pool has an assignable address nobody holds *)
Lemma has_free_spec st k : RInv st ->
  (has_free st k = true <->
   exists c ps a, assoc_find key_eqb k (r_allocs st) = Some (c, ps) /\
                  assignable c a = true /\ lm_lookup a (leases ps) = None).
Proof.
  intros F. unfold has_free. destruct (assoc_find key_eqb k (r_allocs st)) as [[c ps]|] eqn:E.
  - pose proof (rinv_find _ _ _ _ F E) as [_ M]. split.
    + destruct (free ps) as [|a r] eqn:Fr; [discriminate|]. intros _.
      exists c, ps, a. split; [reflexivity|]. apply M. left; reflexivity.
    + intros [c' [ps' [a [E' HA]]]]. inversion E'; subst. apply M in HA.
      destruct (free ps'); [contradiction | reflexivity].
  - split; [discriminate | intros [c [ps [a [E' _]]]]; discriminate].
Qed.

(* ---------------------------------------------------------------- priority order of the profile list *)
Definition prio_le (p q : rpool) : Prop := (rp_prio p <= rp_prio q)%Z.

Lemma insert_by_prio_perm p l : Permutation (insert_by_prio p l) (p :: l).
Proof.
  induction l as [|q r IH]; simpl; [reflexivity|].
  destruct (Z.ltb (rp_prio p) (rp_prio q)); [reflexivity|].
  rewrite IH. apply perm_swap.
Qed.

Lemma insert_by_prio_sorted p l :
  StronglySorted prio_le l -> StronglySorted prio_le (insert_by_prio p l).
Proof.
  induction l as [|q r IH]; simpl; intros S.
  - constructor; constructor.
  - inversion S as [|? ? Sr Fq]; subst.
    destruct (Z.ltb_spec (rp_prio p) (rp_prio q)) as [Hlt|Hge].
    + constructor; [exact S|]. constructor; [unfold prio_le; lia|].
      eapply Forall_impl; [|exact Fq]. unfold prio_le. intros x Hx. lia.
    + constructor; [apply IH; exact Sr|].
      eapply Permutation_Forall; [symmetry; apply insert_by_prio_perm|].
      constructor; [unfold prio_le; lia | exact Fq].
Qed.

Lemma sort_by_prio_spec l :
  StronglySorted prio_le (sort_by_prio l) /\ Permutation (sort_by_prio l) l.
Proof.
  unfold sort_by_prio.
  assert (G : forall l acc, StronglySorted prio_le acc ->
            StronglySorted prio_le (fold_left (fun a p => insert_by_prio p a) l acc) /\
            Permutation (fold_left (fun a p => insert_by_prio p a) l acc) (acc ++ l)).
  { induction l0 as [|p r IH]; simpl; intros acc S.
    - rewrite app_nil_r. split; [exact S | reflexivity].
    - destruct (IH (insert_by_prio p acc) (insert_by_prio_sorted _ _ S)) as [S' P']. split; [exact S'|].
      rewrite P', insert_by_prio_perm. rewrite <- Permutation_middle. reflexivity. }
  destruct (G l [] ltac:(constructor)) as [S P]. split; [exact S | exact P].
Qed.

Lemma assoc_find_set_same {B} k (x : B) l : assoc_find N.eqb k (assoc_set N.eqb k x l) = Some x.
Proof.
  induction l as [|[k' y] r IH]; simpl.
  - rewrite N.eqb_refl. reflexivity.
  - destruct (N.eqb k k') eqn:E; simpl; [rewrite N.eqb_refl; reflexivity | rewrite E; exact IH].
Qed.

Lemma fold_init_pool_profile_pools pf : forall ps st,
  r_profile_pools (fold_left (init_pool pf) ps st) = r_profile_pools st.
Proof. induction ps as [|p r IH]; simpl; intros st; [reflexivity|]. rewrite IH. reflexivity. Qed.

(* the list AllocateFromProfile walks is the profile's pools, by ascending priority for v4 *)
Lemma init_profile_pools st pf :
  pools_of (init_profile st pf) (rf_name pf) =
  map (fun p => (rf_name pf, rp_name p)) (if rf_sorted pf then sort_by_prio (rf_pools pf) else rf_pools pf).
Proof.
  unfold pools_of, init_profile. rewrite fold_init_pool_profile_pools. simpl.
  rewrite assoc_find_set_same. reflexivity.
Qed.
