(* C01/ProofsReg.v — the registry (IPv4, IA_NA and PD families): every allocator keeps the pool
   invariant through every registry history; Allocate*FromProfile answers from the override or from
   the first same-VRF pool of the profile's list that has a free address; ResolveV4/ResolveV6. *)
From Coq Require Import ZifyBool ZifyNat ZifyN Permutation Sorted.
From OV Require Import Common.Base C01.Model C01.Proofs C01.ProofsPD.
Local Open Scope N_scope.

Lemma key_eqb_eq a b : key_eqb a b = true <-> a = b.
Proof.
  destruct a, b; unfold key_eqb; simpl. rewrite andb_true_iff, !N.eqb_eq.
  split; [intros [-> ->]; reflexivity | intros H; inversion H; auto].
Qed.
Lemma rfam_eqb_eq a b : rfam_eqb a b = true <-> a = b.
Proof. destruct a, b; simpl; split; congruence. Qed.
Lemma vkey_eqb_eq a b : vkey_eqb a b = true <-> a = b.
Proof.
  destruct a as [f k], b as [g l]; unfold vkey_eqb; simpl. rewrite andb_true_iff, rfam_eqb_eq, key_eqb_eq.
  split; [intros [-> ->]; reflexivity | intros H; inversion H; auto].
Qed.

(* ---------------------------------------------------------------- association lists *)
Section Assoc.
  Context {A B : Type} (eqb : A -> A -> bool).
  Variable P : A * B -> Prop.

  Lemma assoc_find_Forall k x l :
    Forall P l -> assoc_find eqb k l = Some x -> exists k', eqb k k' = true /\ P (k', x).
  Proof.
    induction l as [|[k' y] r IH]; simpl; intros F H; [discriminate|].
    inversion F; subst. destruct (eqb k k') eqn:E.
    - inversion H; subst. eauto.
    - auto.
  Qed.

  Lemma assoc_set_Forall k x l :
    Forall P l -> (forall k', eqb k k' = true -> P (k', x)) -> P (k, x) -> Forall P (assoc_set eqb k x l).
  Proof.
    induction l as [|[k' y] r IH]; simpl; intros F H1 H2.
    - constructor; auto.
    - inversion F; subst. destruct (eqb k k') eqn:E; constructor; auto.
  Qed.
End Assoc.

Lemma assoc_find_set_same {A B} (eqb : A -> A -> bool) (R : forall a, eqb a a = true) k (x : B) l :
  assoc_find eqb k (assoc_set eqb k x l) = Some x.
Proof.
  induction l as [|[k' y] r IH]; simpl.
  - rewrite R. reflexivity.
  - destruct (eqb k k') eqn:E; simpl; [rewrite R; reflexivity | rewrite E; exact IH].
Qed.

(* ---------------------------------------------------------------- state accessors *)
Lemma allocs_set st f m g : r_allocs (set_allocs st f m) g = if rfam_eqb f g then m else r_allocs st g.
Proof. destruct f, g; reflexivity. Qed.
Lemma allocs_set_lists st f l g : r_allocs (set_lists st f l) g = r_allocs st g.
Proof. destruct f, g; reflexivity. Qed.
Lemma allocs_set_vrfs st m g : r_allocs (set_vrfs st m) g = r_allocs st g.
Proof. destruct g; reflexivity. Qed.
Lemma lists_set_allocs st f m g : r_lists (set_allocs st f m) g = r_lists st g.
Proof. destruct f, g; reflexivity. Qed.
Lemma lists_set_vrfs st m g : r_lists (set_vrfs st m) g = r_lists st g.
Proof. destruct g; reflexivity. Qed.
Lemma lists_set st f l g : r_lists (set_lists st f l) g = if rfam_eqb f g then l else r_lists st g.
Proof. destruct f, g; reflexivity. Qed.

(* ---------------------------------------------------------------- the invariant *)
Definition pool_ok (e : key * (acfg * pstate)) : Prop := Inv (acfg_pool (fst (snd e))) (snd (snd e)).
Definition RInv (st : rstate) : Prop := forall f, Forall pool_ok (r_allocs st f).

Lemma rinv_find st f k ac ps :
  RInv st -> assoc_find key_eqb k (r_allocs st f) = Some (ac, ps) -> Inv (acfg_pool ac) ps.
Proof.
  intros F H. destruct (assoc_find_Forall key_eqb pool_ok _ _ _ (F f) H) as [k' [_ HP]]. exact HP.
Qed.

Lemma rinv_set_allocs st f m : RInv st -> Forall pool_ok m -> RInv (set_allocs st f m).
Proof. intros F H g. rewrite allocs_set. destruct (rfam_eqb f g); [exact H | apply F]. Qed.

Lemma rinv_on_pool st f k mk st' o : RInv st -> on_pool Repaired st f k mk = Some (st', o) -> RInv st'.
Proof.
  unfold on_pool. intros F H.
  destruct (assoc_find key_eqb k (r_allocs st f)) as [[ac ps]|] eqn:E; [|discriminate].
  destruct (mk ac) as [pc|]; [|discriminate].
  destruct (pool_step Repaired (acfg_pool ac) ps pc) as [[ps' o']|] eqn:C; [|discriminate].
  inversion H; subst. apply rinv_set_allocs; [exact F|].
  assert (HI : Inv (acfg_pool ac) ps') by (eapply inv_step; [eapply rinv_find; eauto | exact C]).
  apply assoc_set_Forall; [apply F | intros; exact HI | exact HI].
Qed.

Lemma rinv_map st f mk : RInv st -> RInv (map_pools Repaired st f mk).
Proof.
  intros F. unfold map_pools. apply rinv_set_allocs; [exact F|].
  specialize (F f). induction (r_allocs st f) as [|e r IH]; simpl; [constructor|].
  inversion F; subst. constructor; [|auto].
  destruct (mk (fst (snd e))) as [pc|]; [|assumption].
  destruct (pool_step Repaired (acfg_pool (fst (snd e))) (snd (snd e)) pc) as [[ps' o]|] eqn:C; [|assumption].
  unfold pool_ok; simpl. eapply inv_step; eauto.
Qed.

Lemma rinv_walk st f x obs mk st' o : RInv st -> walk Repaired st f x obs mk = Some (st', o) -> RInv st'.
Proof.
  unfold walk. intros F H. destruct obs as [k|].
  - destruct (assoc_find key_eqb k (r_allocs st f)) as [[ac ps]|]; [|discriminate].
    destruct (acontains Repaired ac x); [|discriminate].
    destruct (on_pool Repaired st f k mk) as [[st1 o1]|] eqn:E; [|discriminate].
    inversion H; subst. eapply rinv_on_pool; eauto.
  - destruct (existsb _ _); inversion H; subst; exact F.
Qed.

(* the PD overlap check changes the answer of a reservation walk, never the state *)
Lemma reserve_walk_inv v st f x s obs st' r :
  reserve_walk v st f x s obs = Some (st', r) ->
  exists r0, walk v st f x obs (mk_reserve v x s) = Some (st', r0) /\
             (r = r0 \/ (r = ROOverlap /\ r0 = ROOk /\ f = FPD /\ obs = None /\ pd_overlap v st x = true)).
Proof.
  unfold reserve_walk. intros H.
  destruct (walk v st f x obs (mk_reserve v x s)) as [[st1 r1]|]; [|discriminate].
  destruct r1; try (inversion H; subst; eexists; split; [reflexivity | left; reflexivity]).
  destruct f; try (inversion H; subst; eexists; split; [reflexivity | left; reflexivity]).
  destruct obs; try (inversion H; subst; eexists; split; [reflexivity | left; reflexivity]).
  destruct (pd_overlap v st x) eqn:E; inversion H; subst; eexists; split; try reflexivity; [right | left]; auto.
Qed.

Lemma some_pair_inj {A B} (a a' : A) (b b' : B) : Some (a, b) = Some (a', b') -> a = a' /\ b = b'.
Proof. intros H; inversion H; auto. Qed.

Lemma rinv_rbv st f x obs st' o :
  RInv st -> reg_step Repaired st (RReleaseByValue f x obs) = Some (st', o) -> RInv st'.
Proof.
  intros F H. destruct f.
  - change (Some (map_pools Repaired st F4 (mk_release Repaired x), ROOk) = Some (st', o)) in H.
    apply some_pair_inj in H. destruct H as [<- _]. apply rinv_map; exact F.
  - change (Some (map_pools Repaired st FNA (mk_release Repaired x), ROOk) = Some (st', o)) in H.
    apply some_pair_inj in H. destruct H as [<- _]. apply rinv_map; exact F.
  - change (walk Repaired st FPD x obs (mk_release Repaired x) = Some (st', o)) in H.
    eapply rinv_walk; eauto.
Qed.

Lemma rinv_setdir st b st' o :
  RInv st -> reg_step Repaired st (RSetDir b) = Some (st', o) -> RInv st'.
Proof.
  intros F H.
  change (Some (map_pools Repaired (map_pools Repaired (map_pools Repaired st F4 (fun _ => Some (CSetDir b)))
                                               FNA (fun _ => Some (CSetDir b)))
                          FPD (fun _ => Some (CSetDir b)), ROOk) = Some (st', o)) in H.
  apply some_pair_inj in H. destruct H as [<- _]. repeat apply rinv_map. exact F.
Qed.

Lemma rinv_step st k st' o : RInv st -> reg_step Repaired st k = Some (st', o) -> RInv st'.
Proof.
  intros F H.
  destruct k as [f pf ov vrf s obs | f k x | f k x s obs | f x s obs | f k x obs | f x obs | b | f k | f pf];
    [ | | | | | eapply rinv_rbv; eauto | eapply rinv_setdir; eauto | | ]; cbn [reg_step] in H.
  - destruct (alloc_target Repaired st f pf ov vrf) as [t|]; destruct obs as [[k' a]|]; try discriminate.
    + destruct (key_eqb t k'); [|discriminate].
      destruct (on_pool Repaired st f t (mk_alloc Repaired s a)) as [[st1 o1]|] eqn:E; [|discriminate].
      inversion H; subst. eapply rinv_on_pool; eauto.
    + inversion H; subst; exact F.
  - destruct (on_pool Repaired st f k (mk_release Repaired x)) as [[st1 o1]|] eqn:E; inversion H; subst; [|exact F].
    eapply rinv_on_pool; eauto.
  - destruct (assoc_find key_eqb k (r_allocs st f)).
    + destruct (on_pool Repaired st f k (mk_reserve Repaired x s)) as [[st1 o1]|] eqn:E; [|discriminate].
      inversion H; subst. eapply rinv_on_pool; eauto.
    + destruct (reserve_walk_inv _ _ _ _ _ _ _ _ H) as [r0 [W _]]. eapply rinv_walk; eauto.
  - destruct (reserve_walk_inv _ _ _ _ _ _ _ _ H) as [r0 [W _]]. eapply rinv_walk; eauto.
  - destruct (assoc_find key_eqb k (r_allocs st f)).
    + destruct (on_pool Repaired st f k (mk_release Repaired x)) as [[st1 o1]|] eqn:E; [|discriminate].
      inversion H; subst. eapply rinv_on_pool; eauto.
    + eapply rinv_walk; eauto.
  - destruct (assoc_find key_eqb k (r_allocs st f)) as [[c ps]|]; inversion H; subst; exact F.
  - inversion H; subst; exact F.
Qed.

Lemma rinv_set_vrfs st m : RInv st -> RInv (set_vrfs st m).
Proof. intros F g. rewrite allocs_set_vrfs. apply F. Qed.
Lemma rinv_set_lists st f l : RInv st -> RInv (set_lists st f l).
Proof. intros F g. rewrite allocs_set_lists. apply F. Qed.

Lemma rinv_init_pool v f pf st p : RInv st -> RInv (init_pool v f pf st p).
Proof.
  unfold init_pool. intros F.
  set (s1 := if rp_vrf p =? 0 then st else _).
  assert (F1 : RInv s1) by (unfold s1; destruct (rp_vrf p =? 0); [exact F | apply rinv_set_vrfs, F]).
  destruct (assoc_find key_eqb (pf, rp_name p) (r_allocs s1 f)); [exact F1|].
  destruct (rp_cfg p) as [c|]; [|exact F1].
  apply rinv_set_allocs; [exact F1|].
  apply Forall_app; split; [apply F1|]. constructor; [|constructor]. unfold pool_ok; simpl. apply inv_init.
Qed.

Lemma rinv_fold_pools v f pf : forall ps st, RInv st -> RInv (fold_left (init_pool v f pf) ps st).
Proof. induction ps as [|p r IH]; simpl; intros st F; [exact F|]. apply IH, rinv_init_pool, F. Qed.

Lemma rinv_init_profile v st pf : RInv st -> RInv (init_profile v st pf).
Proof. intros F. unfold init_profile. apply rinv_fold_pools, rinv_set_lists, F. Qed.

Lemma rinv_init v pfs : RInv (reg_init v pfs).
Proof.
  unfold reg_init. assert (G : forall l st, RInv st -> RInv (fold_left (init_profile v) l st)).
  { induction l as [|p r IH]; simpl; intros st F; [exact F|]. apply IH, rinv_init_profile, F. }
  apply G. intros f; destruct f; constructor.
Qed.

Lemma rinv_run : forall ks st st' evs,
  RInv st -> reg_run_from Repaired st ks = Some (st', evs) -> RInv st'.
Proof.
  induction ks as [|k r IH]; simpl; intros st st' evs F H.
  - inversion H; subst; exact F.
  - destruct (reg_step Repaired st k) as [[st1 o]|] eqn:E; [|discriminate].
    destruct (reg_run_from Repaired st1 r) as [[st2 evs']|] eqn:R; [|discriminate].
    inversion H; subst. eapply IH; [eapply rinv_step; eauto | eauto].
Qed.

(* ---------------------------------------------------------------- the walk of Allocate*FromProfile *)
Lemma find_split {A} (f : A -> bool) l x :
  find f l = Some x -> exists l1 l2, l = l1 ++ x :: l2 /\ f x = true /\ forall y, In y l1 -> f y = false.
Proof.
  induction l as [|y r IH]; simpl; intros H; [discriminate|].
  destruct (f y) eqn:E.
  - inversion H; subst. exists [], r. repeat split; auto. intros ? [].
  - destruct (IH H) as [l1 [l2 [E1 [E2 E3]]]]. exists (y :: l1), l2. subst r. repeat split; auto.
    intros z [->|Hz]; auto.
Qed.

Lemma find_none {A} (f : A -> bool) l : find f l = None -> forall y, In y l -> f y = false.
Proof.
  induction l as [|y r IH]; simpl; intros H z Hz; [contradiction|].
  destruct (f y) eqn:E; [discriminate|]. destruct Hz as [->|Hz]; auto.
Qed.

(* what an answer means for the allocator it came from *)
Definition answer_ok (ac : acfg) (ps : pstate) (o : gobs) : Prop :=
  match ac, o with
  | APool c, OA a => assignable c a = true /\ lm_lookup a (leases ps) = None
  | APd c, OP ip ones bits =>
      exists i, i < pd_count c /\ ip = index_to_prefix c i /\ ones = pd_plen c /\ bits = 128 /\
                lm_lookup (key_of_idx i) (leases ps) = None
  | _, _ => False
  end.

(* Allocate*FromProfile answered (k, o), any family *)
Lemma alloc_answer st f pf ov vrf s k o st' r :
  RInv st -> reg_step Repaired st (RAlloc f pf ov vrf s (Some (k, o))) = Some (st', r) ->
  r = ROAns k o /\
  (exists ac ps, assoc_find key_eqb k (r_allocs st f) = Some (ac, ps) /\ answer_ok ac ps o) /\
  ((ov <> 0 /\ k = (pf, ov)) \/
   (exists l1 l2, pools_of st f pf = l1 ++ k :: l2 /\ vrf_of Repaired st f k = vrf /\
                  (ov = 0 \/ has_free st f (pf, ov) = false) /\
                  forall k', In k' l1 -> vrf_of Repaired st f k' = vrf -> has_free st f k' = false)).
Proof.
  intros F H. cbn [reg_step] in H.
  destruct (alloc_target Repaired st f pf ov vrf) as [t|] eqn:T; [|discriminate].
  destruct (key_eqb t k) eqn:EK; [|discriminate]. apply key_eqb_eq in EK; subst t.
  unfold on_pool in H.
  destruct (assoc_find key_eqb k (r_allocs st f)) as [[ac ps]|] eqn:EA; [|discriminate].
  pose proof (rinv_find _ _ _ _ _ F EA) as HI.
  unfold mk_alloc in H.
  destruct (aobs_key Repaired ac o) as [a|] eqn:EO; [|discriminate].
  cbn [pool_step] in H.
  destruct (mem_addr a (free ps)) eqn:M; [|discriminate]. inversion H; subst; clear H.
  apply mem_addr_In in M. apply HI in M. destruct M as [As L].
  split; [reflexivity|]. split.
  - exists ac, ps. split; [reflexivity|].
    destruct ac as [c|c]; destruct o as [a'|ip ones bits]; unfold aobs_key in EO; try discriminate.
    + inversion EO; subst. split; assumption.
    + destruct (prefix_to_index Repaired c (Pfx (Some (V6, ip)) ones bits)) as [i|] eqn:P; [|discriminate].
      destruct (N.eqb_spec (index_to_prefix c i) ip) as [EI|]; [|discriminate]. inversion EO; subst a.
      exists i. simpl. repeat split; auto.
      * unfold assignable, in_range, pd_pool_cfg in As. simpl in As.
        rewrite !andb_true_iff, N.leb_le in As. unfold pd_count in *.
        pose proof (pow2_pos (pd_plen c - pd_nbits c)). lia.
      * rewrite pti_unfold in P.
        destruct (N.eqb_spec bits 128); destruct (N.eqb_spec ones (pd_plen c)); simpl in P; try discriminate; auto.
      * rewrite pti_unfold in P. destruct (N.eqb_spec bits 128); simpl in P; try discriminate; auto.
  - unfold alloc_target in T.
    destruct (negb (ov =? 0) && has_free st f (pf, ov)) eqn:EV.
    + inversion T; subst. left. apply andb_true_iff in EV. destruct EV as [EV _].
      apply negb_true_iff, N.eqb_neq in EV. auto.
    + right. unfold walk_target in T. apply find_split in T. destruct T as [l1 [l2 [E1 [E2 E3]]]].
      apply andb_true_iff in E2. destruct E2 as [E2 _]. apply N.eqb_eq in E2.
      exists l1, l2. repeat split; auto.
      * apply andb_false_iff in EV. destruct EV as [EV|EV]; [left | right; exact EV].
        apply negb_false_iff, N.eqb_eq in EV. exact EV.
      * intros k' Hk Hv. specialize (E3 _ Hk). apply andb_false_iff in E3.
        destruct E3 as [E3|E3]; [|exact E3]. apply N.eqb_neq in E3. contradiction.
Qed.

(* Allocate*FromProfile reported exhaustion *)
Lemma alloc_exhausted st f pf ov vrf s st' o :
  reg_step Repaired st (RAlloc f pf ov vrf s None) = Some (st', o) ->
  (ov = 0 \/ has_free st f (pf, ov) = false) /\
  forall k, In k (pools_of st f pf) -> vrf_of Repaired st f k = vrf -> has_free st f k = false.
Proof.
  intros H. cbn [reg_step] in H. destruct (alloc_target Repaired st f pf ov vrf) as [t|] eqn:T; [discriminate|].
  unfold alloc_target in T.
  destruct (negb (ov =? 0) && has_free st f (pf, ov)) eqn:EO; [discriminate|]. split.
  - apply andb_false_iff in EO. destruct EO as [EO|EO]; [left | right; exact EO].
    apply negb_false_iff, N.eqb_eq in EO. exact EO.
  - intros k Hk Hv. unfold walk_target in T. pose proof (find_none _ _ T _ Hk) as E.
    apply andb_false_iff in E. destruct E as [E|E]; [|exact E]. apply N.eqb_neq in E. contradiction.
Qed.

(* has_free is what it says: the allocator has an assignable key nobody holds *)
Lemma has_free_spec st f k : RInv st ->
  (has_free st f k = true <->
   exists ac ps a, assoc_find key_eqb k (r_allocs st f) = Some (ac, ps) /\
                   assignable (acfg_pool ac) a = true /\ lm_lookup a (leases ps) = None).
Proof.
  intros F. unfold has_free. destruct (assoc_find key_eqb k (r_allocs st f)) as [[c ps]|] eqn:E.
  - pose proof (rinv_find _ _ _ _ _ F E) as [_ M]. split.
    + destruct (free ps) as [|a r] eqn:Fr; [discriminate|]. intros _.
      exists c, ps, a. split; [reflexivity|]. apply M. left; reflexivity.
    + intros [c' [ps' [a [E' HA]]]]. inversion E'; subst. apply M in HA.
      destruct (free ps'); [contradiction | reflexivity].
  - split; [discriminate | intros [c [ps [a [E' _]]]]; discriminate].
Qed.

(* ---------------------------------------------------------------- VRF map: one per family when repaired *)
Lemma assoc_find_set_other {A B} (eqb : A -> A -> bool) (S : forall a b, eqb a b = true <-> a = b)
      k k' (x : B) l : k <> k' -> assoc_find eqb k (assoc_set eqb k' x l) = assoc_find eqb k l.
Proof.
  intros N. induction l as [|[k2 y] r IH]; simpl.
  - destruct (eqb k k') eqn:E; [apply S in E; contradiction | reflexivity].
  - destruct (eqb k' k2) eqn:E2; simpl.
    + apply S in E2; subst k2. destruct (eqb k k') eqn:E; [apply S in E; contradiction | reflexivity].
    + destruct (eqb k k2); [reflexivity | exact IH].
Qed.

(* configuring a pool of family f never changes the VRF of a pool of another family *)
Lemma init_pool_vrf_other f g pf st p k :
  f <> g -> vrf_of Repaired (init_pool Repaired f pf st p) g k = vrf_of Repaired st g k.
Proof.
  intros N. unfold init_pool, vrf_of.
  set (s1 := if rp_vrf p =? 0 then st else _).
  assert (E1 : assoc_find vkey_eqb (vkey Repaired g k) (r_vrfs s1) = assoc_find vkey_eqb (vkey Repaired g k) (r_vrfs st)).
  { unfold s1. destruct (rp_vrf p =? 0); [reflexivity|]. simpl.
    apply assoc_find_set_other; [apply vkey_eqb_eq|]. unfold vkey; simpl. intros E; inversion E; congruence. }
  assert (E2 : forall s, r_vrfs (match assoc_find key_eqb (pf, rp_name p) (r_allocs s f) with
                                  | Some _ => s
                                  | None => match rp_cfg p with
                                            | Some c => set_allocs s f (r_allocs s f ++ [((pf, rp_name p), (c, pool_init (acfg_pool c)))])
                                            | None => s end end) = r_vrfs s).
  { intros s. destruct (assoc_find key_eqb (pf, rp_name p) (r_allocs s f)); [reflexivity|].
    destruct (rp_cfg p); [|reflexivity]. destruct f; reflexivity. }
  rewrite E2, E1. reflexivity.
Qed.

(* before 85029df: an IA_NA pool's VRF leaked onto the equally named PD pool *)
Definition ex_collide : list rprofile :=
  [ {| rf_name := 1; rf_fam := FNA;
       rf_pools := [ {| rp_name := 1; rp_prio := 0; rp_vrf := 7;
                        rp_cfg := Some (APool {| p_fam := V6; p_lo := 16; p_hi := 32; p_excl := [] |}) |} ] |};
    {| rf_name := 1; rf_fam := FPD;
       rf_pools := [ {| rp_name := 1; rp_prio := 0; rp_vrf := 0;
                        rp_cfg := Some (APd {| pd_net := 42540766411282592856903984951653826560; pd_nbits := 48; pd_plen := 56; pd_v4 := false |}) |} ] |} ].

(* ---------------------------------------------------------------- priority order of the profile list *)
Definition prio_le (p q : rpool) : Prop := (rp_prio p <= rp_prio q)%Z.

Lemma insert_by_prio_perm p l : Permutation (insert_by_prio p l) (p :: l).
Proof.
  induction l as [|q r IH]; simpl; [reflexivity|].
  destruct (Z.ltb (rp_prio p) (rp_prio q)); [reflexivity|].
  rewrite IH. apply perm_swap.
Qed.

Lemma insert_by_prio_sorted p l :
  StronglySorted prio_le l -> StronglySorted prio_le (insert_by_prio p l).
Proof.
  induction l as [|q r IH]; simpl; intros S.
  - constructor; constructor.
  - inversion S as [|? ? Sr Fq]; subst.
    destruct (Z.ltb_spec (rp_prio p) (rp_prio q)) as [Hlt|Hge].
    + constructor; [exact S|]. constructor; [unfold prio_le; lia|].
      eapply Forall_impl; [|exact Fq]. unfold prio_le. intros x Hx. lia.
    + constructor; [apply IH; exact Sr|].
      eapply Permutation_Forall; [symmetry; apply insert_by_prio_perm|].
      constructor; [unfold prio_le; lia | exact Fq].
Qed.

Lemma sort_by_prio_spec l :
  StronglySorted prio_le (sort_by_prio l) /\ Permutation (sort_by_prio l) l.
Proof.
  unfold sort_by_prio.
  assert (G : forall l acc, StronglySorted prio_le acc ->
            StronglySorted prio_le (fold_left (fun a p => insert_by_prio p a) l acc) /\
            Permutation (fold_left (fun a p => insert_by_prio p a) l acc) (acc ++ l)).
  { induction l0 as [|p r IH]; simpl; intros acc S.
    - rewrite app_nil_r. split; [exact S | reflexivity].
    - destruct (IH (insert_by_prio p acc) (insert_by_prio_sorted _ _ S)) as [S' P']. split; [exact S'|].
      rewrite P', insert_by_prio_perm. rewrite <- Permutation_middle. reflexivity. }
  destruct (G l [] ltac:(constructor)) as [S P]. split; [exact S | exact P].
Qed.

Lemma init_pool_lists v f pf st p g : r_lists (init_pool v f pf st p) g = r_lists st g.
Proof.
  unfold init_pool.
  set (s1 := if rp_vrf p =? 0 then st else _).
  assert (E1 : r_lists s1 g = r_lists st g) by (unfold s1; destruct (rp_vrf p =? 0); [reflexivity | apply lists_set_vrfs]).
  destruct (assoc_find key_eqb (pf, rp_name p) (r_allocs s1 f)); [exact E1|].
  destruct (rp_cfg p); [|exact E1]. rewrite lists_set_allocs. exact E1.
Qed.

Lemma fold_init_pool_lists v f pf g : forall ps st,
  r_lists (fold_left (init_pool v f pf) ps st) g = r_lists st g.
Proof. induction ps as [|p r IH]; simpl; intros st; [reflexivity|]. rewrite IH. apply init_pool_lists. Qed.

(* the list Allocate*FromProfile walks is the profile's pools: by ascending priority for IPv4,
   in configuration order for IA_NA and PD *)
Lemma init_profile_pools v st pf :
  pools_of (init_profile v st pf) (rf_fam pf) (rf_name pf) =
  map (fun p => (rf_name pf, rp_name p))
      (match rf_fam pf with F4 => sort_by_prio (rf_pools pf) | _ => rf_pools pf end).
Proof.
  unfold pools_of, init_profile. rewrite fold_init_pool_lists, lists_set.
  assert (R : rfam_eqb (rf_fam pf) (rf_fam pf) = true) by (apply rfam_eqb_eq; reflexivity).
  rewrite R. rewrite assoc_find_set_same by apply N.eqb_refl. reflexivity.
Qed.

(* ---------------------------------------------------------------- ResolveV4 / ResolveV6 *)
Lemma resolve4_inv st pf ov vrf s have obs wobs st' r :
  RInv st -> resolve4 Repaired st pf ov vrf s have obs wobs = Some (st', r) -> RInv st'.
Proof.
  unfold resolve4. intros F H. destruct have as [a|].
  - destruct (reg_step Repaired st (RReserve F4 (RA (Some a)) s wobs)) as [[st1 o]|] eqn:E; [|discriminate].
    destruct o; inversion H; subst; eapply rinv_step; eauto.
  - destruct (reg_step Repaired st (RAlloc F4 pf ov vrf s obs)) as [[st1 o]|] eqn:E; [|discriminate].
    destruct o as [k g| | | | | | |]; try discriminate.
    + destruct g; inversion H; subst. eapply rinv_step; eauto.
    + inversion H; subst. eapply rinv_step; eauto.
Qed.

(* ResolveV4 hands out either the address the caller brought (and nobody else held) or an answer of
   AllocateFromProfile *)
Lemma resolve4_answer st pf ov vrf s have obs wobs st' a pool :
  resolve4 Repaired st pf ov vrf s have obs wobs = Some (st', R4 a pool) ->
  (have = Some a /\ pool = None /\ reg_step Repaired st (RReserve F4 (RA (Some a)) s wobs) = Some (st', ROOk)) \/
  (have = None /\ exists k, pool = Some k /\
     reg_step Repaired st (RAlloc F4 pf ov vrf s obs) = Some (st', ROAns k (OA a))).
Proof.
  unfold resolve4. intros H. destruct have as [b|].
  - destruct (reg_step Repaired st (RReserve F4 (RA (Some b)) s wobs)) as [[st1 o]|] eqn:E; [|discriminate].
    destruct o; inversion H; subst. left. auto.
  - destruct (reg_step Repaired st (RAlloc F4 pf ov vrf s obs)) as [[st1 o]|] eqn:E; [|discriminate].
    destruct o as [k g| | | | | | |]; try discriminate.
    destruct g; inversion H; subst. right. split; [reflexivity|]. eauto.
Qed.

Lemma resolve6_inv st pf naov pdov vrf s hna hpd ona opd wna wpd st' r :
  RInv st -> resolve6 Repaired st pf naov pdov vrf s hna hpd ona opd wna wpd = Some (st', r) -> RInv st'.
Proof.
  unfold resolve6. intros F H.
  set (r1 := match hna with None => _ | Some a => _ end) in H.
  assert (F1 : forall st1 b na np, r1 = Some (st1, b, na, np) -> RInv st1).
  { unfold r1. intros st1 b na np E. destruct hna as [a|].
    - destruct (reg_step Repaired st (RReserve FNA (RA (Some a)) s wna)) as [[sx o]|] eqn:E1; [|discriminate].
      destruct o; inversion E; subst; eapply rinv_step; eauto.
    - destruct (reg_step Repaired st (RAlloc FNA pf naov vrf s ona)) as [[sx o]|] eqn:E1; [|discriminate].
      destruct o as [k g| | | | | | |]; try discriminate.
      + destruct g; inversion E; subst. eapply rinv_step; eauto.
      + inversion E; subst. eapply rinv_step; eauto. }
  destruct r1 as [[[[st1 b] na] np]|]; [|discriminate].
  specialize (F1 _ _ _ _ eq_refl). destruct b; [inversion H; subst; exact F1|].
  set (r2 := match hpd with None => _ | Some p => _ end) in H.
  assert (F2 : forall st2 b pd pp, r2 = Some (st2, b, pd, pp) -> RInv st2).
  { unfold r2. intros st2 b pd pp E. destruct hpd as [p|].
    - destruct (reg_step Repaired st1 (RReserve FPD (RP p) s wpd)) as [[sx o]|] eqn:E1; [|discriminate].
      destruct o; inversion E; subst; eapply rinv_step; eauto.
    - destruct (reg_step Repaired st1 (RAlloc FPD pf pdov vrf s opd)) as [[sx o]|] eqn:E1; [|discriminate].
      destruct o as [k g| | | | | | |]; try discriminate; inversion E; subst; eapply rinv_step; eauto. }
  destruct r2 as [[[[st2 b] pd] pp]|]; [|discriminate].
  inversion H; subst. eapply F2; reflexivity.
Qed.

(* ---------------------------------------------------------------- override vs VRF *)
(* Decision (notes/C01.md, "override"): a pool override is an explicit instruction (AAA attribute or
   service group) naming a pool OF THE SAME PROFILE; upstream pins "pool override bypasses VRF check"
   for all three families (registry_test.go).  The override is therefore exempt from the VRF filter
   and from the priority order, and from nothing else. *)

(* every answer that is not the override pool comes from a pool of the subscriber's VRF that is in the
   profile's list *)
Lemma alloc_non_override_vrf st f pf ov vrf s k o st' r :
  RInv st -> reg_step Repaired st (RAlloc f pf ov vrf s (Some (k, o))) = Some (st', r) ->
  (ov = 0 \/ k <> (pf, ov)) ->
  vrf_of Repaired st f k = vrf /\ In k (pools_of st f pf).
Proof.
  intros F H N. destruct (alloc_answer _ _ _ _ _ _ _ _ _ _ F H) as [_ [_ [[Ho Hk]|[l1 [l2 [E [V _]]]]]]].
  - destruct N as [N|N]; contradiction.
  - split; [exact V|]. rewrite E. apply in_or_app. right. left. reflexivity.
Qed.

(* the override pool is used whenever it exists and has something free, whatever its VRF, and it is
   always a pool of the named profile *)
Lemma alloc_override_scope st f pf ov vrf :
  ov <> 0 -> has_free st f (pf, ov) = true -> alloc_target Repaired st f pf ov vrf = Some (pf, ov).
Proof.
  intros N H. unfold alloc_target. rewrite H. apply N.eqb_neq in N. rewrite N. reflexivity.
Qed.

(* answers never leave the named profile: the lists only hold keys of their own profile *)
Definition LInv (st : rstate) : Prop :=
  forall f pf l, assoc_find N.eqb pf (r_lists st f) = Some l -> forall k, In k l -> fst k = pf.

Lemma assoc_find_set_N {B} k k' (x : B) l :
  assoc_find N.eqb k (assoc_set N.eqb k' x l) = if N.eqb k k' then Some x else assoc_find N.eqb k l.
Proof.
  destruct (N.eqb_spec k k') as [->|Ne].
  - apply assoc_find_set_same. apply N.eqb_refl.
  - apply assoc_find_set_other; [apply N.eqb_eq | exact Ne].
Qed.

Lemma linv_init_profile v st pf : LInv st -> LInv (init_profile v st pf).
Proof.
  intros L f p l H k Hk. unfold init_profile in H. rewrite fold_init_pool_lists, lists_set in H.
  destruct (rfam_eqb (rf_fam pf) f) eqn:Ef; [|eapply L; eauto].
  rewrite assoc_find_set_N in H. destruct (N.eqb_spec p (rf_name pf)) as [->|Ne].
  - inversion H; subst l. apply in_map_iff in Hk. destruct Hk as [q [<- _]]. reflexivity.
  - apply rfam_eqb_eq in Ef; subst f. eapply L; eauto.
Qed.

Lemma linv_init v pfs : LInv (reg_init v pfs).
Proof.
  unfold reg_init. assert (G : forall l st, LInv st -> LInv (fold_left (init_profile v) l st)).
  { induction l as [|p r IH]; simpl; intros st F; [exact F|]. apply IH, linv_init_profile, F. }
  apply G. intros f pf l H. destruct f; discriminate.
Qed.

Lemma lists_on_pool v st f k mk st' o g : on_pool v st f k mk = Some (st', o) -> r_lists st' g = r_lists st g.
Proof.
  unfold on_pool. intros H.
  destruct (assoc_find key_eqb k (r_allocs st f)) as [[ac ps]|]; [|discriminate].
  destruct (mk ac); [|discriminate].
  destruct (pool_step v (acfg_pool ac) ps c) as [[ps' o']|]; [|discriminate].
  inversion H; subst. apply lists_set_allocs.
Qed.

Lemma lists_walk v st f x obs mk st' o g : walk v st f x obs mk = Some (st', o) -> r_lists st' g = r_lists st g.
Proof.
  unfold walk. intros H. destruct obs as [k|].
  - destruct (assoc_find key_eqb k (r_allocs st f)) as [[ac ps]|]; [|discriminate].
    destruct (acontains v ac x); [|discriminate].
    destruct (on_pool v st f k mk) as [[st1 o1]|] eqn:E; [|discriminate].
    inversion H; subst. eapply lists_on_pool; eauto.
  - destruct (existsb _ _); inversion H; subst; reflexivity.
Qed.

Lemma lists_step v st k st' o g : reg_step v st k = Some (st', o) -> r_lists st' g = r_lists st g.
Proof.
  intros H.
  destruct k as [f pf ov vrf s obs | f k x | f k x s obs | f x s obs | f k x obs | f x obs | b | f k | f pf].
  - cbn [reg_step] in H.
    destruct (alloc_target v st f pf ov vrf) as [t|]; destruct obs as [[k' a]|]; try discriminate.
    + destruct (key_eqb t k'); [|discriminate].
      destruct (on_pool v st f t (mk_alloc v s a)) as [[st1 o1]|] eqn:E; [|discriminate].
      inversion H; subst. eapply lists_on_pool; eauto.
    + inversion H; subst; reflexivity.
  - cbn [reg_step] in H.
    destruct (on_pool v st f k (mk_release v x)) as [[st1 o1]|] eqn:E; inversion H; subst; [|reflexivity].
    eapply lists_on_pool; eauto.
  - cbn [reg_step] in H. destruct (assoc_find key_eqb k (r_allocs st f)).
    + destruct (on_pool v st f k (mk_reserve v x s)) as [[st1 o1]|] eqn:E; [|discriminate].
      inversion H; subst. eapply lists_on_pool; eauto.
    + destruct (reserve_walk_inv _ _ _ _ _ _ _ _ H) as [r0 [W _]]. eapply lists_walk; eauto.
  - cbn [reg_step] in H. destruct (reserve_walk_inv _ _ _ _ _ _ _ _ H) as [r0 [W _]]. eapply lists_walk; eauto.
  - cbn [reg_step] in H. destruct (assoc_find key_eqb k (r_allocs st f)).
    + destruct (on_pool v st f k (mk_release v x)) as [[st1 o1]|] eqn:E; [|discriminate].
      inversion H; subst. eapply lists_on_pool; eauto.
    + eapply lists_walk; eauto.
  - destruct f.
    + change (Some (map_pools v st F4 (mk_release v x), ROOk) = Some (st', o)) in H.
      apply some_pair_inj in H. destruct H as [<- _]. apply lists_set_allocs.
    + change (Some (map_pools v st FNA (mk_release v x), ROOk) = Some (st', o)) in H.
      apply some_pair_inj in H. destruct H as [<- _]. apply lists_set_allocs.
    + change (walk v st FPD x obs (mk_release v x) = Some (st', o)) in H. eapply lists_walk; eauto.
  - change (Some (map_pools v (map_pools v (map_pools v st F4 (fun _ => Some (CSetDir b)))
                                           FNA (fun _ => Some (CSetDir b)))
                      FPD (fun _ => Some (CSetDir b)), ROOk) = Some (st', o)) in H.
    apply some_pair_inj in H. destruct H as [<- _]. unfold map_pools. rewrite !lists_set_allocs. reflexivity.
  - cbn [reg_step] in H. destruct (assoc_find key_eqb k (r_allocs st f)) as [[c ps]|]; inversion H; subst; reflexivity.
  - cbn [reg_step] in H. inversion H; subst; reflexivity.
Qed.

Lemma linv_run v : forall ks st st' evs, LInv st -> reg_run_from v st ks = Some (st', evs) -> LInv st'.
Proof.
  induction ks as [|k r IH]; simpl; intros st st' evs F H.
  - inversion H; subst; exact F.
  - destruct (reg_step v st k) as [[st1 o]|] eqn:E; [|discriminate].
    destruct (reg_run_from v st1 r) as [[st2 evs']|] eqn:R; [|discriminate].
    inversion H; subst. eapply IH; [|eauto].
    intros f pf l Hl. rewrite (lists_step _ _ _ _ _ f E) in Hl. eapply F; eauto.
Qed.

Lemma alloc_within_profile st f pf ov vrf s k o st' r :
  RInv st -> LInv st -> reg_step Repaired st (RAlloc f pf ov vrf s (Some (k, o))) = Some (st', r) -> fst k = pf.
Proof.
  intros F L H. destruct (alloc_answer _ _ _ _ _ _ _ _ _ _ F H) as [_ [_ [[Ho Hk]|[l1 [l2 [E _]]]]]].
  - subst k; reflexivity.
  - unfold pools_of in E. destruct (assoc_find N.eqb pf (r_lists st f)) as [l|] eqn:A.
    + eapply L; [exact A|]. rewrite E. apply in_or_app. right. left. reflexivity.
    + destruct l1; discriminate.
Qed.

(* a registry call changes an allocator's lease map only by the ledger update of the pool call it makes *)
Lemma on_pool_ledger v st f k mk st' o :
  on_pool v st f k mk = Some (st', o) ->
  exists ac ps ps' pc, assoc_find key_eqb k (r_allocs st f) = Some (ac, ps) /\ mk ac = Some pc /\
    assoc_find key_eqb k (r_allocs st' f) = Some (ac, ps') /\ leases ps' = ledger_step (leases ps) (pc, o).
Proof.
  unfold on_pool. intros H.
  destruct (assoc_find key_eqb k (r_allocs st f)) as [[ac ps]|] eqn:A; [|discriminate].
  destruct (mk ac) as [pc|] eqn:M; [|discriminate].
  destruct (pool_step v (acfg_pool ac) ps pc) as [[ps' o']|] eqn:C; [|discriminate].
  inversion H; subst. exists ac, ps, ps', pc. repeat split; auto.
  - rewrite allocs_set. assert (rfam_eqb f f = true) as R by (apply rfam_eqb_eq; reflexivity). rewrite R.
    apply assoc_find_set_same. intros a. apply key_eqb_eq. reflexivity.
  - eapply ledger_step_agrees; eauto.
Qed.

(* ---------------------------------------------------------------- configuration: gateway and excludes *)
Lemma pool_geom_excl v lo hi excl c : pool_geom v lo hi excl = Some c -> p_excl c = excl.
Proof.
  unfold pool_geom. destruct (range_terminates v (unmap lo) (unmap hi)); [|discriminate].
  destruct (fam_eqb (fst (unmap lo)) (fst (unmap hi))); intros H; inversion H; reflexivity.
Qed.

Lemma excluded_in c g : In g (p_excl c) -> assignable c (unmap g) = false.
Proof.
  intros H. unfold assignable. assert (is_excluded c (unmap g) = true) as E.
  { unfold is_excluded. apply mem_addr_In. apply in_map. exact H. }
  rewrite E. apply andb_false_r.
Qed.

Lemma expand_all_incl v : forall l ex e xs,
  expand_all v l = Some ex -> In e l -> expand_excl v e = Some xs -> incl xs ex.
Proof.
  induction l as [|e0 r IH]; simpl; intros ex e xs H Hin He; [contradiction|].
  destruct (expand_excl v e0) as [a|] eqn:E0; [|discriminate].
  destruct (expand_all v r) as [b|] eqn:Er; [|discriminate]. inversion H; subst ex.
  destruct Hin as [->|Hin].
  - rewrite E0 in He. inversion He; subst. apply incl_appl, incl_refl.
  - apply incl_appr. eapply IH; eauto.
Qed.

Lemma spec_geom_excl v f sp c :
  spec_geom v f sp = Some (Some (APool c)) ->
  exists ex, p_excl c = (match eff_gw f sp with SAddr g => [g] | _ => [] end) ++ ex /\
             (match f with F4 => expand_all v (sp_excl sp) | _ => Some [] end) = Some ex.
Proof.
  unfold spec_geom. destruct (sp_net sp) as [[na bits]|]; [|discriminate].
  destruct f; try (destruct (pd_new v _); discriminate).
  - destruct (match sp_lo sp with SEmpty => _ | SJunk => _ | SAddr a => _ end) as [lo|]; [|discriminate].
    destruct (match sp_hi sp with SEmpty => _ | SJunk => _ | SAddr a => _ end) as [hi|]; [|discriminate].
    destruct (expand_all v (sp_excl sp)) as [ex|]; [|discriminate].
    destruct (pool_geom v lo hi _) as [c'|] eqn:G; [|discriminate].
    intros H; inversion H; subst c'. exists ex. split; [eapply pool_geom_excl; eauto | reflexivity].
  - destruct (match sp_lo sp with SEmpty => _ | SJunk => _ | SAddr a => _ end) as [lo|]; [|discriminate].
    destruct (match sp_hi sp with SEmpty => _ | SJunk => _ | SAddr a => _ end) as [hi|]; [|discriminate].
    destruct (pool_geom v lo hi _) as [c'|] eqn:G; [|discriminate].
    intros H; inversion H; subst c'. exists []. split; [eapply pool_geom_excl; eauto | reflexivity].
Qed.

(* the gateway (pool's, else the IPv4 profile's) is never assignable in the allocator built from the
   configuration; neither is an address named by an exclude entry or lying in an exclude range *)
Lemma spec_gateway_excluded v f sp c g :
  spec_geom v f sp = Some (Some (APool c)) -> eff_gw f sp = SAddr g -> assignable c (unmap g) = false.
Proof.
  intros H E. destruct (spec_geom_excl _ _ _ _ H) as [ex [P _]]. rewrite E in P.
  apply excluded_in. rewrite P. left. reflexivity.
Qed.

Lemma spec_exclude_single v sp c a :
  spec_geom v F4 sp = Some (Some (APool c)) -> In (SAddr a, SEmpty) (sp_excl sp) -> assignable c (unmap a) = false.
Proof.
  intros H Hin. destruct (spec_geom_excl _ _ _ _ H) as [ex [P X]].
  apply excluded_in. rewrite P. apply in_or_app. right.
  eapply (expand_all_incl v _ _ _ [a] X Hin); [reflexivity | left; reflexivity].
Qed.

Lemma spec_exclude_range v sp c a b n :
  spec_geom v F4 sp = Some (Some (APool c)) -> In (SAddr a, SAddr b) (sp_excl sp) ->
  fst a = fst b -> snd a <= n <= snd b -> assignable c (unmap (fst a, n)) = false.
Proof.
  intros H Hin Ef Hn. destruct (spec_geom_excl _ _ _ _ H) as [ex [P X]].
  assert (exists xs, expand_excl v (SAddr a, SAddr b) = Some xs) as [xs Hx].
  { clear -X Hin. revert ex X. induction (sp_excl sp) as [|e r IH]; [contradiction|]. simpl. intros ex X.
    destruct (expand_excl v e) as [xa|] eqn:E0; [|discriminate].
    destruct (expand_all v r) as [xb|] eqn:Er; [|discriminate].
    destruct Hin as [->|Hin]; [eauto | eapply IH; eauto]. }
  apply excluded_in. rewrite P. apply in_or_app. right.
  eapply (expand_all_incl v _ _ _ xs X Hin Hx).
  simpl in Hx. destruct (range_terminates v a b); [|discriminate].
  assert (fam_eqb (fst a) (fst b) = true) as Eb by (apply fam_eqb_eq; exact Ef). rewrite Eb in Hx.
  inversion Hx; subst xs. apply in_map_iff. exists (N.to_nat (n - snd a)). split.
  - f_equal. lia.
  - apply in_seq. lia.
Qed.

(* ---------------------------------------------------------------- what VRF a pool ends up with *)
(* the VRF the configuration gives pool key k of family f: the last non-empty VRF written for that key
   by a pool list of the SAME family *)
Definition cfg_vrf_pool (f : rfam) (k : key) (g : rfam) (pfname : N) (acc : N) (p : rpool) : N :=
  if rfam_eqb g f && key_eqb (pfname, rp_name p) k && negb (N.eqb (rp_vrf p) 0) then rp_vrf p else acc.
Definition cfg_vrf_profile (f : rfam) (k : key) (acc : N) (pf : rprofile) : N :=
  fold_left (cfg_vrf_pool f k (rf_fam pf) (rf_name pf)) (rf_pools pf) acc.
Definition cfg_vrf (f : rfam) (k : key) (pfs : list rprofile) : N := fold_left (cfg_vrf_profile f k) pfs 0.

Lemma vrfs_set_allocs st f m : r_vrfs (set_allocs st f m) = r_vrfs st.
Proof. destruct f; reflexivity. Qed.
Lemma vrfs_set_lists st f l : r_vrfs (set_lists st f l) = r_vrfs st.
Proof. destruct f; reflexivity. Qed.

Lemma init_pool_vrf g pf st p f k :
  vrf_of Repaired (init_pool Repaired g pf st p) f k = cfg_vrf_pool f k g pf (vrf_of Repaired st f k) p.
Proof.
  unfold init_pool, vrf_of, cfg_vrf_pool.
  set (s1 := if rp_vrf p =? 0 then st else _).
  assert (E2 : forall s, r_vrfs (match assoc_find key_eqb (pf, rp_name p) (r_allocs s g) with
                                  | Some _ => s
                                  | None => match rp_cfg p with
                                            | Some c => set_allocs s g (r_allocs s g ++ [((pf, rp_name p), (c, pool_init (acfg_pool c)))])
                                            | None => s end end) = r_vrfs s).
  { intros s. destruct (assoc_find key_eqb (pf, rp_name p) (r_allocs s g)); [reflexivity|].
    destruct (rp_cfg p); [|reflexivity]. apply vrfs_set_allocs. }
  rewrite E2. unfold s1. destruct (N.eqb_spec (rp_vrf p) 0) as [Z|NZ].
  - rewrite andb_false_r. reflexivity.
  - rewrite andb_true_r. simpl r_vrfs. unfold vkey; simpl shared_vrf. cbv iota.
    destruct (rfam_eqb g f && key_eqb (pf, rp_name p) k) eqn:E.
    + apply andb_true_iff in E. destruct E as [E1 E3]. apply rfam_eqb_eq in E1. apply key_eqb_eq in E3. subst.
      rewrite assoc_find_set_same; [reflexivity|]. intros a. apply vkey_eqb_eq. reflexivity.
    + rewrite assoc_find_set_other; [reflexivity | apply vkey_eqb_eq |].
      intros Q. inversion Q; subst. rewrite (proj2 (rfam_eqb_eq g g) eq_refl) in E.
      rewrite (proj2 (key_eqb_eq _ _) eq_refl) in E. discriminate.
Qed.

Lemma init_profile_vrf st pf f k :
  vrf_of Repaired (init_profile Repaired st pf) f k = cfg_vrf_profile f k (vrf_of Repaired st f k) pf.
Proof.
  unfold init_profile, cfg_vrf_profile.
  set (st1 := set_lists st _ _).
  assert (E : vrf_of Repaired st1 f k = vrf_of Repaired st f k) by (unfold vrf_of, st1; rewrite vrfs_set_lists; reflexivity).
  rewrite <- E. clear E. generalize st1. induction (rf_pools pf) as [|p r IH]; intros s; simpl; [reflexivity|].
  rewrite IH, init_pool_vrf. reflexivity.
Qed.

(* after registry construction, the VRF of every pool is what the configuration of ITS family says *)
Lemma reg_init_vrf pfs f k : vrf_of Repaired (reg_init Repaired pfs) f k = cfg_vrf f k pfs.
Proof.
  unfold reg_init, cfg_vrf.
  assert (G : forall l st, vrf_of Repaired (fold_left (init_profile Repaired) l st) f k =
                           fold_left (cfg_vrf_profile f k) l (vrf_of Repaired st f k)).
  { induction l as [|p r IH]; intros st; simpl; [reflexivity|]. rewrite IH, init_profile_vrf. reflexivity. }
  rewrite G. reflexivity.
Qed.

Lemma vrfs_step v st k st' o : reg_step v st k = Some (st', o) -> r_vrfs st' = r_vrfs st.
Proof.
  intros H.
  assert (OP : forall f k mk s1 o1, on_pool v st f k mk = Some (s1, o1) -> r_vrfs s1 = r_vrfs st).
  { unfold on_pool. intros f k0 mk s1 o1 H0.
    destruct (assoc_find key_eqb k0 (r_allocs st f)) as [[ac ps]|]; [|discriminate].
    destruct (mk ac); [|discriminate].
    destruct (pool_step v (acfg_pool ac) ps c) as [[ps' o']|]; [|discriminate].
    inversion H0; subst. apply vrfs_set_allocs. }
  assert (WK : forall f x obs mk s1 o1, walk v st f x obs mk = Some (s1, o1) -> r_vrfs s1 = r_vrfs st).
  { unfold walk. intros f x obs mk s1 o1 H0. destruct obs as [k0|].
    - destruct (assoc_find key_eqb k0 (r_allocs st f)) as [[ac ps]|]; [|discriminate].
      destruct (acontains v ac x); [|discriminate].
      destruct (on_pool v st f k0 mk) as [[s2 o2]|] eqn:E; [|discriminate].
      inversion H0; subst. eapply OP; eauto.
    - destruct (existsb _ _); inversion H0; subst; reflexivity. }
  destruct k as [f pf ov vrf s obs | f k x | f k x s obs | f x s obs | f k x obs | f x obs | b | f k | f pf].
  - cbn [reg_step] in H.
    destruct (alloc_target v st f pf ov vrf) as [t|]; destruct obs as [[k' a]|]; try discriminate.
    + destruct (key_eqb t k'); [|discriminate].
      destruct (on_pool v st f t (mk_alloc v s a)) as [[st1 o1]|] eqn:E; [|discriminate].
      inversion H; subst. eapply OP; eauto.
    + inversion H; subst; reflexivity.
  - cbn [reg_step] in H.
    destruct (on_pool v st f k (mk_release v x)) as [[st1 o1]|] eqn:E; inversion H; subst; [|reflexivity].
    eapply OP; eauto.
  - cbn [reg_step] in H. destruct (assoc_find key_eqb k (r_allocs st f)).
    + destruct (on_pool v st f k (mk_reserve v x s)) as [[st1 o1]|] eqn:E; [|discriminate].
      inversion H; subst. eapply OP; eauto.
    + destruct (reserve_walk_inv _ _ _ _ _ _ _ _ H) as [r0 [W _]]. eapply WK; eauto.
  - cbn [reg_step] in H. destruct (reserve_walk_inv _ _ _ _ _ _ _ _ H) as [r0 [W _]]. eapply WK; eauto.
  - cbn [reg_step] in H. destruct (assoc_find key_eqb k (r_allocs st f)).
    + destruct (on_pool v st f k (mk_release v x)) as [[st1 o1]|] eqn:E; [|discriminate].
      inversion H; subst. eapply OP; eauto.
    + eapply WK; eauto.
  - destruct f.
    + change (Some (map_pools v st F4 (mk_release v x), ROOk) = Some (st', o)) in H.
      apply some_pair_inj in H. destruct H as [<- _]. apply vrfs_set_allocs.
    + change (Some (map_pools v st FNA (mk_release v x), ROOk) = Some (st', o)) in H.
      apply some_pair_inj in H. destruct H as [<- _]. apply vrfs_set_allocs.
    + change (walk v st FPD x obs (mk_release v x) = Some (st', o)) in H. eapply WK; eauto.
  - change (Some (map_pools v (map_pools v (map_pools v st F4 (fun _ => Some (CSetDir b)))
                                           FNA (fun _ => Some (CSetDir b)))
                      FPD (fun _ => Some (CSetDir b)), ROOk) = Some (st', o)) in H.
    apply some_pair_inj in H. destruct H as [<- _]. unfold map_pools. rewrite !vrfs_set_allocs. reflexivity.
  - cbn [reg_step] in H. destruct (assoc_find key_eqb k (r_allocs st f)) as [[c ps]|]; inversion H; subst; reflexivity.
  - cbn [reg_step] in H. inversion H; subst; reflexivity.
Qed.

Lemma vrf_run v : forall ks st st' evs, reg_run_from v st ks = Some (st', evs) -> r_vrfs st' = r_vrfs st.
Proof.
  induction ks as [|k r IH]; simpl; intros st st' evs H.
  - inversion H; subst; reflexivity.
  - destruct (reg_step v st k) as [[st1 o]|] eqn:E; [|discriminate].
    destruct (reg_run_from v st1 r) as [[st2 evs']|] eqn:R; [|discriminate].
    inversion H; subst. rewrite (IH _ _ _ R). eapply vrfs_step; eauto.
Qed.

Lemma reachable_vrf pfs ks st evs f k :
  reg_run_from Repaired (reg_init Repaired pfs) ks = Some (st, evs) -> vrf_of Repaired st f k = cfg_vrf f k pfs.
Proof.
  intros H. rewrite <- reg_init_vrf. unfold vrf_of. rewrite (vrf_run _ _ _ _ _ H). reflexivity.
Qed.

(* ---------------------------------------------------------------- ResolveV4 stakes what it offers *)
(* Whatever ResolveV4 returns is, after the call, leased to the calling session in an allocator of the
   registry - by the allocation it just made or by the reservation it just made - unless no IPv4
   allocator contains the address (an unmanaged, e.g. AAA-assigned, address).  There is no third way:
   in particular nothing a context remembers (AllocatedPool) substitutes for the reservation. *)
Lemma resolve4_staked v st pf ov vrf s have obs wobs st' a pool :
  resolve4 v st pf ov vrf s have obs wobs = Some (st', R4 a pool) ->
  (exists k ac ps' a', (a' = a \/ a' = unmap a) /\
      assoc_find key_eqb k (r_allocs st' F4) = Some (ac, ps') /\ lm_lookup a' (leases ps') = Some s) \/
  (have = Some a /\ st' = st /\
   forall e, In e (r_allocs st F4) -> acontains v (fst (snd e)) (RA (Some a)) = false).
Proof.
  unfold resolve4. intros H. destruct have as [b|].
  - (* reservation of the address the context carries *)
    destruct (reg_step v st (RReserve F4 (RA (Some b)) s wobs)) as [[st1 o]|] eqn:E; [|discriminate].
    destruct o; inversion H; subst; clear H.
    cbn [reg_step] in E.
    destruct (reserve_walk_inv _ _ _ _ _ _ _ _ E) as [r0 [W [<-|[X _]]]]; [|discriminate X]. clear E. rename W into E.
    unfold walk in E. destruct wobs as [k|].
    + destruct (assoc_find key_eqb k (r_allocs st F4)) as [[ac ps]|] eqn:A; [|discriminate].
      destruct (acontains v ac (RA (Some a))) eqn:C; [|discriminate].
      destruct (on_pool v st F4 k (mk_reserve v (RA (Some a)) s)) as [[st2 o2]|] eqn:OP; [|discriminate].
      destruct (on_pool_ledger _ _ _ _ _ _ _ OP) as [ac' [ps0 [ps' [pc [A0 [MK [A1 L]]]]]]].
      rewrite A in A0. inversion A0; subst ac' ps0.
      destruct ac as [c|c]; [|discriminate C].
      unfold mk_reserve, akey, norm in MK. inversion MK; subst pc.
      injection E as Est Eo. subst st2. left. exists k, (APool c), ps', (unmap a).
      split; [right; reflexivity|]. split; [exact A1|].
      destruct o2; try discriminate Eo. rewrite L. cbn [ledger_step].
      rewrite lm_lookup_insert, addr_eqb_refl. reflexivity.
    + destruct (existsb _ _) eqn:X; [discriminate|]. inversion E; subst. right.
      split; [reflexivity|]. split; [reflexivity|]. intros e He.
      destruct (acontains v (fst (snd e)) (RA (Some a))) eqn:C; [|reflexivity].
      assert (existsb (fun e0 => acontains v (fst (snd e0)) (RA (Some a))) (r_allocs st' F4) = true)
        by (apply existsb_exists; exists e; auto). congruence.
  - (* allocation *)
    destruct (reg_step v st (RAlloc F4 pf ov vrf s obs)) as [[st1 o]|] eqn:E; [|discriminate].
    destruct o as [k g| | | | | | |]; try discriminate. destruct g as [a0|]; [|discriminate].
    inversion H; subst; clear H.
    cbn [reg_step] in E.
    destruct (alloc_target v st F4 pf ov vrf) as [t|]; destruct obs as [[k' o']|]; try discriminate.
    destruct (key_eqb t k'); [|discriminate].
    destruct (on_pool v st F4 t (mk_alloc v s o')) as [[st2 o2]|] eqn:OP; [|discriminate].
    inversion E; subst; clear E.
    unfold on_pool in OP.
    destruct (assoc_find key_eqb k (r_allocs st F4)) as [[ac ps]|] eqn:A; [|discriminate].
    unfold mk_alloc in OP. destruct ac as [c|c]; [|discriminate OP].
    cbn [aobs_key] in OP. cbn [pool_step] in OP.
    destruct (mem_addr a (free ps)); [|discriminate]. inversion OP; subst; clear OP.
    left. exists k, (APool c), {| free := remove_first a (free ps); leases := lm_insert a s (leases ps); asc := asc ps |}, a.
    split; [left; reflexivity|]. split.
    + try rewrite allocs_set. cbn [rfam_eqb r_allocs set_allocs r_a4]. apply assoc_find_set_same. intros x. apply key_eqb_eq. reflexivity.
    + cbn [leases]. rewrite lm_lookup_insert, addr_eqb_refl. reflexivity.
Qed.

Lemma resolve4_ctx_staked v st s cx obs wobs st' cx' a pool :
  resolve4_ctx v st s cx obs wobs = Some (st', cx', R4 a pool) ->
  (exists k ac ps' a', (a' = a \/ a' = unmap a) /\
      assoc_find key_eqb k (r_allocs st' F4) = Some (ac, ps') /\ lm_lookup a' (leases ps') = Some s) \/
  (c4_addr cx = Some a /\ st' = st /\
   forall e, In e (r_allocs st F4) -> acontains v (fst (snd e)) (RA (Some a)) = false).
Proof.
  unfold resolve4_ctx. intros H.
  destruct (resolve4 v st (c4_pf cx) (c4_ov cx) (c4_vrf cx) s (c4_addr cx) obs wobs) as [[st1 r]|] eqn:E; [|discriminate].
  assert (st1 = st' /\ r = R4 a pool) as [-> ->].
  { destruct r as [|a0 [k|]]; inversion H; subst; auto. }
  eapply resolve4_staked; eauto.
Qed.

(* ---------------------------------------------------------------- staking, generically (any family) *)
Lemma on_pool_frame v st f k mk st' o g : on_pool v st f k mk = Some (st', o) -> f <> g -> r_allocs st' g = r_allocs st g.
Proof.
  unfold on_pool. intros H N.
  destruct (assoc_find key_eqb k (r_allocs st f)) as [[ac ps]|]; [|discriminate].
  destruct (mk ac); [|discriminate].
  destruct (pool_step v (acfg_pool ac) ps c) as [[ps' o']|]; [|discriminate].
  inversion H; subst. rewrite allocs_set.
  destruct (rfam_eqb f g) eqn:E; [apply rfam_eqb_eq in E; contradiction | reflexivity].
Qed.

(* an answer of Allocate*FromProfile is, afterwards, leased to the session in the answering allocator *)
Lemma alloc_staked v st f pf ov vrf s obs st' k o :
  reg_step v st (RAlloc f pf ov vrf s obs) = Some (st', ROAns k o) ->
  (exists ac ps' a, assoc_find key_eqb k (r_allocs st' f) = Some (ac, ps') /\
                    aobs_key v ac o = Some a /\ lm_lookup a (leases ps') = Some s) /\
  (forall g, f <> g -> r_allocs st' g = r_allocs st g).
Proof.
  intros H. cbn [reg_step] in H.
  destruct (alloc_target v st f pf ov vrf) as [t|]; destruct obs as [[k' o']|]; try discriminate.
  destruct (key_eqb t k') eqn:EK; [|discriminate].
  destruct (on_pool v st f t (mk_alloc v s o')) as [[st2 o2]|] eqn:OP; [|discriminate].
  inversion H; subst; clear H. split; [|intros g N; eapply on_pool_frame; eauto].
  destruct (on_pool_ledger _ _ _ _ _ _ _ OP) as [ac [ps0 [ps' [pc [A0 [MK [A1 L]]]]]]].
  unfold mk_alloc in MK. destruct (aobs_key v ac o) as [a|] eqn:AK; [|discriminate]. inversion MK; subst pc.
  exists ac, ps', a. split; [exact A1|]. split; [exact AK|].
  (* the pool call answered OAddr a *)
  unfold on_pool in OP. rewrite A0 in OP. unfold mk_alloc in OP. rewrite AK in OP. cbn [pool_step] in OP.
  destruct (mem_addr a (free ps0)); [|discriminate]. inversion OP; subst.
  rewrite L. cbn [ledger_step]. rewrite lm_lookup_insert, addr_eqb_refl. reflexivity.
Qed.

Lemma acontains_akey v ac x : acontains v ac x = true -> exists a, akey v ac x = Some a.
Proof.
  destruct ac as [c|c], x as [a|p]; simpl; try discriminate.
  - unfold contains. destruct (norm a) as [b|]; [eauto | discriminate].
  - destruct (prefix_to_index v c p) as [i|]; [eauto | discriminate].
Qed.

(* a granted Reserve* walk: leased to the session in the allocator the walk stopped at, or no allocator
   of the family contains the value and nothing changed *)
Lemma reserve_staked v st f x s w st' :
  reg_step v st (RReserve f x s w) = Some (st', ROOk) ->
  ((exists k ac ps' a, assoc_find key_eqb k (r_allocs st' f) = Some (ac, ps') /\
                       akey v ac x = Some a /\ lm_lookup a (leases ps') = Some s) \/
   (st' = st /\ forall e, In e (r_allocs st f) -> acontains v (fst (snd e)) x = false)) /\
  (forall g, f <> g -> r_allocs st' g = r_allocs st g).
Proof.
  intros H. cbn [reg_step] in H.
  destruct (reserve_walk_inv _ _ _ _ _ _ _ _ H) as [r0 [W [<-|[X _]]]]; [|discriminate X]. clear H. rename W into H.
  unfold walk in H. destruct w as [k|].
  - destruct (assoc_find key_eqb k (r_allocs st f)) as [[ac ps]|] eqn:A; [|discriminate].
    destruct (acontains v ac x) eqn:C; [|discriminate].
    destruct (on_pool v st f k (mk_reserve v x s)) as [[st2 o2]|] eqn:OP; [|discriminate].
    injection H as Est Eo. subst st2. split; [|intros g N; eapply on_pool_frame; eauto].
    destruct (on_pool_ledger _ _ _ _ _ _ _ OP) as [ac' [ps0 [ps' [pc [A0 [MK [A1 L]]]]]]].
    rewrite A in A0. inversion A0; subst ac' ps0.
    destruct (acontains_akey _ _ _ C) as [a AK].
    unfold mk_reserve in MK. rewrite AK in MK. inversion MK; subst pc.
    left. exists k, ac, ps', a. split; [exact A1|]. split; [exact AK|].
    destruct o2; try discriminate Eo. rewrite L. cbn [ledger_step].
    rewrite lm_lookup_insert, addr_eqb_refl. reflexivity.
  - destruct (existsb _ _) eqn:X; [discriminate|]. inversion H; subst. split; [|reflexivity].
    right. split; [reflexivity|]. intros e He.
    destruct (acontains v (fst (snd e)) x) eqn:C; [|reflexivity].
    assert (existsb (fun e0 => acontains v (fst (snd e0)) x) (r_allocs st' f) = true)
      by (apply existsb_exists; exists e; auto). congruence.
Qed.

Lemma reserve_frame v st f x s w st' r g :
  reg_step v st (RReserve f x s w) = Some (st', r) -> f <> g -> r_allocs st' g = r_allocs st g.
Proof.
  intros H N. cbn [reg_step] in H. destruct (reserve_walk_inv _ _ _ _ _ _ _ _ H) as [r0 [W _]].
  unfold walk in W. destruct w as [k|].
  - destruct (assoc_find key_eqb k (r_allocs st f)) as [[ac ps]|]; [|discriminate].
    destruct (acontains v ac x); [|discriminate].
    destruct (on_pool v st f k (mk_reserve v x s)) as [[s2 o2]|] eqn:OP; [|discriminate].
    inversion W; subst. eapply on_pool_frame; eauto.
  - destruct (existsb _ _); inversion W; subst; reflexivity.
Qed.

(* ResolveV6: whatever address or prefix the context carries after a call that did not return nil is
   leased to the calling session (IA_NA address in an IA_NA allocator, prefix in a PD allocator) through
   the allocation or reservation this very call made, or no allocator of that family contains it *)
Definition staked (v : variant) (st' : rstate) (f : rfam) (s : sid) (x : rarg) : Prop :=
  exists k ac ps' a, assoc_find key_eqb k (r_allocs st' f) = Some (ac, ps') /\
                     akey v ac x = Some a /\ lm_lookup a (leases ps') = Some s.
Definition staked_ans (v : variant) (st' : rstate) (f : rfam) (s : sid) (o : gobs) : Prop :=
  exists k ac ps' a, assoc_find key_eqb k (r_allocs st' f) = Some (ac, ps') /\
                     aobs_key v ac o = Some a /\ lm_lookup a (leases ps') = Some s.
Definition unmanaged (v : variant) (st : rstate) (f : rfam) (x : rarg) : Prop :=
  forall e, In e (r_allocs st f) -> acontains v (fst (snd e)) x = false.

Lemma resolve6_staked v st pf naov pdov vrf s hna hpd ona opd wna wpd st' r :
  resolve6 v st pf naov pdov vrf s hna hpd ona opd wna wpd = Some (st', r) -> r6_nil r = false ->
  (forall a, r6_na r = Some a ->
     match hna with
     | None => staked_ans v st' FNA s (OA a)
     | Some b => b = a /\ (staked v st' FNA s (RA (Some a)) \/ unmanaged v st FNA (RA (Some a)))
     end) /\
  (forall o, r6_pd r = Some o -> hpd = None /\ staked_ans v st' FPD s o) /\
  (forall p, hpd = Some p -> staked v st' FPD s (RP p) \/ unmanaged v st FPD (RP p)).
Proof.
  unfold resolve6. intros H NN.
  (* IA_NA part *)
  set (r1 := match hna with None => _ | Some a => _ end) in H.
  assert (R1 : forall st1 b na np, r1 = Some (st1, b, na, np) ->
            r_allocs st1 FPD = r_allocs st FPD /\
            (b = false -> forall a, na = Some a ->
               match hna with
               | None => staked_ans v st1 FNA s (OA a)
               | Some b0 => b0 = a /\ (staked v st1 FNA s (RA (Some a)) \/ (st1 = st /\ unmanaged v st FNA (RA (Some a))))
               end)).
  { unfold r1. intros st1 b na np E. destruct hna as [a0|].
    - destruct (reg_step v st (RReserve FNA (RA (Some a0)) s wna)) as [[sx o]|] eqn:E1; [|discriminate].
      destruct o; inversion E; subst; clear E.
      + destruct (reserve_staked _ _ _ _ _ _ _ E1) as [S F]. split; [apply F; discriminate|].
        intros _ a Ha. inversion Ha; subst a. split; [reflexivity|].
        destruct S as [[k [ac [ps' [a' [A [K L]]]]]]|[-> U]]; [left; exists k, ac, ps', a'; auto | right; auto].
      + split; [eapply reserve_frame; eauto; discriminate | discriminate].
    - destruct (reg_step v st (RAlloc FNA pf naov vrf s ona)) as [[sx o]|] eqn:E1; [|discriminate].
      destruct o as [k g| | | | | | |]; try discriminate.
      + destruct g as [a1|]; [|discriminate]. inversion E; subst; clear E.
        destruct (alloc_staked _ _ _ _ _ _ _ _ _ _ _ E1) as [S F]. split; [apply F; discriminate|].
        intros _ a Ha. inversion Ha; subst a. destruct S as [ac [ps' [a' [A [K L]]]]]. exists k, ac, ps', a'. auto.
      + inversion E; subst; clear E. split; [|intros _ a Ha; discriminate].
        cbn [reg_step] in E1. destruct (alloc_target v st FNA pf naov vrf); destruct ona as [[? ?]|]; try discriminate.
        * destruct (key_eqb k k0); [|discriminate]. destruct (on_pool _ _ _ _ _) as [[? ?]|]; discriminate.
        * inversion E1; subst; reflexivity. }
  destruct r1 as [[[[st1 b] na] np]|]; [|discriminate].
  destruct (R1 _ _ _ _ eq_refl) as [FR NA]. clear R1.
  destruct b.
  { inversion H; subst. discriminate NN. }
  specialize (NA eq_refl).
  (* PD part *)
  set (r2 := match hpd with None => _ | Some p => _ end) in H.
  assert (R2 : forall st2 b pd pp, r2 = Some (st2, b, pd, pp) ->
            r_allocs st2 FNA = r_allocs st1 FNA /\
            (b = false ->
             (forall o, pd = Some o -> hpd = None /\ staked_ans v st2 FPD s o) /\
             (forall p, hpd = Some p -> staked v st2 FPD s (RP p) \/ unmanaged v st1 FPD (RP p)))).
  { unfold r2. intros st2 b pd pp E. destruct hpd as [p0|].
    - destruct (reg_step v st1 (RReserve FPD (RP p0) s wpd)) as [[sx o]|] eqn:E1; [|discriminate].
      destruct o; inversion E; subst; clear E.
      + destruct (reserve_staked _ _ _ _ _ _ _ E1) as [S F]. split; [apply F; discriminate|].
        intros _. split; [intros o Ho; discriminate|]. intros p Hp. inversion Hp; subst p.
        destruct S as [[k [ac [ps' [a' [A [K L]]]]]]|[-> U]]; [left; exists k, ac, ps', a'; auto | right; auto].
      + split; [eapply reserve_frame; eauto; discriminate | discriminate].
      + split; [eapply reserve_frame; eauto; discriminate | discriminate].
    - destruct (reg_step v st1 (RAlloc FPD pf pdov vrf s opd)) as [[sx o]|] eqn:E1; [|discriminate].
      destruct o as [k g| | | | | | |]; try discriminate.
      + inversion E; subst; clear E.
        destruct (alloc_staked _ _ _ _ _ _ _ _ _ _ _ E1) as [S F]. split; [apply F; discriminate|].
        intros _. split; [|intros p Hp; discriminate].
        intros o Ho. inversion Ho; subst o. split; [reflexivity|].
        destruct S as [ac [ps' [a' [A [K L]]]]]. exists k, ac, ps', a'. auto.
      + inversion E; subst; clear E. split.
        * cbn [reg_step] in E1. destruct (alloc_target v st1 FPD pf pdov vrf); destruct opd as [[? ?]|]; try discriminate.
          -- destruct (key_eqb k k0); [|discriminate]. destruct (on_pool _ _ _ _ _) as [[? ?]|]; discriminate.
          -- inversion E1; subst; reflexivity.
        * intros _. split; [intros o Ho; discriminate | intros p Hp; discriminate]. }
  destruct r2 as [[[[st2 b] pd] pp]|]; [|discriminate].
  destruct (R2 _ _ _ _ eq_refl) as [FR2 PD]. clear R2.
  inversion H; subst; clear H. cbn [r6_nil r6_na r6_pd] in *.
  destruct b; [discriminate NN|]. specialize (PD eq_refl). destruct PD as [PD1 PD2].
  split; [|split].
  - intros a Ha. specialize (NA a Ha). destruct hna as [b0|].
    + destruct NA as [-> [S|[_ U]]]; split; try reflexivity; [left | right; exact U].
      destruct S as [k [ac [ps' [a' [A K]]]]]. exists k, ac, ps', a'. rewrite FR2. auto.
    + destruct NA as [k [ac [ps' [a' [A K]]]]]. exists k, ac, ps', a'. rewrite FR2. auto.
  - exact PD1.
  - intros p Hp. destruct (PD2 p Hp) as [S|U]; [left; exact S | right].
    intros e He. apply U. rewrite FR. exact He.
Qed.

(* ---------------------------------------------------------------- ReservePD: overlap refusal (23daa44) *)
Lemma overlaps_spec v c ip ones bits :
  overlaps v c (Pfx ip ones bits) = true ->
  prefix_to_index v c (Pfx ip ones bits) = None /\ bits = 128 /\
  exists A, norm ip = Some (V6, A) /\
            A / 2 ^ (128 - N.min (pd_nbits c) ones) = pd_base c / 2 ^ (128 - N.min (pd_nbits c) ones).
Proof.
  unfold overlaps. destruct (prefix_to_index v c (Pfx ip ones bits)); [discriminate|].
  destruct (N.eqb_spec bits 128) as [->|]; [|discriminate]. cbn [negb].
  destruct (norm ip) as [[[|] A]|]; try discriminate.
  intros H. apply N.eqb_eq in H. split; [reflexivity|]. split; [reflexivity|]. exists A. auto.
Qed.

(* a ReservePD walk that finds no pool containing the prefix changes nothing; it is refused exactly when
   some PD pool overlaps the prefix, and accepted (unmanaged prefix) otherwise *)
Lemma reserve_pd_no_pool v st p s st' r :
  reg_step v st (RReserve FPD (RP p) s None) = Some (st', r) ->
  st' = st /\ (forall e, In e (r_allocs st FPD) -> acontains v (fst (snd e)) (RP p) = false) /\
  ((pd_overlap v st (RP p) = true /\ r = ROOverlap) \/ (pd_overlap v st (RP p) = false /\ r = ROOk)).
Proof.
  intros H. cbn [reg_step] in H. unfold reserve_walk, walk in H.
  destruct (existsb (fun e => acontains v (fst (snd e)) (RP p)) (r_allocs st FPD)) eqn:X; [discriminate|].
  split; [destruct (pd_overlap v st (RP p)); inversion H; reflexivity|]. split.
  - intros e He. destruct (acontains v (fst (snd e)) (RP p)) eqn:C; [|reflexivity].
    assert (existsb (fun e0 => acontains v (fst (snd e0)) (RP p)) (r_allocs st FPD) = true)
      by (apply existsb_exists; exists e; auto). congruence.
  - destruct (pd_overlap v st (RP p)); inversion H; [left | right]; auto.
Qed.

(* ---------------------------------------------------------------- no registry *)
(* a nil registry never hands anything out and never refuses a reservation *)
Lemma reg_step_nil_spec k o : reg_step_nil k = Some o ->
  (forall kk oo, o <> ROAns kk oo) /\ o <> ROReserved /\ o <> ROOverlap.
Proof.
  destruct k as [f pf ov vrf s [ob|] | f k x | f k x s [w|] | f x s [w|] | f k x [w|] | f x [w|] | b | f k | f pf];
    simpl; intros H; inversion H; subst; repeat split; try discriminate; intros; discriminate.
Qed.

(* ResolveV4 with an optional registry: an offered address is staked in the registry (or unmanaged by it),
   or there is no registry and the address is the one the context brought - never an invented one *)
Lemma resolve4_opt_staked v r s cx obs wobs r' cx' a pool :
  resolve4_ctx_opt v r s cx obs wobs = Some (r', cx', R4 a pool) ->
  match r with
  | Some st =>
      exists st', r' = Some st' /\
      ((exists k ac ps' a', (a' = a \/ a' = unmap a) /\
          assoc_find key_eqb k (r_allocs st' F4) = Some (ac, ps') /\ lm_lookup a' (leases ps') = Some s) \/
       (c4_addr cx = Some a /\ st' = st /\
        forall e, In e (r_allocs st F4) -> acontains v (fst (snd e)) (RA (Some a)) = false))
  | None => r' = None /\ c4_addr cx = Some a /\ pool = None /\ cx' = cx
  end.
Proof.
  unfold resolve4_ctx_opt. intros H. destruct r as [st|].
  - destruct (resolve4_ctx v st s cx obs wobs) as [[[st1 cx1] x]|] eqn:E; [|discriminate].
    inversion H; subst. exists st1. split; [reflexivity|]. eapply resolve4_ctx_staked; eauto.
  - destruct (c4_addr cx) as [b|]; [|destruct obs; discriminate]. inversion H; subst. auto.
Qed.

(* ---------------------------------------------------------------- NewContext: from AAA attributes to the offer *)
Lemma new_context4_fields pf vrf at4 :
  let cx := new_context4 pf vrf at4 in
  c4_pf cx = pf /\ c4_vrf cx = vrf /\ c4_pool cx = None /\
  (forall b, c4_addr cx = Some b <-> pf <> 0 /\ exists a, at_v4 at4 = AvStr (Some a) /\ b = go_parse_ip a) /\
  c4_ov cx = (if N.eqb pf 0 then 0 else match at_pool at4 with AvStr n => n | _ => 0 end).
Proof.
  unfold new_context4. destruct (N.eqb_spec pf 0) as [->|NZ]; cbn [c4_pf c4_vrf c4_pool c4_addr c4_ov].
  - split; [reflexivity|]. split; [reflexivity|]. split; [reflexivity|].
    split; [intros b; split; [discriminate | intros [HH _]; contradiction] | reflexivity].
  - split; [reflexivity|]. split; [reflexivity|]. split; [reflexivity|]. split.
    + intros b. split.
      * intros H. split; [exact NZ|]. destruct (at_v4 at4) as [| |[a|]]; cbn in H; try discriminate.
        inversion H. eauto.
      * intros [_ [a [E ->]]]. rewrite E. reflexivity.
    + destruct (at_pool at4); reflexivity.
Qed.

(* what ResolveV4 can offer a session whose context was built from its AAA attributes: when the context
   carries an address it is that address and no pool is named; otherwise it is an answer of
   AllocateFromProfile for the context's profile, override and VRF *)
Lemma resolve4_from_context v r s cx obs wobs r' cx' b pool :
  resolve4_ctx_opt v r s cx obs wobs = Some (r', cx', R4 b pool) ->
  match c4_addr cx with
  | Some a0 => b = a0 /\ pool = None
  | None => exists st st' k, r = Some st /\ r' = Some st' /\ pool = Some k /\
              reg_step v st (RAlloc F4 (c4_pf cx) (c4_ov cx) (c4_vrf cx) s obs) = Some (st', ROAns k (OA b))
  end.
Proof.
  unfold resolve4_ctx_opt. intros H. destruct r as [st|].
  - unfold resolve4_ctx in H.
    destruct (resolve4 v st (c4_pf cx) (c4_ov cx) (c4_vrf cx) s (c4_addr cx) obs wobs) as [[st1 x]|] eqn:E; [|discriminate].
    assert (x = R4 b pool /\ r' = Some st1) as [-> ->] by (destruct x as [|a0 [k|]]; inversion H; subst; auto).
    unfold resolve4 in E. destruct (c4_addr cx) as [a0|].
    + destruct (reg_step v st (RReserve F4 (RA (Some a0)) s wobs)) as [[st2 o]|]; [|discriminate].
      destruct o; inversion E; subst; auto.
    + destruct (reg_step v st (RAlloc F4 (c4_pf cx) (c4_ov cx) (c4_vrf cx) s obs)) as [[st2 o]|] eqn:E2; [|discriminate].
      destruct o as [k g| | | | | | |]; try discriminate. destruct g as [a1|]; [|discriminate].
      inversion E; subst. exists st, st1, k. auto.
  - destruct (c4_addr cx) as [a0|]; [inversion H; subst; auto | destruct obs; discriminate].
Qed.

Lemma new_context6_fields pf vrf at6 :
  let cx := new_context6 pf vrf at6 in
  c6_pf cx = pf /\ c6_vrf cx = vrf /\ c6_napool cx = None /\ c6_pdpool cx = None /\
  (forall b, c6_na cx = Some b <-> pf <> 0 /\ exists a, at_v6 at6 = AvStr (Some a) /\ b = go_parse_ip a) /\
  (forall p, c6_pd cx = Some p <->
             pf <> 0 /\ exists a len, at_pd at6 = AvStr (Some (a, len)) /\ go_parse_cidr a len = Some p) /\
  c6_naov cx = (if N.eqb pf 0 then 0 else match at_napool at6 with AvStr n => n | _ => 0 end) /\
  c6_pdov cx = (if N.eqb pf 0 then 0 else match at_pdpool at6 with AvStr n => n | _ => 0 end).
Proof.
  unfold new_context6. destruct (N.eqb_spec pf 0) as [->|NZ];
    cbn [c6_pf c6_vrf c6_napool c6_pdpool c6_na c6_pd c6_naov c6_pdov].
  - split; [reflexivity|]. split; [reflexivity|]. split; [reflexivity|]. split; [reflexivity|].
    split; [intros b; split; [discriminate | intros [HH _]; contradiction]|].
    split; [intros p; split; [discriminate | intros [HH _]; contradiction]|]. split; reflexivity.
  - split; [reflexivity|]. split; [reflexivity|]. split; [reflexivity|]. split; [reflexivity|]. split; [|split; [|split]].
    + intros b. split.
      * intros H. split; [exact NZ|]. destruct (at_v6 at6) as [| |[a|]]; cbn in H; try discriminate. inversion H. eauto.
      * intros [_ [a [E ->]]]. rewrite E. reflexivity.
    + intros p. split.
      * intros H. split; [exact NZ|]. destruct (at_pd at6) as [| |[[a len]|]]; cbn in H; try discriminate. eauto.
      * intros [_ [a [len [E P]]]]. rewrite E. exact P.
    + destruct (at_napool at6); reflexivity.
    + destruct (at_pdpool at6); reflexivity.
Qed.
