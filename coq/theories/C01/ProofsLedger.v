(* C01/ProofsLedger.v — the registry-level ownership ledger: per (family, pool) lease maps recomputed from
   the observable events of a registry history (calls, answers, and the pool a containment walk stopped at),
   proved equal to the allocators' lease maps in every reachable state. *)
From Coq Require Import ZifyBool ZifyNat ZifyN.
From OV Require Import Common.Base C01.Model C01.Proofs C01.ProofsPD C01.ProofsReg.
Local Open Scope N_scope.

Definition lmap := rfam -> key -> lease_map.
Definition lupd (L : lmap) (f : rfam) (k : key) (m : lease_map) : lmap :=
  fun g j => if rfam_eqb f g && key_eqb k j then m else L g j.

(* static part of a registry state: which allocator (geometry) is filed under a key *)
Definition cfg_of (st : rstate) (f : rfam) (k : key) : option acfg :=
  match assoc_find key_eqb k (r_allocs st f) with Some (ac, _) => Some ac | None => None end.
Definition leases_of (st : rstate) : lmap :=
  fun f k => match assoc_find key_eqb k (r_allocs st f) with Some (_, ps) => leases ps | None => [] end.

Definition l_insert v (C : rfam -> key -> option acfg) (L : lmap) f k (x : rarg) s : lmap :=
  match C f k with
  | Some ac => match akey v ac x with Some a => lupd L f k (lm_insert a s (L f k)) | None => L end
  | None => L
  end.
Definition l_remove v (C : rfam -> key -> option acfg) (L : lmap) f k (x : rarg) : lmap :=
  match C f k with
  | Some ac => match akey v ac x with Some a => lupd L f k (lm_remove a (L f k)) | None => L end
  | None => L
  end.

(* one observable event -> ledger update.  Only calls, answers and walk observations are used. *)
Definition reg_ledger_step v (C : rfam -> key -> option acfg) (L : lmap) (e : rcall * rout) : lmap :=
  match e with
  | (RAlloc f _ _ _ s _, ROAns k o) =>
      match C f k with
      | Some ac => match aobs_key v ac o with Some a => lupd L f k (lm_insert a s (L f k)) | None => L end
      | None => L
      end
  | (RRelease f k x, _) => l_remove v C L f k x
  | (RReserveInPool f k x s obs, ROOk) =>
      match C f k with
      | Some _ => l_insert v C L f k x s
      | None => match obs with Some k' => l_insert v C L f k' x s | None => L end
      end
  | (RReserve f x s (Some k'), ROOk) => l_insert v C L f k' x s
  | (RReleaseInPool f k x obs, _) =>
      match C f k with
      | Some _ => l_remove v C L f k x
      | None => match obs with Some k' => l_remove v C L f k' x | None => L end
      end
  | (RReleaseByValue FPD x (Some k'), _) => l_remove v C L FPD k' x
  | (RReleaseByValue FPD x None, _) => L
  | (RReleaseByValue f x _, _) =>
      fun g j => if rfam_eqb f g
                 then match C g j with
                      | Some ac => match akey v ac x with Some a => lm_remove a (L g j) | None => L g j end
                      | None => L g j
                      end
                 else L g j
  | _ => L
  end.
Definition reg_ledger v C (evs : list (rcall * rout)) (L0 : lmap) : lmap := fold_left (reg_ledger_step v C) evs L0.

Definition lmap_eq (A B : lmap) : Prop := forall f k, A f k = B f k.

(* ---------------------------------------------------------------- assoc lemmas *)
Lemma key_eqb_refl k : key_eqb k k = true.
Proof. apply key_eqb_eq. reflexivity. Qed.
Lemma key_eqb_sym a b : key_eqb a b = key_eqb b a.
Proof.
  destruct (key_eqb a b) eqn:E.
  - apply key_eqb_eq in E. subst. symmetry. apply key_eqb_refl.
  - destruct (key_eqb b a) eqn:E2; [|reflexivity]. apply key_eqb_eq in E2. subst. rewrite key_eqb_refl in E. discriminate.
Qed.
Lemma rfam_eqb_refl f : rfam_eqb f f = true.
Proof. destruct f; reflexivity. Qed.

Lemma find_set_key {B} k j (x : B) l :
  assoc_find key_eqb j (assoc_set key_eqb k x l) = if key_eqb k j then Some x else assoc_find key_eqb j l.
Proof.
  destruct (key_eqb k j) eqn:E.
  - apply key_eqb_eq in E. subst. apply assoc_find_set_same. apply key_eqb_refl.
  - apply assoc_find_set_other; [apply key_eqb_eq|]. intros ->. rewrite key_eqb_refl in E. discriminate.
Qed.

(* ---------------------------------------------------------------- one pool call *)
Lemma on_pool_view v st f k mk st' o :
  on_pool v st f k mk = Some (st', o) ->
  exists ac ps pc, assoc_find key_eqb k (r_allocs st f) = Some (ac, ps) /\ mk ac = Some pc /\
    (forall g j, cfg_of st' g j = cfg_of st g j) /\
    lmap_eq (leases_of st') (lupd (leases_of st) f k (ledger_step (leases ps) (pc, o))).
Proof.
  unfold on_pool. intros H.
  destruct (assoc_find key_eqb k (r_allocs st f)) as [[ac ps]|] eqn:A; [|discriminate].
  destruct (mk ac) as [pc|] eqn:M; [|discriminate].
  destruct (pool_step v (acfg_pool ac) ps pc) as [[ps' o']|] eqn:C; [|discriminate].
  inversion H; subst; clear H. exists ac, ps, pc. split; [reflexivity|]. split; [exact M|].
  pose proof (ledger_step_agrees _ _ _ _ _ _ C) as LS.
  split.
  - intros g j. unfold cfg_of. rewrite allocs_set. destruct (rfam_eqb f g) eqn:Ef; [|reflexivity].
    apply rfam_eqb_eq in Ef; subst g. rewrite find_set_key. destruct (key_eqb k j) eqn:Ek; [|reflexivity].
    apply key_eqb_eq in Ek; subst j. rewrite A. reflexivity.
  - intros g j. unfold leases_of, lupd. rewrite allocs_set. destruct (rfam_eqb f g) eqn:Ef; cbn [andb]; [|reflexivity].
    apply rfam_eqb_eq in Ef; subst g. rewrite find_set_key. destruct (key_eqb k j) eqn:Ek; [|reflexivity].
    exact LS.
Qed.

Lemma rout_of_ok o : rout_of o = ROOk -> o = OOk.
Proof. destruct o; simpl; intros H; try discriminate; reflexivity. Qed.

(* the ledger update of a Reserve / Release pool call, from the registry-level observables *)
Lemma reserve_view v st f k x s st' o :
  on_pool v st f k (mk_reserve v x s) = Some (st', o) ->
  (forall g j, cfg_of st' g j = cfg_of st g j) /\
  lmap_eq (leases_of st')
          (match rout_of o with ROOk => l_insert v (cfg_of st) (leases_of st) f k x s | _ => leases_of st end).
Proof.
  intros H. destruct (on_pool_view _ _ _ _ _ _ _ H) as [ac [ps [pc [A [M [CF LV]]]]]].
  split; [exact CF|]. unfold mk_reserve in M. inversion M; subst pc; clear M.
  assert (LK : leases_of st f k = leases ps) by (unfold leases_of; rewrite A; reflexivity).
  assert (CK : cfg_of st f k = Some ac) by (unfold cfg_of; rewrite A; reflexivity).
  (* what the pool call can answer *)
  unfold on_pool in H. rewrite A in H. unfold mk_reserve in H.
  destruct (pool_step v (acfg_pool ac) ps (CReserve (akey v ac x) s)) as [[ps' o']|] eqn:C; [|discriminate].
  injection H as Hst Ho. subst o'. clear Hst. cbn [pool_step] in C.
  intros g j. rewrite LV. unfold l_insert. rewrite CK.
  destruct (akey v ac x) as [a|].
  - destruct (lm_lookup a (leases ps)) as [s'|].
    + destruct (N.eqb s' s); inversion C; subst; cbn [rout_of ledger_step].
      * rewrite LK. reflexivity.
      * unfold lupd. destruct (rfam_eqb f g && key_eqb k j) eqn:E; [|reflexivity].
        apply andb_true_iff in E. destruct E as [E1 E2]. apply rfam_eqb_eq in E1. apply key_eqb_eq in E2. subst.
        symmetry. exact LK.
    + inversion C; subst; cbn [rout_of ledger_step]. rewrite LK. reflexivity.
  - inversion C; subst; cbn [rout_of ledger_step].
    unfold lupd. destruct (rfam_eqb f g && key_eqb k j) eqn:E; [|reflexivity].
    apply andb_true_iff in E. destruct E as [E1 E2]. apply rfam_eqb_eq in E1. apply key_eqb_eq in E2. subst.
    symmetry. exact LK.
Qed.

Lemma release_view v st f k x st' o :
  on_pool v st f k (mk_release v x) = Some (st', o) ->
  (forall g j, cfg_of st' g j = cfg_of st g j) /\
  lmap_eq (leases_of st') (l_remove v (cfg_of st) (leases_of st) f k x).
Proof.
  intros H. destruct (on_pool_view _ _ _ _ _ _ _ H) as [ac [ps [pc [A [M [CF LV]]]]]].
  split; [exact CF|]. unfold mk_release in M. inversion M; subst pc; clear M.
  assert (LK : leases_of st f k = leases ps) by (unfold leases_of; rewrite A; reflexivity).
  assert (CK : cfg_of st f k = Some ac) by (unfold cfg_of; rewrite A; reflexivity).
  intros g j. rewrite LV. unfold l_remove. rewrite CK.
  destruct (akey v ac x) as [a|]; cbn [ledger_step].
  - rewrite LK. reflexivity.
  - unfold lupd. destruct (rfam_eqb f g && key_eqb k j) eqn:E; [|reflexivity].
    apply andb_true_iff in E. destruct E as [E1 E2]. apply rfam_eqb_eq in E1. apply key_eqb_eq in E2. subst.
    symmetry. exact LK.
Qed.

Lemma release_noop_view v st f k x :
  on_pool v st f k (mk_release v x) = None ->
  lmap_eq (leases_of st) (l_remove v (cfg_of st) (leases_of st) f k x).
Proof.
  unfold on_pool. intros H g j. unfold l_remove, cfg_of.
  destruct (assoc_find key_eqb k (r_allocs st f)) as [[ac ps]|] eqn:A; [|reflexivity].
  unfold mk_release in H. exfalso.
  destruct (akey v ac x) as [a|]; cbn [pool_step] in H.
  - destruct (lm_lookup a (leases ps)); discriminate.
  - discriminate.
Qed.

(* ---------------------------------------------------------------- map over all pools of a family *)
Lemma find_map_pools v mk (l : amap) j :
  assoc_find key_eqb j
    (map (fun e => match mk (fst (snd e)) with
                   | Some pc => match pool_step v (acfg_pool (fst (snd e))) (snd (snd e)) pc with
                                | Some (ps', _) => (fst e, (fst (snd e), ps'))
                                | None => e end
                   | None => e end) l) =
  match assoc_find key_eqb j l with
  | Some (ac, ps) =>
      Some (ac, match mk ac with
                | Some pc => match pool_step v (acfg_pool ac) ps pc with Some (ps', _) => ps' | None => ps end
                | None => ps end)
  | None => None
  end.
Proof.
  set (g := fun e : key * (acfg * pstate) => _).
  assert (G : forall k ac ps, g (k, (ac, ps)) =
            (k, (ac, match mk ac with
                     | Some pc => match pool_step v (acfg_pool ac) ps pc with Some (ps', _) => ps' | None => ps end
                     | None => ps end))).
  { intros k ac ps. unfold g. cbn [fst snd]. destruct (mk ac) as [pc|]; [|reflexivity].
    destruct (pool_step v (acfg_pool ac) ps pc) as [[ps' o]|]; reflexivity. }
  induction l as [|[k [ac ps]] r IH]; [reflexivity|].
  cbn [map]. rewrite G. cbn [assoc_find]. destruct (key_eqb j k); [reflexivity | exact IH].
Qed.

Lemma map_release_view v st f x :
  (forall g j, cfg_of (map_pools v st f (mk_release v x)) g j = cfg_of st g j) /\
  lmap_eq (leases_of (map_pools v st f (mk_release v x)))
          (fun g j => if rfam_eqb f g
                      then match cfg_of st g j with
                           | Some ac => match akey v ac x with Some a => lm_remove a (leases_of st g j) | None => leases_of st g j end
                           | None => leases_of st g j
                           end
                      else leases_of st g j).
Proof.
  unfold map_pools. split; intros g j.
  - unfold cfg_of. rewrite allocs_set. destruct (rfam_eqb f g) eqn:E; [|reflexivity].
    apply rfam_eqb_eq in E; subst g. rewrite find_map_pools.
    destruct (assoc_find key_eqb j (r_allocs st f)) as [[ac ps]|]; reflexivity.
  - unfold leases_of, cfg_of. rewrite allocs_set. destruct (rfam_eqb f g) eqn:E; [|reflexivity].
    apply rfam_eqb_eq in E; subst g. rewrite find_map_pools.
    destruct (assoc_find key_eqb j (r_allocs st f)) as [[ac ps]|]; [|reflexivity].
    unfold mk_release. destruct (akey v ac x) as [a|]; cbn [pool_step].
    + destruct (lm_lookup a (leases ps)) eqn:L; cbn [leases]; [reflexivity|].
      symmetry. apply lm_remove_absent. exact L.
    + reflexivity.
Qed.

Lemma map_setdir_view v st f b :
  (forall g j, cfg_of (map_pools v st f (fun _ => Some (CSetDir b))) g j = cfg_of st g j) /\
  lmap_eq (leases_of (map_pools v st f (fun _ => Some (CSetDir b)))) (leases_of st).
Proof.
  unfold map_pools. split; intros g j.
  - unfold cfg_of. rewrite allocs_set. destruct (rfam_eqb f g) eqn:E; [|reflexivity].
    apply rfam_eqb_eq in E; subst g.
    pose proof (find_map_pools v (fun _ => Some (CSetDir b)) (r_allocs st f) j) as FM. cbv beta in FM |- *. rewrite FM.
    destruct (assoc_find key_eqb j (r_allocs st f)) as [[ac ps]|]; reflexivity.
  - unfold leases_of. rewrite allocs_set. destruct (rfam_eqb f g) eqn:E; [|reflexivity].
    apply rfam_eqb_eq in E; subst g.
    pose proof (find_map_pools v (fun _ => Some (CSetDir b)) (r_allocs st f) j) as FM. cbv beta in FM |- *. rewrite FM.
    destruct (assoc_find key_eqb j (r_allocs st f)) as [[ac ps]|]; [|reflexivity].
    cbn [pool_step]. destruct (Bool.eqb b (asc ps)); reflexivity.
Qed.

(* ---------------------------------------------------------------- one registry call *)
Lemma lmap_eq_refl L : lmap_eq L L.
Proof. intros f k; reflexivity. Qed.

Lemma walk_reserve_view v st f x s obs st' r :
  walk v st f x obs (mk_reserve v x s) = Some (st', r) ->
  (forall g j, cfg_of st' g j = cfg_of st g j) /\
  lmap_eq (leases_of st')
          (match obs, r with Some k, ROOk => l_insert v (cfg_of st) (leases_of st) f k x s | _, _ => leases_of st end).
Proof.
  unfold walk. intros H. destruct obs as [k|].
  - destruct (assoc_find key_eqb k (r_allocs st f)) as [[ac ps]|]; [|discriminate].
    destruct (acontains v ac x); [|discriminate].
    destruct (on_pool v st f k (mk_reserve v x s)) as [[st2 o2]|] eqn:OP; [|discriminate].
    inversion H; subst. destruct (reserve_view _ _ _ _ _ _ _ _ OP) as [CF LV]. split; [exact CF|].
    destruct o2; exact LV.
  - destruct (existsb _ _); inversion H; subst. split; [reflexivity | apply lmap_eq_refl].
Qed.

Lemma walk_release_view v st f x obs st' r :
  walk v st f x obs (mk_release v x) = Some (st', r) ->
  (forall g j, cfg_of st' g j = cfg_of st g j) /\
  lmap_eq (leases_of st')
          (match obs with Some k => l_remove v (cfg_of st) (leases_of st) f k x | None => leases_of st end).
Proof.
  unfold walk. intros H. destruct obs as [k|].
  - destruct (assoc_find key_eqb k (r_allocs st f)) as [[ac ps]|]; [|discriminate].
    destruct (acontains v ac x); [|discriminate].
    destruct (on_pool v st f k (mk_release v x)) as [[st2 o2]|] eqn:OP; [|discriminate].
    inversion H; subst. eapply release_view; eauto.
  - destruct (existsb _ _); inversion H; subst. split; [reflexivity | apply lmap_eq_refl].
Qed.

Lemma cfg_some st f k : (exists x, assoc_find key_eqb k (r_allocs st f) = Some x) <-> (exists ac, cfg_of st f k = Some ac).
Proof.
  unfold cfg_of. destruct (assoc_find key_eqb k (r_allocs st f)) as [[ac ps]|]; split; intros [x H]; try discriminate; eauto.
Qed.

Lemma reg_step_view v st c st' o :
  reg_step v st c = Some (st', o) ->
  (forall g j, cfg_of st' g j = cfg_of st g j) /\
  lmap_eq (leases_of st') (reg_ledger_step v (cfg_of st) (leases_of st) (c, o)).
Proof.
  intros H.
  destruct c as [f pf ov vrf s obs | f k x | f k x s obs | f x s obs | f k x obs | f x obs | b | f k | f pf].
  - (* Allocate*FromProfile *)
    cbn [reg_step] in H.
    destruct (alloc_target v st f pf ov vrf) as [t|]; destruct obs as [[k' o']|]; try discriminate.
    + destruct (key_eqb t k') eqn:EK; [|discriminate].
      destruct (on_pool v st f t (mk_alloc v s o')) as [[st2 o2]|] eqn:OP; [|discriminate].
      inversion H; subst; clear H.
      destruct (on_pool_view _ _ _ _ _ _ _ OP) as [ac [ps [pc [A [M [CF LV]]]]]]. split; [exact CF|].
      unfold mk_alloc in M. destruct (aobs_key v ac o') as [a|] eqn:AK; [|discriminate]. inversion M; subst pc.
      unfold on_pool in OP. rewrite A in OP. unfold mk_alloc in OP. rewrite AK in OP. cbn [pool_step] in OP.
      destruct (mem_addr a (free ps)); [|discriminate]. injection OP as _ Eo. subst o2.
      assert (CK : cfg_of st f t = Some ac) by (unfold cfg_of; rewrite A; reflexivity).
      assert (LK : leases_of st f t = leases ps) by (unfold leases_of; rewrite A; reflexivity).
      intros g j. rewrite LV. cbn [reg_ledger_step]. rewrite CK, AK, LK. reflexivity.
    + inversion H; subst. split; [reflexivity | apply lmap_eq_refl].
  - (* Release(pool, x) *)
    cbn [reg_step] in H.
    destruct (on_pool v st f k (mk_release v x)) as [[st2 o2]|] eqn:OP; inversion H; subst; clear H.
    + eapply release_view; eauto.
    + split; [reflexivity|]. apply release_noop_view. exact OP.
  - (* Reserve*InPool *)
    cbn [reg_step] in H. cbn [reg_ledger_step].
    destruct (assoc_find key_eqb k (r_allocs st f)) as [[ac0 ps0]|] eqn:A.
    + destruct (on_pool v st f k (mk_reserve v x s)) as [[st2 o2]|] eqn:OP; [|discriminate].
      inversion H; subst; clear H. destruct (reserve_view _ _ _ _ _ _ _ _ OP) as [CF LV]. split; [exact CF|].
      assert (CK : cfg_of st f k = Some ac0) by (unfold cfg_of; rewrite A; reflexivity).
      destruct o2; cbn [rout_of] in *; try rewrite CK; exact LV.
    + destruct (reserve_walk_inv _ _ _ _ _ _ _ _ H) as [r0 [W RR]].
      destruct (walk_reserve_view _ _ _ _ _ _ _ _ W) as [CF LV]. split; [exact CF|].
      assert (CK : cfg_of st f k = None) by (unfold cfg_of; rewrite A; reflexivity).
      destruct RR as [<-|[-> [-> [_ [-> _]]]]]; [|exact LV].
      destruct o; try exact (fun g j => eq_trans (LV g j) ltac:(destruct obs; reflexivity)).
      rewrite CK. destruct obs; exact LV.
  - (* ReserveIP / ReserveIANA / ReservePD *)
    cbn [reg_step] in H. destruct (reserve_walk_inv _ _ _ _ _ _ _ _ H) as [r0 [W RR]].
    destruct (walk_reserve_view _ _ _ _ _ _ _ _ W) as [CF LV]. split; [exact CF|].
    cbn [reg_ledger_step]. destruct RR as [<-|[-> [-> [_ [-> _]]]]]; [|exact LV].
    destruct obs as [k|]; destruct o; exact LV.
  - (* Release*InPool *)
    cbn [reg_step] in H. cbn [reg_ledger_step].
    destruct (assoc_find key_eqb k (r_allocs st f)) as [[ac0 ps0]|] eqn:A.
    + destruct (on_pool v st f k (mk_release v x)) as [[st2 o2]|] eqn:OP; [|discriminate].
      inversion H; subst; clear H. destruct (release_view _ _ _ _ _ _ _ OP) as [CF LV]. split; [exact CF|].
      assert (CK : cfg_of st f k = Some ac0) by (unfold cfg_of; rewrite A; reflexivity). rewrite CK. exact LV.
    + destruct (walk_release_view _ _ _ _ _ _ _ H) as [CF LV]. split; [exact CF|].
      assert (CK : cfg_of st f k = None) by (unfold cfg_of; rewrite A; reflexivity). rewrite CK. exact LV.
  - (* release by value *)
    destruct f.
    + change (Some (map_pools v st F4 (mk_release v x), ROOk) = Some (st', o)) in H.
      apply some_pair_inj in H. destruct H as [<- <-]. apply map_release_view.
    + change (Some (map_pools v st FNA (mk_release v x), ROOk) = Some (st', o)) in H.
      apply some_pair_inj in H. destruct H as [<- <-]. apply map_release_view.
    + change (walk v st FPD x obs (mk_release v x) = Some (st', o)) in H.
      destruct (walk_release_view _ _ _ _ _ _ _ H) as [CF LV]. split; [exact CF|].
      cbn [reg_ledger_step]. destruct obs; exact LV.
  - (* SetAllocDirection *)
    change (Some (map_pools v (map_pools v (map_pools v st F4 (fun _ => Some (CSetDir b)))
                                           FNA (fun _ => Some (CSetDir b)))
                      FPD (fun _ => Some (CSetDir b)), ROOk) = Some (st', o)) in H.
    apply some_pair_inj in H. destruct H as [<- <-]. cbn [reg_ledger_step].
    set (s1 := map_pools v st F4 _). set (s2 := map_pools v s1 FNA _).
    destruct (map_setdir_view v st F4 b) as [C1 L1]. destruct (map_setdir_view v s1 FNA b) as [C2 L2].
    destruct (map_setdir_view v s2 FPD b) as [C3 L3]. fold s1 in C1, L1. fold s2 in C2, L2.
    split; intros g j; [rewrite C3, C2, C1 | rewrite L3, L2, L1]; reflexivity.
  - cbn [reg_step] in H. destruct (assoc_find key_eqb k (r_allocs st f)) as [[c ps]|]; inversion H; subst;
      (split; [reflexivity | apply lmap_eq_refl]).
  - cbn [reg_step] in H. inversion H; subst. split; [reflexivity | apply lmap_eq_refl].
Qed.

(* ---------------------------------------------------------------- whole histories *)
Lemma lupd_ext L L' f k m : lmap_eq L L' -> lmap_eq (lupd L f k m) (lupd L' f k m).
Proof. intros E g j. unfold lupd. destruct (rfam_eqb f g && key_eqb k j); [reflexivity | apply E]. Qed.

Lemma l_insert_ext v C C' L L' f k x s :
  (forall g j, C g j = C' g j) -> lmap_eq L L' -> lmap_eq (l_insert v C L f k x s) (l_insert v C' L' f k x s).
Proof.
  intros EC EL. unfold l_insert. rewrite <- EC. destruct (C f k) as [ac|]; [|exact EL].
  destruct (akey v ac x) as [a|]; [|exact EL]. rewrite (EL f k). apply lupd_ext, EL.
Qed.
Lemma l_remove_ext v C C' L L' f k x :
  (forall g j, C g j = C' g j) -> lmap_eq L L' -> lmap_eq (l_remove v C L f k x) (l_remove v C' L' f k x).
Proof.
  intros EC EL. unfold l_remove. rewrite <- EC. destruct (C f k) as [ac|]; [|exact EL].
  destruct (akey v ac x) as [a|]; [|exact EL]. rewrite (EL f k). apply lupd_ext, EL.
Qed.

Lemma reg_ledger_step_ext v C C' L L' e :
  (forall g j, C g j = C' g j) -> lmap_eq L L' ->
  lmap_eq (reg_ledger_step v C L e) (reg_ledger_step v C' L' e).
Proof.
  intros EC EL. destruct e as [c o].
  destruct c as [f pf ov vrf s obs | f k x | f k x s obs | f x s obs | f k x obs | f x obs | b | f k | f pf];
    cbn [reg_ledger_step]; try exact EL.
  - destruct o; try exact EL. rewrite <- EC. destruct (C f k) as [ac|]; [|exact EL].
    destruct (aobs_key v ac o) as [a|]; [|exact EL]. rewrite (EL f k). apply lupd_ext, EL.
  - apply l_remove_ext; assumption.
  - destruct o; try exact EL. rewrite <- EC. destruct (C f k); [apply l_insert_ext; assumption|].
    destruct obs; [apply l_insert_ext; assumption | exact EL].
  - destruct obs; [|exact EL]. destruct o; try exact EL. apply l_insert_ext; assumption.
  - rewrite <- EC. destruct (C f k); [apply l_remove_ext; assumption|].
    destruct obs; [apply l_remove_ext; assumption | exact EL].
  - destruct f.
    + intros g j. destruct (rfam_eqb F4 g); [|apply EL]. rewrite <- EC. destruct (C g j) as [ac|]; [|apply EL].
      destruct (akey v ac x); rewrite (EL g j); reflexivity.
    + intros g j. destruct (rfam_eqb FNA g); [|apply EL]. rewrite <- EC. destruct (C g j) as [ac|]; [|apply EL].
      destruct (akey v ac x); rewrite (EL g j); reflexivity.
    + destruct obs; [apply l_remove_ext; assumption | exact EL].
Qed.

Lemma reg_ledger_ext v C C' : (forall g j, C g j = C' g j) -> forall evs L L',
  lmap_eq L L' -> lmap_eq (reg_ledger v C evs L) (reg_ledger v C' evs L').
Proof.
  intros EC. induction evs as [|e r IH]; intros L L' EL; [exact EL|].
  unfold reg_ledger in *. cbn [fold_left]. apply IH. apply reg_ledger_step_ext; assumption.
Qed.

(* the allocators' lease maps after any history are the ledger of its events, started from the lease
   maps of the initial state, with the allocator geometries of the initial state *)
Lemma reg_run_view v : forall ks st st' evs,
  reg_run_from v st ks = Some (st', evs) ->
  (forall g j, cfg_of st' g j = cfg_of st g j) /\
  lmap_eq (leases_of st') (reg_ledger v (cfg_of st) evs (leases_of st)).
Proof.
  induction ks as [|k r IH]; simpl; intros st st' evs H.
  - inversion H; subst. split; [reflexivity | apply lmap_eq_refl].
  - destruct (reg_step v st k) as [[st1 o]|] eqn:E; [|discriminate].
    destruct (reg_run_from v st1 r) as [[st2 evs']|] eqn:R; [|discriminate].
    inversion H; subst; clear H.
    destruct (reg_step_view _ _ _ _ _ E) as [C1 L1]. destruct (IH _ _ _ R) as [C2 L2].
    split; [intros g j; rewrite C2; apply C1|].
    intros g j. rewrite L2. unfold reg_ledger. cbn [fold_left].
    apply (reg_ledger_ext v (cfg_of st1) (cfg_of st) C1 evs'). exact L1.
Qed.

(* registry construction leaves every lease map empty *)
Definition NoLease (st : rstate) : Prop := forall f, Forall (fun e => leases (snd (snd e)) = []) (r_allocs st f).

Lemma nolease_init_pool v f pf st p : NoLease st -> NoLease (init_pool v f pf st p).
Proof.
  unfold init_pool. intros F.
  set (s1 := if rp_vrf p =? 0 then st else _).
  assert (F1 : NoLease s1).
  { unfold s1. destruct (rp_vrf p =? 0); [exact F|]. intros g. rewrite allocs_set_vrfs. apply F. }
  destruct (assoc_find key_eqb (pf, rp_name p) (r_allocs s1 f)); [exact F1|].
  destruct (rp_cfg p) as [c|]; [|exact F1].
  intros g. rewrite allocs_set. destruct (rfam_eqb f g); [|apply F1].
  apply Forall_app; split; [apply F1|]. constructor; [reflexivity | constructor].
Qed.

Lemma nolease_init v pfs : NoLease (reg_init v pfs).
Proof.
  unfold reg_init.
  assert (G : forall l st, NoLease st -> NoLease (fold_left (init_profile v) l st)).
  { induction l as [|p r IH]; simpl; intros st F; [exact F|]. apply IH. unfold init_profile.
    assert (P : forall ps s, NoLease s -> NoLease (fold_left (init_pool v (rf_fam p) (rf_name p)) ps s)).
    { induction ps as [|q qs IHq]; simpl; intros s0 F0; [exact F0|]. apply IHq, nolease_init_pool, F0. }
    apply P. intros g. rewrite allocs_set_lists. apply F. }
  apply G. intros f; destruct f; constructor.
Qed.

Lemma nolease_leases_of st : NoLease st -> lmap_eq (leases_of st) (fun _ _ => []).
Proof.
  intros F f k. unfold leases_of.
  destruct (assoc_find key_eqb k (r_allocs st f)) as [[ac ps]|] eqn:A; [|reflexivity].
  destruct (assoc_find_Forall key_eqb (fun e => leases (snd (snd e)) = []) _ _ _ (F f) A) as [k' [_ H]]. exact H.
Qed.

(* the registry ledger of a history, from the configuration and the observable events only *)
Definition registry_ledger (v : variant) (pfs : list rprofile) (evs : list (rcall * rout)) : lmap :=
  reg_ledger v (cfg_of (reg_init v pfs)) evs (fun _ _ => []).

Lemma registry_ledger_agrees v pfs ks st evs f k ac ps :
  reg_run_from v (reg_init v pfs) ks = Some (st, evs) ->
  assoc_find key_eqb k (r_allocs st f) = Some (ac, ps) ->
  leases ps = registry_ledger v pfs evs f k /\ cfg_of (reg_init v pfs) f k = Some ac.
Proof.
  intros H A. destruct (reg_run_view _ _ _ _ _ H) as [CF LV]. split.
  - specialize (LV f k). unfold leases_of in LV at 1. rewrite A in LV. rewrite LV.
    unfold registry_ledger. apply reg_ledger_ext; [reflexivity | apply nolease_leases_of, nolease_init].
  - rewrite <- CF. unfold cfg_of. rewrite A. reflexivity.
Qed.

Lemma reg_run_split v : forall ks st st' evs pre e post,
  reg_run_from v st ks = Some (st', evs) -> evs = pre ++ e :: post ->
  exists ks1 st1 st2,
    reg_run_from v st ks1 = Some (st1, pre) /\ reg_step v st1 (fst e) = Some (st2, snd e).
Proof.
  induction ks as [|k r IH]; simpl; intros st st' evs pre e post H E.
  - inversion H; subst. destruct pre; discriminate.
  - destruct (reg_step v st k) as [[st1 o]|] eqn:C; [|discriminate].
    destruct (reg_run_from v st1 r) as [[st2 evs']|] eqn:R; [|discriminate].
    injection H as Hst Hev. rewrite E in Hev. clear E.
    destruct pre as [|p pre]; simpl in Hev; injection Hev as Hp Hevs.
    + subst e. exists [], st, st1. split; [reflexivity | exact C].
    + destruct (IH _ _ _ _ _ _ R Hevs) as [ks1 [sa [sb [H1 H2]]]].
      exists (k :: ks1), sa, sb. split; [|exact H2]. simpl. rewrite C, H1. subst p. reflexivity.
Qed.

(* uniqueness and confinement over the observable trace, per (family, pool): whatever an
   Allocate*FromProfile answers, in any history, is assignable in the answering allocator and held by
   nobody there according to the ledger of the EARLIER events *)
Lemma registry_alloc_unique pfs ks st evs pre f pf ov vrf s obs k o post :
  reg_run_from Repaired (reg_init Repaired pfs) ks = Some (st, evs) ->
  evs = pre ++ (RAlloc f pf ov vrf s obs, ROAns k o) :: post ->
  exists ac a, cfg_of (reg_init Repaired pfs) f k = Some ac /\ aobs_key Repaired ac o = Some a /\
               assignable (acfg_pool ac) a = true /\
               lm_lookup a (registry_ledger Repaired pfs pre f k) = None.
Proof.
  intros H E. destruct (reg_run_split _ _ _ _ _ _ _ _ H E) as [ks1 [st1 [st2 [H1 H2]]]].
  assert (F : RInv st1) by (eapply rinv_run; [apply rinv_init | exact H1]).
  cbn [fst snd] in H2. cbn [reg_step] in H2.
  destruct (alloc_target Repaired st1 f pf ov vrf) as [t|]; destruct obs as [[k' o']|]; try discriminate.
  destruct (key_eqb t k') eqn:EK; [|discriminate].
  destruct (on_pool Repaired st1 f t (mk_alloc Repaired s o')) as [[sx ox]|] eqn:OP; [|discriminate].
  inversion H2; subst; clear H2.
  unfold on_pool in OP.
  destruct (assoc_find key_eqb k (r_allocs st1 f)) as [[ac ps]|] eqn:A; [|discriminate].
  unfold mk_alloc in OP. destruct (aobs_key Repaired ac o) as [a|] eqn:AK; [|discriminate].
  cbn [pool_step] in OP. destruct (mem_addr a (free ps)) eqn:M; [|discriminate].
  apply mem_addr_In in M. apply (rinv_find _ _ _ _ _ F A) in M. destruct M as [As L].
  destruct (registry_ledger_agrees _ _ _ _ _ _ _ _ _ H1 A) as [LE CE].
  exists ac, a. rewrite <- LE. auto.
Qed.

(* same for reservations through the registry: granted only if the ledger shows nobody else *)
Lemma registry_reserve_unique v pfs ks st evs pre f x s k post :
  reg_run_from v (reg_init v pfs) ks = Some (st, evs) ->
  evs = pre ++ (RReserve f x s (Some k), ROOk) :: post ->
  exists ac a, cfg_of (reg_init v pfs) f k = Some ac /\ akey v ac x = Some a /\
    (lm_lookup a (registry_ledger v pfs pre f k) = None \/ lm_lookup a (registry_ledger v pfs pre f k) = Some s).
Proof.
  intros H E. destruct (reg_run_split _ _ _ _ _ _ _ _ H E) as [ks1 [st1 [st2 [H1 H2]]]].
  cbn [fst snd] in H2. cbn [reg_step] in H2.
  destruct (reserve_walk_inv _ _ _ _ _ _ _ _ H2) as [r0 [W [<-|[X _]]]]; [|discriminate X]. clear H2. rename W into H2.
  unfold walk in H2.
  destruct (assoc_find key_eqb k (r_allocs st1 f)) as [[ac ps]|] eqn:A; [|discriminate].
  destruct (acontains v ac x) eqn:C; [|discriminate].
  destruct (on_pool v st1 f k (mk_reserve v x s)) as [[sx ox]|] eqn:OP; [|discriminate].
  injection H2 as _ Eo. apply rout_of_ok in Eo. subst ox.
  destruct (acontains_akey _ _ _ C) as [a AK].
  unfold on_pool in OP. rewrite A in OP. unfold mk_reserve in OP. rewrite AK in OP. cbn [pool_step] in OP.
  destruct (registry_ledger_agrees _ _ _ _ _ _ _ _ _ H1 A) as [LE CE].
  exists ac, a. rewrite <- LE. split; [exact CE|]. split; [exact AK|].
  destruct (lm_lookup a (leases ps)) as [s'|]; [|left; reflexivity].
  destruct (N.eqb_spec s' s); [subst; right; reflexivity | discriminate].
Qed.

(* ---------------------------------------------------------------- profile order over the observable trace *)
Lemma lists_run v : forall ks st st' evs g, reg_run_from v st ks = Some (st', evs) -> r_lists st' g = r_lists st g.
Proof.
  induction ks as [|k r IH]; simpl; intros st st' evs g H.
  - inversion H; subst; reflexivity.
  - destruct (reg_step v st k) as [[st1 o]|] eqn:E; [|discriminate].
    destruct (reg_run_from v st1 r) as [[st2 evs']|] eqn:R; [|discriminate].
    inversion H; subst. rewrite (IH _ _ _ g R). eapply lists_step; eauto.
Qed.

(* "pool k of family f has nothing free", said over the ledger of a history: every assignable key of the
   allocator configured under k is held (vacuously true when no allocator was created for k) *)
Definition pool_full (v : variant) (pfs : list rprofile) (evs : list (rcall * rout)) (f : rfam) (k : key) : Prop :=
  forall ac a, cfg_of (reg_init v pfs) f k = Some ac -> assignable (acfg_pool ac) a = true ->
               lm_lookup a (registry_ledger v pfs evs f k) <> None.

Lemma has_free_false_full pfs ks st evs f k :
  reg_run_from Repaired (reg_init Repaired pfs) ks = Some (st, evs) ->
  has_free st f k = false -> pool_full Repaired pfs evs f k.
Proof.
  intros H HF ac a CK As L.
  destruct (reg_run_view _ _ _ _ _ H) as [CF _]. rewrite <- CF in CK. unfold cfg_of in CK.
  destruct (assoc_find key_eqb k (r_allocs st f)) as [[ac' ps]|] eqn:A; [|discriminate]. inversion CK; subst ac'.
  destruct (registry_ledger_agrees _ _ _ _ _ _ _ _ _ H A) as [LE _]. rewrite <- LE in L.
  assert (F : RInv st) by (eapply rinv_run; [apply rinv_init | exact H]).
  destruct (rinv_find _ _ _ _ _ F A) as [_ M].
  assert (In a (free ps)) as Hin by (apply M; auto).
  unfold has_free in HF. rewrite A in HF. destruct (free ps); [contradiction | discriminate].
Qed.

(* Allocate*FromProfile answered from pool k: stated with the configuration and the earlier observable
   events only - no state field appears *)
Lemma profile_order_trace pfs ks st evs pre f pf ov vrf s obs k o post :
  reg_run_from Repaired (reg_init Repaired pfs) ks = Some (st, evs) ->
  evs = pre ++ (RAlloc f pf ov vrf s obs, ROAns k o) :: post ->
  (ov <> 0 /\ k = (pf, ov)) \/
  (exists l1 l2, pools_of (reg_init Repaired pfs) f pf = l1 ++ k :: l2 /\ cfg_vrf f k pfs = vrf /\
     (ov = 0 \/ pool_full Repaired pfs pre f (pf, ov)) /\
     forall k', In k' l1 -> cfg_vrf f k' pfs = vrf -> pool_full Repaired pfs pre f k').
Proof.
  intros H E. destruct (reg_run_split _ _ _ _ _ _ _ _ H E) as [ks1 [st1 [st2 [H1 H2]]]].
  assert (F : RInv st1) by (eapply rinv_run; [apply rinv_init | exact H1]).
  cbn [fst snd] in H2.
  assert (OBS : exists ob, obs = Some ob).
  { cbn [reg_step] in H2. destruct (alloc_target Repaired st1 f pf ov vrf); destruct obs as [ob|]; try discriminate; eauto.
    }
  destruct OBS as [[k0 o0] ->].
  assert (EK : k0 = k /\ o0 = o).
  { cbn [reg_step] in H2. destruct (alloc_target Repaired st1 f pf ov vrf) as [t|]; [|discriminate].
    destruct (key_eqb t k0) eqn:EKK; [|discriminate]. apply key_eqb_eq in EKK; subst t.
    destruct (on_pool Repaired st1 f k0 (mk_alloc Repaired s o0)) as [[sx ox]|]; [|discriminate].
    inversion H2; subst; auto. }
  destruct EK as [-> ->].
  destruct (alloc_answer _ _ _ _ _ _ _ _ _ _ F H2) as [_ [_ [L|[l1 [l2 [P [V [O W]]]]]]]]; [left; exact L|].
  right. exists l1, l2.
  assert (PL : pools_of st1 f pf = pools_of (reg_init Repaired pfs) f pf)
    by (unfold pools_of; rewrite (lists_run _ _ _ _ _ f H1); reflexivity).
  rewrite <- PL. split; [exact P|].
  rewrite <- (reachable_vrf _ _ _ _ f k H1). split; [exact V|]. split.
  - destruct O as [O|O]; [left; exact O | right; eapply has_free_false_full; eauto].
  - intros k' Hk Hv. eapply has_free_false_full; eauto. apply W; [exact Hk|].
    rewrite (reachable_vrf _ _ _ _ f k' H1). exact Hv.
Qed.

(* exhaustion through a profile, over the trace: the override pool (if any) and every pool of the profile's
   list configured for the subscriber's VRF have every assignable key held *)
Lemma profile_exhausted_trace pfs ks st evs pre f pf ov vrf s obs post :
  reg_run_from Repaired (reg_init Repaired pfs) ks = Some (st, evs) ->
  evs = pre ++ (RAlloc f pf ov vrf s obs, ROExhausted) :: post ->
  (ov = 0 \/ pool_full Repaired pfs pre f (pf, ov)) /\
  forall k, In k (pools_of (reg_init Repaired pfs) f pf) -> cfg_vrf f k pfs = vrf -> pool_full Repaired pfs pre f k.
Proof.
  intros H E. destruct (reg_run_split _ _ _ _ _ _ _ _ H E) as [ks1 [st1 [st2 [H1 H2]]]].
  cbn [fst snd] in H2.
  assert (obs = None) as ->.
  { cbn [reg_step] in H2. destruct (alloc_target Repaired st1 f pf ov vrf) as [t|]; destruct obs as [[k0 o0]|]; try discriminate; auto.
    destruct (key_eqb t k0); [|discriminate].
    destruct (on_pool Repaired st1 f t (mk_alloc Repaired s o0)) as [[sx ox]|]; discriminate. }
  destruct (alloc_exhausted _ _ _ _ _ _ _ _ H2) as [O W].
  assert (PL : pools_of st1 f pf = pools_of (reg_init Repaired pfs) f pf)
    by (unfold pools_of; rewrite (lists_run _ _ _ _ _ f H1); reflexivity).
  split.
  - destruct O as [O|O]; [left; exact O | right; eapply has_free_false_full; eauto].
  - intros k Hk Hv. eapply has_free_false_full; eauto. apply W; [rewrite PL; exact Hk|].
    rewrite (reachable_vrf _ _ _ _ f k H1). exact Hv.
Qed.

(* ---------------------------------------------------------------- the walked list, from the configuration *)
Definition ordered_keys (pf : rprofile) : list key :=
  map (fun p => (rf_name pf, rp_name p))
      (match rf_fam pf with F4 => sort_by_prio (rf_pools pf) | _ => rf_pools pf end).

Lemma init_profile_pools_other v st pf f name :
  (rf_fam pf, rf_name pf) <> (f, name) -> pools_of (init_profile v st pf) f name = pools_of st f name.
Proof.
  intros N. unfold pools_of, init_profile. rewrite fold_init_pool_lists, lists_set.
  destruct (rfam_eqb (rf_fam pf) f) eqn:E; [|reflexivity].
  apply rfam_eqb_eq in E. rewrite assoc_find_set_N.
  destruct (N.eqb_spec name (rf_name pf)) as [->|]; [subst f; contradiction | subst f; reflexivity].
Qed.

(* with one pool list per (family, profile name) - what the two Go maps of profiles guarantee - the list
   Allocate*FromProfile walks for a profile is that profile's pools: ascending priority (stable) for IPv4,
   configuration order for IA_NA and PD *)
Lemma reg_init_pools v : forall pfs pf,
  NoDup (map (fun p => (rf_fam p, rf_name p)) pfs) -> In pf pfs ->
  pools_of (reg_init v pfs) (rf_fam pf) (rf_name pf) = ordered_keys pf.
Proof.
  unfold reg_init.
  assert (G : forall pfs st pf,
            NoDup (map (fun p => (rf_fam p, rf_name p)) pfs) ->
            (In pf pfs \/ (~ In (rf_fam pf, rf_name pf) (map (fun p => (rf_fam p, rf_name p)) pfs) /\
                           pools_of st (rf_fam pf) (rf_name pf) = ordered_keys pf)) ->
            pools_of (fold_left (init_profile v) pfs st) (rf_fam pf) (rf_name pf) = ordered_keys pf).
  { induction pfs as [|q r IH]; intros st pf ND H; cbn [fold_left].
    - destruct H as [[]|[_ H]]. exact H.
    - cbn [map] in ND. inversion ND as [|? ? Hq NDr]; subst. apply IH; [exact NDr|].
      destruct H as [[->|Hin]|[Hn HP]].
      + right. split; [exact Hq|]. apply init_profile_pools.
      + left. exact Hin.
      + right. split; [intros X; apply Hn; right; exact X|].
        rewrite init_profile_pools_other; [exact HP|]. intros X. apply Hn. left. exact X. }
  intros pfs pf ND Hin. apply G; [exact ND | left; exact Hin].
Qed.

(* ---------------------------------------------------------------- direction changes *)
From Coq Require Import Permutation.

(* SetDirection: no lease changes, and (under the invariant) the free list is only permuted *)
Lemma setdir_pool_safe c st b st' o :
  Inv c st -> pool_step Repaired c st (CSetDir b) = Some (st', o) ->
  leases st' = leases st /\ Permutation (free st') (free st) /\ Inv c st'.
Proof.
  intros HI H. assert (HI' : Inv c st') by (eapply inv_step; eauto).
  assert (L : leases st' = leases st).
  { cbn [pool_step] in H. destruct (Bool.eqb b (asc st)); inversion H; subst; reflexivity. }
  split; [exact L|]. split; [|exact HI'].
  destruct HI as [ND M]. destruct HI' as [ND' M'].
  apply NoDup_Permutation; [exact ND' | exact ND|].
  intros a. rewrite M', M, L. reflexivity.
Qed.

(* SetAllocDirection (every allocator of the three families): no lease map and no allocator geometry
   changes, and every allocator keeps its invariant - so whatever is allocated after any number of HA role
   changes is still assignable and unheld (C01_registry_alloc_unique covers histories containing them) *)
Lemma setdir_registry_safe v st b st' o :
  reg_step v st (RSetDir b) = Some (st', o) ->
  (forall f k, leases_of st' f k = leases_of st f k) /\ (forall f k, cfg_of st' f k = cfg_of st f k).
Proof.
  intros H. destruct (reg_step_view _ _ _ _ _ H) as [CF LV]. split; [|exact CF].
  intros f k. rewrite LV. reflexivity.
Qed.

(* ResolveV6 with whatever registry there is *)
Lemma resolve6_opt_staked v r s cx obsna obspd wna wpd r' cx' x :
  resolve6_ctx_opt v r s cx obsna obspd wna wpd = Some (r', cx', x) -> r6_nil x = false ->
  match r with
  | Some st =>
      exists st', r' = Some st' /\
      (forall a, r6_na x = Some a ->
         match c6_na cx with
         | None => staked_ans v st' FNA s (OA a)
         | Some b => b = a /\ (staked v st' FNA s (RA (Some a)) \/ unmanaged v st FNA (RA (Some a)))
         end) /\
      (forall o, r6_pd x = Some o -> c6_pd cx = None /\ staked_ans v st' FPD s o) /\
      (forall p, c6_pd cx = Some p -> staked v st' FPD s (RP p) \/ unmanaged v st FPD (RP p))
  | None =>
      (* no registry: nothing was allocated; only what the context brought is there *)
      r' = None /\ cx' = cx /\ r6_na x = c6_na cx /\ r6_pd x = None /\ r6_napool x = None /\ r6_pdpool x = None /\
      (c6_na cx <> None \/ c6_pd cx <> None)
  end.
Proof.
  unfold resolve6_ctx_opt. intros H NN. destruct r as [st|].
  - destruct (resolve6_ctx v st s cx obsna obspd wna wpd) as [[[st1 cx1] x1]|] eqn:E; [|discriminate].
    inversion H; subst. exists st1. split; [reflexivity|].
    unfold resolve6_ctx in E.
    destruct (resolve6 v st (c6_pf cx) (c6_naov cx) (c6_pdov cx) (c6_vrf cx) s (c6_na cx) (c6_pd cx) obsna obspd wna wpd)
      as [[st2 x2]|] eqn:E2; [|discriminate].
    inversion E; subst. eapply resolve6_staked; eauto.
  - destruct obsna; [discriminate|]. destruct obspd; [discriminate|].
    injection H as H1 H2 H3. subst r' cx' x. cbn [r6_nil r6_na r6_pd r6_napool r6_pdpool] in *.
    repeat split; try reflexivity.
    destruct (c6_na cx); [left; discriminate|]. destruct (c6_pd cx); [right; discriminate | discriminate NN].
Qed.

(* ---------------------------------------------------------------- what a direction means for the code's own policy *)
From Coq Require Import Sorted.
Definition lt_snd (x y : addr) : Prop := snd x < snd y.

Lemma range_sorted f lo : forall n s,
  StronglySorted lt_snd (map (fun i => (f, lo + N.of_nat i)) (seq s n)).
Proof.
  induction n as [|n IH]; intros s; cbn [seq map]; constructor; [apply IH|].
  apply Forall_forall. intros y Hy. apply in_map_iff in Hy. destruct Hy as [j [<- Hj]].
  apply in_seq in Hj. unfold lt_snd. cbn [snd]. lia.
Qed.

Lemma sorted_filter {A} (R : A -> A -> Prop) (g : A -> bool) l :
  StronglySorted R l -> StronglySorted R (filter g l).
Proof.
  induction l as [|x r IH]; intros S; [constructor|]. inversion S as [|? ? Sr Fx]; subst.
  cbn [filter]. destruct (g x); [|apply IH; exact Sr]. constructor; [apply IH; exact Sr|].
  apply Forall_forall. intros y Hy. apply filter_In in Hy. destruct Hy as [Hy _].
  eapply Forall_forall in Fx; eauto.
Qed.

Lemma sorted_head_least {A} (R : A -> A -> Prop) x l : StronglySorted R (x :: l) -> forall y, In y l -> R x y.
Proof. intros S y Hy. inversion S as [|? ? _ F]; subst. eapply Forall_forall in F; eauto. Qed.

Lemma sorted_last_greatest {A} (R : A -> A -> Prop) : forall l x,
  StronglySorted R (l ++ [x]) -> forall y, In y l -> R y x.
Proof.
  induction l as [|z r IH]; intros x S y Hy; [contradiction|].
  cbn [app] in S. inversion S as [|? ? Sr F]; subst. destruct Hy as [->|Hy].
  - eapply Forall_forall in F; [exact F|]. apply in_or_app. right. left. reflexivity.
  - eapply IH; eauto.
Qed.

(* right after the free list has been (re)built - at construction and at every real direction change - the
   code's own allocation policy (pop the end of the slice) takes the LOWEST free assignable address when the
   direction is ascending and the HIGHEST when it is descending.  (A statement about the transcribed policy;
   the correspondence deliberately does not constrain which free address an implementation picks.) *)
Lemma rebuilt_direction c m b :
  let st := {| free := build_free c m b; leases := m; asc := b |} in
  match lifo_choice st with
  | Some a => In a (free st) /\
              forall x, In x (free st) -> x <> a -> if b then snd a < snd x else snd x < snd a
  | None => free st = []
  end.
Proof.
  cbv zeta. unfold lifo_choice. cbn [free]. unfold build_free.
  set (l := filter _ (range_addrs c)).
  assert (S : StronglySorted lt_snd l) by (apply sorted_filter; unfold range_addrs; apply range_sorted).
  destruct b.
  - rewrite rev_involutive. destruct l as [|a r]; [reflexivity|].
    split; [apply -> in_rev; left; reflexivity|].
    intros x Hx Ne. apply <- in_rev in Hx. destruct Hx as [->|Hx]; [contradiction|].
    apply (sorted_head_least lt_snd a r S x Hx).
  - destruct (rev l) as [|a r] eqn:R.
    + assert (l = []) as -> by (rewrite <- (rev_involutive l), R; reflexivity). reflexivity.
    + assert (E : l = rev r ++ [a]) by (rewrite <- (rev_involutive l), R; reflexivity).
      split; [rewrite E; apply in_or_app; right; left; reflexivity|].
      intros x Hx Ne. rewrite E in Hx, S. apply in_app_or in Hx. destruct Hx as [Hx|[->|[]]]; [|contradiction].
      apply (sorted_last_greatest lt_snd (rev r) a S x Hx).
Qed.
