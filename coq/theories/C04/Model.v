(* C04/Model.v — executable model of
     pkg/pppoe/cookie.go         CookieManager.Generate / Validate
     pkg/pppoe/tags.go           ParseTags (the fields C04 needs), TagBuilder.AddTag
     internal/pppoe/component.go addToIndexes / removeFromIndexes, allocateSessionID,
                                 handlePADI / handlePADR / handlePADT / handleSession /
                                 handleDeadPeer, installInMemoryState (index + counter part)
   Definitions only; proofs are in Proofs.v.

   Bytes are N (< 256).  HMAC-SHA256 under the manager's secret is the explicit
   function argument [H]; the wall clock is the explicit argument [now]. *)
From Coq Require Import List ZArith NArith Bool Lia Arith.
From OV Require Common.Base.
From stdpp Require Import gmap nmap.
(* Common.Base is not Imported: its level-61 bind notation clashes with std++'s.  The
   definitions are used through these aliases. *)
Notation result := Base.result.
Notation Ok := Base.Ok.
Notation Err := Base.Err.
Notation OutOfFuel := Base.OutOfFuel.
Notation be16 := Base.be16.
Notation be32 := Base.be32.
Notation byte_of := Base.byte_of.
Notation put16 := Base.put16.
Notation put32 := Base.put32.

Definition bytes := list N.

Fixpoint bytes_eqb (a b : bytes) : bool :=
  match a, b with
  | [], [] => true
  | x :: a', y :: b' => N.eqb x y && bytes_eqb a' b'
  | _, _ => false
  end.

(* (source MAC, S-VLAN, C-VLAN) *)
Definition tuple := (bytes * N * N)%type.
Definition tuple_eqb (a b : tuple) : bool :=
  let '(m1, s1, c1) := a in let '(m2, s2, c2) := b in
  bytes_eqb m1 m2 && N.eqb s1 s2 && N.eqb c1 c2.

(* ------------------------------------------------------------------ cookie.go *)
Definition hi8 (v : N) : N := byte_of (v / 256).     (* byte(v>>8) *)
Definition lo8 (v : N) : N := byte_of v.             (* byte(v)    *)

(* Generate: append(mac...), AppendUint16(svlan), AppendUint16(cvlan), append(tsBytes...) *)
Definition enc_gen (mac : bytes) (sv cv ts : N) : bytes :=
  mac ++ put16 sv ++ put16 cv ++ put32 ts.
(* Validate: append(mac...), byte(svlan>>8), byte(svlan), byte(cvlan>>8), byte(cvlan), cookie[32:]... *)
Definition enc_val (mac : bytes) (sv cv : N) (tsb : bytes) : bytes :=
  mac ++ [hi8 sv; lo8 sv] ++ [hi8 cv; lo8 cv] ++ tsb.

(* Go's copy(dst, src) *)
Definition go_copy (dst src : bytes) : bytes :=
  firstn (length dst) src ++ skipn (length src) dst.

Definition two32 : N := 4294967296.
Definition ns_per_s : Z := 1000000000.

(* Generate at wall-clock second [now_s] *)
Definition generate (H : bytes -> bytes) (now_s : N) (t : tuple) : bytes :=
  let '(mac, sv, cv) := t in
  let ts := (now_s mod two32)%N in                       (* uint32(time.Now().Unix()) *)
  let tsb := put32 ts in
  let sig := H (enc_gen mac sv cv ts) in
  go_copy (repeat 0%N 32) sig ++ go_copy (repeat 0%N 4) tsb.

(* Validate at wall-clock instant [now_ns] with lifetime [ttl_ns] *)
Definition validate (H : bytes -> bytes) (ttl_ns now_ns : Z) (cookie : bytes) (t : tuple) : bool :=
  let '(mac, sv, cv) := t in
  if negb (Nat.eqb (length cookie) 36) then false else
  let tsb := skipn 32 cookie in
  match tsb with
  | [a; b; c; d] =>
      let ts := be32 a b c d in
      if (ttl_ns <? now_ns - Z.of_N ts * ns_per_s)%Z then false   (* time.Since(cookieTime) > ttl *)
      else bytes_eqb (firstn 32 cookie) (H (enc_val mac sv cv tsb)) (* hmac.Equal *)
  | _ => false
  end.

(* The AC-Cookie is an OPAQUE token: the property fixes who may be admitted, not the byte layout.  A cookie
   scheme is a way to pack (tag, timestamp) into bytes and to lay out the MACed message.  [generate]/[validate]
   above are the scheme /repo HEAD uses (head_scheme); the theorems are proved for every lawful scheme. *)
Record scheme := {
  sc_pack : bytes -> bytes -> bytes;              (* tag (32 bytes), timestamp bytes (4) -> cookie *)
  sc_unpack : bytes -> option (bytes * bytes);    (* cookie -> (tag, timestamp bytes), None = malformed *)
  sc_msg : tuple -> bytes -> bytes                (* the MACed message for a tuple and timestamp bytes *)
}.
Definition ts_of (b : bytes) : N := match b with [a; b; c; d] => be32 a b c d | _ => 0%N end.
Definition sgenerate (L : scheme) (H : bytes -> bytes) (now_s : N) (t : tuple) : bytes :=
  let tsb := put32 (now_s mod two32)%N in sc_pack L (H (sc_msg L t tsb)) tsb.
Definition svalidate (L : scheme) (H : bytes -> bytes) (ttl_ns now_ns : Z) (cookie : bytes) (t : tuple) : bool :=
  match sc_unpack L cookie with
  | Some (tag, tsb) =>
      negb (ttl_ns <? now_ns - Z.of_N (ts_of tsb) * ns_per_s)%Z && bytes_eqb tag (H (sc_msg L t tsb))
  | None => false
  end.

(* /repo HEAD: tag(32) | ts(4);  message = mac | svlan | cvlan | ts *)
Definition head_scheme : scheme := {|
  sc_pack := fun tag tsb => go_copy (repeat 0%N 32) tag ++ go_copy (repeat 0%N 4) tsb;
  sc_unpack := fun c => if Nat.eqb (length c) 36 then Some (firstn 32 c, skipn 32 c) else None;
  sc_msg := fun t tsb => let '(mac, sv, cv) := t in enc_val mac sv cv tsb |}.
(* another admissible layout: ts(4) | tag(32);  message = ts | mac | svlan | cvlan *)
Definition alt_scheme : scheme := {|
  sc_pack := fun tag tsb => go_copy (repeat 0%N 4) tsb ++ go_copy (repeat 0%N 32) tag;
  sc_unpack := fun c => if Nat.eqb (length c) 36 then Some (skipn 4 c, firstn 4 c) else None;
  sc_msg := fun t tsb => let '(mac, sv, cv) := t in tsb ++ mac ++ put16 sv ++ put16 cv |}.

(* What the property asks of ANY scheme, in terms of the cookies actually handed out (opaque bytes): a cookie is
   accepted for tuple t at time now iff it is byte for byte one that was issued for t and is within its lifetime.
   This is what the correspondence checks the implementation against. *)
Definition issued_cookie := (bytes * tuple * N)%type.          (* cookie as issued, tuple, issue second *)
Definition ideal_validate (iss : list issued_cookie) (ttl_ns now_ns : Z) (c : bytes) (t : tuple) : bool :=
  existsb (fun i => let '(c', t', ts) := i in
             bytes_eqb c c' && tuple_eqb t t' && negb (ttl_ns <? now_ns - Z.of_N ts * ns_per_s)%Z) iss.
(* an issued cookie whose issue time lies in the future (the clock was set back) may also be refused *)
Definition future_dated (iss : list issued_cookie) (now_ns : Z) (c : bytes) : bool :=
  existsb (fun i => let '(c', _, ts) := i in bytes_eqb c c' && (now_ns <? Z.of_N ts * ns_per_s)%Z) iss.

(* The property constrains ACCEPTANCE ("only for a cookie this BNG issued ... for the same MAC address").  An
   implementation may additionally reject tuples that are no Ethernet tuples (MAC not 6 bytes): for those the
   verdict is admissible when it accepts no more than [validate]; for 6-byte MACs it must equal [validate]. *)
Definition ethernet_tuple (t : tuple) : bool := let '(mac, _, _) := t in Nat.eqb (length mac) 6.
Definition admissible_verdict (t : tuple) (model impl : bool) : bool :=
  if ethernet_tuple t then Bool.eqb impl model else implb impl model.
(* ... the same with the second "may reject" class: cookies dated in the future *)
Definition admissible_verdict2 (may_reject : bool) (t : tuple) (model impl : bool) : bool :=
  if may_reject then implb impl model else admissible_verdict t model impl.

(* A history on one CookieManager.  Its state is (secret, ttl); the secret is fixed inside H, so
   the threaded state is the lifetime only — Validate and Generate neither read nor write anything else. *)
Inductive cm_op :=
| CGen (now_s : N) (t : tuple)
| CVal (now_ns : Z) (cookie : bytes) (t : tuple)
| CSetTTL (ttl_ns : Z).                   (* harness seam: cm.ttl = ... *)
Inductive cm_out := CCookie (c : bytes) | CVerdict (b : bool) | CNone.
Definition cm_step (H : bytes -> bytes) (ttl : Z) (o : cm_op) : Z * cm_out :=
  match o with
  | CGen now t => (ttl, CCookie (generate H now t))
  | CVal now c t => (ttl, CVerdict (validate H ttl now c t))
  | CSetTTL n => (n, CNone)
  end.
Fixpoint cm_run (H : bytes -> bytes) (ttl : Z) (ops : list cm_op) : Z * list cm_out :=
  match ops with
  | [] => (ttl, [])
  | o :: r => let '(ttl1, x) := cm_step H ttl o in let '(ttl2, xs) := cm_run H ttl1 r in (ttl2, x :: xs)
  end.
(* the lifetime in effect after a history: the last CSetTTL, whatever was generated or validated *)
Definition ttl_after (ttl : Z) (ops : list cm_op) : Z :=
  fold_left (fun a o => match o with CSetTTL n => n | _ => a end) ops ttl.

(* ------------------------------------------------------------------ tags.go *)
Record tags := { t_cookie : bytes; t_hostuniq : bytes; t_maxpayload : N; t_nraw : N }.
Definition tags0 : tags := {| t_cookie := []; t_hostuniq := []; t_maxpayload := 0; t_nraw := 0 |}.

Definition TagHostUniq : N := 259.       (* 0x0103 *)
Definition TagACCookie : N := 260.       (* 0x0104 *)
Definition TagPPPMaxPayload : N := 288.  (* 0x0120 *)

(* the type switch of ParseTags; None = the function returns an error *)
Definition tag_update (acc : tags) (ty : N) (v : bytes) : option tags :=
  let acc := {| t_cookie := t_cookie acc; t_hostuniq := t_hostuniq acc;
                t_maxpayload := t_maxpayload acc; t_nraw := N.succ (t_nraw acc) |} in
  if N.eqb ty TagHostUniq then
    Some {| t_cookie := t_cookie acc; t_hostuniq := v; t_maxpayload := t_maxpayload acc; t_nraw := t_nraw acc |}
  else if N.eqb ty TagACCookie then
    Some {| t_cookie := v; t_hostuniq := t_hostuniq acc; t_maxpayload := t_maxpayload acc; t_nraw := t_nraw acc |}
  else if N.eqb ty TagPPPMaxPayload then
    match v with
    | [a; b] => if N.leb 1492 (be16 a b)
                then Some {| t_cookie := t_cookie acc; t_hostuniq := t_hostuniq acc;
                             t_maxpayload := be16 a b; t_nraw := t_nraw acc |}
                else Some acc
    | _ => None
    end
  else Some acc.

Fixpoint parse_tags_loop (fuel : nat) (p : bytes) (acc : tags) : result tags :=
  match fuel with
  | O => OutOfFuel
  | S f =>
    match p with
    | a :: b :: c :: d :: rest =>
        let ty := be16 a b in
        let ln := N.to_nat (be16 c d) in
        if N.eqb ty 0 then Ok acc                                   (* End-Of-List *)
        else if (length rest <? ln)%nat then Err 1                   (* tag length exceeds payload *)
        else match tag_update acc ty (firstn ln rest) with
             | None => Err 2
             | Some acc' => parse_tags_loop f (skipn ln rest) acc'
             end
    | _ => Ok acc
    end
  end.
Definition parse_tags (p : bytes) : result tags := parse_tags_loop (S (length p)) p tags0.

(* TagBuilder.AddTag *)
Definition add_tag (ty : N) (v : bytes) : bytes :=
  [hi8 ty; lo8 ty] ++ [hi8 (N.of_nat (length v)); lo8 (N.of_nat (length v))] ++ v.

(* ------------------------------------------------------------------ session table *)
Record sess := { s_uid : N; s_sid : N; s_tup : tuple }.
Definition sess_eqb (a b : sess) : bool :=       (* pointer equality of *SessionState *)
  N.eqb (s_uid a) (s_uid b) && N.eqb (s_sid a) (s_sid b) && tuple_eqb (s_tup a) (s_tup b).

Record st := {
  by_tup  : gmap tuple sess;    (* c.sessions  (key: "mac:svlan:cvlan") *)
  by_sid  : Nmap sess;          (* c.sidIndex *)
  by_uidx : Nmap sess;          (* c.sessionIDIndex and c.acctSessionIndex: keyed by the session's own unique id *)
  by_attr : gmap bytes sess;    (* c.usernameIndex (ipv4Index / ipv6Index have the same shape): keyed by a
                                   value stored IN the session, which two sessions can share *)
  attr_of : Nmap bytes;         (* uid -> that session object's current Username field *)
  pend    : list sess;          (* handlePADR invocations between allocateSessionID and addToIndexes *)
  preq    : list N;             (* uids of session objects with an AAA request outstanding (pendingAuthRequestID) *)
  gone    : list N;             (* uids of session objects in PhaseTerminate (torn down; the object may still be
                                   referenced by a queued dataplane callback or an AAA answer) *)
  next    : N;                  (* c.nextSessionID, uint16 *)
  ctr     : N                   (* number of session objects created so far (object identity) *)
}.
Definition st0 : st :=
  {| by_tup := ∅; by_sid := ∅; by_uidx := ∅; by_attr := ∅; attr_of := ∅; pend := []; preq := []; gone := []; next := 1; ctr := 0 |}.

(* the four repairs made to the code during this work, as flags, so that the behaviour before each of them can
   still be stated (the `_refuted` theorems).  Repaired = all of them. *)
Record variant := {
  v_owner_check : bool;   (* PADT / session packets must come from the session's own tuple      (b12b708) *)
  v_sid_guard : bool;     (* id 0 is never handed out                                           (731c2cc) *)
  v_reserve : bool;       (* an allocated id stays reserved until it is indexed                 (46cb3dc) *)
  v_guard_remove : bool;  (* removeFromIndexes deletes an entry only if it points to the session (9893c59) *)
  v_ha_check : bool       (* restoreFromHASync refuses a synced session whose id is 0 or in use (9d39845) *)
}.
(* the historical variants are taken WITH the HA check: they concern the other operations *)
Definition mkv a b c d :=
  {| v_owner_check := a; v_sid_guard := b; v_reserve := c; v_guard_remove := d; v_ha_check := true |}.
Definition Repaired : variant := mkv true true true true.        (* /repo HEAD *)
Definition NoHACheck : variant :=                                 (* before 9d39845 *)
  {| v_owner_check := true; v_sid_guard := true; v_reserve := true; v_guard_remove := true; v_ha_check := false |}.
Definition Unreserved : variant := mkv true true false false.    (* before 46cb3dc and 9893c59 *)
Definition ReserveOnly : variant := mkv true true true false.    (* before 9893c59 *)
Definition GuardOnly : variant := mkv true true false true.      (* before 46cb3dc *)
Definition Defective : variant := mkv false false false false.   (* the code as first found *)
Definition DefIso : variant := mkv false true false false.
Definition DefSid : variant := mkv true false false false.

Definition u16 (n : N) : N := (n mod 65536)%N.

(* c.sessionKey: fmt.Sprintf("%s:%d:%d", mac.String(), svlan, cvlan) as a list of character codes.  The Go map
   c.sessions is keyed by this string; by_tup is keyed by the tuple itself, which is the same thing exactly when
   the rendering is injective (Properties: C04_session_key_injective). *)
Definition hexd (n : N) : N := if N.ltb n 10 then (48 + n)%N else (87 + n)%N.      (* 0-9 a-f *)
Definition hex2 (b : N) : list N := [hexd (b / 16); hexd (b mod 16)].
Fixpoint mac_string (m : bytes) : list N :=                                         (* net.HardwareAddr.String *)
  match m with
  | [] => []
  | b :: r => match r with [] => hex2 b | _ => hex2 b ++ 58%N :: mac_string r end
  end.
Fixpoint dec_aux (fuel : nat) (n : N) (acc : list N) : list N :=
  match fuel with
  | O => acc
  | S f => let acc' := (48 + n mod 10)%N :: acc in
           if N.eqb (n / 10) 0 then acc' else dec_aux f (n / 10) acc'
  end.
Definition dec (n : N) : list N := dec_aux 20 n [].                                 (* %d *)
Definition session_key (t : tuple) : list N :=
  let '(m, sv, cv) := t in mac_string m ++ 58%N :: dec sv ++ 58%N :: dec cv.

Definition set_next (s : st) (n : N) : st :=
  {| by_tup := by_tup s; by_sid := by_sid s; by_uidx := by_uidx s; by_attr := by_attr s; attr_of := attr_of s;
     pend := pend s; preq := preq s; gone := gone s; next := n; ctr := ctr s |}.
Definition with_next := set_next.
Definition bump_ctr (s : st) : st :=
  {| by_tup := by_tup s; by_sid := by_sid s; by_uidx := by_uidx s; by_attr := by_attr s; attr_of := attr_of s;
     pend := pend s; preq := preq s; gone := gone s; next := next s; ctr := N.succ (ctr s) |}.
Definition set_pend (s : st) (l : list sess) : st :=
  {| by_tup := by_tup s; by_sid := by_sid s; by_uidx := by_uidx s; by_attr := by_attr s; attr_of := attr_of s;
     pend := l; preq := preq s; gone := gone s; next := next s; ctr := ctr s |}.
Definition set_attr_of (s : st) (u : N) (a : bytes) : st :=
  {| by_tup := by_tup s; by_sid := by_sid s; by_uidx := by_uidx s; by_attr := by_attr s;
     attr_of := <[ u := a ]> (attr_of s); pend := pend s; preq := preq s; gone := gone s; next := next s; ctr := ctr s |}.

Definition mark_gone (u : N) (s : st) : st :=
  {| by_tup := by_tup s; by_sid := by_sid s; by_uidx := by_uidx s; by_attr := by_attr s; attr_of := attr_of s;
     pend := pend s; preq := preq s; gone := u :: gone s; next := next s; ctr := ctr s |}.
Definition add_preq (u : N) (s : st) : st :=
  {| by_tup := by_tup s; by_sid := by_sid s; by_uidx := by_uidx s; by_attr := by_attr s; attr_of := attr_of s;
     pend := pend s; preq := u :: preq s; gone := gone s; next := next s; ctr := ctr s |}.
Definition has_preq (s : st) (u : N) : bool := existsb (N.eqb u) (preq s).
Definition is_gone (s : st) (u : N) : bool := existsb (N.eqb u) (gone s).
(* the session's Username, when it is not "" *)
Definition get_attr (s : st) (u : N) : option bytes :=
  match attr_of s !! u with Some (b :: r) => Some (b :: r) | _ => None end.

(* addToIndexes; [a] = the session's Username at that moment (None for a session just built by handlePADR) *)
Definition add_indexes (a : option bytes) (x : sess) (s : st) : st :=
  {| by_tup := <[ s_tup x := x ]> (by_tup s); by_sid := <[ s_sid x := x ]> (by_sid s);
     by_uidx := <[ s_uid x := x ]> (by_uidx s);
     by_attr := match a with Some k => <[ k := x ]> (by_attr s) | None => by_attr s end;
     attr_of := attr_of s; pend := pend s; preq := preq s; gone := gone s; next := next s; ctr := ctr s |}.

(* delete(m, k) — or, with the repair, "if m[k] == sess { delete(m, k) }" *)
Definition del_if {K} `{Countable K} (gd : bool) (x : sess) (k : K) (m : gmap K sess) : gmap K sess :=
  if gd then match m !! k with Some y => if sess_eqb y x then delete k m else m | None => m end
  else delete k m.
Definition del_ifN (gd : bool) (x : sess) (k : N) (m : Nmap sess) : Nmap sess :=
  if gd then match m !! k with Some y => if sess_eqb y x then delete k m else m | None => m end
  else delete k m.

(* removeFromIndexes *)
Definition remove_indexes (v : variant) (x : sess) (s : st) : st :=
  let g := v_guard_remove v in
  {| by_tup := del_if g x (s_tup x) (by_tup s); by_sid := del_ifN g x (s_sid x) (by_sid s);
     by_uidx := del_ifN g x (s_uid x) (by_uidx s);
     by_attr := match get_attr s (s_uid x) with Some k => del_if g x k (by_attr s) | None => by_attr s end;
     attr_of := attr_of s; pend := pend s; preq := preq s; gone := gone s; next := next s; ctr := ctr s |}.

Definition sid_used (m : Nmap sess) (k : N) : bool :=
  match m !! k with Some _ => true | None => false end.
Definition pend_has (l : list sess) (k : N) : bool := existsb (fun x => N.eqb (s_sid x) k) l.
(* what allocateSessionID treats as "exists" *)
Definition id_used (v : variant) (s : st) (k : N) : bool :=
  sid_used (by_sid s) k || (v_reserve v && pend_has (pend s) k).

(* the loop of allocateSessionID; result (sid, next'), sid = 0 when "no available ids" *)
Fixpoint alloc_loop (fuel : nat) (used : N -> bool) (start nxt : N) : result (N * N) :=
  match fuel with
  | O => OutOfFuel
  | S f =>
      let sid := nxt in
      let n1 := u16 (nxt + 1) in
      let n2 := if N.eqb n1 0 then 1%N else n1 in
      if negb (used sid) then Ok (sid, n2)
      else if N.eqb n2 start then Ok (0%N, n2)
      else alloc_loop f used start n2
  end.
Definition alloc_fuel : nat := N.to_nat 65537.

(* with the sid guard a counter that overflowed to 0 (restore of id 0xFFFF) restarts at 1 *)
Definition norm_next (v : variant) (n : N) : N :=
  if v_sid_guard v then (if N.eqb n 0 then 1%N else n) else n.
Definition allocate (v : variant) (s : st) : result (N * N) :=
  let n0 := norm_next v (next s) in alloc_loop alloc_fuel (id_used v s) n0 n0.

(* WHICH free id a PADR gets is not constrained by the property.  A PADR therefore carries how the id is
   resolved: [Policy] = /repo HEAD's sequential counter (allocate); [Chose c] / [Refused] = the answer observed on
   the implementation, accepted when admissible: c is in 1..65535 and neither indexed nor reserved; a refusal only
   when no such id exists.  The theorems quantify over every choice. *)
Inductive choice := Policy | Refused | Chose (c : N).
Definition some_id_free (v : variant) (s : st) : bool :=
  match alloc_loop alloc_fuel (id_used v s) 1 1 with Ok (0%N, _) => false | Ok _ => true | _ => false end.
Definition alloc_choice (v : variant) (s : st) (oc : choice) : result (N * N) :=   (* (id or 0, next') *)
  match oc with
  | Policy => allocate v s
  | Refused => if some_id_free v s then Err 9 else Ok (0%N, next s)
  | Chose c => if N.ltb 0 c && N.ltb c 65536 && negb (id_used v s c) then Ok (c, next s) else Err 9
  end.

(* environment of one run: the cookie manager as a black box (what it issues, what it accepts at this moment)
   and the subscriber-group matcher.  [mk_env] instantiates it with a scheme, an HMAC, a lifetime and a clock. *)
Record env := {
  e_gen : tuple -> bytes;          (* cookieMgr.Generate now *)
  e_val : bytes -> tuple -> bool;  (* cookieMgr.Validate now *)
  e_grp : tuple -> bool            (* cfgMgr.LookupSubscriberGroup(svlan, cvlan) matched *)
}.
Definition mk_env (L : scheme) (H : bytes -> bytes) (ttl_ns : Z) (now_s : N) (now_ns : Z) (grp : tuple -> bool) : env :=
  {| e_gen := sgenerate L H now_s; e_val := svalidate L H ttl_ns now_ns; e_grp := grp |}.

Inductive op :=
| PADI (t : tuple)
| PADR (t : tuple) (payload : bytes) (oc : choice)   (* a handlePADR that runs without interleaving *)
| PBEGIN (t : tuple) (payload : bytes) (oc : choice) (* handlePADR up to and including allocateSessionID *)
| PCOMMIT (uid : N)                             (* ... its addToIndexes + PADS *)
| PADT (t : tuple) (sid : N)
| SESS (t : tuple) (sid : N)
| SETATTR (t : tuple) (sid : N) (a : bytes)     (* session-stage CHAP Response: sess.Username = a *)
| DEAD (sid : N)                                (* echo generator: handleDeadPeer *)
| RESTORE (sid : N) (t : tuple) (a : bytes)     (* installInMemoryState of a persisted session with Username a (start-up) *)
| HASYNC (sid : N) (t : tuple) (a : bytes)      (* restoreFromHASync of one synced checkpoint: at RUN TIME, the id was
                                                   allocated by the HA peer *)
| SETNEXT (n : N)                               (* harness only: position the counter *)
| AAAREJ (x : sess)                             (* handleAAAResponse(Allowed=false) for the request of session object x:
                                                   found by scanning c.sessions, then handleDeadPeer(sid) *)
| VPPFAIL (x : sess).                           (* onVPPSessionCreated(err) of a queued dataplane add for session object x:
                                                   tearDownSessionAfterVPPFailure, unless x is already torn down *)

Inductive out :=
| ONone
| OPado (cookie : bytes)
| OPads (sid uid : N)
| OPend (sid uid : N)
| OTerm (uid : N)
| OReach (uid : N)
| ORestored (uid : N)
| OSynced (uid : N).

Definition owner_ok (v : variant) (x : sess) (t : tuple) : bool :=
  if v_owner_check v then tuple_eqb (s_tup x) t else true.

(* handlePADR up to the point where the session object exists but is not indexed.
   None = out of fuel; Some (s', None) = dropped; Some (s', Some x) = x built (counter advanced) *)
Definition padr_begin (v : variant) (e : env) (s : st) (t : tuple) (payload : bytes) (oc : choice)
  : option (st * option sess) :=
  match parse_tags payload with
  | Ok tg =>
      if negb (e_val e (t_cookie tg) t) then Some (s, None)
      else if negb (e_grp e t) then Some (s, None)
      else match alloc_choice v s oc with
           | Ok (sid, n') =>
               let s1 := set_next s n' in
               if (v_sid_guard v || negb (match oc with Policy => true | _ => false end)) && N.eqb sid 0
               then Some (s1, None)                                      (* no free id: no session *)
               else Some (bump_ctr s1, Some {| s_uid := ctr s; s_sid := sid; s_tup := t |})
           | _ => None
           end
  | Err _ => Some (s, None)
  | _ => None
  end.

Fixpoint take_pend (u : N) (l : list sess) : option (sess * list sess) :=
  match l with
  | [] => None
  | x :: r => if N.eqb (s_uid x) u then Some (x, r)
              else match take_pend u r with Some (y, r') => Some (y, x :: r') | None => None end
  end.

(* None: inadmissible op (RESTORE of an id that is 0 / in use / out of range, SETNEXT out of range, PCOMMIT of
   nothing) or the allocation loop ran out of fuel (the Go loop would not terminate) *)
Definition step (v : variant) (e : env) (s : st) (o : op) : option (st * out) :=
  match o with
  | PADI t =>
      if e_grp e t then Some (s, OPado (e_gen e t)) else Some (s, ONone)
  | PADR t payload oc =>
      match padr_begin v e s t payload oc with
      | Some (s1, Some x) => Some (add_indexes None x s1, OPads (s_sid x) (s_uid x))
      | Some (s1, None) => Some (s1, ONone)
      | None => None
      end
  | PBEGIN t payload oc =>
      match padr_begin v e s t payload oc with
      | Some (s1, Some x) => Some (set_pend s1 (pend s1 ++ [x]), OPend (s_sid x) (s_uid x))
      | Some (s1, None) => Some (s1, ONone)
      | None => None
      end
  | PCOMMIT u =>
      match take_pend u (pend s) with
      | Some (x, r) => Some (add_indexes None x (set_pend s r), OPads (s_sid x) (s_uid x))
      | None => None
      end
  | PADT t sid =>
      match by_sid s !! sid with
      | Some x => if owner_ok v x t then Some (mark_gone (s_uid x) (remove_indexes v x s), OTerm (s_uid x))
                  else Some (s, ONone)
      | None => Some (s, ONone)
      end
  | SESS t sid =>
      match by_sid s !! sid with
      | Some x => if owner_ok v x t then Some (s, OReach (s_uid x)) else Some (s, ONone)
      | None => Some (s, ONone)
      end
  | SETATTR t sid a =>
      match by_sid s !! sid with
      | Some x => if owner_ok v x t then Some (add_preq (s_uid x) (set_attr_of s (s_uid x) a), OReach (s_uid x))
                  else Some (s, ONone)
      | None => Some (s, ONone)
      end
  | DEAD sid =>
      match by_sid s !! sid with
      | Some x => Some (mark_gone (s_uid x) (remove_indexes v x s), OTerm (s_uid x))
      | None => Some (s, ONone)
      end
  | RESTORE sid t a =>
      if N.eqb sid 0 || negb (N.ltb sid 65536) || sid_used (by_sid s) sid || pend_has (pend s) sid then None
      else
        let x := {| s_uid := ctr s; s_sid := sid; s_tup := t |} in
        let s0 := set_attr_of s (ctr s) a in
        let s1 := bump_ctr (add_indexes (get_attr s0 (ctr s)) x s0) in
        let n := if N.leb (next s) sid then u16 (sid + 1) else next s in
        Some (set_next s1 n, ORestored (ctr s))
  | HASYNC sid t a =>
      if negb (N.ltb sid 65536) then None                      (* uint16 *)
      else if v_ha_check v && (N.eqb sid 0 || id_used v s sid) then Some (s, ONone)     (* refused *)
      else
        (* addToIndexes overwrites whatever sidIndex[sid] / sessions[tuple] hold *)
        let x := {| s_uid := ctr s; s_sid := sid; s_tup := t |} in
        let s0 := set_attr_of s (ctr s) a in
        let s1 := bump_ctr (add_indexes (get_attr s0 (ctr s)) x s0) in
        let n := if N.leb (next s) sid then u16 (sid + 1) else next s in
        Some (set_next s1 n, OSynced (ctr s))
  | SETNEXT n => if N.ltb n 65536 then Some (set_next s n, ONone) else None
  | AAAREJ x =>
      match has_preq s (s_uid x), by_tup s !! s_tup x with
      | true, Some y =>                        (* a request is outstanding and c.sessions still holds x *)
          if sess_eqb y x then
            match by_sid s !! s_sid x with     (* handleDeadPeer(sid): whatever sidIndex holds under that id *)
            | Some z => Some (mark_gone (s_uid z) (remove_indexes v z s), OTerm (s_uid z))
            | None => Some (s, ONone)
            end
          else Some (s, ONone)
      | _, _ => Some (s, ONone)
      end
  | VPPFAIL x =>
      if is_gone s (s_uid x) then Some (s, ONone)                   (* 7b3d79c: already in PhaseTerminate *)
      else Some (mark_gone (s_uid x) (remove_indexes v x s), OTerm (s_uid x))
  end.

Fixpoint run (v : variant) (e : env) (s : st) (ops : list op) : option (st * list out) :=
  match ops with
  | [] => Some (s, [])
  | o :: r =>
      match step v e s o with
      | Some (s', x) => match run v e s' r with Some (s'', xs) => Some (s'', x :: xs) | None => None end
      | None => None
      end
  end.

(* accessors for the driver *)
Definition lookup_sid (s : st) (k : N) : option sess := by_sid s !! k.
Definition lookup_tup (s : st) (t : tuple) : option sess := by_tup s !! t.
Definition lookup_uidx (s : st) (k : N) : option sess := by_uidx s !! k.
Definition lookup_attr (s : st) (a : bytes) : option sess := by_attr s !! a.
Definition size_sid (s : st) : N := N.of_nat (size (by_sid s)).
Definition size_tup (s : st) : N := N.of_nat (size (by_tup s)).
