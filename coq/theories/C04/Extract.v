From Coq Require Import Extraction ExtrOcamlBasic.
From OV Require Import C04.Model.
Extraction Language OCaml.
Extraction "C04_model.ml" generate validate ideal_validate future_dated admissible_verdict2 admissible_verdict cm_step session_key parse_tags add_tag enc_gen step st0 Repaired NoHACheck Unreserved ReserveOnly GuardOnly Defective DefIso DefSid
  lookup_sid lookup_tup lookup_uidx lookup_attr get_attr size_sid size_tup.
