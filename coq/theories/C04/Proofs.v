(* C04/Proofs.v — lemmas and invariants for C04/Model.v *)
From Coq Require Import List ZArith NArith Bool Lia Arith ZifyBool ZifyNat ZifyN.
From stdpp Require Import gmap nmap.
From OV Require Import C04.Model.
Import ListNotations.
Local Open Scope N_scope.

Ltac Zify.zify_post_hook ::= Z.div_mod_to_equations.

(* ------------------------------------------------------------------ bytes *)
Lemma bytes_eqb_eq a b : bytes_eqb a b = true <-> a = b.
Proof.
  revert b; induction a as [|x a IH]; intros [|y b]; simpl; split; intros Hx; try congruence; try discriminate.
  - apply andb_true_iff in Hx as [H1 H2]. apply N.eqb_eq in H1. apply IH in H2. congruence.
  - inversion Hx; subst. apply andb_true_iff; split; [apply N.eqb_refl | apply IH; reflexivity].
Qed.

Lemma tuple_eqb_eq a b : tuple_eqb a b = true <-> a = b.
Proof.
  destruct a as [[m1 s1] c1], b as [[m2 s2] c2]. unfold tuple_eqb.
  rewrite !andb_true_iff, bytes_eqb_eq, !N.eqb_eq. split.
  - intros [[-> ->] ->]; reflexivity.
  - intros Hx; inversion Hx; auto.
Qed.

Lemma be32_put32 ts : ts < two32 ->
  exists a b c d, put32 ts = [a; b; c; d] /\ be32 a b c d = ts.
Proof.
  intros Hlt. unfold Base.put32, Base.be32, Base.byte_of, two32 in *.
  do 4 eexists; split; [reflexivity|]. lia.
Qed.

Lemma put16_inj a b : a < 65536 -> b < 65536 -> put16 a = put16 b -> a = b.
Proof.
  unfold Base.put16, Base.byte_of. intros Ha Hb Hx. inversion Hx. lia.
Qed.

Lemma put32_inj a b : a < two32 -> b < two32 -> put32 a = put32 b -> a = b.
Proof.
  unfold Base.put32, Base.byte_of, two32. intros Ha Hb Hx. inversion Hx. lia.
Qed.

(* ------------------------------------------------------------------ cookie *)
Lemma enc_agree mac sv cv ts : enc_val mac sv cv (put32 ts) = enc_gen mac sv cv ts.
Proof. reflexivity. Qed.

Lemma enc_gen_injective m1 s1 c1 t1 m2 s2 c2 t2 :
  s1 < 65536 -> c1 < 65536 -> t1 < two32 -> s2 < 65536 -> c2 < 65536 -> t2 < two32 ->
  enc_gen m1 s1 c1 t1 = enc_gen m2 s2 c2 t2 -> m1 = m2 /\ s1 = s2 /\ c1 = c2 /\ t1 = t2.
Proof.
  intros Hs1 Hc1 Ht1 Hs2 Hc2 Ht2 He. unfold enc_gen in He.
  apply app_inj_2 in He as [Hm He]; [|reflexivity].
  apply app_inj_1 in He as [Hs He]; [|reflexivity].
  apply app_inj_1 in He as [Hc He]; [|reflexivity].
  repeat split; auto using put16_inj, put32_inj.
Qed.

Section Cookie.
  Variable H : bytes -> bytes.

  Lemma generate_shape now t : (forall d, length (H d) = 32%nat) ->
    let '(mac, sv, cv) := t in
    generate H now t = H (enc_gen mac sv cv (now mod two32)) ++ put32 (now mod two32).
  Proof.
    intros Hlen. destruct t as [[mac sv] cv]. unfold generate, go_copy.
    rewrite Hlen. change (length (repeat 0 32)) with 32%nat.
    rewrite <- (Hlen (enc_gen mac sv cv (now mod two32))) at 1. rewrite firstn_all.
    change (skipn 32 (repeat 0 32)) with (@nil N). rewrite app_nil_r. reflexivity.
  Qed.

  (* what Validate computes on a 32+4 byte cookie *)
  Lemma validate_split ttl now sig a b c d mac sv cv : length sig = 32%nat ->
    validate H ttl now (sig ++ [a; b; c; d]) (mac, sv, cv) =
    (negb (ttl <? now - Z.of_N (be32 a b c d) * ns_per_s)%Z &&
     bytes_eqb sig (H (enc_val mac sv cv [a; b; c; d]))).
  Proof.
    intros Hl. unfold validate. rewrite app_length, Hl. simpl negb. cbv iota.
    replace (skipn 32 (sig ++ [a; b; c; d])) with [a; b; c; d]
      by (rewrite <- Hl, skipn_app, skipn_all, Nat.sub_diag; reflexivity).
    replace (firstn 32 (sig ++ [a; b; c; d])) with sig
      by (rewrite <- Hl, firstn_app, firstn_all, Nat.sub_diag; simpl; rewrite app_nil_r; reflexivity).
    destruct (ttl <? _)%Z; reflexivity.
  Qed.

  Lemma cookie_roundtrip ttl now_ns now_s t : (forall d, length (H d) = 32%nat) ->
    validate H ttl now_ns (generate H now_s t) t = true <->
    (now_ns - Z.of_N (now_s mod two32) * ns_per_s <= ttl)%Z.
  Proof.
    intros Hlen. pose proof (generate_shape now_s t Hlen) as Hg. destruct t as [[mac sv] cv]. rewrite Hg.
    assert (Hlt : now_s mod two32 < two32) by (unfold two32; lia).
    destruct (be32_put32 _ Hlt) as (a & b & c & d & Hp & Hb).
    rewrite Hp, validate_split by apply Hlen. rewrite Hb, <- Hp, enc_agree.
    replace (bytes_eqb _ _) with true by (symmetry; apply bytes_eqb_eq; reflexivity).
    rewrite andb_true_r, negb_true_iff, Z.ltb_ge. reflexivity.
  Qed.

  Lemma validate_length ttl now c t : validate H ttl now c t = true -> length c = 36%nat.
  Proof.
    destruct t as [[mac sv] cv]. unfold validate.
    destruct (Nat.eqb_spec (length c) 36); simpl; [auto | discriminate].
  Qed.

  (* decomposition of an accepted cookie *)
  Lemma validate_true_inv ttl now c mac sv cv : validate H ttl now c (mac, sv, cv) = true ->
    exists a b c4 d, skipn 32 c = [a; b; c4; d] /\
      (now - Z.of_N (be32 a b c4 d) * ns_per_s <= ttl)%Z /\
      firstn 32 c = H (enc_val mac sv cv [a; b; c4; d]).
  Proof.
    unfold validate. destruct (Nat.eqb (length c) 36); simpl; [|discriminate].
    destruct (skipn 32 c) as [|a [|b [|c4 [|d [|? ?]]]]]; try discriminate.
    destruct (Z.ltb_spec ttl (now - Z.of_N (be32 a b c4 d) * ns_per_s)); [discriminate|].
    intros Hx%bytes_eqb_eq. exists a, b, c4, d. auto.
  Qed.

  (* what Validate checks, exactly (no premise): the cookie is a 32-byte tag followed by a 4-byte
     timestamp, the tag is H of (mac | svlan | cvlan | timestamp bytes) and the timestamp is young enough *)
  Lemma validate_accepts_iff ttl now c mac sv cv : validate H ttl now c (mac, sv, cv) = true <->
    exists sig a b c4 d, c = sig ++ [a; b; c4; d] /\ length sig = 32%nat /\
      sig = H (enc_val mac sv cv [a; b; c4; d]) /\ (now - Z.of_N (be32 a b c4 d) * ns_per_s <= ttl)%Z.
  Proof.
    split.
    - intros Hv. pose proof (validate_length _ _ _ _ Hv) as Hl.
      destruct (validate_true_inv _ _ _ _ _ _ Hv) as (a & b & c4 & d & Hs & Hf & Hsig).
      exists (firstn 32 c), a, b, c4, d. repeat split; auto.
      + rewrite <- Hs. symmetry. apply firstn_skipn.
      + rewrite firstn_length. lia.
    - intros (sig & a & b & c4 & d & -> & Hl & Hsig & Hf). rewrite validate_split by exact Hl.
      apply andb_true_iff. split.
      + apply negb_true_iff, Z.ltb_ge. exact Hf.
      + apply bytes_eqb_eq. exact Hsig.
  Qed.

  Lemma validate_expired ttl now c mac sv cv a b c4 d : skipn 32 c = [a; b; c4; d] ->
    (ttl < now - Z.of_N (be32 a b c4 d) * ns_per_s)%Z -> validate H ttl now c (mac, sv, cv) = false.
  Proof.
    intros Hs Hlt. unfold validate. destruct (negb _); [reflexivity|]. rewrite Hs.
    destruct (Z.ltb_spec ttl (now - Z.of_N (be32 a b c4 d) * ns_per_s)); [reflexivity | lia].
  Qed.

  (* the messages this BNG has MACed: one per Generate call *)
  Definition issue := (tuple * N)%type.                 (* tuple, timestamp (u32 seconds) *)
  Definition enc_issue (i : issue) : bytes := let '((mac, sv, cv), ts) := i in enc_gen mac sv cv ts.
  Definition wf_tuple (t : tuple) : Prop := let '(_, sv, cv) := t in sv < 65536 /\ cv < 65536.
  Definition wf_issue (i : issue) : Prop := wf_tuple (fst i) /\ snd i < two32.

  (* the one message Validate MACs when it is shown cookie c by tuple t *)
  Definition macd (t : tuple) (c : bytes) : bytes := let '(mac, sv, cv) := t in enc_val mac sv cv (skipn 32 c).

  Lemma cookie_sound ttl now c t issued :
    (* H_mac_unforgeable, for the single (message, tag) pair presented: if the tag carried by the cookie IS the
       MAC of the message Validate recomputes, that message is one Generate has MACed.  Nothing is assumed
       about other preimages of the tag. *)
    (firstn 32 c = H (macd t c) -> In (macd t c) (map enc_issue issued)) ->
    Forall wf_issue issued -> wf_tuple t ->
    validate H ttl now c t = true ->
    exists ts, In (t, ts) issued /\ (now - Z.of_N ts * ns_per_s <= ttl)%Z /\ skipn 32 c = put32 ts.
  Proof.
    intros Hunf Hwf Hwt Hv. destruct t as [[mac sv] cv].
    destruct (validate_true_inv _ _ _ _ _ _ Hv) as (a & b & c4 & d & Hs & Hfresh & Hsig).
    unfold macd in Hunf. rewrite Hs in Hunf. specialize (Hunf Hsig). rename Hunf into Hsig'. clear Hsig. rename Hsig' into Hsig.
    apply in_map_iff in Hsig as ([[[mac' sv'] cv'] ts'] & He & Hin).
    rewrite Coq.Lists.List.Forall_forall in Hwf. destruct (Hwf _ Hin) as [[Hsv' Hcv'] Hts']. simpl in Hsv', Hcv', Hts'.
    destruct Hwt as [Hsv Hcv].
    simpl in He. unfold enc_gen, enc_val in He.
    apply app_inj_2 in He as [Hm He]; [|reflexivity].
    apply app_inj_1 in He as [Hs1 He]; [|reflexivity].
    apply app_inj_1 in He as [Hc1 He]; [|reflexivity].
    assert (sv' = sv) by (apply put16_inj; auto). assert (cv' = cv) by (apply put16_inj; auto). subst.
    exists ts'. split; [exact Hin|]. split; [|congruence].
    destruct (be32_put32 _ Hts') as (a' & b' & c' & d' & Hp & Hb).
    rewrite Hp in He. injection He as <- <- <- <-. rewrite Hb in Hfresh. exact Hfresh.
  Qed.
End Cookie.

(* ------------------------------------------------------------------ cookie schemes: the layout is a free choice *)
Record lawful (L : scheme) : Prop := {
  law_unpack_pack : forall tag tsb, length tag = 32%nat -> length tsb = 4%nat ->
                    sc_unpack L (sc_pack L tag tsb) = Some (tag, tsb);
  law_pack_unpack : forall c tag tsb, sc_unpack L c = Some (tag, tsb) -> c = sc_pack L tag tsb /\ length tsb = 4%nat;
  law_msg_inj : forall t1 b1 t2 b2, wf_tuple t1 -> wf_tuple t2 -> length b1 = 4%nat -> length b2 = 4%nat ->
                sc_msg L t1 b1 = sc_msg L t2 b2 -> t1 = t2 /\ b1 = b2
}.

Lemma ts_of_put32 ts : ts < two32 -> ts_of (put32 ts) = ts.
Proof. intros Hlt. destruct (be32_put32 _ Hlt) as (a & b & c & d & Hp & Hb). rewrite Hp. exact Hb. Qed.

Section Scheme.
  Variable L : scheme.
  Variable H : bytes -> bytes.
  Hypothesis HL : lawful L.

  Definition smsg (i : tuple * N) : bytes := sc_msg L (fst i) (put32 (snd i)).
  Definition scookie (i : tuple * N) : bytes := sc_pack L (H (smsg i)) (put32 (snd i)).

  (* a cookie generated at second now_s verifies for its own tuple exactly while it is within its lifetime *)
  Lemma scheme_roundtrip ttl now_ns now_s t : (forall d, length (H d) = 32%nat) ->
    svalidate L H ttl now_ns (sgenerate L H now_s t) t = true <->
    (now_ns - Z.of_N (now_s mod two32) * ns_per_s <= ttl)%Z.
  Proof.
    intros Hlen. unfold svalidate, sgenerate.
    rewrite (law_unpack_pack _ HL) by (try apply Hlen; reflexivity).
    rewrite ts_of_put32 by (unfold two32; lia).
    replace (bytes_eqb _ _) with true by (symmetry; apply bytes_eqb_eq; reflexivity).
    rewrite andb_true_r, negb_true_iff, Z.ltb_ge. reflexivity.
  Qed.

  (* what any scheme's Validate checks, premise-free *)
  Lemma scheme_accepts_iff ttl now c t : svalidate L H ttl now c t = true <->
    exists tag tsb, sc_unpack L c = Some (tag, tsb) /\ tag = H (sc_msg L t tsb) /\
                    (now - Z.of_N (ts_of tsb) * ns_per_s <= ttl)%Z.
  Proof.
    unfold svalidate. destruct (sc_unpack L c) as [[tag tsb]|]; split.
    - intros Hv. apply andb_true_iff in Hv as [H1 H2]. apply negb_true_iff, Z.ltb_ge in H1.
      apply bytes_eqb_eq in H2. eauto.
    - intros (tag' & ts' & He & Ht & Hf). inversion He; subst. apply andb_true_iff. split.
      + apply negb_true_iff, Z.ltb_ge. exact Hf.
      + apply bytes_eqb_eq. reflexivity.
    - discriminate.
    - intros (tag' & ts' & He & _). discriminate.
  Qed.

  (* soundness for ANY lawful layout, under unforgeability for the single (message, tag) pair presented:
     an accepted cookie is, byte for byte, the cookie this BNG issued for the same tuple, within its lifetime *)
  Lemma scheme_sound ttl now c t (issued : list (tuple * N)) :
    (forall tag tsb, sc_unpack L c = Some (tag, tsb) -> tag = H (sc_msg L t tsb) ->
                     In (sc_msg L t tsb) (map smsg issued)) ->
    Forall wf_issue issued -> wf_tuple t ->
    svalidate L H ttl now c t = true ->
    exists ts, In (t, ts) issued /\ (now - Z.of_N ts * ns_per_s <= ttl)%Z /\ c = scookie (t, ts).
  Proof.
    intros Hunf Hwf Hwt Hv. apply scheme_accepts_iff in Hv as (tag & tsb & Hu & Ht & Hf).
    destruct (law_pack_unpack _ HL _ _ _ Hu) as [Hc Hl].
    specialize (Hunf _ _ Hu Ht). apply in_map_iff in Hunf as ([t' ts'] & He & Hin). unfold smsg in He. simpl in He.
    rewrite Coq.Lists.List.Forall_forall in Hwf. destruct (Hwf _ Hin) as [Hw' Hts']. simpl in Hw', Hts'.
    assert (Hl4 : length (put32 ts') = 4%nat) by reflexivity.
    destruct (law_msg_inj _ HL _ _ _ _ Hw' Hwt Hl4 Hl He) as [-> <-].
    exists ts'. split; [exact Hin|]. rewrite ts_of_put32 in Hf by exact Hts'. split; [exact Hf|].
    unfold scookie, smsg. simpl. rewrite Hc, Ht. reflexivity.
  Qed.

  (* hence every lawful scheme refines the layout-free specification the correspondence uses: accepted iff the
     cookie is one of those issued (as bytes), for that tuple, within its lifetime *)
  Definition cookies_of (issued : list (tuple * N)) : list issued_cookie :=
    map (fun i => (scookie i, fst i, snd i)) issued.

  Lemma scheme_refines_ideal ttl now c t issued : (forall d, length (H d) = 32%nat) ->
    (forall tag tsb, sc_unpack L c = Some (tag, tsb) -> tag = H (sc_msg L t tsb) ->
                     In (sc_msg L t tsb) (map smsg issued)) ->
    Forall wf_issue issued -> wf_tuple t ->
    svalidate L H ttl now c t = ideal_validate (cookies_of issued) ttl now c t.
  Proof.
    intros Hlen Hunf Hwf Hwt. destruct (svalidate L H ttl now c t) eqn:Ev; symmetry.
    - destruct (scheme_sound _ _ _ _ _ Hunf Hwf Hwt Ev) as (ts & Hin & Hf & Hc).
      unfold ideal_validate. apply existsb_exists.
      exists (scookie (t, ts), t, ts). split.
      + unfold cookies_of. apply in_map_iff. exists (t, ts). auto.
      + rewrite Hc. replace (bytes_eqb _ _) with true by (symmetry; apply bytes_eqb_eq; reflexivity).
        replace (tuple_eqb t t) with true by (symmetry; apply tuple_eqb_eq; reflexivity).
        simpl. apply negb_true_iff, Z.ltb_ge. exact Hf.
    - destruct (ideal_validate (cookies_of issued) ttl now c t) eqn:Ei; [|reflexivity]. exfalso.
      unfold ideal_validate in Ei. apply existsb_exists in Ei as ([[c' t'] ts] & Hin & Hb).
      apply andb_true_iff in Hb as [Hb Hf]. apply andb_true_iff in Hb as [Hc Ht].
      apply bytes_eqb_eq in Hc. apply tuple_eqb_eq in Ht. subst c' t'.
      unfold cookies_of in Hin. apply in_map_iff in Hin as ([t2 ts2] & He & Hin). simpl in He.
      injection He as E1 E2 E3. subst t2 ts2.
      rewrite Coq.Lists.List.Forall_forall in Hwf. destruct (Hwf _ Hin) as [_ Hts]. simpl in Hts.
      assert (Hv : svalidate L H ttl now (scookie (t, ts)) t = true).
      { apply scheme_accepts_iff. exists (H (smsg (t, ts))), (put32 ts). split.
        - unfold scookie. apply (law_unpack_pack _ HL); [apply Hlen | reflexivity].
        - split; [reflexivity|]. rewrite ts_of_put32 by exact Hts. apply negb_true_iff, Z.ltb_ge in Hf. exact Hf. }
      congruence.
  Qed.
End Scheme.

(* /repo HEAD's layout is a lawful scheme, and it is exactly [generate] / [validate] *)
Lemma go_copy_exact n l : length l = n -> go_copy (repeat 0 n) l = l.
Proof.
  intros <-. unfold go_copy. rewrite repeat_length, firstn_all.
  rewrite skipn_all2 by (rewrite repeat_length; lia). apply app_nil_r.
Qed.

Lemma head_scheme_validate H ttl now c t : svalidate head_scheme H ttl now c t = validate H ttl now c t.
Proof.
  destruct t as [[mac sv] cv]. unfold svalidate, validate. cbn [sc_unpack head_scheme sc_msg].
  destruct (Nat.eqb (length c) 36) eqn:El; cbn [negb]; [|reflexivity].
  apply Nat.eqb_eq in El.
  assert (Hl4 : length (skipn 32 c) = 4%nat) by (rewrite skipn_length; lia).
  destruct (skipn 32 c) as [|a [|b [|c4 [|d [|? ?]]]]]; try discriminate Hl4. cbn [ts_of].
  destruct (ttl <? _)%Z; reflexivity.
Qed.

Lemma head_scheme_generate H now t : (forall d, length (H d) = 32%nat) ->
  sgenerate head_scheme H now t = generate H now t.
Proof. intros Hlen. destruct t as [[mac sv] cv]. reflexivity. Qed.

Lemma head_scheme_lawful : lawful head_scheme.
Proof.
  split.
  - intros tag tsb Ht Hb. cbn [sc_unpack sc_pack head_scheme]. rewrite !go_copy_exact by assumption.
    rewrite app_length, Ht, Hb. simpl Nat.eqb. cbv iota.
    assert (E1 : firstn 32 (tag ++ tsb) = tag)
      by (rewrite <- Ht, firstn_app, firstn_all, Nat.sub_diag; simpl; apply app_nil_r).
    assert (E2 : skipn 32 (tag ++ tsb) = tsb)
      by (rewrite <- Ht, skipn_app, skipn_all, Nat.sub_diag; reflexivity).
    rewrite E1, E2. reflexivity.
  - intros c tag tsb Hu. cbn [sc_unpack sc_pack head_scheme] in *.
    destruct (Nat.eqb (length c) 36) eqn:El; [|discriminate]. apply Nat.eqb_eq in El. inversion Hu; subst.
    assert (length (firstn 32 c) = 32%nat) by (rewrite firstn_length; lia).
    assert (length (skipn 32 c) = 4%nat) by (rewrite skipn_length; lia).
    rewrite !go_copy_exact by assumption. rewrite firstn_skipn. auto.
  - intros [[m1 s1] c1] b1 [[m2 s2] c2] b2 [Hs1 Hc1] [Hs2 Hc2] Hl1 Hl2 He. cbn [sc_msg head_scheme] in He.
    unfold enc_val in He.
    assert (Hlen : length ([hi8 s1; lo8 s1] ++ [hi8 c1; lo8 c1] ++ b1) = length ([hi8 s2; lo8 s2] ++ [hi8 c2; lo8 c2] ++ b2))
      by (rewrite !app_length, Hl1, Hl2; reflexivity).
    apply app_inj_2 in He as [Hm He]; [|exact Hlen].
    apply app_inj_1 in He as [Hs He]; [|reflexivity].
    apply app_inj_1 in He as [Hc He]; [|reflexivity].
    assert (s1 = s2) by (apply put16_inj; auto). assert (c1 = c2) by (apply put16_inj; auto). subst. auto.
Qed.

Lemma alt_scheme_lawful : lawful alt_scheme.
Proof.
  split.
  - intros tag tsb Ht Hb. cbn [sc_unpack sc_pack alt_scheme]. rewrite !go_copy_exact by assumption.
    rewrite app_length, Ht, Hb. simpl Nat.eqb. cbv iota.
    assert (E1 : firstn 4 (tsb ++ tag) = tsb)
      by (rewrite <- Hb, firstn_app, firstn_all, Nat.sub_diag; simpl; apply app_nil_r).
    assert (E2 : skipn 4 (tsb ++ tag) = tag)
      by (rewrite <- Hb, skipn_app, skipn_all, Nat.sub_diag; reflexivity).
    rewrite E1, E2. reflexivity.
  - intros c tag tsb Hu. cbn [sc_unpack sc_pack alt_scheme] in *.
    destruct (Nat.eqb (length c) 36) eqn:El; [|discriminate]. apply Nat.eqb_eq in El. inversion Hu; subst.
    assert (length (firstn 4 c) = 4%nat) by (rewrite firstn_length; lia).
    assert (length (skipn 4 c) = 32%nat) by (rewrite skipn_length; lia).
    rewrite !go_copy_exact by assumption. rewrite firstn_skipn. auto.
  - intros [[m1 s1] c1] b1 [[m2 s2] c2] b2 [Hs1 Hc1] [Hs2 Hc2] Hl1 Hl2 He. cbn [sc_msg alt_scheme] in He.
    apply app_inj_1 in He as [Hb He]; [|congruence].
    apply app_inj_2 in He as [Hm He]; [|reflexivity].
    apply app_inj_1 in He as [Hs Hc]; [|reflexivity].
    assert (s1 = s2) by (apply put16_inj; auto). assert (c1 = c2) by (apply put16_inj; auto). subst. auto.
Qed.

(* ------------------------------------------------------------------ session-id allocation *)
Definition nx (n : N) : N := let n1 := u16 (n + 1) in if N.eqb n1 0 then 1 else n1.

Lemma nx_range n : 0 < nx n < 65536.
Proof. unfold nx, u16. destruct (N.eqb_spec ((n + 1) mod 65536) 0); lia. Qed.

Lemma nx_val n : 0 < n < 65536 -> nx n = if N.eqb n 65535 then 1 else n + 1.
Proof.
  intros Hn. unfold nx, u16. destruct (N.eqb_spec n 65535) as [->|Hne]; [reflexivity|].
  destruct (N.eqb_spec ((n + 1) mod 65536) 0); lia.
Qed.

Lemma alloc_loop_unfold f used start nxt :
  alloc_loop (S f) used start nxt =
  if negb (used nxt) then Ok (nxt, nx nxt)
  else if N.eqb (nx nxt) start then Ok (0, nx nxt)
  else alloc_loop f used start (nx nxt).
Proof. reflexivity. Qed.

(* safety: whatever the loop returns is 0 or an id in 1..65535 that is not in use; the counter stays in 1..65535 *)
Lemma alloc_loop_sound fuel used start : forall nxt sid n',
  0 < nxt < 65536 -> alloc_loop fuel used start nxt = Ok (sid, n') ->
  0 < n' < 65536 /\ (sid = 0 \/ (used sid = false /\ 0 < sid < 65536)).
Proof.
  induction fuel as [|f IH]; intros nxt sid n' Hn Ha; [discriminate|].
  rewrite alloc_loop_unfold in Ha. pose proof (nx_range nxt) as Hr.
  destruct (used nxt) eqn:El; simpl in Ha.
  - destruct (N.eqb (nx nxt) start).
    + inversion Ha; subst. split; [lia | left; reflexivity].
    + eapply IH; [|exact Ha]. lia.
  - inversion Ha; subst. split; [lia | right; split; [exact El | lia]].
Qed.

(* position of an id in the cyclic scan that starts at [start] *)
Definition pos (start n : N) : N := (n + 65535 - start) mod 65535.

Lemma pos_nx start n : 0 < start < 65536 -> 0 < n < 65536 -> nx n <> start -> pos start (nx n) = pos start n + 1.
Proof. intros Hs Hn. rewrite nx_val by exact Hn. unfold pos. destruct (N.eqb_spec n 65535); intros; lia. Qed.

Lemma pos_last start n : 0 < start < 65536 -> 0 < n < 65536 -> nx n = start -> pos start n = 65534.
Proof. intros Hs Hn. rewrite nx_val by exact Hn. unfold pos. destruct (N.eqb_spec n 65535); intros; lia. Qed.

Lemma pos_inj start a b : 0 < start < 65536 -> 0 < a < 65536 -> 0 < b < 65536 -> pos start a = pos start b -> a = b.
Proof. unfold pos. intros; lia. Qed.

Lemma pos_bound start n : pos start n < 65535.
Proof. unfold pos. lia. Qed.

(* completeness: with enough fuel the loop scans every id once; it answers 0 only when all
   65535 ids are in use, and never runs out of fuel *)
Lemma alloc_loop_complete used start : 0 < start < 65536 ->
  forall fuel nxt, 0 < nxt < 65536 ->
  (forall j, 0 < j < 65536 -> pos start j < pos start nxt -> used j = true) ->
  65535 <= N.of_nat fuel + pos start nxt ->
  exists sid n', alloc_loop fuel used start nxt = Ok (sid, n') /\
    ((sid <> 0 /\ used sid = false) \/ (sid = 0 /\ forall j, 0 < j < 65536 -> used j = true)).
Proof.
  intros Hs. induction fuel as [|f IH]; intros nxt Hn Hused Hfuel.
  - pose proof (pos_bound start nxt). lia.
  - rewrite alloc_loop_unfold. destruct (used nxt) eqn:El; simpl.
    + destruct (N.eqb_spec (nx nxt) start) as [He|Hne].
      * exists 0, (nx nxt). split; [reflexivity|]. right. split; [reflexivity|].
        intros j Hj. pose proof (pos_last start nxt Hs Hn He) as Hl.
        destruct (N.eq_dec (pos start j) (pos start nxt)) as [Hp|Hp].
        -- apply pos_inj in Hp; auto. subst j. exact El.
        -- apply Hused; [exact Hj|]. pose proof (pos_bound start j). lia.
      * pose proof (nx_range nxt) as Hr. pose proof (pos_nx start nxt Hs Hn Hne) as Hp.
        apply IH; [lia| |lia].
        intros j Hj Hlt. destruct (N.eq_dec (pos start j) (pos start nxt)) as [Hq|Hq].
        -- apply pos_inj in Hq; auto. subst j. exact El.
        -- apply Hused; [exact Hj | lia].
    + exists nxt, (nx nxt). split; [reflexivity|]. left. split; [lia | exact El].
Qed.

Lemma alloc_fuel_enough : 65535 <= N.of_nat alloc_fuel.
Proof. unfold alloc_fuel. lia. Qed.

Lemma norm_next_range v n : v_sid_guard v = true -> n < 65536 -> 0 < norm_next v n < 65536.
Proof. unfold norm_next. intros ->. destruct (N.eqb_spec n 0); lia. Qed.

Lemma allocate_sound v s sid n' : 0 < norm_next v (next s) < 65536 ->
  allocate v s = Ok (sid, n') ->
  0 < n' < 65536 /\ (sid = 0 \/ (id_used v s sid = false /\ 0 < sid < 65536)).
Proof. unfold allocate. intros Hn Ha. eapply alloc_loop_sound; eauto. Qed.

Lemma allocate_complete v s : 0 < norm_next v (next s) < 65536 ->
  exists sid n', allocate v s = Ok (sid, n') /\
    ((sid <> 0 /\ id_used v s sid = false) \/ (sid = 0 /\ forall j, 0 < j < 65536 -> id_used v s j = true)).
Proof.
  intros Hn. unfold allocate. apply alloc_loop_complete; auto.
  - intros j Hj Hlt. unfold pos in Hlt. lia.
  - pose proof alloc_fuel_enough. lia.
Qed.

Lemma alloc_loop_ext fuel u1 u2 start : (forall k, u1 k = u2 k) ->
  forall nxt, alloc_loop fuel u1 start nxt = alloc_loop fuel u2 start nxt.
Proof.
  intros Hu. induction fuel as [|f IH]; intros nxt; [reflexivity|]. rewrite !alloc_loop_unfold, Hu.
  destruct (negb _); [reflexivity|]. destruct (N.eqb _ _); [reflexivity | apply IH].
Qed.

(* the reference scan from 1 says "full" exactly when every id in 1..65535 is in use *)
Lemma some_id_free_false v s : some_id_free v s = false -> forall j, 0 < j < 65536 -> id_used v s j = true.
Proof.
  unfold some_id_free. intros Hf.
  destruct (alloc_loop_complete (id_used v s) 1 ltac:(lia) alloc_fuel 1 ltac:(lia)) as (sid & n' & Ha & Hc).
  - intros j Hj Hlt. unfold pos in Hlt. lia.
  - pose proof alloc_fuel_enough. lia.
  - rewrite Ha in Hf. destruct Hc as [[Hne _]|[_ Hall]]; [|exact Hall].
    destruct sid; [contradiction | discriminate].
Qed.
Lemma some_id_free_true v s j : 0 < j < 65536 -> id_used v s j = false -> some_id_free v s = true.
Proof.
  intros Hj Hu. destruct (some_id_free v s) eqn:E; [reflexivity|].
  rewrite (some_id_free_false _ _ E j Hj) in Hu. discriminate.
Qed.

(* whatever way the id is resolved (HEAD's counter, or an observed admissible choice): 0, or an id in
   1..65535 that is neither indexed nor reserved *)
Lemma alloc_choice_sound v s oc sid n' : 0 < norm_next v (next s) < 65536 -> next s < 65536 ->
  alloc_choice v s oc = Ok (sid, n') ->
  n' < 65536 /\ (sid = 0 \/ (id_used v s sid = false /\ 0 < sid < 65536)).
Proof.
  intros Hn Hnx. destruct oc as [| |c]; cbn [alloc_choice].
  - intros Ha. apply allocate_sound in Ha; [|exact Hn]. destruct Ha as [Hn' Hs]. split; [lia | exact Hs].
  - destruct (some_id_free v s); [discriminate|]. intros Hx; inversion Hx; subst. auto.
  - destruct (N.ltb_spec 0 c); cbn [andb]; [|discriminate]. destruct (N.ltb_spec c 65536); cbn [andb]; [|discriminate].
    destruct (id_used v s c) eqn:Eu; cbn [negb]; [discriminate|]. intros Hx; inversion Hx; subst. split; [exact Hnx|].
    right. split; [exact Eu | lia].
Qed.

(* HEAD's policy is one of the admissible choices: what the counter scan returns is accepted as an observed
   answer too (same id; the refusal exactly when nothing is free) *)
Lemma policy_is_admissible v s sid n' : 0 < norm_next v (next s) < 65536 -> allocate v s = Ok (sid, n') ->
  (sid <> 0 -> alloc_choice v s (Chose sid) = Ok (sid, next s)) /\
  (sid = 0 -> alloc_choice v s Refused = Ok (0, next s)).
Proof.
  intros Hn Ha. pose proof (allocate_sound _ _ _ _ Hn Ha) as [_ Hs]. split.
  - intros Hne. destruct Hs as [?|[Hu Hr]]; [contradiction|]. cbn [alloc_choice].
    destruct (N.ltb_spec 0 sid); [|lia]. destruct (N.ltb_spec sid 65536); [|lia]. rewrite Hu. reflexivity.
  - intros ->. cbn [alloc_choice]. destruct (some_id_free v s) eqn:E; [|reflexivity]. exfalso.
    destruct (allocate_complete v s Hn) as (sid & n2 & Ha2 & Hc). rewrite Ha in Ha2. inversion Ha2; subst.
    destruct Hc as [[Hne _]|[_ Hall]]; [contradiction|].
    unfold some_id_free in E.
    destruct (alloc_loop_complete (id_used v s) 1 ltac:(lia) alloc_fuel 1 ltac:(lia)) as (sid & n3 & Ha3 & Hc3).
    + intros j Hj Hlt. unfold pos in Hlt. lia.
    + pose proof alloc_fuel_enough. lia.
    + rewrite Ha3 in E. destruct Hc3 as [[Hne Hf]|[-> _]]; [|discriminate].
      assert (H11 : 0 < 1 < 65536) by lia.
      pose proof (alloc_loop_sound alloc_fuel (id_used v s) 1 1 sid n3 H11 Ha3) as [_ [?|[_ Hr]]]; [contradiction|].
      rewrite (Hall sid Hr) in Hf. discriminate.
Qed.

Lemma id_used_false v s k : id_used v s k = false ->
  by_sid s !! k = None /\ (v_reserve v = true -> forall x, In x (pend s) -> s_sid x <> k).
Proof.
  unfold id_used, sid_used. intros Hu. apply orb_false_iff in Hu as [H1 H2].
  split; [destruct (by_sid s !! k); [discriminate | reflexivity]|].
  intros Hr x Hx He. rewrite Hr in H2. simpl in H2. unfold pend_has in H2.
  assert (existsb (fun y => N.eqb (s_sid y) k) (pend s) = true) as Hc.
  { apply existsb_exists. exists x. split; [exact Hx | apply N.eqb_eq; exact He]. }
  congruence.
Qed.

Lemma pend_has_false l k : pend_has l k = false -> forall x, In x l -> s_sid x <> k.
Proof.
  unfold pend_has. intros Hf x Hx He.
  assert (existsb (fun y => N.eqb (s_sid y) k) l = true) as Hc
    by (apply existsb_exists; exists x; split; [exact Hx | apply N.eqb_eq; exact He]).
  congruence.
Qed.

(* ------------------------------------------------------------------ handlePADR up to the allocation *)
Lemma padr_begin_cases v e s t p oc r : padr_begin v e s t p oc = Some r ->
  r = (s, None) \/
  exists tg sid n', parse_tags p = Ok tg /\
    e_val e (t_cookie tg) t = true /\ e_grp e t = true /\
    alloc_choice v s oc = Ok (sid, n') /\
    ((sid = 0 /\ r = (set_next s n', None)) \/
     ((oc = Policy -> v_sid_guard v && N.eqb sid 0 = false) /\ (oc <> Policy -> sid <> 0) /\
      r = (bump_ctr (set_next s n'), Some {| s_uid := ctr s; s_sid := sid; s_tup := t |}))).
Proof.
  unfold padr_begin. destruct (parse_tags p) as [tg|?| |]; try discriminate.
  - destruct (e_val e _ _) eqn:Ev; simpl; [|intros Hx; inversion Hx; auto].
    destruct (e_grp e t) eqn:Eg; simpl; [|intros Hx; inversion Hx; auto].
    destruct (alloc_choice v s oc) as [[sid n']|?| |] eqn:Ea; try discriminate.
    destruct ((v_sid_guard v || negb match oc with Policy => true | _ => false end) && N.eqb sid 0) eqn:Eg0;
      intros Hx; inversion Hx; subst; right; exists tg, sid, n'; repeat split; auto.
    + left. apply andb_true_iff in Eg0 as [_ Hz]. apply N.eqb_eq in Hz. auto.
    + right. repeat split.
      * intros ->. simpl in Eg0. rewrite orb_false_r in Eg0. exact Eg0.
      * intros Hne He. subst sid. destruct oc; [contradiction| |]; simpl in Eg0; rewrite orb_true_r in Eg0; discriminate.
  - intros Hx; inversion Hx; auto.
Qed.

Lemma padr_begin_novalid v e s t p oc r : padr_begin v e s t p oc = Some r ->
  (forall tg, parse_tags p = Ok tg -> e_val e (t_cookie tg) t = false) ->
  r = (s, None).
Proof.
  intros Hb Hv. apply padr_begin_cases in Hb as [->|(tg & sid & n' & Hp & Hval & _)]; [reflexivity|].
  rewrite (Hv tg Hp) in Hval. discriminate.
Qed.

Lemma padr_begin_frame v e s t p oc s1 ox : padr_begin v e s t p oc = Some (s1, ox) ->
  by_sid s1 = by_sid s /\ by_tup s1 = by_tup s /\ by_uidx s1 = by_uidx s /\ by_attr s1 = by_attr s /\
  attr_of s1 = attr_of s /\ pend s1 = pend s /\
  match ox with Some x => s_tup x = t /\ s_uid x = ctr s /\ ctr s1 = N.succ (ctr s) | None => True end.
Proof.
  intros Hb. apply padr_begin_cases in Hb as [Hx|(tg & sid & n' & _ & _ & _ & _ & [[_ Hx]|(_ & _ & Hx)])];
    inversion Hx; subst; simpl; repeat split; auto.
Qed.

(* ------------------------------------------------------------------ table invariant *)
Definition live (s : st) (x : sess) : Prop :=
  (exists k, by_sid s !! k = Some x) \/ (exists t, by_tup s !! t = Some x).
(* live, or built by a handlePADR that has not indexed it yet *)
Definition alive (s : st) (x : sess) : Prop := live s x \/ In x (pend s).

Record Inv (s : st) : Prop := {
  inv_sid : forall k x, by_sid s !! k = Some x -> s_sid x = k /\ 0 < k < 65536;
  inv_tup : forall t x, by_tup s !! t = Some x -> s_tup x = t /\ by_sid s !! (s_sid x) = Some x;
  inv_next : next s < 65536;
  inv_ctr : forall k x, by_sid s !! k = Some x -> s_uid x < ctr s;
  inv_uidx : forall k x, by_uidx s !! k = Some x -> s_uid x = k /\ k < ctr s;
  inv_pend : forall x, In x (pend s) ->
     0 < s_sid x < 65536 /\ by_sid s !! s_sid x = None /\ s_uid x < ctr s /\ by_uidx s !! s_uid x = None;
  inv_pend_sid : NoDup (map s_sid (pend s));
  inv_pend_uid : NoDup (map s_uid (pend s))
}.

Lemma Inv_st0 : Inv st0.
Proof.
  split; simpl; intros; try lia; try (rewrite lookup_empty in *; discriminate); try contradiction; constructor.
Qed.

Lemma Inv_set_next s n : Inv s -> n < 65536 -> Inv (set_next s n).
Proof. intros [A B C D E F G H] Hn. split; simpl; auto. Qed.

Lemma Inv_set_attr_of s u a : Inv s -> Inv (set_attr_of s u a).
Proof. intros [A B C D E F G H]. split; simpl; auto. Qed.

Lemma Inv_mark_gone s u : Inv s -> Inv (mark_gone u s).
Proof. intros [A B C D E F G H]. split; simpl; auto. Qed.
Lemma Inv_add_preq s u : Inv s -> Inv (add_preq u s).
Proof. intros [A B C D E F G H]. split; simpl; auto. Qed.

Lemma sess_eqb_eq a b : sess_eqb a b = true <-> a = b.
Proof.
  destruct a as [u1 s1 t1], b as [u2 s2 t2]. unfold sess_eqb; simpl.
  rewrite !andb_true_iff, !N.eqb_eq, tuple_eqb_eq. split.
  - intros [[-> ->] ->]; reflexivity.
  - intros Hx; inversion Hx; auto.
Qed.

(* what a (guarded or unguarded) delete leaves is a sub-map; and it does remove the session's own entry *)
Lemma del_if_sub {K} `{Countable K} g x (k k' : K) (m : gmap K sess) y :
  del_if g x k m !! k' = Some y -> m !! k' = Some y.
Proof.
  unfold del_if. destruct g.
  - destruct (m !! k) as [z|] eqn:E; [|auto]. destruct (sess_eqb z x); [|auto].
    intros Hl. apply lookup_delete_Some in Hl as [_ Hl]. exact Hl.
  - intros Hl. apply lookup_delete_Some in Hl as [_ Hl]. exact Hl.
Qed.
Lemma del_ifN_sub g x (k k' : N) (m : Nmap sess) y : del_ifN g x k m !! k' = Some y -> m !! k' = Some y.
Proof.
  unfold del_ifN. destruct g.
  - destruct (m !! k) as [z|] eqn:E; [|auto]. destruct (sess_eqb z x); [|auto].
    intros Hl. apply lookup_delete_Some in Hl as [_ Hl]. exact Hl.
  - intros Hl. apply lookup_delete_Some in Hl as [_ Hl]. exact Hl.
Qed.
Lemma del_if_own {K} `{Countable K} g x (k : K) (m : gmap K sess) : m !! k = Some x -> del_if g x k m !! k = None.
Proof.
  intros Hm. unfold del_if. destruct g; [|apply lookup_delete].
  rewrite Hm. replace (sess_eqb x x) with true by (symmetry; apply sess_eqb_eq; reflexivity). apply lookup_delete.
Qed.
Lemma del_ifN_own g x (k : N) (m : Nmap sess) : m !! k = Some x -> del_ifN g x k m !! k = None.
Proof.
  intros Hm. unfold del_ifN. destruct g; [|apply lookup_delete].
  rewrite Hm. replace (sess_eqb x x) with true by (symmetry; apply sess_eqb_eq; reflexivity). apply lookup_delete.
Qed.
Lemma del_ifN_ne g x (k k' : N) (m : Nmap sess) : k <> k' -> del_ifN g x k m !! k' = m !! k'.
Proof.
  intros Hne. unfold del_ifN. destruct g; [|apply lookup_delete_ne; exact Hne].
  destruct (m !! k) as [z|]; [|reflexivity]. destruct (sess_eqb z x); [apply lookup_delete_ne; exact Hne | reflexivity].
Qed.
Lemma del_if_ne {K} `{Countable K} g x (k k' : K) (m : gmap K sess) : k <> k' -> del_if g x k m !! k' = m !! k'.
Proof.
  intros Hne. unfold del_if. destruct g; [|apply lookup_delete_ne; exact Hne].
  destruct (m !! k) as [z|]; [|reflexivity]. destruct (sess_eqb z x); [apply lookup_delete_ne; exact Hne | reflexivity].
Qed.
(* a guarded delete keeps every entry that points to another session *)
Lemma del_if_keep {K} `{Countable K} x (k k' : K) (m : gmap K sess) y :
  m !! k' = Some y -> y <> x -> del_if true x k m !! k' = Some y.
Proof.
  intros Hm Hne. unfold del_if. destruct (m !! k) as [z|] eqn:E; [|exact Hm].
  destruct (sess_eqb z x) eqn:Eq; [|exact Hm]. apply sess_eqb_eq in Eq. subst z.
  rewrite lookup_delete_ne; [exact Hm|]. intros <-. congruence.
Qed.
Lemma del_ifN_keep x (k k' : N) (m : Nmap sess) y :
  m !! k' = Some y -> y <> x -> del_ifN true x k m !! k' = Some y.
Proof.
  intros Hm Hne. unfold del_ifN. destruct (m !! k) as [z|] eqn:E; [|exact Hm].
  destruct (sess_eqb z x) eqn:Eq; [|exact Hm]. apply sess_eqb_eq in Eq. subst z.
  rewrite lookup_delete_ne; [exact Hm|]. intros <-. congruence.
Qed.

(* insert a session whose id and uid are unused and not pending *)
Lemma Inv_add s a x : Inv s -> by_sid s !! s_sid x = None -> 0 < s_sid x < 65536 -> s_uid x < ctr s ->
  by_uidx s !! s_uid x = None ->
  (forall y, In y (pend s) -> s_sid y <> s_sid x /\ s_uid y <> s_uid x) ->
  Inv (add_indexes a x s).
Proof.
  intros [A B C D E F G H] Hfree Hr Hu Hux Hp. split; simpl; auto.
  - intros k y Hl. destruct (N.eq_dec (s_sid x) k) as [<-|Hne].
    + rewrite lookup_insert in Hl. inversion Hl; subst. auto.
    + rewrite lookup_insert_ne in Hl by exact Hne. auto.
  - intros t y Hl. destruct (decide (s_tup x = t)) as [<-|Hne].
    + rewrite lookup_insert in Hl. inversion Hl; subst. split; [reflexivity | apply lookup_insert].
    + rewrite lookup_insert_ne in Hl by exact Hne. destruct (B _ _ Hl) as [B1 B2]. split; [exact B1|].
      rewrite lookup_insert_ne; [exact B2|]. intros He. rewrite He in Hfree. congruence.
  - intros k y Hl. destruct (N.eq_dec (s_sid x) k) as [<-|Hne].
    + rewrite lookup_insert in Hl. inversion Hl; subst. exact Hu.
    + rewrite lookup_insert_ne in Hl by exact Hne. eauto.
  - intros k y Hl. destruct (N.eq_dec (s_uid x) k) as [<-|Hne].
    + rewrite lookup_insert in Hl. inversion Hl; subst. auto.
    + rewrite lookup_insert_ne in Hl by exact Hne. auto.
  - intros y Hy. destruct (F y Hy) as (F1 & F2 & F3 & F4). destruct (Hp y Hy) as [P1 P2].
    split; [exact F1|]. split; [|split; [exact F3|]].
    + rewrite lookup_insert_ne; auto.
    + rewrite lookup_insert_ne; auto.
Qed.

Lemma Inv_bump s : Inv s -> Inv (bump_ctr s).
Proof.
  intros [A B C D E F G H]. split; simpl; auto.
  - intros k x Hl. specialize (D _ _ Hl). lia.
  - intros k x Hl. destruct (E _ _ Hl). split; [auto | lia].
  - intros x Hx. destruct (F x Hx) as (F1 & F2 & F3 & F4). split; [exact F1|]. split; [exact F2|]. split; [lia | exact F4].
Qed.

Lemma Inv_remove v s k x : Inv s -> by_sid s !! k = Some x -> Inv (remove_indexes v x s).
Proof.
  intros [A B C D E F G H] Hx. destruct (A _ _ Hx) as [A1 A2]. split; simpl; auto.
  - intros k' y Hl. apply del_ifN_sub in Hl. auto.
  - intros t y Hl. pose proof Hl as Hl0. apply del_if_sub in Hl. destruct (B _ _ Hl) as [B1 B2].
    split; [exact B1|]. destruct (N.eq_dec (s_sid x) (s_sid y)) as [He|Hne].
    + exfalso. rewrite <- He, A1, Hx in B2. inversion B2; subst y.
      rewrite <- B1 in Hl0. rewrite del_if_own in Hl0; [discriminate|]. rewrite B1. exact Hl.
    + rewrite del_ifN_ne by exact Hne. exact B2.
  - intros k' y Hl. apply del_ifN_sub in Hl. eauto.
  - intros k' y Hl. apply del_ifN_sub in Hl. eauto.
  - intros y Hy. destruct (F y Hy) as (F1 & F2 & F3 & F4). split; [exact F1|]. split; [|split; [exact F3|]].
    + destruct (del_ifN (v_guard_remove v) x (s_sid x) (by_sid s) !! s_sid y) eqn:Eq1; [|reflexivity].
      apply del_ifN_sub in Eq1. congruence.
    + destruct (del_ifN (v_guard_remove v) x (s_uid x) (by_uidx s) !! s_uid y) eqn:Eq2; [|reflexivity].
      apply del_ifN_sub in Eq2. congruence.
Qed.

(* tearing down an ARBITRARY session object (live, or stale: referenced only by a late dataplane callback) keeps
   the invariant when removal is guarded: only entries that point to x itself go *)
Lemma Inv_remove_any v s x : v_guard_remove v = true -> Inv s -> Inv (remove_indexes v x s).
Proof.
  intros Hg [A B C D E F G H]. split; simpl; auto; rewrite ?Hg.
  - intros k' z Hl. apply del_ifN_sub in Hl. auto.
  - intros t z Hl. pose proof Hl as Hl0. apply del_if_sub in Hl. destruct (B _ _ Hl) as [B1 B2].
    split; [exact B1|]. destruct (sess_eqb z x) eqn:Eq.
    + apply sess_eqb_eq in Eq. subst z. rewrite <- B1 in Hl0. rewrite del_if_own in Hl0; [discriminate|].
      rewrite B1. exact Hl.
    + apply del_ifN_keep; [exact B2|]. intros ->. rewrite (proj2 (sess_eqb_eq x x) eq_refl) in Eq. discriminate.
  - intros k' z Hl. apply del_ifN_sub in Hl. eauto.
  - intros k' z Hl. apply del_ifN_sub in Hl. eauto.
  - intros z Hz. destruct (F z Hz) as (F1 & F2 & F3 & F4). split; [exact F1|]. split; [|split; [exact F3|]].
    + destruct (del_ifN true x (s_sid x) (by_sid s) !! s_sid z) eqn:Eq1; [|reflexivity].
      apply del_ifN_sub in Eq1. congruence.
    + destruct (del_ifN true x (s_uid x) (by_uidx s) !! s_uid z) eqn:Eq2; [|reflexivity].
      apply del_ifN_sub in Eq2. congruence.
Qed.

Lemma u16_lt n : u16 n < 65536.
Proof. unfold u16. lia. Qed.

Lemma take_pend_perm u : forall l x r, take_pend u l = Some (x, r) -> l ≡ₚ x :: r /\ s_uid x = u.
Proof.
  induction l as [|y l IH]; intros x r Ht; [discriminate|]. simpl in Ht.
  destruct (N.eqb_spec (s_uid y) u) as [He|Hne].
  - inversion Ht; subst. auto.
  - destruct (take_pend u l) as [[z r']|] eqn:E; [|discriminate]. inversion Ht; subst.
    destruct (IH _ _ eq_refl) as [Hp Hu]. split; [|exact Hu]. rewrite Hp. apply perm_swap.
Qed.

(* the variants for which the invariant is inductive over every interleaving *)
Definition reserving (v : variant) : Prop :=
  v_sid_guard v = true /\ v_reserve v = true /\ v_ha_check v = true /\ v_guard_remove v = true.

Lemma padr_begin_Inv v e s t p oc s1 ox : reserving v -> Inv s -> padr_begin v e s t p oc = Some (s1, ox) ->
  Inv s1 /\ pend s1 = pend s /\
  match ox with
  | None => True
  | Some x => by_sid s1 !! s_sid x = None /\ 0 < s_sid x < 65536 /\ s_uid x < ctr s1 /\
              by_uidx s1 !! s_uid x = None /\ s_tup x = t /\
              (forall y, In y (pend s1) -> s_sid y <> s_sid x /\ s_uid y <> s_uid x)
  end.
Proof.
  intros (Hg & Hr & _ & _) HI Hb. apply padr_begin_cases in Hb as [Hx|(tg & sid & n' & _ & _ & _ & Ha & Hc)].
  - inversion Hx; subst. auto.
  - apply alloc_choice_sound in Ha; [|apply norm_next_range; [exact Hg | apply HI] | apply HI]. destruct Ha as [Hn' Hsid].
    destruct Hc as [[_ Hx]|(Hz1 & Hz2 & Hx)]; inversion Hx; subst.
    + split; [apply Inv_set_next; [exact HI | lia] | auto].
    + split; [apply Inv_bump, Inv_set_next; [exact HI | lia]|]. split; [reflexivity|]. simpl.
      assert (Hz : sid <> 0).
      { destruct oc as [| |c]; [|apply Hz2; discriminate|apply Hz2; discriminate].
        specialize (Hz1 eq_refl). rewrite Hg in Hz1. simpl in Hz1. apply N.eqb_neq in Hz1. exact Hz1. }
      destruct Hsid as [?|[Hu Hrg]]; [contradiction|].
      apply id_used_false in Hu as [Hu1 Hu2].
      split; [exact Hu1|]. split; [exact Hrg|]. split; [lia|]. split; [|split; [reflexivity|]].
      * destruct (by_uidx s !! ctr s) as [y|] eqn:E; [|reflexivity]. destruct (inv_uidx _ HI _ _ E). lia.
      * intros y Hy. split; [apply Hu2; auto|]. destruct (inv_pend _ HI y Hy) as (_ & _ & F3 & _). lia.
Qed.

Lemma step_Inv v e s o s' r : reserving v -> Inv s -> step v e s o = Some (s', r) -> Inv s'.
Proof.
  intros Hv HI Hs. destruct o as [t|t p oc|t p oc|u|t sid|t sid|t sid a|sid|sid t a|sid t a|n|xx|xx]; simpl in Hs.
  - destruct (e_grp e t); inversion Hs; subst; exact HI.
  - destruct (padr_begin v e s t p oc) as [[s1 [x|]]|] eqn:Eb; inversion Hs; subst;
      destruct (padr_begin_Inv _ _ _ _ _ _ _ _ Hv HI Eb) as (HI1 & Hp & Hx); [|exact HI1].
    destruct Hx as (X1 & X2 & X3 & X4 & _ & X6). apply Inv_add; auto.
  - destruct (padr_begin v e s t p oc) as [[s1 [x|]]|] eqn:Eb; inversion Hs; subst;
      destruct (padr_begin_Inv _ _ _ _ _ _ _ _ Hv HI Eb) as (HI1 & Hp & Hx); [|exact HI1].
    destruct Hx as (X1 & X2 & X3 & X4 & _ & X6). destruct HI1 as [A B C D E F G H]. split; simpl; auto.
    + intros y Hy. apply in_app_or in Hy as [Hy|[<-|[]]]; auto.
    + rewrite map_app. simpl. apply NoDup_app. split; [exact G|]. split; [|repeat constructor; intros []%elem_of_nil].
      intros k Hk1 Hk2. apply elem_of_list_singleton in Hk2. subst k.
      apply elem_of_list_In, in_map_iff in Hk1 as (y & Hy1 & Hy2). destruct (X6 y Hy2). contradiction.
    + rewrite map_app. simpl. apply NoDup_app. split; [exact H|]. split; [|repeat constructor; intros []%elem_of_nil].
      intros k Hk1 Hk2. apply elem_of_list_singleton in Hk2. subst k.
      apply elem_of_list_In, in_map_iff in Hk1 as (y & Hy1 & Hy2). destruct (X6 y Hy2). contradiction.
  - destruct (take_pend u (pend s)) as [[x rest]|] eqn:Et; [|discriminate]. inversion Hs; subst.
    apply take_pend_perm in Et as [Hperm _].
    assert (Hin : forall y, In y rest -> In y (pend s)).
    { intros y Hy. apply elem_of_list_In. rewrite Hperm. right. apply elem_of_list_In. exact Hy. }
    assert (Hxin : In x (pend s)) by (apply elem_of_list_In; rewrite Hperm; left).
    pose proof (inv_pend_sid _ HI) as Gs. pose proof (inv_pend_uid _ HI) as Gu.
    rewrite Hperm in Gs, Gu. simpl in Gs, Gu. apply NoDup_cons in Gs as [Gs1 Gs2]. apply NoDup_cons in Gu as [Gu1 Gu2].
    destruct (inv_pend _ HI x Hxin) as (F1 & F2 & F3 & F4).
    apply Inv_add; simpl; auto.
    + destruct HI as [A B C D E F G H]. split; simpl; auto.
    + intros y Hy. split; intros He.
      * apply Gs1. rewrite <- He. apply elem_of_list_In, in_map. exact Hy.
      * apply Gu1. rewrite <- He. apply elem_of_list_In, in_map. exact Hy.
  - destruct (by_sid s !! sid) as [x|] eqn:El; [|inversion Hs; subst; exact HI].
    destruct (owner_ok v x t); inversion Hs; subst; [|exact HI]. apply Inv_mark_gone; eapply Inv_remove; eauto.
  - destruct (by_sid s !! sid) as [x|] eqn:El; [|inversion Hs; subst; exact HI].
    destruct (owner_ok v x t); inversion Hs; subst; exact HI.
  - destruct (by_sid s !! sid) as [x|] eqn:El; [|inversion Hs; subst; exact HI].
    destruct (owner_ok v x t); inversion Hs; subst; [|exact HI]. apply Inv_add_preq, Inv_set_attr_of; exact HI.
  - destruct (by_sid s !! sid) as [x|] eqn:El; inversion Hs; subst; [|exact HI]. apply Inv_mark_gone; eapply Inv_remove; eauto.
  - unfold sid_used in Hs. destruct (N.eqb_spec sid 0); simpl in Hs; [discriminate|].
    destruct (N.ltb_spec sid 65536); simpl in Hs; [|discriminate].
    destruct (by_sid s !! sid) eqn:El; [discriminate|]. simpl in Hs.
    destruct (pend_has (pend s) sid) eqn:Ep; [discriminate|]. inversion Hs; subst.
    apply Inv_set_next; [|destruct (N.leb (next s) sid); [apply u16_lt | apply HI]].
    assert (HI0 : Inv (set_attr_of s (ctr s) a)) by (apply Inv_set_attr_of; exact HI).
    assert (Hadd : Inv (add_indexes (get_attr (set_attr_of s (ctr s) a) (ctr s))
                          {| s_uid := ctr s; s_sid := sid; s_tup := t |} (bump_ctr (set_attr_of s (ctr s) a)))).
    { apply Inv_add; simpl; auto; try lia.
      - apply Inv_bump; exact HI0.
      - destruct (by_uidx s !! ctr s) as [y|] eqn:E; [|reflexivity]. destruct (inv_uidx _ HI _ _ E). lia.
      - intros y Hy. split; [eapply pend_has_false; eauto|]. destruct (inv_pend _ HI y Hy) as (_ & _ & F3 & _). lia. }
    destruct Hadd as [A B C D E0 F G0 H0]. split; simpl in *; auto.
  - destruct Hv as (_ & Hrv & Hh & _). rewrite Hh in Hs. cbn [andb] in Hs.
    destruct (N.ltb_spec sid 65536) as [Hlt|]; simpl in Hs; [|discriminate].
    destruct (N.eqb_spec sid 0) as [|Hnz]; simpl in Hs; [inversion Hs; subst; exact HI|].
    destruct (id_used v s sid) eqn:Eu; [inversion Hs; subst; exact HI|]. inversion Hs; subst.
    apply id_used_false in Eu as [El Ep].
    apply Inv_set_next; [|destruct (N.leb (next s) sid); [apply u16_lt | apply HI]].
    assert (HI0 : Inv (set_attr_of s (ctr s) a)) by (apply Inv_set_attr_of; exact HI).
    assert (Hadd : Inv (add_indexes (get_attr (set_attr_of s (ctr s) a) (ctr s))
                          {| s_uid := ctr s; s_sid := sid; s_tup := t |} (bump_ctr (set_attr_of s (ctr s) a)))).
    { apply Inv_add; simpl; auto; try lia.
      - apply Inv_bump; exact HI0.
      - destruct (by_uidx s !! ctr s) as [y|] eqn:E; [|reflexivity]. destruct (inv_uidx _ HI _ _ E). lia.
      - intros y Hy. split; [apply (Ep Hrv); exact Hy|]. destruct (inv_pend _ HI y Hy) as (_ & _ & F3 & _). lia. }
    destruct Hadd as [A B C D E0 F G0 H0]. split; simpl in *; auto.
  - destruct (N.ltb_spec n 65536); inversion Hs; subst. apply Inv_set_next; auto.
  - destruct (has_preq s (s_uid xx)); [|inversion Hs; subst; exact HI].
    destruct (by_tup s !! s_tup xx) as [y|]; [|inversion Hs; subst; exact HI].
    destruct (sess_eqb y xx); [|inversion Hs; subst; exact HI].
    destruct (by_sid s !! s_sid xx) as [z|] eqn:El; inversion Hs; subst; [|exact HI].
    apply Inv_mark_gone; eapply Inv_remove; eauto.
  - destruct (is_gone s (s_uid xx)); inversion Hs; subst; [exact HI|].
    apply Inv_mark_gone. apply Inv_remove_any; [apply Hv | exact HI].
Qed.

Lemma run_Inv v e : reserving v -> forall ops s s' outs, Inv s -> run v e s ops = Some (s', outs) -> Inv s'.
Proof.
  intros Hv. induction ops as [|o r IH]; simpl; intros s s' outs HI Hr.
  - inversion Hr; subst; exact HI.
  - destruct (step v e s o) as [[s1 x]|] eqn:Es; [|discriminate].
    destruct (run v e s1 r) as [[s2 xs]|] eqn:Er; [|discriminate].
    inversion Hr; subst. eapply IH; [|exact Er]. eapply step_Inv; eauto.
Qed.

Lemma live_in_sid s x : Inv s -> live s x -> by_sid s !! s_sid x = Some x.
Proof.
  intros HI [[k Hk]|[t Ht]].
  - destruct (inv_sid _ HI _ _ Hk) as [-> _]. exact Hk.
  - apply (inv_tup _ HI _ _ Ht).
Qed.

Lemma NoDup_map_inj {A B} (f : A -> B) (l : list A) x y :
  NoDup (map f l) -> In x l -> In y l -> f x = f y -> x = y.
Proof.
  induction l as [|z l IH]; simpl; intros Hnd Hx Hy He; [contradiction|].
  apply NoDup_cons in Hnd as [Hn1 Hn2].
  destruct Hx as [->|Hx], Hy as [->|Hy]; auto.
  - exfalso. apply Hn1. rewrite He. apply elem_of_list_In, in_map. exact Hy.
  - exfalso. apply Hn1. rewrite <- He. apply elem_of_list_In, in_map. exact Hx.
Qed.

(* indexed sessions and sessions whose PADR is still between allocation and indexing all have
   pairwise distinct ids in 1..65535 *)
Lemma sid_distinct_nonzero_inv s x y : Inv s -> alive s x -> alive s y ->
  0 < s_sid x < 65536 /\ (s_sid x = s_sid y -> x = y).
Proof.
  intros HI [Hx|Hx] [Hy|Hy].
  - apply live_in_sid in Hx; auto. apply live_in_sid in Hy; auto.
    split; [apply (inv_sid _ HI _ _ Hx)|]. intros He. rewrite He in Hx. congruence.
  - apply live_in_sid in Hx; auto. destruct (inv_pend _ HI y Hy) as (_ & F2 & _).
    split; [apply (inv_sid _ HI _ _ Hx)|]. intros He. rewrite He in Hx. congruence.
  - apply live_in_sid in Hy; auto. destruct (inv_pend _ HI x Hx) as (F1 & F2 & _).
    split; [exact F1|]. intros He. rewrite He in F2. congruence.
  - destruct (inv_pend _ HI x Hx) as (F1 & _). split; [exact F1|].
    intros He. eapply NoDup_map_inj; eauto. apply (inv_pend_sid _ HI).
Qed.

Lemma sid_distinct_nonzero v e ops s outs x y : reserving v ->
  run v e st0 ops = Some (s, outs) -> alive s x -> alive s y ->
  0 < s_sid x < 65536 /\ (s_sid x = s_sid y -> x = y).
Proof. intros Hv Hr. apply sid_distinct_nonzero_inv. eapply run_Inv; [exact Hv | apply Inv_st0 | exact Hr]. Qed.

(* ------------------------------------------------------------------ isolation *)
Definition sender (o : op) : option tuple :=
  match o with
  | PADI t | PADR t _ _ | PBEGIN t _ _ | PADT t _ | SESS t _ | SETATTR t _ _ => Some t
  | _ => None
  end.

Lemma owner_ok_true v x t : v_owner_check v = true -> owner_ok v x t = true -> s_tup x = t.
Proof. unfold owner_ok. intros ->. apply tuple_eqb_eq. Qed.

(* variants with the owner check, the id-0 guard and id reservation (guarded removal or not) *)
Definition owning (v : variant) : Prop := v_owner_check v = true /\ reserving v.

Lemma reach_none (r : out) : (forall u, r <> OTerm u /\ r <> OReach u) ->
  forall (P : N -> Prop) u, r = OTerm u \/ r = OReach u -> P u.
Proof. intros Hr P u [Hu|Hu]; destruct (Hr u); congruence. Qed.

(* the two primary indexes: a packet from tuple t leaves every session of another tuple where it is,
   creates sessions for t only, and what it terminates or reaches belongs to t *)
Lemma isolation_core v e s o s' r t : owning v -> Inv s -> sender o = Some t -> step v e s o = Some (s', r) ->
  (forall k x, by_sid s !! k = Some x -> s_tup x <> t -> by_sid s' !! k = Some x) /\
  (forall t', t' <> t -> by_tup s' !! t' = by_tup s !! t') /\
  (forall k x, by_sid s' !! k = Some x -> by_sid s !! k = Some x \/ s_tup x = t) /\
  (forall x, In x (pend s') -> In x (pend s) \/ s_tup x = t) /\
  (forall u, r = OTerm u \/ r = OReach u -> exists x, live s x /\ s_uid x = u /\ s_tup x = t).
Proof.
  intros [Ho Hv] HI Hsnd Hs.
  assert (Hsame : forall s1, by_sid s1 = by_sid s -> by_tup s1 = by_tup s -> pend s1 = pend s ->
     (forall u, r <> OTerm u /\ r <> OReach u) -> s' = s1 ->
     (forall k x, by_sid s !! k = Some x -> s_tup x <> t -> by_sid s' !! k = Some x) /\
     (forall t', t' <> t -> by_tup s' !! t' = by_tup s !! t') /\
     (forall k x, by_sid s' !! k = Some x -> by_sid s !! k = Some x \/ s_tup x = t) /\
     (forall x, In x (pend s') -> In x (pend s) \/ s_tup x = t) /\
     (forall u, r = OTerm u \/ r = OReach u -> exists x, live s x /\ s_uid x = u /\ s_tup x = t)).
  { intros s1 E1 E2 E3 Hr ->. rewrite E1, E2, E3. repeat split; auto.
    intros u Hu. exfalso. destruct Hu as [Hu|Hu]; destruct (Hr u); congruence. }
  destruct o as [t0|t0 p oc|t0 p oc|u|t0 sid|t0 sid|t0 sid a|sid|sid t0 a|sid t0 a|n|xx|xx]; simpl in Hsnd; inversion Hsnd; subst t0;
    simpl in Hs.
  - destruct (e_grp e t); inversion Hs; subst; eapply Hsame; eauto; intros u; split; discriminate.
  - destruct (padr_begin v e s t p oc) as [[s1 [x|]]|] eqn:Eb; inversion Hs; subst.
    + destruct (padr_begin_Inv _ _ _ _ _ _ _ _ Hv HI Eb) as (HI1 & Hp & X1 & X2 & X3 & X4 & X5 & X6).
      destruct (padr_begin_frame _ _ _ _ _ _ _ _ Eb) as (E1 & E2 & E3 & E4 & E5 & E6 & E7 & _).
      simpl. rewrite E1, E2, E6 in *. repeat split.
      * intros k y Hk _. rewrite lookup_insert_ne; [exact Hk|]. intros <-. congruence.
      * intros t' Hne'. rewrite lookup_insert_ne; congruence.
      * intros k y Hk. destruct (N.eq_dec (s_sid x) k) as [<-|Hnk].
        -- rewrite lookup_insert in Hk. inversion Hk; subst. right; exact E7.
        -- rewrite lookup_insert_ne in Hk by exact Hnk. left; exact Hk.
      * auto.
      * intros u [?|?]; discriminate.
    + destruct (padr_begin_frame _ _ _ _ _ _ _ _ Eb) as (E1 & E2 & E3 & E4 & E5 & E6 & _).
      apply (Hsame _ E1 E2 E6); [intros u; split; discriminate | reflexivity].
  - destruct (padr_begin v e s t p oc) as [[s1 [x|]]|] eqn:Eb; inversion Hs; subst.
    + destruct (padr_begin_frame _ _ _ _ _ _ _ _ Eb) as (E1 & E2 & E3 & E4 & E5 & E6 & E7 & _).
      simpl. rewrite E1, E2, E6. repeat split; auto.
      * intros y Hy. apply in_app_or in Hy as [Hy|[<-|[]]]; auto.
      * intros u [?|?]; discriminate.
    + destruct (padr_begin_frame _ _ _ _ _ _ _ _ Eb) as (E1 & E2 & E3 & E4 & E5 & E6 & _).
      apply (Hsame _ E1 E2 E6); [intros u; split; discriminate | reflexivity].
  - destruct (by_sid s !! sid) as [x|] eqn:El;
      [|inversion Hs; subst; eapply Hsame; eauto; intros u; split; discriminate].
    destruct (owner_ok v x t) eqn:Eo; inversion Hs; subst;
      [|eapply Hsame; eauto; intros u; split; discriminate].
    apply owner_ok_true in Eo; [|exact Ho]. destruct (inv_sid _ HI _ _ El) as [Hsx _]. simpl. repeat split.
    + intros k y Hk Hy. rewrite del_ifN_ne; [exact Hk|]. intros <-. rewrite Hsx, El in Hk. congruence.
    + intros t' Hne'. rewrite del_if_ne; congruence.
    + intros k y Hk. apply del_ifN_sub in Hk. left; exact Hk.
    + auto.
    + intros u [Hu|Hu]; inversion Hu; subst. exists x. split; [left; eauto | auto].
  - destruct (by_sid s !! sid) as [x|] eqn:El;
      [|inversion Hs; subst; eapply Hsame; eauto; intros u; split; discriminate].
    destruct (owner_ok v x t) eqn:Eo; inversion Hs; subst;
      [|eapply Hsame; eauto; intros u; split; discriminate].
    apply owner_ok_true in Eo; [|exact Ho]. repeat split; auto.
    intros u [Hu|Hu]; inversion Hu; subst. exists x. split; [left; eauto | auto].
  - destruct (by_sid s !! sid) as [x|] eqn:El;
      [|inversion Hs; subst; eapply Hsame; eauto; intros u; split; discriminate].
    destruct (owner_ok v x t) eqn:Eo; inversion Hs; subst;
      [|eapply Hsame; eauto; intros u; split; discriminate].
    apply owner_ok_true in Eo; [|exact Ho]. simpl. repeat split; auto.
    intros u [Hu|Hu]; inversion Hu; subst. exists x. split; [left; eauto | auto].
Qed.

(* the secondary indexes (sessionIDIndex/acctSessionIndex and usernameIndex/ipv4Index/ipv6Index): with
   guarded removal a packet from tuple t leaves every entry that points to a session of another tuple alone,
   even when the sender has given its own session the same Username *)
Lemma isolation_idx v e s o s' r t : owning v -> v_guard_remove v = true -> Inv s -> sender o = Some t ->
  step v e s o = Some (s', r) ->
  (forall k x, by_uidx s !! k = Some x -> s_tup x <> t -> by_uidx s' !! k = Some x) /\
  (forall a x, by_attr s !! a = Some x -> s_tup x <> t -> by_attr s' !! a = Some x) /\
  (attr_of s' = attr_of s \/
   exists sid x a, by_sid s !! sid = Some x /\ s_tup x = t /\ attr_of s' = <[ s_uid x := a ]> (attr_of s)).
Proof.
  intros [Ho Hv] Hg HI Hsnd Hs.
  assert (Hsame : forall s1, by_uidx s1 = by_uidx s -> by_attr s1 = by_attr s -> attr_of s1 = attr_of s -> s' = s1 ->
     (forall k x, by_uidx s !! k = Some x -> s_tup x <> t -> by_uidx s' !! k = Some x) /\
     (forall a x, by_attr s !! a = Some x -> s_tup x <> t -> by_attr s' !! a = Some x) /\
     (attr_of s' = attr_of s \/
      exists sid x a, by_sid s !! sid = Some x /\ s_tup x = t /\ attr_of s' = <[ s_uid x := a ]> (attr_of s))).
  { intros s1 E1 E2 E3 ->. rewrite E1, E2, E3. auto. }
  destruct o as [t0|t0 p oc|t0 p oc|u|t0 sid|t0 sid|t0 sid a|sid|sid t0 a|sid t0 a|n|xx|xx]; simpl in Hsnd; inversion Hsnd; subst t0;
    simpl in Hs.
  - destruct (e_grp e t); inversion Hs; subst; eapply Hsame; eauto.
  - destruct (padr_begin v e s t p oc) as [[s1 [x|]]|] eqn:Eb; inversion Hs; subst.
    + destruct (padr_begin_frame _ _ _ _ _ _ _ _ Eb) as (E1 & E2 & E3 & E4 & E5 & E6 & E7 & E8 & _).
      simpl. rewrite E3, E4, E5. repeat split; auto.
      intros k y Hk _. rewrite lookup_insert_ne; [exact Hk|]. intros <-. destruct (inv_uidx _ HI _ _ Hk). lia.
    + destruct (padr_begin_frame _ _ _ _ _ _ _ _ Eb) as (E1 & E2 & E3 & E4 & E5 & E6 & _).
      apply (Hsame _ E3 E4 E5). reflexivity.
  - destruct (padr_begin v e s t p oc) as [[s1 ox]|] eqn:Eb; [|discriminate].
    destruct (padr_begin_frame _ _ _ _ _ _ _ _ Eb) as (E1 & E2 & E3 & E4 & E5 & E6 & _).
    destruct ox; inversion Hs; subst; (eapply Hsame; [| | |reflexivity]; simpl; auto).
  - destruct (by_sid s !! sid) as [x|] eqn:El; [|inversion Hs; subst; eapply Hsame; eauto].
    destruct (owner_ok v x t) eqn:Eo; inversion Hs; subst; [|eapply Hsame; eauto].
    apply owner_ok_true in Eo; [|exact Ho]. simpl. rewrite Hg. repeat split; auto.
    + intros k y Hk Hy. apply del_ifN_keep; [exact Hk | congruence].
    + intros a y Hk Hy. destruct (get_attr s (s_uid x)); [|exact Hk]. apply del_if_keep; [exact Hk | congruence].
  - destruct (by_sid s !! sid) as [x|] eqn:El; [|inversion Hs; subst; eapply Hsame; eauto].
    destruct (owner_ok v x t) eqn:Eo; inversion Hs; subst; eapply Hsame; eauto.
  - destruct (by_sid s !! sid) as [x|] eqn:El; [|inversion Hs; subst; eapply Hsame; eauto].
    destruct (owner_ok v x t) eqn:Eo; inversion Hs; subst; [|eapply Hsame; eauto].
    apply owner_ok_true in Eo; [|exact Ho]. simpl. repeat split; auto. right. exists sid, x, a. auto.
Qed.

(* the second half of a PADR (addToIndexes) touches nothing but the new session's own, so far empty, slots *)
Lemma commit_isolation v e s u s' r : Inv s -> step v e s (PCOMMIT u) = Some (s', r) ->
  exists x, In x (pend s) /\ s_uid x = u /\ r = OPads (s_sid x) u /\
    by_sid s !! s_sid x = None /\ by_uidx s !! u = None /\
    (forall k, k <> s_sid x -> by_sid s' !! k = by_sid s !! k) /\
    (forall t, t <> s_tup x -> by_tup s' !! t = by_tup s !! t) /\
    (forall k, k <> u -> by_uidx s' !! k = by_uidx s !! k) /\
    by_attr s' = by_attr s /\ attr_of s' = attr_of s /\
    (forall y, In y (pend s') -> In y (pend s)).
Proof.
  intros HI Hs. simpl in Hs. destruct (take_pend u (pend s)) as [[x rest]|] eqn:Et; [|discriminate].
  inversion Hs; subst. apply take_pend_perm in Et as [Hperm Hu].
  assert (Hxin : In x (pend s)) by (apply elem_of_list_In; rewrite Hperm; left).
  destruct (inv_pend _ HI x Hxin) as (F1 & F2 & F3 & F4).
  exists x. simpl. rewrite Hu in *. repeat split; auto.
  - intros k Hk. apply lookup_insert_ne. congruence.
  - intros t Ht. apply lookup_insert_ne. congruence.
  - intros k Hk. apply lookup_insert_ne. congruence.
  - intros y Hy. apply elem_of_list_In. rewrite Hperm. right. apply elem_of_list_In. exact Hy.
Qed.

(* over histories: while only other hosts send packets (and their half-done PADRs complete), a session
   stays exactly where it is in every index *)
Definition foreign (t0 : tuple) (o : op) : Prop :=
  (exists t, sender o = Some t /\ t <> t0) \/ (exists u, o = PCOMMIT u).

Lemma isolation_run v e t0 : owning v -> v_guard_remove v = true -> forall ops s s' outs k x,
  Inv s -> by_sid s !! k = Some x -> s_tup x = t0 -> (forall y, In y (pend s) -> s_tup y <> t0) ->
  Forall (foreign t0) ops ->
  run v e s ops = Some (s', outs) ->
  by_sid s' !! k = Some x /\ by_tup s' !! t0 = by_tup s !! t0 /\
  (by_uidx s !! s_uid x = Some x -> by_uidx s' !! s_uid x = Some x) /\
  (forall a, by_attr s !! a = Some x -> by_attr s' !! a = Some x).
Proof.
  intros Hv Hg. induction ops as [|o r IH]; simpl; intros s s' outs k x HI Hk Ht Hpe Hall Hr.
  - inversion Hr; subst. auto.
  - destruct (step v e s o) as [[s1 y]|] eqn:Es; [|discriminate].
    destruct (run v e s1 r) as [[s2 ys]|] eqn:Er; [|discriminate]. inversion Hr; subst s2 outs.
    apply Forall_cons in Hall as [Hf Hall'].
    assert (HI1 : Inv s1) by (eapply step_Inv; [apply Hv | exact HI | exact Es]).
    assert (Hstep : by_sid s1 !! k = Some x /\ by_tup s1 !! t0 = by_tup s !! t0 /\
              (by_uidx s !! s_uid x = Some x -> by_uidx s1 !! s_uid x = Some x) /\
              (forall a, by_attr s !! a = Some x -> by_attr s1 !! a = Some x) /\
              (forall z, In z (pend s1) -> s_tup z <> t0)).
    { destruct Hf as [(t & Hsnd & Hne)|(u & ->)].
      - destruct (isolation_core _ _ _ _ _ _ _ Hv HI Hsnd Es) as (I1 & I2 & _ & I4 & _).
        destruct (isolation_idx _ _ _ _ _ _ _ Hv Hg HI Hsnd Es) as (J1 & J2 & _).
        split; [apply I1; [exact Hk | congruence]|]. split; [apply I2; congruence|].
        split; [intros Hu; apply J1; [exact Hu | congruence]|].
        split; [intros a Ha; apply J2; [exact Ha | congruence]|].
        intros z Hz. destruct (I4 z Hz) as [Hz'|Hz']; [auto | congruence].
      - destruct (commit_isolation _ _ _ _ _ _ HI Es) as (z & Hz & Hzu & _ & C1 & C2 & C3 & C4 & C5 & C6 & _ & C8).
        split; [rewrite C3; [exact Hk | intros ->; congruence]|].
        split; [apply C4; intros He; apply (Hpe z Hz); congruence|].
        split; [intros Hu; rewrite C5; [exact Hu | intros He; rewrite <- He in C2; congruence]|].
        split; [intros a Ha; rewrite C6; exact Ha|]. intros w Hw. apply Hpe, C8, Hw. }
    destruct Hstep as (S1 & S2 & S3 & S4 & S5).
    destruct (IH s1 s' ys k x HI1 S1 Ht S5 Hall' Er) as (R1 & R2 & R3 & R4).
    split; [exact R1|]. split; [congruence|]. split; [auto|]. auto.
Qed.

(* ------------------------------------------------------------------ admission *)
Lemma padr_needs_cookie v e s t p oc s' sid uid : step v e s (PADR t p oc) = Some (s', OPads sid uid) ->
  exists tg, parse_tags p = Ok tg /\
    e_val e (t_cookie tg) t = true /\ e_grp e t = true.
Proof.
  simpl. destruct (padr_begin v e s t p oc) as [[s1 [x|]]|] eqn:Eb; try discriminate. intros _.
  apply padr_begin_cases in Eb as [Hx|(tg & sid' & n' & Hp & Hv & Hg & _)]; [inversion Hx|]. eauto.
Qed.

(* the same for the first half of an interleaved PADR *)
Lemma pbegin_needs_cookie v e s t p oc s' sid uid : step v e s (PBEGIN t p oc) = Some (s', OPend sid uid) ->
  exists tg, parse_tags p = Ok tg /\
    e_val e (t_cookie tg) t = true /\ e_grp e t = true.
Proof.
  simpl. destruct (padr_begin v e s t p oc) as [[s1 [x|]]|] eqn:Eb; try discriminate. intros _.
  apply padr_begin_cases in Eb as [Hx|(tg & sid' & n' & Hp & Hv & Hg & _)]; [inversion Hx|]. eauto.
Qed.

Lemma padr_rejected_no_state v e s t p oc s' r : step v e s (PADR t p oc) = Some (s', r) ->
  (forall tg, parse_tags p = Ok tg -> e_val e (t_cookie tg) t = false) ->
  s' = s /\ r = ONone.
Proof.
  simpl. destruct (padr_begin v e s t p oc) as [[s1 ox]|] eqn:Eb; [|discriminate]. intros Hs Hv.
  pose proof (padr_begin_novalid _ _ _ _ _ _ _ Eb Hv) as Hx. inversion Hx; subst. inversion Hs; auto.
Qed.

Lemma pbegin_rejected_no_state v e s t p oc s' r : step v e s (PBEGIN t p oc) = Some (s', r) ->
  (forall tg, parse_tags p = Ok tg -> e_val e (t_cookie tg) t = false) ->
  s' = s /\ r = ONone.
Proof.
  simpl. destruct (padr_begin v e s t p oc) as [[s1 ox]|] eqn:Eb; [|discriminate]. intros Hs Hv.
  pose proof (padr_begin_novalid _ _ _ _ _ _ _ Eb Hv) as Hx. inversion Hx; subst. inversion Hs; auto.
Qed.

(* every session object that becomes alive (indexed, or built and waiting to be indexed) was created by a PADR
   whose cookie validated (PADR / PBEGIN), or restored *)
Lemma step_new_alive v e s o s' r x : step v e s o = Some (s', r) -> alive s' x ->
  alive s x \/ (exists p oc, (o = PADR (s_tup x) p oc /\ r = OPads (s_sid x) (s_uid x)) \/
                             (o = PBEGIN (s_tup x) p oc /\ r = OPend (s_sid x) (s_uid x))) \/
  (exists a, o = RESTORE (s_sid x) (s_tup x) a \/ o = HASYNC (s_sid x) (s_tup x) a).
Proof.
  assert (Hadd : forall a y s0, live (add_indexes a y s0) x -> live s0 x \/ x = y).
  { intros a y s0 [[k Hk]|[t Ht]]; simpl in *.
    - destruct (N.eq_dec (s_sid y) k) as [<-|Hne].
      + rewrite lookup_insert in Hk. inversion Hk; auto.
      + rewrite lookup_insert_ne in Hk by exact Hne. left; left; eauto.
    - destruct (decide (s_tup y = t)) as [<-|Hne].
      + rewrite lookup_insert in Ht. inversion Ht; auto.
      + rewrite lookup_insert_ne in Ht by exact Hne. left; right; eauto. }
  assert (Hrem : forall u y s0, live (mark_gone u (remove_indexes v y s0)) x -> live s0 x).
  { intros u y s0 [[k Hk]|[t Ht]]; simpl in *.
    - apply del_ifN_sub in Hk. left; eauto.
    - apply del_if_sub in Ht. right; eauto. }
  intros Hs Hl. destruct o as [t|t p oc|t p oc|u|t sid|t sid|t sid a|sid|sid t a|sid t a|n|xx|xx]; simpl in Hs.
  - destruct (e_grp e t); inversion Hs; subst; auto.
  - destruct (padr_begin v e s t p oc) as [[s1 ox]|] eqn:Eb; [|discriminate].
    destruct (padr_begin_frame _ _ _ _ _ _ _ _ Eb) as (E1 & E2 & E3 & E4 & E5 & E6 & E7).
    assert (Hl1 : forall z, live s1 z -> live s z) by (intros z; unfold live; rewrite E1, E2; auto).
    destruct ox as [y|]; inversion Hs; subst.
    + destruct Hl as [Hl|Hl].
      * apply Hadd in Hl as [Hl| ->]; [left; left; auto|]. destruct E7 as (<- & _). right; left. exists p, oc. auto.
      * simpl in Hl. rewrite E6 in Hl. left; right; exact Hl.
    + destruct Hl as [Hl|Hl]; [left; left; auto | rewrite E6 in Hl; left; right; exact Hl].
  - destruct (padr_begin v e s t p oc) as [[s1 ox]|] eqn:Eb; [|discriminate].
    destruct (padr_begin_frame _ _ _ _ _ _ _ _ Eb) as (E1 & E2 & E3 & E4 & E5 & E6 & E7).
    assert (Hl1 : forall z, live s1 z -> live s z) by (intros z; unfold live; rewrite E1, E2; auto).
    destruct ox as [y|]; inversion Hs; subst.
    + destruct Hl as [Hl|Hl].
      * left; left. apply Hl1. exact Hl.
      * simpl in Hl. rewrite E6 in Hl. apply in_app_or in Hl as [Hl|[<-|[]]]; [left; right; exact Hl|].
        destruct E7 as (<- & _). right; left. exists p, oc. auto.
    + destruct Hl as [Hl|Hl]; [left; left; auto | rewrite E6 in Hl; left; right; exact Hl].
  - destruct (take_pend u (pend s)) as [[y rest]|] eqn:Et; [|discriminate]. inversion Hs; subst.
    apply take_pend_perm in Et as [Hperm _]. left. destruct Hl as [Hl|Hl].
    + apply Hadd in Hl as [Hl| ->]; [left; exact Hl|]. right. apply elem_of_list_In. rewrite Hperm. left.
    + simpl in Hl. right. apply elem_of_list_In. rewrite Hperm. right. apply elem_of_list_In. exact Hl.
  - destruct (by_sid s !! sid) as [y|]; [|inversion Hs; subst; auto].
    destruct (owner_ok v y t); inversion Hs; subst; auto. left.
    destruct Hl as [Hl|Hl]; [left; eapply Hrem; eauto | right; exact Hl].
  - destruct (by_sid s !! sid) as [y|]; [|inversion Hs; subst; auto].
    destruct (owner_ok v y t); inversion Hs; subst; auto.
  - destruct (by_sid s !! sid) as [y|]; [|inversion Hs; subst; auto].
    destruct (owner_ok v y t); inversion Hs; subst; auto.
  - destruct (by_sid s !! sid) as [y|]; inversion Hs; subst; auto. left.
    destruct Hl as [Hl|Hl]; [left; eapply Hrem; eauto | right; exact Hl].
  - destruct (_ || _); [discriminate|]. inversion Hs; subst.
    destruct Hl as [Hl|Hl]; [|left; right; exact Hl].
    assert (Hl' : live (add_indexes (get_attr (set_attr_of s (ctr s) a) (ctr s))
                    {| s_uid := ctr s; s_sid := sid; s_tup := t |} (set_attr_of s (ctr s) a)) x)
      by (destruct Hl as [[k Hk]|[t' Ht]]; [left | right]; eauto).
    apply Hadd in Hl' as [Hl'| ->]; [left; left; exact Hl' | right; right; eauto].
  - destruct (negb (N.ltb sid 65536)); [discriminate|].
    destruct (v_ha_check v && _); [inversion Hs; subst; left; exact Hl|]. inversion Hs; subst.
    destruct Hl as [Hl|Hl]; [|left; right; exact Hl].
    assert (Hl' : live (add_indexes (get_attr (set_attr_of s (ctr s) a) (ctr s))
                    {| s_uid := ctr s; s_sid := sid; s_tup := t |} (set_attr_of s (ctr s) a)) x)
      by (destruct Hl as [[k Hk]|[t' Ht]]; [left | right]; eauto).
    apply Hadd in Hl' as [Hl'| ->]; [left; left; exact Hl' | right; right; eauto].
  - destruct (N.ltb n 65536); inversion Hs; subst. left. exact Hl.
  - destruct (has_preq s (s_uid xx)); [|inversion Hs; subst; auto].
    destruct (by_tup s !! s_tup xx) as [y|]; [|inversion Hs; subst; auto].
    destruct (sess_eqb y xx); [|inversion Hs; subst; auto].
    destruct (by_sid s !! s_sid xx) as [z|]; inversion Hs; subst; auto. left.
    destruct Hl as [Hl|Hl]; [left; eapply Hrem; eauto | right; exact Hl].
  - destruct (is_gone s (s_uid xx)); inversion Hs; subst; auto. left.
    destruct Hl as [Hl|Hl]; [left; eapply Hrem; eauto | right; exact Hl].
Qed.

(* ------------------------------------------------------------------ allocation inside PADR *)
Lemma padr_creates_when_room v e s t p tg : reserving v -> Inv s -> parse_tags p = Ok tg ->
  e_val e (t_cookie tg) t = true -> e_grp e t = true ->
  (exists j, 0 < j < 65536 /\ id_used v s j = false) ->
  exists s' sid, step v e s (PADR t p Policy) = Some (s', OPads sid (ctr s)) /\ 0 < sid < 65536 /\
    id_used v s sid = false /\ by_sid s' !! sid = Some {| s_uid := ctr s; s_sid := sid; s_tup := t |}.
Proof.
  intros (Hg & Hr & _ & _) HI Hp Hv Hgr (j & Hj & Hfree). simpl. unfold padr_begin. rewrite Hp, Hv, Hgr. simpl.
  destruct (allocate_complete v s) as (sid & n' & Ha & Hc); [apply norm_next_range; [exact Hg | apply HI]|].
  rewrite Ha. pose proof Ha as Hsound. apply allocate_sound in Hsound; [|apply norm_next_range; [exact Hg | apply HI]].
  destruct Hc as [[Hne Hf]|[-> Hall]]; [|rewrite (Hall j Hj) in Hfree; discriminate].
  rewrite Hg. simpl. destruct (N.eqb_spec sid 0); [contradiction|].
  destruct Hsound as [_ [?|[_ Hrg]]]; [contradiction|].
  eexists _, sid. split; [reflexivity|]. split; [exact Hrg|]. split; [exact Hf|]. simpl. apply lookup_insert.
Qed.

Lemma padr_full_repaired v e s t p oc s' r : reserving v -> Inv s -> (forall j, 0 < j < 65536 -> id_used v s j = true) ->
  step v e s (PADR t p oc) = Some (s', r) ->
  r = ONone /\ by_sid s' = by_sid s /\ by_tup s' = by_tup s /\ pend s' = pend s.
Proof.
  intros (Hg & Hr & _ & _) HI Hall. simpl. destruct (padr_begin v e s t p oc) as [[s1 ox]|] eqn:Eb; [|discriminate].
  destruct (padr_begin_frame _ _ _ _ _ _ _ _ Eb) as (E1 & E2 & _ & _ & _ & E6 & _).
  apply padr_begin_cases in Eb as [Hx|(tg & sid & n' & _ & _ & _ & Ha & Hc)].
  - inversion Hx; subst. intros Hs; inversion Hs; auto.
  - apply alloc_choice_sound in Ha; [|apply norm_next_range; [exact Hg | apply HI] | apply HI].
    destruct Ha as [_ [->|[Hf Hrg]]].
    + destruct Hc as [[_ Hx]|(Hz1 & Hz2 & _)].
      * inversion Hx; subst. intros Hs; inversion Hs; auto.
      * exfalso. destruct oc as [| |c]; [|apply Hz2; [discriminate | reflexivity]|apply Hz2; [discriminate | reflexivity]].
        specialize (Hz1 eq_refl). rewrite Hg in Hz1. discriminate.
    + rewrite (Hall sid Hrg) in Hf. discriminate.
Qed.

(* every admissible observed choice is installed ... *)
Lemma padr_chosen v e s t p tg c : parse_tags p = Ok tg ->
  e_val e (t_cookie tg) t = true -> e_grp e t = true ->
  0 < c < 65536 -> id_used v s c = false ->
  exists s', step v e s (PADR t p (Chose c)) = Some (s', OPads c (ctr s)) /\
    by_sid s' !! c = Some {| s_uid := ctr s; s_sid := c; s_tup := t |}.
Proof.
  intros Hp Hv Hgr Hc Hu. cbn [step]. unfold padr_begin. rewrite Hp, Hv, Hgr. cbn [negb alloc_choice].
  destruct (N.ltb_spec 0 c); [|lia]. destruct (N.ltb_spec c 65536); [|lia]. rewrite Hu. cbn [andb negb].
  destruct (N.eqb_spec c 0); [lia|]. rewrite andb_false_r.
  eexists. split; [reflexivity|]. simpl. apply lookup_insert.
Qed.

(* ... an inadmissible one (0, out of range, indexed or reserved id) is not a step of the model at all, and a
   refusal is one only when no id is free *)
Lemma padr_choice_inadmissible v e s t p tg c : parse_tags p = Ok tg ->
  e_val e (t_cookie tg) t = true -> e_grp e t = true ->
  c = 0 \/ 65536 <= c \/ id_used v s c = true -> step v e s (PADR t p (Chose c)) = None.
Proof.
  intros Hp Hv Hgr Hc. cbn [step]. unfold padr_begin. rewrite Hp, Hv, Hgr. cbn [negb alloc_choice].
  destruct Hc as [->|[Hc|Hc]].
  - reflexivity.
  - destruct (N.ltb_spec c 65536); [lia|]. rewrite andb_false_r. reflexivity.
  - rewrite Hc. rewrite andb_false_r. reflexivity.
Qed.

Lemma padr_refusal_inadmissible v e s t p tg j : parse_tags p = Ok tg ->
  e_val e (t_cookie tg) t = true -> e_grp e t = true ->
  0 < j < 65536 -> id_used v s j = false -> step v e s (PADR t p Refused) = None.
Proof.
  intros Hp Hv Hgr Hj Hu. cbn [step]. unfold padr_begin. rewrite Hp, Hv, Hgr. cbn [negb alloc_choice].
  rewrite (some_id_free_true _ _ _ Hj Hu). reflexivity.
Qed.

(* the code as first found (no id-0 guard): with all 65535 ids in use a valid PADR is answered with session-id 0 *)
Lemma padr_full_defective v e s t p tg : v_sid_guard v = false -> 0 < next s < 65536 ->
  (forall j, 0 < j < 65536 -> id_used v s j = true) ->
  parse_tags p = Ok tg -> e_val e (t_cookie tg) t = true -> e_grp e t = true ->
  exists s', step v e s (PADR t p Policy) = Some (s', OPads 0 (ctr s)) /\
    by_sid s' !! 0 = Some {| s_uid := ctr s; s_sid := 0; s_tup := t |}.
Proof.
  intros Hg Hn Hall Hp Hv Hgr. simpl. unfold padr_begin. rewrite Hp, Hv, Hgr. simpl.
  assert (Hnn : 0 < norm_next v (next s) < 65536) by (unfold norm_next; rewrite Hg; exact Hn).
  destruct (allocate_complete v s Hnn) as (sid & n' & Ha & Hc).
  rewrite Ha, Hg. simpl. destruct Hc as [[Hne Hf]|[-> _]].
  - apply allocate_sound in Ha; [|exact Hnn]. destruct Ha as [_ [?|[_ Hrg]]]; [contradiction|].
    rewrite (Hall sid Hrg) in Hf. discriminate.
  - eexists. split; [reflexivity|]. simpl. apply lookup_insert.
Qed.

(* ------------------------------------------------------------------ the last-free-id race *)
(* without reservation (before 46cb3dc): when exactly one id k is free, two PADRs that both pass allocateSessionID
   before either reaches addToIndexes are both given k; after both have indexed, two sessions alive in the
   table carry the same PPPoE session-id *)
Lemma race_last_free_id v e s tA tB pA pB tgA tgB k :
  v_reserve v = false -> 0 < norm_next v (next s) < 65536 -> 0 < k < 65536 -> pend s = [] ->
  by_sid s !! k = None -> (forall j, 0 < j < 65536 -> j <> k -> by_sid s !! j <> None) ->
  parse_tags pA = Ok tgA -> e_val e (t_cookie tgA) tA = true -> e_grp e tA = true ->
  parse_tags pB = Ok tgB -> e_val e (t_cookie tgB) tB = true -> e_grp e tB = true ->
  tA <> tB ->
  exists s4 x y,
    run v e s [PBEGIN tA pA Policy; PBEGIN tB pB Policy; PCOMMIT (ctr s); PCOMMIT (N.succ (ctr s))] =
      Some (s4, [OPend k (ctr s); OPend k (N.succ (ctr s)); OPads k (ctr s); OPads k (N.succ (ctr s))]) /\
    by_tup s4 !! tA = Some x /\ by_tup s4 !! tB = Some y /\ x <> y /\ s_sid x = k /\ s_sid y = k.
Proof.
  intros Hr Hn Hk Hpe Hfree Hall HpA HvA HgA HpB HvB HgB Hne.
  assert (Halloc : forall s0, by_sid s0 = by_sid s -> 0 < norm_next v (next s0) < 65536 ->
            exists n', allocate v s0 = Ok (k, n') /\ 0 < n' < 65536).
  { intros s0 E Hn0. destruct (allocate_complete v s0 Hn0) as (sid & n' & Ha & Hc).
    pose proof (allocate_sound _ _ _ _ Hn0 Ha) as [Hn' Hsid].
    assert (Hu : forall j, id_used v s0 j = sid_used (by_sid s) j)
      by (intros j; unfold id_used; rewrite E, Hr; simpl; apply orb_false_r).
    destruct Hc as [[Hnz Hf]|[-> Hf]].
    - destruct Hsid as [?|[_ Hrg]]; [contradiction|]. rewrite Hu in Hf. unfold sid_used in Hf.
      destruct (N.eq_dec sid k) as [->|Hnk]; [eauto|]. exfalso. apply (Hall sid Hrg Hnk).
      destruct (by_sid s !! sid); [discriminate | reflexivity].
    - specialize (Hf k Hk). rewrite Hu in Hf. unfold sid_used in Hf. rewrite Hfree in Hf. discriminate. }
  destruct (Halloc s eq_refl Hn) as (n1 & Ha1 & Hn1).
  assert (Hkz : v_sid_guard v && N.eqb k 0 = false)
    by (destruct (N.eqb_spec k 0); [lia | apply andb_false_r]).
  assert (Hnn1 : 0 < norm_next v n1 < 65536) by (unfold norm_next; destruct (v_sid_guard v); [destruct (N.eqb_spec n1 0)|]; lia).
  set (x := {| s_uid := ctr s; s_sid := k; s_tup := tA |}).
  set (s1 := set_pend (bump_ctr (set_next s n1)) [x]).
  destruct (Halloc s1 eq_refl Hnn1) as (n2 & Ha2 & Hn2).
  set (y := {| s_uid := N.succ (ctr s); s_sid := k; s_tup := tB |}).
  set (s2 := set_pend (bump_ctr (set_next s1 n2)) [x; y]).
  set (s3 := add_indexes None x (set_pend s2 [y])).
  set (s4 := add_indexes None y (set_pend s3 [])).
  assert (H1 : step v e s (PBEGIN tA pA Policy) = Some (s1, OPend k (ctr s))).
  { cbn [step]. unfold padr_begin. rewrite HpA, HvA, HgA. cbn [negb alloc_choice orb]. rewrite Ha1, orb_false_r, Hkz.
    cbn [pend bump_ctr set_next]. rewrite Hpe. reflexivity. }
  assert (H2 : step v e s1 (PBEGIN tB pB Policy) = Some (s2, OPend k (N.succ (ctr s)))).
  { cbn [step]. unfold padr_begin. rewrite HpB, HvB, HgB. cbn [negb alloc_choice orb]. rewrite Ha2, orb_false_r, Hkz. reflexivity. }
  assert (H3 : step v e s2 (PCOMMIT (ctr s)) = Some (s3, OPads k (ctr s))).
  { cbn [step pend s2 set_pend take_pend]. cbn [s_uid x]. rewrite N.eqb_refl. reflexivity. }
  assert (H4 : step v e s3 (PCOMMIT (N.succ (ctr s))) = Some (s4, OPads k (N.succ (ctr s)))).
  { cbn [step pend s3 add_indexes set_pend take_pend]. cbn [s_uid y]. rewrite N.eqb_refl. reflexivity. }
  exists s4, x, y. split.
  - cbn [run]. rewrite H1. cbn [run]. rewrite H2. cbn [run]. rewrite H3. cbn [run]. rewrite H4. reflexivity.
  - cbn [by_tup s4 s3 add_indexes set_pend s_tup x y].
    split; [rewrite lookup_insert_ne by (intros Hx; apply Hne; symmetry; exact Hx); apply lookup_insert|].
    split; [apply lookup_insert|]. split; [intros Hx; inversion Hx; lia | auto].
Qed.

Lemma reserving_Repaired : reserving Repaired. Proof. repeat split; reflexivity. Qed.
Lemma owning_Repaired : owning Repaired. Proof. split; [reflexivity | apply reserving_Repaired]. Qed.

(* ------------------------------------------------------------------ tags *)
Lemma parse_tags_loop_fuel : forall fuel p acc, (length p < fuel)%nat -> parse_tags_loop fuel p acc <> OutOfFuel.
Proof.
  induction fuel as [|f IH]; intros p acc Hl; [lia|].
  destruct p as [|a [|b [|c [|d rest]]]]; try discriminate.
  cbn [parse_tags_loop]. destruct (N.eqb _ 0); [discriminate|].
  destruct (_ <? _)%nat; [discriminate|]. destruct (tag_update _ _ _); [|discriminate].
  apply IH. rewrite skipn_length. simpl in Hl. lia.
Qed.

Lemma parse_tags_terminates p : parse_tags p <> OutOfFuel /\ parse_tags p <> Base.Panic.
Proof.
  split; [apply parse_tags_loop_fuel; lia|]. unfold parse_tags. generalize (S (length p)) tags0.
  intros fuel; revert p. induction fuel as [|f IH]; intros p acc; [discriminate|].
  destruct p as [|a [|b [|c [|d rest]]]]; try discriminate.
  cbn [parse_tags_loop]. destruct (N.eqb _ 0); [discriminate|].
  destruct (_ <? _)%nat; [discriminate|]. destruct (tag_update _ _ _); [|discriminate]. apply IH.
Qed.

Lemma be16_hi_lo n : n < 65536 -> be16 (hi8 n) (lo8 n) = n.
Proof. unfold Base.be16, hi8, lo8, Base.byte_of. lia. Qed.

Lemma parse_cookie_tag c : (N.of_nat (length c) < 65536) ->
  parse_tags (add_tag TagACCookie c) =
  Ok {| t_cookie := c; t_hostuniq := []; t_maxpayload := 0; t_nraw := 1 |}.
Proof.
  intros Hl. unfold parse_tags, add_tag.
  change ([hi8 TagACCookie; lo8 TagACCookie] ++ [hi8 (N.of_nat (length c)); lo8 (N.of_nat (length c))] ++ c)
    with (hi8 TagACCookie :: lo8 TagACCookie :: hi8 (N.of_nat (length c)) :: lo8 (N.of_nat (length c)) :: c).
  cbn [length parse_tags_loop]. rewrite (be16_hi_lo _ Hl), Nat2N.id.
  change (be16 (hi8 TagACCookie) (lo8 TagACCookie)) with 260.
  change (N.eqb 260 0) with false. cbv iota.
  rewrite Nat.ltb_irrefl, firstn_all, skipn_all.
  change (tag_update tags0 260 c) with (Some {| t_cookie := c; t_hostuniq := []; t_maxpayload := 0; t_nraw := 1 |}).
  reflexivity.
Qed.

Lemma generate_length H now t : (forall d, length (H d) = 32%nat) -> length (generate H now t) = 36%nat.
Proof.
  intros Hlen. pose proof (generate_shape H now t Hlen) as Hg. destruct t as [[mac sv] cv].
  rewrite Hg, app_length, Hlen. reflexivity.
Qed.

(* the cookie of a PADO, echoed in a PADR by the same tuple within the lifetime, is admitted — for every lawful
   cookie scheme (the cookie is opaque: any layout that packs into fewer than 65536 bytes) *)
Lemma padi_padr_roundtrip v L H ttl now_s now_ns grp s t s' c : lawful L -> (forall d, length (H d) = 32%nat) ->
  step v (mk_env L H ttl now_s now_ns grp) s (PADI t) = Some (s', OPado c) ->
  N.of_nat (length c) < 65536 ->
  (now_ns - Z.of_N (now_s mod two32) * ns_per_s <= ttl)%Z ->
  exists tg, parse_tags (add_tag TagACCookie c) = Ok tg /\
    e_val (mk_env L H ttl now_s now_ns grp) (t_cookie tg) t = true.
Proof.
  intros HL Hlen Hs Hlc Hfresh. simpl in Hs. destruct (grp t); inversion Hs; subst.
  eexists. split.
  - apply parse_cookie_tag. exact Hlc.
  - simpl. apply scheme_roundtrip; assumption.
Qed.

(* ------------------------------------------------------------------ witnesses against the code as found *)
Definition toyH (d : bytes) : bytes := firstn 32 (d ++ repeat 0 32).
Definition env0 : env := mk_env head_scheme toyH 60000000000 1000 1000500000000 (fun _ => true).
Definition tA : tuple := ([2; 0; 0; 170; 0; 1], 100, 10).
Definition tB : tuple := ([2; 0; 0; 187; 0; 2], 100, 10).
Definition padr_of (t : tuple) : op := PADR t (add_tag TagACCookie (generate toyH 1000 t)) Policy.

Lemma tA_ne_tB : tA <> tB.
Proof. discriminate. Qed.

Lemma isolation_padt_refuted : exists e ops s outs x s' r,
  run Repaired e st0 ops = Some (s, outs) /\ by_sid s !! 1 = Some x /\ s_tup x = tA /\ tA <> tB /\
  step Defective e s (PADT tB 1) = Some (s', r) /\ r = OTerm (s_uid x) /\ by_sid s' !! 1 = None.
Proof.
  exists env0, [padr_of tA]. do 5 eexists.
  split; [vm_compute; reflexivity|]. split; [vm_compute; reflexivity|]. split; [reflexivity|].
  split; [exact tA_ne_tB|]. split; [vm_compute; reflexivity|]. split; vm_compute; reflexivity.
Qed.

Lemma isolation_sess_refuted : exists e ops s outs x s' r,
  run Repaired e st0 ops = Some (s, outs) /\ by_sid s !! 1 = Some x /\ s_tup x = tA /\ tA <> tB /\
  step Defective e s (SESS tB 1) = Some (s', r) /\ r = OReach (s_uid x).
Proof.
  exists env0, [padr_of tA]. do 5 eexists.
  split; [vm_compute; reflexivity|]. split; [vm_compute; reflexivity|]. split; [reflexivity|].
  split; [exact tA_ne_tB|]. split; vm_compute; reflexivity.
Qed.

(* restoring id 0xFFFF overflows the counter to 0; the next PADR gets session-id 0 *)
Lemma sid_nonzero_refuted : exists e ops s outs x,
  run Defective e st0 ops = Some (s, outs) /\ live s x /\ s_sid x = 0 /\
  outs = [ORestored 0; OPads 0 1].
Proof.
  exists env0, [RESTORE 65535 tA []; padr_of tB]. do 3 eexists.
  split; [vm_compute; reflexivity|]. split; [left; exists 0; vm_compute; reflexivity|].
  split; reflexivity.
Qed.

(* the same history under the repaired behaviour: id 1 *)
Example sid_after_restore_repaired :
  match run Repaired env0 st0 [RESTORE 65535 tA []; padr_of tB] with
  | Some (_, outs) => outs = [ORestored 0; OPads 1 1] | None => False end.
Proof. vm_compute. reflexivity. Qed.

(* ------------------------------------------------------------------ composites *)
(* a PADS is sent / a session created only for a cookie this BNG issued for the same tuple
   within its lifetime (under the unforgeability premise on the HMAC) *)
Lemma admission v e s t p oc s' sid uid L H ttl now issued : lawful L ->
  (* the component's validator accepts no more than the scheme's Validate at this moment *)
  (forall c t', e_val e c t' = true -> svalidate L H ttl now c t' = true) ->
  (* H_mac_unforgeable for the one (message, tag) pair this PADR presents *)
  (forall tg tag tsb, parse_tags p = Ok tg -> sc_unpack L (t_cookie tg) = Some (tag, tsb) ->
                      tag = H (sc_msg L t tsb) -> In (sc_msg L t tsb) (map (smsg L) issued)) ->
  Forall wf_issue issued -> wf_tuple t ->
  step v e s (PADR t p oc) = Some (s', OPads sid uid) ->
  exists ts tg, parse_tags p = Ok tg /\ In (t, ts) issued /\ (now - Z.of_N ts * ns_per_s <= ttl)%Z /\
                t_cookie tg = scookie L H (t, ts).
Proof.
  intros HL Hle Hunf Hwf Hwt Hs. apply padr_needs_cookie in Hs as (tg & Hp & Hv & _).
  apply Hle in Hv. eapply scheme_sound in Hv; eauto.
  destruct Hv as (ts & Hin & Hfresh & Hc). eauto 6.
Qed.

(* a concrete HMAC stand-in for which the unforgeability premise holds, for non-vacuity *)
Definition oneH (d : bytes) : bytes :=
  if bytes_eqb d (enc_gen [2; 0; 0; 170; 0; 1] 100 10 1000) then repeat 1 32 else repeat 0 32.

Lemma cookie_sound_nonvacuous :
  let c := generate oneH 1000 tA in
  (firstn 32 c = oneH (macd tA c) -> In (macd tA c) (map enc_issue [(tA, 1000)])) /\
  Forall wf_issue [(tA, 1000)] /\ wf_tuple tA /\
  validate oneH 60000000000 1000500000000 c tA = true /\
  validate oneH 60000000000 1061500000000 c tA = false /\
  validate oneH 60000000000 1000500000000 c tB = false.
Proof.
  split.
  - intros _. left. vm_compute. reflexivity.
  - split; [repeat constructor; simpl; unfold two32; lia|].
    split; [simpl; lia|]. repeat split; vm_compute; reflexivity.
Qed.

(* the premise is satisfiable for a NON-injective H as well (toyH maps every extension by zero bytes of a short
   message to the same tag, so the tag below has many preimages): only the presented message matters *)
Lemma cookie_sound_nonvacuous_noninjective :
  let c := generate toyH 1000 tA in
  (firstn 32 c = toyH (macd tA c) -> In (macd tA c) (map enc_issue [(tA, 1000)])) /\
  Forall wf_issue [(tA, 1000)] /\ wf_tuple tA /\
  validate toyH 60000000000 1000500000000 c tA = true /\
  toyH (macd tA c ++ [0]) = toyH (macd tA c) /\ ~ In (macd tA c ++ [0]) (map enc_issue [(tA, 1000)]).
Proof.
  split; [intros _; left; vm_compute; reflexivity|].
  split; [repeat constructor; simpl; unfold two32; lia|]. split; [simpl; lia|].
  split; [vm_compute; reflexivity|]. split; [vm_compute; reflexivity|].
  intros [Hx|[]]. vm_compute in Hx. discriminate Hx.
Qed.

Example history_nonvacuous :
  match run Repaired env0 st0 [PADI tA; padr_of tA; padr_of tB; PADT tB 1; SESS tB 1; SESS tA 1; PADT tA 1; PADT tA 1] with
  | Some (s, [OPado _; OPads 1 0; OPads 2 1; ONone; ONone; OReach 0; OTerm 0; ONone]) =>
      by_sid s !! 1 = None /\ (exists x, by_sid s !! 2 = Some x /\ s_tup x = tB)
  | _ => False
  end.
Proof. vm_compute. split; [reflexivity | eexists; split; reflexivity]. Qed.

(* ------------------------------------------------------------------ Validate is history-independent *)
Lemma cm_run_ttl H : forall ops ttl, fst (cm_run H ttl ops) = ttl_after ttl ops.
Proof.
  induction ops as [|o r IH]; intros ttl; [reflexivity|].
  destruct o as [n t|n c t|n]; cbn [cm_run cm_step ttl_after fold_left].
  - specialize (IH ttl). destruct (cm_run H ttl r) as [t2 xs]. exact IH.
  - specialize (IH ttl). destruct (cm_run H ttl r) as [t2 xs]. exact IH.
  - specialize (IH n). destruct (cm_run H n r) as [t2 xs]. exact IH.
Qed.

Lemma cm_run_app H : forall pre ttl post,
  cm_run H ttl (pre ++ post) =
  let '(t1, xs) := cm_run H ttl pre in let '(t2, ys) := cm_run H t1 post in (t2, xs ++ ys).
Proof.
  induction pre as [|o r IH]; intros ttl post; simpl.
  - destruct (cm_run H ttl post); reflexivity.
  - destruct (cm_step H ttl o) as [t1 x]. rewrite IH. destruct (cm_run H t1 r) as [t2 xs].
    destruct (cm_run H t2 post); reflexivity.
Qed.

(* the verdict on (now, cookie, tuple) after ANY history of earlier Generate / Validate / lifetime changes
   is validate under the lifetime in effect: earlier validations (accepted or not) never change it *)
Lemma validate_history_independent H ttl pre now c t :
  snd (cm_run H ttl (pre ++ [CVal now c t])) =
  snd (cm_run H ttl pre) ++ [CVerdict (validate H (ttl_after ttl pre) now c t)].
Proof.
  rewrite cm_run_app. pose proof (cm_run_ttl H pre ttl) as Ht.
  destruct (cm_run H ttl pre) as [t1 xs]. simpl in *. subst t1. reflexivity.
Qed.

(* in particular: accepted while fresh, replayed after expiry => rejected, whatever happened in between *)
Lemma expired_replay_rejected H ttl pre now c mac sv cv a b c4 d :
  skipn 32 c = [a; b; c4; d] -> (ttl_after ttl pre < now - Z.of_N (be32 a b c4 d) * ns_per_s)%Z ->
  snd (cm_run H ttl (pre ++ [CVal now c (mac, sv, cv)])) = snd (cm_run H ttl pre) ++ [CVerdict false].
Proof.
  intros Hs Hlt. rewrite validate_history_independent. erewrite validate_expired; eauto.
Qed.

(* PADR level: in ANY table state (any earlier history, including this very PADR having been answered
   before), a PADR whose cookie has outlived the lifetime creates nothing *)
Lemma padr_expired_no_state v e s t p oc tg L H ttl now tag tsb s' r : 
  (forall c t', e_val e c t' = true -> svalidate L H ttl now c t' = true) ->
  parse_tags p = Ok tg -> sc_unpack L (t_cookie tg) = Some (tag, tsb) ->
  (ttl < now - Z.of_N (ts_of tsb) * ns_per_s)%Z ->
  step v e s (PADR t p oc) = Some (s', r) -> s' = s /\ r = ONone.
Proof.
  intros Hle Hp Hu Hlt Hst. eapply padr_rejected_no_state; [exact Hst|].
  intros tg' Hp'. rewrite Hp in Hp'. inversion Hp'; subst tg'.
  destruct (e_val e (t_cookie tg) t) eqn:Ev; [|reflexivity]. apply Hle in Ev.
  unfold svalidate in Ev. rewrite Hu in Ev. apply andb_true_iff in Ev as [E1 _].
  apply negb_true_iff, Z.ltb_ge in E1. lia.
Qed.

Example history_independence_nonvacuous :
  let c := generate oneH 1000 tA in
  snd (cm_run oneH 60000000000 [CGen 1000 tA; CVal 1000500000000 c tA; CVal 1000500000000 c tA;
                                CVal 1061500000000 c tA; CSetTTL 0; CVal 1000500000000 c tA]) =
  [CCookie c; CVerdict true; CVerdict true; CVerdict false; CNone; CVerdict false].
Proof. vm_compute. reflexivity. Qed.

(* admission is not vacuous: with oneH the premise holds for the presented PADR (and only because the
   one message whose tag it carries was issued), the PADR is answered, and the conclusion names the issue *)
Definition envOne : env := mk_env head_scheme oneH 60000000000 1000 1000500000000 (fun _ => true).
Definition padrOne : bytes := add_tag TagACCookie (generate oneH 1000 tA).

Lemma admission_nonvacuous :
  lawful head_scheme /\
  (forall c t', e_val envOne c t' = true -> svalidate head_scheme oneH 60000000000 1000500000000 c t' = true) /\
  (forall tg tag tsb, parse_tags padrOne = Ok tg -> sc_unpack head_scheme (t_cookie tg) = Some (tag, tsb) ->
      tag = oneH (sc_msg head_scheme tA tsb) -> In (sc_msg head_scheme tA tsb) (map (smsg head_scheme) [(tA, 1000)])) /\
  Forall wf_issue [(tA, 1000)] /\ wf_tuple tA /\
  (exists s', step Repaired envOne st0 (PADR tA padrOne Policy) = Some (s', OPads 1 0)) /\
  (* other messages have a different tag *)
  oneH (smsg head_scheme (tB, 1000)) <> oneH (smsg head_scheme (tA, 1000)) /\
  (* and the same PADR from another tuple is refused *)
  (exists s', step Repaired envOne st0 (PADR tB padrOne Policy) = Some (s', ONone)).
Proof.
  split; [exact head_scheme_lawful|]. split; [intros c t' Hv; exact Hv|]. split.
  - intros tg tag tsb Hp Hu _.
    assert (Ht : parse_tags padrOne = Ok {| t_cookie := generate oneH 1000 tA; t_hostuniq := []; t_maxpayload := 0; t_nraw := 1 |})
      by (vm_compute; reflexivity).
    rewrite Ht in Hp. inversion Hp; subst tg.
    assert (Hu' : sc_unpack head_scheme (generate oneH 1000 tA) = Some (firstn 32 (generate oneH 1000 tA), put32 1000))
      by (vm_compute; reflexivity).
    change (t_cookie _) with (generate oneH 1000 tA) in Hu.
    rewrite Hu' in Hu. inversion Hu; subst. left. reflexivity.
  - split; [repeat constructor; simpl; unfold two32; lia|]. split; [simpl; lia|].
    split; [eexists; vm_compute; reflexivity|]. split; [vm_compute; discriminate|].
    eexists; vm_compute; reflexivity.
Qed.

Lemma admission_pend v e s t p oc s' sid uid L H ttl now issued : lawful L ->
  (* the component's validator accepts no more than the scheme's Validate at this moment *)
  (forall c t', e_val e c t' = true -> svalidate L H ttl now c t' = true) ->
  (* H_mac_unforgeable for the one (message, tag) pair this PADR presents *)
  (forall tg tag tsb, parse_tags p = Ok tg -> sc_unpack L (t_cookie tg) = Some (tag, tsb) ->
                      tag = H (sc_msg L t tsb) -> In (sc_msg L t tsb) (map (smsg L) issued)) ->
  Forall wf_issue issued -> wf_tuple t ->
  step v e s (PBEGIN t p oc) = Some (s', OPend sid uid) ->
  exists ts tg, parse_tags p = Ok tg /\ In (t, ts) issued /\ (now - Z.of_N ts * ns_per_s <= ttl)%Z /\
                t_cookie tg = scookie L H (t, ts).
Proof.
  intros HL Hle Hunf Hwf Hwt Hs. apply pbegin_needs_cookie in Hs as (tg & Hp & Hv & _).
  apply Hle in Hv. eapply scheme_sound in Hv; eauto.
  destruct Hv as (ts & Hin & Hfresh & Hc). eauto 6.
Qed.

(* before 9893c59 (unguarded removeFromIndexes): host A gives its session host B's Username and PADTs its own session;
   B's usernameIndex entry is gone *)
Definition bob : bytes := [98; 111; 98].
Lemma attr_remove_refuted : exists e ops s outs xB s' r,
  run Unreserved e st0 ops = Some (s, outs) /\ by_attr s !! bob = Some xB /\ s_tup xB = tB /\ tA <> tB /\
  step Unreserved e s (PADT tA 8) = Some (s', r) /\ by_attr s' !! bob = None /\ by_sid s' !! 7 = Some xB.
Proof.
  exists env0, [RESTORE 7 tB bob; padr_of tA; SETATTR tA 8 bob]. do 5 eexists.
  split; [vm_compute; reflexivity|]. split; [vm_compute; reflexivity|]. split; [reflexivity|].
  split; [exact tA_ne_tB|]. split; [vm_compute; reflexivity|]. split; vm_compute; reflexivity.
Qed.

Example attr_remove_repaired :
  match run Repaired env0 st0 [RESTORE 7 tB bob; padr_of tA; SETATTR tB 8 bob; SETATTR tA 8 bob; PADT tA 8] with
  | Some (s, [ORestored 0; OPads 8 1; ONone; OReach 1; OTerm 1]) =>
      (exists x, by_attr s !! bob = Some x /\ s_tup x = tB) /\ by_sid s !! 8 = None
  | _ => False
  end.
Proof. vm_compute. split; [eexists; split; reflexivity | reflexivity]. Qed.

(* every interleaving of two PADRs' halves with ids to spare, repaired: distinct ids *)
Example interleaving_nonvacuous :
  match run Repaired env0 st0 [PBEGIN tA (add_tag TagACCookie (generate toyH 1000 tA)) Policy;
                               PBEGIN tB (add_tag TagACCookie (generate toyH 1000 tB)) (Chose 7); PCOMMIT 1; PCOMMIT 0] with
  | Some (s, outs) => outs = [OPend 1 0; OPend 7 1; OPads 7 1; OPads 1 0] /\ pend s = []
  | None => False
  end.
Proof. vm_compute. split; reflexivity. Qed.

(* ------------------------------------------------------------------ c.sessionKey is injective *)
Definition undec (l : list N) : N := fold_left (fun a c => a * 10 + (c - 48)) l 0.
Ltac dec_done :=
  split; [unfold undec; cbn [fold_left]; lia
         | intros c Hc; cbn [In] in Hc; repeat (destruct Hc as [<-|Hc]; [lia|]); contradiction].
Ltac dec_level :=
  cbn [dec_aux]; match goal with |- context [N.eqb ?x 0] => destruct (N.eqb_spec x 0) end; [dec_done|].

(* %d of a uint16: at most five digits, all in '0'..'9', and reading them back gives the number *)
Lemma dec_spec n : n < 65536 -> undec (dec n) = n /\ (forall c, In c (dec n) -> 48 <= c <= 57).
Proof.
  intros Hn. unfold dec. dec_level. dec_level. dec_level. dec_level. dec_level. exfalso. lia.
Qed.

Lemma hexd_inj a b : a < 16 -> b < 16 -> hexd a = hexd b -> a = b.
Proof. unfold hexd. intros Ha Hb. destruct (N.ltb_spec a 10), (N.ltb_spec b 10); lia. Qed.

Lemma hex2_inj a b : a < 256 -> b < 256 -> hex2 a = hex2 b -> a = b.
Proof.
  intros Ha Hb He. unfold hex2 in He. injection He as H1 H2.
  apply hexd_inj in H1; [|lia|lia]. apply hexd_inj in H2; [|lia|lia]. lia.
Qed.

Lemma split_at_sep {A} (c : A) : forall l1 l2 r1 r2, ~ In c l1 -> ~ In c l2 ->
  l1 ++ c :: r1 = l2 ++ c :: r2 -> l1 = l2 /\ r1 = r2.
Proof.
  induction l1 as [|x l1 IH]; intros [|y l2] r1 r2 H1 H2 He; simpl in *.
  - inversion He; auto.
  - inversion He; subst. exfalso. apply H2. left; reflexivity.
  - inversion He; subst. exfalso. apply H1. left; reflexivity.
  - inversion He; subst. destruct (IH l2 r1 r2) as [-> ->]; auto.
Qed.

Definition wf_key_tuple (t : tuple) : Prop :=
  let '(m, sv, cv) := t in length m = 6%nat /\ Forall (fun b => b < 256) m /\ sv < 65536 /\ cv < 65536.

Lemma session_key_injective t1 t2 : wf_key_tuple t1 -> wf_key_tuple t2 -> session_key t1 = session_key t2 -> t1 = t2.
Proof.
  destruct t1 as [[m1 s1] c1], t2 as [[m2 s2] c2]. intros (L1 & B1 & S1 & C1) (L2 & B2 & S2 & C2) He.
  destruct m1 as [|a1 [|a2 [|a3 [|a4 [|a5 [|a6 [|? ?]]]]]]]; try discriminate L1.
  destruct m2 as [|b1 [|b2 [|b3 [|b4 [|b5 [|b6 [|? ?]]]]]]]; try discriminate L2.
  cbn [session_key mac_string hex2 app] in He.
  injection He as E1 E2 E3 E4 E5 E6 E7 E8 E9 E10 E11 E12 Hrest.
  repeat match goal with H : Forall _ (_ :: _) |- _ => apply Forall_cons in H as [? H] end.
  assert (a1 = b1) by (apply hex2_inj; auto; unfold hex2; congruence).
  assert (a2 = b2) by (apply hex2_inj; auto; unfold hex2; congruence).
  assert (a3 = b3) by (apply hex2_inj; auto; unfold hex2; congruence).
  assert (a4 = b4) by (apply hex2_inj; auto; unfold hex2; congruence).
  assert (a5 = b5) by (apply hex2_inj; auto; unfold hex2; congruence).
  assert (a6 = b6) by (apply hex2_inj; auto; unfold hex2; congruence).
  subst. destruct (dec_spec s1 S1) as [U1 D1]. destruct (dec_spec s2 S2) as [U2 D2].
  destruct (dec_spec c1 C1) as [V1 _]. destruct (dec_spec c2 C2) as [V2 _].
  apply split_at_sep in Hrest as [Hs Hc].
  - assert (s1 = s2) by congruence. assert (c1 = c2) by congruence. subst. reflexivity.
  - intros Hin. specialize (D1 _ Hin). lia.
  - intros Hin. specialize (D2 _ Hin). lia.
Qed.

(* the class of renderings that drop a separator or a width is NOT injective, e.g. svlan and cvlan concatenated *)
Example key_without_separator_collides :
  dec 12 ++ dec 3 = dec 1 ++ dec 23 /\ session_key (fst (fst tA), 12, 3) <> session_key (fst (fst tA), 1, 23).
Proof. split; [reflexivity | vm_compute; discriminate]. Qed.

(* ------------------------------------------------------------------ run-time HA restore *)
(* with the check: a synced checkpoint whose id is 0, indexed or reserved changes nothing *)
Lemma hasync_refused v e s sid t a s' r : v_ha_check v = true -> sid < 65536 ->
  sid = 0 \/ id_used v s sid = true -> step v e s (HASYNC sid t a) = Some (s', r) -> s' = s /\ r = ONone.
Proof.
  intros Hh Hlt Hc. cbn [step]. rewrite Hh. destruct (N.ltb_spec sid 65536); [|lia]. cbn [negb andb].
  assert (Hb : N.eqb sid 0 || id_used v s sid = true).
  { destruct Hc as [->|Hu]; [reflexivity | rewrite Hu; apply orb_true_r]. }
  rewrite Hb. intros Hs; inversion Hs; auto.
Qed.

(* ... and a usable id is installed like a start-up restore, keeping every other session's entries *)
Lemma hasync_accepted v e s sid t a : v_ha_check v = true -> 0 < sid < 65536 -> id_used v s sid = false ->
  exists s', step v e s (HASYNC sid t a) = Some (s', OSynced (ctr s)) /\
    by_sid s' !! sid = Some {| s_uid := ctr s; s_sid := sid; s_tup := t |} /\
    (forall k, k <> sid -> by_sid s' !! k = by_sid s !! k).
Proof.
  intros Hh Hr Hu. cbn [step]. rewrite Hh, Hu. destruct (N.ltb_spec sid 65536); [|lia].
  destruct (N.eqb_spec sid 0); [lia|]. cbn [negb andb orb].
  eexists. split; [reflexivity|]. simpl. split; [apply lookup_insert|].
  intros k Hk. apply lookup_insert_ne. congruence.
Qed.

(* before 9d39845: the peer's id 1 is installed over the live local session with id 1; the local
   session stays in c.sessions but can no longer be reached, echoed or terminated by its id, and two sessions
   alive in the table carry id 1.  Replayed on the real code (harness op H, restoreFromHASync). *)
Lemma hasync_refuted : exists e ops s outs xA xB,
  run NoHACheck e st0 ops = Some (s, outs) /\
  by_tup s !! tA = Some xA /\ by_tup s !! tB = Some xB /\ xA <> xB /\ s_sid xA = 1 /\ s_sid xB = 1 /\
  by_sid s !! 1 = Some xB /\ outs = [OPads 1 0; OSynced 1; ONone].
Proof.
  exists env0, [padr_of tA; HASYNC 1 tB []; SESS tA 1]. do 4 eexists.
  split; [vm_compute; reflexivity|]. split; [vm_compute; reflexivity|]. split; [vm_compute; reflexivity|].
  split; [discriminate|]. repeat split; vm_compute; reflexivity.
Qed.

Example hasync_repaired :
  match run Repaired env0 st0 [padr_of tA; HASYNC 1 tB []; HASYNC 0 tB []; HASYNC 7 tB []; SESS tA 1] with
  | Some (s, outs) => outs = [OPads 1 0; ONone; ONone; OSynced 1; OReach 0] /\
      (exists x, by_sid s !! 7 = Some x /\ s_tup x = tB)
  | None => False
  end.
Proof. vm_compute. split; [reflexivity | eexists; split; reflexivity]. Qed.

(* ------------------------------------------------------------------ admissible verdicts of a validator *)
(* an admissible verdict never accepts more than [validate] ... *)
Lemma admissible_verdict_sound t m i : admissible_verdict t m i = true -> i = true -> m = true.
Proof. unfold admissible_verdict. destruct (ethernet_tuple t), i, m; simpl; congruence. Qed.
(* ... and on Ethernet tuples (6-byte MAC, everything the dataplane delivers) it IS [validate] *)
Lemma admissible_verdict_ethernet t m i : ethernet_tuple t = true -> admissible_verdict t m i = true -> i = m.
Proof. unfold admissible_verdict. intros ->. destruct i, m; simpl; congruence. Qed.
Lemma validate_is_admissible t m : admissible_verdict t m m = true.
Proof. unfold admissible_verdict. destruct (ethernet_tuple t), m; reflexivity. Qed.

(* soundness for EVERY validator whose verdicts are admissible (e.g. one that also refuses non-Ethernet MACs) *)
Lemma admissible_validator_sound H (val' : Z -> Z -> bytes -> tuple -> bool) :
  (forall ttl now c t, admissible_verdict t (validate H ttl now c t) (val' ttl now c t) = true) ->
  forall ttl now c t issued,
  (firstn 32 c = H (macd t c) -> In (macd t c) (map enc_issue issued)) ->
  Forall wf_issue issued -> wf_tuple t ->
  val' ttl now c t = true ->
  exists ts, In (t, ts) issued /\ (now - Z.of_N ts * ns_per_s <= ttl)%Z /\ skipn 32 c = put32 ts.
Proof.
  intros Hadm ttl now c t issued Hunf Hwf Hwt Hv. eapply cookie_sound; eauto.
  eapply admissible_verdict_sound; [apply Hadm | exact Hv].
Qed.

(* the same history under another lawful cookie layout (ts | tag, message ts | mac | vlans): nothing in the
   admission / isolation behaviour depends on the layout *)
Example alt_scheme_history :
  let e := mk_env alt_scheme toyH 60000000000 1000 1000500000000 (fun _ => true) in
  let ck t := add_tag TagACCookie (sgenerate alt_scheme toyH 1000 t) in
  match run Repaired e st0 [PADI tA; PADR tA (ck tA) Policy; PADR tB (ck tA) Policy; PADR tB (ck tB) (Chose 9)] with
  | Some (_, [OPado c; OPads 1 0; ONone; OPads 9 1]) => c = sgenerate alt_scheme toyH 1000 tA
  | _ => False
  end.
Proof. vm_compute. reflexivity. Qed.

(* ------------------------------------------------------------------ an id is in use exactly while its session is alive *)
Lemma pend_has_true l k : pend_has l k = true <-> exists x, In x l /\ s_sid x = k.
Proof.
  unfold pend_has. rewrite existsb_exists. split; intros (x & Hx & He); exists x; split; auto.
  - apply N.eqb_eq. exact He.
  - apply N.eqb_eq. exact He.
Qed.

Lemma id_used_iff_alive v s k : v_reserve v = true -> Inv s ->
  id_used v s k = true <-> exists x, alive s x /\ s_sid x = k.
Proof.
  intros Hr HI. unfold id_used, sid_used. rewrite Hr. cbn [andb]. split.
  - intros Hu. apply orb_true_iff in Hu as [Hu|Hu].
    + destruct (by_sid s !! k) as [x|] eqn:E; [|discriminate]. exists x. split; [left; left; eauto|].
      apply (inv_sid _ HI _ _ E).
    + apply pend_has_true in Hu as (x & Hx & He). exists x. split; [right; exact Hx | exact He].
  - intros (x & [Hl|Hp] & He); apply orb_true_iff.
    + left. apply live_in_sid in Hl; [|exact HI]. rewrite He in Hl. rewrite Hl. reflexivity.
    + right. apply pend_has_true. eauto.
Qed.

(* whether a given session object is in one of the two primary indexes is decidable (under the invariant) *)
Lemma classic_live s x : Inv s -> live s x \/ ~ live s x.
Proof.
  intros HI. destruct (by_sid s !! s_sid x) as [y|] eqn:Es.
  - destruct (sess_eqb y x) eqn:Eq.
    + apply sess_eqb_eq in Eq. subst y. left. left. eauto.
    + right. intros Hl. apply live_in_sid in Hl; [|exact HI]. rewrite Es in Hl. inversion Hl; subst y.
      rewrite (proj2 (sess_eqb_eq x x) eq_refl) in Eq. discriminate.
  - right. intros Hl. apply live_in_sid in Hl; [|exact HI]. congruence.
Qed.

Definition is_teardown (o : op) : Prop :=
  match o with PADT _ _ | DEAD _ | AAAREJ _ | VPPFAIL _ => True | _ => False end.

(* removing a LIVE session frees exactly its id *)
Lemma remove_live_frees v s x : v_reserve v = true -> v_guard_remove v = true -> Inv s -> live s x ->
  ~ live (remove_indexes v x s) x /\ id_used v (remove_indexes v x s) (s_sid x) = false /\
  (forall k, k <> s_sid x -> id_used v (remove_indexes v x s) k = id_used v s k).
Proof.
  intros Hr Hg HI Hl. pose proof (live_in_sid _ _ HI Hl) as Hx. split; [|split].
  - intros [[k Hk]|[t Ht]]; simpl in *; rewrite Hg in *.
    + pose proof Hk as Hk0. apply del_ifN_sub in Hk. destruct (inv_sid _ HI _ _ Hk) as [<- _].
      rewrite del_ifN_own in Hk0; [discriminate | exact Hk].
    + pose proof Ht as Ht0. apply del_if_sub in Ht. destruct (inv_tup _ HI _ _ Ht) as [<- _].
      rewrite del_if_own in Ht0; [discriminate | exact Ht].
  - unfold id_used, sid_used. simpl. rewrite del_ifN_own by exact Hx. rewrite Hr. simpl.
    destruct (pend_has (pend s) (s_sid x)) eqn:Ep; [|reflexivity].
    apply pend_has_true in Ep as (y & Hy & He). destruct (inv_pend _ HI y Hy) as (_ & F2 & _).
    rewrite He, Hx in F2. discriminate.
  - intros k Hk. unfold id_used, sid_used. simpl. rewrite del_ifN_ne by auto. reflexivity.
Qed.

(* tearing down a STALE session object (not in sidIndex / sessions any more: a late dataplane callback) leaves both
   indexes exactly as they are — in particular the entry of a session that has been given the same id since *)
Lemma remove_stale_noop v s x : v_guard_remove v = true -> Inv s -> ~ live s x ->
  by_sid (remove_indexes v x s) = by_sid s /\ by_tup (remove_indexes v x s) = by_tup s.
Proof.
  intros Hg HI Hn. simpl. rewrite Hg. unfold del_ifN, del_if. split.
  - destruct (by_sid s !! s_sid x) as [y|] eqn:E; [|reflexivity]. destruct (sess_eqb y x) eqn:Eq; [|reflexivity].
    apply sess_eqb_eq in Eq. subst y. exfalso. apply Hn. left. eauto.
  - destruct (by_tup s !! s_tup x) as [y|] eqn:E; [|reflexivity]. destruct (sess_eqb y x) eqn:Eq; [|reflexivity].
    apply sess_eqb_eq in Eq. subst y. exfalso. apply Hn. right. eauto.
Qed.

(* every teardown path (PADT, dead peer, AAA reject, dataplane add failure) that reports a termination: the session
   object is marked torn down and is in no index afterwards; if it was live its id — and only its id — is free
   again; if it was stale both indexes are untouched *)
Lemma teardown_frees_exactly v e s o s' u : reserving v -> Inv s -> is_teardown o ->
  step v e s o = Some (s', OTerm u) ->
  exists x, s_uid x = u /\ ~ live s' x /\ is_gone s' u = true /\
    (live s x -> id_used v s (s_sid x) = true /\ id_used v s' (s_sid x) = false /\
                 forall k, k <> s_sid x -> id_used v s' k = id_used v s k) /\
    (~ live s x -> by_sid s' = by_sid s /\ by_tup s' = by_tup s) /\
    (live s x \/ o = VPPFAIL x).
Proof.
  intros Hv HI Ht Hs. pose proof Hv as (_ & Hr & _ & Hg).
  assert (Hcore : forall x, s' = mark_gone (s_uid x) (remove_indexes v x s) -> u = s_uid x ->
            (live s x \/ o = VPPFAIL x) ->
            exists x, s_uid x = u /\ ~ live s' x /\ is_gone s' u = true /\
              (live s x -> id_used v s (s_sid x) = true /\ id_used v s' (s_sid x) = false /\
                           forall k, k <> s_sid x -> id_used v s' k = id_used v s k) /\
              (~ live s x -> by_sid s' = by_sid s /\ by_tup s' = by_tup s) /\
              (live s x \/ o = VPPFAIL x)).
  { intros x -> -> Hor. exists x. split; [reflexivity|]. split; [|split; [|split; [|split]]].
    - intros Hl. assert (Hl' : live (remove_indexes v x s) x) by exact Hl.
      destruct (classic_live s x HI) as [Hlx|Hnx].
      + apply (proj1 (remove_live_frees v s x Hr Hg HI Hlx)). exact Hl'.
      + destruct (remove_stale_noop v s x Hg HI Hnx) as [E1 E2]. apply Hnx.
        destruct Hl' as [[k Hk]|[t Hk]]; [left; exists k; rewrite <- E1 | right; exists t; rewrite <- E2]; exact Hk.
    - unfold is_gone. simpl. rewrite N.eqb_refl. reflexivity.
    - intros Hl. destruct (remove_live_frees v s x Hr Hg HI Hl) as (_ & F2 & F3).
      split; [apply id_used_iff_alive; [exact Hr | exact HI | exists x; split; [left; exact Hl | reflexivity]]|].
      split; [exact F2 | exact F3].
    - intros Hn. apply (remove_stale_noop v s x Hg HI Hn).
    - exact Hor. }
  destruct o as [t|t p oc|t p oc|u0|t sid|t sid|t sid a|sid|sid t a|sid t a|n|x|x]; try contradiction; simpl in Hs.
  - destruct (by_sid s !! sid) as [x|] eqn:El; [|discriminate].
    destruct (owner_ok v x t); inversion Hs; subst. eapply Hcore; eauto. left. left. eauto.
  - destruct (by_sid s !! sid) as [x|] eqn:El; inversion Hs; subst. eapply Hcore; eauto. left. left. eauto.
  - destruct (has_preq s (s_uid x)); [|discriminate]. destruct (by_tup s !! s_tup x) as [y|]; [|discriminate].
    destruct (sess_eqb y x); [|discriminate].
    destruct (by_sid s !! s_sid x) as [z|] eqn:El; inversion Hs; subst. eapply Hcore; eauto. left. left. eauto.
  - destruct (is_gone s (s_uid x)); inversion Hs; subst. eapply Hcore; eauto.
Qed.

(* the AAA reject re-looks the id up after having found the session through c.sessions: under the invariant the
   session it then tears down IS the one the answer belongs to *)
Lemma aaa_reject_terminates_own v e s x s' r : Inv s -> step v e s (AAAREJ x) = Some (s', r) ->
  r = ONone \/ (r = OTerm (s_uid x) /\ by_tup s !! s_tup x = Some x /\ by_sid s !! s_sid x = Some x).
Proof.
  intros HI Hs. simpl in Hs. destruct (has_preq s (s_uid x)); [|inversion Hs; auto].
  destruct (by_tup s !! s_tup x) as [y|] eqn:Et; [|inversion Hs; auto].
  destruct (sess_eqb y x) eqn:Eq; [|inversion Hs; auto]. apply sess_eqb_eq in Eq. subst y.
  destruct (inv_tup _ HI _ _ Et) as [_ Hx]. rewrite Hx in Hs. inversion Hs; subst. right. auto.
Qed.

(* a torn-down session object is never torn down twice by a late dataplane failure (7b3d79c) *)
Lemma late_vpp_failure_ignored v e s x : is_gone s (s_uid x) = true -> step v e s (VPPFAIL x) = Some (s, ONone).
Proof. intros Hg. simpl. rewrite Hg. reflexivity. Qed.

Definition xA0 : sess := {| s_uid := 0; s_sid := 1; s_tup := tA |}.
Definition xB1 : sess := {| s_uid := 1; s_sid := 1; s_tup := tB |}.
(* A authenticates, AAA rejects: A's session is torn down and id 1 is free; B is given id 1; the late dataplane
   failure of A's queued add is ignored, B's session is untouched; a dataplane failure for B tears B down *)
Example teardown_history :
  match run Repaired env0 st0 [padr_of tA; SETATTR tA 1 bob; AAAREJ xA0; AAAREJ xA0;
                               PADR tB (add_tag TagACCookie (generate toyH 1000 tB)) (Chose 1);
                               VPPFAIL xA0; SESS tB 1; VPPFAIL xB1; VPPFAIL xB1; SESS tB 1] with
  | Some (s, outs) => outs = [OPads 1 0; OReach 0; OTerm 0; ONone; OPads 1 1; ONone; OReach 1; OTerm 1; ONone; ONone]
                      /\ by_sid s !! 1 = None
  | None => False
  end.
Proof. vm_compute. split; reflexivity. Qed.

(* ------------------------------------------------------------------ the second may-reject class (what the driver enforces) *)
(* whatever the may-reject flag: an admissible verdict never accepts what the specification rejects ... *)
Lemma admissible_verdict2_sound may t m i : admissible_verdict2 may t m i = true -> i = true -> m = true.
Proof.
  unfold admissible_verdict2. destruct may; [destruct i, m; simpl; congruence | apply admissible_verdict_sound].
Qed.
(* ... and outside both may-reject classes (Ethernet tuple, cookie not dated in the future) it IS the specification *)
Lemma admissible_verdict2_exact t m i : ethernet_tuple t = true -> admissible_verdict2 false t m i = true -> i = m.
Proof. intros He. unfold admissible_verdict2. apply admissible_verdict_ethernet. exact He. Qed.
(* the future-dated class is empty as long as the clock does not run backwards: every issued cookie is dated <= now *)
Lemma future_dated_empty iss now c :
  Forall (fun i => let '(_, _, ts) := i in (Z.of_N ts * ns_per_s <= now)%Z) iss -> future_dated iss now c = false.
Proof.
  intros Hall. unfold future_dated. destruct (existsb _ iss) eqn:E; [|reflexivity]. exfalso.
  apply existsb_exists in E as ([[c' t'] ts] & Hin & Hb). apply andb_true_iff in Hb as [_ Hlt].
  rewrite Coq.Lists.List.Forall_forall in Hall. specialize (Hall _ Hin). simpl in Hall. apply Z.ltb_lt in Hlt. lia.
Qed.
