(* C04/Proofs.v — lemmas and invariants for C04/Model.v *)
From Coq Require Import List ZArith NArith Bool Lia Arith ZifyBool ZifyNat ZifyN.
From stdpp Require Import gmap nmap.
From OV Require Import C04.Model.
Import ListNotations.
Local Open Scope N_scope.

Ltac Zify.zify_post_hook ::= Z.div_mod_to_equations.

(* ------------------------------------------------------------------ bytes *)
Lemma bytes_eqb_eq a b : bytes_eqb a b = true <-> a = b.
Proof.
  revert b; induction a as [|x a IH]; intros [|y b]; simpl; split; intros Hx; try congruence; try discriminate.
  - apply andb_true_iff in Hx as [H1 H2]. apply N.eqb_eq in H1. apply IH in H2. congruence.
  - inversion Hx; subst. apply andb_true_iff; split; [apply N.eqb_refl | apply IH; reflexivity].
Qed.

Lemma tuple_eqb_eq a b : tuple_eqb a b = true <-> a = b.
Proof.
  destruct a as [[m1 s1] c1], b as [[m2 s2] c2]. unfold tuple_eqb.
  rewrite !andb_true_iff, bytes_eqb_eq, !N.eqb_eq. split.
  - intros [[-> ->] ->]; reflexivity.
  - intros Hx; inversion Hx; auto.
Qed.

Lemma be32_put32 ts : ts < two32 ->
  exists a b c d, put32 ts = [a; b; c; d] /\ be32 a b c d = ts.
Proof.
  intros Hlt. unfold Base.put32, Base.be32, Base.byte_of, two32 in *.
  do 4 eexists; split; [reflexivity|]. lia.
Qed.

Lemma put16_inj a b : a < 65536 -> b < 65536 -> put16 a = put16 b -> a = b.
Proof.
  unfold Base.put16, Base.byte_of. intros Ha Hb Hx. inversion Hx. lia.
Qed.

Lemma put32_inj a b : a < two32 -> b < two32 -> put32 a = put32 b -> a = b.
Proof.
  unfold Base.put32, Base.byte_of, two32. intros Ha Hb Hx. inversion Hx. lia.
Qed.

(* ------------------------------------------------------------------ cookie *)
Lemma enc_agree mac sv cv ts : enc_val mac sv cv (put32 ts) = enc_gen mac sv cv ts.
Proof. reflexivity. Qed.

Lemma enc_gen_injective m1 s1 c1 t1 m2 s2 c2 t2 :
  s1 < 65536 -> c1 < 65536 -> t1 < two32 -> s2 < 65536 -> c2 < 65536 -> t2 < two32 ->
  enc_gen m1 s1 c1 t1 = enc_gen m2 s2 c2 t2 -> m1 = m2 /\ s1 = s2 /\ c1 = c2 /\ t1 = t2.
Proof.
  intros Hs1 Hc1 Ht1 Hs2 Hc2 Ht2 He. unfold enc_gen in He.
  apply app_inj_2 in He as [Hm He]; [|reflexivity].
  apply app_inj_1 in He as [Hs He]; [|reflexivity].
  apply app_inj_1 in He as [Hc He]; [|reflexivity].
  repeat split; auto using put16_inj, put32_inj.
Qed.

Section Cookie.
  Variable H : bytes -> bytes.

  Lemma generate_shape now t : (forall d, length (H d) = 32%nat) ->
    let '(mac, sv, cv) := t in
    generate H now t = H (enc_gen mac sv cv (now mod two32)) ++ put32 (now mod two32).
  Proof.
    intros Hlen. destruct t as [[mac sv] cv]. unfold generate, go_copy.
    rewrite Hlen. change (length (repeat 0 32)) with 32%nat.
    rewrite <- (Hlen (enc_gen mac sv cv (now mod two32))) at 1. rewrite firstn_all.
    change (skipn 32 (repeat 0 32)) with (@nil N). rewrite app_nil_r. reflexivity.
  Qed.

  (* what Validate computes on a 32+4 byte cookie *)
  Lemma validate_split ttl now sig a b c d mac sv cv : length sig = 32%nat ->
    validate H ttl now (sig ++ [a; b; c; d]) (mac, sv, cv) =
    (negb (ttl <? now - Z.of_N (be32 a b c d) * ns_per_s)%Z &&
     bytes_eqb sig (H (enc_val mac sv cv [a; b; c; d]))).
  Proof.
    intros Hl. unfold validate. rewrite app_length, Hl. simpl negb. cbv iota.
    replace (skipn 32 (sig ++ [a; b; c; d])) with [a; b; c; d]
      by (rewrite <- Hl, skipn_app, skipn_all, Nat.sub_diag; reflexivity).
    replace (firstn 32 (sig ++ [a; b; c; d])) with sig
      by (rewrite <- Hl, firstn_app, firstn_all, Nat.sub_diag; simpl; rewrite app_nil_r; reflexivity).
    destruct (ttl <? _)%Z; reflexivity.
  Qed.

  Lemma cookie_roundtrip ttl now_ns now_s t : (forall d, length (H d) = 32%nat) ->
    validate H ttl now_ns (generate H now_s t) t = true <->
    (now_ns - Z.of_N (now_s mod two32) * ns_per_s <= ttl)%Z.
  Proof.
    intros Hlen. pose proof (generate_shape now_s t Hlen) as Hg. destruct t as [[mac sv] cv]. rewrite Hg.
    assert (Hlt : now_s mod two32 < two32) by (unfold two32; lia).
    destruct (be32_put32 _ Hlt) as (a & b & c & d & Hp & Hb).
    rewrite Hp, validate_split by apply Hlen. rewrite Hb, <- Hp, enc_agree.
    replace (bytes_eqb _ _) with true by (symmetry; apply bytes_eqb_eq; reflexivity).
    rewrite andb_true_r, negb_true_iff, Z.ltb_ge. reflexivity.
  Qed.

  Lemma validate_length ttl now c t : validate H ttl now c t = true -> length c = 36%nat.
  Proof.
    destruct t as [[mac sv] cv]. unfold validate.
    destruct (Nat.eqb_spec (length c) 36); simpl; [auto | discriminate].
  Qed.

  (* decomposition of an accepted cookie *)
  Lemma validate_true_inv ttl now c mac sv cv : validate H ttl now c (mac, sv, cv) = true ->
    exists a b c4 d, skipn 32 c = [a; b; c4; d] /\
      (now - Z.of_N (be32 a b c4 d) * ns_per_s <= ttl)%Z /\
      firstn 32 c = H (enc_val mac sv cv [a; b; c4; d]).
  Proof.
    unfold validate. destruct (Nat.eqb (length c) 36); simpl; [|discriminate].
    destruct (skipn 32 c) as [|a [|b [|c4 [|d [|? ?]]]]]; try discriminate.
    destruct (Z.ltb_spec ttl (now - Z.of_N (be32 a b c4 d) * ns_per_s)); [discriminate|].
    intros Hx%bytes_eqb_eq. exists a, b, c4, d. auto.
  Qed.

  (* what Validate checks, exactly (no premise): the cookie is a 32-byte tag followed by a 4-byte
     timestamp, the tag is H of (mac | svlan | cvlan | timestamp bytes) and the timestamp is young enough *)
  Lemma validate_accepts_iff ttl now c mac sv cv : validate H ttl now c (mac, sv, cv) = true <->
    exists sig a b c4 d, c = sig ++ [a; b; c4; d] /\ length sig = 32%nat /\
      sig = H (enc_val mac sv cv [a; b; c4; d]) /\ (now - Z.of_N (be32 a b c4 d) * ns_per_s <= ttl)%Z.
  Proof.
    split.
    - intros Hv. pose proof (validate_length _ _ _ _ Hv) as Hl.
      destruct (validate_true_inv _ _ _ _ _ _ Hv) as (a & b & c4 & d & Hs & Hf & Hsig).
      exists (firstn 32 c), a, b, c4, d. repeat split; auto.
      + rewrite <- Hs. symmetry. apply firstn_skipn.
      + rewrite firstn_length. lia.
    - intros (sig & a & b & c4 & d & -> & Hl & Hsig & Hf). rewrite validate_split by exact Hl.
      apply andb_true_iff. split.
      + apply negb_true_iff, Z.ltb_ge. exact Hf.
      + apply bytes_eqb_eq. exact Hsig.
  Qed.

  Lemma validate_expired ttl now c mac sv cv a b c4 d : skipn 32 c = [a; b; c4; d] ->
    (ttl < now - Z.of_N (be32 a b c4 d) * ns_per_s)%Z -> validate H ttl now c (mac, sv, cv) = false.
  Proof.
    intros Hs Hlt. unfold validate. destruct (negb _); [reflexivity|]. rewrite Hs.
    destruct (Z.ltb_spec ttl (now - Z.of_N (be32 a b c4 d) * ns_per_s)); [reflexivity | lia].
  Qed.

  (* the messages this BNG has MACed: one per Generate call *)
  Definition issue := (tuple * N)%type.                 (* tuple, timestamp (u32 seconds) *)
  Definition enc_issue (i : issue) : bytes := let '((mac, sv, cv), ts) := i in enc_gen mac sv cv ts.
  Definition wf_tuple (t : tuple) : Prop := let '(_, sv, cv) := t in sv < 65536 /\ cv < 65536.
  Definition wf_issue (i : issue) : Prop := wf_tuple (fst i) /\ snd i < two32.

  Lemma cookie_sound ttl now c t issued :
    (forall d, firstn 32 c = H d -> In d (map enc_issue issued)) ->      (* H_mac_unforgeable *)
    Forall wf_issue issued -> wf_tuple t ->
    validate H ttl now c t = true ->
    exists ts, In (t, ts) issued /\ (now - Z.of_N ts * ns_per_s <= ttl)%Z /\ skipn 32 c = put32 ts.
  Proof.
    intros Hunf Hwf Hwt Hv. destruct t as [[mac sv] cv].
    destruct (validate_true_inv _ _ _ _ _ _ Hv) as (a & b & c4 & d & Hs & Hfresh & Hsig).
    apply Hunf in Hsig. apply in_map_iff in Hsig as ([[[mac' sv'] cv'] ts'] & He & Hin).
    rewrite Coq.Lists.List.Forall_forall in Hwf. destruct (Hwf _ Hin) as [[Hsv' Hcv'] Hts']. simpl in Hsv', Hcv', Hts'.
    destruct Hwt as [Hsv Hcv].
    simpl in He. unfold enc_gen, enc_val in He.
    apply app_inj_2 in He as [Hm He]; [|reflexivity].
    apply app_inj_1 in He as [Hs1 He]; [|reflexivity].
    apply app_inj_1 in He as [Hc1 He]; [|reflexivity].
    assert (sv' = sv) by (apply put16_inj; auto). assert (cv' = cv) by (apply put16_inj; auto). subst.
    exists ts'. split; [exact Hin|]. split; [|congruence].
    destruct (be32_put32 _ Hts') as (a' & b' & c' & d' & Hp & Hb).
    rewrite Hp in He. injection He as <- <- <- <-. rewrite Hb in Hfresh. exact Hfresh.
  Qed.
End Cookie.

(* ------------------------------------------------------------------ session-id allocation *)
Definition nx (n : N) : N := let n1 := u16 (n + 1) in if N.eqb n1 0 then 1 else n1.

Lemma nx_range n : 0 < nx n < 65536.
Proof. unfold nx, u16. destruct (N.eqb_spec ((n + 1) mod 65536) 0); lia. Qed.

Lemma nx_val n : 0 < n < 65536 -> nx n = if N.eqb n 65535 then 1 else n + 1.
Proof.
  intros Hn. unfold nx, u16. destruct (N.eqb_spec n 65535) as [->|Hne]; [reflexivity|].
  destruct (N.eqb_spec ((n + 1) mod 65536) 0); lia.
Qed.

Lemma alloc_loop_unfold f m start nxt :
  alloc_loop (S f) m start nxt =
  if negb (sid_used m nxt) then Ok (nxt, nx nxt)
  else if N.eqb (nx nxt) start then Ok (0, nx nxt)
  else alloc_loop f m start (nx nxt).
Proof. reflexivity. Qed.

(* safety: whatever the loop returns is 0 or a free id in 1..65535; the counter stays in 1..65535 *)
Lemma alloc_loop_sound fuel m start : forall nxt sid n',
  0 < nxt < 65536 -> alloc_loop fuel m start nxt = Ok (sid, n') ->
  0 < n' < 65536 /\ (sid = 0 \/ (m !! sid = None /\ 0 < sid < 65536)).
Proof.
  induction fuel as [|f IH]; intros nxt sid n' Hn Ha; [discriminate|].
  rewrite alloc_loop_unfold in Ha. pose proof (nx_range nxt) as Hr.
  unfold sid_used in Ha. destruct (m !! nxt) eqn:El; simpl in Ha.
  - destruct (N.eqb (nx nxt) start).
    + inversion Ha; subst. split; [lia | left; reflexivity].
    + eapply IH; [|exact Ha]. lia.
  - inversion Ha; subst. split; [lia | right; split; [exact El | lia]].
Qed.

(* position of an id in the cyclic scan that starts at [start] *)
Definition pos (start n : N) : N := (n + 65535 - start) mod 65535.

Lemma pos_nx start n : 0 < start < 65536 -> 0 < n < 65536 -> nx n <> start -> pos start (nx n) = pos start n + 1.
Proof. intros Hs Hn. rewrite nx_val by exact Hn. unfold pos. destruct (N.eqb_spec n 65535); intros; lia. Qed.

Lemma pos_last start n : 0 < start < 65536 -> 0 < n < 65536 -> nx n = start -> pos start n = 65534.
Proof. intros Hs Hn. rewrite nx_val by exact Hn. unfold pos. destruct (N.eqb_spec n 65535); intros; lia. Qed.

Lemma pos_inj start a b : 0 < start < 65536 -> 0 < a < 65536 -> 0 < b < 65536 -> pos start a = pos start b -> a = b.
Proof. unfold pos. intros; lia. Qed.

Lemma pos_bound start n : pos start n < 65535.
Proof. unfold pos. lia. Qed.

(* completeness: with enough fuel the loop scans every id once; it answers 0 only when all
   65535 ids are in use, and never runs out of fuel *)
Lemma alloc_loop_complete m start : 0 < start < 65536 ->
  forall fuel nxt, 0 < nxt < 65536 ->
  (forall j, 0 < j < 65536 -> pos start j < pos start nxt -> m !! j <> None) ->
  65535 <= N.of_nat fuel + pos start nxt ->
  exists sid n', alloc_loop fuel m start nxt = Ok (sid, n') /\
    ((sid <> 0 /\ m !! sid = None) \/ (sid = 0 /\ forall j, 0 < j < 65536 -> m !! j <> None)).
Proof.
  intros Hs. induction fuel as [|f IH]; intros nxt Hn Hused Hfuel.
  - pose proof (pos_bound start nxt). lia.
  - rewrite alloc_loop_unfold. unfold sid_used. destruct (m !! nxt) eqn:El; simpl.
    + destruct (N.eqb_spec (nx nxt) start) as [He|Hne].
      * exists 0, (nx nxt). split; [reflexivity|]. right. split; [reflexivity|].
        intros j Hj. pose proof (pos_last start nxt Hs Hn He) as Hl.
        destruct (N.eq_dec (pos start j) (pos start nxt)) as [Hp|Hp].
        -- apply pos_inj in Hp; auto. subst j. congruence.
        -- apply Hused; [exact Hj|]. pose proof (pos_bound start j). lia.
      * pose proof (nx_range nxt) as Hr. pose proof (pos_nx start nxt Hs Hn Hne) as Hp.
        apply IH; [lia| |lia].
        intros j Hj Hlt. destruct (N.eq_dec (pos start j) (pos start nxt)) as [Hq|Hq].
        -- apply pos_inj in Hq; auto. subst j. congruence.
        -- apply Hused; [exact Hj | lia].
    + exists nxt, (nx nxt). split; [reflexivity|]. left. split; [lia | exact El].
Qed.

Lemma alloc_fuel_enough : 65535 <= N.of_nat alloc_fuel.
Proof. unfold alloc_fuel. lia. Qed.

Lemma norm_next_range n : n < 65536 -> 0 < norm_next Repaired n < 65536.
Proof. unfold norm_next; simpl. destruct (N.eqb_spec n 0); lia. Qed.

Lemma allocate_sound v m nxt sid n' : 0 < norm_next v nxt < 65536 ->
  allocate v m nxt = Ok (sid, n') ->
  0 < n' < 65536 /\ (sid = 0 \/ (m !! sid = None /\ 0 < sid < 65536)).
Proof. unfold allocate. intros Hn Ha. eapply alloc_loop_sound; eauto. Qed.

Lemma allocate_complete v m nxt : 0 < norm_next v nxt < 65536 ->
  exists sid n', allocate v m nxt = Ok (sid, n') /\
    ((sid <> 0 /\ m !! sid = None) \/ (sid = 0 /\ forall j, 0 < j < 65536 -> m !! j <> None)).
Proof.
  intros Hn. unfold allocate. apply alloc_loop_complete; auto.
  - intros j Hj Hlt. unfold pos in Hlt. lia.
  - pose proof alloc_fuel_enough. lia.
Qed.

(* ------------------------------------------------------------------ table invariant *)
Definition live (s : st) (x : sess) : Prop :=
  (exists k, by_sid s !! k = Some x) \/ (exists t, by_tup s !! t = Some x).

Record Inv (s : st) : Prop := {
  inv_sid : forall k x, by_sid s !! k = Some x -> s_sid x = k /\ 0 < k < 65536;
  inv_tup : forall t x, by_tup s !! t = Some x -> s_tup x = t /\ by_sid s !! (s_sid x) = Some x;
  inv_next : next s < 65536;
  inv_ctr : forall k x, by_sid s !! k = Some x -> s_uid x < ctr s
}.

Lemma Inv_st0 : Inv st0.
Proof. split; simpl; intros; try lia; rewrite lookup_empty in *; discriminate. Qed.

Lemma Inv_with_next s n : Inv s -> n < 65536 -> Inv (with_next s n).
Proof. intros [A B C D] Hn. split; simpl; auto. Qed.

Lemma Inv_add s x : Inv s -> by_sid s !! s_sid x = None -> 0 < s_sid x < 65536 -> s_uid x = ctr s ->
  Inv (bump_ctr (add_indexes x s)).
Proof.
  intros [A B C D] Hfree Hr Hu. split; simpl.
  - intros k y Hl. destruct (N.eq_dec (s_sid x) k) as [<-|Hne].
    + rewrite lookup_insert in Hl. inversion Hl; subst. auto.
    + rewrite lookup_insert_ne in Hl by exact Hne. auto.
  - intros t y Hl. destruct (decide (s_tup x = t)) as [<-|Hne].
    + rewrite lookup_insert in Hl. inversion Hl; subst. split; [reflexivity | apply lookup_insert].
    + rewrite lookup_insert_ne in Hl by exact Hne. destruct (B _ _ Hl) as [B1 B2]. split; [exact B1|].
      rewrite lookup_insert_ne; [exact B2|]. intros He. rewrite He in Hfree. congruence.
  - exact C.
  - intros k y Hl. destruct (N.eq_dec (s_sid x) k) as [<-|Hne].
    + rewrite lookup_insert in Hl. inversion Hl; subst. lia.
    + rewrite lookup_insert_ne in Hl by exact Hne. specialize (D _ _ Hl). lia.
Qed.

Lemma Inv_remove s k x : Inv s -> by_sid s !! k = Some x -> Inv (remove_indexes x s).
Proof.
  intros [A B C D] Hx. split; simpl.
  - intros k' y Hl. apply lookup_delete_Some in Hl as [_ Hl]. auto.
  - intros t y Hl. apply lookup_delete_Some in Hl as [Hne Hl]. destruct (B _ _ Hl) as [B1 B2].
    split; [exact B1|]. apply lookup_delete_Some. split; [|exact B2].
    intros He. destruct (A _ _ Hx) as [A1 _]. rewrite A1 in He. rewrite <- He, Hx in B2.
    inversion B2; subst. congruence.
  - exact C.
  - intros k' y Hl. apply lookup_delete_Some in Hl as [_ Hl]. eauto.
Qed.

Lemma u16_lt n : u16 n < 65536.
Proof. unfold u16. lia. Qed.

Lemma step_Inv e s o s' r : Inv s -> step Repaired e s o = Some (s', r) -> Inv s'.
Proof.
  intros HI Hs. destruct o as [t|t p|t sid|t sid|sid|sid t|n]; simpl in Hs.
  - destruct (e_grp e t); inversion Hs; subst; exact HI.
  - destruct (parse_tags p) as [tg|?| |]; try discriminate; [|inversion Hs; subst; exact HI].
    destruct (validate _ _ _ _ _); simpl in Hs; [|inversion Hs; subst; exact HI].
    destruct (e_grp e t); simpl in Hs; [|inversion Hs; subst; exact HI].
    destruct (allocate Repaired (by_sid s) (next s)) as [[sid n']|?| |] eqn:Ea; try discriminate.
    apply allocate_sound in Ea; [|apply norm_next_range, HI]. destruct Ea as [Hn' Hsid].
    destruct (N.eqb_spec sid 0) as [->|Hne]; simpl in Hs; inversion Hs; subst.
    + apply Inv_with_next; [exact HI | lia].
    + destruct Hsid as [?|[Hfree Hr]]; [contradiction|].
      apply Inv_add; simpl; auto. apply Inv_with_next; [exact HI | lia].
  - destruct (by_sid s !! sid) as [x|] eqn:El; [|inversion Hs; subst; exact HI].
    destruct (owner_ok Repaired x t); inversion Hs; subst; [|exact HI]. eapply Inv_remove; eauto.
  - destruct (by_sid s !! sid) as [x|] eqn:El; [|inversion Hs; subst; exact HI].
    destruct (owner_ok Repaired x t); inversion Hs; subst; exact HI.
  - destruct (by_sid s !! sid) as [x|] eqn:El; inversion Hs; subst; [|exact HI]. eapply Inv_remove; eauto.
  - unfold sid_used in Hs. destruct (N.eqb_spec sid 0); simpl in Hs; [discriminate|].
    destruct (N.ltb_spec sid 65536); simpl in Hs; [|discriminate].
    destruct (by_sid s !! sid) eqn:El; [discriminate|]. inversion Hs; subst.
    apply Inv_with_next.
    + apply Inv_add; simpl; auto. lia.
    + destruct (N.leb (next s) sid); [apply u16_lt | apply HI].
  - destruct (N.ltb_spec n 65536); inversion Hs; subst. apply Inv_with_next; auto.
Qed.

Lemma run_Inv e : forall ops s s' outs, Inv s -> run Repaired e s ops = Some (s', outs) -> Inv s'.
Proof.
  induction ops as [|o r IH]; simpl; intros s s' outs HI Hr.
  - inversion Hr; subst; exact HI.
  - destruct (step Repaired e s o) as [[s1 x]|] eqn:Es; [|discriminate].
    destruct (run Repaired e s1 r) as [[s2 xs]|] eqn:Er; [|discriminate].
    inversion Hr; subst. eapply IH; [|exact Er]. eapply step_Inv; eauto.
Qed.

Lemma live_in_sid s x : Inv s -> live s x -> by_sid s !! s_sid x = Some x.
Proof.
  intros HI [[k Hk]|[t Ht]].
  - destruct (inv_sid _ HI _ _ Hk) as [-> _]. exact Hk.
  - apply (inv_tup _ HI _ _ Ht).
Qed.

Lemma sid_distinct_nonzero_inv s x y : Inv s -> live s x -> live s y ->
  0 < s_sid x < 65536 /\ (s_sid x = s_sid y -> x = y).
Proof.
  intros HI Hx Hy. apply live_in_sid in Hx; auto. apply live_in_sid in Hy; auto.
  split; [apply (inv_sid _ HI _ _ Hx)|]. intros He. rewrite He in Hx. congruence.
Qed.

Lemma sid_distinct_nonzero e ops s outs x y :
  run Repaired e st0 ops = Some (s, outs) -> live s x -> live s y ->
  0 < s_sid x < 65536 /\ (s_sid x = s_sid y -> x = y).
Proof. intros Hr. apply sid_distinct_nonzero_inv. eapply run_Inv; [apply Inv_st0 | exact Hr]. Qed.

(* ------------------------------------------------------------------ isolation *)
Definition sender (o : op) : option tuple :=
  match o with PADI t | PADR t _ | PADT t _ | SESS t _ => Some t | _ => None end.

Lemma owner_ok_repaired x t : owner_ok Repaired x t = true -> s_tup x = t.
Proof. unfold owner_ok; simpl. apply tuple_eqb_eq. Qed.

Lemma isolation e s o s' r t : Inv s -> sender o = Some t -> step Repaired e s o = Some (s', r) ->
  (forall k x, by_sid s !! k = Some x -> s_tup x <> t -> by_sid s' !! k = Some x) /\
  (forall t', t' <> t -> by_tup s' !! t' = by_tup s !! t') /\
  (forall k x, by_sid s' !! k = Some x -> by_sid s !! k = Some x \/ s_tup x = t) /\
  (forall u, r = OTerm u \/ r = OReach u -> exists x, live s x /\ s_uid x = u /\ s_tup x = t).
Proof.
  intros HI Hsnd Hs.
  assert (Hsame : s' = s -> (forall u, r <> OTerm u /\ r <> OReach u) ->
     (forall k x, by_sid s !! k = Some x -> s_tup x <> t -> by_sid s' !! k = Some x) /\
     (forall t', t' <> t -> by_tup s' !! t' = by_tup s !! t') /\
     (forall k x, by_sid s' !! k = Some x -> by_sid s !! k = Some x \/ s_tup x = t) /\
     (forall u, r = OTerm u \/ r = OReach u -> exists x, live s x /\ s_uid x = u /\ s_tup x = t)).
  { intros -> Hr. repeat split; auto. intros u [Hu|Hu]; exfalso; destruct (Hr u) as [A B]; congruence. }
  destruct o as [t0|t0 p|t0 sid|t0 sid|sid|sid t0|n]; simpl in Hsnd; inversion Hsnd; subst t0; simpl in Hs.
  - destruct (e_grp e t); inversion Hs; subst; apply Hsame; auto; intros u; split; discriminate.
  - destruct (parse_tags p) as [tg|?| |]; try discriminate;
      [|inversion Hs; subst; apply Hsame; auto; intros u; split; discriminate].
    destruct (validate _ _ _ _ _); simpl in Hs; [|inversion Hs; subst; apply Hsame; auto; intros u; split; discriminate].
    destruct (e_grp e t); simpl in Hs; [|inversion Hs; subst; apply Hsame; auto; intros u; split; discriminate].
    destruct (allocate Repaired (by_sid s) (next s)) as [[sid n']|?| |] eqn:Ea; try discriminate.
    apply allocate_sound in Ea; [|apply norm_next_range, HI]. destruct Ea as [Hn' Hsid].
    destruct (N.eqb_spec sid 0) as [->|Hne]; simpl in Hs; inversion Hs; subst; simpl.
    + repeat split; auto. intros u [?|?]; discriminate.
    + destruct Hsid as [?|[Hfree Hr]]; [contradiction|]. repeat split.
      * intros k x Hk _. rewrite lookup_insert_ne; [exact Hk|]. intros <-. congruence.
      * intros t' Hne'. rewrite lookup_insert_ne; auto.
      * intros k x Hk. destruct (N.eq_dec sid k) as [<-|Hnk].
        -- rewrite lookup_insert in Hk. inversion Hk; subst. right; reflexivity.
        -- rewrite lookup_insert_ne in Hk by exact Hnk. left; exact Hk.
      * intros u [?|?]; discriminate.
  - destruct (by_sid s !! sid) as [x|] eqn:El;
      [|inversion Hs; subst; apply Hsame; auto; intros u; split; discriminate].
    destruct (owner_ok Repaired x t) eqn:Eo; inversion Hs; subst;
      [|apply Hsame; auto; intros u; split; discriminate].
    apply owner_ok_repaired in Eo. destruct (inv_sid _ HI _ _ El) as [Hsx _]. simpl. repeat split.
    + intros k y Hk Hy. rewrite lookup_delete_ne; [exact Hk|]. intros <-. rewrite Hsx, El in Hk. congruence.
    + intros t' Hne'. rewrite lookup_delete_ne; congruence.
    + intros k y Hk. apply lookup_delete_Some in Hk as [_ Hk]. left; exact Hk.
    + intros u [Hu|Hu]; inversion Hu; subst. exists x. split; [left; eauto | auto].
  - destruct (by_sid s !! sid) as [x|] eqn:El;
      [|inversion Hs; subst; apply Hsame; auto; intros u; split; discriminate].
    destruct (owner_ok Repaired x t) eqn:Eo; inversion Hs; subst;
      [|apply Hsame; auto; intros u; split; discriminate].
    apply owner_ok_repaired in Eo. repeat split; auto.
    intros u [Hu|Hu]; inversion Hu; subst. exists x. split; [left; eauto | auto].
Qed.

(* ------------------------------------------------------------------ admission *)
Lemma padr_needs_cookie v e s t p s' sid uid : step v e s (PADR t p) = Some (s', OPads sid uid) ->
  exists tg, parse_tags p = Ok tg /\
    validate (e_H e) (e_ttl e) (e_now_ns e) (t_cookie tg) t = true /\ e_grp e t = true.
Proof.
  simpl. destruct (parse_tags p) as [tg|?| |]; try discriminate.
  destruct (validate _ _ _ _ _) eqn:Ev; simpl; [|discriminate].
  destruct (e_grp e t) eqn:Eg; simpl; [|discriminate]. intros _. exists tg. auto.
Qed.

Lemma padr_rejected_no_state v e s t p s' r : step v e s (PADR t p) = Some (s', r) ->
  (forall tg, parse_tags p = Ok tg -> validate (e_H e) (e_ttl e) (e_now_ns e) (t_cookie tg) t = false) ->
  s' = s /\ r = ONone.
Proof.
  simpl. destruct (parse_tags p) as [tg|?| |]; try discriminate.
  - intros Hs Hv. rewrite (Hv tg eq_refl) in Hs. simpl in Hs. inversion Hs; auto.
  - intros Hs _. inversion Hs; auto.
Qed.

(* every session object that becomes live was created by a PADR answered with PADS, or restored *)
Lemma step_new_live v e s o s' r x : step v e s o = Some (s', r) -> live s' x ->
  live s x \/ (exists p, o = PADR (s_tup x) p /\ r = OPads (s_sid x) (s_uid x)) \/ o = RESTORE (s_sid x) (s_tup x).
Proof.
  assert (Hadd : forall y s0, live (bump_ctr (add_indexes y s0)) x -> live s0 x \/ x = y).
  { intros y s0 [[k Hk]|[t Ht]]; simpl in *.
    - destruct (N.eq_dec (s_sid y) k) as [<-|Hne].
      + rewrite lookup_insert in Hk. inversion Hk; auto.
      + rewrite lookup_insert_ne in Hk by exact Hne. left; left; eauto.
    - destruct (decide (s_tup y = t)) as [<-|Hne].
      + rewrite lookup_insert in Ht. inversion Ht; auto.
      + rewrite lookup_insert_ne in Ht by exact Hne. left; right; eauto. }
  assert (Hrem : forall y s0, live (remove_indexes y s0) x -> live s0 x).
  { intros y s0 [[k Hk]|[t Ht]]; simpl in *.
    - apply lookup_delete_Some in Hk as [_ Hk]. left; eauto.
    - apply lookup_delete_Some in Ht as [_ Ht]. right; eauto. }
  intros Hs Hl. destruct o as [t|t p|t sid|t sid|sid|sid t|n]; simpl in Hs.
  - destruct (e_grp e t); inversion Hs; subst; auto.
  - destruct (parse_tags p) as [tg|?| |]; try discriminate; [|inversion Hs; subst; auto].
    destruct (validate _ _ _ _ _); simpl in Hs; [|inversion Hs; subst; auto].
    destruct (e_grp e t); simpl in Hs; [|inversion Hs; subst; auto].
    destruct (allocate v (by_sid s) (next s)) as [[sid n']|?| |]; try discriminate.
    destruct (v_sid_guard v && N.eqb sid 0); inversion Hs; subst; [left; exact Hl|].
    apply Hadd in Hl as [Hl| ->]; [left; exact Hl|]. right; left. exists p. auto.
  - destruct (by_sid s !! sid) as [y|]; [|inversion Hs; subst; auto].
    destruct (owner_ok v y t); inversion Hs; subst; auto. left; eapply Hrem; eauto.
  - destruct (by_sid s !! sid) as [y|]; [|inversion Hs; subst; auto].
    destruct (owner_ok v y t); inversion Hs; subst; auto.
  - destruct (by_sid s !! sid) as [y|]; inversion Hs; subst; auto. left; eapply Hrem; eauto.
  - destruct (_ || _); [discriminate|]. inversion Hs; subst.
    destruct Hl as [[k Hk]|[t' Ht]]; simpl in *.
    + assert (live (bump_ctr (add_indexes {| s_uid := ctr s; s_sid := sid; s_tup := t |} s)) x) as Hl by (left; eauto).
      apply Hadd in Hl as [Hl| ->]; auto.
    + assert (live (bump_ctr (add_indexes {| s_uid := ctr s; s_sid := sid; s_tup := t |} s)) x) as Hl by (right; eauto).
      apply Hadd in Hl as [Hl| ->]; auto.
  - destruct (N.ltb n 65536); inversion Hs; subst. left. exact Hl.
Qed.

(* ------------------------------------------------------------------ allocation inside PADR *)
Lemma padr_creates_when_room e s t p tg : Inv s -> parse_tags p = Ok tg ->
  validate (e_H e) (e_ttl e) (e_now_ns e) (t_cookie tg) t = true -> e_grp e t = true ->
  (exists j, 0 < j < 65536 /\ by_sid s !! j = None) ->
  exists s' sid, step Repaired e s (PADR t p) = Some (s', OPads sid (ctr s)) /\ 0 < sid < 65536 /\
    by_sid s !! sid = None /\ by_sid s' !! sid = Some {| s_uid := ctr s; s_sid := sid; s_tup := t |}.
Proof.
  intros HI Hp Hv Hg (j & Hj & Hfree). simpl. rewrite Hp, Hv, Hg. simpl.
  destruct (allocate_complete Repaired (by_sid s) (next s)) as (sid & n' & Ha & Hc); [apply norm_next_range, HI|].
  rewrite Ha. pose proof Ha as Hsound. apply allocate_sound in Hsound; [|apply norm_next_range, HI].
  destruct Hc as [[Hne Hf]|[-> Hall]]; [|exfalso; eapply Hall; eauto].
  destruct (N.eqb_spec sid 0); [contradiction|]. simpl.
  destruct Hsound as [_ [?|[_ Hr]]]; [contradiction|].
  eexists _, sid. split; [reflexivity|]. split; [exact Hr|]. split; [exact Hf|]. simpl. apply lookup_insert.
Qed.

Lemma padr_full_repaired e s t p s' r : Inv s -> (forall j, 0 < j < 65536 -> by_sid s !! j <> None) ->
  step Repaired e s (PADR t p) = Some (s', r) -> r = ONone /\ by_sid s' = by_sid s /\ by_tup s' = by_tup s.
Proof.
  intros HI Hall. simpl. destruct (parse_tags p) as [tg|?| |]; try discriminate; [|intros Hs; inversion Hs; auto].
  destruct (validate _ _ _ _ _); simpl; [|intros Hs; inversion Hs; auto].
  destruct (e_grp e t); simpl; [|intros Hs; inversion Hs; auto].
  destruct (allocate Repaired (by_sid s) (next s)) as [[sid n']|?| |] eqn:Ea; try discriminate.
  apply allocate_sound in Ea; [|apply norm_next_range, HI]. destruct Ea as [_ [->|[Hf Hr]]].
  - simpl. intros Hs; inversion Hs; auto.
  - exfalso. eapply Hall; eauto.
Qed.

(* the code as found: with all 65535 ids in use a valid PADR is answered with session-id 0 *)
Lemma padr_full_defective e s t p tg : 0 < next s < 65536 -> (forall j, 0 < j < 65536 -> by_sid s !! j <> None) ->
  parse_tags p = Ok tg -> validate (e_H e) (e_ttl e) (e_now_ns e) (t_cookie tg) t = true -> e_grp e t = true ->
  exists s', step Defective e s (PADR t p) = Some (s', OPads 0 (ctr s)) /\
    by_sid s' !! 0 = Some {| s_uid := ctr s; s_sid := 0; s_tup := t |}.
Proof.
  intros Hn Hall Hp Hv Hg. simpl. rewrite Hp, Hv, Hg. simpl.
  destruct (allocate_complete Defective (by_sid s) (next s)) as (sid & n' & Ha & Hc); [exact Hn|].
  rewrite Ha. destruct Hc as [[Hne Hf]|[-> _]].
  - apply allocate_sound in Ha; [|exact Hn]. destruct Ha as [_ [?|[_ Hr]]]; [contradiction|]. exfalso. eapply Hall; eauto.
  - eexists. split; [reflexivity|]. simpl. apply lookup_insert.
Qed.

(* ------------------------------------------------------------------ tags *)
Lemma parse_tags_loop_fuel : forall fuel p acc, (length p < fuel)%nat -> parse_tags_loop fuel p acc <> OutOfFuel.
Proof.
  induction fuel as [|f IH]; intros p acc Hl; [lia|].
  destruct p as [|a [|b [|c [|d rest]]]]; try discriminate.
  cbn [parse_tags_loop]. destruct (N.eqb _ 0); [discriminate|].
  destruct (_ <? _)%nat; [discriminate|]. destruct (tag_update _ _ _); [|discriminate].
  apply IH. rewrite skipn_length. simpl in Hl. lia.
Qed.

Lemma parse_tags_terminates p : parse_tags p <> OutOfFuel /\ parse_tags p <> Base.Panic.
Proof.
  split; [apply parse_tags_loop_fuel; lia|]. unfold parse_tags. generalize (S (length p)) tags0.
  intros fuel; revert p. induction fuel as [|f IH]; intros p acc; [discriminate|].
  destruct p as [|a [|b [|c [|d rest]]]]; try discriminate.
  cbn [parse_tags_loop]. destruct (N.eqb _ 0); [discriminate|].
  destruct (_ <? _)%nat; [discriminate|]. destruct (tag_update _ _ _); [|discriminate]. apply IH.
Qed.

Lemma be16_hi_lo n : n < 65536 -> be16 (hi8 n) (lo8 n) = n.
Proof. unfold Base.be16, hi8, lo8, Base.byte_of. lia. Qed.

Lemma parse_cookie_tag c : (N.of_nat (length c) < 65536) ->
  parse_tags (add_tag TagACCookie c) =
  Ok {| t_cookie := c; t_hostuniq := []; t_maxpayload := 0; t_nraw := 1 |}.
Proof.
  intros Hl. unfold parse_tags, add_tag.
  change ([hi8 TagACCookie; lo8 TagACCookie] ++ [hi8 (N.of_nat (length c)); lo8 (N.of_nat (length c))] ++ c)
    with (hi8 TagACCookie :: lo8 TagACCookie :: hi8 (N.of_nat (length c)) :: lo8 (N.of_nat (length c)) :: c).
  cbn [length parse_tags_loop]. rewrite (be16_hi_lo _ Hl), Nat2N.id.
  change (be16 (hi8 TagACCookie) (lo8 TagACCookie)) with 260.
  change (N.eqb 260 0) with false. cbv iota.
  rewrite Nat.ltb_irrefl, firstn_all, skipn_all.
  change (tag_update tags0 260 c) with (Some {| t_cookie := c; t_hostuniq := []; t_maxpayload := 0; t_nraw := 1 |}).
  reflexivity.
Qed.

Lemma generate_length H now t : (forall d, length (H d) = 32%nat) -> length (generate H now t) = 36%nat.
Proof.
  intros Hlen. pose proof (generate_shape H now t Hlen) as Hg. destruct t as [[mac sv] cv].
  rewrite Hg, app_length, Hlen. reflexivity.
Qed.

(* the cookie of a PADO, echoed in a PADR by the same tuple within the lifetime, is admitted *)
Lemma padi_padr_roundtrip v e s t s' c : (forall d, length (e_H e d) = 32%nat) ->
  step v e s (PADI t) = Some (s', OPado c) ->
  (e_now_ns e - Z.of_N (e_now_s e mod two32) * ns_per_s <= e_ttl e)%Z ->
  exists tg, parse_tags (add_tag TagACCookie c) = Ok tg /\
    validate (e_H e) (e_ttl e) (e_now_ns e) (t_cookie tg) t = true.
Proof.
  intros Hlen Hs Hfresh. simpl in Hs. destruct (e_grp e t); inversion Hs; subst.
  eexists. split.
  - apply parse_cookie_tag. rewrite generate_length by exact Hlen. reflexivity.
  - simpl. apply cookie_roundtrip; assumption.
Qed.

(* ------------------------------------------------------------------ witnesses against the code as found *)
Definition toyH (d : bytes) : bytes := firstn 32 (d ++ repeat 0 32).
Definition env0 : env :=
  {| e_H := toyH; e_ttl := 60000000000; e_now_s := 1000; e_now_ns := 1000500000000; e_grp := fun _ => true |}.
Definition tA : tuple := ([2; 0; 0; 170; 0; 1], 100, 10).
Definition tB : tuple := ([2; 0; 0; 187; 0; 2], 100, 10).
Definition padr_of (t : tuple) : op := PADR t (add_tag TagACCookie (generate toyH 1000 t)).

Lemma tA_ne_tB : tA <> tB.
Proof. discriminate. Qed.

Lemma isolation_padt_refuted : exists e ops s outs x s' r,
  run Repaired e st0 ops = Some (s, outs) /\ by_sid s !! 1 = Some x /\ s_tup x = tA /\ tA <> tB /\
  step Defective e s (PADT tB 1) = Some (s', r) /\ r = OTerm (s_uid x) /\ by_sid s' !! 1 = None.
Proof.
  exists env0, [padr_of tA]. do 5 eexists.
  split; [vm_compute; reflexivity|]. split; [vm_compute; reflexivity|]. split; [reflexivity|].
  split; [exact tA_ne_tB|]. split; [vm_compute; reflexivity|]. split; vm_compute; reflexivity.
Qed.

Lemma isolation_sess_refuted : exists e ops s outs x s' r,
  run Repaired e st0 ops = Some (s, outs) /\ by_sid s !! 1 = Some x /\ s_tup x = tA /\ tA <> tB /\
  step Defective e s (SESS tB 1) = Some (s', r) /\ r = OReach (s_uid x).
Proof.
  exists env0, [padr_of tA]. do 5 eexists.
  split; [vm_compute; reflexivity|]. split; [vm_compute; reflexivity|]. split; [reflexivity|].
  split; [exact tA_ne_tB|]. split; vm_compute; reflexivity.
Qed.

(* restoring id 0xFFFF overflows the counter to 0; the next PADR gets session-id 0 *)
Lemma sid_nonzero_refuted : exists e ops s outs x,
  run Defective e st0 ops = Some (s, outs) /\ live s x /\ s_sid x = 0 /\
  outs = [ORestored 0; OPads 0 1].
Proof.
  exists env0, [RESTORE 65535 tA; padr_of tB]. do 3 eexists.
  split; [vm_compute; reflexivity|]. split; [left; exists 0; vm_compute; reflexivity|].
  split; reflexivity.
Qed.

(* the same history under the repaired behaviour: id 1 *)
Example sid_after_restore_repaired :
  match run Repaired env0 st0 [RESTORE 65535 tA; padr_of tB] with
  | Some (_, outs) => outs = [ORestored 0; OPads 1 1] | None => False end.
Proof. vm_compute. reflexivity. Qed.

(* ------------------------------------------------------------------ composites *)
(* a PADS is sent / a session created only for a cookie this BNG issued for the same tuple
   within its lifetime (under the unforgeability premise on the HMAC) *)
Lemma admission v e s t p s' sid uid issued :
  (* H_mac_unforgeable, for the one tag this PADR presents: if the first 32 bytes of its AC-Cookie are
     H of some message, that message is one Generate has MACed *)
  (forall tg d, parse_tags p = Ok tg -> firstn 32 (t_cookie tg) = e_H e d -> In d (map enc_issue issued)) ->
  Forall wf_issue issued -> wf_tuple t ->
  step v e s (PADR t p) = Some (s', OPads sid uid) ->
  exists ts, In (t, ts) issued /\ (e_now_ns e - Z.of_N ts * ns_per_s <= e_ttl e)%Z.
Proof.
  intros Hunf Hwf Hwt Hs. apply padr_needs_cookie in Hs as (tg & Hp & Hv & _).
  eapply cookie_sound in Hv; eauto. destruct Hv as (ts & Hin & Hfresh & _). eauto.
Qed.

(* over histories: while only other hosts send packets, a session stays exactly where it is *)
Lemma isolation_run e t0 : forall ops s s' outs k x,
  Inv s -> by_sid s !! k = Some x -> s_tup x = t0 ->
  Forall (fun o => exists t, sender o = Some t /\ t <> t0) ops ->
  run Repaired e s ops = Some (s', outs) ->
  by_sid s' !! k = Some x /\ by_tup s' !! t0 = by_tup s !! t0.
Proof.
  induction ops as [|o r IH]; simpl; intros s s' outs k x HI Hk Ht Hall Hr.
  - inversion Hr; subst. auto.
  - destruct (step Repaired e s o) as [[s1 y]|] eqn:Es; [|discriminate].
    destruct (run Repaired e s1 r) as [[s2 ys]|] eqn:Er; [|discriminate]. inversion Hr; subst.
    inversion Hall as [|? ? (t & Hsnd & Hne) Hall']; subst.
    destruct (isolation _ _ _ _ _ _ HI Hsnd Es) as (I1 & I2 & _ & _).
    assert (HI1 : Inv s1) by (eapply step_Inv; eauto).
    assert (Hk1 : by_sid s1 !! k = Some x) by (apply I1; [exact Hk | congruence]).
    destruct (IH s1 s' ys k x HI1 Hk1 eq_refl Hall' Er) as [R1 R2].
    split; [exact R1|]. rewrite R2. apply I2. congruence.
Qed.

(* a concrete HMAC stand-in for which the unforgeability premise holds, for non-vacuity *)
Definition oneH (d : bytes) : bytes :=
  if bytes_eqb d (enc_gen [2; 0; 0; 170; 0; 1] 100 10 1000) then repeat 1 32 else repeat 0 32.

Lemma cookie_sound_nonvacuous :
  let c := generate oneH 1000 tA in
  (forall d, firstn 32 c = oneH d -> In d (map enc_issue [(tA, 1000)])) /\
  Forall wf_issue [(tA, 1000)] /\ wf_tuple tA /\
  validate oneH 60000000000 1000500000000 c tA = true /\
  validate oneH 60000000000 1061500000000 c tA = false /\
  validate oneH 60000000000 1000500000000 c tB = false.
Proof.
  split.
  - intros d Hd. change (firstn 32 (generate oneH 1000 tA)) with (repeat 1 32) in Hd.
    unfold oneH in Hd. destruct (bytes_eqb d _) eqn:E.
    + apply bytes_eqb_eq in E. left. symmetry. exact E.
    + discriminate Hd.
  - split; [repeat constructor; simpl; unfold two32; lia|].
    split; [simpl; lia|]. repeat split; vm_compute; reflexivity.
Qed.

Example history_nonvacuous :
  match run Repaired env0 st0 [PADI tA; padr_of tA; padr_of tB; PADT tB 1; SESS tB 1; SESS tA 1; PADT tA 1; PADT tA 1] with
  | Some (s, [OPado _; OPads 1 0; OPads 2 1; ONone; ONone; OReach 0; OTerm 0; ONone]) =>
      by_sid s !! 1 = None /\ (exists x, by_sid s !! 2 = Some x /\ s_tup x = tB)
  | _ => False
  end.
Proof. vm_compute. split; [reflexivity | eexists; split; reflexivity]. Qed.

(* ------------------------------------------------------------------ Validate is history-independent *)
Lemma cm_run_ttl H : forall ops ttl, fst (cm_run H ttl ops) = ttl_after ttl ops.
Proof.
  induction ops as [|o r IH]; intros ttl; [reflexivity|].
  destruct o as [n t|n c t|n]; cbn [cm_run cm_step ttl_after fold_left].
  - specialize (IH ttl). destruct (cm_run H ttl r) as [t2 xs]. exact IH.
  - specialize (IH ttl). destruct (cm_run H ttl r) as [t2 xs]. exact IH.
  - specialize (IH n). destruct (cm_run H n r) as [t2 xs]. exact IH.
Qed.

Lemma cm_run_app H : forall pre ttl post,
  cm_run H ttl (pre ++ post) =
  let '(t1, xs) := cm_run H ttl pre in let '(t2, ys) := cm_run H t1 post in (t2, xs ++ ys).
Proof.
  induction pre as [|o r IH]; intros ttl post; simpl.
  - destruct (cm_run H ttl post); reflexivity.
  - destruct (cm_step H ttl o) as [t1 x]. rewrite IH. destruct (cm_run H t1 r) as [t2 xs].
    destruct (cm_run H t2 post); reflexivity.
Qed.

(* the verdict on (now, cookie, tuple) after ANY history of earlier Generate / Validate / lifetime changes
   is validate under the lifetime in effect: earlier validations (accepted or not) never change it *)
Lemma validate_history_independent H ttl pre now c t :
  snd (cm_run H ttl (pre ++ [CVal now c t])) =
  snd (cm_run H ttl pre) ++ [CVerdict (validate H (ttl_after ttl pre) now c t)].
Proof.
  rewrite cm_run_app. pose proof (cm_run_ttl H pre ttl) as Ht.
  destruct (cm_run H ttl pre) as [t1 xs]. simpl in *. subst t1. reflexivity.
Qed.

(* in particular: accepted while fresh, replayed after expiry => rejected, whatever happened in between *)
Lemma expired_replay_rejected H ttl pre now c mac sv cv a b c4 d :
  skipn 32 c = [a; b; c4; d] -> (ttl_after ttl pre < now - Z.of_N (be32 a b c4 d) * ns_per_s)%Z ->
  snd (cm_run H ttl (pre ++ [CVal now c (mac, sv, cv)])) = snd (cm_run H ttl pre) ++ [CVerdict false].
Proof.
  intros Hs Hlt. rewrite validate_history_independent. erewrite validate_expired; eauto.
Qed.

(* PADR level: in ANY table state (any earlier history, including this very PADR having been answered
   before), a PADR whose cookie has outlived the lifetime creates nothing *)
Lemma padr_expired_no_state v e s t p tg a b c4 d s' r :
  parse_tags p = Ok tg -> skipn 32 (t_cookie tg) = [a; b; c4; d] ->
  (e_ttl e < e_now_ns e - Z.of_N (be32 a b c4 d) * ns_per_s)%Z ->
  step v e s (PADR t p) = Some (s', r) -> s' = s /\ r = ONone.
Proof.
  intros Hp Hs Hlt Hst. eapply padr_rejected_no_state; [exact Hst|].
  intros tg' Hp'. rewrite Hp in Hp'. inversion Hp'; subst tg'. destruct t as [[mac sv] cv].
  eapply validate_expired; eauto.
Qed.

Example history_independence_nonvacuous :
  let c := generate oneH 1000 tA in
  snd (cm_run oneH 60000000000 [CGen 1000 tA; CVal 1000500000000 c tA; CVal 1000500000000 c tA;
                                CVal 1061500000000 c tA; CSetTTL 0; CVal 1000500000000 c tA]) =
  [CCookie c; CVerdict true; CVerdict true; CVerdict false; CNone; CVerdict false].
Proof. vm_compute. reflexivity. Qed.

(* admission is not vacuous: with oneH the premise holds for the presented PADR (and only because the
   one message whose tag it carries was issued), the PADR is answered, and the conclusion names the issue *)
Definition envOne : env :=
  {| e_H := oneH; e_ttl := 60000000000; e_now_s := 1000; e_now_ns := 1000500000000; e_grp := fun _ => true |}.
Definition padrOne : bytes := add_tag TagACCookie (generate oneH 1000 tA).

Lemma admission_nonvacuous :
  (forall tg d, parse_tags padrOne = Ok tg -> firstn 32 (t_cookie tg) = oneH d -> In d (map enc_issue [(tA, 1000)])) /\
  Forall wf_issue [(tA, 1000)] /\ wf_tuple tA /\
  (exists s', step Repaired envOne st0 (PADR tA padrOne) = Some (s', OPads 1 0)) /\
  (* the premise is not "everything is issued": other messages have a different tag *)
  oneH (enc_issue (tB, 1000)) <> firstn 32 (generate oneH 1000 tA) /\
  (* and the same PADR from another tuple is refused *)
  (exists s', step Repaired envOne st0 (PADR tB padrOne) = Some (s', ONone)).
Proof.
  split.
  - intros tg d Hp Hd.
    assert (Ht : parse_tags padrOne = Ok {| t_cookie := generate oneH 1000 tA; t_hostuniq := []; t_maxpayload := 0; t_nraw := 1 |})
      by (vm_compute; reflexivity).
    rewrite Ht in Hp. inversion Hp; subst tg. simpl t_cookie in Hd.
    change (firstn 32 (generate oneH 1000 tA)) with (repeat 1 32) in Hd.
    unfold oneH in Hd. destruct (bytes_eqb d _) eqn:E.
    + apply bytes_eqb_eq in E. left. symmetry. exact E.
    + discriminate Hd.
  - split; [repeat constructor; simpl; unfold two32; lia|]. split; [simpl; lia|].
    split; [eexists; vm_compute; reflexivity|]. split; [vm_compute; discriminate|].
    eexists; vm_compute; reflexivity.
Qed.
