From Coq Require Import List ZArith NArith Bool Lia Arith.
From OV Require Import C04.Model.
