(* C04/Properties.v — the property theorems only.  Each is closed by [exact] of a lemma from
   Proofs.v and followed by Print Assumptions.

   H   : HMAC-SHA256 under the BNG's secret, an arbitrary function argument
   e   : environment of a run (H, cookie lifetime, wall clock, subscriber-group matcher)
   Repaired / Defective : model variants; Repaired has the two repairs of fixes/C04_*.patch,
   Defective is the code as found. *)
From Coq Require Import List ZArith NArith Bool Lia Arith.
From stdpp Require Import gmap nmap.
From OV Require Import C04.Model C04.Proofs.
Import ListNotations.
Local Open Scope N_scope.

(* ---------------------------------------------------------------- cookie *)
(* Generate and Validate lay the MACed message out identically *)
Theorem C04_enc_agree : forall mac sv cv ts, enc_val mac sv cv (put32 ts) = enc_gen mac sv cv ts.
Proof. exact enc_agree. Qed.
Print Assumptions C04_enc_agree.

(* the MACed message determines MAC (of any length), both VLAN tags and the timestamp *)
Theorem C04_enc_injective : forall m1 s1 c1 t1 m2 s2 c2 t2,
  s1 < 65536 -> c1 < 65536 -> t1 < two32 -> s2 < 65536 -> c2 < 65536 -> t2 < two32 ->
  enc_gen m1 s1 c1 t1 = enc_gen m2 s2 c2 t2 -> m1 = m2 /\ s1 = s2 /\ c1 = c2 /\ t1 = t2.
Proof. exact enc_gen_injective. Qed.
Print Assumptions C04_enc_injective.

(* a cookie generated at second now_s verifies for its own tuple exactly while it is younger
   than the lifetime (timestamps are u32 seconds) *)
Theorem C04_cookie_roundtrip : forall H ttl now_ns now_s t, (forall d, length (H d) = 32%nat) ->
  validate H ttl now_ns (generate H now_s t) t = true <->
  (now_ns - Z.of_N (now_s mod two32) * ns_per_s <= ttl)%Z.
Proof. exact cookie_roundtrip. Qed.
Print Assumptions C04_cookie_roundtrip.

(* what Validate checks, exactly, with no premise at all: the cookie is tag(32) | timestamp(4), the tag is
   H of (mac | svlan | cvlan | those timestamp bytes), and the timestamp is within the lifetime *)
Theorem C04_validate_accepts_iff : forall H ttl now c mac sv cv, validate H ttl now c (mac, sv, cv) = true <->
  exists sig a b c4 d, c = sig ++ [a; b; c4; d] /\ length sig = 32%nat /\
    sig = H (enc_val mac sv cv [a; b; c4; d]) /\ (now - Z.of_N (be32 a b c4 d) * ns_per_s <= ttl)%Z.
Proof. exact validate_accepts_iff. Qed.
Print Assumptions C04_validate_accepts_iff.

(* soundness under H_mac_unforgeable (first premise): an accepted cookie is one this BNG issued
   for the same MAC and VLAN tags, and it is within its lifetime *)
Theorem C04_cookie_sound : forall H ttl now c t issued,
  (forall d, firstn 32 c = H d -> In d (map enc_issue issued)) ->
  Forall wf_issue issued -> wf_tuple t ->
  validate H ttl now c t = true ->
  exists ts, In (t, ts) issued /\ (now - Z.of_N ts * ns_per_s <= ttl)%Z /\ skipn 32 c = put32 ts.
Proof. exact cookie_sound. Qed.
Print Assumptions C04_cookie_sound.

Example C04_cookie_sound_nonvacuous :
  let c := generate oneH 1000 tA in
  (forall d, firstn 32 c = oneH d -> In d (map enc_issue [(tA, 1000)])) /\
  Forall wf_issue [(tA, 1000)] /\ wf_tuple tA /\
  validate oneH 60000000000 1000500000000 c tA = true /\
  validate oneH 60000000000 1061500000000 c tA = false /\
  validate oneH 60000000000 1000500000000 c tB = false.
Proof. exact cookie_sound_nonvacuous. Qed.
Print Assumptions C04_cookie_sound_nonvacuous.

(* wrong length (all 36 truncations, any extension) is rejected, whatever H is *)
Theorem C04_cookie_wrong_length : forall H ttl now c t, validate H ttl now c t = true -> length c = 36%nat.
Proof. exact validate_length. Qed.
Print Assumptions C04_cookie_wrong_length.

(* an expired timestamp is rejected before the HMAC is even looked at *)
Theorem C04_cookie_expired : forall H ttl now c mac sv cv a b c4 d, skipn 32 c = [a; b; c4; d] ->
  (ttl < now - Z.of_N (be32 a b c4 d) * ns_per_s)%Z -> validate H ttl now c (mac, sv, cv) = false.
Proof. exact validate_expired. Qed.
Print Assumptions C04_cookie_expired.

(* on one CookieManager, after ANY history of earlier Generate / Validate calls and lifetime changes, the
   verdict on (now, cookie, tuple) is [validate] under the lifetime in effect: earlier validations, accepted
   or not, never change it (a verdict cache that does is a correspondence mismatch) *)
Theorem C04_validate_history_independent : forall H ttl pre now c t,
  snd (cm_run H ttl (pre ++ [CVal now c t])) =
  snd (cm_run H ttl pre) ++ [CVerdict (validate H (ttl_after ttl pre) now c t)].
Proof. exact validate_history_independent. Qed.
Print Assumptions C04_validate_history_independent.

(* accepted while fresh, replayed after expiry: rejected, whatever was validated in between *)
Theorem C04_expired_replay_rejected : forall H ttl pre now c mac sv cv a b c4 d,
  skipn 32 c = [a; b; c4; d] -> (ttl_after ttl pre < now - Z.of_N (be32 a b c4 d) * ns_per_s)%Z ->
  snd (cm_run H ttl (pre ++ [CVal now c (mac, sv, cv)])) = snd (cm_run H ttl pre) ++ [CVerdict false].
Proof. exact expired_replay_rejected. Qed.
Print Assumptions C04_expired_replay_rejected.

Example C04_history_independence_nonvacuous :
  let c := generate oneH 1000 tA in
  snd (cm_run oneH 60000000000 [CGen 1000 tA; CVal 1000500000000 c tA; CVal 1000500000000 c tA;
                                CVal 1061500000000 c tA; CSetTTL 0; CVal 1000500000000 c tA]) =
  [CCookie c; CVerdict true; CVerdict true; CVerdict false; CNone; CVerdict false].
Proof. exact history_independence_nonvacuous. Qed.
Print Assumptions C04_history_independence_nonvacuous.

(* ---------------------------------------------------------------- tags *)
Theorem C04_parse_tags_terminates : forall p, parse_tags p <> OutOfFuel /\ parse_tags p <> Base.Panic.
Proof. exact parse_tags_terminates. Qed.
Print Assumptions C04_parse_tags_terminates.

(* PADI -> PADO cookie -> PADR by the same tuple within the lifetime is admitted *)
Theorem C04_padi_padr_roundtrip : forall v e s t s' c, (forall d, length (e_H e d) = 32%nat) ->
  step v e s (PADI t) = Some (s', OPado c) ->
  (e_now_ns e - Z.of_N (e_now_s e mod two32) * ns_per_s <= e_ttl e)%Z ->
  exists tg, parse_tags (add_tag TagACCookie c) = Ok tg /\
    validate (e_H e) (e_ttl e) (e_now_ns e) (t_cookie tg) t = true.
Proof. exact padi_padr_roundtrip. Qed.
Print Assumptions C04_padi_padr_roundtrip.

(* ---------------------------------------------------------------- admission *)
(* a PADS / a new session only for a PADR whose AC-Cookie validates for the sender's tuple
   (every variant, i.e. also the code as found) *)
Theorem C04_padr_needs_cookie : forall v e s t p s' sid uid,
  step v e s (PADR t p) = Some (s', OPads sid uid) ->
  exists tg, parse_tags p = Ok tg /\
    validate (e_H e) (e_ttl e) (e_now_ns e) (t_cookie tg) t = true /\ e_grp e t = true.
Proof. exact padr_needs_cookie. Qed.
Print Assumptions C04_padr_needs_cookie.

(* ... and a PADR without such a cookie changes nothing at all *)
Theorem C04_padr_rejected_no_state : forall v e s t p s' r, step v e s (PADR t p) = Some (s', r) ->
  (forall tg, parse_tags p = Ok tg -> validate (e_H e) (e_ttl e) (e_now_ns e) (t_cookie tg) t = false) ->
  s' = s /\ r = ONone.
Proof. exact padr_rejected_no_state. Qed.
Print Assumptions C04_padr_rejected_no_state.

(* in ANY table state (any earlier history, this very PADR already answered or not) a PADR whose cookie
   has outlived the lifetime creates nothing, in every variant *)
Theorem C04_padr_expired_no_state : forall v e s t p tg a b c4 d s' r,
  parse_tags p = Ok tg -> skipn 32 (t_cookie tg) = [a; b; c4; d] ->
  (e_ttl e < e_now_ns e - Z.of_N (be32 a b c4 d) * ns_per_s)%Z ->
  step v e s (PADR t p) = Some (s', r) -> s' = s /\ r = ONone.
Proof. exact padr_expired_no_state. Qed.
Print Assumptions C04_padr_expired_no_state.

(* composite: a session is created only for a cookie this BNG issued, within its lifetime, for the same MAC
   address and VLAN tags.  Premise 1 is H_mac_unforgeable for the ONE tag this PADR presents (the first 32
   bytes of the AC-Cookie ParseTags extracts from it): if that tag is H of some message, the message is one
   Generate has MACed.  Nothing is assumed about other byte strings. *)
Theorem C04_admission : forall v e s t p s' sid uid issued,
  (forall tg d, parse_tags p = Ok tg -> firstn 32 (t_cookie tg) = e_H e d -> In d (map enc_issue issued)) ->
  Forall wf_issue issued -> wf_tuple t ->
  step v e s (PADR t p) = Some (s', OPads sid uid) ->
  exists ts, In (t, ts) issued /\ (e_now_ns e - Z.of_N ts * ns_per_s <= e_ttl e)%Z.
Proof. exact admission. Qed.
Print Assumptions C04_admission.

Example C04_admission_nonvacuous :
  (forall tg d, parse_tags padrOne = Ok tg -> firstn 32 (t_cookie tg) = oneH d -> In d (map enc_issue [(tA, 1000)])) /\
  Forall wf_issue [(tA, 1000)] /\ wf_tuple tA /\
  (exists s', step Repaired envOne st0 (PADR tA padrOne) = Some (s', OPads 1 0)) /\
  oneH (enc_issue (tB, 1000)) <> firstn 32 (generate oneH 1000 tA) /\
  (exists s', step Repaired envOne st0 (PADR tB padrOne) = Some (s', ONone)).
Proof. exact admission_nonvacuous. Qed.
Print Assumptions C04_admission_nonvacuous.

(* every session object that becomes live comes from an answered PADR or from a restore *)
Theorem C04_sessions_only_from_padr : forall v e s o s' r x, step v e s o = Some (s', r) -> live s' x ->
  live s x \/ (exists p, o = PADR (s_tup x) p /\ r = OPads (s_sid x) (s_uid x)) \/ o = RESTORE (s_sid x) (s_tup x).
Proof. exact step_new_live. Qed.
Print Assumptions C04_sessions_only_from_padr.

(* ---------------------------------------------------------------- session ids *)
(* after any history (any packets, restores of fresh non-zero ids, any counter position, any
   number of long-lived sessions, across the 16-bit wrap) live sessions have pairwise
   distinct, non-zero ids *)
Theorem C04_sid_distinct_nonzero : forall e ops s outs x y,
  run Repaired e st0 ops = Some (s, outs) -> live s x -> live s y ->
  0 < s_sid x < 65536 /\ (s_sid x = s_sid y -> x = y).
Proof. exact sid_distinct_nonzero. Qed.
Print Assumptions C04_sid_distinct_nonzero.

(* the invariant behind it is inductive from any table that satisfies it *)
Theorem C04_table_invariant : forall e s o s' r, Inv s -> step Repaired e s o = Some (s', r) -> Inv s'.
Proof. exact step_Inv. Qed.
Print Assumptions C04_table_invariant.

(* not by never allocating: while one of the 65535 ids is free a valid PADR gets a free,
   non-zero one, wherever the counter stands (the scan never runs out of fuel) *)
Theorem C04_sid_alloc_complete : forall e s t p tg, Inv s -> parse_tags p = Ok tg ->
  validate (e_H e) (e_ttl e) (e_now_ns e) (t_cookie tg) t = true -> e_grp e t = true ->
  (exists j, 0 < j < 65536 /\ by_sid s !! j = None) ->
  exists s' sid, step Repaired e s (PADR t p) = Some (s', OPads sid (ctr s)) /\ 0 < sid < 65536 /\
    by_sid s !! sid = None /\ by_sid s' !! sid = Some {| s_uid := ctr s; s_sid := sid; s_tup := t |}.
Proof. exact padr_creates_when_room. Qed.
Print Assumptions C04_sid_alloc_complete.

(* id space full: no session, indexes untouched (repaired) *)
Theorem C04_sid_full : forall e s t p s' r, Inv s -> (forall j, 0 < j < 65536 -> by_sid s !! j <> None) ->
  step Repaired e s (PADR t p) = Some (s', r) -> r = ONone /\ by_sid s' = by_sid s /\ by_tup s' = by_tup s.
Proof. exact padr_full_repaired. Qed.
Print Assumptions C04_sid_full.

(* id space full, code as found: the PADR is answered with session-id 0 *)
Theorem C04_sid_full_refuted : forall e s t p tg, 0 < next s < 65536 ->
  (forall j, 0 < j < 65536 -> by_sid s !! j <> None) ->
  parse_tags p = Ok tg -> validate (e_H e) (e_ttl e) (e_now_ns e) (t_cookie tg) t = true -> e_grp e t = true ->
  exists s', step Defective e s (PADR t p) = Some (s', OPads 0 (ctr s)) /\
    by_sid s' !! 0 = Some {| s_uid := ctr s; s_sid := 0; s_tup := t |}.
Proof. exact padr_full_defective. Qed.
Print Assumptions C04_sid_full_refuted.

(* code as found: restore of id 0xFFFF, then a PADR: a live session with id 0 *)
Theorem C04_sid_nonzero_refuted : exists e ops s outs x,
  run Defective e st0 ops = Some (s, outs) /\ live s x /\ s_sid x = 0 /\ outs = [ORestored 0; OPads 0 1].
Proof. exact sid_nonzero_refuted. Qed.
Print Assumptions C04_sid_nonzero_refuted.

(* ---------------------------------------------------------------- isolation *)
(* a packet from tuple t (PADI, PADR, PADT, session-stage) leaves every session of another
   tuple where it is in both indexes, creates sessions for t only, and the session it
   terminates or reaches (if any) belongs to t *)
Theorem C04_isolation : forall e s o s' r t, Inv s -> sender o = Some t -> step Repaired e s o = Some (s', r) ->
  (forall k x, by_sid s !! k = Some x -> s_tup x <> t -> by_sid s' !! k = Some x) /\
  (forall t', t' <> t -> by_tup s' !! t' = by_tup s !! t') /\
  (forall k x, by_sid s' !! k = Some x -> by_sid s !! k = Some x \/ s_tup x = t) /\
  (forall u, r = OTerm u \/ r = OReach u -> exists x, live s x /\ s_uid x = u /\ s_tup x = t).
Proof. exact isolation. Qed.
Print Assumptions C04_isolation.

(* over histories: whatever other hosts send, in any order, a session stays in place *)
Theorem C04_isolation_history : forall e t0 ops s s' outs k x,
  Inv s -> by_sid s !! k = Some x -> s_tup x = t0 ->
  Forall (fun o => exists t, sender o = Some t /\ t <> t0) ops ->
  run Repaired e s ops = Some (s', outs) ->
  by_sid s' !! k = Some x /\ by_tup s' !! t0 = by_tup s !! t0.
Proof. exact isolation_run. Qed.
Print Assumptions C04_isolation_history.

(* code as found: host B's PADT with A's session-id terminates A's session ... *)
Theorem C04_isolation_padt_refuted : exists e ops s outs x s' r,
  run Repaired e st0 ops = Some (s, outs) /\ by_sid s !! 1 = Some x /\ s_tup x = tA /\ tA <> tB /\
  step Defective e s (PADT tB 1) = Some (s', r) /\ r = OTerm (s_uid x) /\ by_sid s' !! 1 = None.
Proof. exact isolation_padt_refuted. Qed.
Print Assumptions C04_isolation_padt_refuted.

(* ... and B's session-stage frame is fed to A's PPP state machines *)
Theorem C04_isolation_sess_refuted : exists e ops s outs x s' r,
  run Repaired e st0 ops = Some (s, outs) /\ by_sid s !! 1 = Some x /\ s_tup x = tA /\ tA <> tB /\
  step Defective e s (SESS tB 1) = Some (s', r) /\ r = OReach (s_uid x).
Proof. exact isolation_sess_refuted. Qed.
Print Assumptions C04_isolation_sess_refuted.

(* non-vacuity: a concrete history (PADI, two admitted PADRs, B's PADT and frame on A's id
   refused, A's own frame reaches, A's own PADT terminates, a second PADT finds nothing) *)
Example C04_history_nonvacuous :
  match run Repaired env0 st0 [PADI tA; padr_of tA; padr_of tB; PADT tB 1; SESS tB 1; SESS tA 1; PADT tA 1; PADT tA 1] with
  | Some (s, [OPado _; OPads 1 0; OPads 2 1; ONone; ONone; OReach 0; OTerm 0; ONone]) =>
      by_sid s !! 1 = None /\ (exists x, by_sid s !! 2 = Some x /\ s_tup x = tB)
  | _ => False
  end.
Proof. exact history_nonvacuous. Qed.
Print Assumptions C04_history_nonvacuous.

Example C04_sid_after_restore_nonvacuous :
  match run Repaired env0 st0 [RESTORE 65535 tA; padr_of tB] with
  | Some (_, outs) => outs = [ORestored 0; OPads 1 1] | None => False end.
Proof. exact sid_after_restore_repaired. Qed.
Print Assumptions C04_sid_after_restore_nonvacuous.
