From Coq Require Import List ZArith NArith Bool Lia Arith.
From OV Require Import C04.Model C04.Proofs.
Theorem C04_placeholder : True. Proof. exact I. Qed.
Print Assumptions C04_placeholder.
