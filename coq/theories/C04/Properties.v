(* C04/Properties.v — the property theorems only.  Each is closed by [exact] of a lemma from
   Proofs.v and followed by Print Assumptions.

   H   : HMAC-SHA256 under the BNG's secret, an arbitrary function argument
   e   : environment of a run (H, cookie lifetime, wall clock, subscriber-group matcher)
   variant = the repairs made during this work as flags: owner check (b12b708), id-0 guard (731c2cc), id
   reservation (46cb3dc), guarded index removal (9893c59), HA restore refuses an unusable id (9d39845).
   Repaired = all of them = /repo HEAD; the main theorems are about it (stated for every variant that has the flags
   a theorem needs).  NoHACheck / Unreserved / ReserveOnly / GuardOnly / Defective lack some repairs and only appear in the `_refuted` theorems, which record
   what each fix removed.
   The AC-Cookie is an opaque token: e = (e_gen, e_val, e_grp) treats the cookie manager as a black box; the cookie
   theorems are proved for every lawful [scheme] (byte layout of cookie and MACed message), /repo HEAD's layout
   (generate / validate = head_scheme) being one instance, and every lawful scheme refines the layout-free
   specification [ideal_validate] the correspondence checks the implementation against.
   WHICH free id a PADR gets is not constrained by the property: PADR / PBEGIN carry a [choice] — Policy (HEAD's
   sequential counter), or an observed answer (Chose c / Refused) that the step accepts only when admissible.  Every
   theorem that quantifies over ops / histories covers every choice.
   reserving v = id-0 guard, reservation, HA check and guarded index removal present; owning v = reserving v and owner check present.
   alive s x = x is in sidIndex or sessions, or has been built by a handlePADR that has not indexed it yet. *)
From Coq Require Import List ZArith NArith Bool Lia Arith.
From stdpp Require Import gmap nmap.
From OV Require Import C04.Model C04.Proofs.
Import ListNotations.
Local Open Scope N_scope.

(* ---------------------------------------------------------------- cookie *)
(* Generate and Validate lay the MACed message out identically *)
Theorem C04_enc_agree : forall mac sv cv ts, enc_val mac sv cv (put32 ts) = enc_gen mac sv cv ts.
Proof. exact enc_agree. Qed.
Print Assumptions C04_enc_agree.

(* the MACed message determines MAC (of any length), both VLAN tags and the timestamp *)
Theorem C04_enc_injective : forall m1 s1 c1 t1 m2 s2 c2 t2,
  s1 < 65536 -> c1 < 65536 -> t1 < two32 -> s2 < 65536 -> c2 < 65536 -> t2 < two32 ->
  enc_gen m1 s1 c1 t1 = enc_gen m2 s2 c2 t2 -> m1 = m2 /\ s1 = s2 /\ c1 = c2 /\ t1 = t2.
Proof. exact enc_gen_injective. Qed.
Print Assumptions C04_enc_injective.

(* a cookie generated at second now_s verifies for its own tuple exactly while it is younger
   than the lifetime (timestamps are u32 seconds) *)
Theorem C04_cookie_roundtrip : forall H ttl now_ns now_s t, (forall d, length (H d) = 32%nat) ->
  validate H ttl now_ns (generate H now_s t) t = true <->
  (now_ns - Z.of_N (now_s mod two32) * ns_per_s <= ttl)%Z.
Proof. exact cookie_roundtrip. Qed.
Print Assumptions C04_cookie_roundtrip.

(* what Validate checks, exactly, with no premise at all: the cookie is tag(32) | timestamp(4), the tag is
   H of (mac | svlan | cvlan | those timestamp bytes), and the timestamp is within the lifetime *)
Theorem C04_validate_accepts_iff : forall H ttl now c mac sv cv, validate H ttl now c (mac, sv, cv) = true <->
  exists sig a b c4 d, c = sig ++ [a; b; c4; d] /\ length sig = 32%nat /\
    sig = H (enc_val mac sv cv [a; b; c4; d]) /\ (now - Z.of_N (be32 a b c4 d) * ns_per_s <= ttl)%Z.
Proof. exact validate_accepts_iff. Qed.
Print Assumptions C04_validate_accepts_iff.

(* soundness under H_mac_unforgeable (first premise), stated for the single (message, tag) pair presented:
   macd t c is the one message Validate MACs for cookie c shown by tuple t; if the tag in the cookie is its MAC,
   that message is one Generate has MACed.  Other preimages of the tag are irrelevant (H need not be injective).
   Then: an accepted cookie is one this BNG issued for the same MAC and VLAN tags, within its lifetime *)
Theorem C04_cookie_sound : forall H ttl now c t issued,
  (firstn 32 c = H (macd t c) -> In (macd t c) (map enc_issue issued)) ->
  Forall wf_issue issued -> wf_tuple t ->
  validate H ttl now c t = true ->
  exists ts, In (t, ts) issued /\ (now - Z.of_N ts * ns_per_s <= ttl)%Z /\ skipn 32 c = put32 ts.
Proof. exact cookie_sound. Qed.
Print Assumptions C04_cookie_sound.

Example C04_cookie_sound_nonvacuous :
  let c := generate oneH 1000 tA in
  (firstn 32 c = oneH (macd tA c) -> In (macd tA c) (map enc_issue [(tA, 1000)])) /\
  Forall wf_issue [(tA, 1000)] /\ wf_tuple tA /\
  validate oneH 60000000000 1000500000000 c tA = true /\
  validate oneH 60000000000 1061500000000 c tA = false /\
  validate oneH 60000000000 1000500000000 c tB = false.
Proof. exact cookie_sound_nonvacuous. Qed.
Print Assumptions C04_cookie_sound_nonvacuous.

(* ... and with a NON-injective H (the tag has further preimages that were never issued) the premise still holds *)
Example C04_cookie_sound_nonvacuous_noninjective :
  let c := generate toyH 1000 tA in
  (firstn 32 c = toyH (macd tA c) -> In (macd tA c) (map enc_issue [(tA, 1000)])) /\
  Forall wf_issue [(tA, 1000)] /\ wf_tuple tA /\
  validate toyH 60000000000 1000500000000 c tA = true /\
  toyH (macd tA c ++ [0]) = toyH (macd tA c) /\ ~ In (macd tA c ++ [0]) (map enc_issue [(tA, 1000)]).
Proof. exact cookie_sound_nonvacuous_noninjective. Qed.
Print Assumptions C04_cookie_sound_nonvacuous_noninjective.

(* ---- the layout is a free choice: the same for EVERY lawful cookie scheme ---- *)
Theorem C04_scheme_roundtrip : forall L H, lawful L -> forall ttl now_ns now_s t, (forall d, length (H d) = 32%nat) ->
  svalidate L H ttl now_ns (sgenerate L H now_s t) t = true <->
  (now_ns - Z.of_N (now_s mod two32) * ns_per_s <= ttl)%Z.
Proof. exact scheme_roundtrip. Qed.
Print Assumptions C04_scheme_roundtrip.

(* accepted => byte for byte the cookie this BNG issued for the same tuple, within its lifetime *)
Theorem C04_scheme_sound : forall L H, lawful L -> forall ttl now c t issued,
  (forall tag tsb, sc_unpack L c = Some (tag, tsb) -> tag = H (sc_msg L t tsb) ->
                   In (sc_msg L t tsb) (map (smsg L) issued)) ->
  Forall wf_issue issued -> wf_tuple t ->
  svalidate L H ttl now c t = true ->
  exists ts, In (t, ts) issued /\ (now - Z.of_N ts * ns_per_s <= ttl)%Z /\ c = scookie L H (t, ts).
Proof. exact scheme_sound. Qed.
Print Assumptions C04_scheme_sound.

(* every lawful scheme refines the layout-free specification over the cookies actually handed out: accepted iff
   the presented bytes are one of the issued cookies, presented by the tuple it was issued for, within its lifetime.
   The correspondence checks the implementation against [ideal_validate] with the implementation's own cookies. *)
Theorem C04_scheme_refines_ideal : forall L H, lawful L -> forall ttl now c t issued, (forall d, length (H d) = 32%nat) ->
  (forall tag tsb, sc_unpack L c = Some (tag, tsb) -> tag = H (sc_msg L t tsb) ->
                   In (sc_msg L t tsb) (map (smsg L) issued)) ->
  Forall wf_issue issued -> wf_tuple t ->
  svalidate L H ttl now c t = ideal_validate (cookies_of L H issued) ttl now c t.
Proof. exact scheme_refines_ideal. Qed.
Print Assumptions C04_scheme_refines_ideal.

(* /repo HEAD's layout is one lawful scheme (and is [validate] / [generate] above); ts|tag with the message
   ts|mac|vlans is another *)
Theorem C04_head_scheme_lawful : lawful head_scheme /\
  (forall H ttl now c t, svalidate head_scheme H ttl now c t = validate H ttl now c t) /\
  (forall H now t, (forall d, length (H d) = 32%nat) -> sgenerate head_scheme H now t = generate H now t).
Proof. exact (conj head_scheme_lawful (conj head_scheme_validate head_scheme_generate)). Qed.
Print Assumptions C04_head_scheme_lawful.

Theorem C04_alt_scheme_lawful : lawful alt_scheme.
Proof. exact alt_scheme_lawful. Qed.
Print Assumptions C04_alt_scheme_lawful.

Example C04_alt_scheme_nonvacuous :
  let e := mk_env alt_scheme toyH 60000000000 1000 1000500000000 (fun _ => true) in
  let ck t := add_tag TagACCookie (sgenerate alt_scheme toyH 1000 t) in
  match run Repaired e st0 [PADI tA; PADR tA (ck tA) Policy; PADR tB (ck tA) Policy; PADR tB (ck tB) (Chose 9)] with
  | Some (_, [OPado c; OPads 1 0; ONone; OPads 9 1]) => c = sgenerate alt_scheme toyH 1000 tA
  | _ => False
  end.
Proof. exact alt_scheme_history. Qed.
Print Assumptions C04_alt_scheme_nonvacuous.

(* wrong length (all 36 truncations, any extension) is rejected, whatever H is *)
Theorem C04_cookie_wrong_length : forall H ttl now c t, validate H ttl now c t = true -> length c = 36%nat.
Proof. exact validate_length. Qed.
Print Assumptions C04_cookie_wrong_length.

(* an expired timestamp is rejected before the HMAC is even looked at *)
Theorem C04_cookie_expired : forall H ttl now c mac sv cv a b c4 d, skipn 32 c = [a; b; c4; d] ->
  (ttl < now - Z.of_N (be32 a b c4 d) * ns_per_s)%Z -> validate H ttl now c (mac, sv, cv) = false.
Proof. exact validate_expired. Qed.
Print Assumptions C04_cookie_expired.

(* on one CookieManager, after ANY history of earlier Generate / Validate calls and lifetime changes, the
   verdict on (now, cookie, tuple) is [validate] under the lifetime in effect: earlier validations, accepted
   or not, never change it (a verdict cache that does is a correspondence mismatch) *)
Theorem C04_validate_history_independent : forall H ttl pre now c t,
  snd (cm_run H ttl (pre ++ [CVal now c t])) =
  snd (cm_run H ttl pre) ++ [CVerdict (validate H (ttl_after ttl pre) now c t)].
Proof. exact validate_history_independent. Qed.
Print Assumptions C04_validate_history_independent.

(* accepted while fresh, replayed after expiry: rejected, whatever was validated in between *)
Theorem C04_expired_replay_rejected : forall H ttl pre now c mac sv cv a b c4 d,
  skipn 32 c = [a; b; c4; d] -> (ttl_after ttl pre < now - Z.of_N (be32 a b c4 d) * ns_per_s)%Z ->
  snd (cm_run H ttl (pre ++ [CVal now c (mac, sv, cv)])) = snd (cm_run H ttl pre) ++ [CVerdict false].
Proof. exact expired_replay_rejected. Qed.
Print Assumptions C04_expired_replay_rejected.

Example C04_history_independence_nonvacuous :
  let c := generate oneH 1000 tA in
  snd (cm_run oneH 60000000000 [CGen 1000 tA; CVal 1000500000000 c tA; CVal 1000500000000 c tA;
                                CVal 1061500000000 c tA; CSetTTL 0; CVal 1000500000000 c tA]) =
  [CCookie c; CVerdict true; CVerdict true; CVerdict false; CNone; CVerdict false].
Proof. exact history_independence_nonvacuous. Qed.
Print Assumptions C04_history_independence_nonvacuous.

(* the property constrains ACCEPTANCE.  Soundness therefore holds for EVERY validator whose verdicts are
   admissible: equal to [validate] on Ethernet tuples (6-byte MAC), and accepting no more than [validate] on the
   others (an implementation may refuse cookies for non-Ethernet addresses) *)
Theorem C04_admissible_validator_sound : forall H (val' : Z -> Z -> bytes -> tuple -> bool),
  (forall ttl now c t, admissible_verdict t (validate H ttl now c t) (val' ttl now c t) = true) ->
  forall ttl now c t issued,
  (firstn 32 c = H (macd t c) -> In (macd t c) (map enc_issue issued)) ->
  Forall wf_issue issued -> wf_tuple t ->
  val' ttl now c t = true ->
  exists ts, In (t, ts) issued /\ (now - Z.of_N ts * ns_per_s <= ttl)%Z /\ skipn 32 c = put32 ts.
Proof. exact admissible_validator_sound. Qed.
Print Assumptions C04_admissible_validator_sound.

Theorem C04_admissible_verdict_ethernet : forall t m i,
  ethernet_tuple t = true -> admissible_verdict t m i = true -> i = m.
Proof. exact admissible_verdict_ethernet. Qed.
Print Assumptions C04_admissible_verdict_ethernet.

(* the verdict predicate the driver applies (extracted, the same definition): with or without the second
   may-reject class (cookies dated in the future) an admissible verdict never accepts what the layout-free
   specification rejects; outside both classes it equals it; and the future-dated class is empty while the clock
   does not run backwards (so in generated cases the flag is never set: driver-side generality only) *)
Theorem C04_admissible_verdict2_sound : forall may t m i, admissible_verdict2 may t m i = true -> i = true -> m = true.
Proof. exact admissible_verdict2_sound. Qed.
Print Assumptions C04_admissible_verdict2_sound.

Theorem C04_admissible_verdict2_exact : forall t m i,
  ethernet_tuple t = true -> admissible_verdict2 false t m i = true -> i = m.
Proof. exact admissible_verdict2_exact. Qed.
Print Assumptions C04_admissible_verdict2_exact.

Theorem C04_future_dated_empty : forall iss now c,
  Forall (fun i => let '(_, _, ts) := i in (Z.of_N ts * ns_per_s <= now)%Z) iss -> future_dated iss now c = false.
Proof. exact future_dated_empty. Qed.
Print Assumptions C04_future_dated_empty.

(* ---------------------------------------------------------------- tags *)
Theorem C04_parse_tags_terminates : forall p, parse_tags p <> OutOfFuel /\ parse_tags p <> Base.Panic.
Proof. exact parse_tags_terminates. Qed.
Print Assumptions C04_parse_tags_terminates.

(* PADI -> PADO cookie -> PADR by the same tuple within the lifetime is admitted, for every lawful scheme *)
Theorem C04_padi_padr_roundtrip : forall v L H ttl now_s now_ns grp s t s' c, lawful L ->
  (forall d, length (H d) = 32%nat) ->
  step v (mk_env L H ttl now_s now_ns grp) s (PADI t) = Some (s', OPado c) ->
  N.of_nat (length c) < 65536 ->
  (now_ns - Z.of_N (now_s mod two32) * ns_per_s <= ttl)%Z ->
  exists tg, parse_tags (add_tag TagACCookie c) = Ok tg /\
    e_val (mk_env L H ttl now_s now_ns grp) (t_cookie tg) t = true.
Proof. exact padi_padr_roundtrip. Qed.
Print Assumptions C04_padi_padr_roundtrip.

(* ---------------------------------------------------------------- admission *)
(* a PADS / a new session only for a PADR whose AC-Cookie validates for the sender's tuple
   (every variant, i.e. also the code as found) *)
Theorem C04_padr_needs_cookie : forall v e s t p oc s' sid uid,
  step v e s (PADR t p oc) = Some (s', OPads sid uid) ->
  exists tg, parse_tags p = Ok tg /\
    e_val e (t_cookie tg) t = true /\ e_grp e t = true.
Proof. exact padr_needs_cookie. Qed.
Print Assumptions C04_padr_needs_cookie.

(* ... and a PADR without such a cookie changes nothing at all *)
Theorem C04_padr_rejected_no_state : forall v e s t p oc s' r, step v e s (PADR t p oc) = Some (s', r) ->
  (forall tg, parse_tags p = Ok tg -> e_val e (t_cookie tg) t = false) ->
  s' = s /\ r = ONone.
Proof. exact padr_rejected_no_state. Qed.
Print Assumptions C04_padr_rejected_no_state.

(* the same two facts for a PADR that is interleaved with others (its first half, up to allocateSessionID) *)
Theorem C04_pbegin_needs_cookie : forall v e s t p oc s' sid uid,
  step v e s (PBEGIN t p oc) = Some (s', OPend sid uid) ->
  exists tg, parse_tags p = Ok tg /\
    e_val e (t_cookie tg) t = true /\ e_grp e t = true.
Proof. exact pbegin_needs_cookie. Qed.
Print Assumptions C04_pbegin_needs_cookie.

Theorem C04_pbegin_rejected_no_state : forall v e s t p oc s' r, step v e s (PBEGIN t p oc) = Some (s', r) ->
  (forall tg, parse_tags p = Ok tg -> e_val e (t_cookie tg) t = false) ->
  s' = s /\ r = ONone.
Proof. exact pbegin_rejected_no_state. Qed.
Print Assumptions C04_pbegin_rejected_no_state.

(* in ANY table state (any earlier history, this very PADR already answered or not) a PADR whose cookie
   has outlived the lifetime creates nothing, in every variant *)
Theorem C04_padr_expired_no_state : forall v e s t p oc tg L H ttl now tag tsb s' r,
  (forall c t', e_val e c t' = true -> svalidate L H ttl now c t' = true) ->
  parse_tags p = Ok tg -> sc_unpack L (t_cookie tg) = Some (tag, tsb) ->
  (ttl < now - Z.of_N (ts_of tsb) * ns_per_s)%Z ->
  step v e s (PADR t p oc) = Some (s', r) -> s' = s /\ r = ONone.
Proof. exact padr_expired_no_state. Qed.
Print Assumptions C04_padr_expired_no_state.

(* composite: a session is created only for a cookie this BNG issued, within its lifetime, for the same MAC
   address and VLAN tags — and the cookie in the PADR is, byte for byte, the cookie that was issued.  For EVERY
   lawful cookie scheme L: premise 2 says the component's validator accepts no more than L's Validate at this
   moment; premise 3 is H_mac_unforgeable for the ONE (message, tag) pair this PADR presents (tag and timestamp
   bytes as L unpacks them from the AC-Cookie).  Nothing is assumed about other messages or tags. *)
Theorem C04_admission : forall v e s t p oc s' sid uid L H ttl now issued, lawful L ->
  (forall c t', e_val e c t' = true -> svalidate L H ttl now c t' = true) ->
  (forall tg tag tsb, parse_tags p = Ok tg -> sc_unpack L (t_cookie tg) = Some (tag, tsb) ->
                      tag = H (sc_msg L t tsb) -> In (sc_msg L t tsb) (map (smsg L) issued)) ->
  Forall wf_issue issued -> wf_tuple t ->
  step v e s (PADR t p oc) = Some (s', OPads sid uid) ->
  exists ts tg, parse_tags p = Ok tg /\ In (t, ts) issued /\ (now - Z.of_N ts * ns_per_s <= ttl)%Z /\
                t_cookie tg = scookie L H (t, ts).
Proof. exact admission. Qed.
Print Assumptions C04_admission.

Theorem C04_admission_interleaved : forall v e s t p oc s' sid uid L H ttl now issued, lawful L ->
  (forall c t', e_val e c t' = true -> svalidate L H ttl now c t' = true) ->
  (forall tg tag tsb, parse_tags p = Ok tg -> sc_unpack L (t_cookie tg) = Some (tag, tsb) ->
                      tag = H (sc_msg L t tsb) -> In (sc_msg L t tsb) (map (smsg L) issued)) ->
  Forall wf_issue issued -> wf_tuple t ->
  step v e s (PBEGIN t p oc) = Some (s', OPend sid uid) ->
  exists ts tg, parse_tags p = Ok tg /\ In (t, ts) issued /\ (now - Z.of_N ts * ns_per_s <= ttl)%Z /\
                t_cookie tg = scookie L H (t, ts).
Proof. exact admission_pend. Qed.
Print Assumptions C04_admission_interleaved.

Example C04_admission_nonvacuous :
  lawful head_scheme /\
  (forall c t', e_val envOne c t' = true -> svalidate head_scheme oneH 60000000000 1000500000000 c t' = true) /\
  (forall tg tag tsb, parse_tags padrOne = Ok tg -> sc_unpack head_scheme (t_cookie tg) = Some (tag, tsb) ->
      tag = oneH (sc_msg head_scheme tA tsb) -> In (sc_msg head_scheme tA tsb) (map (smsg head_scheme) [(tA, 1000)])) /\
  Forall wf_issue [(tA, 1000)] /\ wf_tuple tA /\
  (exists s', step Repaired envOne st0 (PADR tA padrOne Policy) = Some (s', OPads 1 0)) /\
  oneH (smsg head_scheme (tB, 1000)) <> oneH (smsg head_scheme (tA, 1000)) /\
  (exists s', step Repaired envOne st0 (PADR tB padrOne Policy) = Some (s', ONone)).
Proof. exact admission_nonvacuous. Qed.
Print Assumptions C04_admission_nonvacuous.

(* every session object that becomes alive comes from a PADR whose cookie validated (whole, or its first half),
   from a start-up restore, or from the HA peer's checkpoint; in every variant *)
Theorem C04_sessions_only_from_padr : forall v e s o s' r x, step v e s o = Some (s', r) -> alive s' x ->
  alive s x \/ (exists p oc, (o = PADR (s_tup x) p oc /\ r = OPads (s_sid x) (s_uid x)) \/
                             (o = PBEGIN (s_tup x) p oc /\ r = OPend (s_sid x) (s_uid x))) \/
  (exists a, o = RESTORE (s_sid x) (s_tup x) a \/ o = HASYNC (s_sid x) (s_tup x) a).
Proof. exact step_new_alive. Qed.
Print Assumptions C04_sessions_only_from_padr.

(* ---------------------------------------------------------------- session ids *)
(* after ANY history — any packets, start-up restores of fresh non-zero ids, run-time HA restores of ARBITRARY
   peer-allocated ids (0, in use, reserved: refused), any counter position, any number of
   long-lived sessions, across the 16-bit wrap, and ANY interleaving of the two halves (allocation / indexing)
   of any number of concurrent PADRs — all sessions alive in the table have pairwise distinct ids in 1..65535.
   Holds for every variant with the id-0 guard, id reservation, the HA check and guarded removal (Repaired). *)
Theorem C04_sid_distinct_nonzero : forall v e ops s outs x y, reserving v ->
  run v e st0 ops = Some (s, outs) -> alive s x -> alive s y ->
  0 < s_sid x < 65536 /\ (s_sid x = s_sid y -> x = y).
Proof. exact sid_distinct_nonzero. Qed.
Print Assumptions C04_sid_distinct_nonzero.

(* historical (fixed in 46cb3dc): without reservation, exactly one id k free, two PADRs with valid cookies both pass
   allocateSessionID before either indexes: both are answered with k, and after both have indexed two
   sessions in the table carry the same session-id.  (Replayed on the real code: harness op P with a gate
   in the AccessResolver; it reproduced on the code before 46cb3dc and is part of every run as a regression case.) *)
Theorem C04_race_refuted : forall v e s tA tB pA pB tgA tgB k,
  v_reserve v = false -> 0 < norm_next v (next s) < 65536 -> 0 < k < 65536 -> pend s = [] ->
  by_sid s !! k = None -> (forall j, 0 < j < 65536 -> j <> k -> by_sid s !! j <> None) ->
  parse_tags pA = Ok tgA -> e_val e (t_cookie tgA) tA = true -> e_grp e tA = true ->
  parse_tags pB = Ok tgB -> e_val e (t_cookie tgB) tB = true -> e_grp e tB = true ->
  tA <> tB ->
  exists s4 x y,
    run v e s [PBEGIN tA pA Policy; PBEGIN tB pB Policy; PCOMMIT (ctr s); PCOMMIT (N.succ (ctr s))] =
      Some (s4, [OPend k (ctr s); OPend k (N.succ (ctr s)); OPads k (ctr s); OPads k (N.succ (ctr s))]) /\
    by_tup s4 !! tA = Some x /\ by_tup s4 !! tB = Some y /\ x <> y /\ s_sid x = k /\ s_sid y = k.
Proof. exact race_last_free_id. Qed.
Print Assumptions C04_race_refuted.

Example C04_interleaving_nonvacuous :
  match run Repaired env0 st0 [PBEGIN tA (add_tag TagACCookie (generate toyH 1000 tA)) Policy;
                               PBEGIN tB (add_tag TagACCookie (generate toyH 1000 tB)) (Chose 7); PCOMMIT 1; PCOMMIT 0] with
  | Some (s, outs) => outs = [OPend 1 0; OPend 7 1; OPads 7 1; OPads 1 0] /\ pend s = []
  | None => False
  end.
Proof. exact interleaving_nonvacuous. Qed.
Print Assumptions C04_interleaving_nonvacuous.

(* run-time HA restore (restoreFromHASync), with the check: a checkpoint whose id is 0, indexed or reserved
   changes nothing ... *)
Theorem C04_hasync_refused : forall v e s sid t a s' r, v_ha_check v = true -> sid < 65536 ->
  sid = 0 \/ id_used v s sid = true -> step v e s (HASYNC sid t a) = Some (s', r) -> s' = s /\ r = ONone.
Proof. exact hasync_refused. Qed.
Print Assumptions C04_hasync_refused.

(* ... and any other id is installed, every other id's entry untouched (so the check does not refuse everything) *)
Theorem C04_hasync_accepted : forall v e s sid t a, v_ha_check v = true -> 0 < sid < 65536 -> id_used v s sid = false ->
  exists s', step v e s (HASYNC sid t a) = Some (s', OSynced (ctr s)) /\
    by_sid s' !! sid = Some {| s_uid := ctr s; s_sid := sid; s_tup := t |} /\
    (forall k, k <> sid -> by_sid s' !! k = by_sid s !! k).
Proof. exact hasync_accepted. Qed.
Print Assumptions C04_hasync_accepted.

(* before 9d39845: the peer's id 1 is installed over the live local session
   with id 1: two sessions alive in c.sessions carry id 1, and the local one is no longer reached by its own
   frames.  Replayed on the real code of that time (harness op H); fixed in 9d39845. *)
Theorem C04_hasync_refuted : exists e ops s outs xA xB,
  run NoHACheck e st0 ops = Some (s, outs) /\
  by_tup s !! tA = Some xA /\ by_tup s !! tB = Some xB /\ xA <> xB /\ s_sid xA = 1 /\ s_sid xB = 1 /\
  by_sid s !! 1 = Some xB /\ outs = [OPads 1 0; OSynced 1; ONone].
Proof. exact hasync_refuted. Qed.
Print Assumptions C04_hasync_refuted.

Example C04_hasync_nonvacuous :
  match run Repaired env0 st0 [padr_of tA; HASYNC 1 tB []; HASYNC 0 tB []; HASYNC 7 tB []; SESS tA 1] with
  | Some (s, outs) => outs = [OPads 1 0; ONone; ONone; OSynced 1; OReach 0] /\
      (exists x, by_sid s !! 7 = Some x /\ s_tup x = tB)
  | None => False
  end.
Proof. exact hasync_repaired. Qed.
Print Assumptions C04_hasync_nonvacuous.

(* the id a PADR gets is a free choice: ANY id in 1..65535 that is neither indexed nor reserved is installed ... *)
Theorem C04_sid_any_admissible_choice : forall v e s t p tg c, parse_tags p = Ok tg ->
  e_val e (t_cookie tg) t = true -> e_grp e t = true ->
  0 < c < 65536 -> id_used v s c = false ->
  exists s', step v e s (PADR t p (Chose c)) = Some (s', OPads c (ctr s)) /\
    by_sid s' !! c = Some {| s_uid := ctr s; s_sid := c; s_tup := t |}.
Proof. exact padr_chosen. Qed.
Print Assumptions C04_sid_any_admissible_choice.

(* ... an id that is 0, out of range, indexed or reserved is not a step at all (the check reports it) ... *)
Theorem C04_sid_inadmissible_choice : forall v e s t p tg c, parse_tags p = Ok tg ->
  e_val e (t_cookie tg) t = true -> e_grp e t = true ->
  c = 0 \/ 65536 <= c \/ id_used v s c = true -> step v e s (PADR t p (Chose c)) = None.
Proof. exact padr_choice_inadmissible. Qed.
Print Assumptions C04_sid_inadmissible_choice.

(* ... a refusal is admissible only when no id is free ... *)
Theorem C04_sid_refusal_needs_full : forall v e s t p tg j, parse_tags p = Ok tg ->
  e_val e (t_cookie tg) t = true -> e_grp e t = true ->
  0 < j < 65536 -> id_used v s j = false -> step v e s (PADR t p Refused) = None.
Proof. exact padr_refusal_inadmissible. Qed.
Print Assumptions C04_sid_refusal_needs_full.

(* ... and /repo HEAD's sequential counter is one of the admissible policies *)
Theorem C04_sid_policy_admissible : forall v s sid n', 0 < norm_next v (next s) < 65536 -> allocate v s = Ok (sid, n') ->
  (sid <> 0 -> alloc_choice v s (Chose sid) = Ok (sid, next s)) /\
  (sid = 0 -> alloc_choice v s Refused = Ok (0, next s)).
Proof. exact policy_is_admissible. Qed.
Print Assumptions C04_sid_policy_admissible.

(* ---- an id is in use exactly while its session is alive; every teardown path frees exactly that id ---- *)
Theorem C04_id_used_iff_alive : forall v s k, v_reserve v = true -> Inv s ->
  id_used v s k = true <-> exists x, alive s x /\ s_sid x = k.
Proof. exact id_used_iff_alive. Qed.
Print Assumptions C04_id_used_iff_alive.

(* PADT, dead peer, AAA reject (handleAAAResponse -> handleDeadPeer) and dataplane add failure
   (onVPPSessionCreated(err) -> tearDownSessionAfterVPPFailure): whenever one of them reports a termination, the
   session object is marked torn down and is in neither index; if it was live, its id was in use before, is free
   after, and the status of every other id is unchanged; if it was stale (late callback) both indexes are untouched *)
Theorem C04_teardown_frees_exactly : forall v e s o s' u, reserving v -> Inv s -> is_teardown o ->
  step v e s o = Some (s', OTerm u) ->
  exists x, s_uid x = u /\ ~ live s' x /\ is_gone s' u = true /\
    (live s x -> id_used v s (s_sid x) = true /\ id_used v s' (s_sid x) = false /\
                 forall k, k <> s_sid x -> id_used v s' k = id_used v s k) /\
    (~ live s x -> by_sid s' = by_sid s /\ by_tup s' = by_tup s) /\
    (live s x \/ o = VPPFAIL x).
Proof. exact teardown_frees_exactly. Qed.
Print Assumptions C04_teardown_frees_exactly.

(* the AAA reject finds the session by scanning c.sessions and then looks its id up again: under the invariant
   the session torn down is the one the answer belongs to *)
Theorem C04_aaa_reject_terminates_own : forall v e s x s' r, Inv s -> step v e s (AAAREJ x) = Some (s', r) ->
  r = ONone \/ (r = OTerm (s_uid x) /\ by_tup s !! s_tup x = Some x /\ by_sid s !! s_sid x = Some x).
Proof. exact aaa_reject_terminates_own. Qed.
Print Assumptions C04_aaa_reject_terminates_own.

(* a dataplane failure reported for a session that is already torn down changes nothing (7b3d79c), and tearing down
   a stale object would not touch the indexes anyway (guarded removal, 9893c59) *)
Theorem C04_late_vpp_failure_ignored : forall v e s x, is_gone s (s_uid x) = true ->
  step v e s (VPPFAIL x) = Some (s, ONone).
Proof. exact late_vpp_failure_ignored. Qed.
Print Assumptions C04_late_vpp_failure_ignored.

Theorem C04_stale_teardown_noop : forall v s x, v_guard_remove v = true -> Inv s -> ~ live s x ->
  by_sid (remove_indexes v x s) = by_sid s /\ by_tup (remove_indexes v x s) = by_tup s.
Proof. exact remove_stale_noop. Qed.
Print Assumptions C04_stale_teardown_noop.

Example C04_teardown_nonvacuous :
  match run Repaired env0 st0 [padr_of tA; SETATTR tA 1 bob; AAAREJ xA0; AAAREJ xA0;
                               PADR tB (add_tag TagACCookie (generate toyH 1000 tB)) (Chose 1);
                               VPPFAIL xA0; SESS tB 1; VPPFAIL xB1; VPPFAIL xB1; SESS tB 1] with
  | Some (s, outs) => outs = [OPads 1 0; OReach 0; OTerm 0; ONone; OPads 1 1; ONone; OReach 1; OTerm 1; ONone; ONone]
                      /\ by_sid s !! 1 = None
  | None => False
  end.
Proof. exact teardown_history. Qed.
Print Assumptions C04_teardown_nonvacuous.

(* the invariant behind it is inductive from any table that satisfies it *)
Theorem C04_table_invariant : forall v e s o s' r, reserving v -> Inv s -> step v e s o = Some (s', r) -> Inv s'.
Proof. exact step_Inv. Qed.
Print Assumptions C04_table_invariant.

(* not by never allocating: while one of the 65535 ids is neither indexed nor reserved a valid PADR gets
   such an id, non-zero, wherever the counter stands (the scan never runs out of fuel) *)
Theorem C04_sid_alloc_complete : forall v e s t p tg, reserving v -> Inv s -> parse_tags p = Ok tg ->
  e_val e (t_cookie tg) t = true -> e_grp e t = true ->
  (exists j, 0 < j < 65536 /\ id_used v s j = false) ->
  exists s' sid, step v e s (PADR t p Policy) = Some (s', OPads sid (ctr s)) /\ 0 < sid < 65536 /\
    id_used v s sid = false /\ by_sid s' !! sid = Some {| s_uid := ctr s; s_sid := sid; s_tup := t |}.
Proof. exact padr_creates_when_room. Qed.
Print Assumptions C04_sid_alloc_complete.

(* id space full: no session, indexes untouched *)
Theorem C04_sid_full : forall v e s t p oc s' r, reserving v -> Inv s ->
  (forall j, 0 < j < 65536 -> id_used v s j = true) ->
  step v e s (PADR t p oc) = Some (s', r) ->
  r = ONone /\ by_sid s' = by_sid s /\ by_tup s' = by_tup s /\ pend s' = pend s.
Proof. exact padr_full_repaired. Qed.
Print Assumptions C04_sid_full.

(* id space full, the code as first found (no id-0 guard; fixed by 731c2cc): answered with session-id 0 *)
Theorem C04_sid_full_refuted : forall v e s t p tg, v_sid_guard v = false -> 0 < next s < 65536 ->
  (forall j, 0 < j < 65536 -> id_used v s j = true) ->
  parse_tags p = Ok tg -> e_val e (t_cookie tg) t = true -> e_grp e t = true ->
  exists s', step v e s (PADR t p Policy) = Some (s', OPads 0 (ctr s)) /\
    by_sid s' !! 0 = Some {| s_uid := ctr s; s_sid := 0; s_tup := t |}.
Proof. exact padr_full_defective. Qed.
Print Assumptions C04_sid_full_refuted.

(* the code as first found: restore of id 0xFFFF, then a PADR: a live session with id 0 *)
Theorem C04_sid_nonzero_refuted : exists e ops s outs x,
  run Defective e st0 ops = Some (s, outs) /\ live s x /\ s_sid x = 0 /\ outs = [ORestored 0; OPads 0 1].
Proof. exact sid_nonzero_refuted. Qed.
Print Assumptions C04_sid_nonzero_refuted.

(* c.sessions is keyed by the string "mac:svlan:cvlan" (c.sessionKey); the model keys by the tuple.  The two
   agree because the rendering is injective on 6-byte MACs and uint16 VLANs: distinct subscribers never share
   a key, whatever their digits.  (The check also observes the equivalence classes of the real sessionKey.) *)
Theorem C04_session_key_injective : forall t1 t2, wf_key_tuple t1 -> wf_key_tuple t2 ->
  session_key t1 = session_key t2 -> t1 = t2.
Proof. exact session_key_injective. Qed.
Print Assumptions C04_session_key_injective.

(* a rendering that drops the separator is not: svlan|cvlan 12|3 and 1|23 read the same *)
Example C04_session_key_nonvacuous :
  dec 12 ++ dec 3 = dec 1 ++ dec 23 /\ session_key (fst (fst tA), 12, 3) <> session_key (fst (fst tA), 1, 23).
Proof. exact key_without_separator_collides. Qed.
Print Assumptions C04_session_key_nonvacuous.

(* ---------------------------------------------------------------- isolation *)
(* sidIndex and sessions (the lookup paths of PADT and session-stage packets): a packet from tuple t
   (PADI, PADR or its first half, PADT, any session-stage packet incl. one that sets the Username) leaves every
   session of another tuple where it is, creates / reserves sessions for t only, and the session it
   terminates or reaches (if any) belongs to t *)
Theorem C04_isolation : forall v e s o s' r t, owning v -> Inv s -> sender o = Some t -> step v e s o = Some (s', r) ->
  (forall k x, by_sid s !! k = Some x -> s_tup x <> t -> by_sid s' !! k = Some x) /\
  (forall t', t' <> t -> by_tup s' !! t' = by_tup s !! t') /\
  (forall k x, by_sid s' !! k = Some x -> by_sid s !! k = Some x \/ s_tup x = t) /\
  (forall x, In x (pend s') -> In x (pend s) \/ s_tup x = t) /\
  (forall u, r = OTerm u \/ r = OReach u -> exists x, live s x /\ s_uid x = u /\ s_tup x = t).
Proof. exact isolation_core. Qed.
Print Assumptions C04_isolation.

(* every other index through which a session can be reached or lose an entry: sessionIDIndex /
   acctSessionIndex (by_uidx) and usernameIndex / ipv4Index / ipv6Index (by_attr, keyed by a value stored in the
   session, which the sender can make equal to another session's).  With guarded removal the packet leaves
   every entry that points to a session of another tuple alone, and only ever rewrites the Username of a
   session of its own tuple *)
Theorem C04_isolation_indexes : forall v e s o s' r t, owning v -> v_guard_remove v = true -> Inv s ->
  sender o = Some t -> step v e s o = Some (s', r) ->
  (forall k x, by_uidx s !! k = Some x -> s_tup x <> t -> by_uidx s' !! k = Some x) /\
  (forall a x, by_attr s !! a = Some x -> s_tup x <> t -> by_attr s' !! a = Some x) /\
  (attr_of s' = attr_of s \/
   exists sid x a, by_sid s !! sid = Some x /\ s_tup x = t /\ attr_of s' = <[ s_uid x := a ]> (attr_of s)).
Proof. exact isolation_idx. Qed.
Print Assumptions C04_isolation_indexes.

(* the second half of a PADR touches only the new session's own, so far empty, slots *)
Theorem C04_commit_isolation : forall v e s u s' r, Inv s -> step v e s (PCOMMIT u) = Some (s', r) ->
  exists x, In x (pend s) /\ s_uid x = u /\ r = OPads (s_sid x) u /\
    by_sid s !! s_sid x = None /\ by_uidx s !! u = None /\
    (forall k, k <> s_sid x -> by_sid s' !! k = by_sid s !! k) /\
    (forall t, t <> s_tup x -> by_tup s' !! t = by_tup s !! t) /\
    (forall k, k <> u -> by_uidx s' !! k = by_uidx s !! k) /\
    by_attr s' = by_attr s /\ attr_of s' = attr_of s /\
    (forall y, In y (pend s') -> In y (pend s)).
Proof. exact commit_isolation. Qed.
Print Assumptions C04_commit_isolation.

(* over histories: whatever other hosts send, in any order and interleaving, a session stays in place in
   every index *)
Theorem C04_isolation_history : forall v e t0, owning v -> v_guard_remove v = true -> forall ops s s' outs k x,
  Inv s -> by_sid s !! k = Some x -> s_tup x = t0 -> (forall y, In y (pend s) -> s_tup y <> t0) ->
  Forall (foreign t0) ops ->
  run v e s ops = Some (s', outs) ->
  by_sid s' !! k = Some x /\ by_tup s' !! t0 = by_tup s !! t0 /\
  (by_uidx s !! s_uid x = Some x -> by_uidx s' !! s_uid x = Some x) /\
  (forall a, by_attr s !! a = Some x -> by_attr s' !! a = Some x).
Proof. exact isolation_run. Qed.
Print Assumptions C04_isolation_history.

(* what the unguarded removal allowed (fixed in 9893c59): host A gives its own session host B's Username (CHAP Response,
   stored before AAA answers) and PADTs its own session; B's usernameIndex entry is gone although B's session
   is untouched in sidIndex. *)
Theorem C04_attr_remove_refuted : exists e ops s outs xB s' r,
  run Unreserved e st0 ops = Some (s, outs) /\ by_attr s !! bob = Some xB /\ s_tup xB = tB /\ tA <> tB /\
  step Unreserved e s (PADT tA 8) = Some (s', r) /\ by_attr s' !! bob = None /\ by_sid s' !! 7 = Some xB.
Proof. exact attr_remove_refuted. Qed.
Print Assumptions C04_attr_remove_refuted.

Example C04_attr_remove_nonvacuous :
  match run Repaired env0 st0 [RESTORE 7 tB bob; padr_of tA; SETATTR tB 8 bob; SETATTR tA 8 bob; PADT tA 8] with
  | Some (s, [ORestored 0; OPads 8 1; ONone; OReach 1; OTerm 1]) =>
      (exists x, by_attr s !! bob = Some x /\ s_tup x = tB) /\ by_sid s !! 8 = None
  | _ => False
  end.
Proof. exact attr_remove_repaired. Qed.
Print Assumptions C04_attr_remove_nonvacuous.

(* the code as first found (no owner check; fixed by b12b708): host B's PADT with A's session-id terminates
   A's session ... *)
Theorem C04_isolation_padt_refuted : exists e ops s outs x s' r,
  run Repaired e st0 ops = Some (s, outs) /\ by_sid s !! 1 = Some x /\ s_tup x = tA /\ tA <> tB /\
  step Defective e s (PADT tB 1) = Some (s', r) /\ r = OTerm (s_uid x) /\ by_sid s' !! 1 = None.
Proof. exact isolation_padt_refuted. Qed.
Print Assumptions C04_isolation_padt_refuted.

(* ... and B's session-stage frame is fed to A's PPP state machines *)
Theorem C04_isolation_sess_refuted : exists e ops s outs x s' r,
  run Repaired e st0 ops = Some (s, outs) /\ by_sid s !! 1 = Some x /\ s_tup x = tA /\ tA <> tB /\
  step Defective e s (SESS tB 1) = Some (s', r) /\ r = OReach (s_uid x).
Proof. exact isolation_sess_refuted. Qed.
Print Assumptions C04_isolation_sess_refuted.

(* non-vacuity: a concrete history (PADI, two admitted PADRs, B's PADT and frame on A's id
   refused, A's own frame reaches, A's own PADT terminates, a second PADT finds nothing) *)
Example C04_history_nonvacuous :
  match run Repaired env0 st0 [PADI tA; padr_of tA; padr_of tB; PADT tB 1; SESS tB 1; SESS tA 1; PADT tA 1; PADT tA 1] with
  | Some (s, [OPado _; OPads 1 0; OPads 2 1; ONone; ONone; OReach 0; OTerm 0; ONone]) =>
      by_sid s !! 1 = None /\ (exists x, by_sid s !! 2 = Some x /\ s_tup x = tB)
  | _ => False
  end.
Proof. exact history_nonvacuous. Qed.
Print Assumptions C04_history_nonvacuous.

Example C04_sid_after_restore_nonvacuous :
  match run Repaired env0 st0 [RESTORE 65535 tA []; padr_of tB] with
  | Some (_, outs) => outs = [ORestored 0; OPads 1 1] | None => False end.
Proof. exact sid_after_restore_repaired. Qed.
Print Assumptions C04_sid_after_restore_nonvacuous.
