(* C14/Model.v — executable model of
     pkg/config/vlan/parser.go         ParseVLANRange, ParseCVLAN
     pkg/config/subscriber/match.go    BuildMatchIndex, Lookup, ValidateMatchIndex
   Definitions only; proofs are in Proofs.v.

   Strings are lists of Unicode code points (N).  The harness encodes them as
   UTF-8; invalid UTF-8 is outside the modelled domain. *)
From OV Require Import Common.Base.

Definition str := list N.

(* unicode.IsSpace *)
Definition is_space (c : N) : bool :=
  (N.eqb c 9 || N.eqb c 10 || N.eqb c 11 || N.eqb c 12 || N.eqb c 13 || N.eqb c 32
   || N.eqb c 133 || N.eqb c 160 || N.eqb c 5760
   || (N.leb 8192 c && N.leb c 8202)
   || N.eqb c 8232 || N.eqb c 8233 || N.eqb c 8239 || N.eqb c 8287 || N.eqb c 12288)%N.

Fixpoint drop_space (s : str) : str :=
  match s with
  | c :: r => if is_space c then drop_space r else s
  | [] => []
  end.
(* strings.TrimSpace *)
Definition trim (s : str) : str := rev (drop_space (rev (drop_space s))).

Definition dash : N := 45.
Definition is_digit (c : N) : bool := (N.leb 48 c && N.leb c 57)%N.

(* strings.Split(s, "-") *)
Fixpoint split_dash_aux (cur : str) (s : str) : list str :=
  match s with
  | [] => [rev cur]
  | c :: r => if N.eqb c dash then rev cur :: split_dash_aux [] r
              else split_dash_aux (c :: cur) r
  end.
Definition split_dash (s : str) : list str := split_dash_aux [] s.
Definition contains_dash (s : str) : bool := existsb (N.eqb dash) s.

(* strconv.ParseUint(s, 10, 16): None on syntax or range error *)
Fixpoint digits_val (acc : N) (s : str) : option N :=
  match s with
  | [] => Some acc
  | c :: r => if is_digit c then digits_val (acc * 10 + (c - 48))%N r else None
  end.
Definition parse_uint16 (s : str) : option N :=
  match s with
  | [] => None
  | _ => match digits_val 0 s with
         | Some v => if N.leb v 65535 then Some v else None
         | None => None
         end
  end.

(* [a; a+1; ...; a+n-1] *)
Fixpoint nseq (a : N) (n : nat) : list N :=
  match n with O => [] | S k => a :: nseq (N.succ a) k end.

(* vlan.ParseVLANRange: Some list on success, None on error *)
Definition parse_vlan_range (s0 : str) : option (list N) :=
  let s := trim s0 in
  if contains_dash s then
    match split_dash s with
    | [p0; p1] =>
        match parse_uint16 (trim p0), parse_uint16 (trim p1) with
        | Some a, Some b =>
            if N.ltb b a then None
            else if N.eqb a 0 || N.eqb b 0 then None
            else if N.ltb 4094 b then None
            else Some (nseq a (N.to_nat (b - a + 1)))
        | _, _ => None
        end
    | _ => None
    end
  else
    match parse_uint16 s with
    | Some v => if N.eqb v 0 then None else if N.ltb 4094 v then None else Some [v]
    | None => None
    end.

(* C-VLAN selector *)
Inductive sel := SelAny | SelExact (c : N).
Definition sel_eqb (a b : sel) : bool :=
  match a, b with
  | SelAny, SelAny => true
  | SelExact x, SelExact y => N.eqb x y
  | _, _ => false
  end.

(* strings.ToLower restricted to what can equal "any" *)
Definition lower (c : N) : N := if (N.leb 65 c && N.leb c 90)%N then (c + 32)%N else c.
Definition str_eqb (a b : str) : bool :=
  (Nat.eqb (length a) (length b)) && forallb (fun p => N.eqb (fst p) (snd p)) (combine a b).
Definition s_any : str := [97; 110; 121]%N.

(* vlan.ParseCVLAN *)
Definition parse_cvlan (s0 : str) : option sel :=
  let s := trim s0 in
  match s with
  | [] => Some SelAny
  | _ =>
    if str_eqb (map lower s) s_any then Some SelAny
    else match parse_uint16 s with
         | Some v => if N.eqb v 0 then None else if N.ltb 4094 v then None else Some (SelExact v)
         | None => None
         end
  end.

(* ---- configuration ---- *)
Definition vrange := (str * str)%type.                 (* svlan string, cvlan string *)
Definition group := (str * list vrange)%type.          (* name (UTF-8 bytes), ranges *)
Definition config := list group.                       (* Go map: names pairwise distinct *)

(* Go string comparison (bytewise lexicographic) *)
Fixpoint str_ltb (a b : str) : bool :=
  match a, b with
  | [], [] => false
  | [], _ :: _ => true
  | _ :: _, [] => false
  | x :: a', y :: b' => if N.ltb x y then true else if N.eqb x y then str_ltb a' b' else false
  end.

(* sort.Strings on the names: insertion sort by name *)
Fixpoint insert_group (g : group) (l : list group) : list group :=
  match l with
  | [] => [g]
  | h :: t => if str_ltb (fst h) (fst g) then h :: insert_group g t else g :: l
  end.
Definition sort_groups (c : config) : list group := fold_right insert_group [] c.

(* a claim: (svlan, selector) -> (group name, index of the range inside the group) *)
Record claim := { c_svlan : N; c_sel : sel; c_name : str; c_idx : nat }.

Fixpoint range_claims (name : str) (i : nat) (rs : list vrange) : list claim :=
  match rs with
  | [] => []
  | (sv, cv) :: rest =>
      (match parse_vlan_range sv, parse_cvlan cv with
       | Some svs, Some se => map (fun s => {| c_svlan := s; c_sel := se; c_name := name; c_idx := i |}) svs
       | _, _ => []             (* unparseable ranges are skipped *)
       end) ++ range_claims name (S i) rest
  end.
Definition claims_sorted (gs : list group) : list claim :=
  flat_map (fun g => range_claims (fst g) 0 (snd g)) gs.
Definition claims (c : config) : list claim := claims_sorted (sort_groups c).

Definition key_eqb (s : N) (se : sel) (c : claim) : bool :=
  N.eqb s (c_svlan c) && sel_eqb se (c_sel c).

(* the index: first-wins association list keyed by (svlan, selector) *)
Definition index := list claim.
Definition idx_find (ix : index) (s : N) (se : sel) : option claim := find (key_eqb s se) ix.
Definition idx_insert (ix : index) (c : claim) : index :=
  match idx_find ix (c_svlan c) (c_sel c) with
  | Some _ => ix          (* first wins *)
  | None => ix ++ [c]
  end.
Definition build (cfg : config) : index := fold_left idx_insert (claims cfg) [].

(* MatchIndex.Lookup *)
Definition lookup (ix : index) (svlan cvlan : N) : option (str * nat) :=
  match idx_find ix svlan (SelExact cvlan) with
  | Some c => Some (c_name c, c_idx c)
  | None => match idx_find ix svlan SelAny with
            | Some c => Some (c_name c, c_idx c)
            | None => None
            end
  end.

(* the "obvious" quadratic reference: scan every claim in sorted order *)
Definition ref_lookup_in (cs : list claim) (svlan cvlan : N) : option (str * nat) :=
  match find (key_eqb svlan (SelExact cvlan)) cs with
  | Some c => Some (c_name c, c_idx c)
  | None => match find (key_eqb svlan SelAny) cs with
            | Some c => Some (c_name c, c_idx c)
            | None => None
            end
  end.
Definition ref_lookup (cfg : config) (svlan cvlan : N) : option (str * nat) :=
  ref_lookup_in (claims cfg) svlan cvlan.

(* collision half of ValidateMatchIndex over the parsed claims: None = no collision; Some (svlan, sel, prev, name) =
   first collision.  The whole function is [validate_strict] below. *)
Fixpoint validate_aux (seen : list claim) (cs : list claim) : option (N * sel * str * str) :=
  match cs with
  | [] => None
  | c :: rest =>
      match find (key_eqb (c_svlan c) (c_sel c)) seen with
      | Some p => Some (c_svlan c, c_sel c, c_name p, c_name c)
      | None => validate_aux (c :: seen) rest
      end
  end.
Definition validate (cfg : config) : option (N * sel * str * str) := validate_aux [] (claims cfg).

(* ---- compressed domain for the exhaustive 4096x4096 sweep ----
   The endpoints of every parsed range: an S-VLAN range a..b (b = a + length - 1) contributes the
   cut points a and b+1, an exact C-VLAN v contributes v and v+1.  Two VLAN values that compare
   the same way against every cut point are in the same class; Proofs.lookup_class_invariant
   shows lookup cannot tell them apart, so evaluating one representative per class is the full
   sweep. *)
Definition range_scuts (r : vrange) : list N :=
  match parse_vlan_range (fst r), parse_cvlan (snd r) with
  | Some (a :: l), Some _ => [a; (a + N.of_nat (length (a :: l)))%N]
  | _, _ => []
  end.
Definition range_ccuts (r : vrange) : list N :=
  match parse_vlan_range (fst r), parse_cvlan (snd r) with
  | Some _, Some (SelExact v) => [v; N.succ v]
  | _, _ => []
  end.
Definition s_cuts (cfg : config) : list N :=
  flat_map (fun g : group => flat_map range_scuts (snd g)) (sort_groups cfg).
Definition c_cuts (cfg : config) : list N :=
  flat_map (fun g : group => flat_map range_ccuts (snd g)) (sort_groups cfg).

(* representative of x's class: the largest cut point <= x (0 when there is none) *)
Definition rep (cuts : list N) (x : N) : N :=
  fold_left (fun m p => if (N.leb p x && N.ltb m p)%bool then p else m) cuts 0%N.

(* ---- ValidateMatchIndex (since /repo 461c9d7): unparseable ranges are REJECTED ----
   [validate] above is the collision half only: it looks at the claims, i.e. at the ranges that parse (that was the
   whole function before 461c9d7, when a range whose svlan or cvlan string does not parse was skipped and the
   candidate accepted).  ValidateMatchIndex walks the groups and ranges in the same order and returns an error at
   the first unparseable string or the first collision, whichever comes first: [validate_strict].  BuildMatchIndex
   still skips unparseable ranges ([range_claims]); after the fix no committed configuration contains one. *)
Inductive item :=
| IClaim (c : claim)
| IBad (name : str) (idx : nat) (is_svlan : bool).

Definition range_items (name : str) (i : nat) (r : vrange) : list item :=
  match parse_vlan_range (fst r) with
  | None => [IBad name i true]                      (* GetSVLANs is called first *)
  | Some svs =>
      match parse_cvlan (snd r) with
      | None => [IBad name i false]
      | Some se => map (fun s => IClaim {| c_svlan := s; c_sel := se; c_name := name; c_idx := i |}) svs
      end
  end.
Fixpoint group_items (name : str) (i : nat) (rs : list vrange) : list item :=
  match rs with
  | [] => []
  | r :: rest => range_items name i r ++ group_items name (S i) rest
  end.
Definition items (cfg : config) : list item :=
  flat_map (fun g : group => group_items (fst g) 0 (snd g)) (sort_groups cfg).

Inductive verdict :=
| VOk
| VCollision (svlan : N) (se : sel) (prev name : str)
| VMalformed (name : str) (idx : nat) (is_svlan : bool).

Fixpoint strict_aux (seen : list claim) (its : list item) : verdict :=
  match its with
  | [] => VOk
  | IBad n i w :: _ => VMalformed n i w
  | IClaim c :: rest =>
      match find (key_eqb (c_svlan c) (c_sel c)) seen with
      | Some p => VCollision (c_svlan c) (c_sel c) (c_name p) (c_name c)
      | None => strict_aux (c :: seen) rest
      end
  end.
Definition validate_strict (cfg : config) : verdict := strict_aux [] (items cfg).

Definition range_ok (r : vrange) : bool :=
  match parse_vlan_range (fst r), parse_cvlan (snd r) with Some _, Some _ => true | _, _ => false end.

(* ---- reporting policy is free ----
   The property constrains only WHETHER a configuration is rejected.  [validate_strict] stops at the first defect in
   walk order (HEAD's policy); a validator may just as well collect every defect (every unparseable string, every
   claim on a key that already has an owner, the first claimant staying the owner) and reject iff the collection is
   non-empty.  Proofs.problems_nil_iff shows both policies reject exactly the same configurations. *)
Fixpoint problems_aux (seen : list claim) (its : list item) : list verdict :=
  match its with
  | [] => []
  | IBad n i w :: rest => VMalformed n i w :: problems_aux seen rest
  | IClaim c :: rest =>
      match find (key_eqb (c_svlan c) (c_sel c)) seen with
      | Some p => VCollision (c_svlan c) (c_sel c) (c_name p) (c_name c) :: problems_aux seen rest
      | None => problems_aux (c :: seen) rest
      end
  end.
Definition all_problems (cfg : config) : list verdict := problems_aux [] (items cfg).

(* ---- a consumer of the classification: the AAA policy of a classified pair ----
   Ranges and groups carry an AAA policy name (VLANRange.AAA.Policy, SubscriberGroup.AAAPolicy; "" = unset).
   The policy of a pair is the policy of THE RANGE the pair is classified to, the group's policy when that range has
   none (internal/ipoe: match.VR.AAA.Policy, else match.Group.AAAPolicy).
   internal/l2gw publishAAARequest does the same since /repo 60d937f ([l2gw_policy]).  Before that commit it called
   match.Group.GetPolicyName(svlan) (pkg/config/subscriber/group.go): FindVLANConfig rescans the group's ranges by
   S-VLAN only and takes the first one that contains it, whatever its C-VLAN selector ([l2gw_policy_rescan], kept as
   the model of GetPolicyName and for the historical witness). *)
Definition arange := (str * str * (str * bool))%type.           (* svlan, cvlan, (AAA policy, access-types contains l2gw) *)
Definition agroup := (str * (str * bool) * list arange)%type.   (* name, (group AAA policy, group-level access-types contains l2gw), ranges *)
Definition aconfig := list agroup.

Definition strip_group (g : agroup) : group :=
  (fst (fst g), map (fun r : arange => (fst (fst r), snd (fst r))) (snd g)).
Definition strip (a : aconfig) : config := map strip_group a.

Definition find_group (a : aconfig) (name : str) : option agroup :=
  find (fun g : agroup => str_eqb (fst (fst g)) name) a.

Definition pol_or (p gp : str) : str := match p with [] => gp | _ => p end.

(* policy of range #idx of group [name] *)
Definition policy_of (a : aconfig) (name : str) (idx : nat) : str :=
  match find_group a name with
  | None => []
  | Some g => match nth_error (snd g) idx with
              | Some r => pol_or (fst (snd r)) (fst (snd (fst g)))
              | None => fst (snd (fst g))
              end
  end.

(* VLANRange.MatchesSVLAN: the svlan string parses and the list contains s *)
Definition matches_svlan (r : arange) (s : N) : bool :=
  match parse_vlan_range (fst (fst r)) with Some svs => existsb (N.eqb s) svs | None => false end.

(* SubscriberGroup.GetPolicyName(svlan): FindVLANConfig = first range whose S-VLAN list contains s *)
Definition rescan_policy (g : agroup) (s : N) : str :=
  match find (fun r => matches_svlan r s) (snd g) with
  | Some r => pol_or (fst (snd r)) (fst (snd (fst g)))
  | None => fst (snd (fst g))
  end.

(* which pairs are wholesale-switched.  Both consumers (internal/ipoe forwardToL2GW, internal/l2gw handleTrigger) ask
   the MATCHED GROUP: SubscriberGroup.HasAccessType(l2gw) = the group-level access-types contain l2gw, or any range of
   the group does. *)
Definition group_l2gw (g : agroup) : bool :=
  snd (snd (fst g)) || existsb (fun r : arange => snd (snd r)) (snd g).
Definition l2gw_handoff (a : aconfig) (s c : N) : bool :=
  match lookup (build (strip a)) s c with
  | Some (n, _) => match find_group a n with Some g => group_l2gw g | None => false end
  | None => false
  end.

(* for comparison only (not what the code does): the decision taken from the range the pair is classified to *)
Definition range_l2gw (a : aconfig) (name : str) (idx : nat) : bool :=
  match find_group a name with
  | None => false
  | Some g => match nth_error (snd g) idx with Some r => snd (snd r) | None => false end
  end.
Definition l2gw_handoff_byrange (a : aconfig) (s c : N) : bool :=
  match lookup (build (strip a)) s c with
  | Some (n, i) => range_l2gw a n i
  | None => false
  end.

(* FindVLANConfig as an index: position of the first range whose S-VLAN list contains s *)
Fixpoint rescan_index (rs : list arange) (s : N) (i : nat) : option nat :=
  match rs with
  | [] => None
  | r :: rest => if matches_svlan r s then Some i else rescan_index rest s (S i)
  end.

(* (group name, AAA policy) the l2gw trigger authenticates a pair with: the policy of the matched range (60d937f),
   for pairs whose group is wholesale-switched *)
Definition l2gw_policy (a : aconfig) (s c : N) : option (str * str) :=
  match lookup (build (strip a)) s c with
  | Some (n, i) => if l2gw_handoff a s c then Some (n, policy_of a n i) else None
  | None => None
  end.

(* ... and through the S-VLAN-only rescan of the matched group (the l2gw trigger before /repo 60d937f) *)
Definition l2gw_policy_rescan (a : aconfig) (s c : N) : option (str * str) :=
  match lookup (build (strip a)) s c with
  | Some (n, _) => match find_group a n with
                   | Some g => Some (n, rescan_policy g s)
                   | None => Some (n, [])
                   end
  | None => None
  end.

(* ---- the published snapshot: pkg/configmgr ConfigManager (Commit, ApplyLoadedConfig, refreshSGSnapshot,
        LookupSubscriberGroup) as a step model ----
   running = cd.runningConfig.SubscriberGroups, snap = cd.sgIndex (atomic.Value holding the *MatchIndex built from it).
   Both publish points are gated by validateCandidate (which ends in ValidateMatchIndex) and publish running and the
   rebuilt index together under cd.mu; a rejected candidate publishes nothing.  Readers do not take cd.mu: a lookup is
   an atomic Load of the pointer ([ELoad]) followed, any time later, by Lookup on the immutable index it got ([EUse]). *)
(* applied = how many candidates had their handlers applied (Apply calls reach the data plane / routing daemon): a
   candidate that is rejected must not have caused any, "rejected BEFORE commit" *)
Record cmstate := { running : config; snap : index; applied : nat }.
Definition cm_init : cmstate := {| running := []; snap := build []; applied := 0 |}.
Definition cm_commit (st : cmstate) (cfg : config) : cmstate :=
  match validate_strict cfg with
  | VOk => {| running := cfg; snap := build cfg; applied := S (applied st) |}
  | _ => st
  end.
Definition cm_lookup (st : cmstate) (s c : N) : option (str * nat) := lookup (snap st) s c.

Inductive cm_event :=
| ECommit (cfg : config)                 (* Commit / ApplyLoadedConfig of a candidate *)
| ELoad (reader : nat)                   (* reader: v := cd.sgIndex.Load() *)
| EUse (reader : nat) (s c : N).         (* reader: v.Lookup(s, c) *)

(* what every reader currently holds: the generation (running configuration) whose index it loaded *)
Definition held := nat -> config.
Definition cm_step (sth : cmstate * held) (e : cm_event) : (cmstate * held) * option (option (str * nat)) :=
  let (st, h) := sth in
  match e with
  | ECommit cfg => ((cm_commit st cfg, h), None)
  | ELoad r => ((st, fun r' => if Nat.eqb r' r then running st else h r'), None)
  | EUse r s c => ((st, h), Some (lookup (build (h r)) s c))
  end.
Fixpoint cm_run (sth : cmstate * held) (es : list cm_event) : list (option (option (str * nat))) :=
  match es with
  | [] => []
  | e :: rest => let (sth', o) := cm_step sth e in o :: cm_run sth' rest
  end.
(* the generations that were ever published along a trace (initial one included) *)
Fixpoint cm_generations (st : cmstate) (es : list cm_event) : list config :=
  match es with
  | [] => [running st]
  | ECommit cfg :: rest => running st :: cm_generations (cm_commit st cfg) rest
  | _ :: rest => cm_generations st rest
  end.
