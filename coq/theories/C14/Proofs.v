(* C14/Proofs.v — lemmas about the model in Model.v *)
From OV Require Import Common.Base C14.Model.
From Coq Require Import Permutation Sorted SetoidList.

(* ---------- keys ---------- *)
Definition key (c : claim) : N * sel := (c_svlan c, c_sel c).

Lemma sel_eqb_eq a b : sel_eqb a b = true <-> a = b.
Proof.
  destruct a, b; simpl; split; intros H; try discriminate; try reflexivity.
  - apply N.eqb_eq in H; subst; reflexivity.
  - inversion H; subst; apply N.eqb_refl.
Qed.

Lemma key_eqb_eq s se c : key_eqb s se c = true <-> (s, se) = key c.
Proof.
  unfold key_eqb, key; rewrite andb_true_iff, N.eqb_eq, sel_eqb_eq; split.
  - intros [-> ->]; reflexivity.
  - intros H; inversion H; auto.
Qed.

Lemma key_eqb_key c : key_eqb (c_svlan c) (c_sel c) c = true.
Proof. apply key_eqb_eq; reflexivity. Qed.

Lemma find_app {A} (f : A -> bool) l1 l2 :
  find f (l1 ++ l2) = match find f l1 with Some x => Some x | None => find f l2 end.
Proof. induction l1 as [|x l1 IH]; simpl; [reflexivity|]. destruct (f x); auto. Qed.

Lemma find_key_ext s se s' se' l :
  (s, se) = (s', se') -> find (key_eqb s se) l = find (key_eqb s' se') l.
Proof. intros H; inversion H; reflexivity. Qed.

(* ---------- build = first claimant ---------- *)
Lemma idx_find_insert ix c s se :
  idx_find (idx_insert ix c) s se =
  match idx_find ix s se with
  | Some x => Some x
  | None => if key_eqb s se c then Some c else None
  end.
Proof.
  unfold idx_insert.
  destruct (idx_find ix (c_svlan c) (c_sel c)) as [p|] eqn:E.
  - destruct (idx_find ix s se) eqn:F; [reflexivity|].
    destruct (key_eqb s se c) eqn:K; [|reflexivity].
    apply key_eqb_eq in K. unfold idx_find in *.
    rewrite (find_key_ext _ _ _ _ ix K) in F. unfold key in F; simpl in F. congruence.
  - unfold idx_find in *. rewrite find_app; simpl.
    destruct (find (key_eqb s se) ix); [reflexivity|].
    destruct (key_eqb s se c); reflexivity.
Qed.

Lemma idx_find_fold cs : forall ix s se,
  idx_find (fold_left idx_insert cs ix) s se =
  match idx_find ix s se with
  | Some x => Some x
  | None => find (key_eqb s se) cs
  end.
Proof.
  induction cs as [|c cs IH]; intros ix s se; simpl.
  - destruct (idx_find ix s se); reflexivity.
  - rewrite IH, idx_find_insert.
    destruct (idx_find ix s se); [reflexivity|].
    destruct (key_eqb s se c); reflexivity.
Qed.

Lemma idx_find_build cfg s se :
  idx_find (build cfg) s se = find (key_eqb s se) (claims cfg).
Proof. unfold build; rewrite idx_find_fold; reflexivity. Qed.

Lemma lookup_is_reference cfg s c : lookup (build cfg) s c = ref_lookup cfg s c.
Proof. unfold lookup, ref_lookup; rewrite !idx_find_build; reflexivity. Qed.

(* ---------- parsers produce VLANs in 1..4094 ---------- *)
Lemma nseq_in a n x : In x (nseq a n) -> (a <= x < a + N.of_nat n)%N.
Proof.
  revert a; induction n as [|n IH]; intros a; simpl; [tauto|].
  intros [<-|H]; [lia|]. apply IH in H. lia.
Qed.

Lemma parse_vlan_range_bounds s l x :
  parse_vlan_range s = Some l -> In x l -> (1 <= x <= 4094)%N.
Proof.
  unfold parse_vlan_range.
  destruct (contains_dash (trim s)).
  - destruct (split_dash (trim s)) as [|p0 [|p1 [|? ?]]]; try discriminate.
    destruct (parse_uint16 (trim p0)) as [a|]; [|discriminate].
    destruct (parse_uint16 (trim p1)) as [b|]; [|discriminate].
    destruct (N.ltb_spec b a); [discriminate|].
    destruct (N.eqb_spec a 0); [discriminate|].
    destruct (N.eqb_spec b 0); [discriminate|]. simpl.
    destruct (N.ltb_spec 4094 b); [discriminate|].
    intros E; inversion E; subst; clear E. intros Hin. apply nseq_in in Hin. lia.
  - destruct (parse_uint16 (trim s)) as [v|]; [|discriminate].
    destruct (N.eqb_spec v 0); [discriminate|].
    destruct (N.ltb_spec 4094 v); [discriminate|].
    intros E; inversion E; subst. intros [<-|[]]. lia.
Qed.

Lemma parse_cvlan_bounds s c : parse_cvlan s = Some (SelExact c) -> (1 <= c <= 4094)%N.
Proof.
  unfold parse_cvlan. destruct (trim s) as [|h t]; [discriminate|].
  destruct (str_eqb _ _); [discriminate|].
  destruct (parse_uint16 (h :: t)) as [v|]; [|discriminate].
  destruct (N.eqb_spec v 0); [discriminate|].
  destruct (N.ltb_spec 4094 v); [discriminate|].
  intros E; inversion E; subst; lia.
Qed.

Definition claim_wf (c : claim) : Prop :=
  (1 <= c_svlan c <= 4094)%N /\
  match c_sel c with SelAny => True | SelExact x => (1 <= x <= 4094)%N end.

Lemma range_claims_wf name rs : forall i c, In c (range_claims name i rs) -> claim_wf c.
Proof.
  induction rs as [|[sv cv] rs IH]; intros i c; simpl; [tauto|].
  rewrite in_app_iff; intros [H|H]; [|eapply IH; eauto].
  destruct (parse_vlan_range sv) as [svs|] eqn:E1; [|destruct H].
  destruct (parse_cvlan cv) as [se|] eqn:E2; [|destruct H].
  apply in_map_iff in H as [s [<- Hs]]; split; simpl.
  - eapply parse_vlan_range_bounds; eauto.
  - destruct se; [exact I|]. eapply parse_cvlan_bounds; eauto.
Qed.

Lemma claims_wf cfg c : In c (claims cfg) -> claim_wf c.
Proof.
  unfold claims, claims_sorted; rewrite in_flat_map; intros [g [_ H]].
  eapply range_claims_wf; eauto.
Qed.

Lemma find_none_iff {A} (f : A -> bool) l : find f l = None <-> forall x, In x l -> f x = false.
Proof.
  split; [apply find_none|].
  induction l as [|x l IH]; simpl; intros H; [reflexivity|].
  rewrite (H x) by auto. apply IH; auto.
Qed.

(* a claim covers a pair *)
Definition covers (cl : claim) (s c : N) : Prop :=
  c_svlan cl = s /\ (c_sel cl = SelAny \/ c_sel cl = SelExact c).

Lemma no_exact_zero cfg s : find (key_eqb s (SelExact 0)) (claims cfg) = None.
Proof.
  apply find_none_iff; intros x Hx. destruct (key_eqb s (SelExact 0) x) eqn:K; [|reflexivity].
  apply key_eqb_eq in K; inversion K as [[Hs Hsel]].
  apply claims_wf in Hx as [_ Hw]. rewrite <- Hsel in Hw. lia.
Qed.

(* untagged inner VLAN: only a wildcard range can match *)
Lemma untagged cfg s :
  lookup (build cfg) s 0 =
  match find (key_eqb s SelAny) (claims cfg) with
  | Some c => Some (c_name c, c_idx c)
  | None => None
  end.
Proof. rewrite lookup_is_reference; unfold ref_lookup; rewrite no_exact_zero; reflexivity. Qed.

Lemma uncovered cfg s c :
  (forall cl, In cl (claims cfg) -> ~ covers cl s c) -> lookup (build cfg) s c = None.
Proof.
  intros H; rewrite lookup_is_reference; unfold ref_lookup.
  assert (E1 : find (key_eqb s (SelExact c)) (claims cfg) = None).
  { apply find_none_iff; intros x Hx. destruct (key_eqb s (SelExact c) x) eqn:K; [|reflexivity].
    apply key_eqb_eq in K; inversion K. exfalso; apply (H x Hx); split; auto. }
  assert (E2 : find (key_eqb s SelAny) (claims cfg) = None).
  { apply find_none_iff; intros x Hx. destruct (key_eqb s SelAny x) eqn:K; [|reflexivity].
    apply key_eqb_eq in K; inversion K. exfalso; apply (H x Hx); split; auto. }
  rewrite E1, E2; reflexivity.
Qed.

(* the answer always comes from a claim that covers the pair; an exact claimant beats any wildcard *)
Lemma lookup_sound cfg s c n i :
  lookup (build cfg) s c = Some (n, i) ->
  exists cl, In cl (claims cfg) /\ covers cl s c /\ c_name cl = n /\ c_idx cl = i.
Proof.
  rewrite lookup_is_reference; unfold ref_lookup.
  destruct (find (key_eqb s (SelExact c)) (claims cfg)) as [cl|] eqn:E1.
  - intros H; inversion H; subst. apply find_some in E1 as [Hin K].
    apply key_eqb_eq in K; inversion K. exists cl; repeat split; auto.
  - destruct (find (key_eqb s SelAny) (claims cfg)) as [cl|] eqn:E2; [|discriminate].
    intros H; inversion H; subst. apply find_some in E2 as [Hin K].
    apply key_eqb_eq in K; inversion K. exists cl; repeat split; auto.
Qed.

Lemma exact_wins cfg s c cl :
  In cl (claims cfg) -> c_svlan cl = s -> c_sel cl = SelExact c ->
  exists cl', In cl' (claims cfg) /\ c_svlan cl' = s /\ c_sel cl' = SelExact c /\
              lookup (build cfg) s c = Some (c_name cl', c_idx cl').
Proof.
  intros Hin Hs Hse. rewrite lookup_is_reference; unfold ref_lookup.
  destruct (find (key_eqb s (SelExact c)) (claims cfg)) as [cl'|] eqn:E1.
  - apply find_some in E1 as [Hin' K]. apply key_eqb_eq in K; inversion K.
    exists cl'; repeat split; auto.
  - exfalso. apply (proj1 (find_none_iff _ _)) with (x := cl) in E1; [|exact Hin].
    assert (key_eqb s (SelExact c) cl = true) by (apply key_eqb_eq; unfold key; congruence).
    congruence.
Qed.

(* ---------- validation ---------- *)
Lemma sel_eq_dec (a b : sel) : {a = b} + {a <> b}.
Proof. decide equality; apply N.eq_dec. Qed.

Lemma validate_aux_none cs : forall seen,
  validate_aux seen cs = None <->
  (NoDup (map key cs) /\ forall c, In c cs -> ~ In (key c) (map key seen)).
Proof.
  induction cs as [|c cs IH]; intros seen; simpl.
  - split; [intros _; split; [constructor|tauto]|reflexivity].
  - destruct (find (key_eqb (c_svlan c) (c_sel c)) seen) as [p|] eqn:E.
    + split; [discriminate|]. intros [_ H]. exfalso. apply (H c (or_introl eq_refl)).
      apply find_some in E as [Hin K]. apply key_eqb_eq in K.
      apply in_map_iff; exists p; split; auto.
    + rewrite IH; simpl. split.
      * intros [Hnd Hs]; split.
        -- constructor; [|exact Hnd]. intros Hin. apply in_map_iff in Hin as [c' [Hk Hc']].
           apply (Hs c' Hc'). left; auto.
        -- intros c' [<-|Hc'].
           ++ intros Hin. apply in_map_iff in Hin as [p [Hk Hp]].
              apply (proj1 (find_none_iff _ _)) with (x := p) in E; [|exact Hp].
              assert (key_eqb (c_svlan c) (c_sel c) p = true) by (apply key_eqb_eq; unfold key in *; congruence).
              congruence.
           ++ intros Hin. apply (Hs c' Hc'). right; exact Hin.
      * intros [Hnd Hs]. inversion Hnd as [|? ? Hni Hnd']; subst. split; [exact Hnd'|].
        intros c' Hc' [Hk|Hin].
        -- apply Hni. rewrite Hk. apply in_map; exact Hc'.
        -- apply (Hs c' (or_intror Hc')); exact Hin.
Qed.

Lemma validate_accepts_iff cfg : validate cfg = None <-> NoDup (map key (claims cfg)).
Proof.
  unfold validate; rewrite validate_aux_none; simpl; split; [tauto|]. intros H; split; [exact H|tauto].
Qed.

Lemma NoDup_map_inj {A B} (f : A -> B) l x y :
  NoDup (map f l) -> In x l -> In y l -> f x = f y -> x = y.
Proof.
  induction l as [|a l IH]; simpl; [tauto|]. intros Hnd Hx Hy E.
  inversion Hnd as [|? ? Hni Hnd']; subst.
  destruct Hx as [<-|Hx], Hy as [<-|Hy]; auto.
  - exfalso; apply Hni; rewrite E; apply in_map; auto.
  - exfalso; apply Hni; rewrite <- E; apply in_map; auto.
Qed.

(* accepted configuration: at most one claimant per (svlan, selector) *)
Lemma validate_sound cfg c1 c2 :
  validate cfg = None -> In c1 (claims cfg) -> In c2 (claims cfg) ->
  c_svlan c1 = c_svlan c2 -> c_sel c1 = c_sel c2 -> c1 = c2.
Proof.
  intros V H1 H2 Hs Hse. apply validate_accepts_iff in V.
  eapply NoDup_map_inj; eauto. unfold key; congruence.
Qed.

(* rejected configuration: the reported collision is real *)
Lemma validate_aux_some cs : forall seen s se p n,
  validate_aux seen cs = Some (s, se, p, n) ->
  exists c1 c2, In c1 (seen ++ cs) /\ In c2 cs /\ key c1 = (s, se) /\ key c2 = (s, se) /\
                c_name c1 = p /\ c_name c2 = n.
Proof.
  induction cs as [|c cs IH]; intros seen s se p n; simpl; [discriminate|].
  destruct (find (key_eqb (c_svlan c) (c_sel c)) seen) as [q|] eqn:E.
  - intros H; inversion H; subst. apply find_some in E as [Hin K]. apply key_eqb_eq in K.
    exists q, c; repeat split; auto. apply in_or_app; left; exact Hin.
  - intros H. apply IH in H as [c1 [c2 [H1 [H2 H3]]]]. exists c1, c2; repeat split; try tauto.
    simpl in H1. apply in_app_iff. destruct H1 as [<-|H1]; [right; left; reflexivity|].
    apply in_app_iff in H1 as [H1|H1]; [left; exact H1|right; right; exact H1].
Qed.
