(* C14/Proofs.v — lemmas about the model in Model.v *)
From OV Require Import Common.Base C14.Model.
From Coq Require Import Permutation Sorted SetoidList.

(* ---------- keys ---------- *)
Definition key (c : claim) : N * sel := (c_svlan c, c_sel c).

Lemma sel_eqb_eq a b : sel_eqb a b = true <-> a = b.
Proof.
  destruct a, b; simpl; split; intros H; try discriminate; try reflexivity.
  - apply N.eqb_eq in H; subst; reflexivity.
  - inversion H; subst; apply N.eqb_refl.
Qed.

Lemma key_eqb_eq s se c : key_eqb s se c = true <-> (s, se) = key c.
Proof.
  unfold key_eqb, key; rewrite andb_true_iff, N.eqb_eq, sel_eqb_eq; split.
  - intros [-> ->]; reflexivity.
  - intros H; inversion H; auto.
Qed.

Lemma key_eqb_key c : key_eqb (c_svlan c) (c_sel c) c = true.
Proof. apply key_eqb_eq; reflexivity. Qed.

Lemma find_app {A} (f : A -> bool) l1 l2 :
  find f (l1 ++ l2) = match find f l1 with Some x => Some x | None => find f l2 end.
Proof. induction l1 as [|x l1 IH]; simpl; [reflexivity|]. destruct (f x); auto. Qed.

Lemma find_key_ext s se s' se' l :
  (s, se) = (s', se') -> find (key_eqb s se) l = find (key_eqb s' se') l.
Proof. intros H; inversion H; reflexivity. Qed.

(* ---------- build = first claimant ---------- *)
Lemma idx_find_insert ix c s se :
  idx_find (idx_insert ix c) s se =
  match idx_find ix s se with
  | Some x => Some x
  | None => if key_eqb s se c then Some c else None
  end.
Proof.
  unfold idx_insert.
  destruct (idx_find ix (c_svlan c) (c_sel c)) as [p|] eqn:E.
  - destruct (idx_find ix s se) eqn:F; [reflexivity|].
    destruct (key_eqb s se c) eqn:K; [|reflexivity].
    apply key_eqb_eq in K. unfold idx_find in *.
    rewrite (find_key_ext _ _ _ _ ix K) in F. unfold key in F; simpl in F. congruence.
  - unfold idx_find in *. rewrite find_app; simpl.
    destruct (find (key_eqb s se) ix); [reflexivity|].
    destruct (key_eqb s se c); reflexivity.
Qed.

Lemma idx_find_fold cs : forall ix s se,
  idx_find (fold_left idx_insert cs ix) s se =
  match idx_find ix s se with
  | Some x => Some x
  | None => find (key_eqb s se) cs
  end.
Proof.
  induction cs as [|c cs IH]; intros ix s se; simpl.
  - destruct (idx_find ix s se); reflexivity.
  - rewrite IH, idx_find_insert.
    destruct (idx_find ix s se); [reflexivity|].
    destruct (key_eqb s se c); reflexivity.
Qed.

Lemma idx_find_build cfg s se :
  idx_find (build cfg) s se = find (key_eqb s se) (claims cfg).
Proof. unfold build; rewrite idx_find_fold; reflexivity. Qed.

Lemma lookup_is_reference cfg s c : lookup (build cfg) s c = ref_lookup cfg s c.
Proof. unfold lookup, ref_lookup, ref_lookup_in; rewrite !idx_find_build; reflexivity. Qed.

(* ---------- parsers produce VLANs in 1..4094 ---------- *)
Lemma nseq_in a n x : In x (nseq a n) -> (a <= x < a + N.of_nat n)%N.
Proof.
  revert a; induction n as [|n IH]; intros a; simpl; [tauto|].
  intros [<-|H]; [lia|]. apply IH in H. lia.
Qed.

Lemma parse_vlan_range_bounds s l x :
  parse_vlan_range s = Some l -> In x l -> (1 <= x <= 4094)%N.
Proof.
  unfold parse_vlan_range.
  destruct (contains_dash (trim s)).
  - destruct (split_dash (trim s)) as [|p0 [|p1 [|? ?]]]; try discriminate.
    destruct (parse_uint16 (trim p0)) as [a|]; [|discriminate].
    destruct (parse_uint16 (trim p1)) as [b|]; [|discriminate].
    destruct (N.ltb_spec b a); [discriminate|].
    destruct (N.eqb_spec a 0); [discriminate|].
    destruct (N.eqb_spec b 0); [discriminate|]. simpl.
    destruct (N.ltb_spec 4094 b); [discriminate|].
    intros E; inversion E; subst; clear E. intros Hin. apply nseq_in in Hin. lia.
  - destruct (parse_uint16 (trim s)) as [v|]; [|discriminate].
    destruct (N.eqb_spec v 0); [discriminate|].
    destruct (N.ltb_spec 4094 v); [discriminate|].
    intros E; inversion E; subst. intros [<-|[]]. lia.
Qed.

Lemma parse_cvlan_bounds s c : parse_cvlan s = Some (SelExact c) -> (1 <= c <= 4094)%N.
Proof.
  unfold parse_cvlan. destruct (trim s) as [|h t]; [discriminate|].
  destruct (str_eqb _ _); [discriminate|].
  destruct (parse_uint16 (h :: t)) as [v|]; [|discriminate].
  destruct (N.eqb_spec v 0); [discriminate|].
  destruct (N.ltb_spec 4094 v); [discriminate|].
  intros E; inversion E; subst; lia.
Qed.

Definition claim_wf (c : claim) : Prop :=
  (1 <= c_svlan c <= 4094)%N /\
  match c_sel c with SelAny => True | SelExact x => (1 <= x <= 4094)%N end.

Lemma range_claims_wf name rs : forall i c, In c (range_claims name i rs) -> claim_wf c.
Proof.
  induction rs as [|[sv cv] rs IH]; intros i c; simpl; [tauto|].
  rewrite in_app_iff; intros [H|H]; [|eapply IH; eauto].
  destruct (parse_vlan_range sv) as [svs|] eqn:E1; [|destruct H].
  destruct (parse_cvlan cv) as [se|] eqn:E2; [|destruct H].
  apply in_map_iff in H as [s [<- Hs]]; split; simpl.
  - eapply parse_vlan_range_bounds; eauto.
  - destruct se; [exact I|]. eapply parse_cvlan_bounds; eauto.
Qed.

Lemma claims_wf cfg c : In c (claims cfg) -> claim_wf c.
Proof.
  unfold claims, claims_sorted; rewrite in_flat_map; intros [g [_ H]].
  eapply range_claims_wf; eauto.
Qed.

Lemma find_none_iff {A} (f : A -> bool) l : find f l = None <-> forall x, In x l -> f x = false.
Proof.
  split; [apply find_none|].
  induction l as [|x l IH]; simpl; intros H; [reflexivity|].
  rewrite (H x) by auto. apply IH; auto.
Qed.

(* a claim covers a pair *)
Definition covers (cl : claim) (s c : N) : Prop :=
  c_svlan cl = s /\ (c_sel cl = SelAny \/ c_sel cl = SelExact c).

Lemma no_exact_zero cfg s : find (key_eqb s (SelExact 0)) (claims cfg) = None.
Proof.
  apply find_none_iff; intros x Hx. destruct (key_eqb s (SelExact 0) x) eqn:K; [|reflexivity].
  apply key_eqb_eq in K; inversion K as [[Hs Hsel]].
  apply claims_wf in Hx as [_ Hw]. rewrite <- Hsel in Hw. lia.
Qed.

(* untagged inner VLAN: only a wildcard range can match *)
Lemma untagged cfg s :
  lookup (build cfg) s 0 =
  match find (key_eqb s SelAny) (claims cfg) with
  | Some c => Some (c_name c, c_idx c)
  | None => None
  end.
Proof. rewrite lookup_is_reference; unfold ref_lookup, ref_lookup_in; rewrite no_exact_zero; reflexivity. Qed.

Lemma uncovered cfg s c :
  (forall cl, In cl (claims cfg) -> ~ covers cl s c) -> lookup (build cfg) s c = None.
Proof.
  intros H; rewrite lookup_is_reference; unfold ref_lookup, ref_lookup_in.
  assert (E1 : find (key_eqb s (SelExact c)) (claims cfg) = None).
  { apply find_none_iff; intros x Hx. destruct (key_eqb s (SelExact c) x) eqn:K; [|reflexivity].
    apply key_eqb_eq in K; inversion K. exfalso; apply (H x Hx); split; auto. }
  assert (E2 : find (key_eqb s SelAny) (claims cfg) = None).
  { apply find_none_iff; intros x Hx. destruct (key_eqb s SelAny x) eqn:K; [|reflexivity].
    apply key_eqb_eq in K; inversion K. exfalso; apply (H x Hx); split; auto. }
  rewrite E1, E2; reflexivity.
Qed.

(* the answer always comes from a claim that covers the pair; an exact claimant beats any wildcard *)
Lemma lookup_sound cfg s c n i :
  lookup (build cfg) s c = Some (n, i) ->
  exists cl, In cl (claims cfg) /\ covers cl s c /\ c_name cl = n /\ c_idx cl = i.
Proof.
  rewrite lookup_is_reference; unfold ref_lookup, ref_lookup_in.
  destruct (find (key_eqb s (SelExact c)) (claims cfg)) as [cl|] eqn:E1.
  - intros H; inversion H; subst. apply find_some in E1 as [Hin K].
    apply key_eqb_eq in K; inversion K. exists cl; repeat split; auto.
  - destruct (find (key_eqb s SelAny) (claims cfg)) as [cl|] eqn:E2; [|discriminate].
    intros H; inversion H; subst. apply find_some in E2 as [Hin K].
    apply key_eqb_eq in K; inversion K. exists cl; repeat split; auto.
Qed.

Lemma exact_wins cfg s c cl :
  In cl (claims cfg) -> c_svlan cl = s -> c_sel cl = SelExact c ->
  exists cl', In cl' (claims cfg) /\ c_svlan cl' = s /\ c_sel cl' = SelExact c /\
              lookup (build cfg) s c = Some (c_name cl', c_idx cl').
Proof.
  intros Hin Hs Hse. rewrite lookup_is_reference; unfold ref_lookup, ref_lookup_in.
  destruct (find (key_eqb s (SelExact c)) (claims cfg)) as [cl'|] eqn:E1.
  - apply find_some in E1 as [Hin' K]. apply key_eqb_eq in K; inversion K.
    exists cl'; repeat split; auto.
  - exfalso. apply (proj1 (find_none_iff _ _)) with (x := cl) in E1; [|exact Hin].
    assert (key_eqb s (SelExact c) cl = true) by (apply key_eqb_eq; unfold key; congruence).
    congruence.
Qed.

(* ---------- validation ---------- *)
Lemma sel_eq_dec (a b : sel) : {a = b} + {a <> b}.
Proof. decide equality; apply N.eq_dec. Qed.

Lemma validate_aux_none cs : forall seen,
  validate_aux seen cs = None <->
  (NoDup (map key cs) /\ forall c, In c cs -> ~ In (key c) (map key seen)).
Proof.
  induction cs as [|c cs IH]; intros seen; simpl.
  - split; [intros _; split; [constructor|tauto]|reflexivity].
  - destruct (find (key_eqb (c_svlan c) (c_sel c)) seen) as [p|] eqn:E.
    + split; [discriminate|]. intros [_ H]. exfalso. apply (H c (or_introl eq_refl)).
      apply find_some in E as [Hin K]. apply key_eqb_eq in K.
      apply in_map_iff; exists p; split; auto.
    + rewrite IH; simpl. split.
      * intros [Hnd Hs]; split.
        -- constructor; [|exact Hnd]. intros Hin. apply in_map_iff in Hin as [c' [Hk Hc']].
           apply (Hs c' Hc'). left; auto.
        -- intros c' [<-|Hc'].
           ++ intros Hin. apply in_map_iff in Hin as [p [Hk Hp]].
              apply (proj1 (find_none_iff _ _)) with (x := p) in E; [|exact Hp].
              assert (key_eqb (c_svlan c) (c_sel c) p = true) by (apply key_eqb_eq; unfold key in *; congruence).
              congruence.
           ++ intros Hin. apply (Hs c' Hc'). right; exact Hin.
      * intros [Hnd Hs]. inversion Hnd as [|? ? Hni Hnd']; subst. split; [exact Hnd'|].
        intros c' Hc' [Hk|Hin].
        -- apply Hni. rewrite Hk. apply in_map; exact Hc'.
        -- apply (Hs c' (or_intror Hc')); exact Hin.
Qed.

Lemma validate_accepts_iff cfg : validate cfg = None <-> NoDup (map key (claims cfg)).
Proof.
  unfold validate; rewrite validate_aux_none; simpl; split; [tauto|]. intros H; split; [exact H|tauto].
Qed.

Lemma NoDup_map_inj {A B} (f : A -> B) l x y :
  NoDup (map f l) -> In x l -> In y l -> f x = f y -> x = y.
Proof.
  induction l as [|a l IH]; simpl; [tauto|]. intros Hnd Hx Hy E.
  inversion Hnd as [|? ? Hni Hnd']; subst.
  destruct Hx as [<-|Hx], Hy as [<-|Hy]; auto.
  - exfalso; apply Hni; rewrite E; apply in_map; auto.
  - exfalso; apply Hni; rewrite <- E; apply in_map; auto.
Qed.

(* accepted configuration: at most one claimant per (svlan, selector) *)
Lemma validate_sound cfg c1 c2 :
  validate cfg = None -> In c1 (claims cfg) -> In c2 (claims cfg) ->
  c_svlan c1 = c_svlan c2 -> c_sel c1 = c_sel c2 -> c1 = c2.
Proof.
  intros V H1 H2 Hs Hse. apply validate_accepts_iff in V.
  eapply NoDup_map_inj; eauto. unfold key; congruence.
Qed.

(* rejected configuration: the reported collision is real *)
Lemma validate_aux_some cs : forall seen s se p n,
  validate_aux seen cs = Some (s, se, p, n) ->
  exists c1 c2, In c1 (seen ++ cs) /\ In c2 cs /\ key c1 = (s, se) /\ key c2 = (s, se) /\
                c_name c1 = p /\ c_name c2 = n.
Proof.
  induction cs as [|c cs IH]; intros seen s se p n; simpl; [discriminate|].
  destruct (find (key_eqb (c_svlan c) (c_sel c)) seen) as [q|] eqn:E.
  - intros H; inversion H; subst. apply find_some in E as [Hin K]. apply key_eqb_eq in K.
    exists q, c; repeat split; auto. apply in_or_app; left; exact Hin.
  - intros H. apply IH in H as [c1 [c2 [H1 [H2 H3]]]]. exists c1, c2; repeat split; try tauto.
    simpl in H1. apply in_app_iff. destruct H1 as [<-|H1]; [right; left; reflexivity|].
    apply in_app_iff in H1 as [H1|H1]; [left; exact H1|right; right; exact H1].
Qed.

(* ---------- order independence: Go's map iteration order is irrelevant ---------- *)
Definition str_lt (a b : str) : Prop := str_ltb a b = true.

Lemma str_ltb_irrefl a : str_ltb a a = false.
Proof. induction a as [|x a IH]; simpl; [reflexivity|]. rewrite N.ltb_irrefl, N.eqb_refl; exact IH. Qed.

Lemma str_ltb_trans a : forall b c, str_ltb a b = true -> str_ltb b c = true -> str_ltb a c = true.
Proof.
  induction a as [|x a IH]; intros [|y b] [|z c]; simpl; try discriminate; auto.
  destruct (N.ltb_spec x y) as [Hxy|Hxy].
  - intros _. destruct (N.ltb_spec y z) as [Hyz|Hyz].
    + intros _. destruct (N.ltb_spec x z); [reflexivity|lia].
    + destruct (N.eqb_spec y z) as [->|]; [|discriminate]. intros _.
      destruct (N.ltb_spec x z); [reflexivity|lia].
  - destruct (N.eqb_spec x y) as [->|]; [|discriminate]. intros Hab.
    destruct (N.ltb_spec y z) as [Hyz|Hyz]; [reflexivity|].
    destruct (N.eqb_spec y z) as [->|]; [|discriminate]. apply IH; exact Hab.
Qed.

Lemma str_ltb_total a : forall b, str_ltb a b = false -> str_ltb b a = false -> a = b.
Proof.
  induction a as [|x a IH]; intros [|y b]; simpl; try discriminate; auto.
  destruct (N.ltb_spec x y) as [Hxy|Hxy]; [discriminate|].
  destruct (N.ltb_spec y x) as [Hyx|Hyx].
  - destruct (N.eqb_spec x y); [lia|]. discriminate.
  - assert (x = y) by lia; subst. rewrite N.eqb_refl. intros H1 H2. f_equal. apply IH; assumption.
Qed.

Definition glt (g h : group) : Prop := str_lt (fst g) (fst h).

Lemma glt_trans g h k : glt g h -> glt h k -> glt g k.
Proof. unfold glt, str_lt; apply str_ltb_trans. Qed.
Lemma glt_irrefl g : ~ glt g g.
Proof. unfold glt, str_lt; rewrite str_ltb_irrefl; discriminate. Qed.

Lemma insert_group_perm g l : Permutation (insert_group g l) (g :: l).
Proof.
  induction l as [|h t IH]; simpl; [apply Permutation_refl|].
  destruct (str_ltb (fst h) (fst g)); [|apply Permutation_refl].
  eapply Permutation_trans; [apply perm_skip; exact IH|apply perm_swap].
Qed.

Lemma sort_groups_perm c : Permutation (sort_groups c) c.
Proof.
  induction c as [|g c IH]; simpl; [constructor|].
  eapply Permutation_trans; [apply insert_group_perm|apply perm_skip; exact IH].
Qed.

Lemma insert_group_hd g l a :
  glt a g -> HdRel glt a l -> HdRel glt a (insert_group g l).
Proof.
  intros Hag Hl. destruct l as [|h t]; simpl; [constructor; exact Hag|].
  destruct (str_ltb (fst h) (fst g)); constructor; [inversion Hl; assumption|exact Hag].
Qed.

Lemma insert_group_sorted g l :
  Sorted glt l -> ~ In (fst g) (map fst l) -> Sorted glt (insert_group g l).
Proof.
  induction l as [|h t IH]; simpl; intros Hs Hni; [repeat constructor|].
  inversion Hs as [|? ? Hst Hhd]; subst.
  destruct (str_ltb (fst h) (fst g)) eqn:E.
  - constructor; [apply IH; [exact Hst|tauto]|]. apply insert_group_hd; [exact E|exact Hhd].
  - constructor; [exact Hs|]. constructor. unfold glt, str_lt.
    destruct (str_ltb (fst g) (fst h)) eqn:F; [reflexivity|].
    exfalso; apply Hni; left. apply str_ltb_total; assumption.
Qed.

Lemma sort_groups_sorted c : NoDup (map fst c) -> Sorted glt (sort_groups c).
Proof.
  induction c as [|g c IH]; simpl; intros Hnd; [constructor|].
  inversion Hnd as [|? ? Hni Hnd']; subst.
  apply insert_group_sorted; [apply IH; exact Hnd'|].
  intros Hin; apply Hni. eapply Permutation_in; [|exact Hin].
  apply Permutation_map, sort_groups_perm.
Qed.

Lemma sorted_perm_unique l : forall l',
  Sorted glt l -> Sorted glt l' -> Permutation l l' -> l = l'.
Proof.
  induction l as [|a l IH]; intros l' Hs Hs' Hp.
  - apply Permutation_nil in Hp; subst; reflexivity.
  - destruct l' as [|b l']; [apply Permutation_sym, Permutation_nil in Hp; discriminate|].
    apply Sorted_StronglySorted in Hs; [|intros x y z; apply glt_trans].
    apply Sorted_StronglySorted in Hs'; [|intros x y z; apply glt_trans].
    inversion Hs as [|? ? Hsl Hal]; subst. inversion Hs' as [|? ? Hsl' Hbl']; subst.
    assert (a = b) as ->.
    { assert (Ha : In a (b :: l')) by (eapply Permutation_in; [exact Hp|left; reflexivity]).
      assert (Hb : In b (a :: l)) by (eapply Permutation_in; [apply Permutation_sym; exact Hp|left; reflexivity]).
      destruct Ha as [->|Ha]; [reflexivity|]. destruct Hb as [->|Hb]; [reflexivity|].
      rewrite Forall_forall in Hal, Hbl'. exfalso. apply (glt_irrefl a).
      eapply glt_trans; [apply Hal; exact Hb|apply Hbl'; exact Ha]. }
    f_equal. apply IH.
    + apply StronglySorted_Sorted; exact Hsl.
    + apply StronglySorted_Sorted; exact Hsl'.
    + eapply Permutation_cons_inv; exact Hp.
Qed.

Lemma sort_groups_order_independent c c' :
  NoDup (map fst c) -> Permutation c c' -> sort_groups c = sort_groups c'.
Proof.
  intros Hnd Hp. apply sorted_perm_unique.
  - apply sort_groups_sorted; exact Hnd.
  - apply sort_groups_sorted. eapply Permutation_NoDup; [apply Permutation_map; exact Hp|exact Hnd].
  - eapply Permutation_trans; [apply sort_groups_perm|].
    eapply Permutation_trans; [exact Hp|apply Permutation_sym, sort_groups_perm].
Qed.

Lemma order_independent c c' :
  NoDup (map fst c) -> Permutation c c' ->
  build c = build c' /\ validate c = validate c' /\
  forall s cv, lookup (build c) s cv = lookup (build c') s cv.
Proof.
  intros Hnd Hp. assert (E : claims c = claims c').
  { unfold claims; rewrite (sort_groups_order_independent c c' Hnd Hp); reflexivity. }
  unfold build, validate; rewrite E; repeat split; reflexivity.
Qed.

(* ---------- the parser accepts only  ws* digits (ws* "-" ws* digits)? ws*  ---------- *)
Definition all_space (s : str) : Prop := forallb is_space s = true.

Inductive vlan_syntax : str -> N -> N -> Prop :=
| VS_single pre d post v :
    all_space pre -> all_space post -> d <> [] -> digits_val 0 d = Some v ->
    vlan_syntax (pre ++ d ++ post) v v
| VS_range pre d1 w1 w2 d2 post a b :
    all_space pre -> all_space w1 -> all_space w2 -> all_space post ->
    d1 <> [] -> d2 <> [] -> digits_val 0 d1 = Some a -> digits_val 0 d2 = Some b ->
    vlan_syntax (pre ++ d1 ++ w1 ++ [dash] ++ w2 ++ d2 ++ post) a b.

Lemma all_space_app a b : all_space a -> all_space b -> all_space (a ++ b).
Proof. unfold all_space; rewrite forallb_app; intros -> ->; reflexivity. Qed.
Lemma all_space_rev a : all_space a -> all_space (rev a).
Proof.
  unfold all_space; rewrite !forallb_forall; intros H x Hx; apply H, in_rev; exact Hx.
Qed.

Lemma drop_space_spec s : exists pre, s = pre ++ drop_space s /\ all_space pre.
Proof.
  induction s as [|c s [pre [E Hp]]]; simpl.
  - exists []; split; reflexivity.
  - destruct (is_space c) eqn:Hc.
    + exists (c :: pre); split; [simpl; f_equal; exact E|]. unfold all_space; simpl; rewrite Hc; exact Hp.
    + exists []; split; reflexivity.
Qed.

Lemma trim_spec s : exists pre post, s = pre ++ trim s ++ post /\ all_space pre /\ all_space post.
Proof.
  destruct (drop_space_spec s) as [pre [E Hp]].
  destruct (drop_space_spec (rev (drop_space s))) as [q [F Hq]].
  exists pre, (rev q); repeat split; [|exact Hp|apply all_space_rev; exact Hq].
  unfold trim. rewrite <- rev_app_distr, <- F, rev_involutive. exact E.
Qed.

Fixpoint join_dash (ps : list str) : str :=
  match ps with
  | [] => []
  | [p] => p
  | p :: rest => p ++ dash :: join_dash rest
  end.

Lemma split_dash_aux_nonempty cur s : split_dash_aux cur s <> [].
Proof. revert cur; induction s as [|c s IH]; intros cur; simpl; [discriminate|]. destruct (N.eqb c dash); [discriminate|apply IH]. Qed.

Lemma split_dash_aux_join s : forall cur, join_dash (split_dash_aux cur s) = rev cur ++ s.
Proof.
  induction s as [|c s IH]; intros cur; simpl.
  - rewrite app_nil_r; reflexivity.
  - destruct (N.eqb_spec c dash) as [->|Hc].
    + specialize (IH []). simpl in IH.
      destruct (split_dash_aux [] s) as [|p ps] eqn:E; [exfalso; eapply split_dash_aux_nonempty; exact E|].
      simpl. f_equal. f_equal. exact IH.
    + rewrite IH; simpl. rewrite <- app_assoc; reflexivity.
Qed.

Lemma parse_uint16_spec s v : parse_uint16 s = Some v -> s <> [] /\ digits_val 0 s = Some v.
Proof.
  unfold parse_uint16. destruct s as [|c s]; [discriminate|].
  destruct (digits_val 0 (c :: s)) as [w|]; [|discriminate].
  destruct (N.leb w 65535); [|discriminate]. intros E; inversion E; subst. split; [discriminate|reflexivity].
Qed.

Lemma parse_vlan_range_syntax s l :
  parse_vlan_range s = Some l ->
  exists a b, vlan_syntax s a b /\ (1 <= a <= b)%N /\ (b <= 4094)%N /\ l = nseq a (N.to_nat (b - a + 1)).
Proof.
  unfold parse_vlan_range.
  destruct (trim_spec s) as [pre [post [Es [Hpre Hpost]]]].
  destruct (contains_dash (trim s)).
  - destruct (split_dash (trim s)) as [|p0 [|p1 [|? ?]]] eqn:Sp; try discriminate.
    assert (Em : trim s = p0 ++ dash :: p1).
    { pose proof (split_dash_aux_join (trim s) []) as J. unfold split_dash in Sp. rewrite Sp in J. simpl in J. symmetry; exact J. }
    destruct (parse_uint16 (trim p0)) as [a|] eqn:Pa; [|discriminate].
    destruct (parse_uint16 (trim p1)) as [b|] eqn:Pb; [|discriminate].
    destruct (N.ltb_spec b a); [discriminate|].
    destruct (N.eqb_spec a 0); [discriminate|].
    destruct (N.eqb_spec b 0); [discriminate|]. simpl.
    destruct (N.ltb_spec 4094 b); [discriminate|].
    intros E; inversion E; subst l; clear E.
    apply parse_uint16_spec in Pa as [Na Da]. apply parse_uint16_spec in Pb as [Nb Db].
    destruct (trim_spec p0) as [w0 [w1 [E0 [Hw0 Hw1]]]].
    destruct (trim_spec p1) as [w2 [w3 [E1 [Hw2 Hw3]]]].
    exists a, b; split; [|repeat split; try lia].
    remember (trim p0) as d1 eqn:Hd1. remember (trim p1) as d2 eqn:Hd2. remember (trim s) as m eqn:Hm.
    assert (Es' : s = (pre ++ w0) ++ d1 ++ w1 ++ [dash] ++ w2 ++ d2 ++ (w3 ++ post)).
    { rewrite Es, Em, E0, E1. repeat (rewrite <- app_assoc; simpl). reflexivity. }
    rewrite Es'. apply VS_range; auto using all_space_app.
  - destruct (parse_uint16 (trim s)) as [v|] eqn:Pv; [|discriminate].
    destruct (N.eqb_spec v 0); [discriminate|].
    destruct (N.ltb_spec 4094 v); [discriminate|].
    intros E; inversion E; subst l; clear E.
    apply parse_uint16_spec in Pv as [Nv Dv].
    exists v, v; split; [|repeat split; try lia].
    + rewrite Es. apply VS_single; auto.
    + replace (v - v + 1)%N with 1%N by lia. reflexivity.
Qed.

(* decimal digits only: a value accepted by digits_val is built from '0'..'9' *)
Lemma digits_val_digits s : forall acc v, digits_val acc s = Some v -> forallb is_digit s = true.
Proof.
  induction s as [|c s IH]; intros acc v; simpl; [reflexivity|].
  destruct (is_digit c); [|discriminate]. intros H; simpl; eapply IH; exact H.
Qed.

(* ====================================================================================== *)
(* ---------- completeness of the parsers: trim / split lemmas ---------- *)
From Coq Require Import ZifyBool ZifyNat ZifyN.

Definition head_ok (m : str) : bool := match m with [] => true | c :: _ => negb (is_space c) end.

Lemma drop_space_all_space pre r : all_space pre -> drop_space (pre ++ r) = drop_space r.
Proof.
  unfold all_space. induction pre as [|c pre IH]; simpl; [reflexivity|].
  destruct (is_space c); simpl; [exact IH|discriminate].
Qed.

Lemma drop_space_nil s : all_space s -> drop_space s = [].
Proof. intros H. pose proof (drop_space_all_space s [] H) as E. rewrite app_nil_r in E. exact E. Qed.

Lemma drop_space_head_ok m : head_ok m = true -> drop_space m = m.
Proof. destruct m as [|c m]; simpl; [reflexivity|]. destruct (is_space c); [discriminate|reflexivity]. Qed.

Lemma drop_space_head_ok_app m x : head_ok m = true -> m <> [] -> drop_space (m ++ x) = m ++ x.
Proof. destruct m as [|c m]; [congruence|]. simpl. destruct (is_space c); [discriminate|reflexivity]. Qed.

Lemma trim_core pre m post :
  all_space pre -> all_space post -> head_ok m = true -> head_ok (rev m) = true ->
  trim (pre ++ m ++ post) = m.
Proof.
  intros Hpre Hpost H1 H2. unfold trim. rewrite drop_space_all_space by exact Hpre.
  destruct m as [|c m'].
  - simpl. rewrite (drop_space_nil post Hpost). reflexivity.
  - rewrite drop_space_head_ok_app by (exact H1 || discriminate).
    rewrite rev_app_distr. rewrite drop_space_all_space by (apply all_space_rev; exact Hpost).
    rewrite drop_space_head_ok by exact H2. apply rev_involutive.
Qed.

Lemma trim_all_space s : all_space s -> trim s = [].
Proof. intros H. unfold trim. rewrite (drop_space_nil s H). reflexivity. Qed.

Lemma digit_not_space c : is_digit c = true -> is_space c = false.
Proof. unfold is_digit, is_space. lia. Qed.
Lemma digit_not_dash c : is_digit c = true -> N.eqb dash c = false.
Proof. unfold is_digit, dash. lia. Qed.
Lemma space_not_dash c : is_space c = true -> N.eqb dash c = false.
Proof. unfold is_space, dash. lia. Qed.

Lemma forallb_rev_true {A} (f : A -> bool) l : forallb f l = true -> forallb f (rev l) = true.
Proof. rewrite !forallb_forall; intros H x Hx; apply H, in_rev; exact Hx. Qed.

Lemma digits_head_ok d : forallb is_digit d = true -> head_ok d = true.
Proof.
  destruct d as [|c d]; simpl; [reflexivity|]. rewrite andb_true_iff; intros [H _].
  rewrite (digit_not_space c H). reflexivity.
Qed.

Lemma head_ok_app x y : x <> [] -> head_ok (x ++ y) = head_ok x.
Proof. destruct x; [congruence|reflexivity]. Qed.

Lemma rev_nonempty {A} (l : list A) : l <> [] -> rev l <> [].
Proof. destruct l; [congruence|]. simpl. intros _ E. apply app_eq_nil in E as [_ E]. discriminate. Qed.

Lemma nodash_forall (P : N -> bool) l :
  (forall c, P c = true -> N.eqb dash c = false) -> forallb P l = true -> contains_dash l = false.
Proof.
  intros HP. unfold contains_dash. induction l as [|c l IH]; cbn [existsb forallb]; [reflexivity|].
  rewrite andb_true_iff; intros [Hc Hl]. rewrite (HP c Hc), (IH Hl). reflexivity.
Qed.
Lemma nodash_digits d : forallb is_digit d = true -> contains_dash d = false.
Proof. apply nodash_forall, digit_not_dash. Qed.
Lemma nodash_spaces w : all_space w -> contains_dash w = false.
Proof. apply nodash_forall, space_not_dash. Qed.
Lemma contains_dash_app a b : contains_dash (a ++ b) = contains_dash a || contains_dash b.
Proof. unfold contains_dash; apply existsb_app. Qed.

Lemma split_dash_aux_nodash x : forall cur, contains_dash x = false -> split_dash_aux cur x = [rev cur ++ x].
Proof.
  unfold contains_dash. induction x as [|c x IH]; intros cur; cbn [existsb split_dash_aux app].
  - rewrite app_nil_r; reflexivity.
  - rewrite orb_false_iff; intros [Hc Hx]. rewrite N.eqb_sym in Hc. rewrite Hc.
    rewrite (IH (c :: cur) Hx); cbn [rev]. rewrite <- app_assoc; reflexivity.
Qed.

Lemma split_dash_aux_app x y : forall cur, contains_dash x = false ->
  split_dash_aux cur (x ++ dash :: y) = (rev cur ++ x) :: split_dash_aux [] y.
Proof.
  unfold contains_dash. induction x as [|c x IH]; intros cur; cbn [existsb split_dash_aux app].
  - intros _. rewrite N.eqb_refl, app_nil_r; reflexivity.
  - rewrite orb_false_iff; intros [Hc Hx]. rewrite N.eqb_sym in Hc. rewrite Hc.
    rewrite (IH (c :: cur) Hx); cbn [rev]. rewrite <- app_assoc; reflexivity.
Qed.

Lemma parse_uint16_complete d v :
  d <> [] -> digits_val 0 d = Some v -> (v <= 65535)%N -> parse_uint16 d = Some v.
Proof.
  intros Hd Hv Hle. unfold parse_uint16. destruct d as [|c d]; [congruence|].
  rewrite Hv. destruct (N.leb_spec v 65535); [reflexivity|lia].
Qed.

Lemma parse_vlan_range_complete s a b :
  vlan_syntax s a b -> (1 <= a <= b)%N -> (b <= 4094)%N ->
  parse_vlan_range s = Some (nseq a (N.to_nat (b - a + 1))).
Proof.
  intros Hs Hab Hb. destruct Hs as [pre d post v Hpre Hpost Hd Hv | pre d1 w1 w2 d2 post a b Hpre Hw1 Hw2 Hpost Hd1 Hd2 Ha Hbv].
  - pose proof (digits_val_digits _ _ _ Hv) as Dd.
    unfold parse_vlan_range.
    rewrite (trim_core pre d post Hpre Hpost (digits_head_ok d Dd)
               (digits_head_ok _ (forallb_rev_true _ _ Dd))).
    rewrite (nodash_digits d Dd).
    rewrite (parse_uint16_complete d v Hd Hv) by lia.
    destruct (N.eqb_spec v 0); [lia|]. destruct (N.ltb_spec 4094 v); [lia|].
    replace (v - v + 1)%N with 1%N by lia. reflexivity.
  - pose proof (digits_val_digits _ _ _ Ha) as D1. pose proof (digits_val_digits _ _ _ Hbv) as D2.
    set (m := (d1 ++ w1) ++ dash :: (w2 ++ d2)).
    assert (Es : pre ++ d1 ++ w1 ++ [dash] ++ w2 ++ d2 ++ post = pre ++ m ++ post).
    { unfold m. repeat (rewrite <- app_assoc; simpl). reflexivity. }
    assert (Hm1 : head_ok m = true).
    { unfold m. rewrite <- app_assoc. rewrite head_ok_app by exact Hd1. apply digits_head_ok; exact D1. }
    assert (Hm2 : head_ok (rev m) = true).
    { unfold m. replace ((d1 ++ w1) ++ dash :: w2 ++ d2) with (((d1 ++ w1) ++ dash :: w2) ++ d2)
        by (repeat (rewrite <- app_assoc; simpl); reflexivity).
      rewrite rev_app_distr. rewrite head_ok_app by (apply rev_nonempty; exact Hd2).
      apply digits_head_ok, forallb_rev_true; exact D2. }
    unfold parse_vlan_range. rewrite Es, (trim_core pre m post Hpre Hpost Hm1 Hm2).
    assert (Hc : contains_dash m = true).
    { unfold m. rewrite contains_dash_app.
      assert (E : contains_dash (dash :: w2 ++ d2) = true)
        by (unfold contains_dash; cbn [existsb]; rewrite N.eqb_refl; reflexivity).
      rewrite E. apply orb_true_r. }
    rewrite Hc.
    assert (N1 : contains_dash (d1 ++ w1) = false).
    { rewrite contains_dash_app, (nodash_digits d1 D1), (nodash_spaces w1 Hw1). reflexivity. }
    assert (N2 : contains_dash (w2 ++ d2) = false).
    { rewrite contains_dash_app, (nodash_digits d2 D2), (nodash_spaces w2 Hw2). reflexivity. }
    unfold split_dash, m. rewrite (split_dash_aux_app _ _ [] N1), (split_dash_aux_nodash _ [] N2). cbn [rev app].
    assert (T1 : trim (d1 ++ w1) = d1).
    { apply (trim_core [] d1 w1); [reflexivity|exact Hw1|apply digits_head_ok; exact D1|
                                   apply digits_head_ok, forallb_rev_true; exact D1]. }
    assert (T2 : trim (w2 ++ d2) = d2).
    { pose proof (trim_core w2 d2 [] Hw2 eq_refl (digits_head_ok d2 D2)
                    (digits_head_ok _ (forallb_rev_true _ _ D2))) as T. rewrite app_nil_r in T. exact T. }
    rewrite T1, T2.
    rewrite (parse_uint16_complete d1 a Hd1 Ha) by lia.
    rewrite (parse_uint16_complete d2 b Hd2 Hbv) by lia.
    destruct (N.ltb_spec b a); [lia|].
    destruct (N.eqb_spec a 0); [lia|]. destruct (N.eqb_spec b 0); [lia|]. simpl.
    destruct (N.ltb_spec 4094 b); [lia|]. reflexivity.
Qed.

(* exact characterisation of the accepted range strings *)
Lemma parse_vlan_range_iff s l :
  parse_vlan_range s = Some l <->
  exists a b, vlan_syntax s a b /\ (1 <= a <= b)%N /\ (b <= 4094)%N /\ l = nseq a (N.to_nat (b - a + 1)).
Proof.
  split; [apply parse_vlan_range_syntax|].
  intros [a [b [Hs [Hab [Hb ->]]]]]. apply parse_vlan_range_complete; assumption.
Qed.

(* ---------- ParseCVLAN: syntax and completeness ---------- *)
Inductive cvlan_syntax : str -> sel -> Prop :=
| CS_blank s : all_space s -> cvlan_syntax s SelAny
| CS_any pre w post :
    all_space pre -> all_space post -> map lower w = s_any -> cvlan_syntax (pre ++ w ++ post) SelAny
| CS_exact pre d post v :
    all_space pre -> all_space post -> d <> [] -> digits_val 0 d = Some v ->
    cvlan_syntax (pre ++ d ++ post) (SelExact v).

Definition sel_in_range (r : sel) : Prop :=
  match r with SelAny => True | SelExact v => (1 <= v <= 4094)%N end.

Lemma str_eqb_eq a : forall b, str_eqb a b = true <-> a = b.
Proof.
  unfold str_eqb. induction a as [|x a IH]; intros [|y b]; simpl; try (split; discriminate).
  - split; reflexivity.
  - specialize (IH b). rewrite !andb_true_iff in *. rewrite N.eqb_eq. split.
    + intros [Hl [Hxy Hf]]. f_equal; [exact Hxy|apply IH; split; assumption].
    + intros E; inversion E; subst. destruct (proj2 IH eq_refl) as [? ?]. repeat split; auto.
Qed.

Lemma parse_cvlan_syntax s r : parse_cvlan s = Some r -> cvlan_syntax s r /\ sel_in_range r.
Proof.
  unfold parse_cvlan. destruct (trim_spec s) as [pre [post [Es [Hpre Hpost]]]].
  destruct (trim s) as [|h t] eqn:Et.
  - intros E; inversion E; subst r; clear E. split; [|exact I].
    apply CS_blank. rewrite Es. simpl. apply all_space_app; assumption.
  - destruct (str_eqb (map lower (h :: t)) s_any) eqn:Ea.
    + intros E; inversion E; subst r; clear E. split; [|exact I].
      rewrite Es. apply CS_any; [exact Hpre|exact Hpost|apply str_eqb_eq; exact Ea].
    + destruct (parse_uint16 (h :: t)) as [v|] eqn:Pv; [|discriminate].
      destruct (N.eqb_spec v 0); [discriminate|].
      destruct (N.ltb_spec 4094 v); [discriminate|].
      intros E; inversion E; subst r; clear E. apply parse_uint16_spec in Pv as [Nv Dv].
      split; [|simpl; lia]. rewrite Es. apply CS_exact; assumption.
Qed.

Lemma lower_any_not_space c v :
  lower c = v -> (v = 97 \/ v = 110 \/ v = 121)%N -> is_space c = false.
Proof. unfold lower, is_space. destruct (N.leb 65 c && N.leb c 90) eqn:E; lia. Qed.

Lemma lower_digit c : is_digit c = true -> lower c = c.
Proof. unfold lower, is_digit. destruct (N.leb 65 c && N.leb c 90) eqn:E; lia. Qed.

Lemma parse_cvlan_complete s r : cvlan_syntax s r -> sel_in_range r -> parse_cvlan s = Some r.
Proof.
  intros Hs Hr. destruct Hs as [s Hsp | pre w post Hpre Hpost Hw | pre d post v Hpre Hpost Hd Hv].
  - unfold parse_cvlan. rewrite (trim_all_space s Hsp). reflexivity.
  - destruct w as [|c1 [|c2 [|c3 [|c4 w]]]]; try discriminate Hw.
    inversion Hw as [[L1 L2 L3]].
    assert (S1 : is_space c1 = false) by (eapply lower_any_not_space; [exact L1|auto]).
    assert (S3 : is_space c3 = false) by (eapply lower_any_not_space; [exact L3|auto]).
    unfold parse_cvlan. rewrite (trim_core pre [c1; c2; c3] post Hpre Hpost) by (simpl; rewrite ?S1, ?S3; reflexivity).
    assert (E : str_eqb (map lower [c1; c2; c3]) s_any = true) by (apply str_eqb_eq; exact Hw).
    rewrite E. reflexivity.
  - pose proof (digits_val_digits _ _ _ Hv) as Dd.
    unfold parse_cvlan.
    rewrite (trim_core pre d post Hpre Hpost (digits_head_ok d Dd)
               (digits_head_ok _ (forallb_rev_true _ _ Dd))).
    destruct d as [|c d]; [congruence|].
    assert (E : str_eqb (map lower (c :: d)) s_any = false).
    { destruct (str_eqb (map lower (c :: d)) s_any) eqn:E; [|reflexivity].
      apply str_eqb_eq in E. simpl in Dd. apply andb_true_iff in Dd as [Dc _].
      simpl in E. rewrite (lower_digit c Dc) in E. inversion E; subst c. discriminate Dc. }
    rewrite E. simpl in Hr. rewrite (parse_uint16_complete (c :: d) v Hd Hv) by lia.
    destruct (N.eqb_spec v 0); [lia|]. destruct (N.ltb_spec 4094 v); [lia|]. reflexivity.
Qed.

Lemma parse_cvlan_iff s r : parse_cvlan s = Some r <-> cvlan_syntax s r /\ sel_in_range r.
Proof. split; [apply parse_cvlan_syntax|]. intros [H1 H2]. apply parse_cvlan_complete; assumption. Qed.

(* which strings are the wildcard *)
Lemma parse_cvlan_any_iff s :
  parse_cvlan s = Some SelAny <-> trim s = [] \/ map lower (trim s) = s_any.
Proof.
  unfold parse_cvlan. destruct (trim s) as [|h t].
  - split; [left; reflexivity|reflexivity].
  - destruct (str_eqb (map lower (h :: t)) s_any) eqn:Ea.
    + split; [right; apply str_eqb_eq; exact Ea|reflexivity].
    + split.
      * destruct (parse_uint16 (h :: t)) as [v|]; [|discriminate].
        destruct (N.eqb v 0); [discriminate|]. destruct (N.ltb 4094 v); discriminate.
      * intros [H|H]; [discriminate|]. apply str_eqb_eq in H. congruence.
Qed.

(* ====================================================================================== *)
(* ---------- lookup is constant on the classes induced by the range endpoints ---------- *)
Definition pr (c : claim) : str * nat := (c_name c, c_idx c).

Lemma ref_lookup_pr cfg s c :
  ref_lookup cfg s c =
  match option_map pr (find (key_eqb s (SelExact c)) (claims cfg)) with
  | Some x => Some x
  | None => option_map pr (find (key_eqb s SelAny) (claims cfg))
  end.
Proof.
  unfold ref_lookup, ref_lookup_in. destruct (find (key_eqb s (SelExact c)) (claims cfg)); simpl; [reflexivity|].
  destruct (find (key_eqb s SelAny) (claims cfg)); reflexivity.
Qed.

(* x and x' compare the same way against every cut point *)
Definition ssim (cuts : list N) (x x' : N) : Prop := forall p, In p cuts -> N.leb p x = N.leb p x'.
Definition sel_sim (cuts : list N) (se se' : sel) : Prop :=
  match se, se' with
  | SelAny, SelAny => True
  | SelExact c, SelExact c' => ssim cuts c c'
  | _, _ => False
  end.

Lemma ssim_app A B x x' : ssim (A ++ B) x x' -> ssim A x x' /\ ssim B x x'.
Proof. unfold ssim; intros H; split; intros p Hp; apply H, in_or_app; [left|right]; exact Hp. Qed.
Lemma sel_sim_app A B se se' : sel_sim (A ++ B) se se' -> sel_sim A se se' /\ sel_sim B se se'.
Proof. destruct se, se'; simpl; try tauto. apply ssim_app. Qed.

Definition agree (s : N) (se : sel) (s' : N) (se' : sel) (L : list claim) : Prop :=
  option_map pr (find (key_eqb s se) L) = option_map pr (find (key_eqb s' se') L).

Lemma agree_nil s se s' se' : agree s se s' se' [].
Proof. reflexivity. Qed.

Lemma agree_app s se s' se' L1 L2 :
  agree s se s' se' L1 -> agree s se s' se' L2 -> agree s se s' se' (L1 ++ L2).
Proof.
  unfold agree; rewrite !find_app. intros H1 H2.
  destruct (find (key_eqb s se) L1), (find (key_eqb s' se') L1); simpl in *; try discriminate; auto.
Qed.

Definition mk_claim (se0 : sel) (name : str) (i : nat) (x : N) : claim :=
  {| c_svlan := x; c_sel := se0; c_name := name; c_idx := i |}.

Lemma find_block s se se0 name i svs :
  option_map pr (find (key_eqb s se) (map (mk_claim se0 name i) svs)) =
  if existsb (N.eqb s) svs && sel_eqb se se0 then Some (name, i) else None.
Proof.
  induction svs as [|x svs IH]; [reflexivity|].
  cbn [map find existsb]. unfold key_eqb at 1. cbn [mk_claim c_svlan c_sel].
  destruct (N.eqb s x); cbn [orb andb].
  - destruct (sel_eqb se se0) eqn:E2; [reflexivity|].
    rewrite IH, ?E2, andb_false_r. reflexivity.
  - exact IH.
Qed.

Lemma nseq_length a n : length (nseq a n) = n.
Proof. revert a; induction n as [|n IH]; intros a; simpl; [reflexivity|]. rewrite IH; reflexivity. Qed.

Lemma existsb_nseq s n : forall a,
  existsb (N.eqb s) (nseq a n) = N.leb a s && negb (N.leb (a + N.of_nat n) s).
Proof.
  induction n as [|n IH]; intros a; cbn [nseq existsb].
  - lia.
  - rewrite IH. rewrite Nat2N.inj_succ. lia.
Qed.

Lemma sel_eqb_exact_cuts c v :
  sel_eqb (SelExact c) (SelExact v) = N.leb v c && negb (N.leb (N.succ v) c).
Proof. cbn [sel_eqb]. lia. Qed.

(* one range's block of claims *)
Lemma agree_range s se s' se' name i (r : vrange) :
  ssim (range_scuts r) s s' -> sel_sim (range_ccuts r) se se' ->
  agree s se s' se'
    (match parse_vlan_range (fst r), parse_cvlan (snd r) with
     | Some svs, Some se0 => map (mk_claim se0 name i) svs
     | _, _ => []
     end).
Proof.
  unfold range_scuts, range_ccuts. intros Hs Hc.
  destruct (parse_vlan_range (fst r)) as [svs|] eqn:Pv; [|apply agree_nil].
  destruct (parse_cvlan (snd r)) as [se0|] eqn:Pc; [|apply agree_nil].
  unfold agree. rewrite !find_block.
  apply parse_vlan_range_syntax in Pv as [a [b [_ [Hab [Hb ->]]]]].
  destruct (N.to_nat (b - a + 1)) as [|k] eqn:Ek; [reflexivity|].
  cbn [nseq] in Hs.
  assert (El : length (a :: nseq (N.succ a) k) = S k) by (cbn [length]; rewrite nseq_length; reflexivity).
  rewrite El in Hs.
  rewrite !existsb_nseq.
  rewrite (Hs a) by (left; reflexivity).
  rewrite (Hs (a + N.of_nat (S k))%N) by (right; left; reflexivity).
  assert (E : sel_eqb se se0 = sel_eqb se' se0).
  { destruct se0 as [|v]; destruct se as [|c], se' as [|c']; simpl in Hc; try contradiction; try reflexivity.
    rewrite !sel_eqb_exact_cuts.
    rewrite (Hc v) by (left; reflexivity). rewrite (Hc (N.succ v)) by (right; left; reflexivity). reflexivity. }
  rewrite E. reflexivity.
Qed.

Lemma range_claims_mk name : forall rs i,
  range_claims name i rs =
  match rs with
  | [] => []
  | r :: rest =>
      (match parse_vlan_range (fst r), parse_cvlan (snd r) with
       | Some svs, Some se0 => map (mk_claim se0 name i) svs
       | _, _ => []
       end) ++ range_claims name (S i) rest
  end.
Proof. intros [|[sv cv] rest] i; reflexivity. Qed.

Lemma agree_range_claims s se s' se' name : forall rs i,
  ssim (flat_map range_scuts rs) s s' -> sel_sim (flat_map range_ccuts rs) se se' ->
  agree s se s' se' (range_claims name i rs).
Proof.
  induction rs as [|r rs IH]; intros i Hs Hc; [apply agree_nil|].
  rewrite range_claims_mk. cbn [flat_map] in Hs, Hc.
  apply ssim_app in Hs as [Hs1 Hs2]. apply sel_sim_app in Hc as [Hc1 Hc2].
  apply agree_app; [apply agree_range; assumption|apply IH; assumption].
Qed.

Lemma agree_claims_sorted s se s' se' : forall gs,
  ssim (flat_map (fun g : group => flat_map range_scuts (snd g)) gs) s s' ->
  sel_sim (flat_map (fun g : group => flat_map range_ccuts (snd g)) gs) se se' ->
  agree s se s' se' (claims_sorted gs).
Proof.
  unfold claims_sorted. induction gs as [|g gs IH]; intros Hs Hc; [apply agree_nil|].
  cbn [flat_map] in *. apply ssim_app in Hs as [Hs1 Hs2]. apply sel_sim_app in Hc as [Hc1 Hc2].
  apply agree_app; [apply agree_range_claims; assumption|apply IH; assumption].
Qed.

Lemma ref_lookup_class_invariant cfg s s' c c' :
  ssim (s_cuts cfg) s s' -> ssim (c_cuts cfg) c c' -> ref_lookup cfg s c = ref_lookup cfg s' c'.
Proof.
  intros Hs Hc. rewrite !ref_lookup_pr. unfold claims.
  pose proof (agree_claims_sorted s (SelExact c) s' (SelExact c') (sort_groups cfg) Hs Hc) as E1.
  pose proof (agree_claims_sorted s SelAny s' SelAny (sort_groups cfg) Hs I) as E2.
  unfold agree in E1, E2. rewrite E1, E2. reflexivity.
Qed.

Lemma lookup_class_invariant cfg s s' c c' :
  (forall p, In p (s_cuts cfg) -> N.leb p s = N.leb p s') ->
  (forall p, In p (c_cuts cfg) -> N.leb p c = N.leb p c') ->
  lookup (build cfg) s c = lookup (build cfg) s' c'.
Proof. intros Hs Hc. rewrite !lookup_is_reference. apply ref_lookup_class_invariant; assumption. Qed.

(* the representative: largest cut point <= x *)
Lemma rep_aux cuts x : forall m, (m <= x)%N ->
  let r := fold_left (fun m p => if (N.leb p x && N.ltb m p)%bool then p else m) cuts m in
  (m <= r <= x)%N /\ forall p, In p cuts -> (p <= x)%N -> (p <= r)%N.
Proof.
  induction cuts as [|q cuts IH]; intros m Hm; cbn [fold_left].
  - split; [lia|intros p []].
  - set (m' := if (N.leb q x && N.ltb m q)%bool then q else m).
    assert (Hm' : (m <= m' <= x)%N /\ ((q <= x)%N -> (q <= m')%N)).
    { unfold m'. destruct (N.leb_spec q x), (N.ltb_spec m q); cbn [andb]; lia. }
    destruct (IH m' (proj2 (proj1 Hm'))) as [Hr Hp]. cbv zeta in *. split; [lia|].
    intros p [<-|Hin] Hpx; [|apply Hp; assumption]. destruct Hm' as [_ Hq]. specialize (Hq Hpx). lia.
Qed.

Lemma rep_spec cuts x p : In p cuts -> N.leb p x = N.leb p (rep cuts x).
Proof.
  intros Hin. destruct (rep_aux cuts x 0%N (N.le_0_l x)) as [Hr Hp]. fold (rep cuts x) in Hr, Hp.
  specialize (Hp p Hin). destruct (N.leb_spec p x), (N.leb_spec p (rep cuts x)); try reflexivity; lia.
Qed.

Lemma rep_le cuts x : (rep cuts x <= x)%N.
Proof. destruct (rep_aux cuts x 0%N (N.le_0_l x)) as [Hr _]. fold (rep cuts x) in Hr. lia. Qed.

(* the sweep over one representative per class is the sweep over every pair *)
Lemma lookup_via_rep cfg s c :
  lookup (build cfg) s c = ref_lookup cfg (rep (s_cuts cfg) s) (rep (c_cuts cfg) c).
Proof.
  rewrite lookup_is_reference. apply ref_lookup_class_invariant; intros p Hp; apply rep_spec; exact Hp.
Qed.

(* ====================================================================================== *)
(* ---------- unparseable ranges: skipped by the index, rejected by ValidateMatchIndex (validate_strict) ---------- *)

(* BuildMatchIndex: a range whose svlan or cvlan string does not parse contributes no claim *)
Lemma malformed_range_no_claims name i sv cv rest :
  parse_vlan_range sv = None \/ parse_cvlan cv = None ->
  range_claims name i ((sv, cv) :: rest) = range_claims name (S i) rest.
Proof.
  intros H. cbn [range_claims]. destruct (parse_vlan_range sv) as [svs|]; [|reflexivity].
  destruct H as [H|H]; [discriminate|]. rewrite H. reflexivity.
Qed.

(* every range of every group parses *)
Definition all_parse (cfg : config) : Prop :=
  forall g r, In g cfg -> In r (snd g) -> range_ok r = true.

Definition verdict_of (o : option (N * sel * str * str)) : verdict :=
  match o with None => VOk | Some (s, se, p, n) => VCollision s se p n end.

Definition is_claim (it : item) : bool := match it with IClaim _ => true | IBad _ _ _ => false end.

Lemma strict_aux_claims cs : forall seen,
  strict_aux seen (map IClaim cs) = verdict_of (validate_aux seen cs).
Proof.
  induction cs as [|c cs IH]; intros seen; cbn [map strict_aux validate_aux]; [reflexivity|].
  destruct (find (key_eqb (c_svlan c) (c_sel c)) seen); [reflexivity|apply IH].
Qed.

Lemma strict_aux_ok_claims its : forall seen, strict_aux seen its = VOk -> forallb is_claim its = true.
Proof.
  induction its as [|[c|n i w] its IH]; intros seen; cbn [strict_aux forallb is_claim]; [reflexivity| |discriminate].
  destruct (find (key_eqb (c_svlan c) (c_sel c)) seen); [discriminate|]. intros H. apply (IH _ H).
Qed.

Lemma group_items_ok name : forall rs i,
  (forall r, In r rs -> range_ok r = true) -> group_items name i rs = map IClaim (range_claims name i rs).
Proof.
  induction rs as [|[sv cv] rs IH]; intros i H; [reflexivity|].
  cbn [group_items range_claims]. rewrite map_app, <- IH by (intros r Hr; apply H; right; exact Hr).
  f_equal. pose proof (H (sv, cv) (or_introl eq_refl)) as Hok. unfold range_ok, range_items in *. cbn [fst snd] in *.
  destruct (parse_vlan_range sv); [|discriminate]. destruct (parse_cvlan cv); [|discriminate].
  rewrite map_map. reflexivity.
Qed.

Lemma group_items_bad name : forall rs i,
  forallb is_claim (group_items name i rs) = true -> forall r, In r rs -> range_ok r = true.
Proof.
  induction rs as [|r0 rs IH]; intros i H r Hr; [destruct Hr|].
  cbn [group_items] in H. rewrite forallb_app in H. apply andb_true_iff in H as [H0 H1].
  destruct Hr as [<-|Hr]; [|eapply IH; eauto].
  unfold range_items, range_ok in *. destruct (parse_vlan_range (fst r0)); [|discriminate H0].
  destruct (parse_cvlan (snd r0)); [reflexivity|discriminate H0].
Qed.

Lemma in_sort_groups cfg g : In g (sort_groups cfg) <-> In g cfg.
Proof.
  split; apply Permutation_in; [apply sort_groups_perm|apply Permutation_sym, sort_groups_perm].
Qed.

Lemma items_ok cfg : all_parse cfg -> items cfg = map IClaim (claims cfg).
Proof.
  unfold all_parse, items, claims, claims_sorted. intros H.
  assert (H' : forall g r, In g (sort_groups cfg) -> In r (snd g) -> range_ok r = true)
    by (intros g r Hg; apply H, in_sort_groups; exact Hg).
  clear H. induction (sort_groups cfg) as [|g gs IH]; [reflexivity|].
  cbn [flat_map]. rewrite map_app. f_equal.
  - apply group_items_ok. intros r Hr. apply (H' g r (or_introl eq_refl) Hr).
  - apply IH. intros g' r Hg'. apply H'. right; exact Hg'.
Qed.

Lemma items_all_claims cfg : forallb is_claim (items cfg) = true -> all_parse cfg.
Proof.
  unfold all_parse, items. intros H g r Hg Hr. apply in_sort_groups in Hg.
  induction (sort_groups cfg) as [|g0 gs IH]; [destruct Hg|].
  cbn [flat_map] in H. rewrite forallb_app in H. apply andb_true_iff in H as [H0 H1].
  destruct Hg as [->|Hg]; [eapply group_items_bad; eauto|apply IH; assumption].
Qed.

(* on configurations without unparseable strings ValidateMatchIndex is the collision scan *)
Lemma strict_agrees cfg : all_parse cfg -> validate_strict cfg = verdict_of (validate cfg).
Proof. intros H. unfold validate_strict, validate. rewrite (items_ok cfg H). apply strict_aux_claims. Qed.

(* accepted iff every string parses and no two claims share a key *)
Lemma strict_accepts_iff cfg :
  validate_strict cfg = VOk <-> all_parse cfg /\ NoDup (map key (claims cfg)).
Proof.
  split.
  - intros H. assert (A : all_parse cfg) by (apply items_all_claims; eapply strict_aux_ok_claims; exact H).
    split; [exact A|]. apply validate_accepts_iff. rewrite (strict_agrees cfg A) in H.
    destruct (validate cfg) as [[[[? ?] ?] ?]|]; [discriminate|reflexivity].
  - intros [A N]. rewrite (strict_agrees cfg A). apply validate_accepts_iff in N. rewrite N. reflexivity.
Qed.

(* a configuration with an unparseable svlan or cvlan string is rejected *)
Lemma strict_rejects_malformed cfg g r :
  In g cfg -> In r (snd g) -> parse_vlan_range (fst r) = None \/ parse_cvlan (snd r) = None ->
  validate_strict cfg <> VOk.
Proof.
  intros Hg Hr Hbad Hok. apply strict_accepts_iff in Hok as [A _].
  specialize (A g r Hg Hr). unfold range_ok in A.
  destruct (parse_vlan_range (fst r)); [|discriminate A].
  destruct Hbad as [Hb|Hb]; [discriminate Hb|]. rewrite Hb in A. discriminate A.
Qed.

(* a reported malformed range is real *)
Lemma strict_aux_malformed its : forall seen n i w,
  strict_aux seen its = VMalformed n i w -> In (IBad n i w) its.
Proof.
  induction its as [|[c|n0 i0 w0] its IH]; intros seen n i w; cbn [strict_aux]; [discriminate| |].
  - destruct (find (key_eqb (c_svlan c) (c_sel c)) seen); [discriminate|]. intros H. right. eapply IH; exact H.
  - intros H; inversion H; subst. left; reflexivity.
Qed.

(* ---------- which defect is reported is free: report-first and report-all reject the same configurations ---------- *)
Lemma problems_aux_nil_iff its : forall seen, problems_aux seen its = [] <-> strict_aux seen its = VOk.
Proof.
  induction its as [|[c|n i w] its IH]; intros seen; cbn [problems_aux strict_aux].
  - split; reflexivity.
  - destruct (find (key_eqb (c_svlan c) (c_sel c)) seen); [split; discriminate|apply IH].
  - split; discriminate.
Qed.

Lemma problems_nil_iff cfg : all_problems cfg = [] <-> validate_strict cfg = VOk.
Proof. apply problems_aux_nil_iff. Qed.

Lemma problems_accepts_iff cfg : all_problems cfg = [] <-> all_parse cfg /\ NoDup (map key (claims cfg)).
Proof. rewrite problems_nil_iff. apply strict_accepts_iff. Qed.

(* the first reported defect of the report-first policy is the head of the report-all list *)
Lemma problems_aux_head its : forall seen,
  strict_aux seen its = match problems_aux seen its with [] => VOk | v :: _ => v end.
Proof.
  induction its as [|[c|n i w] its IH]; intros seen; cbn [problems_aux strict_aux]; [reflexivity| |reflexivity].
  destruct (find (key_eqb (c_svlan c) (c_sel c)) seen); [reflexivity|apply IH].
Qed.

(* ====================================================================================== *)
(* ---------- a consumer: the AAA policy of a classified pair ---------- *)
Lemma l2gw_policy_sound a s c n p :
  l2gw_policy a s c = Some (n, p) ->
  exists cl, In cl (claims (strip a)) /\ covers cl s c /\ c_name cl = n /\ p = policy_of a n (c_idx cl).
Proof.
  unfold l2gw_policy. destruct (lookup (build (strip a)) s c) as [[n' i]|] eqn:L; [|discriminate].
  destruct (l2gw_handoff a s c); [|discriminate].
  intros E; inversion E; subst. apply lookup_sound in L as [cl [Hin [Hc [Hn Hi]]]].
  exists cl. split; [exact Hin|]. split; [exact Hc|]. split; [exact Hn|]. rewrite Hi; reflexivity.
Qed.

(* exact wins, at the level of the range's attributes *)
Lemma l2gw_exact_range_policy a s c cl :
  In cl (claims (strip a)) -> c_svlan cl = s -> c_sel cl = SelExact c ->
  exists cl', In cl' (claims (strip a)) /\ c_svlan cl' = s /\ c_sel cl' = SelExact c /\
              l2gw_policy a s c = if l2gw_handoff a s c
                                  then Some (c_name cl', policy_of a (c_name cl') (c_idx cl')) else None.
Proof.
  intros Hin Hs Hse. destruct (exact_wins (strip a) s c cl Hin Hs Hse) as [cl' [H1 [H2 [H3 H4]]]].
  exists cl'; repeat split; auto. unfold l2gw_policy. rewrite H4. reflexivity.
Qed.

(* a pair is wholesale-switched only when it is classified, and then by its group's access-types *)
Lemma l2gw_handoff_sound a s c :
  l2gw_handoff a s c = true ->
  exists cl g, In cl (claims (strip a)) /\ covers cl s c /\ find_group a (c_name cl) = Some g /\ group_l2gw g = true.
Proof.
  unfold l2gw_handoff. destruct (lookup (build (strip a)) s c) as [[n i]|] eqn:L; [|discriminate].
  destruct (find_group a n) as [g|] eqn:F; [|discriminate].
  intros R. apply lookup_sound in L as [cl [Hin [Hc [Hn Hi]]]]. exists cl, g. rewrite Hn. auto.
Qed.

Lemma l2gw_policy_iff_handoff a s c : l2gw_handoff a s c = true <-> l2gw_policy a s c <> None.
Proof.
  unfold l2gw_policy. destruct (lookup (build (strip a)) s c) as [[n i]|] eqn:L.
  - destruct (l2gw_handoff a s c); split; congruence.
  - unfold l2gw_handoff. rewrite L. split; [discriminate|congruence].
Qed.

(* where a claim comes from: range #(c_idx) of the group named c_name, and that range's S-VLAN list contains c_svlan *)
Lemma range_claims_origin name : forall rs i cl,
  In cl (range_claims name i rs) ->
  c_name cl = name /\ (i <= c_idx cl)%nat /\
  exists r svs, nth_error rs (c_idx cl - i) = Some r /\ parse_vlan_range (fst r) = Some svs /\ In (c_svlan cl) svs.
Proof.
  induction rs as [|[sv cv] rs IH]; intros i cl; cbn [range_claims]; [intros []|].
  rewrite in_app_iff; intros [H|H].
  - destruct (parse_vlan_range sv) as [svs|] eqn:Pv; [|destruct H].
    destruct (parse_cvlan cv) as [se|]; [|destruct H].
    apply in_map_iff in H as [x [<- Hx]]; cbn [c_name c_idx c_svlan].
    split; [reflexivity|]. split; [lia|]. exists (sv, cv), svs. rewrite Nat.sub_diag. auto.
  - destruct (IH (S i) cl H) as [Hn [Hle [r [svs [Hnth [Hp Hin]]]]]].
    split; [exact Hn|]. split; [lia|]. exists r, svs. split; [|auto].
    replace (c_idx cl - i)%nat with (S (c_idx cl - S i)) by lia. exact Hnth.
Qed.

Lemma claims_origin cfg cl :
  In cl (claims cfg) ->
  exists g r svs, In g cfg /\ fst g = c_name cl /\ nth_error (snd g) (c_idx cl) = Some r /\
                  parse_vlan_range (fst r) = Some svs /\ In (c_svlan cl) svs.
Proof.
  unfold claims, claims_sorted. rewrite in_flat_map. intros [g [Hg H]].
  apply range_claims_origin in H as [Hn [_ [r [svs [Hnth [Hp Hin]]]]]].
  rewrite Nat.sub_0_r in Hnth. exists g, r, svs. apply (proj1 (in_sort_groups _ _)) in Hg.
  split; [exact Hg|]. split; [symmetry; exact Hn|]. split; [exact Hnth|]. split; [exact Hp|exact Hin].
Qed.

Lemma find_first_match {A} (f : A -> bool) l : forall i x,
  nth_error l i = Some x -> f x = true ->
  (forall j y, (j < i)%nat -> nth_error l j = Some y -> f y = false) -> find f l = Some x.
Proof.
  induction l as [|h t IH]; intros [|i] x Hn Hf Hlt; cbn in *; try discriminate.
  - inversion Hn; subst. rewrite Hf. reflexivity.
  - rewrite (Hlt 0%nat h) by (lia || reflexivity). apply (IH i x Hn Hf).
    intros j y Hj Hy. apply (Hlt (S j) y); [lia|exact Hy].
Qed.

Lemma find_group_unique a : NoDup (map (fun g : agroup => fst (fst g)) a) ->
  forall g, In g a -> find_group a (fst (fst g)) = Some g.
Proof.
  unfold find_group. induction a as [|h t IH]; intros Hnd g Hg; [destruct Hg|].
  cbn [find map] in *. inversion Hnd as [|? ? Hni Hnd']; subst.
  destruct Hg as [->|Hg].
  - rewrite (proj2 (str_eqb_eq _ _) eq_refl). reflexivity.
  - destruct (str_eqb (fst (fst h)) (fst (fst g))) eqn:E; [|apply IH; assumption].
    apply str_eqb_eq in E. exfalso. apply Hni. rewrite E. apply in_map_iff. exists g; auto.
Qed.

(* the S-VLAN-only rescan of the matched group agrees with the matched range exactly when no EARLIER range of that
   group contains the S-VLAN (whatever its C-VLAN selector, parseable or not) *)
Lemma rescan_agrees a s c n i g :
  NoDup (map (fun g : agroup => fst (fst g)) a) ->
  lookup (build (strip a)) s c = Some (n, i) -> find_group a n = Some g ->
  (forall j r, (j < i)%nat -> nth_error (snd g) j = Some r -> matches_svlan r s = false) ->
  rescan_policy g s = policy_of a n i.
Proof.
  intros Hnd L Fg Hearlier.
  apply lookup_sound in L as [cl [Hin [[Hs _] [Hn Hi]]]].
  apply claims_origin in Hin as [g0 [r0 [svs [Hg0 [Hname [Hnth [Hp Hsv]]]]]]].
  unfold strip in Hg0. apply in_map_iff in Hg0 as [ag [<- Hag]].
  assert (Eg : ag = g).
  { pose proof (find_group_unique a Hnd ag Hag) as F. cbn [strip_group fst] in Hname.
    rewrite Hname, Hn in F. congruence. }
  subst ag. cbn [strip_group snd] in Hnth. rewrite nth_error_map in Hnth.
  destruct (nth_error (snd g) (c_idx cl)) as [ar|] eqn:Har; [|discriminate].
  cbn in Hnth. inversion Hnth; subst r0. cbn [fst] in Hp.
  assert (Hm : matches_svlan ar s = true).
  { unfold matches_svlan. rewrite Hp. apply existsb_exists. exists (c_svlan cl). split; [exact Hsv|].
    rewrite Hs. apply N.eqb_refl. }
  rewrite Hi in Har.
  unfold rescan_policy, policy_of. rewrite Fg, Har.
  rewrite (find_first_match (fun r => matches_svlan r s) (snd g) i ar Har Hm Hearlier). reflexivity.
Qed.

(* asking the matched GROUP agrees with asking the matched RANGE when no group declares access-types at group level
   and the ranges of every group are all of one kind *)
Lemma l2gw_bygroup_agrees a s c :
  NoDup (map (fun g : agroup => fst (fst g)) a) ->
  (forall g, In g a -> snd (snd (fst g)) = false) ->
  (forall g r r', In g a -> In r (snd g) -> In r' (snd g) -> snd (snd r) = snd (snd r')) ->
  l2gw_handoff a s c = l2gw_handoff_byrange a s c.
Proof.
  intros Hnd Hgl Huni. unfold l2gw_handoff, l2gw_handoff_byrange, range_l2gw.
  destruct (lookup (build (strip a)) s c) as [[n i]|] eqn:L; [|reflexivity].
  apply lookup_sound in L as [cl [Hin [_ [Hn Hi]]]].
  apply claims_origin in Hin as [g0 [r0 [svs [Hg0 [Hname [Hnth _]]]]]].
  unfold strip in Hg0. apply in_map_iff in Hg0 as [ag [<- Hag]].
  pose proof (find_group_unique a Hnd ag Hag) as F. cbn [strip_group fst] in Hname. rewrite Hname, Hn in F.
  rewrite F. cbn [strip_group snd] in Hnth. rewrite nth_error_map in Hnth. rewrite Hi in Hnth.
  destruct (nth_error (snd ag) i) as [ar|] eqn:Har; [|discriminate].
  apply nth_error_In in Har. unfold group_l2gw. rewrite (Hgl ag Hag). cbn [orb].
  destruct (snd (snd ar)) eqn:Ef.
  - apply existsb_exists. exists ar; auto.
  - destruct (existsb (fun r : arange => snd (snd r)) (snd ag)) eqn:Ex; [|reflexivity].
    apply existsb_exists in Ex as [r' [Hr' Hf]]. rewrite (Huni ag ar r' Hag Har Hr') in Ef. congruence.
Qed.

(* ====================================================================================== *)
(* ---------- the published snapshot (configmgr step model) ---------- *)
Definition cm_ok (st : cmstate) : Prop := snap st = build (running st) /\ validate_strict (running st) = VOk.

Lemma cm_init_ok : cm_ok cm_init.
Proof. split; reflexivity. Qed.

Lemma cm_commit_ok st cfg : cm_ok st -> cm_ok (cm_commit st cfg).
Proof.
  intros H. unfold cm_commit. destruct (validate_strict cfg) eqn:V; [|exact H|exact H].
  split; [reflexivity|exact V].
Qed.

Lemma cm_commits_ok cfgs : forall st, cm_ok st -> cm_ok (fold_left cm_commit cfgs st).
Proof. induction cfgs as [|c cs IH]; intros st H; [exact H|]. apply IH, cm_commit_ok, H. Qed.

(* a rejected candidate changes nothing; an accepted one is published as a whole *)
Lemma cm_commit_cases st cfg :
  (validate_strict cfg <> VOk /\ cm_commit st cfg = st) \/
  (validate_strict cfg = VOk /\ running (cm_commit st cfg) = cfg /\ snap (cm_commit st cfg) = build cfg /\
   applied (cm_commit st cfg) = S (applied st)).
Proof. unfold cm_commit. destruct (validate_strict cfg) eqn:V; [right; auto|left; split; [discriminate|reflexivity]..]. Qed.

(* handlers are applied for accepted candidates only: after any sequence of candidates, the number of candidates whose
   handlers ran is the number of accepted ones *)
Lemma cm_applied_count cfgs : forall st,
  applied (fold_left cm_commit cfgs st) =
  (applied st + length (filter (fun cfg => match validate_strict cfg with VOk => true | _ => false end) cfgs))%nat.
Proof.
  induction cfgs as [|c cs IH]; intros st; cbn [fold_left filter length]; [lia|].
  rewrite IH. unfold cm_commit. destruct (validate_strict c); cbn [applied length]; lia.
Qed.

(* in a published state every (S-VLAN, selector) key has at most one claimant, so the answer does not depend on the
   first-wins order at all: a covering exact claim IS the answer, a covering wildcard claim is the answer when no
   exact claim exists *)
Lemma cm_unique_exact st s c cl :
  cm_ok st -> In cl (claims (running st)) -> c_svlan cl = s -> c_sel cl = SelExact c ->
  cm_lookup st s c = Some (c_name cl, c_idx cl).
Proof.
  intros [Hs Hv] Hin Hsv Hse. unfold cm_lookup. rewrite Hs.
  destruct (exact_wins (running st) s c cl Hin Hsv Hse) as [cl' [Hin' [Hs' [Hse' L]]]].
  apply strict_accepts_iff in Hv as [_ Hnd]. apply validate_accepts_iff in Hnd.
  assert (cl' = cl) by (eapply validate_sound; eauto; congruence). subst. exact L.
Qed.

Lemma cm_unique_wildcard st s c cl :
  cm_ok st -> In cl (claims (running st)) -> c_svlan cl = s -> c_sel cl = SelAny ->
  (forall cl', In cl' (claims (running st)) -> c_svlan cl' = s -> c_sel cl' <> SelExact c) ->
  cm_lookup st s c = Some (c_name cl, c_idx cl).
Proof.
  intros [Hs Hv] Hin Hsv Hse Hno. unfold cm_lookup. rewrite Hs, lookup_is_reference.
  unfold ref_lookup, ref_lookup_in.
  assert (E1 : find (key_eqb s (SelExact c)) (claims (running st)) = None).
  { apply find_none_iff; intros x Hx. destruct (key_eqb s (SelExact c) x) eqn:K; [|reflexivity].
    apply key_eqb_eq in K; inversion K. exfalso. apply (Hno x Hx); congruence. }
  rewrite E1. destruct (find (key_eqb s SelAny) (claims (running st))) as [cl'|] eqn:E2.
  - apply find_some in E2 as [Hin' K]. apply key_eqb_eq in K; inversion K.
    apply strict_accepts_iff in Hv as [_ Hnd]. apply validate_accepts_iff in Hnd.
    assert (cl' = cl) by (eapply validate_sound; eauto; congruence). subst. reflexivity.
  - exfalso. apply (proj1 (find_none_iff _ _)) with (x := cl) in E2; [|exact Hin].
    assert (key_eqb s SelAny cl = true) by (apply key_eqb_eq; unfold key; congruence). congruence.
Qed.

(* concurrent readers: every answer a reader gets is the answer of ONE generation as a whole — the one that was
   running when the reader loaded the pointer — never a mixture *)
Definition held_in (h : held) (gens : list config) : Prop := forall r, In (h r) gens.

Lemma cm_generations_head es : forall st, In (running st) (cm_generations st es).
Proof.
  induction es as [|e es IH]; intros st; cbn [cm_generations]; [left; reflexivity|].
  destruct e; [left; reflexivity|apply IH|apply IH].
Qed.

Lemma cm_run_reads es : forall st h past,
  In (running st) past -> held_in h past ->
  forall o, In (Some o) (cm_run (st, h) es) ->
  exists g s c, In g (past ++ cm_generations st es) /\ o = lookup (build g) s c.
Proof.
  induction es as [|e es IH]; intros st h past Hst Hh o; cbn [cm_run]; [intros []|].
  destruct e as [cfg|r|r s c]; cbn [cm_step cm_generations].
  - intros [Hd|Hin]; [discriminate|].
    destruct (IH (cm_commit st cfg) h (past ++ [running (cm_commit st cfg)])) with (o := o) as [g [s [c [Hg Ho]]]].
    + apply in_or_app; right; left; reflexivity.
    + intros r. apply in_or_app; left; apply Hh.
    + exact Hin.
    + exists g, s, c. split; [|exact Ho]. rewrite <- app_assoc in Hg. cbn [app] in Hg.
      apply in_app_iff in Hg as [Hg|[Hg|Hg]].
      * apply in_or_app; left; exact Hg.
      * apply in_or_app; right. right. subst g. apply cm_generations_head.
      * apply in_or_app; right; right; exact Hg.
  - intros [Hd|Hin]; [discriminate|].
    apply (IH st (fun r' => if Nat.eqb r' r then running st else h r') past Hst); [|exact Hin].
    intros r'. destruct (Nat.eqb r' r); [exact Hst|apply Hh].
  - intros [Hd|Hin].
    + inversion Hd; subst. exists (h r), s, c. split; [apply in_or_app; left; apply Hh|reflexivity].
    + apply (IH st h past Hst Hh o Hin).
Qed.

Lemma cm_generations_ok es : forall st, cm_ok st ->
  forall g, In g (cm_generations st es) -> validate_strict g = VOk.
Proof.
  induction es as [|e es IH]; intros st H g; cbn [cm_generations].
  - intros [<-|[]]; apply H.
  - destruct e as [cfg|r|r s c]; [|apply IH; exact H|apply IH; exact H].
    intros [<-|Hg]; [apply H|]. apply (IH (cm_commit st cfg)); [apply cm_commit_ok; exact H|exact Hg].
Qed.

Lemma cm_reads_from_init es o :
  In (Some o) (cm_run (cm_init, fun _ => running cm_init) es) ->
  exists g s c, In g (cm_generations cm_init es) /\ validate_strict g = VOk /\ o = lookup (build g) s c.
Proof.
  intros H.
  destruct (cm_run_reads es cm_init (fun _ => running cm_init) [running cm_init]) with (o := o)
    as [g [s [c [Hg Ho]]]]; [left; reflexivity|intros r; left; reflexivity|exact H|].
  assert (Hg' : In g (cm_generations cm_init es)).
  { cbn [app] in Hg. destruct Hg as [<-|Hg]; [apply cm_generations_head|exact Hg]. }
  exists g, s, c. split; [exact Hg'|]. split; [|exact Ho].
  eapply cm_generations_ok; [apply cm_init_ok|exact Hg'].
Qed.
