(* C14/Proofs.v — lemmas about the model in Model.v *)
From OV Require Import Common.Base C14.Model.
From Coq Require Import Permutation Sorted SetoidList.

(* ---------- keys ---------- *)
Definition key (c : claim) : N * sel := (c_svlan c, c_sel c).

Lemma sel_eqb_eq a b : sel_eqb a b = true <-> a = b.
Proof.
  destruct a, b; simpl; split; intros H; try discriminate; try reflexivity.
  - apply N.eqb_eq in H; subst; reflexivity.
  - inversion H; subst; apply N.eqb_refl.
Qed.

Lemma key_eqb_eq s se c : key_eqb s se c = true <-> (s, se) = key c.
Proof.
  unfold key_eqb, key; rewrite andb_true_iff, N.eqb_eq, sel_eqb_eq; split.
  - intros [-> ->]; reflexivity.
  - intros H; inversion H; auto.
Qed.

Lemma key_eqb_key c : key_eqb (c_svlan c) (c_sel c) c = true.
Proof. apply key_eqb_eq; reflexivity. Qed.

Lemma find_app {A} (f : A -> bool) l1 l2 :
  find f (l1 ++ l2) = match find f l1 with Some x => Some x | None => find f l2 end.
Proof. induction l1 as [|x l1 IH]; simpl; [reflexivity|]. destruct (f x); auto. Qed.

Lemma find_key_ext s se s' se' l :
  (s, se) = (s', se') -> find (key_eqb s se) l = find (key_eqb s' se') l.
Proof. intros H; inversion H; reflexivity. Qed.

(* ---------- build = first claimant ---------- *)
Lemma idx_find_insert ix c s se :
  idx_find (idx_insert ix c) s se =
  match idx_find ix s se with
  | Some x => Some x
  | None => if key_eqb s se c then Some c else None
  end.
Proof.
  unfold idx_insert.
  destruct (idx_find ix (c_svlan c) (c_sel c)) as [p|] eqn:E.
  - destruct (idx_find ix s se) eqn:F; [reflexivity|].
    destruct (key_eqb s se c) eqn:K; [|reflexivity].
    apply key_eqb_eq in K. unfold idx_find in *.
    rewrite (find_key_ext _ _ _ _ ix K) in F. unfold key in F; simpl in F. congruence.
  - unfold idx_find in *. rewrite find_app; simpl.
    destruct (find (key_eqb s se) ix); [reflexivity|].
    destruct (key_eqb s se c); reflexivity.
Qed.

Lemma idx_find_fold cs : forall ix s se,
  idx_find (fold_left idx_insert cs ix) s se =
  match idx_find ix s se with
  | Some x => Some x
  | None => find (key_eqb s se) cs
  end.
Proof.
  induction cs as [|c cs IH]; intros ix s se; simpl.
  - destruct (idx_find ix s se); reflexivity.
  - rewrite IH, idx_find_insert.
    destruct (idx_find ix s se); [reflexivity|].
    destruct (key_eqb s se c); reflexivity.
Qed.

Lemma idx_find_build cfg s se :
  idx_find (build cfg) s se = find (key_eqb s se) (claims cfg).
Proof. unfold build; rewrite idx_find_fold; reflexivity. Qed.

Lemma lookup_is_reference cfg s c : lookup (build cfg) s c = ref_lookup cfg s c.
Proof. unfold lookup, ref_lookup; rewrite !idx_find_build; reflexivity. Qed.

(* ---------- parsers produce VLANs in 1..4094 ---------- *)
Lemma nseq_in a n x : In x (nseq a n) -> (a <= x < a + N.of_nat n)%N.
Proof.
  revert a; induction n as [|n IH]; intros a; simpl; [tauto|].
  intros [<-|H]; [lia|]. apply IH in H. lia.
Qed.

Lemma parse_vlan_range_bounds s l x :
  parse_vlan_range s = Some l -> In x l -> (1 <= x <= 4094)%N.
Proof.
  unfold parse_vlan_range.
  destruct (contains_dash (trim s)).
  - destruct (split_dash (trim s)) as [|p0 [|p1 [|? ?]]]; try discriminate.
    destruct (parse_uint16 (trim p0)) as [a|]; [|discriminate].
    destruct (parse_uint16 (trim p1)) as [b|]; [|discriminate].
    destruct (N.ltb_spec b a); [discriminate|].
    destruct (N.eqb_spec a 0); [discriminate|].
    destruct (N.eqb_spec b 0); [discriminate|]. simpl.
    destruct (N.ltb_spec 4094 b); [discriminate|].
    intros E; inversion E; subst; clear E. intros Hin. apply nseq_in in Hin. lia.
  - destruct (parse_uint16 (trim s)) as [v|]; [|discriminate].
    destruct (N.eqb_spec v 0); [discriminate|].
    destruct (N.ltb_spec 4094 v); [discriminate|].
    intros E; inversion E; subst. intros [<-|[]]. lia.
Qed.

Lemma parse_cvlan_bounds s c : parse_cvlan s = Some (SelExact c) -> (1 <= c <= 4094)%N.
Proof.
  unfold parse_cvlan. destruct (trim s) as [|h t]; [discriminate|].
  destruct (str_eqb _ _); [discriminate|].
  destruct (parse_uint16 (h :: t)) as [v|]; [|discriminate].
  destruct (N.eqb_spec v 0); [discriminate|].
  destruct (N.ltb_spec 4094 v); [discriminate|].
  intros E; inversion E; subst; lia.
Qed.

Definition claim_wf (c : claim) : Prop :=
  (1 <= c_svlan c <= 4094)%N /\
  match c_sel c with SelAny => True | SelExact x => (1 <= x <= 4094)%N end.

Lemma range_claims_wf name rs : forall i c, In c (range_claims name i rs) -> claim_wf c.
Proof.
  induction rs as [|[sv cv] rs IH]; intros i c; simpl; [tauto|].
  rewrite in_app_iff; intros [H|H]; [|eapply IH; eauto].
  destruct (parse_vlan_range sv) as [svs|] eqn:E1; [|destruct H].
  destruct (parse_cvlan cv) as [se|] eqn:E2; [|destruct H].
  apply in_map_iff in H as [s [<- Hs]]; split; simpl.
  - eapply parse_vlan_range_bounds; eauto.
  - destruct se; [exact I|]. eapply parse_cvlan_bounds; eauto.
Qed.

Lemma claims_wf cfg c : In c (claims cfg) -> claim_wf c.
Proof.
  unfold claims, claims_sorted; rewrite in_flat_map; intros [g [_ H]].
  eapply range_claims_wf; eauto.
Qed.

Lemma find_none_iff {A} (f : A -> bool) l : find f l = None <-> forall x, In x l -> f x = false.
Proof.
  split; [apply find_none|].
  induction l as [|x l IH]; simpl; intros H; [reflexivity|].
  rewrite (H x) by auto. apply IH; auto.
Qed.

(* a claim covers a pair *)
Definition covers (cl : claim) (s c : N) : Prop :=
  c_svlan cl = s /\ (c_sel cl = SelAny \/ c_sel cl = SelExact c).

Lemma no_exact_zero cfg s : find (key_eqb s (SelExact 0)) (claims cfg) = None.
Proof.
  apply find_none_iff; intros x Hx. destruct (key_eqb s (SelExact 0) x) eqn:K; [|reflexivity].
  apply key_eqb_eq in K; inversion K as [[Hs Hsel]].
  apply claims_wf in Hx as [_ Hw]. rewrite <- Hsel in Hw. lia.
Qed.

(* untagged inner VLAN: only a wildcard range can match *)
Lemma untagged cfg s :
  lookup (build cfg) s 0 =
  match find (key_eqb s SelAny) (claims cfg) with
  | Some c => Some (c_name c, c_idx c)
  | None => None
  end.
Proof. rewrite lookup_is_reference; unfold ref_lookup; rewrite no_exact_zero; reflexivity. Qed.

Lemma uncovered cfg s c :
  (forall cl, In cl (claims cfg) -> ~ covers cl s c) -> lookup (build cfg) s c = None.
Proof.
  intros H; rewrite lookup_is_reference; unfold ref_lookup.
  assert (E1 : find (key_eqb s (SelExact c)) (claims cfg) = None).
  { apply find_none_iff; intros x Hx. destruct (key_eqb s (SelExact c) x) eqn:K; [|reflexivity].
    apply key_eqb_eq in K; inversion K. exfalso; apply (H x Hx); split; auto. }
  assert (E2 : find (key_eqb s SelAny) (claims cfg) = None).
  { apply find_none_iff; intros x Hx. destruct (key_eqb s SelAny x) eqn:K; [|reflexivity].
    apply key_eqb_eq in K; inversion K. exfalso; apply (H x Hx); split; auto. }
  rewrite E1, E2; reflexivity.
Qed.

(* the answer always comes from a claim that covers the pair; an exact claimant beats any wildcard *)
Lemma lookup_sound cfg s c n i :
  lookup (build cfg) s c = Some (n, i) ->
  exists cl, In cl (claims cfg) /\ covers cl s c /\ c_name cl = n /\ c_idx cl = i.
Proof.
  rewrite lookup_is_reference; unfold ref_lookup.
  destruct (find (key_eqb s (SelExact c)) (claims cfg)) as [cl|] eqn:E1.
  - intros H; inversion H; subst. apply find_some in E1 as [Hin K].
    apply key_eqb_eq in K; inversion K. exists cl; repeat split; auto.
  - destruct (find (key_eqb s SelAny) (claims cfg)) as [cl|] eqn:E2; [|discriminate].
    intros H; inversion H; subst. apply find_some in E2 as [Hin K].
    apply key_eqb_eq in K; inversion K. exists cl; repeat split; auto.
Qed.

Lemma exact_wins cfg s c cl :
  In cl (claims cfg) -> c_svlan cl = s -> c_sel cl = SelExact c ->
  exists cl', In cl' (claims cfg) /\ c_svlan cl' = s /\ c_sel cl' = SelExact c /\
              lookup (build cfg) s c = Some (c_name cl', c_idx cl').
Proof.
  intros Hin Hs Hse. rewrite lookup_is_reference; unfold ref_lookup.
  destruct (find (key_eqb s (SelExact c)) (claims cfg)) as [cl'|] eqn:E1.
  - apply find_some in E1 as [Hin' K]. apply key_eqb_eq in K; inversion K.
    exists cl'; repeat split; auto.
  - exfalso. apply (proj1 (find_none_iff _ _)) with (x := cl) in E1; [|exact Hin].
    assert (key_eqb s (SelExact c) cl = true) by (apply key_eqb_eq; unfold key; congruence).
    congruence.
Qed.

(* ---------- validation ---------- *)
Lemma sel_eq_dec (a b : sel) : {a = b} + {a <> b}.
Proof. decide equality; apply N.eq_dec. Qed.

Lemma validate_aux_none cs : forall seen,
  validate_aux seen cs = None <->
  (NoDup (map key cs) /\ forall c, In c cs -> ~ In (key c) (map key seen)).
Proof.
  induction cs as [|c cs IH]; intros seen; simpl.
  - split; [intros _; split; [constructor|tauto]|reflexivity].
  - destruct (find (key_eqb (c_svlan c) (c_sel c)) seen) as [p|] eqn:E.
    + split; [discriminate|]. intros [_ H]. exfalso. apply (H c (or_introl eq_refl)).
      apply find_some in E as [Hin K]. apply key_eqb_eq in K.
      apply in_map_iff; exists p; split; auto.
    + rewrite IH; simpl. split.
      * intros [Hnd Hs]; split.
        -- constructor; [|exact Hnd]. intros Hin. apply in_map_iff in Hin as [c' [Hk Hc']].
           apply (Hs c' Hc'). left; auto.
        -- intros c' [<-|Hc'].
           ++ intros Hin. apply in_map_iff in Hin as [p [Hk Hp]].
              apply (proj1 (find_none_iff _ _)) with (x := p) in E; [|exact Hp].
              assert (key_eqb (c_svlan c) (c_sel c) p = true) by (apply key_eqb_eq; unfold key in *; congruence).
              congruence.
           ++ intros Hin. apply (Hs c' Hc'). right; exact Hin.
      * intros [Hnd Hs]. inversion Hnd as [|? ? Hni Hnd']; subst. split; [exact Hnd'|].
        intros c' Hc' [Hk|Hin].
        -- apply Hni. rewrite Hk. apply in_map; exact Hc'.
        -- apply (Hs c' (or_intror Hc')); exact Hin.
Qed.

Lemma validate_accepts_iff cfg : validate cfg = None <-> NoDup (map key (claims cfg)).
Proof.
  unfold validate; rewrite validate_aux_none; simpl; split; [tauto|]. intros H; split; [exact H|tauto].
Qed.

Lemma NoDup_map_inj {A B} (f : A -> B) l x y :
  NoDup (map f l) -> In x l -> In y l -> f x = f y -> x = y.
Proof.
  induction l as [|a l IH]; simpl; [tauto|]. intros Hnd Hx Hy E.
  inversion Hnd as [|? ? Hni Hnd']; subst.
  destruct Hx as [<-|Hx], Hy as [<-|Hy]; auto.
  - exfalso; apply Hni; rewrite E; apply in_map; auto.
  - exfalso; apply Hni; rewrite <- E; apply in_map; auto.
Qed.

(* accepted configuration: at most one claimant per (svlan, selector) *)
Lemma validate_sound cfg c1 c2 :
  validate cfg = None -> In c1 (claims cfg) -> In c2 (claims cfg) ->
  c_svlan c1 = c_svlan c2 -> c_sel c1 = c_sel c2 -> c1 = c2.
Proof.
  intros V H1 H2 Hs Hse. apply validate_accepts_iff in V.
  eapply NoDup_map_inj; eauto. unfold key; congruence.
Qed.

(* rejected configuration: the reported collision is real *)
Lemma validate_aux_some cs : forall seen s se p n,
  validate_aux seen cs = Some (s, se, p, n) ->
  exists c1 c2, In c1 (seen ++ cs) /\ In c2 cs /\ key c1 = (s, se) /\ key c2 = (s, se) /\
                c_name c1 = p /\ c_name c2 = n.
Proof.
  induction cs as [|c cs IH]; intros seen s se p n; simpl; [discriminate|].
  destruct (find (key_eqb (c_svlan c) (c_sel c)) seen) as [q|] eqn:E.
  - intros H; inversion H; subst. apply find_some in E as [Hin K]. apply key_eqb_eq in K.
    exists q, c; repeat split; auto. apply in_or_app; left; exact Hin.
  - intros H. apply IH in H as [c1 [c2 [H1 [H2 H3]]]]. exists c1, c2; repeat split; try tauto.
    simpl in H1. apply in_app_iff. destruct H1 as [<-|H1]; [right; left; reflexivity|].
    apply in_app_iff in H1 as [H1|H1]; [left; exact H1|right; right; exact H1].
Qed.

(* ---------- order independence: Go's map iteration order is irrelevant ---------- *)
Definition str_lt (a b : str) : Prop := str_ltb a b = true.

Lemma str_ltb_irrefl a : str_ltb a a = false.
Proof. induction a as [|x a IH]; simpl; [reflexivity|]. rewrite N.ltb_irrefl, N.eqb_refl; exact IH. Qed.

Lemma str_ltb_trans a : forall b c, str_ltb a b = true -> str_ltb b c = true -> str_ltb a c = true.
Proof.
  induction a as [|x a IH]; intros [|y b] [|z c]; simpl; try discriminate; auto.
  destruct (N.ltb_spec x y) as [Hxy|Hxy].
  - intros _. destruct (N.ltb_spec y z) as [Hyz|Hyz].
    + intros _. destruct (N.ltb_spec x z); [reflexivity|lia].
    + destruct (N.eqb_spec y z) as [->|]; [|discriminate]. intros _.
      destruct (N.ltb_spec x z); [reflexivity|lia].
  - destruct (N.eqb_spec x y) as [->|]; [|discriminate]. intros Hab.
    destruct (N.ltb_spec y z) as [Hyz|Hyz]; [reflexivity|].
    destruct (N.eqb_spec y z) as [->|]; [|discriminate]. apply IH; exact Hab.
Qed.

Lemma str_ltb_total a : forall b, str_ltb a b = false -> str_ltb b a = false -> a = b.
Proof.
  induction a as [|x a IH]; intros [|y b]; simpl; try discriminate; auto.
  destruct (N.ltb_spec x y) as [Hxy|Hxy]; [discriminate|].
  destruct (N.ltb_spec y x) as [Hyx|Hyx].
  - destruct (N.eqb_spec x y); [lia|]. discriminate.
  - assert (x = y) by lia; subst. rewrite N.eqb_refl. intros H1 H2. f_equal. apply IH; assumption.
Qed.

Definition glt (g h : group) : Prop := str_lt (fst g) (fst h).

Lemma glt_trans g h k : glt g h -> glt h k -> glt g k.
Proof. unfold glt, str_lt; apply str_ltb_trans. Qed.
Lemma glt_irrefl g : ~ glt g g.
Proof. unfold glt, str_lt; rewrite str_ltb_irrefl; discriminate. Qed.

Lemma insert_group_perm g l : Permutation (insert_group g l) (g :: l).
Proof.
  induction l as [|h t IH]; simpl; [apply Permutation_refl|].
  destruct (str_ltb (fst h) (fst g)); [|apply Permutation_refl].
  eapply Permutation_trans; [apply perm_skip; exact IH|apply perm_swap].
Qed.

Lemma sort_groups_perm c : Permutation (sort_groups c) c.
Proof.
  induction c as [|g c IH]; simpl; [constructor|].
  eapply Permutation_trans; [apply insert_group_perm|apply perm_skip; exact IH].
Qed.

Lemma insert_group_hd g l a :
  glt a g -> HdRel glt a l -> HdRel glt a (insert_group g l).
Proof.
  intros Hag Hl. destruct l as [|h t]; simpl; [constructor; exact Hag|].
  destruct (str_ltb (fst h) (fst g)); constructor; [inversion Hl; assumption|exact Hag].
Qed.

Lemma insert_group_sorted g l :
  Sorted glt l -> ~ In (fst g) (map fst l) -> Sorted glt (insert_group g l).
Proof.
  induction l as [|h t IH]; simpl; intros Hs Hni; [repeat constructor|].
  inversion Hs as [|? ? Hst Hhd]; subst.
  destruct (str_ltb (fst h) (fst g)) eqn:E.
  - constructor; [apply IH; [exact Hst|tauto]|]. apply insert_group_hd; [exact E|exact Hhd].
  - constructor; [exact Hs|]. constructor. unfold glt, str_lt.
    destruct (str_ltb (fst g) (fst h)) eqn:F; [reflexivity|].
    exfalso; apply Hni; left. apply str_ltb_total; assumption.
Qed.

Lemma sort_groups_sorted c : NoDup (map fst c) -> Sorted glt (sort_groups c).
Proof.
  induction c as [|g c IH]; simpl; intros Hnd; [constructor|].
  inversion Hnd as [|? ? Hni Hnd']; subst.
  apply insert_group_sorted; [apply IH; exact Hnd'|].
  intros Hin; apply Hni. eapply Permutation_in; [|exact Hin].
  apply Permutation_map, sort_groups_perm.
Qed.

Lemma sorted_perm_unique l : forall l',
  Sorted glt l -> Sorted glt l' -> Permutation l l' -> l = l'.
Proof.
  induction l as [|a l IH]; intros l' Hs Hs' Hp.
  - apply Permutation_nil in Hp; subst; reflexivity.
  - destruct l' as [|b l']; [apply Permutation_sym, Permutation_nil in Hp; discriminate|].
    apply Sorted_StronglySorted in Hs; [|intros x y z; apply glt_trans].
    apply Sorted_StronglySorted in Hs'; [|intros x y z; apply glt_trans].
    inversion Hs as [|? ? Hsl Hal]; subst. inversion Hs' as [|? ? Hsl' Hbl']; subst.
    assert (a = b) as ->.
    { assert (Ha : In a (b :: l')) by (eapply Permutation_in; [exact Hp|left; reflexivity]).
      assert (Hb : In b (a :: l)) by (eapply Permutation_in; [apply Permutation_sym; exact Hp|left; reflexivity]).
      destruct Ha as [->|Ha]; [reflexivity|]. destruct Hb as [->|Hb]; [reflexivity|].
      rewrite Forall_forall in Hal, Hbl'. exfalso. apply (glt_irrefl a).
      eapply glt_trans; [apply Hal; exact Hb|apply Hbl'; exact Ha]. }
    f_equal. apply IH.
    + apply StronglySorted_Sorted; exact Hsl.
    + apply StronglySorted_Sorted; exact Hsl'.
    + eapply Permutation_cons_inv; exact Hp.
Qed.

Lemma sort_groups_order_independent c c' :
  NoDup (map fst c) -> Permutation c c' -> sort_groups c = sort_groups c'.
Proof.
  intros Hnd Hp. apply sorted_perm_unique.
  - apply sort_groups_sorted; exact Hnd.
  - apply sort_groups_sorted. eapply Permutation_NoDup; [apply Permutation_map; exact Hp|exact Hnd].
  - eapply Permutation_trans; [apply sort_groups_perm|].
    eapply Permutation_trans; [exact Hp|apply Permutation_sym, sort_groups_perm].
Qed.

Lemma order_independent c c' :
  NoDup (map fst c) -> Permutation c c' ->
  build c = build c' /\ validate c = validate c' /\
  forall s cv, lookup (build c) s cv = lookup (build c') s cv.
Proof.
  intros Hnd Hp. assert (E : claims c = claims c').
  { unfold claims; rewrite (sort_groups_order_independent c c' Hnd Hp); reflexivity. }
  unfold build, validate; rewrite E; repeat split; reflexivity.
Qed.

(* ---------- the parser accepts only  ws* digits (ws* "-" ws* digits)? ws*  ---------- *)
Definition all_space (s : str) : Prop := forallb is_space s = true.

Inductive vlan_syntax : str -> N -> N -> Prop :=
| VS_single pre d post v :
    all_space pre -> all_space post -> d <> [] -> digits_val 0 d = Some v ->
    vlan_syntax (pre ++ d ++ post) v v
| VS_range pre d1 w1 w2 d2 post a b :
    all_space pre -> all_space w1 -> all_space w2 -> all_space post ->
    d1 <> [] -> d2 <> [] -> digits_val 0 d1 = Some a -> digits_val 0 d2 = Some b ->
    vlan_syntax (pre ++ d1 ++ w1 ++ [dash] ++ w2 ++ d2 ++ post) a b.

Lemma all_space_app a b : all_space a -> all_space b -> all_space (a ++ b).
Proof. unfold all_space; rewrite forallb_app; intros -> ->; reflexivity. Qed.
Lemma all_space_rev a : all_space a -> all_space (rev a).
Proof.
  unfold all_space; rewrite !forallb_forall; intros H x Hx; apply H, in_rev; exact Hx.
Qed.

Lemma drop_space_spec s : exists pre, s = pre ++ drop_space s /\ all_space pre.
Proof.
  induction s as [|c s [pre [E Hp]]]; simpl.
  - exists []; split; reflexivity.
  - destruct (is_space c) eqn:Hc.
    + exists (c :: pre); split; [simpl; f_equal; exact E|]. unfold all_space; simpl; rewrite Hc; exact Hp.
    + exists []; split; reflexivity.
Qed.

Lemma trim_spec s : exists pre post, s = pre ++ trim s ++ post /\ all_space pre /\ all_space post.
Proof.
  destruct (drop_space_spec s) as [pre [E Hp]].
  destruct (drop_space_spec (rev (drop_space s))) as [q [F Hq]].
  exists pre, (rev q); repeat split; [|exact Hp|apply all_space_rev; exact Hq].
  unfold trim. rewrite <- rev_app_distr, <- F, rev_involutive. exact E.
Qed.

Fixpoint join_dash (ps : list str) : str :=
  match ps with
  | [] => []
  | [p] => p
  | p :: rest => p ++ dash :: join_dash rest
  end.

Lemma split_dash_aux_nonempty cur s : split_dash_aux cur s <> [].
Proof. revert cur; induction s as [|c s IH]; intros cur; simpl; [discriminate|]. destruct (N.eqb c dash); [discriminate|apply IH]. Qed.

Lemma split_dash_aux_join s : forall cur, join_dash (split_dash_aux cur s) = rev cur ++ s.
Proof.
  induction s as [|c s IH]; intros cur; simpl.
  - rewrite app_nil_r; reflexivity.
  - destruct (N.eqb_spec c dash) as [->|Hc].
    + specialize (IH []). simpl in IH.
      destruct (split_dash_aux [] s) as [|p ps] eqn:E; [exfalso; eapply split_dash_aux_nonempty; exact E|].
      simpl. f_equal. f_equal. exact IH.
    + rewrite IH; simpl. rewrite <- app_assoc; reflexivity.
Qed.

Lemma parse_uint16_spec s v : parse_uint16 s = Some v -> s <> [] /\ digits_val 0 s = Some v.
Proof.
  unfold parse_uint16. destruct s as [|c s]; [discriminate|].
  destruct (digits_val 0 (c :: s)) as [w|]; [|discriminate].
  destruct (N.leb w 65535); [|discriminate]. intros E; inversion E; subst. split; [discriminate|reflexivity].
Qed.

Lemma parse_vlan_range_syntax s l :
  parse_vlan_range s = Some l ->
  exists a b, vlan_syntax s a b /\ (1 <= a <= b)%N /\ (b <= 4094)%N /\ l = nseq a (N.to_nat (b - a + 1)).
Proof.
  unfold parse_vlan_range.
  destruct (trim_spec s) as [pre [post [Es [Hpre Hpost]]]].
  destruct (contains_dash (trim s)).
  - destruct (split_dash (trim s)) as [|p0 [|p1 [|? ?]]] eqn:Sp; try discriminate.
    assert (Em : trim s = p0 ++ dash :: p1).
    { pose proof (split_dash_aux_join (trim s) []) as J. unfold split_dash in Sp. rewrite Sp in J. simpl in J. symmetry; exact J. }
    destruct (parse_uint16 (trim p0)) as [a|] eqn:Pa; [|discriminate].
    destruct (parse_uint16 (trim p1)) as [b|] eqn:Pb; [|discriminate].
    destruct (N.ltb_spec b a); [discriminate|].
    destruct (N.eqb_spec a 0); [discriminate|].
    destruct (N.eqb_spec b 0); [discriminate|]. simpl.
    destruct (N.ltb_spec 4094 b); [discriminate|].
    intros E; inversion E; subst l; clear E.
    apply parse_uint16_spec in Pa as [Na Da]. apply parse_uint16_spec in Pb as [Nb Db].
    destruct (trim_spec p0) as [w0 [w1 [E0 [Hw0 Hw1]]]].
    destruct (trim_spec p1) as [w2 [w3 [E1 [Hw2 Hw3]]]].
    exists a, b; split; [|repeat split; try lia].
    remember (trim p0) as d1 eqn:Hd1. remember (trim p1) as d2 eqn:Hd2. remember (trim s) as m eqn:Hm.
    assert (Es' : s = (pre ++ w0) ++ d1 ++ w1 ++ [dash] ++ w2 ++ d2 ++ (w3 ++ post)).
    { rewrite Es, Em, E0, E1. repeat (rewrite <- app_assoc; simpl). reflexivity. }
    rewrite Es'. apply VS_range; auto using all_space_app.
  - destruct (parse_uint16 (trim s)) as [v|] eqn:Pv; [|discriminate].
    destruct (N.eqb_spec v 0); [discriminate|].
    destruct (N.ltb_spec 4094 v); [discriminate|].
    intros E; inversion E; subst l; clear E.
    apply parse_uint16_spec in Pv as [Nv Dv].
    exists v, v; split; [|repeat split; try lia].
    + rewrite Es. apply VS_single; auto.
    + replace (v - v + 1)%N with 1%N by lia. reflexivity.
Qed.

(* decimal digits only: a value accepted by digits_val is built from '0'..'9' *)
Lemma digits_val_digits s : forall acc v, digits_val acc s = Some v -> forallb is_digit s = true.
Proof.
  induction s as [|c s IH]; intros acc v; simpl; [reflexivity|].
  destruct (is_digit c); [|discriminate]. intros H; simpl; eapply IH; exact H.
Qed.
