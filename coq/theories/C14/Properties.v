(* C14/Properties.v — the property theorems only.  Each is closed by [exact] of a
   lemma from Proofs.v and followed by Print Assumptions. *)
From OV Require Import Common.Base C14.Model C14.Proofs.

(* The index built from a configuration answers every (S-VLAN, C-VLAN) pair exactly as
   the quadratic reference scan over the claims in sorted-name order does: exact C-VLAN
   first, wildcard second, nothing otherwise. *)
Theorem C14_lookup_is_reference :
  forall cfg s c, lookup (build cfg) s c = ref_lookup cfg s c.
Proof. exact lookup_is_reference. Qed.
Print Assumptions C14_lookup_is_reference.

(* every answer comes from a range that really covers the pair *)
Theorem C14_lookup_sound :
  forall cfg s c n i, lookup (build cfg) s c = Some (n, i) ->
  exists cl, In cl (claims cfg) /\ covers cl s c /\ c_name cl = n /\ c_idx cl = i.
Proof. exact lookup_sound. Qed.
Print Assumptions C14_lookup_sound.

(* a range naming the exact C-VLAN wins over any wildcard range *)
Theorem C14_exact_wins :
  forall cfg s c cl, In cl (claims cfg) -> c_svlan cl = s -> c_sel cl = SelExact c ->
  exists cl', In cl' (claims cfg) /\ c_svlan cl' = s /\ c_sel cl' = SelExact c /\
              lookup (build cfg) s c = Some (c_name cl', c_idx cl').
Proof. exact exact_wins. Qed.
Print Assumptions C14_exact_wins.

(* an untagged inner VLAN matches only wildcard ranges *)
Theorem C14_untagged :
  forall cfg s, lookup (build cfg) s 0 =
  match find (key_eqb s SelAny) (claims cfg) with
  | Some c => Some (c_name c, c_idx c) | None => None end.
Proof. exact untagged. Qed.
Print Assumptions C14_untagged.

(* a pair no range covers matches nothing *)
Theorem C14_uncovered :
  forall cfg s c, (forall cl, In cl (claims cfg) -> ~ covers cl s c) -> lookup (build cfg) s c = None.
Proof. exact uncovered. Qed.
Print Assumptions C14_uncovered.

(* the collision scan passes exactly the configurations without two claims on one (S-VLAN, selector); together with
   C14_strict_accepts_iff / C14_strict_agrees below this is ValidateMatchIndex's verdict *)
Theorem C14_validate_accepts_iff :
  forall cfg, validate cfg = None <-> NoDup (map key (claims cfg)).
Proof. exact validate_accepts_iff. Qed.
Print Assumptions C14_validate_accepts_iff.

Theorem C14_validate_sound :
  forall cfg c1 c2, validate cfg = None -> In c1 (claims cfg) -> In c2 (claims cfg) ->
  c_svlan c1 = c_svlan c2 -> c_sel c1 = c_sel c2 -> c1 = c2.
Proof. exact validate_sound. Qed.
Print Assumptions C14_validate_sound.

(* every VLAN produced by the range parsers lies in 1..4094 *)
Theorem C14_parser_bounds :
  forall s l x, parse_vlan_range s = Some l -> In x l -> (1 <= x <= 4094)%N.
Proof. exact parse_vlan_range_bounds. Qed.
Print Assumptions C14_parser_bounds.

Theorem C14_cvlan_bounds :
  forall s c, parse_cvlan s = Some (SelExact c) -> (1 <= c <= 4094)%N.
Proof. exact parse_cvlan_bounds. Qed.
Print Assumptions C14_cvlan_bounds.

(* the same classification on every rebuild: Go's map iteration order (any permutation of the
   group list, names being distinct map keys) does not change the index, the validation verdict
   or any lookup *)
Theorem C14_order_independent :
  forall c c', NoDup (map fst c) -> Permutation.Permutation c c' ->
  build c = build c' /\ validate c = validate c' /\
  forall s cv, lookup (build c) s cv = lookup (build c') s cv.
Proof. exact order_independent. Qed.
Print Assumptions C14_order_independent.

(* malformed range strings are rejected: whatever is accepted has the shape
   ws* digits (ws* "-" ws* digits)? ws*  with 1 <= a <= b <= 4094, and denotes exactly a..b *)
Theorem C14_parser_syntax :
  forall s l, parse_vlan_range s = Some l ->
  exists a b, vlan_syntax s a b /\ (1 <= a <= b)%N /\ (b <= 4094)%N /\ l = nseq a (N.to_nat (b - a + 1)).
Proof. exact parse_vlan_range_syntax. Qed.
Print Assumptions C14_parser_syntax.

(* COMPLETENESS of ParseVLANRange: every string of the stated shape with 1 <= a <= b <= 4094 is
   accepted and denotes exactly a..b (so "rejected" means: not of that shape, or out of range) *)
Theorem C14_parser_complete :
  forall s a b, vlan_syntax s a b -> (1 <= a <= b)%N -> (b <= 4094)%N ->
  parse_vlan_range s = Some (nseq a (N.to_nat (b - a + 1))).
Proof. exact parse_vlan_range_complete. Qed.
Print Assumptions C14_parser_complete.

(* both directions together: the accepted range strings are exactly the well-formed in-range ones *)
Theorem C14_parser_exact :
  forall s l, parse_vlan_range s = Some l <->
  exists a b, vlan_syntax s a b /\ (1 <= a <= b)%N /\ (b <= 4094)%N /\ l = nseq a (N.to_nat (b - a + 1)).
Proof. exact parse_vlan_range_iff. Qed.
Print Assumptions C14_parser_exact.

(* ParseCVLAN accepts only  ws*  (= any),  ws* [aA][nN][yY] ws*  (= any)  or  ws* digits ws*  with
   1 <= v <= 4094 (= exact v) *)
Theorem C14_cvlan_syntax :
  forall s r, parse_cvlan s = Some r -> cvlan_syntax s r /\ sel_in_range r.
Proof. exact parse_cvlan_syntax. Qed.
Print Assumptions C14_cvlan_syntax.

(* ... and accepts every such string with the stated selector *)
Theorem C14_cvlan_complete :
  forall s r, cvlan_syntax s r -> sel_in_range r -> parse_cvlan s = Some r.
Proof. exact parse_cvlan_complete. Qed.
Print Assumptions C14_cvlan_complete.

(* which strings are the wildcard selector: blank after trimming, or "any" in any letter case *)
Theorem C14_cvlan_any_iff :
  forall s, parse_cvlan s = Some SelAny <-> trim s = [] \/ map lower (trim s) = s_any.
Proof. exact parse_cvlan_any_iff. Qed.
Print Assumptions C14_cvlan_any_iff.

(* Lookup is constant on the classes induced by the configuration's range endpoints: two S-VLANs
   (C-VLANs) that compare the same way with every cut point a, b+1 of a parsed S-VLAN range a..b
   (v, v+1 of an exact C-VLAN v) are classified identically.  Hence a sweep over one representative
   per class is the sweep over all 4096 x 4096 pairs. *)
Theorem C14_lookup_class_invariant :
  forall cfg s s' c c',
  (forall p, In p (s_cuts cfg) -> N.leb p s = N.leb p s') ->
  (forall p, In p (c_cuts cfg) -> N.leb p c = N.leb p c') ->
  lookup (build cfg) s c = lookup (build cfg) s' c'.
Proof. exact lookup_class_invariant. Qed.
Print Assumptions C14_lookup_class_invariant.

(* the representative used by the model driver (largest cut point <= x, else 0) is in x's class:
   the index answers (s, c) exactly as the reference scan answers (rep s, rep c) *)
Theorem C14_lookup_via_representative :
  forall cfg s c,
  lookup (build cfg) s c = ref_lookup cfg (rep (s_cuts cfg) s) (rep (c_cuts cfg) c).
Proof. exact lookup_via_rep. Qed.
Print Assumptions C14_lookup_via_representative.

(* non-vacuity: a configuration with an exact and a wildcard claimant on S-VLAN 10 *)
Definition ex_cfg : config :=
  [ ([98], [([49;48;45;50;48], [])]);                  (* "b": svlan "10-20", cvlan "" *)
    ([97], [([49;48], [49;48;48]); ([49;50], [97;110;121])]) ]%N.  (* "a": 10/100, 12/any *)
Example C14_nonvacuous :
  lookup (build ex_cfg) 10 100 = Some ([97]%N, 0%nat) /\
  lookup (build ex_cfg) 10 7 = Some ([98]%N, 0%nat) /\
  lookup (build ex_cfg) 10 0 = Some ([98]%N, 0%nat) /\
  lookup (build ex_cfg) 9 100 = None /\
  validate ex_cfg <> None /\
  NoDup (map fst ex_cfg) /\
  parse_vlan_range [32; 49; 48; 32; 45; 50; 48]%N = Some (nseq 10 11).
Proof.
  vm_compute. repeat split; try discriminate.
  repeat constructor; simpl; intros H; repeat (destruct H as [H|H]; try discriminate H); exact H.
Qed.
Print Assumptions C14_nonvacuous.

(* non-vacuity of the parser characterisations and of the class theorem: well-formed strings exist
   for every constructor, and classes are genuinely larger than one value *)
Example C14_syntax_nonvacuous :
  vlan_syntax ([32] ++ [49; 48] ++ [9] ++ [dash] ++ [160] ++ [50; 48] ++ [8195])%N 10 20 /\
  vlan_syntax ([] ++ [52; 48; 57; 52] ++ [])%N 4094 4094 /\
  cvlan_syntax [32; 9]%N SelAny /\
  cvlan_syntax ([9] ++ [65; 110; 89] ++ [12288])%N SelAny /\
  cvlan_syntax ([] ++ [49; 48; 48] ++ [10])%N (SelExact 100) /\
  parse_cvlan [9; 65; 110; 89; 12288]%N = Some SelAny /\
  parse_cvlan [8203; 55]%N = None /\
  parse_vlan_range [49; 45; 52; 48; 57; 53]%N = None.
Proof.
  repeat split; try (vm_compute; reflexivity).
  - apply VS_range; try reflexivity; discriminate.
  - apply VS_single; try reflexivity; discriminate.
  - apply CS_blank; reflexivity.
  - apply CS_any; reflexivity.
  - apply CS_exact; try reflexivity; discriminate.
Qed.
Print Assumptions C14_syntax_nonvacuous.

Example C14_class_nonvacuous :
  s_cuts ex_cfg = [10; 11; 12; 13; 10; 21]%N /\ c_cuts ex_cfg = [100; 101]%N /\
  rep (s_cuts ex_cfg) 17 = 13%N /\ rep (c_cuts ex_cfg) 4000 = 101%N /\ rep (c_cuts ex_cfg) 99 = 0%N /\
  (forall p, In p (s_cuts ex_cfg) -> N.leb p 14 = N.leb p 20) /\
  lookup (build ex_cfg) 17 4000 = Some ([98]%N, 0%nat) /\
  lookup (build ex_cfg) 21 4000 = None.
Proof.
  repeat split; try (vm_compute; reflexivity).
  intros p H. vm_compute in H. repeat (destruct H as [<-|H]; [reflexivity|]). destruct H.
Qed.
Print Assumptions C14_class_nonvacuous.

(* ---------------- unparseable range strings at configuration level ----------------
   BuildMatchIndex: a range whose svlan or cvlan string does not parse contributes no claim.  [build], [lookup],
   [ref_lookup] and the collision scan [validate] are functions of [claims cfg] only, so such a range is invisible to
   all of them; it is ValidateMatchIndex = [validate_strict] that turns it into a rejected configuration. *)
Theorem C14_malformed_range_ignored :
  forall name i sv cv rest, parse_vlan_range sv = None \/ parse_cvlan cv = None ->
  range_claims name i ((sv, cv) :: rest) = range_claims name (S i) rest.
Proof. exact malformed_range_no_claims. Qed.
Print Assumptions C14_malformed_range_ignored.

(* ... so the collision scan alone does not reject malformed range strings: a configuration whose only range is
   svlan "5000" has no claim and no collision.  This was ValidateMatchIndex before /repo 461c9d7 (finding
   ValidateMatchIndex:malformed-{svlan,cvlan}-skipped, fixed); kept as the reason why [validate_strict] is needed. *)
Definition bad_cfg : config := [ ([97], [([53;48;48;48], [])]) ]%N.            (* "a": svlan "5000", cvlan "" *)
Theorem C14_validate_malformed_refuted :
  exists cfg g r, In g cfg /\ In r (snd g) /\ parse_vlan_range (fst r) = None /\
                  validate cfg = None /\ claims cfg = [].
Proof.
  exists bad_cfg, ([97]%N, [([53;48;48;48]%N, [])]), ([53;48;48;48]%N, []).
  vm_compute. repeat split; auto.
Qed.
Print Assumptions C14_validate_malformed_refuted.

(* ValidateMatchIndex (/repo 461c9d7) accepts a configuration
   iff every svlan / cvlan string of every range parses and no two claims share (S-VLAN, selector) *)
Theorem C14_strict_accepts_iff :
  forall cfg, validate_strict cfg = VOk <-> all_parse cfg /\ NoDup (map key (claims cfg)).
Proof. exact strict_accepts_iff. Qed.
Print Assumptions C14_strict_accepts_iff.

(* a configuration containing a range string outside 1-4094 or malformed (see C14_parser_exact, C14_cvlan_syntax
   for what that means) is rejected *)
Theorem C14_strict_rejects_malformed :
  forall cfg g r, In g cfg -> In r (snd g) ->
  parse_vlan_range (fst r) = None \/ parse_cvlan (snd r) = None -> validate_strict cfg <> VOk.
Proof. exact strict_rejects_malformed. Qed.
Print Assumptions C14_strict_rejects_malformed.

(* on configurations without such strings it is the collision scan: same verdict, same reported collision *)
Theorem C14_strict_agrees :
  forall cfg, all_parse cfg -> validate_strict cfg = verdict_of (validate cfg).
Proof. exact strict_agrees. Qed.
Print Assumptions C14_strict_agrees.

Example C14_strict_nonvacuous :
  validate_strict bad_cfg = VMalformed [97]%N 0%nat true /\
  validate_strict [ ([97], [([49;48], [52;48;57;53])]) ]%N = VMalformed [97]%N 0%nat false /\   (* cvlan "4095" *)
  validate_strict ex_cfg = VCollision 12 SelAny [97]%N [98]%N /\
  validate_strict [ ([97], [([49;48], [49;48;48]); ([49;50], [97;110;121])]) ]%N = VOk /\
  all_parse ex_cfg.
Proof.
  repeat split; try (vm_compute; reflexivity).
  intros g r Hg Hr. simpl in Hg.
  repeat (destruct Hg as [<-|Hg]; [simpl in Hr; repeat (destruct Hr as [<-|Hr]; [vm_compute; reflexivity|]); destruct Hr|]).
  destruct Hg.
Qed.
Print Assumptions C14_strict_nonvacuous.

(* The reporting policy is free: a validator that collects EVERY defect (all unparseable strings, every claim on an
   already owned key) and rejects iff there is one accepts exactly the configurations [validate_strict] accepts, i.e.
   those whose strings all parse and whose claims are pairwise distinct.  The correspondence check therefore compares
   the verdict valid / rejected only, not which defect is named. *)
Theorem C14_report_all_same_accept_set :
  forall cfg, all_problems cfg = [] <-> validate_strict cfg = VOk.
Proof. exact problems_nil_iff. Qed.
Print Assumptions C14_report_all_same_accept_set.

Theorem C14_report_all_accepts_iff :
  forall cfg, all_problems cfg = [] <-> all_parse cfg /\ NoDup (map key (claims cfg)).
Proof. exact problems_accepts_iff. Qed.
Print Assumptions C14_report_all_accepts_iff.

Example C14_report_all_nonvacuous :
  length (all_problems ex_cfg) = 1%nat /\ all_problems bad_cfg = [VMalformed [97]%N 0%nat true] /\
  all_problems [ ([97], [([49;48], [49;48;48]); ([49;50], [97;110;121])]) ]%N = [] /\
  (* two defects, report-first names the first one *)
  all_problems [ ([97], [([48], []); ([49;48], []); ([49;48], [97;110;121])]) ]%N
    = [VMalformed [97]%N 0%nat true; VCollision 10 SelAny [97]%N [97]%N].
Proof. vm_compute. repeat split; reflexivity. Qed.
Print Assumptions C14_report_all_nonvacuous.

(* ---------------- a consumer of the classification: the AAA policy of a pair ----------------
   The pair is authenticated with the policy of the range it is classified to (group policy when the range has none):
   every answer of [l2gw_policy] comes from a claim covering the pair, and carries that claim's range's policy. *)
Theorem C14_l2gw_policy_sound :
  forall a s c n p, l2gw_policy a s c = Some (n, p) ->
  exists cl, In cl (claims (strip a)) /\ covers cl s c /\ c_name cl = n /\ p = policy_of a n (c_idx cl).
Proof. exact l2gw_policy_sound. Qed.
Print Assumptions C14_l2gw_policy_sound.

(* "a range naming the exact C-VLAN wins over a wildcard range" holds for the range's attributes, not only for the
   group name: the policy is the one of an exact claimant *)
Theorem C14_l2gw_exact_range_policy :
  forall a s c cl, In cl (claims (strip a)) -> c_svlan cl = s -> c_sel cl = SelExact c ->
  exists cl', In cl' (claims (strip a)) /\ c_svlan cl' = s /\ c_sel cl' = SelExact c /\
              l2gw_policy a s c = if l2gw_handoff a s c
                                  then Some (c_name cl', policy_of a (c_name cl') (c_idx cl')) else None.
Proof. exact l2gw_exact_range_policy. Qed.
Print Assumptions C14_l2gw_exact_range_policy.

(* Group.GetPolicyName(svlan) — rescanning the matched group by S-VLAN only — gives the matched range's policy
   provided no earlier range of that group contains the S-VLAN *)
Theorem C14_rescan_agrees :
  forall a s c n i g,
  NoDup (map (fun g : agroup => fst (fst g)) a) ->
  lookup (build (strip a)) s c = Some (n, i) -> find_group a n = Some g ->
  (forall j r, (j < i)%nat -> nth_error (snd g) j = Some r -> matches_svlan r s = false) ->
  rescan_policy g s = policy_of a n i.
Proof. exact rescan_agrees. Qed.
Print Assumptions C14_rescan_agrees.

(* ... and not otherwise: a VALID configuration (accepted by ValidateMatchIndex) where the S-VLAN-only rescan gives
   pair (100, 20) the policy of the wildcard range although the pair is classified to the exact range.  Historical
   witness: this was the l2gw trigger before /repo 60d937f (finding l2gw-trigger:aaa-policy-by-svlan-rescan, fixed);
   the trigger is [l2gw_policy] since.
   group "w", policy "G":  100/any policy "W",  100/20 policy "X" *)
Definition pol_cfg : aconfig :=
  [ (([119], ([71], false)), [ (([49;48;48], [97;110;121]), ([87], true)); (([49;48;48], [50;48]), ([88], true)) ]) ]%N.
Theorem C14_l2gw_rescan_refuted_before_60d937f :
  exists a s c, validate_strict (strip a) = VOk /\
                lookup (build (strip a)) s c = Some ([119]%N, 1%nat) /\
                l2gw_policy a s c = Some ([119], [88])%N /\
                l2gw_policy_rescan a s c = Some ([119], [87])%N.
Proof. exists pol_cfg, 100%N, 20%N. vm_compute. repeat split; reflexivity. Qed.
Print Assumptions C14_l2gw_rescan_refuted_before_60d937f.

Example C14_l2gw_nonvacuous :
  l2gw_policy pol_cfg 100 7 = Some ([119], [87])%N /\          (* wildcard range's policy *)
  l2gw_policy pol_cfg 100 0 = Some ([119], [87])%N /\
  l2gw_policy pol_cfg 101 20 = None /\
  l2gw_policy [ (([119], ([71], true)), [ (([49;48;48], []), ([], false)) ]) ]%N 100 5 = Some ([119], [71])%N /\   (* group policy, group-level l2gw *)
  NoDup (map (fun g : agroup => fst (fst g)) pol_cfg) /\
  find_group pol_cfg [119]%N = Some (hd (([], ([], false)), []) pol_cfg) /\
  (forall j r, (j < 0)%nat -> nth_error (snd (hd (([], ([], false)), []) pol_cfg)) j = Some r -> matches_svlan r 100 = false).
Proof.
  repeat split; try (vm_compute; reflexivity).
  - repeat constructor; simpl; tauto.
  - intros j r Hj; inversion Hj.
Qed.
Print Assumptions C14_l2gw_nonvacuous.

(* ---------------- which pairs are wholesale-switched ----------------
   The ipoe component hands a DHCP frame to l2gw, and the l2gw trigger acts on it, iff the pair is classified and the
   group it is classified to has l2gw among its access-types (group level, or any of its ranges). *)
Theorem C14_l2gw_handoff_sound :
  forall a s c, l2gw_handoff a s c = true ->
  exists cl g, In cl (claims (strip a)) /\ covers cl s c /\ find_group a (c_name cl) = Some g /\ group_l2gw g = true.
Proof. exact l2gw_handoff_sound. Qed.
Print Assumptions C14_l2gw_handoff_sound.

Theorem C14_l2gw_policy_iff_handoff :
  forall a s c, l2gw_handoff a s c = true <-> l2gw_policy a s c <> None.
Proof. exact l2gw_policy_iff_handoff. Qed.
Print Assumptions C14_l2gw_policy_iff_handoff.

(* asking the matched group is the same as asking the matched range provided no group declares access-types at group
   level and the ranges of every group are all of one kind *)
Theorem C14_l2gw_bygroup_agrees :
  forall a s c, NoDup (map (fun g : agroup => fst (fst g)) a) ->
  (forall g, In g a -> snd (snd (fst g)) = false) ->
  (forall g r r', In g a -> In r (snd g) -> In r' (snd g) -> snd (snd r) = snd (snd r')) ->
  l2gw_handoff a s c = l2gw_handoff_byrange a s c.
Proof. exact l2gw_bygroup_agrees. Qed.
Print Assumptions C14_l2gw_bygroup_agrees.

(* OBSERVATION — outside C14's statement; recorded in notes/C14.md for maintainers, not a finding of this property.
   C14 is about which GROUP a pair is classified to; here the pair is classified to the right group.  What the consumers
   then do with access-types is their own business: in group "m" with a retail range 100 (ipoe) and a wholesale range
   200 (l2gw), pair (100, 5) is classified to range #0 of "m", and because the GROUP has an l2gw range it is handed to
   l2gw although its own range is not an l2gw range. *)
Definition mixed_cfg : aconfig :=
  [ (([109], ([], false)), [ (([49;48;48], []), ([], false)); (([50;48;48], []), ([], true)) ]) ]%N.
Example C14_l2gw_bygroup_observation :
  validate_strict (strip mixed_cfg) = VOk /\
  lookup (build (strip mixed_cfg)) 100 5 = Some ([109]%N, 0%nat) /\
  l2gw_handoff mixed_cfg 100 5 = true /\ l2gw_policy mixed_cfg 100 5 = Some ([109], [])%N /\
  l2gw_handoff_byrange mixed_cfg 100 5 = false.
Proof. vm_compute. repeat split; reflexivity. Qed.
Print Assumptions C14_l2gw_bygroup_observation.

Example C14_l2gw_handoff_nonvacuous :
  l2gw_handoff mixed_cfg 200 5 = true /\ l2gw_handoff mixed_cfg 300 5 = false /\
  l2gw_handoff [ (([109], ([], false)), [ (([49;48;48], []), ([], false)) ]) ]%N 100 5 = false /\
  l2gw_handoff [ (([109], ([], true)), [ (([49;48;48], []), ([], false)) ]) ]%N 100 5 = true /\
  l2gw_handoff pol_cfg 100 20 = l2gw_handoff_byrange pol_cfg 100 20 /\
  (forall g, In g pol_cfg -> snd (snd (fst g)) = false) /\
  (forall g r r', In g pol_cfg -> In r (snd g) -> In r' (snd g) -> snd (snd r) = snd (snd r')).
Proof.
  repeat split; try (vm_compute; reflexivity).
  - intros g [<-|[]]; reflexivity.
  - intros g r r' [<-|[]] Hr Hr'. simpl in Hr, Hr'.
    destruct Hr as [<-|[<-|[]]], Hr' as [<-|[<-|[]]]; reflexivity.
Qed.
Print Assumptions C14_l2gw_handoff_nonvacuous.

(* ---------------- the published snapshot (pkg/configmgr as a step model) ----------------
   Every state reached by Commit / ApplyLoadedConfig from the initial empty configuration has its index built from the
   running configuration, and that configuration passed ValidateMatchIndex: "rejected before commit" as a state
   invariant (a rejected candidate publishes nothing, C14_cm_commit_cases). *)
Theorem C14_cm_invariant :
  forall cfgs, cm_ok (fold_left cm_commit cfgs cm_init).
Proof. intros cfgs. apply cm_commits_ok, cm_init_ok. Qed.
Print Assumptions C14_cm_invariant.

Theorem C14_cm_commit_cases :
  forall st cfg,
  (validate_strict cfg <> VOk /\ cm_commit st cfg = st) \/
  (validate_strict cfg = VOk /\ running (cm_commit st cfg) = cfg /\ snap (cm_commit st cfg) = build cfg /\
   applied (cm_commit st cfg) = S (applied st)).
Proof. exact cm_commit_cases. Qed.
Print Assumptions C14_cm_commit_cases.

(* "rejected BEFORE commit": a rejected candidate leaves the WHOLE state unchanged, handler applications included
   (first disjunct above); over any sequence of candidates the handlers ran exactly for the accepted ones *)
Theorem C14_cm_applied_only_accepted :
  forall cfgs st,
  applied (fold_left cm_commit cfgs st) =
  (applied st + length (filter (fun cfg => match validate_strict cfg with VOk => true | _ => false end) cfgs))%nat.
Proof. exact cm_applied_count. Qed.
Print Assumptions C14_cm_applied_only_accepted.

(* "at most one group": in a published state a covering exact claim IS the answer, and a covering wildcard claim is
   the answer when the S-VLAN has no exact claim for this C-VLAN — no first-wins arbitration is left *)
Theorem C14_cm_unique_exact :
  forall st s c cl, cm_ok st -> In cl (claims (running st)) -> c_svlan cl = s -> c_sel cl = SelExact c ->
  cm_lookup st s c = Some (c_name cl, c_idx cl).
Proof. exact cm_unique_exact. Qed.
Print Assumptions C14_cm_unique_exact.

Theorem C14_cm_unique_wildcard :
  forall st s c cl, cm_ok st -> In cl (claims (running st)) -> c_svlan cl = s -> c_sel cl = SelAny ->
  (forall cl', In cl' (claims (running st)) -> c_svlan cl' = s -> c_sel cl' <> SelExact c) ->
  cm_lookup st s c = Some (c_name cl, c_idx cl).
Proof. exact cm_unique_wildcard. Qed.
Print Assumptions C14_cm_unique_wildcard.

(* "the same one on every lookup and every rebuild", with concurrent readers: along ANY interleaving of commits, pointer
   loads and lookups by any number of readers, every answer is the answer of ONE published generation as a whole (the one
   running when that reader loaded the pointer), and every generation passed ValidateMatchIndex — never a mixture of two *)
Theorem C14_cm_reads_one_generation :
  forall es o, In (Some o) (cm_run (cm_init, fun _ => running cm_init) es) ->
  exists g s c, In g (cm_generations cm_init es) /\ validate_strict g = VOk /\ o = lookup (build g) s c.
Proof. exact cm_reads_from_init. Qed.
Print Assumptions C14_cm_reads_one_generation.

Example C14_cm_nonvacuous :
  let good := strip pol_cfg in
  let tr := [ELoad 1; ECommit good; EUse 1 100 20; ECommit ex_cfg; ELoad 1; EUse 1 100 20; ELoad 2; EUse 2 10 100] in
  cm_run (cm_init, fun _ => running cm_init) tr
    = [None; None; Some None; None; None; Some (Some ([119]%N, 1%nat)); None; Some None] /\
  cm_generations cm_init tr = [[]; good; good] /\           (* ex_cfg collides: not published *)
  cm_commit cm_init ex_cfg = cm_init /\ running (cm_commit cm_init good) = good /\
  applied (fold_left cm_commit [good; ex_cfg; good] cm_init) = 2%nat.
Proof. vm_compute. repeat split; reflexivity. Qed.
Print Assumptions C14_cm_nonvacuous.
