From Coq Require Import Extraction ExtrOcamlBasic.
From OV Require Import Common.Base C14.Model.
Extraction Language OCaml.
Extraction "C14_model.ml" parse_vlan_range parse_cvlan build lookup ref_lookup ref_lookup_in claims validate validate_strict cm_init cm_commit cm_lookup applied l2gw_policy l2gw_policy_rescan rescan_policy rescan_index l2gw_handoff s_cuts c_cuts rep.
