(* C06/Proofs.v — lemmas about the option-policy model. *)
From Coq Require Import ZifyBool ZifyNat ZifyN.
From OV Require Import Common.Base C06.Model.

(* ------------------------------------------------------------------ bytes *)
Lemma bytes_eqb_eq : forall a b, bytes_eqb a b = true <-> a = b.
Proof.
  induction a as [|x a IH]; destruct b as [|y b]; simpl; split; intros H;
    try reflexivity; try discriminate.
  - apply andb_true_iff in H. destruct H as [H1 H2]. apply N.eqb_eq in H1. apply IH in H2. congruence.
  - inversion H; subst. apply andb_true_iff. split; [apply N.eqb_refl | apply IH; reflexivity].
Qed.

Lemma bytes_eqb_refl : forall a, bytes_eqb a a = true.
Proof. intros; apply bytes_eqb_eq; reflexivity. Qed.

Lemma to4_len : forall ip v, to4 ip = Some v -> length v = 4%nat.
Proof.
  unfold to4; intros ip v.
  destruct (Nat.eqb_spec (length ip) 4).
  - intros H; inversion H; subst; assumption.
  - destruct (Nat.eqb_spec (length ip) 16); cbn [andb]; [|discriminate].
    destruct (bytes_eqb _ _); [|discriminate].
    intros H; injection H as <-. change (length (skipn 12 ip) = 4%nat). rewrite skipn_length. lia.
Qed.

Lemma to4_of_len4 : forall v, length v = 4%nat -> to4 v = Some v.
Proof. unfold to4; intros v H. rewrite H. reflexivity. Qed.

Lemma ip_equal_len4 : forall a b, length a = 4%nat -> length b = 4%nat ->
  ip_equal a b = true <-> a = b.
Proof. intros a b Ha Hb. unfold ip_equal. rewrite Ha, Hb. simpl. apply bytes_eqb_eq. Qed.

(* a 4-byte address equals net.IPv4zero iff all its bytes are zero *)
Lemma ip_equal_zero : forall a, length a = 4%nat -> ip_equal a ipv4zero = all_zero a.
Proof.
  intros a Ha. destruct a as [|x0 [|x1 [|x2 [|x3 [|? ?]]]]]; try discriminate.
  destruct x0, x1, x2, x3; reflexivity.
Qed.

(* what "usable" gives us *)
Lemma usable_spec : forall x, usable x = true ->
  exists v, to4o x = Some v /\ length v = 4%nat /\ all_zero v = false.
Proof.
  intros [ip|]; simpl; [|discriminate].
  destruct (to4 ip) as [v|] eqn:E; [|discriminate].
  intros H. exists v. split; [reflexivity|]. split; [eapply to4_len; eauto|].
  destruct (all_zero v); [discriminate|reflexivity].
Qed.

(* ------------------------------------------------------------------ classification kinds *)
Inductive kind := KAck | KNak (n : opt) | KRej.
Definition apply_kind (r : res) (o : opt) (k : kind) : res :=
  match k with KAck => add_ack r o | KNak n => add_nak r n | KRej => add_rej r o end.
Definition is_kack (k : kind) : bool := match k with KAck => true | _ => false end.
Definition is_krej (k : kind) : bool := match k with KRej => true | _ => false end.
Definition knak (k : kind) : list opt := match k with KNak n => [n] | _ => [] end.

Section Fold.
  Context {S : Type} (step : res * S -> opt -> res * S) (kf : opt -> kind).
  Hypothesis Hstep : forall r s o, fst (step (r, s) o) = apply_kind r o (kf o).

  Lemma fold_kind : forall opts r s,
    r_ack (fst (fold_left step opts (r, s))) = r_ack r ++ filter (fun o => is_kack (kf o)) opts /\
    r_nak (fst (fold_left step opts (r, s))) = r_nak r ++ flat_map (fun o => knak (kf o)) opts /\
    r_rej (fst (fold_left step opts (r, s))) = r_rej r ++ filter (fun o => is_krej (kf o)) opts.
  Proof.
    induction opts as [|o opts IH]; intros r s; simpl.
    - rewrite !app_nil_r. auto.
    - destruct (step (r, s) o) as [r1 s1] eqn:E.
      pose proof (Hstep r s o) as H. rewrite E in H. simpl in H. subst r1.
      destruct (IH (apply_kind r o (kf o)) s1) as (A & B & C).
      rewrite A, B, C. destruct (kf o); simpl; rewrite <- ?app_assoc; simpl; auto.
  Qed.
End Fold.

(* ------------------------------------------------------------------ IPCP *)
Definition ipcp_dns_kind (t : N) (loc : option bytes) (o : opt) : kind :=
  if Nat.eqb (length (o_data o)) 4 then
    if ip_equal (o_data o) ipv4zero && dns_usable loc then KNak (ip_option t loc) else KAck
  else KRej.

Definition ipcp_kind (c : ipcp_cfg) (o : opt) : kind :=
  if N.eqb (o_type o) 3 then
    if Nat.eqb (length (o_data o)) 4 then
      if usable (ic_assigned c) && negb (ip_equal_o (o_data o) (to4o (ic_assigned c)))
      then KNak (ip_option 3 (ic_assigned c))
      else if ip_equal (o_data o) ipv4zero then KRej
      else if negb (usable (ic_assigned c)) && ic_refuse c (o_data o) then KRej else KAck
    else KRej
  else if N.eqb (o_type o) 129 then ipcp_dns_kind 129 (ic_dns1 c) o
  else if N.eqb (o_type o) 131 then ipcp_dns_kind 131 (ic_dns2 c) o
  else KRej.

Ltac split_ifs :=
  repeat match goal with |- context [if ?b then _ else _] => destruct b end.

Lemma ipcp_opt_kind : forall c r p o, fst (ipcp_opt c (r, p) o) = apply_kind r o (ipcp_kind c o).
Proof.
  intros. unfold ipcp_opt, ipcp_kind, ipcp_dns, ipcp_dns_kind. split_ifs; reflexivity.
Qed.

Lemma ipcp_partition : forall c p opts,
  r_ack (fst (ipcp_req c p opts)) = filter (fun o => is_kack (ipcp_kind c o)) opts /\
  r_nak (fst (ipcp_req c p opts)) = flat_map (fun o => knak (ipcp_kind c o)) opts /\
  r_rej (fst (ipcp_req c p opts)) = filter (fun o => is_krej (ipcp_kind c o)) opts.
Proof.
  intros. unfold ipcp_req.
  exact (fold_kind (ipcp_opt c) (ipcp_kind c) (ipcp_opt_kind c) opts res0 p).
Qed.

(* the kinds, read back *)
Lemma ipcp_kind_ack : forall c o, ipcp_kind c o = KAck ->
  length (o_data o) = 4%nat /\
  ((o_type o = 3%N /\ ip_equal (o_data o) ipv4zero = false /\
    (usable (ic_assigned c) = true -> ip_equal_o (o_data o) (to4o (ic_assigned c)) = true))
   \/ o_type o = 129%N \/ o_type o = 131%N).
Proof.
  intros c o. unfold ipcp_kind, ipcp_dns_kind.
  destruct (N.eqb_spec (o_type o) 3).
  - destruct (Nat.eqb_spec (length (o_data o)) 4); [|discriminate].
    destruct (usable (ic_assigned c)); simpl.
    + destruct (ip_equal_o _ _); simpl; [|discriminate].
      destruct (ip_equal _ ipv4zero); [discriminate|]. intros _. split; auto.
    + destruct (ip_equal _ ipv4zero); [discriminate|]. intros _. split; auto.
      left. repeat split; auto. discriminate.
  - destruct (N.eqb_spec (o_type o) 129).
    + destruct (Nat.eqb_spec (length (o_data o)) 4); [|discriminate]. intros _; auto.
    + destruct (N.eqb_spec (o_type o) 131); [|discriminate].
      destruct (Nat.eqb_spec (length (o_data o)) 4); [|discriminate]. intros _; auto.
Qed.

Lemma ipcp_kind_unknown : forall c o,
  (o_type o <> 3%N /\ o_type o <> 129%N /\ o_type o <> 131%N) \/ length (o_data o) <> 4%nat ->
  ipcp_kind c o = KRej.
Proof.
  intros c o H. unfold ipcp_kind, ipcp_dns_kind.
  destruct (N.eqb_spec (o_type o) 3); destruct (N.eqb_spec (o_type o) 129);
    destruct (N.eqb_spec (o_type o) 131); destruct (Nat.eqb_spec (length (o_data o)) 4);
    try reflexivity; exfalso; destruct H as [(A & B & C)|A]; congruence.
Qed.

Lemma ipcp_kind_other_addr : forall c o v,
  to4o (ic_assigned c) = Some v -> usable (ic_assigned c) = true ->
  o_type o = 3%N -> length (o_data o) = 4%nat -> o_data o <> v ->
  ipcp_kind c o = KNak (mkopt 3 v).
Proof.
  intros c o v Hv Hu Ht Hl Hne. unfold ipcp_kind. rewrite Ht, Hl, Hu, Hv.
  rewrite N.eqb_refl, Nat.eqb_refl. cbn [andb]. unfold ip_option, ip_equal_o. rewrite Hv.
  destruct (usable_spec _ Hu) as (v' & Hv' & Hlen & _). rewrite Hv in Hv'. inversion Hv'; subst v'.
  destruct (ip_equal (o_data o) v) eqn:E.
  - apply ip_equal_len4 in E; auto. contradiction.
  - reflexivity.
Qed.

Lemma ipcp_kind_nak3 : forall c o n v,
  to4o (ic_assigned c) = Some v -> ipcp_kind c o = KNak n -> o_type n = 3%N -> n = mkopt 3 v.
Proof.
  intros c o n v Hv. unfold ipcp_kind, ipcp_dns_kind.
  split_ifs; intros H; inversion H; subst; simpl; try discriminate;
    intros _; unfold ip_option; rewrite Hv; reflexivity.
Qed.

Lemma is_good_spec : forall r, is_good r = true <-> r_nak r = [] /\ r_rej r = [].
Proof.
  intros r. unfold is_good. destruct (r_nak r), (r_rej r); split; intros H; try discriminate; auto;
    destruct H; discriminate.
Qed.

Lemma filter_all : forall {A} (f : A -> bool) l, (forall x, In x l -> f x = true) -> filter f l = l.
Proof.
  induction l as [|a l IH]; simpl; intros H; [reflexivity|].
  rewrite (H a (or_introl eq_refl)). f_equal. apply IH. intros; apply H; auto.
Qed.

Lemma flat_map_nil : forall {A B} (f : A -> list B) l, flat_map f l = [] -> forall x, In x l -> f x = [].
Proof.
  induction l as [|a l IH]; simpl; intros H x Hx; [contradiction|].
  apply app_eq_nil in H. destruct H as [H1 H2]. destruct Hx as [->|Hx]; auto.
Qed.

Lemma filter_nil : forall {A} (f : A -> bool) l, filter f l = [] -> forall x, In x l -> f x = false.
Proof.
  induction l as [|a l IH]; simpl; intros H x Hx; [contradiction|].
  destruct (f a) eqn:E; [discriminate|]. destruct Hx as [->|Hx]; auto.
Qed.

(* good request: every option is of kind Ack and the acknowledged list is the request itself *)
Lemma good_all_ack : forall (kf : opt -> kind) opts r,
  r_ack r = filter (fun o => is_kack (kf o)) opts ->
  r_nak r = flat_map (fun o => knak (kf o)) opts ->
  r_rej r = filter (fun o => is_krej (kf o)) opts ->
  is_good r = true -> r_ack r = opts /\ forall o, In o opts -> kf o = KAck.
Proof.
  intros kf opts r A B C G. apply is_good_spec in G. destruct G as [Gn Gr].
  assert (K : forall o, In o opts -> kf o = KAck).
  { intros o Ho. rewrite B in Gn. rewrite C in Gr.
    pose proof (flat_map_nil _ _ Gn o Ho) as H1. pose proof (filter_nil _ _ Gr o Ho) as H2.
    cbv beta in H1, H2. destruct (kf o) eqn:K; [reflexivity|discriminate H1|discriminate H2]. }
  split; [|exact K]. rewrite A. apply filter_all. intros o Ho. rewrite (K o Ho). reflexivity.
Qed.

(* -- the user-facing IPCP lemmas -- *)
Lemma ipcp_ack_only_assigned : forall c p opts r p' v,
  usable (ic_assigned c) = true -> to4o (ic_assigned c) = Some v ->
  ipcp_req c p opts = (r, p') ->
  (forall o, In o (r_ack r) -> In o opts) /\
  (forall o, In o (r_ack r) -> o_type o = 3%N -> o_data o = v) /\
  (forall o, In o (r_nak r) -> o_type o = 3%N -> o_data o = v) /\
  (forall o, In o opts -> o_type o = 3%N -> length (o_data o) = 4%nat -> o_data o <> v ->
     In (mkopt 3 v) (r_nak r) /\ is_good r = false /\ ~ In o (r_ack r)).
Proof.
  intros c p opts r p' v Hu Hv Hreq.
  destruct (ipcp_partition c p opts) as (A & B & C). rewrite Hreq in A, B, C. simpl in A, B, C.
  destruct (usable_spec _ Hu) as (v' & Hv' & Hlen & Hnz). rewrite Hv in Hv'. inversion Hv'; subst v'.
  split; [|split; [|split]].
  - intros o Ho. rewrite A in Ho. apply filter_In in Ho. tauto.
  - intros o Ho Ht. rewrite A in Ho. apply filter_In in Ho. destruct Ho as [_ Hk].
    destruct (ipcp_kind c o) eqn:K; try discriminate.
    apply ipcp_kind_ack in K. destruct K as (Hl & [(_ & _ & He)|[T|T]]); try (rewrite T in Ht; discriminate).
    specialize (He Hu). rewrite Hv in He. simpl in He. apply ip_equal_len4 in He; auto.
  - intros n Hn Ht. rewrite B in Hn. apply in_flat_map in Hn. destruct Hn as (o & Ho & Hn).
    destruct (ipcp_kind c o) eqn:K; simpl in Hn; try contradiction. destruct Hn as [->|[]].
    rewrite (ipcp_kind_nak3 c o n v Hv K Ht). reflexivity.
  - intros o Ho Ht Hl Hne.
    pose proof (ipcp_kind_other_addr c o v Hv Hu Ht Hl Hne) as K.
    assert (Hin : In (mkopt 3 v) (r_nak r)).
    { rewrite B. apply in_flat_map. exists o. split; auto. rewrite K. simpl. auto. }
    split; [exact Hin|]. split.
    + destruct (is_good r) eqn:G; [|reflexivity]. apply is_good_spec in G. destruct G as [G _].
      rewrite G in Hin. contradiction.
    + intros Hack. rewrite A in Hack. apply filter_In in Hack. destruct Hack as [_ Hk].
      rewrite K in Hk. discriminate.
Qed.

Lemma ipcp_unknown_rejected : forall c p opts r p',
  ipcp_req c p opts = (r, p') ->
  (forall o, In o opts ->
     (o_type o <> 3%N /\ o_type o <> 129%N /\ o_type o <> 131%N) \/ length (o_data o) <> 4%nat ->
     In o (r_rej r) /\ ~ In o (r_ack r) /\ is_good r = false) /\
  (forall o, In o (r_ack r) ->
     In o opts /\ length (o_data o) = 4%nat /\ (o_type o = 3%N \/ o_type o = 129%N \/ o_type o = 131%N)) /\
  (forall o, In o (r_rej r) -> In o opts).
Proof.
  intros c p opts r p' Hreq.
  destruct (ipcp_partition c p opts) as (A & B & C). rewrite Hreq in A, B, C. simpl in A, B, C.
  split; [|split].
  - intros o Ho Hu. pose proof (ipcp_kind_unknown c o Hu) as K.
    assert (Hin : In o (r_rej r)). { rewrite C. apply filter_In. split; auto. rewrite K. reflexivity. }
    split; [exact Hin|]. split.
    + intros Hack. rewrite A in Hack. apply filter_In in Hack. destruct Hack as [_ Hk].
      rewrite K in Hk. discriminate.
    + destruct (is_good r) eqn:G; [|reflexivity]. apply is_good_spec in G. destruct G as [_ G].
      rewrite G in Hin. contradiction.
  - intros o Ho. rewrite A in Ho. apply filter_In in Ho. destruct Ho as [Ho Hk].
    destruct (ipcp_kind c o) eqn:K; try discriminate. apply ipcp_kind_ack in K.
    split; auto. destruct K as (Hl & [(T & _)|[T|T]]); auto.
  - intros o Ho. rewrite C in Ho. apply filter_In in Ho. tauto.
Qed.

(* 0.0.0.0 is never acknowledged, whatever is (or is not) assigned *)
Lemma ipcp_zero_never_acked : forall c p opts r p' o,
  ipcp_req c p opts = (r, p') -> In o (r_ack r) -> o_type o = 3%N -> all_zero (o_data o) = false.
Proof.
  intros c p opts r p' o Hreq Ho Ht.
  destruct (ipcp_partition c p opts) as (A & _). rewrite Hreq in A. simpl in A.
  rewrite A in Ho. apply filter_In in Ho. destruct Ho as [_ Hk].
  destruct (ipcp_kind c o) eqn:K; try discriminate. apply ipcp_kind_ack in K.
  destruct K as (Hl & [(_ & Hz & _)|[T|T]]); try (rewrite T in Ht; discriminate).
  rewrite ip_equal_zero in Hz; auto.
Qed.

(* peer address after a request: unchanged or the data of an acknowledged address option *)
Lemma ipcp_fold_peer_addr : forall c opts r p,
  pp_addr (snd (fold_left (ipcp_opt c) opts (r, p))) = pp_addr p \/
  exists o, In o opts /\ ipcp_kind c o = KAck /\ o_type o = 3%N /\
            pp_addr (snd (fold_left (ipcp_opt c) opts (r, p))) = Some (o_data o).
Proof.
  intros c opts. induction opts as [|o opts IH]; intros r p; cbn [fold_left]; [left; reflexivity|].
  destruct (ipcp_opt c (r, p) o) as [r1 p1] eqn:E.
  assert (H1 : pp_addr p1 = pp_addr p \/
               (ipcp_kind c o = KAck /\ o_type o = 3%N /\ pp_addr p1 = Some (o_data o))).
  { revert E. unfold ipcp_opt, ipcp_kind, ipcp_dns, ipcp_dns_kind.
    destruct (N.eqb_spec (o_type o) 3); [|destruct (N.eqb (o_type o) 129); [|destruct (N.eqb (o_type o) 131)]];
      split_ifs; intros E; inversion E; subst; simpl; auto. }
  destruct (IH r1 p1) as [H2|(o' & Ho' & K & T & H2)].
  - destruct H1 as [H1|(K & T & H1)].
    + left. congruence.
    + right. exists o. split; [left; reflexivity|]. split; auto. split; auto. congruence.
  - right. exists o'. split; [right; assumption|]. auto.
Qed.

(* ------------------------------------------------------------------ wire format *)
Lemma parse_options_fuel : forall fuel d, (length d <= fuel)%nat ->
  parse_options fuel d <> OutOfFuel /\ parse_options fuel d <> Panic.
Proof.
  induction fuel as [|f IH]; intros d Hlen.
  - destruct d as [|t [|l rest]]; simpl in *; try lia; split; discriminate.
  - destruct d as [|t [|l rest]]; simpl; try (split; discriminate).
    destruct ((N.to_nat l <? 2)%nat || (S (S (length rest)) <? N.to_nat l)%nat) eqn:E;
      [split; discriminate|].
    apply orb_false_iff in E. destruct E as [E1 E2].
    apply Nat.ltb_ge in E1. apply Nat.ltb_ge in E2.
    assert (Hl : (length (skipn (N.to_nat l) (t :: l :: rest)) <= f)%nat).
    { rewrite skipn_length. cbn [length] in *. lia. }
    destruct (IH _ Hl) as [A B].
    destruct (parse_options f (skipn (N.to_nat l) (t :: l :: rest))); simpl;
      split; try discriminate; congruence.
Qed.

Lemma in_skipn : forall {A} k (l : list A) x, In x (skipn k l) -> In x l.
Proof. induction k; intros l x; simpl; auto. destruct l; simpl; auto. Qed.

(* every parsed option has at most 253 data bytes when bytes are < 256 *)
Lemma parse_options_len : forall fuel d os,
  (forall b, In b d -> (b < 256)%N) -> parse_options fuel d = Ok os ->
  forall o, In o os -> (length (o_data o) <= 253)%nat.
Proof.
  induction fuel as [|f IH]; intros d os Hb.
  - destruct d as [|t [|l rest]]; simpl; intros H; inversion H; subst; intros o [].
  - destruct d as [|t [|l rest]]; simpl; try (intros H; inversion H; subst; intros o []).
    destruct ((N.to_nat l <? 2)%nat || (S (S (length rest)) <? N.to_nat l)%nat) eqn:E; [discriminate|].
    destruct (parse_options f (skipn (N.to_nat l) (t :: l :: rest))) as [os'| | |] eqn:P; simpl; try discriminate.
    intros H; inversion H; subst. intros o [<-|Ho].
    + simpl. rewrite firstn_length. assert (l < 256)%N by (apply Hb; simpl; auto). lia.
    + eapply IH; [|exact P|exact Ho]. intros b Hin. apply Hb. eapply in_skipn; eauto.
Qed.

Lemma serialize_cons : forall o os,
  serialize_options (o :: os) =
  o_type o :: ((2 + N.of_nat (length (o_data o))) mod 256)%N :: o_data o ++ serialize_options os.
Proof. reflexivity. Qed.

Lemma serialize_parse : forall os,
  (forall o, In o os -> (length (o_data o) <= 253)%nat) ->
  forall fuel, (length (serialize_options os) <= fuel)%nat ->
  parse_options fuel (serialize_options os) = Ok os.
Proof.
  induction os as [|o os IH]; intros Hlen fuel Hf.
  - destruct fuel; reflexivity.
  - assert (Ho : (length (o_data o) <= 253)%nat) by (apply Hlen; simpl; auto).
    destruct o as [t d]. cbn [o_data] in Ho.
    rewrite serialize_cons in *. cbn [o_type o_data] in *.
    destruct fuel as [|f]; [cbn [length] in Hf; lia|].
    set (l := ((2 + N.of_nat (length d)) mod 256)%N).
    assert (Hl : N.to_nat l = (2 + length d)%nat).
    { unfold l. rewrite N.mod_small by lia. lia. }
    cbn [parse_options]. rewrite Hl.
    replace ((2 + length d <? 2)%nat) with false by (symmetry; apply Nat.ltb_ge; lia).
    cbn [orb].
    replace ((length (t :: l :: d ++ serialize_options os) <? 2 + length d)%nat) with false
      by (symmetry; apply Nat.ltb_ge; simpl; rewrite app_length; lia).
    replace (skipn (2 + length d) (t :: l :: d ++ serialize_options os)) with (serialize_options os)
      by (simpl; rewrite skipn_app, skipn_all, Nat.sub_diag; reflexivity).
    rewrite IH.
    + simpl. rewrite Nat.sub_0_r.
      rewrite firstn_app, firstn_all, Nat.sub_diag. simpl. rewrite app_nil_r. reflexivity.
    + intros o' Ho'. apply Hlen. right; assumption.
    + cbn [length] in Hf. rewrite app_length in Hf. lia.
Qed.

(* ------------------------------------------------------------------ reply selection *)
Lemma reply_is_ack : forall id r id' os, reply id r = Sca id' os -> is_good r = true /\ os = r_ack r /\ id' = id.
Proof.
  intros id r id' os. unfold reply. destruct (is_good r); [|destruct (has_rej r); discriminate].
  intros H; inversion H; auto.
Qed.

Lemma rcr_event_sca : forall st id r acts st' id' os,
  rcr_event st id r = (acts, st') -> In (Sca id' os) acts -> reply id r = Sca id' os.
Proof.
  intros st id r acts st' id' os H Hin. unfold rcr_event in H.
  repeat match type of H with
  | context [match ?x with _ => _ end] => destruct x
  end; inversion H; subst; simpl in Hin;
  repeat match goal with
  | H : _ \/ _ |- _ => destruct H
  | H : False |- _ => contradiction
  end; try discriminate; try congruence.
Qed.

(* a Configure-Ack leaves an IPCP instance only when the whole request is acceptable; it then
   echoes the request and every address option in it carries the assigned address *)
Lemma ipcp_wire_ack : forall c st p id wire acts st' p' id' os v,
  usable (ic_assigned c) = true -> to4o (ic_assigned c) = Some v ->
  ipcp_input c st p id wire = (acts, st', p') -> In (Sca id' os) acts ->
  parse_wire wire = Ok os /\ id' = id /\
  (forall o, In o os -> o_type o = 3%N -> o_data o = v) /\
  (forall o, In o os -> length (o_data o) = 4%nat /\ (o_type o = 3%N \/ o_type o = 129%N \/ o_type o = 131%N)).
Proof.
  intros c st p id wire acts st' p' id' os v Hu Hv Hin Hs. unfold ipcp_input, ipcp_req_c in Hin.
  destruct (parse_wire wire) as [opts| | |] eqn:P; try (inversion Hin; subst; contradiction).
  destruct (ipcp_req c p opts) as [r p1] eqn:R.
  destruct (rcr_event st id r) as [a s1] eqn:E. inversion Hin; subst.
  pose proof (rcr_event_sca _ _ _ _ _ _ _ E Hs) as Hr.
  apply reply_is_ack in Hr. destruct Hr as (G & -> & ->).
  destruct (ipcp_partition c p opts) as (A & B & C). rewrite R in A, B, C. simpl in A, B, C.
  destruct (good_all_ack (ipcp_kind c) opts r A B C G) as [Hall _].
  rewrite Hall. split; [reflexivity|]. split; [reflexivity|].
  destruct (ipcp_ack_only_assigned c p opts r p1 v Hu Hv R) as (_ & H2 & _).
  destruct (ipcp_unknown_rejected c p opts r p1 R) as (_ & H3 & _).
  rewrite Hall in H2, H3. split; [exact H2|]. intros o Ho. destruct (H3 o Ho) as (_ & X & Y). auto.
Qed.

(* ------------------------------------------------------------------ LCP *)
Definition lcp_kind (fl : flags) (magic : N) (o : opt) : kind :=
  let d := o_data o in
  if N.eqb (o_type o) 1 then
    if Nat.eqb (length d) 2 then
      if N.ltb (num16 d) 64 then KNak (mru_option default_pppoe_mru) else KAck
    else KRej
  else if N.eqb (o_type o) 5 then
    if Nat.eqb (length d) 4 then
      if N.eqb (num32 d) magic && negb (N.eqb (num32 d) 0) then KNak o else KAck
    else KRej
  else if N.eqb (o_type o) 3 then
    if (2 <=? length d)%nat then
      if auth_acceptable fl d then KAck else KNak auth_chap_md5
    else KRej
  else KRej.

Lemma lcp_opt_kind : forall fl magic r p o,
  fst (lcp_opt fl magic (r, p) o) = apply_kind r o (lcp_kind fl magic o).
Proof. intros. unfold lcp_opt, lcp_kind. cbv zeta. split_ifs; reflexivity. Qed.

Lemma lcp_partition : forall fl magic p opts,
  r_ack (fst (lcp_req fl magic p opts)) = filter (fun o => is_kack (lcp_kind fl magic o)) opts /\
  r_nak (fst (lcp_req fl magic p opts)) = flat_map (fun o => knak (lcp_kind fl magic o)) opts /\
  r_rej (fst (lcp_req fl magic p opts)) = filter (fun o => is_krej (lcp_kind fl magic o)) opts.
Proof.
  intros. unfold lcp_req.
  exact (fold_kind (lcp_opt fl magic) (lcp_kind fl magic) (lcp_opt_kind fl magic) opts res0 p).
Qed.

Lemma lcp_kind_auth : forall fl magic o, o_type o = 3%N ->
  lcp_kind fl magic o =
  if (2 <=? length (o_data o))%nat then
    if auth_acceptable fl (o_data o) then KAck else KNak auth_chap_md5
  else KRej.
Proof. intros fl magic o Ht. unfold lcp_kind. rewrite Ht. reflexivity. Qed.

Lemma lcp_kind_magic : forall fl magic o, o_type o = 5%N ->
  lcp_kind fl magic o =
  if Nat.eqb (length (o_data o)) 4 then
    if N.eqb (num32 (o_data o)) magic && negb (N.eqb (num32 (o_data o)) 0) then KNak o else KAck
  else KRej.
Proof. intros fl magic o Ht. unfold lcp_kind. rewrite Ht. reflexivity. Qed.

Lemma auth_acceptable_repaired : forall d,
  auth_acceptable repaired d =
  (N.eqb (num16 d) proto_pap ||
   (N.eqb (num16 d) proto_chap && match d with [_; _; a] => N.eqb a chap_md5 | _ => false end)).
Proof. reflexivity. Qed.

Lemma lcp_no_own_magic : forall fl magic p opts r p',
  lcp_req fl magic p opts = (r, p') -> magic <> 0%N ->
  (forall o, In o (r_ack r) -> o_type o = 5%N -> length (o_data o) = 4%nat /\ num32 (o_data o) <> magic) /\
  (forall o, In o opts -> o_type o = 5%N -> length (o_data o) = 4%nat -> num32 (o_data o) = magic ->
     In o (r_nak r) /\ ~ In o (r_ack r) /\ is_good r = false).
Proof.
  intros fl magic p opts r p' Hreq Hm.
  destruct (lcp_partition fl magic p opts) as (A & B & C). rewrite Hreq in A, B, C. simpl in A, B, C.
  split.
  - intros o Ho Ht. rewrite A in Ho. apply filter_In in Ho. destruct Ho as [_ Hk].
    rewrite (lcp_kind_magic _ _ _ Ht) in Hk.
    destruct (Nat.eqb_spec (length (o_data o)) 4); [|discriminate]. split; auto.
    destruct (N.eqb_spec (num32 (o_data o)) magic); cbn [andb] in Hk; auto.
    destruct (N.eqb_spec (num32 (o_data o)) 0); cbn [negb] in Hk; [congruence|discriminate].
  - intros o Ho Ht Hl Heq.
    assert (K : lcp_kind fl magic o = KNak o).
    { rewrite (lcp_kind_magic _ _ _ Ht). rewrite Hl, Heq, N.eqb_refl, Nat.eqb_refl.
      destruct (N.eqb_spec magic 0); [contradiction|reflexivity]. }
    assert (Hin : In o (r_nak r)).
    { rewrite B. apply in_flat_map. exists o. split; auto. rewrite K. simpl; auto. }
    split; [exact Hin|]. split.
    + intros Hack. rewrite A in Hack. apply filter_In in Hack. destruct Hack as [_ Hk].
      rewrite K in Hk. discriminate.
    + destruct (is_good r) eqn:G; [|reflexivity]. apply is_good_spec in G. destruct G as [G _].
      rewrite G in Hin. contradiction.
Qed.

Lemma lcp_auth_supported_only : forall magic p opts r p',
  lcp_req repaired magic p opts = (r, p') ->
  (forall o, In o (r_ack r) -> o_type o = 3%N ->
     num16 (o_data o) = proto_pap \/
     (num16 (o_data o) = proto_chap /\ exists a b, o_data o = [a; b; chap_md5])) /\
  (forall o, In o opts -> o_type o = 3%N -> (2 <= length (o_data o))%nat ->
     num16 (o_data o) <> proto_pap ->
     ~ (num16 (o_data o) = proto_chap /\ exists a b, o_data o = [a; b; chap_md5]) ->
     In auth_chap_md5 (r_nak r) /\ ~ In o (r_ack r) /\ is_good r = false).
Proof.
  intros magic p opts r p' Hreq.
  destruct (lcp_partition repaired magic p opts) as (A & B & C). rewrite Hreq in A, B, C. simpl in A, B, C.
  split.
  - intros o Ho Ht. rewrite A in Ho. apply filter_In in Ho. destruct Ho as [_ Hk].
    rewrite (lcp_kind_auth _ _ _ Ht) in Hk.
    destruct ((2 <=? length (o_data o))%nat); [|discriminate].
    rewrite auth_acceptable_repaired in Hk.
    destruct (N.eqb_spec (num16 (o_data o)) proto_pap); [left; assumption|].
    destruct (N.eqb_spec (num16 (o_data o)) proto_chap); cbn [orb andb] in Hk; [|discriminate].
    right. split; auto.
    destruct (o_data o) as [|a [|b [|x [|? ?]]]]; try discriminate.
    destruct (N.eqb_spec x chap_md5); [|discriminate]. subst. eauto.
  - intros o Ho Ht Hl Hnp Hnc.
    assert (K : lcp_kind repaired magic o = KNak auth_chap_md5).
    { rewrite (lcp_kind_auth _ _ _ Ht).
      destruct (Nat.leb_spec 2 (length (o_data o))); [|lia].
      rewrite auth_acceptable_repaired.
      destruct (N.eqb_spec (num16 (o_data o)) proto_pap); [contradiction|].
      destruct (N.eqb_spec (num16 (o_data o)) proto_chap); cbn [orb andb]; [|reflexivity].
      destruct (o_data o) as [|a [|b [|x [|? ?]]]]; try reflexivity.
      destruct (N.eqb_spec x chap_md5); [|reflexivity]. subst. exfalso. apply Hnc. eauto. }
    assert (Hin : In auth_chap_md5 (r_nak r)).
    { rewrite B. apply in_flat_map. exists o. split; auto. rewrite K. simpl; auto. }
    split; [exact Hin|]. split.
    + intros Hack. rewrite A in Hack. apply filter_In in Hack. destruct Hack as [_ Hk].
      rewrite K in Hk. discriminate.
    + destruct (is_good r) eqn:G; [|reflexivity]. apply is_good_spec in G. destruct G as [G _].
      rewrite G in Hin. contradiction.
Qed.

(* in both variants only PAP or CHAP is ever acknowledged *)
Lemma lcp_auth_pap_or_chap : forall fl magic p opts r p',
  lcp_req fl magic p opts = (r, p') ->
  forall o, In o (r_ack r) -> o_type o = 3%N ->
    num16 (o_data o) = proto_pap \/ num16 (o_data o) = proto_chap.
Proof.
  intros fl magic p opts r p' Hreq o Ho Ht.
  destruct (lcp_partition fl magic p opts) as (A & _). rewrite Hreq in A. simpl in A.
  rewrite A in Ho. apply filter_In in Ho. destruct Ho as [_ Hk].
  rewrite (lcp_kind_auth _ _ _ Ht) in Hk.
  destruct ((2 <=? length (o_data o))%nat); [|discriminate].
  unfold auth_acceptable in Hk. cbv zeta in Hk.
  destruct (N.eqb_spec (num16 (o_data o)) proto_pap); auto.
  destruct (N.eqb_spec (num16 (o_data o)) proto_chap); auto.
  destruct (f_auth fl); cbn [orb andb] in Hk; discriminate.
Qed.

Lemma lcp_unknown_rejected : forall fl magic p opts r p',
  lcp_req fl magic p opts = (r, p') ->
  (forall o, In o opts ->
     (o_type o <> 1%N /\ o_type o <> 3%N /\ o_type o <> 5%N) \/
     (o_type o = 1%N /\ length (o_data o) <> 2%nat) \/
     (o_type o = 5%N /\ length (o_data o) <> 4%nat) \/
     (o_type o = 3%N /\ (length (o_data o) < 2)%nat) ->
     In o (r_rej r) /\ ~ In o (r_ack r) /\ is_good r = false) /\
  (forall o, In o (r_ack r) -> In o opts /\ (o_type o = 1%N \/ o_type o = 3%N \/ o_type o = 5%N)).
Proof.
  intros fl magic p opts r p' Hreq.
  destruct (lcp_partition fl magic p opts) as (A & B & C). rewrite Hreq in A, B, C. simpl in A, B, C.
  split.
  - intros o Ho Hu.
    assert (K : lcp_kind fl magic o = KRej).
    { unfold lcp_kind. cbv zeta.
      destruct (N.eqb_spec (o_type o) 1); destruct (N.eqb_spec (o_type o) 5);
        destruct (N.eqb_spec (o_type o) 3);
        destruct (Nat.eqb_spec (length (o_data o)) 2); destruct (Nat.eqb_spec (length (o_data o)) 4);
        destruct (Nat.leb_spec 2 (length (o_data o)));
        try reflexivity; exfalso;
        destruct Hu as [(X & Y & Z)|[(X & Y)|[(X & Y)|(X & Y)]]]; try congruence; try lia. }
    assert (Hin : In o (r_rej r)). { rewrite C. apply filter_In. split; auto. rewrite K. reflexivity. }
    split; [exact Hin|]. split.
    + intros Hack. rewrite A in Hack. apply filter_In in Hack. destruct Hack as [_ Hk].
      rewrite K in Hk. discriminate.
    + destruct (is_good r) eqn:G; [|reflexivity]. apply is_good_spec in G. destruct G as [_ G].
      rewrite G in Hin. contradiction.
  - intros o Ho. rewrite A in Ho. apply filter_In in Ho. destruct Ho as [Ho Hk]. split; auto.
    unfold lcp_kind in Hk. cbv zeta in Hk.
    destruct (N.eqb_spec (o_type o) 1); auto. destruct (N.eqb_spec (o_type o) 5); auto.
    destruct (N.eqb_spec (o_type o) 3); auto. discriminate.
Qed.

(* ------------------------------------------------------------------ IPv6CP *)
Definition v6_ok (local : bytes) (opts : list opt) (o : opt) : Prop :=
  In o opts /\ o_type o = 1%N /\ length (o_data o) = 8%nat /\
  all_zero (o_data o) = false /\ o_data o <> local.

Lemma ipv6cp_opt_ack : forall local s o x,
  In x (r_ack (v6_res (ipv6cp_opt local s o))) ->
  In x (r_ack (v6_res s)) \/
  (x = o /\ o_type o = 1%N /\ length (o_data o) = 8%nat /\ all_zero (o_data o) = false /\ o_data o <> local).
Proof.
  intros local s o x. unfold ipv6cp_opt, v6_nak.
  destruct (N.eqb_spec (o_type o) 1); [|simpl; auto].
  destruct (Nat.eqb_spec (length (o_data o)) 8); [|simpl; auto].
  destruct (all_zero (o_data o)) eqn:Z; simpl.
  - destruct (all_zero local); simpl; [auto|]. destruct (v6_oracle s); simpl; auto.
  - destruct (bytes_eqb (o_data o) local) eqn:E.
    + destruct (v6_oracle s); simpl; auto.
    + simpl. rewrite in_app_iff. simpl. intros [H|[H|[]]]; auto. right. subst x.
      repeat split; auto. intros Heq. apply bytes_eqb_eq in Heq. congruence.
Qed.

Lemma ipv6cp_fold_ack : forall local opts s x,
  In x (r_ack (v6_res (fold_left (ipv6cp_opt local) opts s))) ->
  In x (r_ack (v6_res s)) \/ v6_ok local opts x.
Proof.
  intros local opts. induction opts as [|o opts IH]; intros s x; simpl; [auto|].
  intros H. apply IH in H. destruct H as [H|H].
  - apply ipv6cp_opt_ack in H. destruct H as [H|(-> & A & B & C & D)]; auto.
    right. unfold v6_ok. simpl. auto 10.
  - right. destruct H as (A & B). split; [right; assumption|assumption].
Qed.

Lemma ipv6cp_iid : forall local peer oracle opts o,
  In o (r_ack (v6_res (ipv6cp_req local peer oracle opts))) -> v6_ok local opts o.
Proof.
  intros local peer oracle opts o H. unfold ipv6cp_req in H.
  apply ipv6cp_fold_ack in H. destruct H as [[]|H]. exact H.
Qed.

(* zero or own identifier, wrong length, other type: never acknowledged, the reply is not an Ack *)
Lemma ipv6cp_opt_bad : forall local s o,
  (o_type o <> 1%N \/ length (o_data o) <> 8%nat \/ all_zero (o_data o) = true \/ o_data o = local) ->
  is_good (v6_res (ipv6cp_opt local s o)) = false.
Proof.
  intros local s o H. unfold ipv6cp_opt, v6_nak.
  assert (G1 : forall r x, is_good (add_nak r x) = false).
  { intros r x. unfold is_good, add_nak. simpl. destruct (r_nak r); reflexivity. }
  assert (G2 : forall r x, is_good (add_rej r x) = false).
  { intros r x. unfold is_good, add_rej. simpl. destruct (r_nak r); destruct (r_rej r); reflexivity. }
  destruct (N.eqb_spec (o_type o) 1); [|simpl; apply G2].
  destruct (Nat.eqb_spec (length (o_data o)) 8); [|simpl; apply G2].
  destruct (all_zero (o_data o)) eqn:Z; simpl.
  - destruct (all_zero local); simpl; [apply G2|]. destruct (v6_oracle s); simpl; apply G1.
  - destruct (bytes_eqb (o_data o) local) eqn:E.
    + destruct (v6_oracle s); simpl; apply G1.
    + exfalso. destruct H as [H|[H|[H|H]]]; try congruence.
      subst local. rewrite bytes_eqb_refl in E. discriminate.
Qed.

Lemma ipv6cp_opt_mono : forall local s o,
  is_good (v6_res s) = false -> is_good (v6_res (ipv6cp_opt local s o)) = false.
Proof.
  intros local s o H.
  assert (M : forall r, is_good r = false ->
              (forall x, is_good (add_ack r x) = false) /\ (forall x, is_good (add_nak r x) = false) /\
              (forall x, is_good (add_rej r x) = false)).
  { intros r Hr. unfold is_good in *. simpl. destruct (r_nak r), (r_rej r); try discriminate;
      repeat split; intros; simpl; try reflexivity; destruct l; reflexivity. }
  destruct (M _ H) as (M1 & M2 & M3).
  unfold ipv6cp_opt, v6_nak. split_ifs; simpl; auto; destruct (v6_oracle s); simpl; auto.
Qed.

Lemma ipv6cp_fold_mono : forall local opts s,
  is_good (v6_res s) = false -> is_good (v6_res (fold_left (ipv6cp_opt local) opts s)) = false.
Proof.
  intros local opts. induction opts as [|o opts IH]; intros s H; simpl; auto.
  apply IH. apply ipv6cp_opt_mono. exact H.
Qed.

Lemma ipv6cp_bad_not_good : forall local peer oracle opts o,
  In o opts ->
  (o_type o <> 1%N \/ length (o_data o) <> 8%nat \/ all_zero (o_data o) = true \/ o_data o = local) ->
  is_good (v6_res (ipv6cp_req local peer oracle opts)) = false.
Proof.
  intros local peer oracle opts o Hin Hbad. unfold ipv6cp_req.
  generalize (mkv6 res0 peer oracle) as s. revert Hin.
  induction opts as [|a opts IH]; intros Hin s; [contradiction|]. simpl.
  destruct Hin as [->|Hin].
  - apply ipv6cp_fold_mono. apply ipv6cp_opt_bad. exact Hbad.
  - apply IH. exact Hin.
Qed.

(* ------------------------------------------------------------------ session *)
(* IPCP has been started with a usable assignment v: the session address is nil (only after a reservation
   conflict on re-authentication) or v, and nothing but v is remembered as negotiated *)
Definition sess_inv (s : sess) : Prop :=
  exists v, ic_assigned (s_cfg s) = Some v /\ length v = 4%nat /\ all_zero v = false /\
            (s_addr s = None \/ exists a, s_addr s = Some a /\ to4 a = Some v) /\
            (pp_addr (s_peer s) = None \/ pp_addr (s_peer s) = Some v).

(* IPCP was never started: Initial, no session address, not open *)
Definition sess_idle (s : sess) : Prop := s_fsm s = 0%N /\ s_addr s = None /\ s_open s = false.
Definition sess_ok (s : sess) : Prop := sess_idle s \/ sess_inv s.

Definition is_reauth_b (e : sev) : bool := match e with EvReauth _ _ => true | _ => false end.

Lemma usable_assigned_of_inv : forall s, sess_inv s -> usable (ic_assigned (s_cfg s)) = true.
Proof.
  intros s (v & Hv & Hl & Hz & _). rewrite Hv. simpl. rewrite (to4_of_len4 v Hl). rewrite Hz. reflexivity.
Qed.

Lemma extract_repaired_usable : forall aaa a, extract_ip repaired aaa = Some a -> usable (Some a) = true.
Proof.
  intros [x|] a; simpl; [|discriminate].
  destruct (match to4 x with Some v => negb (all_zero v) | None => false end) eqn:E; [|discriminate].
  intros H; inversion H; subst. simpl. exact E.
Qed.

(* startNCP (repaired, either owner): either IPCP is (re)started with a usable assignment which is also the
   session address, or nothing about IPCP changes and the session address becomes nil *)
Lemma start_ncp_spec : forall ow c st p addr op last dns orc,
  let r := fst (start_ncp repaired ow c st p addr op last dns orc) in
  (exists v, ic_assigned (s_cfg r) = Some v /\ length v = 4%nat /\ all_zero v = false /\
             (exists a, s_addr r = Some a /\ to4 a = Some v) /\ pp_addr (s_peer r) = None) \/
  (s_cfg r = c /\ s_fsm r = st /\ s_peer r = p /\ s_addr r = None /\ s_open r = op).
Proof.
  intros ow c st p addr op last dns orc. unfold start_ncp.
  set (addr1 := match addr with None => or_alloc orc | Some a =>
                  match ow with PPPoE => if or_reserve_ok orc then Some a else None | _ => Some a end end).
  cbn [f_always repaired]. rewrite orb_false_r.
  destruct (usable addr1) eqn:Hu; [left|right; simpl; auto].
  destruct (usable_spec _ Hu) as (v & Hv & Hl & Hz).
  destruct addr1 as [x|]; [|discriminate].
  assert (E : (match ow, Some x with LNS, None => (c, p) | _, _ => ipcp_set_peer repaired c p (Some x) end)
              = ipcp_set_peer repaired c p (Some x)) by (destruct ow; reflexivity).
  rewrite E. unfold ipcp_set_peer. cbn [f_keep repaired]. destruct (up_open st) as [a st'].
  exists v. destruct ow; simpl; simpl in Hv; rewrite Hv; repeat split; auto; exists x; auto.
Qed.

Lemma sess_start_ok : forall ow aaa d orc f, sess_ok (sess_start_dns repaired ow aaa d orc f).
Proof.
  intros ow aaa d orc f. unfold sess_start_dns.
  destruct (start_ncp_spec ow (with_choice (mk_ipcp_cfg None None) f) 0 ipeer0 (extract_ip repaired aaa) false [] (dns_of d) orc)
    as [(v & Hv & Hl & Hz & Ha & Hp)|(_ & H2 & _ & H4 & H5)].
  - right. exists v. repeat split; auto.
  - left. repeat split; auto.
Qed.

Lemma on_act_fold_inv : forall v p acts ad op,
  length v = 4%nat ->
  (pp_addr p = None \/ pp_addr p = Some v) ->
  (ad = None \/ exists a, ad = Some a /\ to4 a = Some v) ->
  let ad' := fst (fold_left (on_act repaired p) acts (ad, op)) in
  (ad' = None \/ exists a, ad' = Some a /\ to4 a = Some v) /\ (ad <> None -> ad' <> None).
Proof.
  intros v p acts. induction acts as [|x acts IH]; intros ad op Hl Hp Ha; simpl; [split; auto|].
  destruct (on_act repaired p (ad, op) x) as [ad1 op1] eqn:E.
  assert (H1 : (ad1 = None \/ exists a, ad1 = Some a /\ to4 a = Some v) /\ (ad <> None -> ad1 <> None)).
  { destruct x; simpl in E; inversion E; subst; auto.
    destruct Hp as [Hp|Hp]; rewrite Hp; [auto|].
    split; [right; exists v; split; auto; apply to4_of_len4; auto|intros _; discriminate]. }
  destruct H1 as [H1 H2]. destruct (IH ad1 op1 Hl Hp H1) as [H3 H4]. split; auto.
Qed.

Lemma ipcp_learn_assigned : forall os c, ic_assigned (ipcp_learn c os) = ic_assigned c.
Proof.
  unfold ipcp_learn. induction os as [|o os IH]; intros c; simpl; [reflexivity|].
  rewrite IH. unfold ipcp_learn_opt. split_ifs; reflexivity.
Qed.

Lemma sess_fsm_only_inv : forall s c' r,
  sess_inv s -> ic_assigned c' = ic_assigned (s_cfg s) ->
  sess_inv (fst (sess_fsm_only repaired s c' r)) /\
  (s_addr s <> None -> s_addr (fst (sess_fsm_only repaired s c' r)) <> None).
Proof.
  intros s c' [a st'] (v & Hv & Hl & Hz & Ha & Hp) Hc. unfold sess_fsm_only.
  pose proof (on_act_fold_inv v (s_peer s) a (s_addr s) (s_open s) Hl Hp Ha) as [H1 H2].
  destruct (fold_left (on_act repaired (s_peer s)) a (s_addr s, s_open s)) as [ad op] eqn:F.
  simpl in *. split; [|exact H2]. exists v. simpl. rewrite Hc. repeat split; auto.
Qed.

Lemma sess_down_ok : forall s,
  (sess_idle s -> sess_idle (fst (sess_down repaired s))) /\
  (sess_inv s -> sess_inv (fst (sess_down repaired s)) /\
                 (s_addr s <> None -> s_addr (fst (sess_down repaired s)) <> None)).
Proof.
  intros s. unfold sess_down. destruct (s_owner s); try (split; auto; fail).
  - destruct (sess_fsm_only repaired s (s_cfg s) (down_event (s_fsm s))) as [s' a] eqn:E.
    split.
    + intros (H1 & H2 & H3). revert E. unfold sess_fsm_only. rewrite H1, H2, H3. simpl.
      intros E; inversion E; subst. unfold sess_idle. simpl. auto.
    + intros H. pose proof (sess_fsm_only_inv s (s_cfg s) (down_event (s_fsm s)) H eq_refl) as [A B].
      rewrite E in A, B. simpl in *. split; [|exact B].
      destruct A as (v & Hv & Hl & Hz & Ha & Hp). exists v. simpl. auto.
  - split.
    + intros (H1 & H2 & H3). unfold sess_idle, sess_fsm_only. rewrite H1, H2, H3. simpl. auto.
    + intros H. apply sess_fsm_only_inv; auto.
Qed.

Lemma sess_reauth_ok : forall s aaa orc, sess_ok s -> sess_ok (fst (sess_step_live repaired s (EvReauth aaa orc))).
Proof.
  intros s aaa orc H. cbn [sess_step_live].
  assert (HD : sess_ok (fst (sess_down repaired s))).
  { pose proof (sess_down_ok s) as [A B]. destruct H as [H|H]; [left; auto|right; apply B; auto]. }
  destruct (s_owner s) eqn:Eo; try exact HD.
  destruct (sess_down repaired s) as [s1 a1] eqn:D. simpl in HD.
  set (addr := match extract_ip repaired aaa with Some x => Some x | None => s_addr s1 end).
  pose proof (start_ncp_spec LNS (s_cfg s1) (s_fsm s1) (s_peer s1) addr (s_open s1) (s_lastreq s1) (s_dns s1) orc) as SP.
  destruct (start_ncp repaired LNS (s_cfg s1) (s_fsm s1) (s_peer s1) addr (s_open s1) (s_lastreq s1) (s_dns s1) orc)
    as [s2 a2]. simpl in *.
  destruct SP as [(v & Hv & Hl & Hz & Ha & Hp)|(E1 & E2 & E3 & E4 & E5)].
  - right. exists v. repeat split; auto.
  - destruct HD as [(I1 & I2 & I3)|(v & Hv & Hl & Hz & Ha & Hp)].
    + left. unfold sess_idle. rewrite E2, E4, E5. auto.
    + right. exists v. rewrite E1, E3, E4. repeat split; auto.
Qed.

Lemma sess_step_inv : forall s e, is_reauth_b e = false -> sess_inv s ->
  sess_inv (fst (sess_step_live repaired s e)) /\
  (s_addr s <> None -> s_addr (fst (sess_step_live repaired s e)) <> None).
Proof.
  intros s e Hre Hinv. destruct e as [id wire| |w|w|w| |tid| | | | |aaa orc]; [| | | | | | | | | | |discriminate];
    cbn [sess_step_live];
    try (apply sess_fsm_only_inv; [exact Hinv|]; try reflexivity; apply ipcp_learn_assigned);
    try (split; [exact Hinv|auto]);
    try (apply (proj2 (sess_down_ok s)); exact Hinv).
  pose proof (usable_assigned_of_inv s Hinv) as Hu.
  destruct Hinv as (v & Hv & Hl & Hz & Ha & Hp).
  assert (Hto : to4o (ic_assigned (s_cfg s)) = Some v).
  { rewrite Hv. simpl. apply to4_of_len4; auto. }
  unfold ipcp_input, ipcp_req_c.
  destruct (parse_wire wire) as [opts| | |] eqn:P;
    try solve [simpl; split; [exists v; simpl; repeat split; auto|auto]].
  destruct (ipcp_req (s_cfg s) (s_peer s) opts) as [r p'] eqn:R.
  destruct (rcr_event (s_fsm s) id r) as [a st'] eqn:E.
  assert (Hp' : pp_addr p' = None \/ pp_addr p' = Some v).
  { pose proof (ipcp_fold_peer_addr (s_cfg s) opts res0 (s_peer s)) as H.
    unfold ipcp_req in R. rewrite R in H. simpl in H.
    destruct H as [H|(o & Ho & K & T & H)]; [rewrite H; exact Hp|].
    right. rewrite H. f_equal.
    apply ipcp_kind_ack in K. destruct K as (Hlen & [(_ & _ & He)|[X|X]]); try (rewrite X in T; discriminate).
    specialize (He Hu). rewrite Hto in He. simpl in He. apply ip_equal_len4 in He; auto. }
  remember (if ic_stage (s_cfg s) && negb (is_good0 r) then s_peer s else p') as pc.
  assert (Hpc : pp_addr pc = None \/ pp_addr pc = Some v) by (subst pc; destruct (_ && _); assumption).
  pose proof (on_act_fold_inv v pc a (s_addr s) (s_open s) Hl Hpc Ha) as [H1 H2].
  destruct (fold_left (on_act repaired pc) a (s_addr s, s_open s)) as [ad op] eqn:F.
  simpl in *. split; [|exact H2]. exists v. simpl. repeat split; auto.
Qed.

(* a session whose IPCP was never started stays silent and closed whatever the subscriber sends *)
Lemma sess_step_idle : forall fl s e, is_reauth_b e = false -> sess_idle s ->
  sess_idle (fst (sess_step_live fl s e)) /\ snd (sess_step_live fl s e) = [].
Proof.
  intros fl s e Hre (H1 & H2 & H3). unfold sess_idle.
  destruct e as [id wire| |w|w|w| |tid| | | | |aaa orc]; [| | | | | | | | | | |discriminate]; cbn [sess_step_live];
    unfold sess_down, sess_fsm_only; rewrite ?H1, ?H2, ?H3; try (simpl; auto; fail);
    try (destruct (s_owner s); simpl; rewrite ?H1, ?H2, ?H3; simpl; auto; fail).
  unfold ipcp_input, ipcp_req_c. destruct (parse_wire wire); simpl; auto.
  destruct (ipcp_req (s_cfg s) (s_peer s) a) as [r p']. simpl. auto.
Qed.

Lemma sess_step_ok : forall s e, sess_ok s -> sess_ok (fst (sess_step_live repaired s e)).
Proof.
  intros s e H. destruct (is_reauth_b e) eqn:Hre.
  - destruct e; try discriminate. apply sess_reauth_ok. exact H.
  - destruct H as [H|H]; [left; apply sess_step_idle; auto|right; apply sess_step_inv; auto].
Qed.

Lemma sess_step_okE : forall s e, sess_ok s -> sess_ok (fst (sess_step repaired s e)).
Proof. intros s e H. unfold sess_step. destruct (is_ended s); [exact H|apply sess_step_ok; exact H]. Qed.

Lemma sess_step_idleE : forall fl s e, is_reauth_b e = false -> sess_idle s ->
  sess_idle (fst (sess_step fl s e)) /\ snd (sess_step fl s e) = [].
Proof.
  intros fl s e He H. unfold sess_step. destruct (is_ended s); [split; [exact H|reflexivity]|apply sess_step_idle; auto].
Qed.

Lemma sess_run_ok : forall es s, sess_ok s -> sess_ok (sess_run repaired s es).
Proof.
  induction es as [|e es IH]; intros s H; simpl; auto. apply IH. apply sess_step_okE. exact H.
Qed.

(* without a reservation conflict the session address of a started session is never nil *)
Definition no_conflict (e : sev) : bool :=
  match e with EvReauth _ orc => or_reserve_ok orc | _ => true end.
Definition sess_ok2 (s : sess) : Prop := sess_idle s \/ (sess_inv s /\ s_addr s <> None).

Lemma sess_step_ok2 : forall s e, no_conflict e = true -> sess_ok2 s -> sess_ok2 (fst (sess_step_live repaired s e)).
Proof.
  intros s e Hnc H. destruct (is_reauth_b e) eqn:Hre.
  - destruct e as [? ?| |?|?|?| |?| | | | |aaa orc]; try discriminate. simpl in Hnc. cbn [sess_step_live].
    assert (HD : sess_ok2 (fst (sess_down repaired s))).
    { pose proof (sess_down_ok s) as [A B].
      destruct H as [H|[H Hne]]; [left; auto|right; destruct (B H); auto]. }
    destruct (s_owner s) eqn:Eo; try exact HD.
    destruct (sess_down repaired s) as [s1 a1] eqn:D. simpl in HD.
    set (addr := match extract_ip repaired aaa with Some x => Some x | None => s_addr s1 end).
    pose proof (start_ncp_spec LNS (s_cfg s1) (s_fsm s1) (s_peer s1) addr (s_open s1) (s_lastreq s1) (s_dns s1) orc) as SP.
    destruct (start_ncp repaired LNS (s_cfg s1) (s_fsm s1) (s_peer s1) addr (s_open s1) (s_lastreq s1) (s_dns s1) orc)
      as [s2 a2] eqn:SN. simpl in *.
    destruct SP as [(v & Hv & Hl & Hz & (a & Ha & Hto) & Hp)|(E1 & E2 & E3 & E4 & E5)].
    + right. split; [exists v; repeat split; auto; right; exists a; auto|rewrite Ha; discriminate].
    + destruct HD as [(I1 & I2 & I3)|(Hinv & Hne)].
      * left. unfold sess_idle. rewrite E2, E4, E5. auto.
      * exfalso. destruct Hinv as (v & Hv & Hl & Hz & Ha & Hp).
        destruct Ha as [Ha|(a0 & Ha0 & Hto0)]; [contradiction|].
        assert (Hu : usable addr = true).
        { unfold addr. destruct (extract_ip repaired aaa) eqn:E; [eapply extract_repaired_usable; eauto|].
          rewrite Ha0. simpl. rewrite Hto0, Hz. reflexivity. }
        destruct addr as [x|] eqn:Ea; [|discriminate].
        revert SN. unfold start_ncp. cbn [f_always repaired]. rewrite orb_false_r.
        rewrite Hu; unfold ipcp_set_peer; destruct (up_open (s_fsm s1));
          intros SN; inversion SN; subst; simpl in E4; discriminate.
  - assert (Hre' : is_reauth_b e = false) by exact Hre.
    destruct H as [H|(H & Hne)]; [left; apply sess_step_idle; auto|right].
    destruct (sess_step_inv s e Hre' H) as [A B]. split; auto.
Qed.

Lemma sess_step_ok2E : forall s e, no_conflict e = true -> sess_ok2 s -> sess_ok2 (fst (sess_step repaired s e)).
Proof. intros s e Hn H. unfold sess_step. destruct (is_ended s); [exact H|apply sess_step_ok2; auto]. Qed.

Lemma sess_run_ok2 : forall es s, forallb no_conflict es = true -> sess_ok2 s -> sess_ok2 (sess_run repaired s es).
Proof.
  induction es as [|e es IH]; intros s Hnc H; simpl in *; auto.
  apply andb_true_iff in Hnc. destruct Hnc as [H1 H2]. apply IH; auto. apply sess_step_ok2E; auto.
Qed.

Lemma sess_start_ok2 : forall ow aaa d orc f, sess_ok2 (sess_start_dns repaired ow aaa d orc f).
Proof.
  intros ow aaa d orc f. unfold sess_start_dns.
  destruct (start_ncp_spec ow (with_choice (mk_ipcp_cfg None None) f) 0 ipeer0 (extract_ip repaired aaa) false [] (dns_of d) orc)
    as [(v & Hv & Hl & Hz & (a & Ha & Hto) & Hp)|(_ & H2 & _ & H4 & H5)].
  - right. split; [exists v; repeat split; auto; right; exists a; auto|rewrite Ha; discriminate].
  - left. repeat split; auto.
Qed.

Definition is_reauth (e : sev) : bool := is_reauth_b e.

(* no packet of the subscriber changes the assigned address (any variant); only a new AAA answer does *)
Lemma sess_step_assigned : forall fl s e, is_reauth e = false ->
  ic_assigned (s_cfg (fst (sess_step_live fl s e))) = ic_assigned (s_cfg s).
Proof.
  intros fl s e He.
  assert (F : forall c' r, ic_assigned c' = ic_assigned (s_cfg s) ->
              ic_assigned (s_cfg (fst (sess_fsm_only fl s c' r))) = ic_assigned (s_cfg s)).
  { intros c' [a st'] Hc. unfold sess_fsm_only. destruct (fold_left _ _ _). simpl. exact Hc. }
  destruct e as [id wire| |w|w|w| |tid| | | | |aaa orc]; [| | | | | | | | | | |discriminate]; cbn [sess_step_live];
    try (apply F; try reflexivity; apply ipcp_learn_assigned); try reflexivity;
    try (unfold sess_down; destruct (s_owner s); try reflexivity;
         pose proof (F (s_cfg s) (down_event (s_fsm s)) eq_refl) as X;
         destruct (sess_fsm_only fl s (s_cfg s) (down_event (s_fsm s))); simpl in *; exact X).
  unfold ipcp_input, ipcp_req_c. destruct (parse_wire wire); simpl; auto.
  destruct (ipcp_req _ _ _). destruct (rcr_event _ _ _). destruct (fold_left _ _ _). reflexivity.
Qed.

Lemma sess_step_assignedE : forall fl s e, is_reauth e = false ->
  ic_assigned (s_cfg (fst (sess_step fl s e))) = ic_assigned (s_cfg s).
Proof. intros fl s e H. unfold sess_step. destruct (is_ended s); [reflexivity|apply sess_step_assigned; exact H]. Qed.

Lemma sess_run_assigned : forall fl es s, forallb (fun e => negb (is_reauth e)) es = true ->
  ic_assigned (s_cfg (sess_run fl s es)) = ic_assigned (s_cfg s).
Proof.
  intros fl es. induction es as [|e es IH]; intros s H; simpl in *; auto.
  apply andb_true_iff in H. destruct H as [H1 H2]. rewrite IH by exact H2.
  apply sess_step_assignedE. destruct (is_reauth e); [discriminate|reflexivity].
Qed.

(* at every point of every history, for both owners: either IPCP was never started (no address, closed), or
   the assigned address is usable, the session address is nil or the assigned one, nothing stale is remembered *)
Lemma adopted_is_assigned : forall ow aaa d orc f es,
  let s := sess_run repaired (sess_start_dns repaired ow aaa d orc f) es in
  (s_fsm s = 0%N /\ s_addr s = None /\ s_open s = false) \/
  (usable (ic_assigned (s_cfg s)) = true /\
   (s_addr s = None \/ to4o (s_addr s) = ic_assigned (s_cfg s)) /\
   (pp_addr (s_peer s) = None \/ pp_addr (s_peer s) = ic_assigned (s_cfg s))).
Proof.
  intros ow aaa d orc f es s.
  pose proof (sess_run_ok es _ (sess_start_ok ow aaa d orc f)) as H. fold s in H.
  destruct H as [H|H]; [left; exact H|right].
  split; [apply usable_assigned_of_inv; exact H|].
  destruct H as (v & Hv & _ & _ & Ha & Hp). rewrite Hv. split; [|exact Hp].
  destruct Ha as [Ha|(a & Ha & Hto)]; [left; exact Ha|right; rewrite Ha; exact Hto].
Qed.

(* and when no re-authentication runs into a reservation conflict the session address IS the assigned one *)
Lemma adopted_is_assigned_no_conflict : forall ow aaa d orc f es,
  forallb no_conflict es = true ->
  let s := sess_run repaired (sess_start_dns repaired ow aaa d orc f) es in
  (s_fsm s = 0%N /\ s_addr s = None /\ s_open s = false) \/
  (usable (ic_assigned (s_cfg s)) = true /\ to4o (s_addr s) = ic_assigned (s_cfg s)).
Proof.
  intros ow aaa d orc f es Hnc s.
  pose proof (sess_run_ok2 es _ Hnc (sess_start_ok2 ow aaa d orc f)) as H. fold s in H.
  destruct H as [H|(H & Hne)]; [left; exact H|right].
  split; [apply usable_assigned_of_inv; exact H|].
  destruct H as (v & Hv & _ & _ & Ha & Hp). rewrite Hv.
  destruct Ha as [Ha|(a & Ha & Hto)]; [contradiction|rewrite Ha; exact Hto].
Qed.

(* startNCP starts IPCP exactly when, after allocation / reservation, the session owns a usable IPv4
   address, and then with that address assigned; otherwise IPCP is never started *)
Definition addr_after_registry (ow : owner) (addr : option bytes) (orc : oracle) : option bytes :=
  match addr with
  | None => or_alloc orc
  | Some a => match ow with PPPoE => if or_reserve_ok orc then Some a else None | _ => Some a end
  end.

Lemma startncp_assigned : forall ow aaa d orc f,
  let s := sess_start_dns repaired ow aaa d orc f in
  let a := addr_after_registry ow (extract_ip repaired aaa) orc in
  (usable a = true ->
     s_fsm s = 6%N /\ usable (ic_assigned (s_cfg s)) = true /\ ic_assigned (s_cfg s) = to4o a /\ s_addr s = a) /\
  (usable a = false ->
     s_fsm s = 0%N /\ s_addr s = None /\ s_open s = false /\ ic_assigned (s_cfg s) = None).
Proof.
  intros ow aaa d orc f s a. unfold s, sess_start_dns, start_ncp. fold (addr_after_registry ow (extract_ip repaired aaa) orc).
  fold a. cbn [f_always repaired]. rewrite orb_false_r.
  destruct (usable a) eqn:Hu; split; intros H; try discriminate.
  - destruct (usable_spec _ Hu) as (v & Hv & Hl & Hz).
    destruct a as [x|]; [|discriminate].
    assert (E : (match ow, Some x with LNS, None => (with_choice (mk_ipcp_cfg None None) f, ipeer0) | _, _ =>
                   ipcp_set_peer repaired (with_choice (mk_ipcp_cfg None None) f) ipeer0 (Some x) end)
                = ipcp_set_peer repaired (with_choice (mk_ipcp_cfg None None) f) ipeer0 (Some x)) by (destruct ow; reflexivity).
    rewrite E. simpl in Hv. destruct ow; simpl; rewrite Hv; simpl; rewrite (to4_of_len4 v Hl), Hz; auto.
  - simpl. repeat split.
Qed.

(* ------------------------------------------------------------------ histories on one object *)
(* the decision never depends on remembered peer state *)
Lemma ipcp_req_peer_independent : forall c p p' opts, fst (ipcp_req c p opts) = fst (ipcp_req c p' opts).
Proof.
  intros c p p' opts.
  destruct (ipcp_partition c p opts) as (A & B & C). destruct (ipcp_partition c p' opts) as (A' & B' & C').
  destruct (fst (ipcp_req c p opts)), (fst (ipcp_req c p' opts)). simpl in *. congruence.
Qed.

Lemma lcp_req_peer_independent : forall fl m p p' opts, fst (lcp_req fl m p opts) = fst (lcp_req fl m p' opts).
Proof.
  intros fl m p p' opts.
  destruct (lcp_partition fl m p opts) as (A & B & C). destruct (lcp_partition fl m p' opts) as (A' & B' & C').
  destruct (fst (lcp_req fl m p opts)), (fst (lcp_req fl m p' opts)). simpl in *. congruence.
Qed.

Lemma iobj_trace_spec : forall fl ops s c os r,
  In (c, os, r) (iobj_trace fl s ops) -> r = fst (ipcp_req c ipeer0 os).
Proof.
  intros fl ops. induction ops as [|o ops IH]; intros s c os r H; simpl in H; [contradiction|].
  destruct o as [q|q|q|q|a|d1 d2|a]; simpl in H;
    try (eapply IH; exact H).
  - unfold ipcp_req_c in H. destruct (ipcp_req (io_cfg s) (io_peer s) q) as [r0 p'] eqn:R. simpl in H.
    destruct H as [H|H]; [|eapply IH; exact H].
    inversion H; subst. rewrite (ipcp_req_peer_independent _ ipeer0 (io_peer s)). rewrite R. reflexivity.
Qed.

Lemma iobj_run_assigned : forall fl ops s,
  ic_assigned (io_cfg (iobj_run fl s ops)) = last_set_peer ops (ic_assigned (io_cfg s)).
Proof.
  intros fl ops. induction ops as [|o ops IH]; intros s; simpl; [reflexivity|].
  rewrite IH. destruct o as [q|q|q|q|a|d1 d2|a]; simpl; try reflexivity.
  - unfold ipcp_req_c. destruct (ipcp_req (io_cfg s) (io_peer s) q). reflexivity.
  - rewrite ipcp_learn_assigned. reflexivity.
  - rewrite ipcp_learn_assigned. reflexivity.
Qed.

(* the configuration recorded in the trace carries the assignment in force at that request *)
Lemma iobj_trace_assigned : forall fl ops s c os r,
  In (c, os, r) (iobj_trace fl s ops) ->
  exists pre post, ops = pre ++ IReq os :: post /\
                   ic_assigned c = last_set_peer pre (ic_assigned (io_cfg s)).
Proof.
  intros fl ops. induction ops as [|o ops IH]; intros s c os r H; simpl in H; [contradiction|].
  assert (G : forall s', In (c, os, r) (iobj_trace fl s' ops) ->
              last_set_peer [o] (ic_assigned (io_cfg s)) = ic_assigned (io_cfg s') ->
              exists pre post, o :: ops = pre ++ IReq os :: post /\
                               ic_assigned c = last_set_peer pre (ic_assigned (io_cfg s))).
  { intros s' H' E. destruct (IH _ _ _ _ H') as (pre & post & -> & Hc).
    exists (o :: pre), post. split; [reflexivity|]. rewrite Hc, <- E. destruct o; reflexivity. }
  destruct o as [q|q|q|q|a|d1 d2|a]; simpl in H.
  - unfold ipcp_req_c in H. destruct (ipcp_req (io_cfg s) (io_peer s) q) as [r0 p'] eqn:R. simpl in H.
    destruct H as [H|H].
    + inversion H; subst. exists [], ops. split; reflexivity.
    + eapply G; [exact H|reflexivity].
  - eapply G; [exact H|]. simpl. rewrite ipcp_learn_assigned. reflexivity.
  - eapply G; [exact H|]. simpl. rewrite ipcp_learn_assigned. reflexivity.
  - eapply G; [exact H|reflexivity].
  - unfold ipcp_set_peer in H. simpl in H. eapply G; [exact H|reflexivity].
  - eapply G; [exact H|reflexivity].
  - eapply G; [exact H|reflexivity].
Qed.

Lemma lobj_trace_spec : forall fl ops s m os r,
  In (m, os, r) (lobj_trace fl s ops) -> r = fst (lcp_req fl m lpeer0 os).
Proof.
  intros fl ops. induction ops as [|o ops IH]; intros s m os r H; simpl in H; [contradiction|].
  destruct o as [q|q|q|q|x|x|x y]; simpl in H; try (eapply IH; exact H).
  destruct (lcp_req fl (lo_magic s) (lo_peer s) q) as [r0 p'] eqn:R. simpl in H.
  destruct H as [H|H]; [|eapply IH; exact H].
  inversion H; subst. rewrite (lcp_req_peer_independent _ _ lpeer0 (lo_peer s)). rewrite R. reflexivity.
Qed.

Lemma v6obj_trace_spec : forall ops s l os r,
  In (l, os, r) (v6obj_trace s ops) -> exists peer oracle, r = v6_res (ipv6cp_req l peer oracle os).
Proof.
  intros ops. induction ops as [|o ops IH]; intros s l os r H; simpl in H; [contradiction|].
  destruct o as [q orc|q|q|q|x]; simpl in H; try (eapply IH; exact H).
  destruct H as [H|H]; [|eapply IH; exact H].
  inversion H; subst. eauto.
Qed.

Lemma ipcp_history : forall fl s ops c os r,
  In (c, os, r) (iobj_trace fl s ops) ->
  r = fst (ipcp_req c ipeer0 os) /\
  (exists pre post, ops = pre ++ IReq os :: post /\
                    ic_assigned c = last_set_peer pre (ic_assigned (io_cfg s))) /\
  (forall v, usable (ic_assigned c) = true -> to4o (ic_assigned c) = Some v ->
     (forall o, In o (r_ack r) -> In o os) /\
     (forall o, In o (r_ack r) -> o_type o = 3%N -> o_data o = v) /\
     (forall o, In o (r_nak r) -> o_type o = 3%N -> o_data o = v) /\
     (forall o, In o os -> o_type o = 3%N -> length (o_data o) = 4%nat -> o_data o <> v ->
        In (mkopt 3 v) (r_nak r) /\ is_good r = false /\ ~ In o (r_ack r))).
Proof.
  intros fl s ops c os r H.
  pose proof (iobj_trace_spec _ _ _ _ _ _ H) as Hr.
  split; [exact Hr|]. split; [eapply iobj_trace_assigned; exact H|].
  intros v Hu Hv. destruct (ipcp_req c ipeer0 os) as [r0 p0] eqn:R. simpl in Hr. subst r0.
  exact (ipcp_ack_only_assigned c ipeer0 os r p0 v Hu Hv R).
Qed.

Lemma lcp_history : forall fl s ops m os r,
  In (m, os, r) (lobj_trace fl s ops) ->
  r = fst (lcp_req fl m lpeer0 os) /\
  (m <> 0%N ->
   (forall o, In o (r_ack r) -> o_type o = 5%N -> length (o_data o) = 4%nat /\ num32 (o_data o) <> m) /\
   (forall o, In o os -> o_type o = 5%N -> length (o_data o) = 4%nat -> num32 (o_data o) = m ->
      In o (r_nak r) /\ ~ In o (r_ack r) /\ is_good r = false)).
Proof.
  intros fl s ops m os r H.
  pose proof (lobj_trace_spec _ _ _ _ _ _ H) as Hr. split; [exact Hr|].
  intros Hm. destruct (lcp_req fl m lpeer0 os) as [r0 p0] eqn:R. simpl in Hr. subst r0.
  exact (lcp_no_own_magic fl m lpeer0 os r p0 R Hm).
Qed.

Lemma lcp_history_auth : forall s ops m os r,
  In (m, os, r) (lobj_trace repaired s ops) ->
  forall o, In o (r_ack r) -> o_type o = 3%N ->
     num16 (o_data o) = proto_pap \/
     (num16 (o_data o) = proto_chap /\ exists a b, o_data o = [a; b; chap_md5]).
Proof.
  intros s ops m os r H.
  pose proof (lobj_trace_spec _ _ _ _ _ _ H) as Hr.
  destruct (lcp_req repaired m lpeer0 os) as [r0 p0] eqn:R. simpl in Hr. subst r0.
  exact (proj1 (lcp_auth_supported_only m lpeer0 os r p0 R)).
Qed.

Lemma ipv6cp_history : forall s ops l os r,
  In (l, os, r) (v6obj_trace s ops) -> forall o, In o (r_ack r) -> v6_ok l os o.
Proof.
  intros s ops l os r H o Ho.
  destruct (v6obj_trace_spec _ _ _ _ _ H) as (peer & oracle & ->).
  eapply ipv6cp_iid; exact Ho.
Qed.

(* what one IPCP object remembers as the negotiated peer address is, at every point of every history, an
   address it would acknowledge again under the configuration in force (repaired SetPeerAddress) *)
Definition remembered_ok (s : iobj) : Prop :=
  forall x, pp_addr (io_peer s) = Some x -> ipcp_kind (io_cfg s) (mkopt 3 x) = KAck.

Lemma ipcp_kind3_assigned : forall c c' o, ic_assigned c = ic_assigned c' -> ic_refuse c = ic_refuse c' ->
  o_type o = 3%N -> ipcp_kind c o = ipcp_kind c' o.
Proof. intros c c' o H Hr Ht. unfold ipcp_kind. rewrite Ht, H, Hr. reflexivity. Qed.

Lemma ipcp_learn_refuse : forall os c, ic_refuse (ipcp_learn c os) = ic_refuse c.
Proof.
  unfold ipcp_learn. induction os as [|o os IH]; intros c; simpl; [reflexivity|].
  rewrite IH. unfold ipcp_learn_opt. split_ifs; reflexivity.
Qed.

Lemma ipcp_kind3_data : forall c o, o_type o = 3%N -> ipcp_kind c o = ipcp_kind c (mkopt 3 (o_data o)).
Proof. intros c o Ht. unfold ipcp_kind. rewrite Ht. reflexivity. Qed.

Lemma iobj_step_remembered : forall s o, remembered_ok s -> remembered_ok (fst (iobj_step repaired s o)).
Proof.
  intros s o H. unfold remembered_ok in *.
  assert (K : forall c', ic_assigned c' = ic_assigned (io_cfg s) -> ic_refuse c' = ic_refuse (io_cfg s) ->
              forall x, pp_addr (io_peer s) = Some x -> ipcp_kind c' (mkopt 3 x) = KAck).
  { intros c' E Er x Hx. rewrite (ipcp_kind3_assigned c' (io_cfg s)); auto. }
  destruct o as [q|q|q|q|a|d1 d2|a]; simpl.
  - unfold ipcp_req_c. destruct (ipcp_req (io_cfg s) (io_peer s) q) as [r p'] eqn:R. simpl. intros x Hx.
    destruct (ic_stage (io_cfg s) && negb (is_good0 r)); [apply H; exact Hx|].
    pose proof (ipcp_fold_peer_addr (io_cfg s) q res0 (io_peer s)) as F.
    unfold ipcp_req in R. rewrite R in F. simpl in F.
    destruct F as [F|(o & Ho & Ko & To & F)].
    + apply H. congruence.
    + rewrite Hx in F. inversion F; subst. rewrite <- (ipcp_kind3_data _ o To). exact Ko.
  - apply K; [apply ipcp_learn_assigned|apply ipcp_learn_refuse].
  - apply K; [apply ipcp_learn_assigned|apply ipcp_learn_refuse].
  - apply K; reflexivity.
  - intros x Hx. discriminate.
  - apply K; reflexivity.
  - apply K; reflexivity.
Qed.

Lemma iobj_run_remembered : forall ops s, remembered_ok s -> remembered_ok (iobj_run repaired s ops).
Proof.
  induction ops as [|o ops IH]; intros s H; simpl; auto. apply IH. apply iobj_step_remembered. exact H.
Qed.

(* ------------------------------------------------------------------ which packet answers a request *)
Lemma reply_is_conf : forall id r, is_conf (reply id r) = true.
Proof. intros. unfold reply. destruct (is_good r); [reflexivity|]. destruct (has_rej r); reflexivity. Qed.

Lemma reply_priority : forall id r,
  (r_rej r <> [] -> reply id r = Scj id (r_rej r)) /\
  (r_rej r = [] -> r_nak r <> [] -> reply id r = Scn id (r_nak r)) /\
  (r_rej r = [] -> r_nak r = [] -> reply id r = Sca id (r_ack r)).
Proof.
  intros id r. unfold reply, is_good, has_rej.
  destruct (r_nak r), (r_rej r); repeat split; intros; try congruence; reflexivity.
Qed.

Lemma rcr_event_conf : forall st id r acts st',
  rcr_event st id r = (acts, st') ->
  conf_packets acts = if replies st then [reply id r] else [].
Proof.
  intros st id r acts st' H. unfold rcr_event in H. unfold replies, conf_packets.
  repeat match type of H with
  | context [match ?x with _ => _ end] => destruct x
  end; inversion H; subst; cbn -[reply]; rewrite ?reply_is_conf; reflexivity.
Qed.

Lemma ipcp_wire_packet : forall c st p id wire acts st' p',
  ipcp_input c st p id wire = (acts, st', p') ->
  match parse_wire wire with
  | Ok os => conf_packets acts = if replies st then [reply id (fst (ipcp_req c p os))] else []
  | _ => acts = []
  end.
Proof.
  intros c st p id wire acts st' p' H. unfold ipcp_input, ipcp_req_c in H.
  destruct (parse_wire wire) as [os| | |]; try (inversion H; reflexivity).
  destruct (ipcp_req c p os) as [r p1]. destruct (rcr_event st id r) as [a s1] eqn:E.
  inversion H; subst. simpl. eapply rcr_event_conf; eauto.
Qed.

Lemma lcp_wire_packet : forall fl magic st p id wire acts st' p',
  lcp_input fl magic st p id wire = (acts, st', p') ->
  match parse_wire wire with
  | Ok os => conf_packets acts = if replies st then [reply id (fst (lcp_req fl magic p os))] else []
  | _ => acts = []
  end.
Proof.
  intros fl magic st p id wire acts st' p' H. unfold lcp_input in H.
  destruct (parse_wire wire) as [os| | |]; try (inversion H; reflexivity).
  destruct (lcp_req fl magic p os) as [r p1]. destruct (rcr_event st id r) as [a s1] eqn:E.
  inversion H; subst. simpl. eapply rcr_event_conf; eauto.
Qed.

Lemma ipv6cp_wire_packet : forall local st p oracle id wire acts st' p',
  ipv6cp_input local st p oracle id wire = (acts, st', p') ->
  match parse_wire wire with
  | Ok os => conf_packets acts =
             if replies st then [reply id (v6_res (ipv6cp_req local p oracle os))] else []
  | _ => acts = []
  end.
Proof.
  intros local st p oracle id wire acts st' p' H. unfold ipv6cp_input in H.
  destruct (parse_wire wire) as [os| | |]; try (inversion H; reflexivity).
  destruct (rcr_event st id (v6_res (ipv6cp_req local p oracle os))) as [a s1] eqn:E.
  inversion H; subst. eapply rcr_event_conf; eauto.
Qed.

(* -- IPCP: what is rejected, what is Nak'd, with a usable assigned address -- *)
Definition ipcp_rejectable (o : opt) : bool :=
  negb ((N.eqb (o_type o) 3 || N.eqb (o_type o) 129 || N.eqb (o_type o) 131) && Nat.eqb (length (o_data o)) 4).

Lemma ipcp_krej_usable : forall c o, usable (ic_assigned c) = true ->
  is_krej (ipcp_kind c o) = ipcp_rejectable o.
Proof.
  intros c o Hu. unfold ipcp_kind, ipcp_dns_kind, ipcp_rejectable. rewrite Hu.
  destruct (usable_spec _ Hu) as (v & Hv & Hl & Hz). rewrite Hv. unfold ip_equal_o.
  destruct (N.eqb_spec (o_type o) 3) as [T3|T3]; cbn [orb andb].
  - destruct (Nat.eqb_spec (length (o_data o)) 4) as [L|L]; cbn [negb]; [|reflexivity].
    destruct (ip_equal (o_data o) v) eqn:E; cbn [negb]; [|reflexivity].
    apply ip_equal_len4 in E; auto.
    rewrite ip_equal_zero by exact L. rewrite E, Hz. reflexivity.
  - destruct (N.eqb (o_type o) 129); cbn [orb andb].
    + destruct (Nat.eqb (length (o_data o)) 4); cbn [negb]; [|reflexivity].
      destruct (ip_equal (o_data o) ipv4zero && dns_usable (ic_dns1 c)); reflexivity.
    + destruct (N.eqb (o_type o) 131); cbn [orb andb]; [|reflexivity].
      destruct (Nat.eqb (length (o_data o)) 4); cbn [negb]; [|reflexivity].
      destruct (ip_equal (o_data o) ipv4zero && dns_usable (ic_dns2 c)); reflexivity.
Qed.

Lemma filter_ext_in : forall {A} (f g : A -> bool) l, (forall x, In x l -> f x = g x) -> filter f l = filter g l.
Proof.
  induction l as [|a l IH]; simpl; intros H; [reflexivity|].
  rewrite (H a (or_introl eq_refl)). rewrite IH; auto.
Qed.

Lemma ipcp_rej_list : forall c p os, usable (ic_assigned c) = true ->
  r_rej (fst (ipcp_req c p os)) = filter ipcp_rejectable os.
Proof.
  intros c p os Hu. destruct (ipcp_partition c p os) as (_ & _ & C). rewrite C.
  apply filter_ext_in. intros o _. apply ipcp_krej_usable; exact Hu.
Qed.

(* the Reject side on the wire *)
Lemma ipcp_wire_rej : forall c st p id wire acts st' p' os,
  usable (ic_assigned c) = true ->
  ipcp_input c st p id wire = (acts, st', p') -> parse_wire wire = Ok os -> replies st = true ->
  (exists o, In o os /\ ipcp_rejectable o = true) ->
  conf_packets acts = [Scj id (filter ipcp_rejectable os)].
Proof.
  intros c st p id wire acts st' p' os Hu Hin Hp Hr (o & Ho & Hrej).
  pose proof (ipcp_wire_packet _ _ _ _ _ _ _ _ Hin) as W. rewrite Hp, Hr in W. rewrite W.
  f_equal. destruct (reply_priority id (fst (ipcp_req c p os))) as (R1 & _).
  rewrite R1; rewrite (ipcp_rej_list c p os Hu); [reflexivity|].
  intros E. assert (In o (filter ipcp_rejectable os)) by (apply filter_In; auto).
  rewrite E in H. contradiction.
Qed.

(* the Nak side on the wire *)
Lemma ipcp_wire_nak : forall c st p id wire acts st' p' os v,
  usable (ic_assigned c) = true -> to4o (ic_assigned c) = Some v ->
  ipcp_input c st p id wire = (acts, st', p') -> parse_wire wire = Ok os -> replies st = true ->
  (forall o, In o os -> ipcp_rejectable o = false) ->
  (exists o, In o os /\ o_type o = 3%N /\ o_data o <> v) ->
  exists nk, conf_packets acts = [Scn id nk] /\ In (mkopt 3 v) nk /\
             (forall n, In n nk -> o_type n = 3%N -> o_data n = v).
Proof.
  intros c st p id wire acts st' p' os v Hu Hv Hin Hp Hr Hnorej (o & Ho & Ht & Hne).
  pose proof (ipcp_wire_packet _ _ _ _ _ _ _ _ Hin) as W. rewrite Hp, Hr in W.
  destruct (ipcp_req c p os) as [r p1] eqn:R. simpl in W.
  assert (Hl : length (o_data o) = 4%nat).
  { pose proof (Hnorej o Ho) as X. unfold ipcp_rejectable in X. rewrite Ht in X. cbn [N.eqb Pos.eqb orb andb] in X.
    destruct (Nat.eqb_spec (length (o_data o)) 4); [assumption|discriminate]. }
  destruct (ipcp_ack_only_assigned c p os r p1 v Hu Hv R) as (_ & _ & N3 & Hwrong).
  destruct (Hwrong o Ho Ht Hl Hne) as (Hnak & _ & _).
  assert (Hrej : r_rej r = []).
  { pose proof (ipcp_rej_list c p os Hu) as X. rewrite R in X. simpl in X. rewrite X.
    clear -Hnorej. induction os as [|a os IH]; simpl; [reflexivity|].
    rewrite (Hnorej a (or_introl eq_refl)). apply IH. intros; apply Hnorej; right; assumption. }
  exists (r_nak r). split; [|split; [exact Hnak|exact N3]].
  rewrite W. f_equal. destruct (reply_priority id r) as (_ & R2 & _). apply R2; auto.
  intros E. rewrite E in Hnak. contradiction.
Qed.

(* a request containing a wrong address proposal is never answered with a Configure-Ack *)
Lemma ipcp_wire_wrong_not_acked : forall c st p id wire acts st' p' os v,
  usable (ic_assigned c) = true -> to4o (ic_assigned c) = Some v ->
  ipcp_input c st p id wire = (acts, st', p') -> parse_wire wire = Ok os ->
  (exists o, In o os /\ o_type o = 3%N /\ o_data o <> v) ->
  forall id' os', ~ In (Sca id' os') acts.
Proof.
  intros c st p id wire acts st' p' os v Hu Hv Hin Hp (o & Ho & Ht & Hne) id' os' Hs.
  destruct (ipcp_wire_ack c st p id wire acts st' p' id' os' v Hu Hv Hin Hs) as (P & _ & A & _).
  rewrite Hp in P. inversion P; subst. apply Hne. apply A; auto.
Qed.

(* the two-step behaviour: wrong proposal together with rejectable options -> Reject naming exactly those;
   the request with those options removed (what RFC 1661 5.4 makes the peer send next) -> Nak with v *)
Lemma filter_filter_neg : forall {A} (f : A -> bool) l x, In x (filter (fun y => negb (f y)) l) -> f x = false.
Proof. intros A f l x H. apply filter_In in H. destruct H as [_ H]. destruct (f x); [discriminate|reflexivity]. Qed.

Lemma ipcp_two_step : forall c v os,
  usable (ic_assigned c) = true -> to4o (ic_assigned c) = Some v ->
  (exists o, In o os /\ o_type o = 3%N /\ length (o_data o) = 4%nat /\ o_data o <> v) ->
  (exists o, In o os /\ ipcp_rejectable o = true) ->
  forall st1 p1 id1 w1 acts1 st1' p1' st2 p2 id2 w2 acts2 st2' p2',
  parse_wire w1 = Ok os -> replies st1 = true -> ipcp_input c st1 p1 id1 w1 = (acts1, st1', p1') ->
  parse_wire w2 = Ok (filter (fun o => negb (ipcp_rejectable o)) os) -> replies st2 = true ->
  ipcp_input c st2 p2 id2 w2 = (acts2, st2', p2') ->
  conf_packets acts1 = [Scj id1 (filter ipcp_rejectable os)] /\
  exists nk, conf_packets acts2 = [Scn id2 nk] /\ In (mkopt 3 v) nk /\
             (forall n, In n nk -> o_type n = 3%N -> o_data n = v).
Proof.
  intros c v os Hu Hv (o & Ho & Ht & Hl & Hne) Hrej st1 p1 id1 w1 acts1 st1' p1' st2 p2 id2 w2 acts2 st2' p2'
         P1 R1 I1 P2 R2 I2.
  split; [eapply ipcp_wire_rej; eauto|].
  eapply ipcp_wire_nak; eauto.
  - intros x Hx. eapply filter_filter_neg; exact Hx.
  - exists o. split; [|auto]. apply filter_In. split; auto.
    unfold ipcp_rejectable. rewrite Ht, Hl. reflexivity.
Qed.

(* -- LCP on the wire -- *)
Lemma lcp_wire_ack : forall magic st p id wire acts st' p' id' os,
  lcp_input repaired magic st p id wire = (acts, st', p') -> In (Sca id' os) acts ->
  parse_wire wire = Ok os /\ id' = id /\
  (forall o, In o os -> o_type o = 1%N \/ o_type o = 3%N \/ o_type o = 5%N) /\
  (magic <> 0%N -> forall o, In o os -> o_type o = 5%N -> num32 (o_data o) <> magic) /\
  (forall o, In o os -> o_type o = 3%N ->
     num16 (o_data o) = proto_pap \/
     (num16 (o_data o) = proto_chap /\ exists a b, o_data o = [a; b; chap_md5])).
Proof.
  intros magic st p id wire acts st' p' id' os Hin Hs. unfold lcp_input in Hin.
  destruct (parse_wire wire) as [opts| | |] eqn:P; try (inversion Hin; subst; contradiction).
  destruct (lcp_req repaired magic p opts) as [r p1] eqn:R.
  destruct (rcr_event st id r) as [a s1] eqn:E. inversion Hin; subst.
  pose proof (rcr_event_sca _ _ _ _ _ _ _ E Hs) as Hr.
  apply reply_is_ack in Hr. destruct Hr as (G & -> & ->).
  destruct (lcp_partition repaired magic p opts) as (A & B & C). rewrite R in A, B, C. simpl in A, B, C.
  destruct (good_all_ack (lcp_kind repaired magic) opts r A B C G) as [Hall _].
  rewrite Hall. split; [reflexivity|]. split; [reflexivity|].
  destruct (lcp_unknown_rejected repaired magic p opts r p' R) as (_ & U).
  destruct (lcp_auth_supported_only magic p opts r p' R) as (S & _).
  rewrite Hall in U, S. split; [intros o Ho; apply (U o Ho)|]. split; [|exact S].
  intros Hm. destruct (lcp_no_own_magic repaired magic p opts r p' R Hm) as (M & _).
  rewrite Hall in M. intros o Ho Ht. apply (M o Ho Ht).
Qed.

(* own magic looped back: never a Configure-Ack; a Nak carrying it unless something must be rejected first *)
Lemma lcp_wire_loopback : forall fl magic st p id wire acts st' p' os o,
  magic <> 0%N ->
  lcp_input fl magic st p id wire = (acts, st', p') -> parse_wire wire = Ok os -> replies st = true ->
  In o os -> o_type o = 5%N -> length (o_data o) = 4%nat -> num32 (o_data o) = magic ->
  (forall id' os', ~ In (Sca id' os') acts) /\
  (r_rej (fst (lcp_req fl magic p os)) = [] ->
   exists nk, conf_packets acts = [Scn id nk] /\ In o nk) /\
  (r_rej (fst (lcp_req fl magic p os)) <> [] ->
   conf_packets acts = [Scj id (r_rej (fst (lcp_req fl magic p os)))]).
Proof.
  intros fl magic st p id wire acts st' p' os o Hm Hin Hp Hr Ho Ht Hl He.
  pose proof (lcp_wire_packet _ _ _ _ _ _ _ _ _ Hin) as W. rewrite Hp, Hr in W.
  destruct (lcp_req fl magic p os) as [r p1] eqn:R. simpl in *.
  destruct (lcp_no_own_magic fl magic p os r p1 R Hm) as (_ & L).
  destruct (L o Ho Ht Hl He) as (Hnak & _ & Hng).
  destruct (reply_priority id r) as (R1 & R2 & _).
  split; [|split].
  - intros id' os' Hs.
    assert (Hc : In (Sca id' os') (conf_packets acts)) by (apply filter_In; split; auto).
    rewrite W in Hc. destruct Hc as [Hc|[]]. apply reply_is_ack in Hc. destruct Hc as (G & _). congruence.
  - intros Hrej. exists (r_nak r). split; auto. rewrite W. f_equal. apply R2; auto.
    intros E. rewrite E in Hnak. contradiction.
  - intros Hrej. rewrite W. f_equal. apply R1. exact Hrej.
Qed.

(* -- IPv6CP on the wire -- *)
Lemma ipv6cp_opt_good : forall local s o,
  is_good (v6_res (ipv6cp_opt local s o)) = true ->
  r_ack (v6_res (ipv6cp_opt local s o)) = r_ack (v6_res s) ++ [o].
Proof.
  intros local s o. unfold ipv6cp_opt, v6_nak.
  assert (G1 : forall r x, is_good (add_nak r x) = false).
  { intros r x. unfold is_good, add_nak. simpl. destruct (r_nak r); reflexivity. }
  assert (G2 : forall r x, is_good (add_rej r x) = false).
  { intros r x. unfold is_good, add_rej. simpl. destruct (r_nak r); destruct (r_rej r); reflexivity. }
  split_ifs; simpl; try (rewrite G2; discriminate); try reflexivity;
    destruct (v6_oracle s); simpl; rewrite G1; discriminate.
Qed.

Lemma ipv6cp_fold_good : forall local opts s,
  is_good (v6_res (fold_left (ipv6cp_opt local) opts s)) = true ->
  r_ack (v6_res (fold_left (ipv6cp_opt local) opts s)) = r_ack (v6_res s) ++ opts.
Proof.
  intros local opts. induction opts as [|o opts IH]; intros s G; simpl in *; [rewrite app_nil_r; reflexivity|].
  assert (G1 : is_good (v6_res (ipv6cp_opt local s o)) = true).
  { destruct (is_good (v6_res (ipv6cp_opt local s o))) eqn:E; [reflexivity|].
    rewrite (ipv6cp_fold_mono local opts _ E) in G. discriminate. }
  rewrite (IH _ G). rewrite (ipv6cp_opt_good _ _ _ G1). rewrite <- app_assoc. reflexivity.
Qed.

Lemma ipv6cp_wire_ack : forall local st p oracle id wire acts st' p' id' os,
  ipv6cp_input local st p oracle id wire = (acts, st', p') -> In (Sca id' os) acts ->
  parse_wire wire = Ok os /\ id' = id /\ forall o, In o os -> v6_ok local os o.
Proof.
  intros local st p oracle id wire acts st' p' id' os Hin Hs. unfold ipv6cp_input in Hin.
  destruct (parse_wire wire) as [opts| | |] eqn:P; try (inversion Hin; subst; contradiction).
  destruct (rcr_event st id (v6_res (ipv6cp_req local p oracle opts))) as [a s1] eqn:E.
  inversion Hin; subst.
  pose proof (rcr_event_sca _ _ _ _ _ _ _ E Hs) as Hr.
  apply reply_is_ack in Hr. destruct Hr as (G & -> & ->).
  unfold ipv6cp_req in *. pose proof (ipv6cp_fold_good local opts _ G) as A. simpl in A.
  rewrite A. split; [reflexivity|]. split; [reflexivity|].
  intros o Ho. apply (ipv6cp_iid local p oracle opts o). unfold ipv6cp_req. rewrite A. exact Ho.
Qed.

Lemma ipv6cp_wire_bad : forall local st p oracle id wire acts st' p' os o,
  ipv6cp_input local st p oracle id wire = (acts, st', p') -> parse_wire wire = Ok os ->
  In o os ->
  (o_type o <> 1%N \/ length (o_data o) <> 8%nat \/ all_zero (o_data o) = true \/ o_data o = local) ->
  forall id' os', ~ In (Sca id' os') acts.
Proof.
  intros local st p oracle id wire acts st' p' os o Hin Hp Ho Hbad id' os' Hs.
  destruct (ipv6cp_wire_ack _ _ _ _ _ _ _ _ _ _ _ Hin Hs) as (P & _ & A).
  rewrite Hp in P. inversion P; subst. destruct (A o Ho) as (_ & T & L & Z & N).
  destruct Hbad as [H|[H|[H|H]]]; congruence.
Qed.

(* -- DNS options -- *)
Lemma ipcp_dns_policy : forall c p os r p' t loc,
  ipcp_req c p os = (r, p') ->
  (t = 129%N /\ loc = ic_dns1 c) \/ (t = 131%N /\ loc = ic_dns2 c) ->
  (forall o, In o (r_ack r) -> o_type o = t ->
     In o os /\ length (o_data o) = 4%nat /\ (all_zero (o_data o) = true -> dns_usable loc = false)) /\
  (forall n, In n (r_nak r) -> o_type n = t -> n = ip_option t loc /\ dns_usable loc = true) /\
  (forall o, In o os -> o_type o = t -> length (o_data o) = 4%nat -> all_zero (o_data o) = true ->
     dns_usable loc = true -> In (ip_option t loc) (r_nak r) /\ ~ In o (r_ack r)).
Proof.
  intros c p os r p' t loc Hreq Ht.
  destruct (ipcp_partition c p os) as (A & B & C). rewrite Hreq in A, B, C. simpl in A, B, C.
  assert (K : forall o, o_type o = t -> ipcp_kind c o = ipcp_dns_kind t loc o).
  { intros o Ho. unfold ipcp_kind. destruct Ht as [[-> ->]|[-> ->]]; rewrite Ho; reflexivity. }
  assert (T3 : t <> 3%N) by (destruct Ht as [[-> _]|[-> _]]; discriminate).
  split; [|split].
  - intros o Ho Hty. rewrite A in Ho. apply filter_In in Ho. destruct Ho as [Ho Hk].
    rewrite (K o Hty) in Hk. unfold ipcp_dns_kind in Hk.
    destruct (Nat.eqb_spec (length (o_data o)) 4) as [L|L]; [|discriminate].
    split; auto. split; auto. intros Z. rewrite (ip_equal_zero _ L), Z in Hk. simpl in Hk.
    destruct (dns_usable loc); [discriminate|reflexivity].
  - intros n Hn Hty. rewrite B in Hn. apply in_flat_map in Hn. destruct Hn as (o & Ho & Hn).
    destruct (ipcp_kind c o) eqn:E; simpl in Hn; try contradiction. destruct Hn as [->|[]].
    revert E. unfold ipcp_kind, ipcp_dns_kind.
    destruct (N.eqb_spec (o_type o) 3).
    + split_ifs; intros E; try discriminate E; injection E as E'; rewrite <- E' in Hty; simpl in Hty; congruence.
    + destruct (N.eqb_spec (o_type o) 129).
      * destruct (Nat.eqb (length (o_data o)) 4); [|discriminate].
        destruct (ip_equal (o_data o) ipv4zero); simpl; [|discriminate].
        destruct (dns_usable (ic_dns1 c)) eqn:U; [|discriminate].
        intros E; injection E as E'. rewrite <- E' in Hty |- *. simpl in Hty.
        destruct Ht as [[-> ->]|[-> _]]; [auto|discriminate].
      * destruct (N.eqb_spec (o_type o) 131); [|discriminate].
        destruct (Nat.eqb (length (o_data o)) 4); [|discriminate].
        destruct (ip_equal (o_data o) ipv4zero); simpl; [|discriminate].
        destruct (dns_usable (ic_dns2 c)) eqn:U; [|discriminate].
        intros E; injection E as E'. rewrite <- E' in Hty |- *. simpl in Hty.
        destruct Ht as [[-> _]|[-> ->]]; [discriminate|auto].
  - intros o Ho Hty L Z U.
    assert (E : ipcp_kind c o = KNak (ip_option t loc)).
    { rewrite (K o Hty). unfold ipcp_dns_kind. rewrite L, (ip_equal_zero _ L), Z, U. reflexivity. }
    split.
    + rewrite B. apply in_flat_map. exists o. split; auto. rewrite E. simpl; auto.
    + intros Hack. rewrite A in Hack. apply filter_In in Hack. destruct Hack as [_ Hk]. rewrite E in Hk. discriminate.
Qed.

(* a freshly created IPCP object remembers nothing, so the hypothesis of iobj_run_remembered holds *)
Lemma iobj_fresh_remembered : forall c ops x,
  pp_addr (io_peer (iobj_run repaired (mkiobj c ipeer0) ops)) = Some x ->
  ipcp_kind (io_cfg (iobj_run repaired (mkiobj c ipeer0) ops)) (mkopt 3 x) = KAck.
Proof. intros c ops. apply iobj_run_remembered. intros x H. discriminate. Qed.

(* ------------------------------------------------------------------ restored sessions *)
Lemma sess_restore_ok : forall addr d1 d2 f, sess_ok (sess_restore_f repaired addr d1 d2 f).
Proof.
  intros addr d1 d2 f. unfold sess_restore_f. cbn [f_restore f_rguard repaired orb].
  destruct (usable (Some addr)) eqn:Hu.
  - right. destruct (usable_spec _ Hu) as (v & Hv & Hl & Hz). simpl in Hv.
    exists v. simpl. rewrite Hv. repeat split; auto. right. exists addr. auto.
  - left. repeat split.
Qed.

Lemma restored_adopts_only_assigned : forall addr d1 d2 f es,
  let s := sess_run repaired (sess_restore_f repaired addr d1 d2 f) es in
  (s_fsm s = 0%N /\ s_addr s = None /\ s_open s = false) \/
  (usable (ic_assigned (s_cfg s)) = true /\
   (s_addr s = None \/ to4o (s_addr s) = ic_assigned (s_cfg s)) /\
   (pp_addr (s_peer s) = None \/ pp_addr (s_peer s) = ic_assigned (s_cfg s))).
Proof.
  intros addr d1 d2 f es s.
  pose proof (sess_run_ok es _ (sess_restore_ok addr d1 d2 f)) as H. fold s in H.
  destruct H as [H|H]; [left; exact H|right].
  split; [apply usable_assigned_of_inv; exact H|].
  destruct H as (v & Hv & _ & _ & Ha & Hp). rewrite Hv. split; [|exact Hp].
  destruct Ha as [Ha|(a & Ha & Hto)]; [left; exact Ha|right; rewrite Ha; exact Hto].
Qed.

Lemma restored_assigned : forall addr d1 d2 f, usable (Some addr) = true ->
  ic_assigned (s_cfg (sess_restore_f repaired addr d1 d2 f)) = to4 addr /\
  s_fsm (sess_restore_f repaired addr d1 d2 f) = 9%N.
Proof. intros addr d1 d2 f Hu. unfold sess_restore_f. cbn [f_restore f_rguard repaired orb]. rewrite Hu. auto. Qed.

(* ------------------------------------------------------------------ the session trace *)
Definition no_sca (acts : list act) : Prop := forall id os, ~ In (Sca id os) acts.

Ltac split_matches :=
  repeat match goal with |- context [match ?x with _ => _ end] => destruct x end.

Lemma no_sca_rca : forall st i, no_sca (fst (rca_event st i)).
Proof. intros st i id os. unfold rca_event. split_matches; simpl; intuition congruence. Qed.
Lemma no_sca_rcn : forall st i, no_sca (fst (rcn_event st i)).
Proof. intros st i id os. unfold rcn_event. split_matches; simpl; intuition congruence. Qed.
Lemma no_sca_rtr : forall st i, no_sca (fst (rtr_event st i)).
Proof. intros st i id os. unfold rtr_event. split_matches; simpl; intuition congruence. Qed.
Lemma no_sca_down : forall st, no_sca (fst (down_event st)).
Proof. intros st id os. unfold down_event. split_matches; simpl; intuition congruence. Qed.
Lemma no_sca_to_plus : forall st, no_sca (fst (to_plus st)).
Proof. intros st id os. unfold to_plus. split_matches; simpl; intuition congruence. Qed.
Lemma no_sca_to_minus : forall st, no_sca (fst (to_minus st)).
Proof. intros st id os. unfold to_minus. split_matches; simpl; intuition congruence. Qed.
Lemma no_sca_up_open : forall st, no_sca (fst (up_open st)).
Proof. intros st id os. unfold up_open. split_matches; simpl; intuition congruence. Qed.

Lemma sess_fsm_only_acts : forall fl s c r, snd (sess_fsm_only fl s c r) = fst r.
Proof. intros fl s c [a st]. unfold sess_fsm_only. destruct (fold_left _ _ _). reflexivity. Qed.

Lemma sess_down_no_sca : forall fl s, no_sca (snd (sess_down fl s)).
Proof.
  intros fl s. unfold sess_down. destruct (s_owner s); try (intros id os []).
  - pose proof (sess_fsm_only_acts fl s (s_cfg s) (down_event (s_fsm s))) as X.
    destruct (sess_fsm_only fl s (s_cfg s) (down_event (s_fsm s))) as [s' a]. simpl in *. rewrite X. apply no_sca_down.
  - rewrite sess_fsm_only_acts. apply no_sca_down.
Qed.

Lemma start_ncp_no_sca : forall fl ow c st p addr op last dns orc,
  no_sca (snd (start_ncp fl ow c st p addr op last dns orc)).
Proof.
  intros. unfold start_ncp. destruct (usable _ || f_always fl); [|intros id os []].
  destruct (match ow, _ with LNS, None => _ | _, _ => _ end). destruct (up_open st) as [a st'] eqn:E.
  simpl. pose proof (no_sca_up_open st) as H. rewrite E in H. exact H.
Qed.

(* every Configure-Ack a session ever emits carries nothing but the assignment in force *)
Lemma sess_step_acks_only_assigned : forall s e id os,
  sess_ok s -> In (Sca id os) (snd (sess_step_live repaired s e)) ->
  exists v, ic_assigned (s_cfg s) = Some v /\ usable (ic_assigned (s_cfg s)) = true /\
            (forall o, In o os -> o_type o = 3%N -> o_data o = v) /\
            (forall o, In o os -> length (o_data o) = 4%nat /\
                                  (o_type o = 3%N \/ o_type o = 129%N \/ o_type o = 131%N)).
Proof.
  intros s e id os Hok Hin.
  destruct e as [rid wire| |w|w|w| |tid| | | | |aaa orc]; cbn [sess_step_live] in Hin;
    try (rewrite sess_fsm_only_acts in Hin; exfalso;
         first [eapply no_sca_rca; exact Hin | eapply no_sca_rcn; exact Hin | eapply no_sca_rtr; exact Hin
               | eapply no_sca_to_plus; exact Hin | eapply no_sca_to_minus; exact Hin]).
  - destruct Hok as [Hidle|Hinv].
    + destruct (sess_step_idle repaired s (EvReq rid wire) eq_refl Hidle) as [_ E].
      cbn [sess_step_live] in E. rewrite E in Hin. contradiction.
    + pose proof (usable_assigned_of_inv s Hinv) as Hu.
      destruct Hinv as (v & Hv & Hl & Hz & _).
      assert (Hto : to4o (ic_assigned (s_cfg s)) = Some v) by (rewrite Hv; simpl; apply to4_of_len4; auto).
      destruct (ipcp_input (s_cfg s) (s_fsm s) (s_peer s) rid wire) as [[a st'] p'] eqn:E.
      destruct (fold_left (on_act repaired p') a (s_addr s, s_open s)). simpl in Hin.
      destruct (ipcp_wire_ack _ _ _ _ _ _ _ _ _ _ v Hu Hto E Hin) as (_ & _ & A & B).
      exists v. auto.
  - simpl in Hin. contradiction.
  - rewrite sess_fsm_only_acts in Hin. exfalso. destruct (N.eqb (s_fsm s) 5); simpl in Hin; contradiction.
  - exfalso. eapply sess_down_no_sca; exact Hin.
  - exfalso. destruct (s_owner s); try (eapply sess_down_no_sca; exact Hin).
    destruct (sess_down repaired s) as [s1 a1] eqn:D.
    destruct (start_ncp repaired LNS (s_cfg s1) (s_fsm s1) (s_peer s1) _ (s_open s1) (s_lastreq s1) (s_dns s1) orc)
      as [s2 a2] eqn:SN.
    simpl in Hin. apply in_app_or in Hin. destruct Hin as [Hin|Hin].
    + pose proof (sess_down_no_sca repaired s) as H. rewrite D in H. eapply H; exact Hin.
    + pose proof (start_ncp_no_sca repaired LNS (s_cfg s1) (s_fsm s1) (s_peer s1)
                    (match extract_ip repaired aaa with Some x => Some x | None => s_addr s1 end)
                    (s_open s1) (s_lastreq s1) (s_dns s1) orc) as H.
      rewrite SN in H. eapply H; exact Hin.
Qed.

Lemma session_acks_only_assigned : forall s0 es e id os,
  sess_ok s0 ->
  let s := sess_run repaired s0 es in
  In (Sca id os) (snd (sess_step repaired s e)) ->
  exists v, ic_assigned (s_cfg s) = Some v /\ usable (ic_assigned (s_cfg s)) = true /\
            (forall o, In o os -> o_type o = 3%N -> o_data o = v) /\
            (forall o, In o os -> length (o_data o) = 4%nat /\
                                  (o_type o = 3%N \/ o_type o = 129%N \/ o_type o = 131%N)).
Proof.
  intros s0 es e id os H0 s Hin. unfold sess_step in Hin. destruct (is_ended s); [contradiction|].
  eapply sess_step_acks_only_assigned; [apply sess_run_ok; exact H0|exact Hin].
Qed.

(* ------------------------------------------------------------------ open sessions have the assigned address *)
Definition tr_ok (st : N) (r : list act * N) : Prop :=
  ((st <= 9)%N -> (snd r <= 9)%N) /\
  (st = 0%N \/ st = 1%N -> snd r = st) /\
  (forall op, (op = true -> st = 9%N) -> v6_open (fst r) op = true -> snd r = 9%N).

Ltac tr_brute :=
  unfold tr_ok; split_matches; cbn [fst snd v6_open fold_left];
  (split; [|split]); intros; try lia; try reflexivity;
  repeat match goal with
  | H : _ \/ _ |- _ => destruct H
  | H : ?a = true -> _ |- _ => first [specialize (H eq_refl) | clear H]
  end; try discriminate; try lia; try congruence.

Lemma tr_rca : forall st i, tr_ok st (rca_event st i).
Proof. intros st i. unfold rca_event. tr_brute. Qed.
Lemma tr_rcn : forall st i, tr_ok st (rcn_event st i).
Proof. intros st i. unfold rcn_event. tr_brute. Qed.
Lemma tr_rtr : forall st i, tr_ok st (rtr_event st i).
Proof. intros st i. unfold rtr_event. tr_brute. Qed.
Lemma tr_down : forall st, tr_ok st (down_event st).
Proof. intros st. unfold down_event. tr_brute. Qed.
Lemma tr_to_plus : forall st, tr_ok st (to_plus st).
Proof. intros st. unfold to_plus. tr_brute. Qed.
Lemma tr_to_minus : forall st, tr_ok st (to_minus st).
Proof. intros st. unfold to_minus. tr_brute. Qed.
Lemma tr_rcr : forall st i r, tr_ok st (rcr_event st i r).
Proof. intros st i r. unfold rcr_event, reply. tr_brute. Qed.
Lemma tr_timeout : forall st, tr_ok st (if N.eqb st 5 then ([], 3%N) else ([], st)).
Proof.
  intros st. unfold tr_ok. destruct (N.eqb_spec st 5); simpl; (split; [|split]); intros; try lia;
    repeat match goal with H : _ \/ _ |- _ => destruct H end; try lia; try congruence; auto;
    try (match goal with H1 : ?o = true -> _, H2 : v6_open [] ?o = true |- _ => specialize (H1 H2) end; lia).
Qed.

Lemma on_act_open : forall fl p acts ad op, snd (fold_left (on_act fl p) acts (ad, op)) = v6_open acts op.
Proof.
  intros fl p acts. unfold v6_open. induction acts as [|a acts IH]; intros ad op; simpl; [reflexivity|].
  destruct a; simpl; apply IH.
Qed.

Definition fsm_ok (s : sess) : Prop :=
  (s_fsm s <= 9)%N /\ (s_open s = true -> s_fsm s = 9%N) /\ (s_addr s = None -> s_fsm s = 0%N \/ s_fsm s = 1%N).

(* the address only ever goes from nil to something (repaired), never back, on subscriber packets *)
Lemma on_act_addr_none : forall p acts ad op,
  fst (fold_left (on_act repaired p) acts (ad, op)) = None -> ad = None.
Proof.
  intros p acts. induction acts as [|a acts IH]; intros ad op H; simpl in H; [exact H|].
  destruct (on_act repaired p (ad, op) a) as [ad1 op1] eqn:E. apply IH in H. subst ad1.
  destruct a; simpl in E; inversion E; subst; auto.
  destruct (pp_addr p); [discriminate|reflexivity].
Qed.

Lemma sess_fsm_only_fsm_ok : forall s c r, fsm_ok s -> tr_ok (s_fsm s) r -> fsm_ok (fst (sess_fsm_only repaired s c r)).
Proof.
  intros s c [a st'] (F1 & F2 & F3) (T1 & T2 & T3). unfold sess_fsm_only, fsm_ok.
  destruct (fold_left (on_act repaired (s_peer s)) a (s_addr s, s_open s)) as [ad op] eqn:F. simpl in *.
  pose proof (on_act_open repaired (s_peer s) a (s_addr s) (s_open s)) as O. rewrite F in O. simpl in O.
  pose proof (on_act_addr_none (s_peer s) a (s_addr s) (s_open s)) as A. rewrite F in A. simpl in A.
  split; [auto|]. split.
  - intros Hop. subst op. eapply T3; eauto.
  - intros Had. specialize (A Had). specialize (F3 A). rewrite (T2 F3). exact F3.
Qed.

Lemma up_open_props : forall st, (st <= 9)%N ->
  (snd (up_open st) <= 9)%N /\ (forall op, (op = true -> st = 9%N) -> op = true -> snd (up_open st) = 9%N).
Proof.
  intros st H. unfold up_open. split_matches; simpl; split; intros; try lia;
    match goal with H1 : ?o = true -> _, H2 : ?o = true |- _ => specialize (H1 H2) end; try lia; try congruence.
Qed.

Lemma sess_down_fsm_ok : forall s, fsm_ok s -> fsm_ok (fst (sess_down repaired s)).
Proof.
  intros s H. unfold sess_down. destruct (s_owner s); try exact H.
  - pose proof (sess_fsm_only_fsm_ok s (s_cfg s) (down_event (s_fsm s)) H (tr_down (s_fsm s))) as X.
    destruct (sess_fsm_only repaired s (s_cfg s) (down_event (s_fsm s))) as [s' a]. simpl in *.
    destruct X as (X1 & X2 & X3). unfold fsm_ok. simpl. auto.
  - apply sess_fsm_only_fsm_ok; auto. apply tr_down.
Qed.

(* after onLCPDown the NCP of a session that is kept (LNS) is in Initial or Starting *)
Lemma sess_down_lns_state : forall s, s_owner s = LNS -> (s_fsm s <= 9)%N ->
  (s_fsm (fst (sess_down repaired s)) = 0%N \/ s_fsm (fst (sess_down repaired s)) = 1%N).
Proof.
  intros s Ho Hle. unfold sess_down. rewrite Ho. unfold sess_fsm_only.
  destruct (down_event (s_fsm s)) as [a st'] eqn:E. destruct (fold_left _ _ _). simpl.
  revert E Hle. unfold down_event. split_matches; intros E Hle; inversion E; subst; auto; lia.
Qed.

Lemma sess_step_fsm_ok : forall s e, sess_ok s -> fsm_ok s -> fsm_ok (fst (sess_step_live repaired s e)).
Proof.
  intros s e Hok Hf.
  destruct e as [rid wire| |w|w|w| |tid| | | | |aaa orc]; cbn [sess_step_live];
    try (apply sess_fsm_only_fsm_ok; [exact Hf|]; first [apply tr_rca|apply tr_rcn|apply tr_rtr|apply tr_timeout|apply tr_to_plus|apply tr_to_minus]).
  - (* EvReq *)
    destruct Hf as (F1 & F2 & F3). unfold ipcp_input, ipcp_req_c.
    destruct (parse_wire wire) as [os| | |]; try (simpl; unfold fsm_ok; simpl; auto).
    destruct (ipcp_req (s_cfg s) (s_peer s) os) as [r p0].
    generalize (if ic_stage (s_cfg s) && negb (is_good0 r) then s_peer s else p0). intros p'.
    pose proof (tr_rcr (s_fsm s) rid r) as (T1 & T2 & T3).
    destruct (rcr_event (s_fsm s) rid r) as [a st'].
    destruct (fold_left (on_act repaired p') a (s_addr s, s_open s)) as [ad op] eqn:F. simpl in *.
    pose proof (on_act_open repaired p' a (s_addr s) (s_open s)) as O. rewrite F in O. simpl in O.
    pose proof (on_act_addr_none p' a (s_addr s) (s_open s)) as A. rewrite F in A. simpl in A.
    unfold fsm_ok. simpl. split; [auto|]. split.
    + intros Hop. subst op. eapply T3; eauto.
    + intros Had. specialize (A Had). specialize (F3 A). rewrite (T2 F3). exact F3.
  - exact Hf.
  - apply sess_down_fsm_ok. exact Hf.
  - (* EvReauth *)
    destruct (s_owner s) eqn:Eo; try (apply sess_down_fsm_ok; exact Hf).
    pose proof (sess_down_fsm_ok s Hf) as Hf1.
    pose proof (sess_down_lns_state s Eo (proj1 Hf)) as Hst1.
    destruct (sess_down repaired s) as [s1 a1] eqn:D. simpl in Hf1, Hst1.
    set (addr := match extract_ip repaired aaa with Some x => Some x | None => s_addr s1 end).
    destruct Hf1 as (F1 & F2 & F3).
    unfold start_ncp. cbn [f_always repaired]. rewrite orb_false_r.
    set (addr1 := match addr with None => or_alloc orc | Some a => Some a end).
    destruct (usable addr1) eqn:Hu.
    + destruct (match addr1 with None => _ | _ => _ end) as [c1 p1].
      destruct (up_open_props (s_fsm s1) F1) as [U1 U2].
      destruct (up_open (s_fsm s1)) as [a st'] eqn:E. simpl in *.
      unfold fsm_ok. simpl. split; [exact U1|]. split; [intros Hop; eapply U2; eauto|].
      intros Hn. rewrite Hn in Hu. discriminate.
    + simpl. unfold fsm_ok. simpl. split; [exact F1|]. split; [exact F2|]. intros _. exact Hst1.
Qed.

Lemma sess_run_fsm_ok : forall es s, sess_ok s -> fsm_ok s -> fsm_ok (sess_run repaired s es).
Proof.
  induction es as [|e es IH]; intros s H1 H2; simpl; auto.
  apply IH; [apply sess_step_okE; exact H1|].
  unfold sess_step. destruct (is_ended s); [exact H2|apply sess_step_fsm_ok; auto].
Qed.

Lemma sess_start_fsm_ok : forall ow aaa d orc f, fsm_ok (sess_start_dns repaired ow aaa d orc f).
Proof.
  intros ow aaa d orc f. unfold sess_start_dns, start_ncp. cbn [f_always repaired]. rewrite orb_false_r.
  destruct (usable _) eqn:Hu.
  - destruct (match ow, _ with LNS, None => _ | _, _ => _ end). simpl. unfold fsm_ok. simpl.
    split; [lia|]. split; [discriminate|]. intros Hn. rewrite Hn in Hu. discriminate.
  - simpl. unfold fsm_ok. simpl. split; [lia|]. split; [discriminate|auto].
Qed.

Lemma sess_restore_fsm_ok : forall addr d1 d2 f, fsm_ok (sess_restore_f repaired addr d1 d2 f).
Proof.
  intros addr d1 d2 f. unfold sess_restore_f. cbn [f_restore f_rguard repaired orb].
  destruct (usable (Some addr)); unfold fsm_ok; simpl; (split; [lia|]); split; auto; discriminate.
Qed.

(* an open IPCP always goes with the assigned address as session address *)
Lemma open_has_assigned : forall s, sess_ok s -> fsm_ok s -> s_open s = true ->
  usable (ic_assigned (s_cfg s)) = true /\ to4o (s_addr s) = ic_assigned (s_cfg s) /\ s_fsm s = 9%N.
Proof.
  intros s Hok (F1 & F2 & F3) Hop. specialize (F2 Hop).
  destruct Hok as [(I1 & _)|Hinv]; [rewrite I1 in F2; discriminate|].
  split; [apply usable_assigned_of_inv; exact Hinv|]. split; [|exact F2].
  destruct Hinv as (v & Hv & _ & _ & Ha & _). rewrite Hv.
  destruct Ha as [Ha|(a & Ha & Hto)]; [|rewrite Ha; exact Hto].
  destruct (F3 Ha) as [X|X]; rewrite X in F2; discriminate.
Qed.

(* ------------------------------------------------------------------ IPv6CP session: identity on the wire *)
(* either negotiating / open with our outstanding request announcing the identifier we compare with, or
   Starting (after an LCP renegotiation, before the next startNCP), where nothing is ever sent *)
Definition v6_inv (s : v6sess) : Prop :=
  (vs_last s = v6_build (vs_obj s) /\ In (vs_fsm s) [6; 7; 8; 9]%N) \/ vs_fsm s = 1%N.

Lemma v6_build_same : forall o o', vo_local o' = vo_local o -> vo_rej o' = vo_rej o -> v6_build o' = v6_build o.
Proof. intros o o' H1 H2. unfold v6_build. rewrite H1, H2. reflexivity. Qed.

Lemma v6_learn_build : forall o, vo_local (fold_left v6_learn_opt (v6_build o) o) = vo_local o /\
                                 vo_rej (fold_left v6_learn_opt (v6_build o) o) = vo_rej o.
Proof.
  intros o. unfold v6_build. destruct (negb (existsb (N.eqb 1) (vo_rej o))); simpl; auto.
  unfold v6_learn_opt, iid_option. simpl. destruct (Nat.eqb (length (vo_local o)) 8); simpl; auto.
Qed.

Lemma v6_start_inv : forall r m, v6_inv (fst (v6sess_step (v6sess0 r) (V6Start m))).
Proof. intros r m. left. simpl. split; auto. Qed.

Lemma v6sess_step_inv : forall s e, v6_inv s -> v6_inv (fst (v6sess_step s e)).
Proof.
  intros s e [[HL HS]|H1].
  - (* negotiating / open *)
    assert (Hreq : forall id wire orc,
      let '(a, st', p') := ipv6cp_input (vo_local (vs_obj s)) (vs_fsm s) (vo_peer (vs_obj s)) orc id wire in
      v6_next (mkv6obj (vo_local (vs_obj s)) (vo_rej (vs_obj s)) p') a (vs_last s) =
        v6_build (mkv6obj (vo_local (vs_obj s)) (vo_rej (vs_obj s)) p') /\ In st' [6; 7; 8; 9]%N).
    { intros id wire orc. unfold ipv6cp_input.
      destruct (parse_wire wire) as [os| | |];
        try (split; [unfold v6_next; simpl; rewrite HL; apply v6_build_same; reflexivity|exact HS]).
      set (r := v6_res (ipv6cp_req (vo_local (vs_obj s)) (vo_peer (vs_obj s)) orc os)).
      simpl in HS. unfold v6_next.
      destruct HS as [H|[H|[H|[H|[]]]]]; rewrite <- H; unfold rcr_event, reply;
        (destruct (is_good r); [|destruct (has_rej r)]); simpl;
        try rewrite HL; (split; [try apply v6_build_same; reflexivity|auto 6]). }
    destruct e as [m| |id wire orc|id orc|  |w|w| ]; cbn [v6sess_step].
    + left. simpl in HS. destruct HS as [H|[H|[H|[H|[]]]]]; rewrite <- H; simpl; auto.
    + right. simpl in HS. destruct HS as [H|[H|[H|[H|[]]]]]; rewrite <- H; reflexivity.
    + left. specialize (Hreq id wire orc). destruct (ipv6cp_input _ _ _ _ _ _) as [[a st'] p']. simpl. exact Hreq.
    + left. specialize (Hreq id (serialize_options (vs_last s)) orc).
      destruct (ipv6cp_input _ _ _ _ _ _) as [[a st'] p']. simpl. exact Hreq.
    + left. simpl. rewrite HL. destruct (v6_learn_build (vs_obj s)) as [E1 E2].
      assert (B : v6_build (fold_left v6_learn_opt (v6_build (vs_obj s)) (vs_obj s)) = v6_build (vs_obj s))
        by (apply v6_build_same; auto).
      simpl in HS. unfold v6_next.
      destruct HS as [H|[H|[H|[H|[]]]]]; rewrite <- H; simpl; rewrite ?B; auto 6.
    + left. simpl. simpl in HS. unfold v6_next.
      destruct HS as [H|[H|[H|[H|[]]]]]; rewrite <- H; simpl; auto 6.
    + left. simpl. simpl in HS. unfold v6_next.
      destruct HS as [H|[H|[H|[H|[]]]]]; rewrite <- H; simpl; auto 6.
    + (* retransmission: rebuilt from the same object *)
      left. simpl. simpl in HS. unfold v6_next.
      destruct HS as [H|[H|[H|[H|[]]]]]; rewrite <- H; simpl; auto 6.
  - (* Starting *)
    destruct e as [m| |id wire orc|id orc|  |w|w| ]; cbn [v6sess_step]; rewrite ?H1.
    + left. simpl. auto.
    + right. reflexivity.
    + right. unfold ipv6cp_input. rewrite ?H1. destruct (parse_wire wire); reflexivity.
    + right. unfold ipv6cp_input. rewrite ?H1. destruct (parse_wire _); reflexivity.
    + right. reflexivity.
    + right. reflexivity.
    + right. reflexivity.
    + right. reflexivity.
Qed.

Lemma v6sess_run_inv : forall es s, v6_inv s -> v6_inv (v6sess_run s es).
Proof.
  induction es as [|e es IH]; intros s Hi; simpl in *; auto. apply IH. apply v6sess_step_inv; auto.
Qed.

(* after startNCP, whatever the subscriber sends and however often LCP is renegotiated and the session
   re-authenticated: an identifier our outstanding Configure-Request announces is never acknowledged *)
Lemma v6_wire_identity : forall r m es s,
  s = v6sess_run (fst (v6sess_step (v6sess0 r) (V6Start m))) es ->
  forall e acts id' os, snd (v6sess_step s e) = acts -> In (Sca id' os) acts ->
    vs_last s = v6_build (vs_obj s) /\
    forall o x, In o os -> In x (vs_last s) -> o_data o <> o_data x.
Proof.
  intros r m es s ->. set (s := v6sess_run _ es).
  pose proof (v6sess_run_inv es _ (v6_start_inv r m)) as Hinv. fold s in Hinv.
  intros e acts id' os Hacts Hs.
  assert (Hnosca : forall st i, no_sca (fst (rca_event st i)) /\ no_sca (fst (rcn_event st i))).
  { intros st i. split; [apply no_sca_rca|apply no_sca_rcn]. }
  assert (Hreq : forall id wire orc a st' p',
            ipv6cp_input (vo_local (vs_obj s)) (vs_fsm s) (vo_peer (vs_obj s)) orc id wire = (a, st', p') ->
            In (Sca id' os) a -> forall o, In o os -> o_data o <> vo_local (vs_obj s)).
  { intros id wire orc a st' p' Hin Ha o Ho.
    destruct (ipv6cp_wire_ack _ _ _ _ _ _ _ _ _ _ _ Hin Ha) as (_ & _ & A).
    destruct (A o Ho) as (_ & _ & _ & _ & N). exact N. }
  destruct Hinv as [[HL HS]|H1].
  - split; [exact HL|]. intros o x Ho Hx.
    assert (Hx' : o_data x = vo_local (vs_obj s)).
    { rewrite HL in Hx. unfold v6_build in Hx. destruct (negb _); [|contradiction].
      destruct Hx as [<-|[]]. reflexivity. }
    rewrite Hx'.
    destruct e as [m'| |id wire orc|id orc| |w|w| ]; cbn [v6sess_step] in Hacts.
    + exfalso. destruct (down_event (vs_fsm s)) as [a1 st1] eqn:E1. destruct (up_open st1) as [a2 st2] eqn:E2.
      simpl in Hacts. subst acts. apply in_app_or in Hs. destruct Hs as [Hs|Hs].
      * pose proof (no_sca_down (vs_fsm s)) as X. rewrite E1 in X. eapply X; exact Hs.
      * pose proof (no_sca_up_open st1) as X. rewrite E2 in X. eapply X; exact Hs.
    + exfalso. simpl in Hacts. subst acts. eapply no_sca_down; exact Hs.
    + destruct (ipv6cp_input (vo_local (vs_obj s)) (vs_fsm s) (vo_peer (vs_obj s)) orc id wire) as [[a st'] p'] eqn:E.
      simpl in Hacts. subst acts. eapply Hreq; eauto.
    + destruct (ipv6cp_input (vo_local (vs_obj s)) (vs_fsm s) (vo_peer (vs_obj s)) orc id
                  (serialize_options (vs_last s))) as [[a st'] p'] eqn:E.
      simpl in Hacts. subst acts. eapply Hreq; eauto.
    + simpl in Hacts. subst acts. exfalso. eapply (proj1 (Hnosca _ _)); eauto.
    + simpl in Hacts. subst acts. exfalso. eapply (proj2 (Hnosca _ _)); eauto.
    + simpl in Hacts. subst acts. exfalso. eapply (proj2 (Hnosca _ _)); eauto.
    + simpl in Hacts. subst acts. exfalso. eapply no_sca_to_plus; exact Hs.
  - (* Starting: nothing is acknowledged at all *)
    exfalso. destruct e as [m'| |id wire orc|id orc| |w|w| ]; cbn [v6sess_step] in Hacts; rewrite ?H1 in Hacts;
      simpl in Hacts; subst acts; simpl in Hs; try contradiction;
      try (destruct Hs as [Hs|[]]; discriminate Hs);
      try (unfold ipv6cp_input in Hs; rewrite ?H1 in Hs; destruct (parse_wire _); simpl in Hs; contradiction).
Qed.


(* ------------------------------------------------------------------ choices the property leaves free *)
(* (1) IPCP with a usable assignment never consults the implementation's "refuse" choice *)
Lemma ipcp_refuse_irrelevant : forall c f p os,
  usable (ic_assigned c) = true -> ipcp_req (with_refuse c f) p os = ipcp_req c p os.
Proof.
  intros c f p os Hu. unfold ipcp_req. generalize (res0, p). induction os as [|o os IH]; intros st; simpl; [reflexivity|].
  assert (E : ipcp_opt (with_refuse c f) st o = ipcp_opt c st o).
  { unfold ipcp_opt, with_refuse. destruct st as [r q]. cbn [ic_assigned ic_dns1 ic_dns2 ic_refuse]. rewrite Hu.
    cbn [negb andb]. reflexivity. }
  rewrite E. apply IH.
Qed.

(* (2) the values carried in Configure-Naks: any implementation whose result differs from the model's only in
   the DATA of the Nak'd options (same positions, same option types) answers with the same kind of packet,
   acknowledges and rejects exactly the same options *)
Definition nak_sim (a b : list opt) : Prop := Forall2 (fun x y => o_type x = o_type y) a b.
Definition res_sim (r r' : res) : Prop :=
  r_ack r' = r_ack r /\ r_rej r' = r_rej r /\ nak_sim (r_nak r) (r_nak r').

Lemma res_sim_reply : forall id r r', res_sim r r' ->
  is_good r' = is_good r /\
  ((exists os, reply id r = Sca id os /\ reply id r' = Sca id os) \/
   (exists os, reply id r = Scj id os /\ reply id r' = Scj id os) \/
   (exists nk nk', reply id r = Scn id nk /\ reply id r' = Scn id nk' /\ nak_sim nk nk')).
Proof.
  intros id r r' (A & R & N). unfold reply, is_good, has_rej. rewrite R.
  destruct N as [|x y nk nk' Hxy N]; destruct (r_rej r) eqn:E; simpl.
  - split; [reflexivity|]. left. rewrite A. eauto.
  - split; [reflexivity|]. right; left. eauto.
  - split; [reflexivity|]. right; right. exists (x :: nk), (y :: nk'). repeat split; auto. constructor; auto.
  - split; [reflexivity|]. right; left. eauto.
Qed.

Lemma res_sim_refl : forall r, res_sim r r.
Proof.
  intros r. repeat split; auto. unfold nak_sim. induction (r_nak r); constructor; auto.
Qed.

Lemma nak_sim_type : forall a b t, nak_sim a b -> (exists x, In x a /\ o_type x = t) -> exists y, In y b /\ o_type y = t.
Proof.
  intros a b t H. induction H as [|x y a b Hxy H IH]; intros (z & Hz & Ht); [contradiction|].
  destruct Hz as [->|Hz]; [exists y; split; [left; auto|congruence]|].
  destruct (IH (ex_intro _ z (conj Hz Ht))) as (w & Hw & Hwt). exists w. split; [right; auto|auto].
Qed.

Lemma lcp_nak_choice_free : forall fl magic p opts r',
  res_sim (fst (lcp_req fl magic p opts)) r' -> magic <> 0%N ->
  (forall o, In o (r_ack r') -> o_type o = 5%N -> length (o_data o) = 4%nat /\ num32 (o_data o) <> magic) /\
  (forall o, In o opts -> o_type o = 5%N -> length (o_data o) = 4%nat -> num32 (o_data o) = magic ->
     (exists n, In n (r_nak r') /\ o_type n = 5%N) /\ ~ In o (r_ack r') /\ is_good r' = false).
Proof.
  intros fl magic p opts r' S Hm.
  destruct (lcp_req fl magic p opts) as [r p1] eqn:R. simpl in S.
  destruct (lcp_no_own_magic fl magic p opts r p1 R Hm) as (A & B).
  pose proof (res_sim_reply 0 r r' S) as [G _]. destruct S as (SA & SR & SN).
  split.
  - intros o Ho. rewrite SA in Ho. apply A; auto.
  - intros o Ho Ht Hl He. destruct (B o Ho Ht Hl He) as (B1 & B2 & B3).
    split; [|split; [rewrite SA; exact B2|rewrite G; exact B3]].
    apply (nak_sim_type (r_nak r) (r_nak r') 5%N SN). exists o. auto.
Qed.

Lemma lcp_nak_choice_free_auth : forall magic p opts r',
  res_sim (fst (lcp_req repaired magic p opts)) r' ->
  forall o, In o (r_ack r') -> o_type o = 3%N ->
     num16 (o_data o) = proto_pap \/
     (num16 (o_data o) = proto_chap /\ exists a b, o_data o = [a; b; chap_md5]).
Proof.
  intros magic p opts r' (SA & _ & _) o Ho Ht.
  destruct (lcp_req repaired magic p opts) as [r p1] eqn:R. simpl in SA. rewrite SA in Ho.
  exact (proj1 (lcp_auth_supported_only magic p opts r p1 R) o Ho Ht).
Qed.

(* ------------------------------------------------------------------ LCP session: the magic number on the wire *)
Ltac Zify.zify_post_hook ::= Z.div_mod_to_equations.

Lemma num32_put32 : forall m, (m < 4294967296)%N -> num32 (put32b m) = m.
Proof.
  intros m H. unfold num32, put32b, put32, be32, byte_of. lia.
Qed.

Lemma put32b_length : forall m, length (put32b m) = 4%nat.
Proof. reflexivity. Qed.

Lemma num32_bound : forall d, length d = 4%nat -> bytes_ok d -> (num32 d < 4294967296)%N.
Proof.
  intros d Hl Hb. destruct d as [|a [|b [|c [|e [|? ?]]]]]; try discriminate.
  assert (a < 256 /\ b < 256 /\ c < 256 /\ e < 256)%N as (A & B & C & E)
    by (repeat split; apply Hb; simpl; auto).
  unfold num32, be32. lia.
Qed.

Lemma in_firstn : forall {A} k (l : list A) x, In x (firstn k l) -> In x l.
Proof. induction k; intros l x; simpl; [contradiction|]. destruct l; simpl; [contradiction|]. intros [H|H]; auto. Qed.

Lemma parse_options_bytes : forall fuel d os, bytes_ok d -> parse_options fuel d = Ok os ->
  forall o, In o os -> bytes_ok (o_data o).
Proof.
  induction fuel as [|f IH]; intros d os Hb.
  - destruct d as [|t [|l rest]]; simpl; intros H; inversion H; subst; intros o [].
  - destruct d as [|t [|l rest]]; simpl; try (intros H; inversion H; subst; intros o []).
    destruct ((N.to_nat l <? 2)%nat || (S (S (length rest)) <? N.to_nat l)%nat) eqn:E; [discriminate|].
    destruct (parse_options f (skipn (N.to_nat l) (t :: l :: rest))) as [os'| | |] eqn:P; simpl; try discriminate.
    intros H; inversion H; subst. intros o [<-|Ho].
    + simpl. intros x Hx. apply Hb. right. right. eapply in_firstn; eauto.
    + eapply IH; [|exact P|exact Ho]. intros b Hin. apply Hb. eapply in_skipn; eauto.
Qed.

Lemma parse_lenient_bytes : forall w, bytes_ok w -> forall o, In o (parse_lenient w) -> bytes_ok (o_data o).
Proof.
  intros w Hb o Ho. unfold parse_lenient, parse_wire in Ho.
  destruct (parse_options (length w) w) as [os| | |] eqn:P; try contradiction.
  eapply parse_options_bytes; eauto.
Qed.

Definition l_inv (s : lsess) : Prop :=
  (lo_magic (ls_obj s) < 4294967296)%N /\
  (forall x, In x (ls_last s) -> o_type x = 5%N ->
     o_data x = put32b (lo_magic (ls_obj s)) /\ lo_magic (ls_obj s) <> 0%N) /\
  In (ls_fsm s) [6; 7; 8; 9]%N.

Lemma lcp_build_magic : forall o x, In x (lcp_build o) -> o_type x = 5%N ->
  o_data x = put32b (lo_magic o) /\ lo_magic o <> 0%N.
Proof.
  intros o x Hx Ht. unfold lcp_build in Hx. repeat (apply in_app_or in Hx; destruct Hx as [Hx|Hx]).
  - destruct (negb _); [|contradiction]. destruct Hx as [<-|[]]. discriminate.
  - destruct (negb (existsb _ _)); simpl in Hx; [|contradiction].
    destruct (N.eqb_spec (lo_magic o) 0); simpl in Hx; [contradiction|]. destruct Hx as [<-|[]]. auto.
  - destruct (negb _ && lo_want o); [|contradiction]. destruct Hx as [<-|[]].
    unfold auth_option in Ht. destruct (N.eqb _ _); discriminate.
Qed.

Lemma lcp_build_with_lpeer : forall o p, lcp_build (with_lpeer o p) = lcp_build o.
Proof. reflexivity. Qed.

Lemma lcp_learn_ack_magic : forall l o m,
  lo_magic o = m -> (forall x, In x l -> o_type x = 5%N -> o_data x = put32b m) -> (m < 4294967296)%N ->
  lo_magic (fold_left (lcp_learn_opt false) l o) = m /\ lo_rej (fold_left (lcp_learn_opt false) l o) = lo_rej o /\
  lo_want (fold_left (lcp_learn_opt false) l o) = lo_want o.
Proof.
  induction l as [|x l IH]; intros o m Hm Hl Hb; simpl; [auto|].
  assert (E : lo_magic (lcp_learn_opt false o x) = m /\ lo_rej (lcp_learn_opt false o x) = lo_rej o /\
              lo_want (lcp_learn_opt false o x) = lo_want o).
  { unfold lcp_learn_opt. cbn [andb].
    destruct (N.eqb (o_type x) 1 && Nat.eqb (length (o_data x)) 2); [simpl; auto|].
    destruct (N.eqb_spec (o_type x) 5); cbn [andb]; [|simpl; auto].
    destruct (Nat.eqb (length (o_data x)) 4); [|simpl; auto]. simpl.
    rewrite (Hl x (or_introl eq_refl) e). rewrite num32_put32; auto. }
  destruct E as (E1 & E2 & E3).
  destruct (IH (lcp_learn_opt false o x) m E1 (fun y Hy => Hl y (or_intror Hy)) Hb) as (A & B & C).
  rewrite A, B, C. auto.
Qed.

Lemma lcp_learn_bound : forall nak l o,
  (lo_magic o < 4294967296)%N -> (forall x, In x l -> bytes_ok (o_data x)) ->
  (lo_magic (fold_left (lcp_learn_opt nak) l o) < 4294967296)%N.
Proof.
  intros nak l. induction l as [|x l IH]; intros o Hb Hl; simpl; [exact Hb|].
  apply IH; [|intros y Hy; apply Hl; right; exact Hy].
  unfold lcp_learn_opt.
  destruct (N.eqb (o_type x) 1 && Nat.eqb (length (o_data x)) 2); [exact Hb|].
  destruct (N.eqb (o_type x) 5 && Nat.eqb (length (o_data x)) 4) eqn:E.
  - simpl. apply andb_true_iff in E. destruct E as [_ E]. apply Nat.eqb_eq in E.
    apply num32_bound; auto. apply Hl. left. reflexivity.
  - destruct (nak && N.eqb (o_type x) 3 && (2 <=? length (o_data x))%nat); exact Hb.
Qed.

Lemma l_start_inv : forall r, (r < 4294967296)%N -> l_inv (fst (lsess_step repaired (lsess0 r) SLStart)).
Proof.
  intros r Hr. unfold l_inv. simpl. split; [exact Hr|]. split; [|auto].
  intros x Hx Ht. apply (lcp_build_magic (mklobj default_pppoe_mru r proto_chap chap_md5 true [] lpeer0) x Hx Ht).
Qed.

Lemma l_restored_inv : forall r saved, (r < 4294967296)%N -> (saved < 4294967296)%N ->
  l_inv (lsess_restored r saved).
Proof.
  intros r saved Hr Hs. unfold l_inv, lsess_restored. simpl.
  split; [destruct (N.eqb saved 0); assumption|]. split; [intros x []|auto 6].
Qed.

Lemma lsess_step_inv : forall s e, lev_ok e -> l_inv s -> l_inv (fst (lsess_step repaired s e)).
Proof.
  intros s e Hev (HB & HL & HS).
  assert (Hreq : forall id wire,
    let '(a, st', p') := lcp_input repaired (lo_magic (ls_obj s)) (ls_fsm s) (lo_peer (ls_obj s)) id wire in
    l_inv (mkls (with_lpeer (ls_obj s) p') st' (l_next (with_lpeer (ls_obj s) p') a (ls_last s))
                (v6_open a (ls_open s)))).
  { intros id wire. unfold lcp_input.
    destruct (parse_wire wire) as [os| | |];
      try (unfold l_inv; simpl; split; [exact HB|split; [exact HL|exact HS]]).
    destruct (lcp_req repaired (lo_magic (ls_obj s)) (lo_peer (ls_obj s)) os) as [r p'].
    unfold l_inv, l_next. simpl in HS.
    destruct HS as [H|[H|[H|[H|[]]]]]; rewrite <- H; unfold rcr_event, reply;
      (destruct (is_good r); [|destruct (has_rej r)]); simpl;
      (split; [exact HB|split; [try exact HL; intros x Hx Ht; apply (lcp_build_magic _ x Hx Ht)|auto 6]]). }
  destruct e as [|id wire|id| |w|w| ]; cbn [lsess_step].
  - (* SLStart on a started LCP: nothing *)
    unfold l_inv, l_next. simpl in HS.
    destruct HS as [H|[H|[H|[H|[]]]]]; rewrite <- H; simpl; (split; [exact HB|split; [exact HL|auto 6]]).
  - specialize (Hreq id wire). destruct (lcp_input _ _ _ _ _ _) as [[a st'] p']. simpl. exact Hreq.
  - specialize (Hreq id (serialize_options (filter (fun x => N.eqb (o_type x) 5) (ls_last s)))).
    destruct (lcp_input _ _ _ _ _ _) as [[a st'] p']. simpl. exact Hreq.
  - (* verbatim Ack *)
    destruct (lcp_learn_ack_magic (ls_last s) (ls_obj s) (lo_magic (ls_obj s)) eq_refl
                (fun x Hx Ht => proj1 (HL x Hx Ht)) HB) as (A & B & C).
    unfold l_inv, l_next. simpl. simpl in HS.
    destruct HS as [H|[H|[H|[H|[]]]]]; rewrite <- H; simpl; rewrite ?A;
      (split; [exact HB|split; [|auto 6]]);
      try (intros x Hx Ht; rewrite <- A; apply (lcp_build_magic _ x Hx Ht));
      try exact HL.
  - (* Nak: whatever is learned is re-announced at once *)
    assert (HB' : (lo_magic (fold_left (lcp_learn_opt true) (parse_lenient w) (ls_obj s)) < 4294967296)%N).
    { apply lcp_learn_bound; auto. intros x Hx. eapply parse_lenient_bytes; eauto. }
    unfold l_inv, l_next. simpl. simpl in HS.
    destruct HS as [H|[H|[H|[H|[]]]]]; rewrite <- H; simpl;
      (split; [exact HB'|split; [intros x Hx Ht; apply (lcp_build_magic _ x Hx Ht)|auto 6]]).
  - unfold l_inv, l_next. simpl. simpl in HS.
    destruct HS as [H|[H|[H|[H|[]]]]]; rewrite <- H; simpl;
      (split; [exact HB|split; [intros x Hx Ht; apply (lcp_build_magic _ x Hx Ht)|auto 6]]).
  - (* retransmission *)
    unfold l_inv, l_next. simpl. simpl in HS.
    destruct HS as [H|[H|[H|[H|[]]]]]; rewrite <- H; simpl;
      (split; [exact HB|split; [try exact HL; intros x Hx Ht; apply (lcp_build_magic _ x Hx Ht)|auto 6]]).
Qed.

Lemma lsess_run_inv : forall es s, (forall e, In e es -> lev_ok e) -> l_inv s -> l_inv (lsess_run repaired s es).
Proof.
  induction es as [|e es IH]; intros s Hok Hi; simpl; auto.
  apply IH; [intros x Hx; apply Hok; right; exact Hx|]. apply lsess_step_inv; auto. apply Hok. left. reflexivity.
Qed.

(* the end-to-end statement: no Configure-Ack ever carries the magic number our last Configure-Request announces *)
Lemma l_wire_identity_step : forall s e acts id' os, l_inv s ->
  snd (lsess_step repaired s e) = acts -> In (Sca id' os) acts ->
  forall o x, In o os -> o_type o = 5%N -> In x (ls_last s) -> o_type x = 5%N -> o_data o <> o_data x.
Proof.
  intros s e acts id' os (HB & HL & HS) Hacts Hs o x Ho Hto Hx Htx.
  destruct (HL x Hx Htx) as [Hd Hnz]. rewrite Hd. intros Heq.
  assert (Hreq : forall id wire a st' p',
            lcp_input repaired (lo_magic (ls_obj s)) (ls_fsm s) (lo_peer (ls_obj s)) id wire = (a, st', p') ->
            In (Sca id' os) a -> False).
  { intros id wire a st' p' Hin Ha.
    destruct (lcp_wire_ack _ _ _ _ _ _ _ _ _ _ Hin Ha) as (_ & _ & _ & M & _).
    apply (M Hnz o Ho Hto). rewrite Heq. apply num32_put32. exact HB. }
  destruct e as [|id wire|id| |w|w| ]; cbn [lsess_step] in Hacts.
  - simpl in Hacts. subst acts. eapply no_sca_up_open; exact Hs.
  - destruct (lcp_input repaired (lo_magic (ls_obj s)) (ls_fsm s) (lo_peer (ls_obj s)) id wire) as [[a st'] p'] eqn:E.
    simpl in Hacts. subst acts. eapply Hreq; eauto.
  - destruct (lcp_input repaired (lo_magic (ls_obj s)) (ls_fsm s) (lo_peer (ls_obj s)) id _) as [[a st'] p'] eqn:E.
    simpl in Hacts. subst acts. eapply Hreq; eauto.
  - simpl in Hacts. subst acts. eapply no_sca_rca; exact Hs.
  - simpl in Hacts. subst acts. eapply no_sca_rcn; exact Hs.
  - simpl in Hacts. subst acts. eapply no_sca_rcn; exact Hs.
  - simpl in Hacts. subst acts. eapply no_sca_to_plus; exact Hs.
Qed.

Lemma l_wire_identity : forall s0 es e acts id' os,
  (exists r, (r < 4294967296)%N /\ s0 = fst (lsess_step repaired (lsess0 r) SLStart)) \/
  (exists r saved, (r < 4294967296)%N /\ (saved < 4294967296)%N /\ s0 = lsess_restored r saved) ->
  (forall x, In x es -> lev_ok x) ->
  let s := lsess_run repaired s0 es in
  snd (lsess_step repaired s e) = acts -> In (Sca id' os) acts ->
  forall o x, In o os -> o_type o = 5%N -> In x (ls_last s) -> o_type x = 5%N -> o_data o <> o_data x.
Proof.
  intros s0 es e acts id' os H0 Hok s. apply l_wire_identity_step. apply lsess_run_inv; auto.
  destruct H0 as [(r & Hr & ->)|(r & sv & Hr & Hs & ->)]; [apply l_start_inv|apply l_restored_inv]; auto.
Qed.

(* a restored session compares with the checkpointed magic number: looping it back is never acknowledged *)
Lemma l_restored_loopback : forall r saved id wire os acts o,
  saved <> 0%N ->
  snd (lsess_step repaired (lsess_restored r saved) (SLReq id wire)) = acts -> parse_wire wire = Ok os ->
  In o os -> o_type o = 5%N -> length (o_data o) = 4%nat -> num32 (o_data o) = saved ->
  forall id' os', ~ In (Sca id' os') acts.
Proof.
  intros r saved id wire os acts o Hnz Hacts Hp Ho Ht Hl He id' os' Hs.
  cbn [lsess_step] in Hacts. unfold lsess_restored in Hacts. cbn [ls_obj ls_fsm lo_magic lo_peer] in Hacts.
  assert (Em : (if N.eqb saved 0 then r else saved) = saved) by (destruct (N.eqb_spec saved 0); [contradiction|reflexivity]).
  rewrite Em in Hacts.
  destruct (lcp_input repaired saved 9 lpeer0 id wire) as [[a st'] p'] eqn:E. simpl in Hacts. subst acts.
  destruct (lcp_wire_loopback repaired saved 9 lpeer0 id wire a st' p' os o Hnz E Hp eq_refl Ho Ht Hl He) as (N1 & _).
  eapply N1; exact Hs.
Qed.

(* (3) when the proposed values are recorded: either choice gives the same verdict and, with a usable
   assignment, a remembered peer address that is nil or the assignment *)
Lemma ipcp_req_c_verdict : forall c p os, fst (ipcp_req_c c p os) = fst (ipcp_req c p os).
Proof. intros c p os. unfold ipcp_req_c. destruct (ipcp_req c p os). reflexivity. Qed.

Lemma ipcp_req_c_peer : forall c p os,
  snd (ipcp_req_c c p os) = p \/ snd (ipcp_req_c c p os) = snd (ipcp_req c p os).
Proof.
  intros c p os. unfold ipcp_req_c. destruct (ipcp_req c p os) as [r p']. simpl.
  destruct (ic_stage c && negb (is_good0 r)); auto.
Qed.

Lemma ipcp_req_c_good : forall c p os, is_good (fst (ipcp_req c p os)) = true ->
  ipcp_req_c c p os = ipcp_req c p os.
Proof.
  intros c p os G. unfold ipcp_req_c. destruct (ipcp_req c p os) as [r p']. simpl in *.
  unfold is_good in G. unfold is_good0. rewrite G. rewrite andb_false_r. reflexivity.
Qed.

(* ------------------------------------------------------------------ retransmissions announce the same identity *)
Lemma v6_retransmit_same : forall s, vs_last s = v6_build (vs_obj s) ->
  vs_obj (fst (v6sess_step s V6Timeout)) = vs_obj s /\
  vs_last (fst (v6sess_step s V6Timeout)) = vs_last s.
Proof.
  intros s HL. cbn [v6sess_step]. simpl. split; [reflexivity|]. unfold v6_next.
  destruct (existsb _ _); [symmetry; exact HL|reflexivity].
Qed.

Lemma lcp_retransmit_same_magic : forall s, l_inv s ->
  ls_obj (fst (lsess_step repaired s SLTimeout)) = ls_obj s /\
  forall x, In x (ls_last (fst (lsess_step repaired s SLTimeout))) -> o_type x = 5%N ->
    o_data x = put32b (lo_magic (ls_obj s)).
Proof.
  intros s Hi. pose proof (lsess_step_inv s SLTimeout I Hi) as (_ & HL & _).
  cbn [lsess_step] in *. simpl in *. split; [reflexivity|]. intros x Hx Ht. apply (proj1 (HL x Hx Ht)).
Qed.

(* ------------------------------------------------------------------ authentication gates the NCPs *)
Definition a_ok (st : aphase) : Prop := match st with AStarted s => sess_ok s | _ => True end.
Definition is_aok (e : aev) : bool := match e with AOk _ _ _ _ => true | _ => false end.
Definition a_started (st : aphase) : bool := match st with AStarted _ => true | _ => false end.

Lemma astep_ok : forall st e, a_ok st -> a_ok (fst (fst (astep repaired st e))).
Proof.
  intros st e H. destruct st as [|n| |s]; destruct e as [v6 id wire| |aaa d orc ch| |ev]; simpl; auto;
    try (destruct n; simpl; auto; fail).
  - apply sess_start_ok.
  - destruct v6; simpl; auto.
    pose proof (sess_step_okE s (EvReq id wire) H) as X. destruct (sess_step repaired s (EvReq id wire)). exact X.
  - pose proof (sess_step_okE s ev H) as X. destruct (sess_step repaired s ev). exact X.
Qed.

Lemma arun_ok : forall es st, a_ok st -> a_ok (arun repaired st es).
Proof. induction es as [|e es IH]; intros st H; simpl; auto. apply IH. apply astep_ok. exact H. Qed.

(* nothing is ever sent for IPCP before the session is started, and a session is started only by AOk *)
Lemma astep_not_started : forall fl st e, a_started st = false ->
  snd (fst (astep fl st e)) = [] \/ is_aok e = true.
Proof.
  intros fl st e H. destruct st as [|n| |s]; try discriminate;
    destruct e as [v6 id wire| |aaa d orc ch| |ev]; simpl; auto; destruct n; simpl; auto.
Qed.

Lemma astep_stays_unstarted : forall fl st e, a_started st = false -> is_aok e = false ->
  a_started (fst (fst (astep fl st e))) = false.
Proof.
  intros fl st e H He. destruct st as [|n| |s]; try discriminate;
    destruct e as [v6 id wire| |aaa d orc ch| |ev]; try discriminate; simpl; auto; destruct n; simpl; auto.
Qed.

Lemma arun_unstarted : forall fl es st, a_started st = false -> forallb (fun e => negb (is_aok e)) es = true ->
  a_started (arun fl st es) = false.
Proof.
  intros fl es. induction es as [|e es IH]; intros st H Hes; simpl in *; auto.
  apply andb_true_iff in Hes. destruct Hes as [H1 H2]. apply IH; auto.
  apply astep_stays_unstarted; auto. destruct (is_aok e); [discriminate|reflexivity].
Qed.

Lemma no_ncp_ack_before_auth : forall es e id os,
  let st := arun repaired APre es in
  In (Sca id os) (snd (fst (astep repaired st e))) ->
  existsb is_aok es = true /\
  exists s, st = AStarted s /\
    exists v, ic_assigned (s_cfg s) = Some v /\ usable (ic_assigned (s_cfg s)) = true /\
              (forall o, In o os -> o_type o = 3%N -> o_data o = v).
Proof.
  intros es e id os st Hin.
  assert (Hst : a_started st = true).
  { destruct (a_started st) eqn:E; [reflexivity|].
    destruct (astep_not_started repaired st e E) as [H|H].
    - rewrite H in Hin. contradiction.
    - destruct e; try discriminate. destruct st; try discriminate; simpl in Hin;
        try (destruct (N.eqb _ 0); simpl in Hin; intuition discriminate); try contradiction;
        destruct left; simpl in Hin; contradiction. }
  split.
  - destruct (existsb is_aok es) eqn:E; [reflexivity|]. exfalso.
    assert (F : forallb (fun e => negb (is_aok e)) es = true).
    { clear -E. induction es as [|x es IH]; simpl in *; auto. apply orb_false_iff in E. destruct E as [E1 E2].
      rewrite E1. simpl. auto. }
    pose proof (arun_unstarted repaired es APre eq_refl F) as X. fold st in X. congruence.
  - pose proof (arun_ok es APre I) as Hok. fold st in Hok.
    destruct st as [|n| |s]; try discriminate. exists s. split; [reflexivity|]. simpl in Hok.
    assert (Hin' : exists ev, In (Sca id os) (snd (sess_step repaired s ev))).
    { destruct e as [v6 id' wire| |aaa d orc ch| |ev]; simpl in Hin; try contradiction.
      - destruct v6; simpl in Hin; [contradiction|]. exists (EvReq id' wire).
        destruct (sess_step repaired s (EvReq id' wire)). exact Hin.
      - exists ev. destruct (sess_step repaired s ev). exact Hin. }
    destruct Hin' as (ev & Hev). unfold sess_step in Hev. destruct (is_ended s); [contradiction|].
    destruct (sess_step_acks_only_assigned s ev id os Hok Hev) as (v & A & B & C & _). exists v. auto.
Qed.
