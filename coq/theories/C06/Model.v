(* C06/Model.v — executable model of the PPP option policy
     pkg/ppp/ipcp.go     ProcessConfReq (+ SetPeerAddress, SetDNS, IPAddressOption, DNSOption, isUsableIPv4)
     pkg/ppp/lcp.go      ProcessConfReq
     pkg/ppp/ipv6cp.go   ProcessConfReq
     pkg/ppp/fsm.go      ParseOptions, SerializeOptions, rcrEvent (choice of reply), rcaEvent (states 6..9)
     internal/pppoe/session.go   extractIPFromAttributes (IPv4 part), startNCP (IPv4 part, no registry),
                                 onIPCPUp, onIPCPDown
   Definitions only; proofs are in Proofs.v.

   Bytes are N (the harness only feeds values < 256; the theorems hold for every N).
   net.IP values are byte lists (nil = None where Go distinguishes nil). *)
From OV Require Import Common.Base.

Definition bytes := list N.
Record opt := mkopt { o_type : N; o_data : bytes }.

Fixpoint bytes_eqb (a b : bytes) : bool :=
  match a, b with
  | [], [] => true
  | x :: a', y :: b' => N.eqb x y && bytes_eqb a' b'
  | _, _ => false
  end.
Definition all_zero (b : bytes) : bool := forallb (N.eqb 0) b.

(* ---- the defects recorded for this property (true = behave as the code did before the named fix;
        only f_restore is still open at /repo ce9ad2f) ---- *)
Record flags := mkflags {
  f_auth   : bool;  (* LCP acknowledges CHAP with any (or no) algorithm byte               (fixed 54fb851) *)
  f_adopt  : bool;  (* onIPCPUp overwrites the session address even with a nil peer address
                       (PPPoE: fixed 95b0af2; LNS: fixed ce9ad2f)                                              *)
  f_aaa    : bool;  (* an unusable AAA IPv4 address (0.0.0.0, IPv6 literal) is kept by the session
                       (PPPoE: fixed bc32486; LNS: fixed ce9ad2f)                                              *)
  f_keep   : bool;  (* SetPeerAddress keeps the peer.Address negotiated under the old assignment
                       (fixed 95b0af2)                                                                    *)
  f_always : bool;  (* startNCP starts IPCP even when the session owns no usable address (LNS before ce9ad2f;
                       PPPoE starts it only with a usable address since 24c9504)                          *)
  f_restore : bool; (* installInMemoryState restores IPCP to Opened without SetPeerAddress (fixed 8205ad2)   *)
  f_rguard : bool   (* installInMemoryState restores IPCP whenever the checkpointed address is non-nil, even
                       when it is not a usable IPv4 address (OPEN)                                        *)
}.
Definition repaired  : flags := mkflags false false false false false false false.
Definition defective : flags := mkflags true true true true false false false.   (* pkg/ppp + PPPoE before the fixes *)
Definition lns_found : flags := mkflags false true true false true false false.   (* LNS before ce9ad2f *)
Definition def_restore : flags := mkflags false false false false false true false. (* before 8205ad2 *)
Definition def_rguard : flags := mkflags false false false false false false true.   (* /repo HEAD *)

(* ---- net.IP ---- *)
Definition v4prefix : bytes := [0;0;0;0;0;0;0;0;0;0;255;255]%N.
Definition ipv4zero : bytes := (v4prefix ++ [0;0;0;0])%N.       (* net.IPv4zero is the 16-byte form *)

(* net.IP.To4 *)
Definition to4 (ip : bytes) : option bytes :=
  if Nat.eqb (length ip) 4 then Some ip
  else if Nat.eqb (length ip) 16 && bytes_eqb (firstn 12 ip) v4prefix then Some (skipn 12 ip)
  else None.
(* x.To4() on a possibly nil value *)
Definition to4o (x : option bytes) : option bytes :=
  match x with Some b => to4 b | None => None end.

(* net.IP.Equal *)
Definition ip_equal (a b : bytes) : bool :=
  if Nat.eqb (length a) (length b) then bytes_eqb a b
  else if Nat.eqb (length a) 4 && Nat.eqb (length b) 16
       then bytes_eqb (firstn 12 b) v4prefix && bytes_eqb a (skipn 12 b)
  else if Nat.eqb (length a) 16 && Nat.eqb (length b) 4
       then bytes_eqb (firstn 12 a) v4prefix && bytes_eqb (skipn 12 a) b
  else false.
Definition ip_equal_o (a : bytes) (b : option bytes) : bool :=
  ip_equal a (match b with Some x => x | None => [] end).

(* isUsableIPv4 *)
Definition usable (x : option bytes) : bool :=
  match x with
  | None => false
  | Some ip => match to4 ip with Some v => negb (all_zero v) | None => false end
  end.

(* IPAddressOption / DNSOption: addr.To4(), or four zero bytes when that is nil *)
Definition ip_option (t : N) (x : option bytes) : opt :=
  mkopt t (match to4o x with Some v => v | None => [0;0;0;0]%N end).

(* ---- result of ProcessConfReq ---- *)
Record res := mkres { r_ack : list opt; r_nak : list opt; r_rej : list opt }.
Definition res0 : res := mkres [] [] [].
Definition add_ack (r : res) (o : opt) := mkres (r_ack r ++ [o]) (r_nak r) (r_rej r).
Definition add_nak (r : res) (o : opt) := mkres (r_ack r) (r_nak r ++ [o]) (r_rej r).
Definition add_rej (r : res) (o : opt) := mkres (r_ack r) (r_nak r) (r_rej r ++ [o]).

(* ---- IPCP ---- *)
Record ipcp_cfg := mkicfg {
  ic_assigned : option bytes;     (* i.peer.PeerAddress: what SetPeerAddress stored *)
  ic_dns1 : option bytes;         (* i.local.PrimaryDNS *)
  ic_dns2 : option bytes;         (* i.local.SecondaryDNS *)
  ic_local : option bytes;        (* i.local.Address (only BuildConfReq reads it) *)
  ic_rejected : list N;           (* i.rejected: option types the subscriber has rejected *)
  ic_stage : bool;                (* NOT Go state: a choice the property leaves to the implementation — WHEN the values
                                     the subscriber proposes are recorded in peer.*: false = option by option as
                                     they are found acceptable (/repo HEAD), true = only from a request that is
                                     acceptable as a whole (the one answered with a Configure-Ack) *)
  ic_refuse : bytes -> bool       (* NOT Go state: a choice the property leaves to the implementation.  With
                                     nothing usable assigned the property does not oblige IPCP to accept a
                                     proposal; [ic_refuse a] says that the implementation refuses the non-zero
                                     proposal a in that mode (Configure-Reject).  /repo HEAD: fun _ => false. *)
}.
Record ipcp_peer := mkipeer {
  pp_addr : option bytes;         (* i.peer.Address *)
  pp_dns1 : option bytes;
  pp_dns2 : option bytes
}.
Definition ipeer0 : ipcp_peer := mkipeer None None None.

(* SetPeerAddress / SetDNS store addr.To4(); DefaultIPCPConfig leaves the DNS fields at net.IPv4zero *)
Definition mk_ipcp_cfg (assigned : option bytes) (dns : option (option bytes * option bytes)) : ipcp_cfg :=
  match dns with
  | Some (d1, d2) => mkicfg (to4o assigned) (to4o d1) (to4o d2) (Some ipv4zero) [] false (fun _ => false)
  | None => mkicfg (to4o assigned) (Some ipv4zero) (Some ipv4zero) (Some ipv4zero) [] false (fun _ => false)
  end.

Definition with_refuse (c : ipcp_cfg) (f : bytes -> bool) : ipcp_cfg :=
  mkicfg (ic_assigned c) (ic_dns1 c) (ic_dns2 c) (ic_local c) (ic_rejected c) (ic_stage c) f.
Definition with_stage (c : ipcp_cfg) (b : bool) : ipcp_cfg :=
  mkicfg (ic_assigned c) (ic_dns1 c) (ic_dns2 c) (ic_local c) (ic_rejected c) b (ic_refuse c).
(* both implementation choices at once: (which proposals are refused with nothing assigned, staging) *)
Definition choice := ((bytes -> bool) * bool)%type.
Definition with_choice (c : ipcp_cfg) (ch : choice) : ipcp_cfg := with_stage (with_refuse c (fst ch)) (snd ch).
Definition head_choice : choice := (fun _ => false, false).

Definition dns_usable (x : option bytes) : bool :=          (* x != nil && !x.Equal(net.IPv4zero) *)
  match x with Some d => negb (ip_equal d ipv4zero) | None => false end.

Definition ipcp_dns (t : N) (loc : option bytes) (setp : ipcp_peer -> bytes -> ipcp_peer)
           (st : res * ipcp_peer) (o : opt) : res * ipcp_peer :=
  let (r, p) := st in
  if Nat.eqb (length (o_data o)) 4 then
    if ip_equal (o_data o) ipv4zero && dns_usable loc
    then (add_nak r (ip_option t loc), p)
    else (add_ack r o, setp p (o_data o))
  else (add_rej r o, p).

Definition ipcp_opt (c : ipcp_cfg) (st : res * ipcp_peer) (o : opt) : res * ipcp_peer :=
  let (r, p) := st in
  if N.eqb (o_type o) 3 then
    if Nat.eqb (length (o_data o)) 4 then
      if usable (ic_assigned c) && negb (ip_equal_o (o_data o) (to4o (ic_assigned c)))
      then (add_nak r (ip_option 3 (ic_assigned c)), p)
      else if ip_equal (o_data o) ipv4zero then (add_rej r o, p)
      else if negb (usable (ic_assigned c)) && ic_refuse c (o_data o) then (add_rej r o, p)
      else (add_ack r o, mkipeer (Some (o_data o)) (pp_dns1 p) (pp_dns2 p))
    else (add_rej r o, p)
  else if N.eqb (o_type o) 129 then
    ipcp_dns 129 (ic_dns1 c) (fun p d => mkipeer (pp_addr p) (Some d) (pp_dns2 p)) st o
  else if N.eqb (o_type o) 131 then
    ipcp_dns 131 (ic_dns2 c) (fun p d => mkipeer (pp_addr p) (pp_dns1 p) (Some d)) st o
  else (add_rej r o, p).

Definition ipcp_req (c : ipcp_cfg) (p : ipcp_peer) (opts : list opt) : res * ipcp_peer :=
  fold_left (ipcp_opt c) opts (res0, p).

(* ProcessConfReq with the implementation's choice of when peer.* is written *)
Definition is_good0 (r : res) : bool := match r_nak r, r_rej r with [], [] => true | _, _ => false end.
Definition ipcp_req_c (c : ipcp_cfg) (p : ipcp_peer) (opts : list opt) : res * ipcp_peer :=
  let (r, p') := ipcp_req c p opts in
  (r, if ic_stage c && negb (is_good0 r) then p else p').

(* ---- LCP ---- *)
Definition num16 (d : bytes) : N := match d with a :: b :: _ => be16 a b | _ => 0%N end.
Definition num32 (d : bytes) : N := match d with a :: b :: c :: e :: _ => be32 a b c e | _ => 0%N end.
Definition proto_pap : N := 49187.     (* 0xc023 *)
Definition proto_chap : N := 49699.    (* 0xc223 *)
Definition chap_md5 : N := 5.
Definition default_pppoe_mru : N := 1492.

Record lcp_peer := mklpeer { lp_mru : N; lp_magic : N; lp_auth : N; lp_algo : N }.
Definition lpeer0 : lcp_peer := mklpeer 0 0 0 0.

(* AuthOption(ProtoCHAP, CHAPMD5) *)
Definition auth_chap_md5 : opt := mkopt 3 (put16 proto_chap ++ [chap_md5]).
Definition mru_option (m : N) : opt := mkopt 1 (put16 m).

Definition auth_acceptable (fl : flags) (d : bytes) : bool :=
  let proto := num16 d in
  if f_auth fl then N.eqb proto proto_pap || N.eqb proto proto_chap
  else N.eqb proto proto_pap ||
       (N.eqb proto proto_chap && match d with [_; _; a] => N.eqb a chap_md5 | _ => false end).

Definition lcp_opt (fl : flags) (magic : N) (st : res * lcp_peer) (o : opt) : res * lcp_peer :=
  let (r, p) := st in
  let d := o_data o in
  if N.eqb (o_type o) 1 then
    if Nat.eqb (length d) 2 then
      if N.ltb (num16 d) 64 then (add_nak r (mru_option default_pppoe_mru), p)
      else (add_ack r o, mklpeer (num16 d) (lp_magic p) (lp_auth p) (lp_algo p))
    else (add_rej r o, p)
  else if N.eqb (o_type o) 5 then
    if Nat.eqb (length d) 4 then
      if N.eqb (num32 d) magic && negb (N.eqb (num32 d) 0) then (add_nak r o, p)
      else (add_ack r o, mklpeer (lp_mru p) (num32 d) (lp_auth p) (lp_algo p))
    else (add_rej r o, p)
  else if N.eqb (o_type o) 3 then
    if (2 <=? length d)%nat then
      if auth_acceptable fl d
      then (add_ack r o, mklpeer (lp_mru p) (lp_magic p) (num16 d)
                                 (match d with _ :: _ :: a :: _ => a | _ => lp_algo p end))
      else (add_nak r auth_chap_md5, p)
    else (add_rej r o, p)
  else (add_rej r o, p).

Definition lcp_req (fl : flags) (magic : N) (p : lcp_peer) (opts : list opt) : res * lcp_peer :=
  fold_left (lcp_opt fl magic) opts (res0, p).

(* ---- IPv6CP ---- *)
(* the suggested identifier in a Nak is random (generatePeerInterfaceID): the model takes it from an
   oracle list, one entry per Nak'd option; when the oracle runs dry it uses [] *)
Definition iid_option (i : bytes) : opt := mkopt 1 i.
Record v6st := mkv6 { v6_res : res; v6_peer : bytes; v6_oracle : list bytes }.

Definition v6_nak (s : v6st) : v6st :=
  match v6_oracle s with
  | g :: rest => mkv6 (add_nak (v6_res s) (iid_option g)) (v6_peer s) rest
  | [] => mkv6 (add_nak (v6_res s) (iid_option [])) (v6_peer s) []
  end.

Definition ipv6cp_opt (local : bytes) (s : v6st) (o : opt) : v6st :=
  if N.eqb (o_type o) 1 then
    if Nat.eqb (length (o_data o)) 8 then
      let is_zero := all_zero (o_data o) in
      let local_zero := all_zero local in
      if is_zero && local_zero then mkv6 (add_rej (v6_res s) o) (v6_peer s) (v6_oracle s)
      else if is_zero then v6_nak s
      else if bytes_eqb (o_data o) local then v6_nak s
      else mkv6 (add_ack (v6_res s) o) (o_data o) (v6_oracle s)
    else mkv6 (add_rej (v6_res s) o) (v6_peer s) (v6_oracle s)
  else mkv6 (add_rej (v6_res s) o) (v6_peer s) (v6_oracle s).

Definition ipv6cp_req (local : bytes) (peer : bytes) (oracle : list bytes) (opts : list opt) : v6st :=
  fold_left (ipv6cp_opt local) opts (mkv6 res0 peer oracle).

(* ---- wire format (fsm.go ParseOptions / SerializeOptions) ---- *)
Fixpoint parse_options (fuel : nat) (d : bytes) : result (list opt) :=
  match d with
  | t :: l :: rest =>
      match fuel with
      | O => OutOfFuel
      | S f =>
          let ln := N.to_nat l in
          if (ln <? 2)%nat || (length d <? ln)%nat then Err 1
          else os <- parse_options f (skipn ln d) ;; Ok (mkopt t (firstn (ln - 2) rest) :: os)
      end
  | _ => Ok []              (* fewer than two bytes left: the loop ends, a trailing byte is ignored *)
  end.
Definition parse_wire (d : bytes) : result (list opt) := parse_options (length d) d.

Definition serialize_options (os : list opt) : bytes :=
  flat_map (fun o => o_type o :: ((2 + N.of_nat (length (o_data o))) mod 256)%N :: o_data o) os.

(* ---- fsm.go rcrEvent: which packet answers a Configure-Request ---- *)
Inductive act :=
| Scr                                   (* our own Configure-Request (contents not compared) *)
| Sca (id : N) (os : list opt)          (* Configure-Ack *)
| Scn (id : N) (os : list opt)          (* Configure-Nak *)
| Scj (id : N) (os : list opt)          (* Configure-Reject *)
| Sta (id : N)                          (* Terminate-Ack *)
| Tlu | Tld.

Definition is_good (r : res) : bool :=
  match r_nak r, r_rej r with [], [] => true | _, _ => false end.
Definition has_rej (r : res) : bool := match r_rej r with [] => false | _ => true end.

(* reply packet and whether the request was good *)
Definition reply (id : N) (r : res) : act :=
  if is_good r then Sca id (r_ack r)
  else if has_rej r then Scj id (r_rej r)
  else Scn id (r_nak r).

(* states: 0 Initial 1 Starting 2 Closed 3 Stopped 4 Closing 5 Stopping 6 Req-Sent 7 Ack-Rcvd 8 Ack-Sent 9 Opened *)
Definition rcr_event (st : N) (id : N) (r : res) : list act * N :=
  let good := is_good r in
  match st with
  | 2 => ([Sta id], 2)
  | 3 => ([Scr; reply id r], if good then 8 else 6)
  | 6 => ([reply id r], if good then 8 else 6)
  | 7 => (if good then [reply id r; Tlu] else [reply id r], if good then 9 else 7)
  | 8 => ([reply id r], if good then 8 else 6)
  | 9 => ([Tld; Scr; reply id r], if good then 8 else 6)
  | _ => ([], st)
  end%N.

(* rcaEvent with id = lastReqID *)
Definition rca_event (st : N) (id : N) : list act * N :=
  match st with
  | 2 | 3 => ([Sta id], st)
  | 6 => ([], 7)
  | 7 => ([Scr], 6)
  | 8 => ([Tlu], 9)
  | 9 => ([Tld; Scr], 6)
  | _ => ([], st)
  end%N.

(* the Configure-Ack / Nak / Reject packets among the actions, and the states in which a
   Configure-Request is answered with one of them (Stopped, Req-Sent, Ack-Rcvd, Ack-Sent, Opened) *)
Definition is_conf (a : act) : bool :=
  match a with Sca _ _ | Scn _ _ | Scj _ _ => true | _ => false end.
Definition conf_packets (acts : list act) : list act := filter is_conf acts.
Definition replies (st : N) : bool :=
  (N.eqb st 3 || N.eqb st 6 || N.eqb st 7 || N.eqb st 8 || N.eqb st 9)%N.

(* FSM.Input(ConfReq, id, data) for an IPCP instance: a request that does not parse is dropped
   before the handler runs *)
Definition ipcp_input (c : ipcp_cfg) (st : N) (p : ipcp_peer) (id : N) (wire : bytes)
  : list act * N * ipcp_peer :=
  match parse_wire wire with
  | Ok opts => let (r, p') := ipcp_req_c c p opts in
               let (a, st') := rcr_event st id r in (a, st', p')
  | _ => ([], st, p)
  end.
Definition lcp_input (fl : flags) (magic : N) (st : N) (p : lcp_peer) (id : N) (wire : bytes)
  : list act * N * lcp_peer :=
  match parse_wire wire with
  | Ok opts => let (r, p') := lcp_req fl magic p opts in
               let (a, st') := rcr_event st id r in (a, st', p')
  | _ => ([], st, p)
  end.
Definition ipv6cp_input (local : bytes) (st : N) (p : bytes) (oracle : list bytes) (id : N) (wire : bytes)
  : list act * N * bytes :=
  match parse_wire wire with
  | Ok opts => let s := ipv6cp_req local p oracle opts in
               let (a, st') := rcr_event st id (v6_res s) in (a, st', v6_peer s)
  | _ => ([], st, p)
  end.

(* ProcessConfAck / ProcessConfNak (identical bodies): the subscriber's answer to OUR Configure-Request
   overwrites our local DNS values (and our local address, which nothing observable here depends on);
   the assigned peer address is not touched *)
Definition ipcp_learn_opt (c : ipcp_cfg) (o : opt) : ipcp_cfg :=
  if Nat.eqb (length (o_data o)) 4 then
    if N.eqb (o_type o) 3 then mkicfg (ic_assigned c) (ic_dns1 c) (ic_dns2 c) (Some (o_data o)) (ic_rejected c) (ic_stage c) (ic_refuse c)
    else if N.eqb (o_type o) 129 then mkicfg (ic_assigned c) (Some (o_data o)) (ic_dns2 c) (ic_local c) (ic_rejected c) (ic_stage c) (ic_refuse c)
    else if N.eqb (o_type o) 131 then mkicfg (ic_assigned c) (ic_dns1 c) (Some (o_data o)) (ic_local c) (ic_rejected c) (ic_stage c) (ic_refuse c)
    else c
  else c.
Definition ipcp_learn (c : ipcp_cfg) (os : list opt) : ipcp_cfg := fold_left ipcp_learn_opt os c.

(* ProcessConfRej: remember the rejected option types *)
Definition ipcp_rejected (c : ipcp_cfg) (os : list opt) : ipcp_cfg :=
  mkicfg (ic_assigned c) (ic_dns1 c) (ic_dns2 c) (ic_local c) (map o_type os ++ ic_rejected c) (ic_stage c) (ic_refuse c).

(* BuildConfReq *)
Definition build_confreq (c : ipcp_cfg) : list opt :=
  let want (t : N) (x : option bytes) :=
    if negb (existsb (N.eqb t) (ic_rejected c)) && usable x then [ip_option t x] else [] in
  want 3%N (ic_local c) ++ want 129%N (ic_dns1 c) ++ want 131%N (ic_dns2 c).

(* ---- histories on ONE protocol object ------------------------------------------------------
   Everything a handler remembers between calls (peer.*, rejected[...], values learned from the
   subscriber's Ack/Nak of our own request, configuration set by the owner) is state of the object. *)

(* SetPeerAddress.  Repaired: the address negotiated under the previous assignment is forgotten, so that a
   stale peer.Address can never be adopted; before 95b0af2 (f_keep): peer.Address survives. *)
Definition ipcp_set_peer (fl : flags) (c : ipcp_cfg) (p : ipcp_peer) (a : option bytes) : ipcp_cfg * ipcp_peer :=
  (mkicfg (to4o a) (ic_dns1 c) (ic_dns2 c) (ic_local c) (ic_rejected c) (ic_stage c) (ic_refuse c),
   if f_keep fl then p else mkipeer None (pp_dns1 p) (pp_dns2 p)).

Record iobj := mkiobj { io_cfg : ipcp_cfg; io_peer : ipcp_peer }.
Inductive iop :=
| IReq (os : list opt)                 (* ProcessConfReq *)
| IAck (os : list opt)                 (* ProcessConfAck *)
| INak (os : list opt)                 (* ProcessConfNak *)
| IRej (os : list opt)                 (* ProcessConfRej *)
| ISetPeer (a : option bytes)          (* SetPeerAddress *)
| ISetDNS (d1 d2 : option bytes)       (* SetDNS *)
| ISetAddr (a : option bytes).         (* SetAddress *)

Definition iobj_step (fl : flags) (s : iobj) (o : iop) : iobj * option res :=
  let c := io_cfg s in
  match o with
  | IReq os => let (r, p') := ipcp_req_c c (io_peer s) os in (mkiobj c p', Some r)
  | IAck os | INak os => (mkiobj (ipcp_learn c os) (io_peer s), None)
  | IRej os => (mkiobj (ipcp_rejected c os) (io_peer s), None)
  | ISetPeer a => let (c', p') := ipcp_set_peer fl c (io_peer s) a in (mkiobj c' p', None)
  | ISetDNS d1 d2 => (mkiobj (mkicfg (ic_assigned c) (to4o d1) (to4o d2) (ic_local c) (ic_rejected c) (ic_stage c) (ic_refuse c)) (io_peer s), None)
  | ISetAddr a => (mkiobj (mkicfg (ic_assigned c) (ic_dns1 c) (ic_dns2 c) (to4o a) (ic_rejected c) (ic_stage c) (ic_refuse c)) (io_peer s), None)
  end.

(* the trace of a history: for every ProcessConfReq the configuration in force, the request, the result *)
Fixpoint iobj_trace (fl : flags) (s : iobj) (ops : list iop) : list (ipcp_cfg * list opt * res) :=
  match ops with
  | [] => []
  | o :: rest =>
      let (s', r) := iobj_step fl s o in
      match o, r with
      | IReq os, Some x => (io_cfg s, os, x) :: iobj_trace fl s' rest
      | _, _ => iobj_trace fl s' rest
      end
  end.
Fixpoint iobj_run (fl : flags) (s : iobj) (ops : list iop) : iobj :=
  match ops with [] => s | o :: rest => iobj_run fl (fst (iobj_step fl s o)) rest end.

(* the assigned address in force after a history: the most recent SetPeerAddress, nothing else *)
Fixpoint last_set_peer (ops : list iop) (cur : option bytes) : option bytes :=
  match ops with
  | [] => cur
  | ISetPeer a :: rest => last_set_peer rest (to4o a)
  | _ :: rest => last_set_peer rest cur
  end.

(* -- LCP object -- *)
Record lobj := mklobj {
  lo_mru : N; lo_magic : N; lo_auth : N; lo_algo : N; lo_want : bool;     (* l.local *)
  lo_rej : list N;                                                          (* l.rejected *)
  lo_peer : lcp_peer
}.
Definition lobj0 (magic : N) : lobj := mklobj default_pppoe_mru magic 0 0 false [] lpeer0.
Inductive lop :=
| LReq (os : list opt) | LAck (os : list opt) | LNak (os : list opt) | LRej (os : list opt)
| LSetMagic (m : N) | LSetMRU (m : N) | LSetAuth (proto algo : N).

Definition lcp_learn_opt (nak : bool) (s : lobj) (o : opt) : lobj :=
  let d := o_data o in
  if N.eqb (o_type o) 1 && Nat.eqb (length d) 2
  then mklobj (num16 d) (lo_magic s) (lo_auth s) (lo_algo s) (lo_want s) (lo_rej s) (lo_peer s)
  else if N.eqb (o_type o) 5 && Nat.eqb (length d) 4
  then mklobj (lo_mru s) (num32 d) (lo_auth s) (lo_algo s) (lo_want s) (lo_rej s) (lo_peer s)
  else if nak && N.eqb (o_type o) 3 && (2 <=? length d)%nat
  then mklobj (lo_mru s) (lo_magic s) (num16 d)
              (match d with _ :: _ :: a :: _ => a | _ => lo_algo s end) (lo_want s) (lo_rej s) (lo_peer s)
  else s.

Definition put32b (n : N) : bytes := put32 n.
Definition auth_option (proto algo : N) : opt :=
  if N.eqb proto proto_chap then mkopt 3 (put16 proto ++ [algo]) else mkopt 3 (put16 proto).
Definition lcp_build (s : lobj) : list opt :=
  let rej t := existsb (N.eqb t) (lo_rej s) in
  (if negb (rej 1%N) then [mru_option (lo_mru s)] else []) ++
  (if negb (rej 5%N) && negb (N.eqb (lo_magic s) 0) then [mkopt 5 (put32b (lo_magic s))] else []) ++
  (if negb (rej 3%N) && lo_want s then [auth_option (lo_auth s) (lo_algo s)] else []).

Definition lobj_step (fl : flags) (s : lobj) (o : lop) : lobj * option res :=
  match o with
  | LReq os => let (r, p') := lcp_req fl (lo_magic s) (lo_peer s) os in
               (mklobj (lo_mru s) (lo_magic s) (lo_auth s) (lo_algo s) (lo_want s) (lo_rej s) p', Some r)
  | LAck os => (fold_left (lcp_learn_opt false) os s, None)
  | LNak os => (fold_left (lcp_learn_opt true) os s, None)
  | LRej os => (mklobj (lo_mru s) (lo_magic s) (lo_auth s) (lo_algo s) (lo_want s) (map o_type os ++ lo_rej s) (lo_peer s), None)
  | LSetMagic m => (mklobj (lo_mru s) m (lo_auth s) (lo_algo s) (lo_want s) (lo_rej s) (lo_peer s), None)
  | LSetMRU m => (mklobj m (lo_magic s) (lo_auth s) (lo_algo s) (lo_want s) (lo_rej s) (lo_peer s), None)
  | LSetAuth pr al => (mklobj (lo_mru s) (lo_magic s) pr al true (lo_rej s) (lo_peer s), None)
  end.

(* trace: the local magic number in force at each ProcessConfReq *)
Fixpoint lobj_trace (fl : flags) (s : lobj) (ops : list lop) : list (N * list opt * res) :=
  match ops with
  | [] => []
  | o :: rest =>
      let (s', r) := lobj_step fl s o in
      match o, r with
      | LReq os, Some x => (lo_magic s, os, x) :: lobj_trace fl s' rest
      | _, _ => lobj_trace fl s' rest
      end
  end.

(* -- IPv6CP object -- *)
Record v6obj := mkv6obj { vo_local : bytes; vo_rej : list N; vo_peer : bytes }.
Inductive v6op :=
| VReq (os : list opt) (oracle : list bytes) | VAck (os : list opt) | VNak (os : list opt) | VRej (os : list opt)
| VSetID (i : bytes).
Definition v6_learn_opt (s : v6obj) (o : opt) : v6obj :=
  if N.eqb (o_type o) 1 && Nat.eqb (length (o_data o)) 8 then mkv6obj (o_data o) (vo_rej s) (vo_peer s) else s.
Definition v6_build (s : v6obj) : list opt :=
  if negb (existsb (N.eqb 1%N) (vo_rej s)) then [iid_option (vo_local s)] else [].
Definition v6obj_step (s : v6obj) (o : v6op) : v6obj * option res :=
  match o with
  | VReq os oracle => let r := ipv6cp_req (vo_local s) (vo_peer s) oracle os in
                      (mkv6obj (vo_local s) (vo_rej s) (v6_peer r), Some (v6_res r))
  | VAck os | VNak os => (fold_left v6_learn_opt os s, None)
  | VRej os => (mkv6obj (vo_local s) (map o_type os ++ vo_rej s) (vo_peer s), None)
  | VSetID i => (mkv6obj i (vo_rej s) (vo_peer s), None)
  end.
Fixpoint v6obj_trace (s : v6obj) (ops : list v6op) : list (bytes * list opt * res) :=
  match ops with
  | [] => []
  | o :: rest =>
      let (s', r) := v6obj_step s o in
      match o, r with
      | VReq os _, Some x => (vo_local s, os, x) :: v6obj_trace s' rest
      | _, _ => v6obj_trace s' rest
      end
  end.

(* ---- the session around IPCP: internal/pppoe/session.go (PPPoE) and internal/l2tp/lns_lifecycle.go (LNS) ---- *)
Inductive owner := PPPoE | LNS
  | Ended.   (* a PPPoE session whose authenticated link has ended (e9950ea): it is torn down, nothing more happens *)

(* extractIPFromAttributes (IPv4 attribute only): the parsed AAA address, if any *)
Definition extract_ip (fl : flags) (aaa : option bytes) : option bytes :=
  match aaa with
  | Some a => if f_aaa fl then Some a else if usable (Some a) then Some a else None
  | None => None
  end.

Record sess := mksess {
  s_owner : owner;
  s_cfg : ipcp_cfg;
  s_fsm : N;
  s_peer : ipcp_peer;
  s_addr : option bytes;      (* SessionState.IPv4Address / Session.IPv4Address *)
  s_open : bool;              (* ipcpOpen *)
  s_lastreq : list opt;       (* options of our last Configure-Request *)
  s_dns : bytes * bytes       (* SessionState.DNS1 / DNS2 once startNCP has run (AAA values or the defaults) *)
}.

(* every scr rebuilds our request from the configuration as it is at that moment *)
Definition next_req (c : ipcp_cfg) (acts : list act) (last : list opt) : list opt :=
  if existsb (fun a => match a with Scr => true | _ => false end) acts then build_confreq c else last.

(* FSM.Up() followed by FSM.Open(), as startNCP calls them *)
Definition up_open (st : N) : list act * N :=
  match st with
  | 0 => ([Scr], 6)          (* Up: Initial -> Closed; Open: irc, scr -> Req-Sent *)
  | 1 => ([Scr], 6)          (* Up: irc, scr -> Req-Sent; Open: nothing *)
  | 2 => ([Scr], 6)          (* Open: irc, scr -> Req-Sent *)
  | 4 => ([], 5)             (* Open in Closing -> Stopping *)
  | _ => ([], st)
  end%N.

(* what the address registry answers during one startNCP call (outside this property: C01/C02) *)
Record oracle := mkorc {
  or_alloc : option bytes;    (* AllocateFromProfile when the session has no address: Some a / failure *)
  or_reserve_ok : bool        (* ReserveIP of the session's address (PPPoE only): false = held by another session *)
}.

(* startNCP.
   PPPoE (session.go:505): no address -> allocateFromPool; address -> ReserveIP, a conflict clears it;
     default DNS 8.8.8.8 / 8.8.4.4; only with a usable address: SetPeerAddress, SetDNS, Up, Open; otherwise
     the session address is cleared and the IPCP object is left alone.
   LNS (lns_lifecycle.go:373): no address -> allocateIPv4; SetPeerAddress only when there is an address; DNS
     only from profile / AAA (none here); IPCP only with a usable address (ce9ad2f; before: always, f_always). *)
Definition dns_default1 : bytes := (v4prefix ++ [8;8;8;8])%N.
Definition dns_default2 : bytes := (v4prefix ++ [8;8;4;4])%N.
Definition start_ncp (fl : flags) (ow : owner) (c : ipcp_cfg) (st : N) (p : ipcp_peer) (addr : option bytes)
           (op : bool) (last : list opt) (dns : bytes * bytes) (orc : oracle) : sess * list act :=
  let addr1 := match addr with
               | None => or_alloc orc
               | Some a => match ow with
                           | PPPoE => if or_reserve_ok orc then Some a else None
                           | _ => Some a
                           end
               end in
  if usable addr1 || f_always fl then
    let (c1, p1) := match ow, addr1 with
                    | LNS, None => (c, p)
                    | _, _ => ipcp_set_peer fl c p addr1
                    end in
    let c2 := match ow with
              | PPPoE => mkicfg (ic_assigned c1) (to4 (fst dns)) (to4 (snd dns)) (ic_local c1) (ic_rejected c1) (ic_stage c1) (ic_refuse c1)
              | _ => c1
              end in
    let (a, st') := up_open st in
    (mksess ow c2 st' p1 addr1 op (next_req c2 a last) dns, a)
  else (mksess ow c st p None op last dns, []).

(* extractIPFromAttributes stores AAA DNS servers in DNS1/DNS2; startNCP fills in 8.8.8.8 / 8.8.4.4 for
   whatever is still nil *)
Definition dns_of (aaa_dns : option bytes * option bytes) : bytes * bytes :=
  (match fst aaa_dns with Some d => d | None => dns_default1 end,
   match snd aaa_dns with Some d => d | None => dns_default2 end).

Definition sess_start_dns (fl : flags) (ow : owner) (aaa : option bytes) (aaa_dns : option bytes * option bytes)
           (orc : oracle) (refuse : choice) : sess :=
  fst (start_ncp fl ow (with_choice (mk_ipcp_cfg None None) refuse) 0 ipeer0 (extract_ip fl aaa) false []
                 (dns_of aaa_dns) orc).
Definition sess_start (fl : flags) (ow : owner) (aaa : option bytes) (orc : oracle) : sess :=
  sess_start_dns fl ow aaa (None, None) orc head_choice.

(* installInMemoryState (internal/pppoe/component.go) for a checkpointed session in PhaseOpen with an IPv4
   address: initPPP (fresh IPCP object), FSM.Restore (straight to Opened, nothing sent), ipcpOpen = true.
   Repaired: the checkpointed address is installed as the assignment first (SetPeerAddress, SetDNS). *)
Definition sess_restore_f (fl : flags) (addr : bytes) (dns1 dns2 : option bytes) (refuse : choice) : sess :=
  if f_restore fl then
    (* before 8205ad2: nothing assigned; guard "address != nil" *)
    mksess PPPoE (with_choice (mk_ipcp_cfg None None) refuse) 9 ipeer0 (Some addr) true [] (dns_default1, dns_default2)
  else if f_rguard fl || usable (Some addr) then
    (* 8205ad2: SetPeerAddress, SetDNS, Restore.  f_rguard: the guard is still "address != nil" *)
    mksess PPPoE (with_choice (mk_ipcp_cfg (Some addr) (Some (dns1, dns2))) refuse) 9 ipeer0 (Some addr) true [] (dns_default1, dns_default2)
  else
    (* repaired guard: an unusable checkpointed address does not restore IPCP and is dropped *)
    mksess PPPoE (with_choice (mk_ipcp_cfg None None) refuse) 0 ipeer0 None false [] (dns_default1, dns_default2).
Definition sess_restore (fl : flags) (addr : bytes) (dns1 dns2 : option bytes) : sess :=
  sess_restore_f fl addr dns1 dns2 head_choice.

(* callbacks LayerUp = onIPCPUp, LayerDown = onIPCPDown *)
Definition on_act (fl : flags) (p : ipcp_peer) (st : option bytes * bool) (a : act) : option bytes * bool :=
  match a with
  | Tlu => (if f_adopt fl then pp_addr p
            else match pp_addr p with Some x => Some x | None => fst st end, true)
  | Tld => (fst st, false)
  | _ => st
  end.

(* rcaEvent / rcnEvent: "opts, _ := ParseOptions(data)" — a parse error yields no options but the
   automaton still moves *)
Definition parse_lenient (w : bytes) : list opt := match parse_wire w with Ok os => os | _ => [] end.

(* rcnEvent with id = lastReqID *)
Definition rcn_event (st : N) (id : N) : list act * N :=
  match st with
  | 2 | 3 => ([Sta id], st)
  | 6 | 7 => ([Scr], 6)
  | 8 => ([Scr], 8)
  | 9 => ([Tld; Scr], 6)
  | _ => ([], st)
  end%N.

(* rtrEvent: the subscriber's Terminate-Request (fsm.go at HEAD) *)
Definition rtr_event (st : N) (id : N) : list act * N :=
  match st with
  | 2 | 3 | 4 | 5 => ([Sta id], st)
  | 6 | 7 | 8 => ([Sta id], 6)
  | 9 => ([Tld; Sta id], 5)          (* tld, zrc, timer armed, sta -> Stopping *)
  | _ => ([], st)
  end%N.

(* FSM.Down() (fsm.go:141): what the NCPs receive from onLCPDown when LCP leaves Opened (PPPoE, 8b06a36) *)
Definition down_event (st : N) : list act * N :=
  match st with
  | 2 | 4 => ([], 0)
  | 3 => ([], 1)                      (* tls *)
  | 5 | 6 | 7 | 8 => ([], 1)
  | 9 => ([Tld], 1)
  | _ => ([], st)
  end%N.

(* FSM.timeout with restart counter > 0 (TO+): the Configure-Request is retransmitted — rebuilt by
   BuildConfReq from the configuration as it is now, with a new identifier *)
Definition to_plus (st : N) : list act * N :=
  match st with
  | 6 | 8 => ([Scr], st)
  | 7 => ([Scr], 6)
  | _ => ([], st)
  end%N.

(* FSM.timeout until the restart counter is exhausted: the remaining TO+ retransmissions, then TO-
   (this-layer-finished — which neither owner wires to anything — and Stopped / Closed) *)
Definition to_minus (st : N) : list act * N :=
  match st with
  | 6 | 7 | 8 => ([Scr], 3)      (* at least one retransmission happened before the counter ran out *)
  | _ => ([], st)                (* Stopping is EvStoppingTimeout's; nothing runs a timer elsewhere *)
  end%N.

Inductive sev :=
| EvReq (id : N) (wire : bytes)     (* the subscriber's Configure-Request *)
| EvAck                             (* the subscriber acknowledges our last Configure-Request verbatim *)
| EvAckW (wire : bytes)             (* Configure-Ack with our last identifier and arbitrary contents *)
| EvNak (wire : bytes)              (* Configure-Nak with our last identifier *)
| EvRej (wire : bytes)              (* Configure-Reject with our last identifier *)
| EvStale                           (* Configure-Ack/Nak/Reject whose identifier is not our last one: dropped
                                       by rcaEvent/rcnEvent before the handler runs *)
| EvTermReq (id : N)                (* the subscriber's Terminate-Request *)
| EvStoppingTimeout                 (* the restart timer expires in Stopping (restart counter 0 after zrc): TO- *)
| EvTimeout                         (* the restart timer expires while negotiating, restart counter > 0: TO+ *)
| EvExhaust                         (* the restart timer keeps expiring until Max-Configure is exhausted: TO- *)
| EvDown                            (* the subscriber renegotiates LCP: LCP leaves Opened, onLCPDown.  PPPoE sends
                                       FSM.Down() to IPCP (and IPv6CP); the LNS owner leaves the NCPs alone *)
| EvReauth (aaa : option bytes) (orc : oracle).
                                    (* re-authentication as production runs it: LCP renegotiated (EvDown), LCP up
                                       again, authentication repeated, extractIPFromAttributes with the new AAA
                                       answer and startNCP run again on the same session *)

Definition sess_fsm_only (fl : flags) (s : sess) (c' : ipcp_cfg) (r : list act * N) : sess * list act :=
  let (a, st') := r in
  let (ad, op) := fold_left (on_act fl (s_peer s)) a (s_addr s, s_open s) in
  (mksess (s_owner s) c' st' (s_peer s) ad op (next_req c' a (s_lastreq s)) (s_dns s), a).

(* onLCPDown: FSM.Down() to the NCPs in both owners (PPPoE 8b06a36, LNS c99b5bd).  PPPoE additionally, the
   link having been authenticated (startNCP has run: Phase Network/Open), sets linkEnded: handleSession tears
   the session down right after (e9950ea).  The LNS owner keeps the session. *)
Definition sess_down (fl : flags) (s : sess) : sess * list act :=
  match s_owner s with
  | PPPoE =>
      let (s', a) := sess_fsm_only fl s (s_cfg s) (down_event (s_fsm s)) in
      (mksess Ended (s_cfg s') (s_fsm s') (s_peer s') (s_addr s') (s_open s') (s_lastreq s') (s_dns s'), a)
  | LNS => sess_fsm_only fl s (s_cfg s) (down_event (s_fsm s))
  | Ended => (s, [])
  end.

Definition is_ended (s : sess) : bool := match s_owner s with Ended => true | _ => false end.

Definition sess_step_live (fl : flags) (s : sess) (e : sev) : sess * list act :=
  match e with
  | EvReq id wire =>
      let '(a, st', p') := ipcp_input (s_cfg s) (s_fsm s) (s_peer s) id wire in
      let (ad, op) := fold_left (on_act fl p') a (s_addr s, s_open s) in
      (mksess (s_owner s) (s_cfg s) st' p' ad op (next_req (s_cfg s) a (s_lastreq s)) (s_dns s), a)
  | EvAck => sess_fsm_only fl s (ipcp_learn (s_cfg s) (s_lastreq s)) (rca_event (s_fsm s) 0)
  | EvAckW w => sess_fsm_only fl s (ipcp_learn (s_cfg s) (parse_lenient w)) (rca_event (s_fsm s) 0)
  | EvNak w => sess_fsm_only fl s (ipcp_learn (s_cfg s) (parse_lenient w)) (rcn_event (s_fsm s) 0)
  | EvRej w => sess_fsm_only fl s (ipcp_rejected (s_cfg s) (parse_lenient w)) (rcn_event (s_fsm s) 0)
  | EvStale => (s, [])
  | EvTermReq id => sess_fsm_only fl s (s_cfg s) (rtr_event (s_fsm s) id)
  | EvStoppingTimeout =>
      sess_fsm_only fl s (s_cfg s) (if N.eqb (s_fsm s) 5 then ([], 3%N) else ([], s_fsm s))
  | EvTimeout => sess_fsm_only fl s (s_cfg s) (to_plus (s_fsm s))
  | EvExhaust => sess_fsm_only fl s (s_cfg s) (to_minus (s_fsm s))
  | EvDown => sess_down fl s
  | EvReauth aaa orc =>
      match s_owner s with
      | LNS =>
          (* the LNS owner keeps the session: LCP renegotiated (onLCPDown: the NCPs go Down), authentication
             repeated; the address is kept unless AAA delivers a new one; startNCP again *)
          let (s1, a1) := sess_down fl s in
          let addr := match extract_ip fl aaa with Some x => Some x | None => s_addr s1 end in
          let (s2, a2) := start_ncp fl LNS (s_cfg s1) (s_fsm s1) (s_peer s1) addr (s_open s1) (s_lastreq s1)
                                    (s_dns s1) orc in
          (s2, a1 ++ a2)
      | _ => sess_down fl s        (* PPPoE: the renegotiation ends the session before any new AAA answer *)
      end
  end.

(* a session that has been torn down receives nothing any more *)
Definition sess_step (fl : flags) (s : sess) (e : sev) : sess * list act :=
  if is_ended s then (s, []) else sess_step_live fl s e.

Fixpoint sess_run (fl : flags) (s : sess) (es : list sev) : sess :=
  match es with
  | [] => s
  | e :: rest => sess_run fl (fst (sess_step fl s e)) rest
  end.

(* ---- the session around IPv6CP (internal/pppoe/session.go startNCP, IPv6 part) --------------------
   startNCP installs the MAC-derived interface identifier (SetInterfaceID) and THEN brings IPv6CP up
   (Up + Open: our Configure-Request goes out).  What the subscriber sees as "the BNG's identifier" is the
   one in our last Configure-Request; what ProcessConfReq compares with is local.InterfaceID. *)
Record v6sess := mkv6s {
  vs_obj : v6obj;
  vs_fsm : N;
  vs_last : list opt;       (* options of our last IPv6CP Configure-Request *)
  vs_open : bool            (* ipv6cpOpen *)
}.
Inductive v6ev :=
| V6Start (iid : bytes)                                   (* startNCP; on a re-authentication onLCPDown has sent
                                                             Down first (a no-op in Initial, i.e. the first time) *)
| V6Down                                                  (* LCP renegotiation: onLCPDown -> FSM.Down() *)
| V6Req (id : N) (wire : bytes) (oracle : list bytes)     (* the subscriber's Configure-Request *)
| V6Echo (id : N) (oracle : list bytes)                   (* ... proposing exactly what our last request carried *)
| V6Ack                                                   (* our last request acknowledged verbatim *)
| V6Nak (wire : bytes)                                    (* Configure-Nak with our last identifier *)
| V6Rej (wire : bytes)                                    (* Configure-Reject with our last identifier *)
| V6Timeout.                                              (* restart timer, counter > 0: retransmission *)

Definition v6_next (o : v6obj) (acts : list act) (last : list opt) : list opt :=
  if existsb (fun a => match a with Scr => true | _ => false end) acts then v6_build o else last.
Definition v6_open (acts : list act) (op : bool) : bool :=
  fold_left (fun b a => match a with Tlu => true | Tld => false | _ => b end) acts op.

Definition v6sess0 (random_id : bytes) : v6sess :=
  mkv6s (mkv6obj random_id [] [0;0;0;0;0;0;0;0]%N) 0 [] false.

Definition v6sess_step (s : v6sess) (e : v6ev) : v6sess * list act :=
  let o := vs_obj s in
  let fin (o' : v6obj) (r : list act * N) :=
    (mkv6s o' (snd r) (v6_next o' (fst r) (vs_last s)) (v6_open (fst r) (vs_open s)), fst r) in
  let req id wire orc :=
    let '(a, st', p') := ipv6cp_input (vo_local o) (vs_fsm s) (vo_peer o) orc id wire in
    fin (mkv6obj (vo_local o) (vo_rej o) p') (a, st') in
  match e with
  | V6Start m =>
      let (a1, st1) := down_event (vs_fsm s) in
      let (a2, st2) := up_open st1 in
      fin (mkv6obj m (vo_rej o) (vo_peer o)) (a1 ++ a2, st2)
  | V6Down => fin o (down_event (vs_fsm s))
  | V6Req id wire orc => req id wire orc
  | V6Echo id orc => req id (serialize_options (vs_last s)) orc
  | V6Ack => fin (fold_left v6_learn_opt (vs_last s) o) (rca_event (vs_fsm s) 0)
  | V6Nak w => fin (fold_left v6_learn_opt (parse_lenient w) o) (rcn_event (vs_fsm s) 0)
  | V6Rej w => fin (mkv6obj (vo_local o) (map o_type (parse_lenient w) ++ vo_rej o) (vo_peer o))
                   (rcn_event (vs_fsm s) 0)
  | V6Timeout => fin o (to_plus (vs_fsm s))
  end.
Fixpoint v6sess_run (s : v6sess) (es : list v6ev) : v6sess :=
  match es with [] => s | e :: rest => v6sess_run (fst (v6sess_step s e)) rest end.

(* IPv6CPConfigFromMAC *)
Definition iid_from_mac (mac : bytes) : bytes :=
  match mac with
  | [m0; m1; m2; m3; m4; m5] => [N.lxor m0 2; m1; m2; 255; 254; m3; m4; m5]%N
  | _ => [0;0;0;0;0;0;0;0]%N
  end.

(* ---- LCP inside a session (internal/pppoe/session.go initPPP + up; component.go installInMemoryState) ----
   initPPP: NewLCP (random magic), SetAuthProto(CHAP, MD5); up(): Up + Open, our Configure-Request goes out.
   installInMemoryState: SetMagic(checkpointed magic), FSM.Restore (Opened, nothing sent).
   "Its own magic number" for the subscriber is the one our Configure-Request announces; ProcessConfReq
   compares with local.Magic. *)
Record lsess := mkls { ls_obj : lobj; ls_fsm : N; ls_last : list opt; ls_open : bool }.
Inductive lev :=
| SLStart                                   (* up(): Up + Open *)
| SLReq (id : N) (wire : bytes)             (* the subscriber's Configure-Request *)
| SLEcho (id : N)                           (* ... carrying exactly the Magic-Number option of our last request *)
| SLAck                                    (* our last request acknowledged verbatim *)
| SLNak (wire : bytes)                     (* Configure-Nak with our last identifier *)
| SLRej (wire : bytes)                     (* Configure-Reject with our last identifier *)
| SLTimeout.                               (* restart timer, counter > 0: retransmission *)

(* initPPP *)
Definition lsess0 (random_magic : N) : lsess :=
  mkls (mklobj default_pppoe_mru random_magic proto_chap chap_md5 true [] lpeer0) 0 [] false.
(* installInMemoryState with a checkpointed magic (SetMagic only when non-zero) *)
Definition lsess_restored (random_magic saved : N) : lsess :=
  mkls (mklobj default_pppoe_mru (if N.eqb saved 0 then random_magic else saved) proto_chap chap_md5 true [] lpeer0)
       9 [] true.

Definition l_next (o : lobj) (acts : list act) (last : list opt) : list opt :=
  if existsb (fun a => match a with Scr => true | _ => false end) acts then lcp_build o else last.
Definition with_lpeer (o : lobj) (p : lcp_peer) : lobj :=
  mklobj (lo_mru o) (lo_magic o) (lo_auth o) (lo_algo o) (lo_want o) (lo_rej o) p.

Definition lsess_step (fl : flags) (s : lsess) (e : lev) : lsess * list act :=
  let o := ls_obj s in
  let fin (o' : lobj) (r : list act * N) :=
    (mkls o' (snd r) (l_next o' (fst r) (ls_last s)) (v6_open (fst r) (ls_open s)), fst r) in
  let req id wire :=
    let '(a, st', p') := lcp_input fl (lo_magic o) (ls_fsm s) (lo_peer o) id wire in
    fin (with_lpeer o p') (a, st') in
  match e with
  | SLStart => fin o (up_open (ls_fsm s))
  | SLReq id wire => req id wire
  | SLEcho id => req id (serialize_options (filter (fun x => N.eqb (o_type x) 5) (ls_last s)))
  | SLAck => fin (fold_left (lcp_learn_opt false) (ls_last s) o) (rca_event (ls_fsm s) 0)
  | SLNak w => fin (fold_left (lcp_learn_opt true) (parse_lenient w) o) (rcn_event (ls_fsm s) 0)
  | SLRej w => fin (mklobj (lo_mru o) (lo_magic o) (lo_auth o) (lo_algo o) (lo_want o)
                           (map o_type (parse_lenient w) ++ lo_rej o) (lo_peer o))
                   (rcn_event (ls_fsm s) 0)
  | SLTimeout => fin o (to_plus (ls_fsm s))
  end.
Fixpoint lsess_run (fl : flags) (s : lsess) (es : list lev) : lsess :=
  match es with [] => s | e :: rest => lsess_run fl (fst (lsess_step fl s e)) rest end.

(* all bytes a subscriber can send are < 256 *)
Definition bytes_ok (b : bytes) : Prop := forall x, In x b -> (x < 256)%N.
Definition lev_ok (e : lev) : Prop :=
  match e with SLReq _ w | SLNak w | SLRej w => bytes_ok w | _ => True end.

(* ---- authentication gates the NCPs (internal/ppp/dispatcher.go HandleFrame, session.go onAuthResult) ----
   Before authentication has succeeded the session is in the Establish / Authenticate phase: the dispatcher
   drops every IPCP / IPv6CP frame (inNetworkPhase), and the NCP objects are still in Initial.  A rejected
   authentication closes LCP (Terminate-Request, retransmitted Max-Terminate times, then Closed); an accepted
   one runs extractIPFromAttributes + startNCP. *)
Inductive aphase :=
| APre                      (* LCP Opened, authentication pending *)
| AFailed (left : nat)      (* authentication rejected: LCP Closing, that many Terminate-Request retransmissions left *)
| AClosed                   (* LCP Closed *)
| AStarted (s : sess).      (* authenticated: NCPs started (or IPv4 stays down) *)
Inductive aev :=
| ANcpReq (v6 : bool) (id : N) (wire : bytes)      (* an IPCP / IPv6CP Configure-Request from the subscriber *)
| AFail                                            (* the AAA answer is a reject *)
| AOk (aaa : option bytes) (dns : option bytes * option bytes) (orc : oracle) (ch : choice)
| ATimeout                                         (* LCP restart timer *)
| ASess (e : sev).                                 (* anything the IPCP session model knows *)

(* result: new phase, IPCP actions, number of LCP Terminate-Requests sent *)
Definition astep (fl : flags) (st : aphase) (e : aev) : aphase * list act * nat :=
  match st, e with
  | APre, AOk aaa d orc ch =>
      let s := sess_start_dns fl PPPoE aaa d orc ch in
      (AStarted s, if N.eqb (s_fsm s) 0 then [] else [Scr], O)
  | APre, AFail => (AFailed 2, [], 1%nat)                  (* Close: str with Max-Terminate = 2 *)
  | AFailed (S n), ATimeout => (AFailed n, [], 1%nat)      (* TO+: Terminate-Request again *)
  | AFailed O, ATimeout => (AClosed, [], O)                (* TO-: this-layer-finished, Closed *)
  | AStarted s, ASess ev => let (s', a) := sess_step fl s ev in (AStarted s', a, O)
  | AStarted s, ANcpReq false id wire => let (s', a) := sess_step fl s (EvReq id wire) in (AStarted s', a, O)
  | _, _ => (st, [], O)
  end.
Fixpoint arun (fl : flags) (st : aphase) (es : list aev) : aphase :=
  match es with [] => st | e :: rest => arun fl (fst (fst (astep fl st e))) rest end.
