(* C06/Properties.v — the property theorems only.  Each is closed by [exact] of a lemma from Proofs.v
   (or by vm_compute for witnesses) and followed by Print Assumptions.

   All theorems quantify over every option list: any option types, any data lengths (bytes are N, so
   0..253 is included), duplicates, any order; and over every configuration and previous peer state.
   Variant [repaired] is what /repo HEAD (1d4c0cb) implements for pkg/ppp, internal/pppoe and internal/l2tp,
   no finding is open.  [defective], [lns_found], [def_restore], [def_rguard] are the behaviours before the fixes
   54fb851 / 95b0af2 / bc32486 / ce9ad2f / 8205ad2 / 7efc399 and only occur in historical _refuted witnesses.
   Since e9950ea a PPPoE session whose LCP leaves Opened after startNCP is torn down (owner [Ended]): on PPPoE a
   re-authentication of a started session no longer exists; on the LNS owner it does, and since c99b5bd its
   onLCPDown takes the NCPs down first (the NCP negotiation restarts from Starting).  The IPCP,
   IPv6CP, magic-number, wire-format and reply theorems do not depend on the variant at all. *)
From OV Require Import Common.Base C06.Model C06.Proofs.

(* ---- IPCP ---------------------------------------------------------------------------------- *)

(* With a usable assigned address v: every acknowledged option was requested; every acknowledged
   IP-Address option carries exactly v; every IP-Address option in a Nak carries v; and any other 4-byte
   proposal (0.0.0.0 included, see the corollary below) puts (3, v) into the Nak list, is itself not
   acknowledged, and makes the request "not good", so the reply is not a Configure-Ack. *)
Theorem C06_ipcp_ack_only_assigned :
  forall c p opts r p' v,
  usable (ic_assigned c) = true -> to4o (ic_assigned c) = Some v ->
  ipcp_req c p opts = (r, p') ->
  (forall o, In o (r_ack r) -> In o opts) /\
  (forall o, In o (r_ack r) -> o_type o = 3%N -> o_data o = v) /\
  (forall o, In o (r_nak r) -> o_type o = 3%N -> o_data o = v) /\
  (forall o, In o opts -> o_type o = 3%N -> length (o_data o) = 4%nat -> o_data o <> v ->
     In (mkopt 3 v) (r_nak r) /\ is_good r = false /\ ~ In o (r_ack r)).
Proof. exact ipcp_ack_only_assigned. Qed.
Print Assumptions C06_ipcp_ack_only_assigned.

(* 0.0.0.0 is never acknowledged as the subscriber's address, whatever is or is not assigned *)
Theorem C06_ipcp_zero_never_acked :
  forall c p opts r p' o,
  ipcp_req c p opts = (r, p') -> In o (r_ack r) -> o_type o = 3%N -> all_zero (o_data o) = false.
Proof. exact ipcp_zero_never_acked. Qed.
Print Assumptions C06_ipcp_zero_never_acked.

(* Options that are not implemented (type other than 3, 129, 131) and implemented ones with a data
   length other than 4 are rejected, never acknowledged, and the reply is not a Configure-Ack;
   conversely everything acknowledged is an implemented type with 4 data bytes taken from the request. *)
Theorem C06_unknown_rejected :
  forall c p opts r p',
  ipcp_req c p opts = (r, p') ->
  (forall o, In o opts ->
     (o_type o <> 3%N /\ o_type o <> 129%N /\ o_type o <> 131%N) \/ length (o_data o) <> 4%nat ->
     In o (r_rej r) /\ ~ In o (r_ack r) /\ is_good r = false) /\
  (forall o, In o (r_ack r) ->
     In o opts /\ length (o_data o) = 4%nat /\ (o_type o = 3%N \/ o_type o = 129%N \/ o_type o = 131%N)) /\
  (forall o, In o (r_rej r) -> In o opts).
Proof. exact ipcp_unknown_rejected. Qed.
Print Assumptions C06_unknown_rejected.

(* Structural lemma (not a property clause by itself; [ipcp_kind] mirrors the branch structure of the
   handler): the three result lists are an order-preserving partition of the request by a per-option
   classification that does not depend on the previous peer state.  The clauses above and the packet-level
   theorems below are what is derived from it. *)
Theorem C06_ipcp_partition :
  forall c p opts,
  r_ack (fst (ipcp_req c p opts)) = filter (fun o => is_kack (ipcp_kind c o)) opts /\
  r_nak (fst (ipcp_req c p opts)) = flat_map (fun o => knak (ipcp_kind c o)) opts /\
  r_rej (fst (ipcp_req c p opts)) = filter (fun o => is_krej (ipcp_kind c o)) opts.
Proof. exact ipcp_partition. Qed.
Print Assumptions C06_ipcp_partition.

(* DNS options (t = 129 with the configured primary, t = 131 with the configured secondary server), every
   configuration: a 4-byte proposal of 0.0.0.0 is answered with a Nak carrying the configured server when one
   is configured; every Nak'd DNS option carries exactly the configured server; any other 4-byte proposal is
   acknowledged unchanged (the BNG does not police the subscriber's own DNS choice). *)
Theorem C06_ipcp_dns :
  forall c p os r p' t loc,
  ipcp_req c p os = (r, p') ->
  (t = 129%N /\ loc = ic_dns1 c) \/ (t = 131%N /\ loc = ic_dns2 c) ->
  (forall o, In o (r_ack r) -> o_type o = t ->
     In o os /\ length (o_data o) = 4%nat /\ (all_zero (o_data o) = true -> dns_usable loc = false)) /\
  (forall n, In n (r_nak r) -> o_type n = t -> n = ip_option t loc /\ dns_usable loc = true) /\
  (forall o, In o os -> o_type o = t -> length (o_data o) = 4%nat -> all_zero (o_data o) = true ->
     dns_usable loc = true -> In (ip_option t loc) (r_nak r) /\ ~ In o (r_ack r)).
Proof. exact ipcp_dns_policy. Qed.
Print Assumptions C06_ipcp_dns.

(* On the wire, in every FSM state and for every byte string received as a Configure-Request: a
   Configure-Ack is emitted only if the option area parses, it echoes exactly the parsed request with the
   request's identifier, every IP-Address option in it carries the assigned address, and every option in it
   is an implemented one with 4 data bytes. *)
Theorem C06_ipcp_wire_ack :
  forall c st p id wire acts st' p' id' os v,
  usable (ic_assigned c) = true -> to4o (ic_assigned c) = Some v ->
  ipcp_input c st p id wire = (acts, st', p') -> In (Sca id' os) acts ->
  parse_wire wire = Ok os /\ id' = id /\
  (forall o, In o os -> o_type o = 3%N -> o_data o = v) /\
  (forall o, In o os -> length (o_data o) = 4%nat /\ (o_type o = 3%N \/ o_type o = 129%N \/ o_type o = 131%N)).
Proof. exact ipcp_wire_ack. Qed.
Print Assumptions C06_ipcp_wire_ack.

(* ---- which packet answers a Configure-Request (all three protocols) --------------------------- *)

(* Configure-Reject if anything is rejected, else Configure-Nak if anything is Nak'd, else Configure-Ack *)
Theorem C06_reply_priority :
  forall id r,
  (r_rej r <> [] -> reply id r = Scj id (r_rej r)) /\
  (r_rej r = [] -> r_nak r <> [] -> reply id r = Scn id (r_nak r)) /\
  (r_rej r = [] -> r_nak r = [] -> reply id r = Sca id (r_ack r)).
Proof. exact reply_priority. Qed.
Print Assumptions C06_reply_priority.

(* FSM.Input(ConfReq, id, bytes) on an IPCP / LCP / IPv6CP instance, every state, every byte string: if the
   bytes do not parse nothing at all happens; otherwise exactly one Configure-Ack/Nak/Reject is emitted in
   the states Stopped, Req-Sent, Ack-Rcvd, Ack-Sent, Opened — namely [reply] of the handler's verdict — and
   none in the other states. *)
Theorem C06_ipcp_wire_packet :
  forall c st p id wire acts st' p',
  ipcp_input c st p id wire = (acts, st', p') ->
  match parse_wire wire with
  | Ok os => conf_packets acts = if replies st then [reply id (fst (ipcp_req c p os))] else []
  | _ => acts = []
  end.
Proof. exact ipcp_wire_packet. Qed.
Print Assumptions C06_ipcp_wire_packet.

Theorem C06_lcp_wire_packet :
  forall fl magic st p id wire acts st' p',
  lcp_input fl magic st p id wire = (acts, st', p') ->
  match parse_wire wire with
  | Ok os => conf_packets acts = if replies st then [reply id (fst (lcp_req fl magic p os))] else []
  | _ => acts = []
  end.
Proof. exact lcp_wire_packet. Qed.
Print Assumptions C06_lcp_wire_packet.

Theorem C06_ipv6cp_wire_packet :
  forall local st p oracle id wire acts st' p',
  ipv6cp_input local st p oracle id wire = (acts, st', p') ->
  match parse_wire wire with
  | Ok os => conf_packets acts =
             if replies st then [reply id (v6_res (ipv6cp_req local p oracle os))] else []
  | _ => acts = []
  end.
Proof. exact ipv6cp_wire_packet. Qed.
Print Assumptions C06_ipv6cp_wire_packet.

(* IPCP, usable assigned address v, replying state.
   Reject side: if the request contains an option that is not an implemented type with 4 data bytes, the
   packet is a Configure-Reject listing exactly those options, in order. *)
Theorem C06_ipcp_wire_rej :
  forall c st p id wire acts st' p' os,
  usable (ic_assigned c) = true ->
  ipcp_input c st p id wire = (acts, st', p') -> parse_wire wire = Ok os -> replies st = true ->
  (exists o, In o os /\ ipcp_rejectable o = true) ->
  conf_packets acts = [Scj id (filter ipcp_rejectable os)].
Proof. exact ipcp_wire_rej. Qed.
Print Assumptions C06_ipcp_wire_rej.

(* Nak side: if nothing has to be rejected and some IP-Address option differs from v, the packet is a
   Configure-Nak that contains (3, v) and whose IP-Address options all carry v. *)
Theorem C06_ipcp_wire_nak :
  forall c st p id wire acts st' p' os v,
  usable (ic_assigned c) = true -> to4o (ic_assigned c) = Some v ->
  ipcp_input c st p id wire = (acts, st', p') -> parse_wire wire = Ok os -> replies st = true ->
  (forall o, In o os -> ipcp_rejectable o = false) ->
  (exists o, In o os /\ o_type o = 3%N /\ o_data o <> v) ->
  exists nk, conf_packets acts = [Scn id nk] /\ In (mkopt 3 v) nk /\
             (forall n, In n nk -> o_type n = 3%N -> o_data n = v).
Proof. exact ipcp_wire_nak. Qed.
Print Assumptions C06_ipcp_wire_nak.

(* In no state and for no byte string is a request containing a wrong address proposal (any length)
   answered with a Configure-Ack. *)
Theorem C06_ipcp_wire_wrong_not_acked :
  forall c st p id wire acts st' p' os v,
  usable (ic_assigned c) = true -> to4o (ic_assigned c) = Some v ->
  ipcp_input c st p id wire = (acts, st', p') -> parse_wire wire = Ok os ->
  (exists o, In o os /\ o_type o = 3%N /\ o_data o <> v) ->
  forall id' os', ~ In (Sca id' os') acts.
Proof. exact ipcp_wire_wrong_not_acked. Qed.
Print Assumptions C06_ipcp_wire_wrong_not_acked.

(* The two-step case.  A request with a wrong 4-byte address proposal AND an option that must be rejected
   is answered with the Configure-Reject (RFC 1661 5.4: Reject takes precedence; the Reject does not mention
   the address).  The next request, the same list without the rejected options — which is what RFC 1661
   obliges the peer to send — is answered, in any replying state and whatever happened in between to the
   peer state, with the Configure-Nak carrying (3, v).
   Relation to the property text "answers any other proposal with a Nak carrying the assigned address": read
   literally (the FIRST answer is that Nak) it does not hold for such mixed requests, on HEAD or in any
   RFC-conformant implementation; what holds is: the proposal is never acknowledged
   (C06_ipcp_wire_wrong_not_acked) and the Nak with the assigned address is the answer as soon as the request
   contains nothing to reject.  We read the property in that sense and do not record a finding. *)
Theorem C06_ipcp_two_step :
  forall c v os,
  usable (ic_assigned c) = true -> to4o (ic_assigned c) = Some v ->
  (exists o, In o os /\ o_type o = 3%N /\ length (o_data o) = 4%nat /\ o_data o <> v) ->
  (exists o, In o os /\ ipcp_rejectable o = true) ->
  forall st1 p1 id1 w1 acts1 st1' p1' st2 p2 id2 w2 acts2 st2' p2',
  parse_wire w1 = Ok os -> replies st1 = true -> ipcp_input c st1 p1 id1 w1 = (acts1, st1', p1') ->
  parse_wire w2 = Ok (filter (fun o => negb (ipcp_rejectable o)) os) -> replies st2 = true ->
  ipcp_input c st2 p2 id2 w2 = (acts2, st2', p2') ->
  conf_packets acts1 = [Scj id1 (filter ipcp_rejectable os)] /\
  exists nk, conf_packets acts2 = [Scn id2 nk] /\ In (mkopt 3 v) nk /\
             (forall n, In n nk -> o_type n = 3%N -> o_data n = v).
Proof. exact ipcp_two_step. Qed.
Print Assumptions C06_ipcp_two_step.

(* LCP (HEAD): a Configure-Ack echoes the parsed request with its identifier; every option in it is MRU,
   Authentication-Protocol or Magic-Number; no Magic-Number in it equals a non-zero local magic; every
   Authentication-Protocol in it is PAP or exactly CHAP+MD5. *)
Theorem C06_lcp_wire_ack :
  forall magic st p id wire acts st' p' id' os,
  lcp_input repaired magic st p id wire = (acts, st', p') -> In (Sca id' os) acts ->
  parse_wire wire = Ok os /\ id' = id /\
  (forall o, In o os -> o_type o = 1%N \/ o_type o = 3%N \/ o_type o = 5%N) /\
  (magic <> 0%N -> forall o, In o os -> o_type o = 5%N -> num32 (o_data o) <> magic) /\
  (forall o, In o os -> o_type o = 3%N ->
     num16 (o_data o) = proto_pap \/
     (num16 (o_data o) = proto_chap /\ exists a b, o_data o = [a; b; chap_md5])).
Proof. exact lcp_wire_ack. Qed.
Print Assumptions C06_lcp_wire_ack.

(* own magic looped back (any variant): never a Configure-Ack; a Configure-Nak carrying it when nothing has
   to be rejected, else the Configure-Reject of those options *)
Theorem C06_lcp_wire_loopback :
  forall fl magic st p id wire acts st' p' os o,
  magic <> 0%N ->
  lcp_input fl magic st p id wire = (acts, st', p') -> parse_wire wire = Ok os -> replies st = true ->
  In o os -> o_type o = 5%N -> length (o_data o) = 4%nat -> num32 (o_data o) = magic ->
  (forall id' os', ~ In (Sca id' os') acts) /\
  (r_rej (fst (lcp_req fl magic p os)) = [] ->
   exists nk, conf_packets acts = [Scn id nk] /\ In o nk) /\
  (r_rej (fst (lcp_req fl magic p os)) <> [] ->
   conf_packets acts = [Scj id (r_rej (fst (lcp_req fl magic p os)))]).
Proof. exact lcp_wire_loopback. Qed.
Print Assumptions C06_lcp_wire_loopback.

(* IPv6CP: a Configure-Ack echoes the parsed request and every option in it is an 8-byte Interface-Identifier
   that is neither zero nor the local one; a request with any other option never gets a Configure-Ack. *)
Theorem C06_ipv6cp_wire_ack :
  forall local st p oracle id wire acts st' p' id' os,
  ipv6cp_input local st p oracle id wire = (acts, st', p') -> In (Sca id' os) acts ->
  parse_wire wire = Ok os /\ id' = id /\
  forall o, In o os ->
    In o os /\ o_type o = 1%N /\ length (o_data o) = 8%nat /\ all_zero (o_data o) = false /\ o_data o <> local.
Proof. exact ipv6cp_wire_ack. Qed.
Print Assumptions C06_ipv6cp_wire_ack.

Theorem C06_ipv6cp_wire_bad :
  forall local st p oracle id wire acts st' p' os o,
  ipv6cp_input local st p oracle id wire = (acts, st', p') -> parse_wire wire = Ok os ->
  In o os ->
  (o_type o <> 1%N \/ length (o_data o) <> 8%nat \/ all_zero (o_data o) = true \/ o_data o = local) ->
  forall id' os', ~ In (Sca id' os') acts.
Proof. exact ipv6cp_wire_bad. Qed.
Print Assumptions C06_ipv6cp_wire_bad.

(* ---- the session adopts only the assigned address ------------------------------------------- *)

(* Event alphabet of a session history (sev): the subscriber's Configure-Request (any identifier, any bytes),
   its Configure-Ack / Nak / Reject for our own request carrying our last identifier (verbatim or with
   arbitrary bytes) or a stale identifier (dropped), its Terminate-Request, the restart time-out in
   Stopping (TO-), while negotiating (TO+, retransmission) and until Max-Configure is exhausted (EvExhaust), an LCP renegotiation (EvDown: onLCPDown; PPPoE sends Down to the NCPs and ends the session,
   e9950ea) and a re-authentication (PPPoE: the same as EvDown; LNS: new AAA answer, registry answers as oracle,
   startNCP again on the same session).
   Not in the alphabet: Code-Reject, Terminate-Ack, the other time-outs, Down/Close (automaton: C05).

   Repaired behaviour, both owners (PPPoE, LNS), every AAA answer (none, usable, 0.0.0.0, IPv6 literal, ...),
   every outcome of pool allocation / address reservation (oracle) at start and at every re-authentication,
   every history.  Either IPCP was never started — the session then has no IPv4 address and IPCP is not
   open — or: the assigned address is usable; the session address is nil or the assigned address (nil only
   after a reservation conflict on re-authentication, and then IPCP is not open: C06_open_session_has_assigned_address); and the remembered negotiated
   peer address is nil or the assigned one, never a stale one. *)
Theorem C06_adopted_is_assigned :
  forall ow aaa d orc f es,
  let s := sess_run repaired (sess_start_dns repaired ow aaa d orc f) es in
  (s_fsm s = 0%N /\ s_addr s = None /\ s_open s = false) \/
  (usable (ic_assigned (s_cfg s)) = true /\
   (s_addr s = None \/ to4o (s_addr s) = ic_assigned (s_cfg s)) /\
   (pp_addr (s_peer s) = None \/ pp_addr (s_peer s) = ic_assigned (s_cfg s))).
Proof. exact adopted_is_assigned. Qed.
Print Assumptions C06_adopted_is_assigned.

(* If no re-authentication runs into a reservation conflict (ReserveIP answers "held by another session"),
   the session address of a started session IS the assigned address after every event. *)
Theorem C06_adopted_is_assigned_no_conflict :
  forall ow aaa d orc f es,
  forallb no_conflict es = true ->
  let s := sess_run repaired (sess_start_dns repaired ow aaa d orc f) es in
  (s_fsm s = 0%N /\ s_addr s = None /\ s_open s = false) \/
  (usable (ic_assigned (s_cfg s)) = true /\ to4o (s_addr s) = ic_assigned (s_cfg s)).
Proof. exact adopted_is_assigned_no_conflict. Qed.
Print Assumptions C06_adopted_is_assigned_no_conflict.

(* Since e9950ea: a subscriber that renegotiates LCP on a started PPPoE session ends the session — IPCP goes
   Down, nothing is open, and whatever it sends afterwards (here a proposal of 6.6.6.6) is not answered. *)
Example C06_lcp_renegotiation_ends_session :
  let s1 := sess_run repaired (sess_start repaired PPPoE (Some (v4prefix ++ [10;0;0;5])%N) (mkorc None true))
              [EvReq 1 [3;6;10;0;0;5]%N; EvAck] in
  let s2 := sess_run repaired s1 [EvDown] in
  s_open s1 = true /\ s_owner s2 = Ended /\ s_open s2 = false /\ s_fsm s2 = 1%N /\
  sess_step repaired s2 (EvReq 2 [3;6;6;6;6;6]%N) = (s2, []) /\
  sess_step repaired s2 (EvReauth (Some (v4prefix ++ [10;0;0;9])%N) (mkorc None true)) = (s2, []).
Proof. vm_compute. repeat split. Qed.
Print Assumptions C06_lcp_renegotiation_ends_session.

(* The property on the TRACE.  For every start (fresh session of either owner with any AAA answer and
   registry outcome, or a session restored from a checkpoint with any address), every history and every next
   event: every Configure-Ack the session emits consists of implemented 4-byte options only and every
   IP-Address option in it carries the assignment in force, which is usable. *)
Theorem C06_session_acks_only_assigned :
  forall s0 es e id os,
  (exists ow aaa d orc f, s0 = sess_start_dns repaired ow aaa d orc f) \/
  (exists addr d1 d2 f, s0 = sess_restore_f repaired addr d1 d2 f) ->
  let s := sess_run repaired s0 es in
  In (Sca id os) (snd (sess_step repaired s e)) ->
  exists v, ic_assigned (s_cfg s) = Some v /\ usable (ic_assigned (s_cfg s)) = true /\
            (forall o, In o os -> o_type o = 3%N -> o_data o = v) /\
            (forall o, In o os -> length (o_data o) = 4%nat /\
                                  (o_type o = 3%N \/ o_type o = 129%N \/ o_type o = 131%N)).
Proof.
  intros s0 es e id os H0. apply session_acks_only_assigned.
  destruct H0 as [(ow & aaa & d & orc & f & ->)|(addr & d1 & d2 & f & ->)]; [apply sess_start_ok|apply sess_restore_ok].
Qed.
Print Assumptions C06_session_acks_only_assigned.

(* ... and whenever IPCP is open (ipcpOpen), in every reachable state: the FSM is Opened, the assignment is
   usable and the session address IS the assignment. *)
Theorem C06_open_session_has_assigned_address :
  forall s0 es,
  (exists ow aaa d orc f, s0 = sess_start_dns repaired ow aaa d orc f) \/
  (exists addr d1 d2 f, s0 = sess_restore_f repaired addr d1 d2 f) ->
  let s := sess_run repaired s0 es in
  s_open s = true ->
  usable (ic_assigned (s_cfg s)) = true /\ to4o (s_addr s) = ic_assigned (s_cfg s) /\ s_fsm s = 9%N.
Proof.
  intros s0 es H0 s. apply open_has_assigned.
  - apply sess_run_ok. destruct H0 as [(ow & aaa & d & orc & f & ->)|(addr & d1 & d2 & f & ->)];
      [apply sess_start_ok|apply sess_restore_ok].
  - destruct H0 as [(ow & aaa & d & orc & f & ->)|(addr & d1 & d2 & f & ->)]; apply sess_run_fsm_ok;
      first [apply sess_start_ok|apply sess_restore_ok|apply sess_start_fsm_ok|apply sess_restore_fsm_ok].
Qed.
Print Assumptions C06_open_session_has_assigned_address.

(* while IPCP has not been started the session is silent and stays closed whatever the subscriber sends
   (any variant, either owner) *)
Theorem C06_idle_silent :
  forall fl s e, is_reauth e = false ->
  s_fsm s = 0%N /\ s_addr s = None /\ s_open s = false ->
  (s_fsm (fst (sess_step fl s e)) = 0%N /\ s_addr (fst (sess_step fl s e)) = None /\
   s_open (fst (sess_step fl s e)) = false) /\ snd (sess_step fl s e) = [].
Proof. exact sess_step_idleE. Qed.
Print Assumptions C06_idle_silent.

(* In every variant no packet of the subscriber changes the assigned address: Ack/Nak contents only
   overwrite the BNG's own DNS (and local address) values.  Only a new AAA answer (EvReauth) does. *)
Theorem C06_assigned_immutable :
  forall fl es s, forallb (fun e => negb (is_reauth e)) es = true ->
  ic_assigned (s_cfg (sess_run fl s es)) = ic_assigned (s_cfg s).
Proof. exact sess_run_assigned. Qed.
Print Assumptions C06_assigned_immutable.

(* startNCP (repaired, either owner).  Let a be the session address after the registry step (no address:
   the pool allocation result; PPPoE with an address: that address unless its reservation conflicts).
   IPCP is started (Req-Sent, our Configure-Request out) exactly when a is usable, with exactly a assigned
   and a as the session address; otherwise IPCP is never started: FSM Initial, session address nil,
   nothing assigned (and by C06_idle_silent nothing is ever sent or adopted).  The "nothing to assign:
   acknowledge any non-zero proposal" branch of ProcessConfReq can therefore never produce a packet. *)
Theorem C06_startncp_assigned :
  forall ow aaa d orc f,
  let s := sess_start_dns repaired ow aaa d orc f in
  let a := addr_after_registry ow (extract_ip repaired aaa) orc in
  (usable a = true ->
     s_fsm s = 6%N /\ usable (ic_assigned (s_cfg s)) = true /\ ic_assigned (s_cfg s) = to4o a /\ s_addr s = a) /\
  (usable a = false ->
     s_fsm s = 0%N /\ s_addr s = None /\ s_open s = false /\ ic_assigned (s_cfg s) = None).
Proof. exact startncp_assigned. Qed.
Print Assumptions C06_startncp_assigned.

(* Historical, fixed in 95b0af2 (PPPoE) and ce9ad2f (LNS) (1): a Configure-Request without an IP-Address
   option is acknowledged, IPCP comes up and onIPCPUp overwrites the session address with the nil peer address. *)
Theorem C06_adopted_is_assigned_refuted :
  exists ow aaa orc es,
  let fl := mkflags false true false false false false false in
  let s := sess_run fl (sess_start fl ow aaa orc) es in
  s_open s = true /\ s_addr s = None /\ usable (ic_assigned (s_cfg s)) = true.
Proof.
  exists LNS, (Some (v4prefix ++ [10;0;0;5])%N), (mkorc None true), [EvReq 1 []; EvAck].
  vm_compute. repeat split.
Qed.
Print Assumptions C06_adopted_is_assigned_refuted.

(* Historical, fixed in 95b0af2 (1b): after a re-authentication that changes the assignment from A to B the remembered
   peer address A survives in the IPCP object; a request without an address option then brings IPCP up and
   the session adopts the stale A. *)
Theorem C06_adopted_stale_refuted :
  exists aaa es,
  let fl := mkflags false true false true false false false in
  let s := sess_run fl (sess_start fl LNS aaa (mkorc None true)) es in
  s_open s = true /\ s_addr s = Some [10;0;0;5]%N /\ ic_assigned (s_cfg s) = Some [10;0;0;9]%N.
Proof.
  exists (Some (v4prefix ++ [10;0;0;5])%N),
         [EvReq 1 [3;6;10;0;0;5]%N; EvAck; EvReauth (Some (v4prefix ++ [10;0;0;9])%N) (mkorc None true);
          EvReq 2 []; EvAck].
  vm_compute. repeat split.
Qed.
Print Assumptions C06_adopted_stale_refuted.

(* Historical, fixed in bc32486 / ce9ad2f (2): an unusable AAA address (0.0.0.0, IPv6 literal) was kept by
   extractIPFromAttributes; on a re-authentication (owner that keeps the session) it replaces the valid
   address A of the session, startNCP then finds nothing usable and IPv4 stays down although A is still
   assigned in the IPCP object. *)
Theorem C06_aaa_unusable_refuted :
  exists aaa es,
  let fl := mkflags false false true false false false false in
  let s := sess_run fl (sess_start fl LNS aaa (mkorc None true)) es in
  s_open s = false /\ s_addr s = None /\ ic_assigned (s_cfg s) = Some [10;0;0;5]%N.
Proof.
  exists (Some (v4prefix ++ [10;0;0;5])%N),
         [EvReq 1 [3;6;10;0;0;5]%N; EvAck; EvReauth (Some (v4prefix ++ [0;0;0;0])%N) (mkorc None true)].
  vm_compute. repeat split.
Qed.
Print Assumptions C06_aaa_unusable_refuted.

(* Historical, the LNS owner before ce9ad2f (internal/l2tp/lns_lifecycle.go): with no address to assign (no pool, no
   AAA address) IPCP is started anyway and runs "unassigned": the subscriber's proposal 6.6.6.6 is
   acknowledged and adopted; and with AAA 0.0.0.0 likewise. *)
Theorem C06_lns_unassigned_refuted :
  exists aaa orc es,
  let s := sess_run lns_found (sess_start lns_found LNS aaa orc) es in
  usable (ic_assigned (s_cfg s)) = false /\ s_open s = true /\ s_addr s = Some [6;6;6;6]%N.
Proof.
  exists None, (mkorc None true), [EvReq 1 [3;6;6;6;6;6]%N; EvAck]. vm_compute. repeat split.
Qed.
Print Assumptions C06_lns_unassigned_refuted.

(* A session restored from a checkpoint (installInMemoryState, repaired guard): for EVERY checkpointed
   address — usable or not — and every history after the restore (renegotiation by the subscriber,
   re-authentication, ...) the conclusion of C06_adopted_is_assigned holds: an unusable address does not
   restore IPCP at all; a usable one is the assignment and IPCP is Opened. *)
Theorem C06_restored_adopts_only_assigned :
  forall addr d1 d2 f es,
  let s := sess_run repaired (sess_restore_f repaired addr d1 d2 f) es in
  (s_fsm s = 0%N /\ s_addr s = None /\ s_open s = false) \/
  (usable (ic_assigned (s_cfg s)) = true /\
   (s_addr s = None \/ to4o (s_addr s) = ic_assigned (s_cfg s)) /\
   (pp_addr (s_peer s) = None \/ pp_addr (s_peer s) = ic_assigned (s_cfg s))).
Proof. exact restored_adopts_only_assigned. Qed.
Print Assumptions C06_restored_adopts_only_assigned.

Theorem C06_restored_assigned :
  forall addr d1 d2 f, usable (Some addr) = true ->
  ic_assigned (s_cfg (sess_restore_f repaired addr d1 d2 f)) = to4 addr /\
  s_fsm (sess_restore_f repaired addr d1 d2 f) = 9%N.
Proof. exact restored_assigned. Qed.
Print Assumptions C06_restored_assigned.

(* Historical, fixed in 8205ad2: the restored IPCP object had nothing assigned; the subscriber renegotiates
   IPCP proposing 6.6.6.6, gets a Configure-Ack, and the session adopts 6.6.6.6. *)
Theorem C06_restored_adopts_only_assigned_refuted :
  exists addr es,
  let s := sess_run def_restore (sess_restore def_restore addr None None) es in
  usable (Some addr) = true /\ s_open s = true /\ s_addr s = Some [6;6;6;6]%N.
Proof. exists [10;0;0;5]%N, [EvReq 1 [3;6;6;6;6;6]%N; EvAck]. vm_compute. repeat split. Qed.
Print Assumptions C06_restored_adopts_only_assigned_refuted.

(* Historical, fixed in 7efc399: the guard in
   installInMemoryState was "IPv4Address != nil"; a checkpoint holding 0.0.0.0 (or a 16-byte non-IPv4 value)
   restored IPCP to Opened with nothing usable assigned, and the renegotiating subscriber got 6.6.6.6. *)
Theorem C06_restore_guard_refuted :
  exists addr es,
  let s := sess_run def_rguard (sess_restore def_rguard addr None None) es in
  usable (Some addr) = false /\ s_open s = true /\ s_addr s = Some [6;6;6;6]%N.
Proof. exists [0;0;0;0]%N, [EvReq 1 [3;6;6;6;6;6]%N; EvAck]. vm_compute. repeat split. Qed.
Print Assumptions C06_restore_guard_refuted.

(* ---- LCP ------------------------------------------------------------------------------------ *)

(* Both variants, every local magic number other than 0 (0 means "no magic number in use": the BNG then
   does not send the option, so nothing can be looped back): an acknowledged Magic-Number option never
   carries the local magic number, and a looped-back one is Nak'd, not acknowledged, reply is not an Ack. *)
Theorem C06_lcp_no_own_magic :
  forall fl magic p opts r p',
  lcp_req fl magic p opts = (r, p') -> magic <> 0%N ->
  (forall o, In o (r_ack r) -> o_type o = 5%N -> length (o_data o) = 4%nat /\ num32 (o_data o) <> magic) /\
  (forall o, In o opts -> o_type o = 5%N -> length (o_data o) = 4%nat -> num32 (o_data o) = magic ->
     In o (r_nak r) /\ ~ In o (r_ack r) /\ is_good r = false).
Proof. exact lcp_no_own_magic. Qed.
Print Assumptions C06_lcp_no_own_magic.

(* Observation (not covered by the theorem above, outside the property as stated): with local magic 0 a
   subscriber Magic-Number of 0 is acknowledged although RFC 1661 6.4 says zero must always be Nak'd. *)
Example C06_lcp_zero_magic_observation :
  r_ack (fst (lcp_req repaired 0 lpeer0 [mkopt 5 [0;0;0;0]%N])) = [mkopt 5 [0;0;0;0]%N].
Proof. vm_compute. reflexivity. Qed.
Print Assumptions C06_lcp_zero_magic_observation.

(* Repaired behaviour: an acknowledged Authentication-Protocol option is PAP or exactly CHAP with
   algorithm MD5 (the only ones pkg/ppp/auth.go implements); any other one of at least 2 bytes is answered
   with a Nak suggesting CHAP-MD5 and the reply is not an Ack. *)
Theorem C06_lcp_auth_supported_only :
  forall magic p opts r p',
  lcp_req repaired magic p opts = (r, p') ->
  (forall o, In o (r_ack r) -> o_type o = 3%N ->
     num16 (o_data o) = proto_pap \/
     (num16 (o_data o) = proto_chap /\ exists a b, o_data o = [a; b; chap_md5])) /\
  (forall o, In o opts -> o_type o = 3%N -> (2 <= length (o_data o))%nat ->
     num16 (o_data o) <> proto_pap ->
     ~ (num16 (o_data o) = proto_chap /\ exists a b, o_data o = [a; b; chap_md5]) ->
     In auth_chap_md5 (r_nak r) /\ ~ In o (r_ack r) /\ is_good r = false).
Proof. exact lcp_auth_supported_only. Qed.
Print Assumptions C06_lcp_auth_supported_only.

(* the part of it that holds in every variant: nothing but PAP (0xc023) or CHAP (0xc223) is acknowledged *)
Theorem C06_lcp_auth_pap_or_chap_partial :
  forall fl magic p opts r p',
  lcp_req fl magic p opts = (r, p') ->
  forall o, In o (r_ack r) -> o_type o = 3%N ->
    num16 (o_data o) = proto_pap \/ num16 (o_data o) = proto_chap.
Proof. exact lcp_auth_pap_or_chap. Qed.
Print Assumptions C06_lcp_auth_pap_or_chap_partial.

(* Historical, fixed in 54fb851 (3): CHAP with algorithm 0x81 (MS-CHAPv2, not implemented) is acknowledged
   and the reply is a Configure-Ack. *)
Theorem C06_lcp_auth_supported_only_refuted :
  exists magic opts,
  let r := fst (lcp_req defective magic lpeer0 opts) in
  In (mkopt 3 [194; 35; 129]%N) (r_ack r) /\ is_good r = true.
Proof. exists 1%N, [mkopt 3 [194; 35; 129]%N]. vm_compute. split; auto. Qed.
Print Assumptions C06_lcp_auth_supported_only_refuted.

Theorem C06_lcp_unknown_rejected :
  forall fl magic p opts r p',
  lcp_req fl magic p opts = (r, p') ->
  (forall o, In o opts ->
     (o_type o <> 1%N /\ o_type o <> 3%N /\ o_type o <> 5%N) \/
     (o_type o = 1%N /\ length (o_data o) <> 2%nat) \/
     (o_type o = 5%N /\ length (o_data o) <> 4%nat) \/
     (o_type o = 3%N /\ (length (o_data o) < 2)%nat) ->
     In o (r_rej r) /\ ~ In o (r_ack r) /\ is_good r = false) /\
  (forall o, In o (r_ack r) -> In o opts /\ (o_type o = 1%N \/ o_type o = 3%N \/ o_type o = 5%N)).
Proof. exact lcp_unknown_rejected. Qed.
Print Assumptions C06_lcp_unknown_rejected.

(* ---- IPv6CP --------------------------------------------------------------------------------- *)

(* For every local identifier, previous peer identifier, every oracle of random suggestions and every
   option list: an acknowledged option was requested, is an 8-byte Interface-Identifier, is not all-zero
   and is not the local identifier. *)
Theorem C06_ipv6cp_iid :
  forall local peer oracle opts o,
  In o (r_ack (v6_res (ipv6cp_req local peer oracle opts))) ->
  In o opts /\ o_type o = 1%N /\ length (o_data o) = 8%nat /\
  all_zero (o_data o) = false /\ o_data o <> local.
Proof. exact ipv6cp_iid. Qed.
Print Assumptions C06_ipv6cp_iid.

(* and a request containing a zero or own identifier, a wrong length or another option type is never
   answered with a Configure-Ack *)
Theorem C06_ipv6cp_bad_not_acked :
  forall local peer oracle opts o,
  In o opts ->
  (o_type o <> 1%N \/ length (o_data o) <> 8%nat \/ all_zero (o_data o) = true \/ o_data o = local) ->
  is_good (v6_res (ipv6cp_req local peer oracle opts)) = false.
Proof. exact ipv6cp_bad_not_good. Qed.
Print Assumptions C06_ipv6cp_bad_not_acked.

(* ---- histories on one protocol object ------------------------------------------------------- *)

(* For every history of ProcessConfReq / ProcessConfAck / ProcessConfNak / ProcessConfRej calls and
   SetPeerAddress / SetDNS / SetAddress changes on one IPCP object, from every initial state, in every
   variant: the answer to each request is the answer a fresh object with the configuration in force would
   give (nothing remembered matters), the assignment in force is the most recent SetPeerAddress before the
   request, and the policy of C06_ipcp_ack_only_assigned holds against it. *)
Theorem C06_ipcp_history :
  forall fl s ops c os r,
  In (c, os, r) (iobj_trace fl s ops) ->
  r = fst (ipcp_req c ipeer0 os) /\
  (exists pre post, ops = pre ++ IReq os :: post /\
                    ic_assigned c = last_set_peer pre (ic_assigned (io_cfg s))) /\
  (forall v, usable (ic_assigned c) = true -> to4o (ic_assigned c) = Some v ->
     (forall o, In o (r_ack r) -> In o os) /\
     (forall o, In o (r_ack r) -> o_type o = 3%N -> o_data o = v) /\
     (forall o, In o (r_nak r) -> o_type o = 3%N -> o_data o = v) /\
     (forall o, In o os -> o_type o = 3%N -> length (o_data o) = 4%nat -> o_data o <> v ->
        In (mkopt 3 v) (r_nak r) /\ is_good r = false /\ ~ In o (r_ack r))).
Proof. exact ipcp_history. Qed.
Print Assumptions C06_ipcp_history.

(* What an IPCP object created by NewIPCP remembers as the negotiated peer address (PeerConfig().Address,
   the value its owners adopt on IPCP up) is, after every history, an address it would acknowledge again under
   the configuration in force — in particular never an address accepted under a previous assignment
   (SetPeerAddress forgets it, /repo 95b0af2).  peer.Address is real state of the Go object (printed and
   compared as P= in every ipcp/hi case), not a ghost of the model. *)
Theorem C06_ipcp_remembered_is_acceptable :
  forall c ops x,
  pp_addr (io_peer (iobj_run repaired (mkiobj c ipeer0) ops)) = Some x ->
  ipcp_kind (io_cfg (iobj_run repaired (mkiobj c ipeer0) ops)) (mkopt 3 x) = KAck.
Proof. exact iobj_fresh_remembered. Qed.
Print Assumptions C06_ipcp_remembered_is_acceptable.

(* Same for one LCP object (requests interleaved with Ack/Nak/Reject of our own options — which may change
   the local magic number and fill rejected[...] — and SetMagic/SetMRU/SetAuthProto): each request is
   answered as by a fresh object with the local magic number m in force, and for m <> 0 that number is never
   acknowledged, whatever has been rejected or learned before. *)
Theorem C06_lcp_history :
  forall fl s ops m os r,
  In (m, os, r) (lobj_trace fl s ops) ->
  r = fst (lcp_req fl m lpeer0 os) /\
  (m <> 0%N ->
   (forall o, In o (r_ack r) -> o_type o = 5%N -> length (o_data o) = 4%nat /\ num32 (o_data o) <> m) /\
   (forall o, In o os -> o_type o = 5%N -> length (o_data o) = 4%nat -> num32 (o_data o) = m ->
      In o (r_nak r) /\ ~ In o (r_ack r) /\ is_good r = false)).
Proof. exact lcp_history. Qed.
Print Assumptions C06_lcp_history.

Theorem C06_lcp_history_auth :
  forall s ops m os r,
  In (m, os, r) (lobj_trace repaired s ops) ->
  forall o, In o (r_ack r) -> o_type o = 3%N ->
     num16 (o_data o) = proto_pap \/
     (num16 (o_data o) = proto_chap /\ exists a b, o_data o = [a; b; chap_md5]).
Proof. exact lcp_history_auth. Qed.
Print Assumptions C06_lcp_history_auth.

(* and for one IPv6CP object, l being the local identifier in force (set, or learned from an Ack/Nak) *)
Theorem C06_ipv6cp_history :
  forall s ops l os r,
  In (l, os, r) (v6obj_trace s ops) ->
  forall o, In o (r_ack r) ->
  In o os /\ o_type o = 1%N /\ length (o_data o) = 8%nat /\ all_zero (o_data o) = false /\ o_data o <> l.
Proof. exact ipv6cp_history. Qed.
Print Assumptions C06_ipv6cp_history.

Example C06_history_nonvacuous :
  (* negotiated with A, assignment changes to B, subscriber re-requests A: Nak(B); magic rejected by the
     subscriber and then looped back: Nak *)
  map (fun t => snd t) (iobj_trace repaired (mkiobj (mk_ipcp_cfg (Some [10;0;0;5]%N) None) ipeer0)
     [IReq [mkopt 3 [10;0;0;5]%N]; ISetPeer (Some [10;0;0;9]%N); IReq [mkopt 3 [10;0;0;5]%N]])
  = [mkres [mkopt 3 [10;0;0;5]%N] [] []; mkres [] [mkopt 3 [10;0;0;9]%N] []] /\
  map (fun t => snd t) (lobj_trace repaired (lobj0 7)
     [LRej [mkopt 5 [0;0;0;7]%N]; LReq [mkopt 5 [0;0;0;7]%N]])
  = [mkres [] [mkopt 5 [0;0;0;7]%N] []].
Proof. vm_compute. split; reflexivity. Qed.
Print Assumptions C06_history_nonvacuous.

(* ---- IPv6CP in a session: "its own identifier" is the one it has put on the wire ------------- *)

(* startNCP installs the MAC-derived identifier and only then opens IPv6CP; onLCPDown sends Down to
   IPv6CP, so a re-authentication (V6Start again) re-announces.  For every random default identifier r, every
   installed identifier m and EVERY history of subscriber Configure-Requests (arbitrary bytes, or echoing
   exactly what our last Configure-Request carried), verbatim Acks, Naks and Rejects with arbitrary contents,
   LCP renegotiations and re-authentications: whenever a Configure-Ack is emitted, the identifier announced
   in our outstanding Configure-Request is the one ProcessConfReq compared with, and the Configure-Ack carries
   no identifier that our last Configure-Request announced. *)
Theorem C06_ipv6cp_wire_identity :
  forall r m es s,
  s = v6sess_run (fst (v6sess_step (v6sess0 r) (V6Start m))) es ->
  forall e acts id' os, snd (v6sess_step s e) = acts -> In (Sca id' os) acts ->
    vs_last s = v6_build (vs_obj s) /\
    forall o x, In o os -> In x (vs_last s) -> o_data o <> o_data x.
Proof. exact v6_wire_identity. Qed.
Print Assumptions C06_ipv6cp_wire_identity.

Example C06_ipv6cp_session_nonvacuous :
  let m := iid_from_mac [82;84;0;17;34;51]%N in
  let s1 := fst (v6sess_step (v6sess0 [9;9;9;9;9;9;9;9]%N) (V6Start m)) in
  vs_last s1 = [mkopt 1 [80;84;0;255;254;17;34;51]%N] /\
  snd (v6sess_step s1 (V6Echo 5 [[2;0;0;0;0;0;0;7]%N])) = [Scn 5 [mkopt 1 [2;0;0;0;0;0;0;7]%N]] /\
  snd (v6sess_step s1 (V6Req 6 [1;10;2;0;0;0;0;0;0;1]%N [])) = [Sca 6 [mkopt 1 [2;0;0;0;0;0;0;1]%N]].
Proof. vm_compute. repeat split. Qed.
Print Assumptions C06_ipv6cp_session_nonvacuous.

(* ---- choices the property leaves to the implementation ------------------------------------- *)

(* With nothing usable assigned the property does not oblige IPCP to acknowledge anything: the model carries
   the implementation's choice [ic_refuse] (which non-zero proposals it turns down in that mode; /repo HEAD:
   none).  Every IPCP theorem above is stated for an arbitrary configuration c and hence for every such choice;
   the session theorems quantify over it explicitly (argument f).  With a usable assignment the choice is
   never consulted: *)
Theorem C06_ipcp_refuse_irrelevant :
  forall c f p os, usable (ic_assigned c) = true -> ipcp_req (with_refuse c f) p os = ipcp_req c p os.
Proof. exact ipcp_refuse_irrelevant. Qed.
Print Assumptions C06_ipcp_refuse_irrelevant.

(* WHEN ProcessConfReq writes the subscriber's proposals into peer.* is also the implementation's choice
   ([ic_stage]: option by option as /repo HEAD does, or only from a request acceptable as a whole).  The verdict
   never depends on it; the recorded state is the previous one or the option-by-option one; for a request
   answered with a Configure-Ack both choices coincide.  All theorems about ipcp_input, object histories and
   sessions are stated for an arbitrary configuration / choice argument and so hold for both. *)
Theorem C06_ipcp_staging_free :
  forall c p os,
  fst (ipcp_req_c c p os) = fst (ipcp_req c p os) /\
  (snd (ipcp_req_c c p os) = p \/ snd (ipcp_req_c c p os) = snd (ipcp_req c p os)) /\
  (is_good (fst (ipcp_req c p os)) = true -> ipcp_req_c c p os = ipcp_req c p os).
Proof.
  intros c p os. split; [apply ipcp_req_c_verdict|]. split; [apply ipcp_req_c_peer|apply ipcp_req_c_good].
Qed.
Print Assumptions C06_ipcp_staging_free.

(* The property says when LCP must not ACKNOWLEDGE; which values a Configure-Nak suggests (the magic number
   for a looped-back one, the MRU for a too small one, the authentication protocol) is left open.  For EVERY
   result that differs from the model's only in the data of the Nak'd options (same option types, same
   positions: [res_sim]) the packet sent is of the same kind, and the magic / authentication clauses hold. *)
Theorem C06_nak_values_free :
  forall id r r', res_sim r r' ->
  is_good r' = is_good r /\
  ((exists os, reply id r = Sca id os /\ reply id r' = Sca id os) \/
   (exists os, reply id r = Scj id os /\ reply id r' = Scj id os) \/
   (exists nk nk', reply id r = Scn id nk /\ reply id r' = Scn id nk' /\ nak_sim nk nk')).
Proof. exact res_sim_reply. Qed.
Print Assumptions C06_nak_values_free.

Theorem C06_lcp_nak_choice_free :
  forall fl magic p opts r',
  res_sim (fst (lcp_req fl magic p opts)) r' -> magic <> 0%N ->
  (forall o, In o (r_ack r') -> o_type o = 5%N -> length (o_data o) = 4%nat /\ num32 (o_data o) <> magic) /\
  (forall o, In o opts -> o_type o = 5%N -> length (o_data o) = 4%nat -> num32 (o_data o) = magic ->
     (exists n, In n (r_nak r') /\ o_type n = 5%N) /\ ~ In o (r_ack r') /\ is_good r' = false).
Proof. exact lcp_nak_choice_free. Qed.
Print Assumptions C06_lcp_nak_choice_free.

Theorem C06_lcp_nak_choice_free_auth :
  forall magic p opts r',
  res_sim (fst (lcp_req repaired magic p opts)) r' ->
  forall o, In o (r_ack r') -> o_type o = 3%N ->
     num16 (o_data o) = proto_pap \/
     (num16 (o_data o) = proto_chap /\ exists a b, o_data o = [a; b; chap_md5]).
Proof. exact lcp_nak_choice_free_auth. Qed.
Print Assumptions C06_lcp_nak_choice_free_auth.

(* /repo HEAD's policies are admissible instances: it refuses nothing, and its Nak values are the model's *)
Example C06_head_choices_admissible :
  (forall a, ic_refuse (mk_ipcp_cfg None None) a = false) /\ ic_stage (mk_ipcp_cfg None None) = false /\
  (forall fl magic p opts, res_sim (fst (lcp_req fl magic p opts)) (fst (lcp_req fl magic p opts))).
Proof. split; [reflexivity|]. split; [reflexivity|intros; apply res_sim_refl]. Qed.
Print Assumptions C06_head_choices_admissible.

(* ---- LCP in a session: "its own magic number" is the one it has put on the wire ------------- *)

(* initPPP + up() (fresh session, any random magic r) or installInMemoryState (restored session, checkpointed
   magic) and then EVERY history of subscriber Configure-Requests (arbitrary bytes, or echoing exactly the
   Magic-Number option of our last Configure-Request), verbatim Acks, Naks and Rejects with arbitrary bytes:
   no Configure-Ack ever carries a Magic-Number that our last Configure-Request announced. *)
Theorem C06_lcp_wire_identity :
  forall s0 es e acts id' os,
  (exists r, (r < 4294967296)%N /\ s0 = fst (lsess_step repaired (lsess0 r) SLStart)) \/
  (exists r saved, (r < 4294967296)%N /\ (saved < 4294967296)%N /\ s0 = lsess_restored r saved) ->
  (forall x, In x es -> lev_ok x) ->
  let s := lsess_run repaired s0 es in
  snd (lsess_step repaired s e) = acts -> In (Sca id' os) acts ->
  forall o x, In o os -> o_type o = 5%N -> In x (ls_last s) -> o_type x = 5%N -> o_data o <> o_data x.
Proof. exact l_wire_identity. Qed.
Print Assumptions C06_lcp_wire_identity.

(* a restored session has announced nothing yet; it compares with the checkpointed magic number, and a
   request looping that number back is never acknowledged *)
Theorem C06_lcp_restored_loopback :
  forall r saved id wire os acts o,
  saved <> 0%N ->
  snd (lsess_step repaired (lsess_restored r saved) (SLReq id wire)) = acts -> parse_wire wire = Ok os ->
  In o os -> o_type o = 5%N -> length (o_data o) = 4%nat -> num32 (o_data o) = saved ->
  forall id' os', ~ In (Sca id' os') acts.
Proof. exact l_restored_loopback. Qed.
Print Assumptions C06_lcp_restored_loopback.

Example C06_lcp_session_nonvacuous :
  let s1 := fst (lsess_step repaired (lsess0 3735928559) SLStart) in
  ls_last s1 = [mkopt 1 [5;212]; mkopt 5 [222;173;190;239]; mkopt 3 [194;35;5]]%N /\
  snd (lsess_step repaired s1 (SLEcho 7)) = [Scn 7 [mkopt 5 [222;173;190;239]%N]] /\
  snd (lsess_step repaired s1 (SLReq 8 [5;6;1;2;3;4]%N)) = [Sca 8 [mkopt 5 [1;2;3;4]%N]] /\
  snd (lsess_step repaired (lsess_restored 1 16909060) (SLReq 9 [5;6;1;2;3;4]%N))
    = [Tld; Scr; Scn 9 [mkopt 5 [1;2;3;4]%N]].
Proof. vm_compute. repeat split. Qed.
Print Assumptions C06_lcp_session_nonvacuous.

(* ---- authentication gates the NCPs ----------------------------------------------------------- *)

(* A PPPoE session from "LCP Opened, authentication pending": IPCP / IPv6CP Configure-Requests (dropped by the
   dispatcher's phase gate), the AAA verdict (reject: LCP is closed with retransmitted Terminate-Requests;
   accept: extractIPFromAttributes + startNCP with any AAA address, DNS, registry outcome and implementation
   choice), LCP time-outs, and then every event of the IPCP session model.  For every such history: a
   Configure-Ack for IPCP is emitted only if an accept has occurred, the session is started, and every
   IP-Address option in it is the usable assignment in force. *)
Theorem C06_no_ncp_ack_before_auth :
  forall es e id os,
  let st := arun repaired APre es in
  In (Sca id os) (snd (fst (astep repaired st e))) ->
  existsb is_aok es = true /\
  exists s, st = AStarted s /\
    exists v, ic_assigned (s_cfg s) = Some v /\ usable (ic_assigned (s_cfg s)) = true /\
              (forall o, In o os -> o_type o = 3%N -> o_data o = v).
Proof. exact no_ncp_ack_before_auth. Qed.
Print Assumptions C06_no_ncp_ack_before_auth.

(* before an accept (any variant): nothing at all is sent for IPCP, whatever arrives *)
Theorem C06_unauthenticated_silent :
  forall fl st e, a_started st = false -> snd (fst (astep fl st e)) = [] \/ is_aok e = true.
Proof. exact astep_not_started. Qed.
Print Assumptions C06_unauthenticated_silent.

Example C06_auth_gate_nonvacuous :
  let pre := [ANcpReq false 1 [3;6;6;6;6;6]%N; ANcpReq true 2 [1;10;2;0;0;0;0;0;0;1]%N] in
  snd (fst (astep repaired (arun repaired APre pre) (ANcpReq false 3 [3;6;10;0;0;5]%N))) = [] /\
  arun repaired APre (pre ++ [AFail; ATimeout; ATimeout; ATimeout]) = AClosed /\
  snd (astep repaired (arun repaired APre [AFail]) ATimeout) = 1%nat /\
  snd (fst (astep repaired
     (arun repaired APre (pre ++ [AOk (Some (v4prefix ++ [10;0;0;5])%N) (None, None) (mkorc None true) head_choice]))
     (ANcpReq false 3 [3;6;10;0;0;5]%N))) = [Sca 3 [mkopt 3 [10;0;0;5]%N]].
Proof. vm_compute. repeat split. Qed.
Print Assumptions C06_auth_gate_nonvacuous.

(* ---- retransmissions ----------------------------------------------------------------------- *)

(* The restart timer expiring with restart counter > 0 (TO+: V6Timeout / SLTimeout / EvTimeout) is part of
   every session history the theorems above quantify over.  A retransmitted Configure-Request is rebuilt from
   the current configuration; it announces the same identity as the request it repeats: *)
Theorem C06_ipv6cp_retransmit_same :
  forall s, vs_last s = v6_build (vs_obj s) ->
  vs_obj (fst (v6sess_step s V6Timeout)) = vs_obj s /\
  vs_last (fst (v6sess_step s V6Timeout)) = vs_last s.
Proof. exact v6_retransmit_same. Qed.
Print Assumptions C06_ipv6cp_retransmit_same.

Theorem C06_lcp_retransmit_same_magic :
  forall s, l_inv s ->
  ls_obj (fst (lsess_step repaired s SLTimeout)) = ls_obj s /\
  forall x, In x (ls_last (fst (lsess_step repaired s SLTimeout))) -> o_type x = 5%N ->
    o_data x = put32b (lo_magic (ls_obj s)).
Proof. exact lcp_retransmit_same_magic. Qed.
Print Assumptions C06_lcp_retransmit_same_magic.

(* ---- wire format ---------------------------------------------------------------------------- *)

(* ParseOptions terminates within len(data) iterations and never indexes out of range *)
Theorem C06_parse_total :
  forall d, parse_wire d <> OutOfFuel /\ parse_wire d <> Panic.
Proof. intros d. apply parse_options_fuel. apply le_n. Qed.
Print Assumptions C06_parse_total.

(* what SerializeOptions emits for options of at most 253 data bytes parses back to the same list, so the
   lists the theorems above speak about are what the subscriber decodes *)
Theorem C06_serialize_parse :
  forall os, (forall o, In o os -> (length (o_data o) <= 253)%nat) ->
  parse_wire (serialize_options os) = Ok os.
Proof. intros os H. apply serialize_parse; auto. Qed.
Print Assumptions C06_serialize_parse.

(* ---- non-vacuity ---------------------------------------------------------------------------- *)
Definition ex_cfg : ipcp_cfg := mk_ipcp_cfg (Some [10;0;0;5]%N) (Some (Some [8;8;8;8]%N, Some [8;8;4;4]%N)).
Definition ex_req : list opt :=
  [mkopt 3 [10;0;0;5]; mkopt 3 [0;0;0;0]; mkopt 3 [10;0;0;6]; mkopt 129 [0;0;0;0]; mkopt 2 [0;45;15;1];
   mkopt 3 [10;0;0]; mkopt 131 [1;1;1;1]; mkopt 3 [10;0;0;5]]%N.
Example C06_ipcp_nonvacuous :
  usable (ic_assigned ex_cfg) = true /\ to4o (ic_assigned ex_cfg) = Some [10;0;0;5]%N /\
  let r := fst (ipcp_req ex_cfg ipeer0 ex_req) in
  r_ack r = [mkopt 3 [10;0;0;5]; mkopt 131 [1;1;1;1]; mkopt 3 [10;0;0;5]]%N /\
  r_nak r = [mkopt 3 [10;0;0;5]; mkopt 3 [10;0;0;5]; mkopt 129 [8;8;8;8]]%N /\
  r_rej r = [mkopt 2 [0;45;15;1]; mkopt 3 [10;0;0]]%N /\
  reply 9 r = Scj 9 (r_rej r) /\
  fst (fst (ipcp_input ex_cfg 7 ipeer0 9 [3;6;10;0;0;5]%N)) = [Sca 9 [mkopt 3 [10;0;0;5]%N]; Tlu].
Proof. vm_compute. repeat split. Qed.
Print Assumptions C06_ipcp_nonvacuous.

Example C06_session_nonvacuous :
  let s := sess_run repaired (sess_start repaired LNS (Some (v4prefix ++ [10;0;0;5])%N) (mkorc None true))
             [EvReq 1 [3;6;0;0;0;0]; EvReq 2 []; EvAck; EvNak [3;6;6;6;6;6;129;6;1;1;1;1]; EvRej [129;6;1;1;1;1];
              EvReq 3 [3;6;10;0;0;5]; EvAck; EvTermReq 9; EvStoppingTimeout; EvStale;
              EvReauth (Some (v4prefix ++ [10;0;0;9])) (mkorc None true); EvReq 4 [3;6;10;0;0;5];
              EvReq 5 [3;6;10;0;0;9]; EvAckW [3;6;6;6;6;6]]%N in
  s_open s = true /\ s_fsm s = 9%N /\ to4o (s_addr s) = Some [10;0;0;9]%N /\
  pp_addr (s_peer s) = Some [10;0;0;9]%N.
Proof. vm_compute. repeat split. Qed.
Print Assumptions C06_session_nonvacuous.

Example C06_lcp_nonvacuous :
  let r := fst (lcp_req repaired 3735928559 lpeer0
                  [mkopt 1 [5;212]; mkopt 5 [222;173;190;239]; mkopt 5 [1;2;3;4]; mkopt 3 [194;35;5];
                   mkopt 3 [194;35;129]; mkopt 3 [192;35]; mkopt 7 []]%N) in
  r_ack r = [mkopt 1 [5;212]; mkopt 5 [1;2;3;4]; mkopt 3 [194;35;5]; mkopt 3 [192;35]]%N /\
  r_nak r = [mkopt 5 [222;173;190;239]; auth_chap_md5]%N /\
  r_rej r = [mkopt 7 []]%N.
Proof. vm_compute. repeat split. Qed.
Print Assumptions C06_lcp_nonvacuous.

Example C06_ipv6cp_nonvacuous :
  let s := ipv6cp_req [2;0;0;0;0;0;0;1]%N [] [[9;9;9;9;9;9;9;9]%N]
             [mkopt 1 [2;0;0;0;0;0;0;2]; mkopt 1 [0;0;0;0;0;0;0;0]; mkopt 1 [2;0;0;0;0;0;0;1]; mkopt 1 [1;2]]%N in
  r_ack (v6_res s) = [mkopt 1 [2;0;0;0;0;0;0;2]]%N /\ length (r_nak (v6_res s)) = 2%nat /\
  r_rej (v6_res s) = [mkopt 1 [1;2]]%N.
Proof. vm_compute. repeat split. Qed.
Print Assumptions C06_ipv6cp_nonvacuous.
