(* C06/Properties.v — the property theorems only.  Each is closed by [exact] of a lemma from Proofs.v
   (or by vm_compute for witnesses) and followed by Print Assumptions.

   All theorems quantify over every option list: any option types, any data lengths (bytes are N, so
   0..253 is included), duplicates, any order; and over every configuration and previous peer state.
   Variant [repaired] is the behaviour with the three recorded defects fixed; the IPCP, IPv6CP, magic-number,
   wire-format and reply theorems do not depend on the variant at all. *)
From OV Require Import Common.Base C06.Model C06.Proofs.

(* ---- IPCP ---------------------------------------------------------------------------------- *)

(* With a usable assigned address v: every acknowledged option was requested; every acknowledged
   IP-Address option carries exactly v; every IP-Address option in a Nak carries v; and any other 4-byte
   proposal (0.0.0.0 included, see the corollary below) puts (3, v) into the Nak list, is itself not
   acknowledged, and makes the request "not good", so the reply is not a Configure-Ack. *)
Theorem C06_ipcp_ack_only_assigned :
  forall c p opts r p' v,
  usable (ic_assigned c) = true -> to4o (ic_assigned c) = Some v ->
  ipcp_req c p opts = (r, p') ->
  (forall o, In o (r_ack r) -> In o opts) /\
  (forall o, In o (r_ack r) -> o_type o = 3%N -> o_data o = v) /\
  (forall o, In o (r_nak r) -> o_type o = 3%N -> o_data o = v) /\
  (forall o, In o opts -> o_type o = 3%N -> length (o_data o) = 4%nat -> o_data o <> v ->
     In (mkopt 3 v) (r_nak r) /\ is_good r = false /\ ~ In o (r_ack r)).
Proof. exact ipcp_ack_only_assigned. Qed.
Print Assumptions C06_ipcp_ack_only_assigned.

(* 0.0.0.0 is never acknowledged as the subscriber's address, whatever is or is not assigned *)
Theorem C06_ipcp_zero_never_acked :
  forall c p opts r p' o,
  ipcp_req c p opts = (r, p') -> In o (r_ack r) -> o_type o = 3%N -> all_zero (o_data o) = false.
Proof. exact ipcp_zero_never_acked. Qed.
Print Assumptions C06_ipcp_zero_never_acked.

(* Options that are not implemented (type other than 3, 129, 131) and implemented ones with a data
   length other than 4 are rejected, never acknowledged, and the reply is not a Configure-Ack;
   conversely everything acknowledged is an implemented type with 4 data bytes taken from the request. *)
Theorem C06_unknown_rejected :
  forall c p opts r p',
  ipcp_req c p opts = (r, p') ->
  (forall o, In o opts ->
     (o_type o <> 3%N /\ o_type o <> 129%N /\ o_type o <> 131%N) \/ length (o_data o) <> 4%nat ->
     In o (r_rej r) /\ ~ In o (r_ack r) /\ is_good r = false) /\
  (forall o, In o (r_ack r) ->
     In o opts /\ length (o_data o) = 4%nat /\ (o_type o = 3%N \/ o_type o = 129%N \/ o_type o = 131%N)) /\
  (forall o, In o (r_rej r) -> In o opts).
Proof. exact ipcp_unknown_rejected. Qed.
Print Assumptions C06_unknown_rejected.

(* The three result lists are an order-preserving partition of the request by a per-option
   classification that does not depend on the previous peer state. *)
Theorem C06_ipcp_partition :
  forall c p opts,
  r_ack (fst (ipcp_req c p opts)) = filter (fun o => is_kack (ipcp_kind c o)) opts /\
  r_nak (fst (ipcp_req c p opts)) = flat_map (fun o => knak (ipcp_kind c o)) opts /\
  r_rej (fst (ipcp_req c p opts)) = filter (fun o => is_krej (ipcp_kind c o)) opts.
Proof. exact ipcp_partition. Qed.
Print Assumptions C06_ipcp_partition.

(* On the wire, in every FSM state and for every byte string received as a Configure-Request: a
   Configure-Ack is emitted only if the option area parses, it echoes exactly the parsed request with the
   request's identifier, every IP-Address option in it carries the assigned address, and every option in it
   is an implemented one with 4 data bytes. *)
Theorem C06_ipcp_wire_ack :
  forall c st p id wire acts st' p' id' os v,
  usable (ic_assigned c) = true -> to4o (ic_assigned c) = Some v ->
  ipcp_input c st p id wire = (acts, st', p') -> In (Sca id' os) acts ->
  parse_wire wire = Ok os /\ id' = id /\
  (forall o, In o os -> o_type o = 3%N -> o_data o = v) /\
  (forall o, In o os -> length (o_data o) = 4%nat /\ (o_type o = 3%N \/ o_type o = 129%N \/ o_type o = 131%N)).
Proof. exact ipcp_wire_ack. Qed.
Print Assumptions C06_ipcp_wire_ack.

(* ---- the session adopts only the assigned address ------------------------------------------- *)

(* Repaired behaviour (startNCP as of /repo 24c9504: no constant fall-back address).  Either IPCP was never
   started — the session then has no IPv4 address and IPCP is not open — or the following holds.
   For every AAA answer (none, usable, 0.0.0.0, an IPv6 literal, anything) and every
   history of subscriber Configure-Requests (arbitrary bytes), Configure-Acks, Configure-Naks and
   Configure-Rejects for our own request (arbitrary bytes) and re-authentications with a different AAA
   answer on the same session (startNCP run again): the assigned address is
   usable, the session's IPv4 address equals it after every event — in particular whenever IPCP comes up —
   and the remembered negotiated peer address is either nil or the assigned one (never a stale one). *)
Theorem C06_adopted_is_assigned :
  forall aaa es,
  let s := sess_run repaired (sess_start repaired aaa) es in
  (s_fsm s = 0%N /\ s_addr s = None /\ s_open s = false) \/
  (usable (ic_assigned (s_cfg s)) = true /\
   to4o (s_addr s) = ic_assigned (s_cfg s) /\
   (pp_addr (s_peer s) = None \/ pp_addr (s_peer s) = ic_assigned (s_cfg s))).
Proof. exact adopted_is_assigned. Qed.
Print Assumptions C06_adopted_is_assigned.

(* while IPCP has not been started the session is silent and stays closed whatever the subscriber sends
   (any variant) *)
Theorem C06_idle_silent :
  forall fl s e, is_reauth e = false ->
  s_fsm s = 0%N /\ s_addr s = None /\ s_open s = false ->
  (s_fsm (fst (sess_step fl s e)) = 0%N /\ s_addr (fst (sess_step fl s e)) = None /\
   s_open (fst (sess_step fl s e)) = false) /\ snd (sess_step fl s e) = [].
Proof. exact sess_step_idle. Qed.
Print Assumptions C06_idle_silent.

(* In every variant no packet of the subscriber changes the assigned address: Ack/Nak contents only
   overwrite the BNG's own DNS (and local address) values.  Only a new AAA answer (EvReauth) does. *)
Theorem C06_assigned_immutable :
  forall fl es s, forallb (fun e => negb (is_reauth e)) es = true ->
  ic_assigned (s_cfg (sess_run fl s es)) = ic_assigned (s_cfg s).
Proof. exact sess_run_assigned. Qed.
Print Assumptions C06_assigned_immutable.

(* startNCP starts IPCP (Req-Sent, our Configure-Request out) exactly when the session owns a usable IPv4
   address, with exactly that address assigned; a session without a usable address never starts IPCP: the
   FSM stays in Initial, the session address is nil, nothing is assigned (and by C06_idle_silent nothing is
   ever sent or adopted).  The "nothing to assign: acknowledge any non-zero proposal" branch of
   ProcessConfReq can therefore never produce a packet. *)
Theorem C06_startncp_assigned :
  forall aaa,
  let s := sess_start repaired aaa in
  (usable (extract_ip repaired aaa) = true ->
     s_fsm s = 6%N /\ usable (ic_assigned (s_cfg s)) = true /\
     ic_assigned (s_cfg s) = to4o (extract_ip repaired aaa) /\ s_addr s = extract_ip repaired aaa) /\
  (usable (extract_ip repaired aaa) = false ->
     s_fsm s = 0%N /\ s_addr s = None /\ s_open s = false /\ ic_assigned (s_cfg s) = None).
Proof. exact startncp_assigned. Qed.
Print Assumptions C06_startncp_assigned.

(* What the code does today (1): a Configure-Request without an IP-Address option is acknowledged, IPCP
   comes up and onIPCPUp overwrites the session address with the nil peer address. *)
Theorem C06_adopted_is_assigned_refuted :
  exists aaa es,
  let fl := mkflags false true false in
  let s := sess_run fl (sess_start fl aaa) es in
  s_open s = true /\ s_addr s = None /\ usable (ic_assigned (s_cfg s)) = true.
Proof. exists (Some (v4prefix ++ [10;0;0;5])%N), [EvReq 1 []; EvAck]. vm_compute. repeat split. Qed.
Print Assumptions C06_adopted_is_assigned_refuted.

(* What the code does today (1b): after a re-authentication that changes the assignment from A to B the
   remembered peer address A survives in the IPCP object; a request without an address option then brings
   IPCP up and the session adopts the stale A. *)
Theorem C06_adopted_stale_refuted :
  exists aaa es,
  let fl := mkflags false true false in
  let s := sess_run fl (sess_start fl aaa) es in
  s_open s = true /\ s_addr s = Some [10;0;0;5]%N /\ ic_assigned (s_cfg s) = Some [10;0;0;9]%N.
Proof.
  exists (Some (v4prefix ++ [10;0;0;5])%N),
         [EvReq 1 [3;6;10;0;0;5]%N; EvAck; EvReauth (Some (v4prefix ++ [10;0;0;9])%N); EvReq 2 []; EvAck].
  vm_compute. repeat split.
Qed.
Print Assumptions C06_adopted_stale_refuted.

(* Before fix bc32486 (2): an unusable AAA address (0.0.0.0, IPv6 literal) was kept by
   extractIPFromAttributes.  With startNCP as of 24c9504 this no longer starts IPCP unassigned, but on a
   re-authentication it still wipes the address of a session whose IPCP is open with A assigned. *)
Theorem C06_aaa_unusable_refuted :
  exists aaa es,
  let fl := mkflags false false true in
  let s := sess_run fl (sess_start fl aaa) es in
  s_open s = true /\ s_addr s = None /\ ic_assigned (s_cfg s) = Some [10;0;0;5]%N.
Proof.
  exists (Some (v4prefix ++ [10;0;0;5])%N),
         [EvReq 1 [3;6;10;0;0;5]%N; EvAck; EvReauth (Some (v4prefix ++ [0;0;0;0])%N)].
  vm_compute. repeat split.
Qed.
Print Assumptions C06_aaa_unusable_refuted.

(* ---- LCP ------------------------------------------------------------------------------------ *)

(* Both variants, every local magic number other than 0 (0 means "no magic number in use": the BNG then
   does not send the option, so nothing can be looped back): an acknowledged Magic-Number option never
   carries the local magic number, and a looped-back one is Nak'd, not acknowledged, reply is not an Ack. *)
Theorem C06_lcp_no_own_magic :
  forall fl magic p opts r p',
  lcp_req fl magic p opts = (r, p') -> magic <> 0%N ->
  (forall o, In o (r_ack r) -> o_type o = 5%N -> length (o_data o) = 4%nat /\ num32 (o_data o) <> magic) /\
  (forall o, In o opts -> o_type o = 5%N -> length (o_data o) = 4%nat -> num32 (o_data o) = magic ->
     In o (r_nak r) /\ ~ In o (r_ack r) /\ is_good r = false).
Proof. exact lcp_no_own_magic. Qed.
Print Assumptions C06_lcp_no_own_magic.

(* Observation (not covered by the theorem above, outside the property as stated): with local magic 0 a
   subscriber Magic-Number of 0 is acknowledged although RFC 1661 6.4 says zero must always be Nak'd. *)
Example C06_lcp_zero_magic_observation :
  r_ack (fst (lcp_req repaired 0 lpeer0 [mkopt 5 [0;0;0;0]%N])) = [mkopt 5 [0;0;0;0]%N].
Proof. vm_compute. reflexivity. Qed.
Print Assumptions C06_lcp_zero_magic_observation.

(* Repaired behaviour: an acknowledged Authentication-Protocol option is PAP or exactly CHAP with
   algorithm MD5 (the only ones pkg/ppp/auth.go implements); any other one of at least 2 bytes is answered
   with a Nak suggesting CHAP-MD5 and the reply is not an Ack. *)
Theorem C06_lcp_auth_supported_only :
  forall magic p opts r p',
  lcp_req repaired magic p opts = (r, p') ->
  (forall o, In o (r_ack r) -> o_type o = 3%N ->
     num16 (o_data o) = proto_pap \/
     (num16 (o_data o) = proto_chap /\ exists a b, o_data o = [a; b; chap_md5])) /\
  (forall o, In o opts -> o_type o = 3%N -> (2 <= length (o_data o))%nat ->
     num16 (o_data o) <> proto_pap ->
     ~ (num16 (o_data o) = proto_chap /\ exists a b, o_data o = [a; b; chap_md5]) ->
     In auth_chap_md5 (r_nak r) /\ ~ In o (r_ack r) /\ is_good r = false).
Proof. exact lcp_auth_supported_only. Qed.
Print Assumptions C06_lcp_auth_supported_only.

(* the part of it that already holds today: nothing but PAP (0xc023) or CHAP (0xc223) is acknowledged *)
Theorem C06_lcp_auth_pap_or_chap_partial :
  forall fl magic p opts r p',
  lcp_req fl magic p opts = (r, p') ->
  forall o, In o (r_ack r) -> o_type o = 3%N ->
    num16 (o_data o) = proto_pap \/ num16 (o_data o) = proto_chap.
Proof. exact lcp_auth_pap_or_chap. Qed.
Print Assumptions C06_lcp_auth_pap_or_chap_partial.

(* What the code does today (3): CHAP with algorithm 0x81 (MS-CHAPv2, not implemented) is acknowledged
   and the reply is a Configure-Ack. *)
Theorem C06_lcp_auth_supported_only_refuted :
  exists magic opts,
  let r := fst (lcp_req defective magic lpeer0 opts) in
  In (mkopt 3 [194; 35; 129]%N) (r_ack r) /\ is_good r = true.
Proof. exists 1%N, [mkopt 3 [194; 35; 129]%N]. vm_compute. split; auto. Qed.
Print Assumptions C06_lcp_auth_supported_only_refuted.

Theorem C06_lcp_unknown_rejected :
  forall fl magic p opts r p',
  lcp_req fl magic p opts = (r, p') ->
  (forall o, In o opts ->
     (o_type o <> 1%N /\ o_type o <> 3%N /\ o_type o <> 5%N) \/
     (o_type o = 1%N /\ length (o_data o) <> 2%nat) \/
     (o_type o = 5%N /\ length (o_data o) <> 4%nat) \/
     (o_type o = 3%N /\ (length (o_data o) < 2)%nat) ->
     In o (r_rej r) /\ ~ In o (r_ack r) /\ is_good r = false) /\
  (forall o, In o (r_ack r) -> In o opts /\ (o_type o = 1%N \/ o_type o = 3%N \/ o_type o = 5%N)).
Proof. exact lcp_unknown_rejected. Qed.
Print Assumptions C06_lcp_unknown_rejected.

(* ---- IPv6CP --------------------------------------------------------------------------------- *)

(* For every local identifier, previous peer identifier, every oracle of random suggestions and every
   option list: an acknowledged option was requested, is an 8-byte Interface-Identifier, is not all-zero
   and is not the local identifier. *)
Theorem C06_ipv6cp_iid :
  forall local peer oracle opts o,
  In o (r_ack (v6_res (ipv6cp_req local peer oracle opts))) ->
  In o opts /\ o_type o = 1%N /\ length (o_data o) = 8%nat /\
  all_zero (o_data o) = false /\ o_data o <> local.
Proof. exact ipv6cp_iid. Qed.
Print Assumptions C06_ipv6cp_iid.

(* and a request containing a zero or own identifier, a wrong length or another option type is never
   answered with a Configure-Ack *)
Theorem C06_ipv6cp_bad_not_acked :
  forall local peer oracle opts o,
  In o opts ->
  (o_type o <> 1%N \/ length (o_data o) <> 8%nat \/ all_zero (o_data o) = true \/ o_data o = local) ->
  is_good (v6_res (ipv6cp_req local peer oracle opts)) = false.
Proof. exact ipv6cp_bad_not_good. Qed.
Print Assumptions C06_ipv6cp_bad_not_acked.

(* ---- histories on one protocol object ------------------------------------------------------- *)

(* For every history of ProcessConfReq / ProcessConfAck / ProcessConfNak / ProcessConfRej calls and
   SetPeerAddress / SetDNS / SetAddress changes on one IPCP object, from every initial state, in every
   variant: the answer to each request is the answer a fresh object with the configuration in force would
   give (nothing remembered matters), the assignment in force is the most recent SetPeerAddress before the
   request, and the policy of C06_ipcp_ack_only_assigned holds against it. *)
Theorem C06_ipcp_history :
  forall fl s ops c os r,
  In (c, os, r) (iobj_trace fl s ops) ->
  r = fst (ipcp_req c ipeer0 os) /\
  (exists pre post, ops = pre ++ IReq os :: post /\
                    ic_assigned c = last_set_peer pre (ic_assigned (io_cfg s))) /\
  (forall v, usable (ic_assigned c) = true -> to4o (ic_assigned c) = Some v ->
     (forall o, In o (r_ack r) -> In o os) /\
     (forall o, In o (r_ack r) -> o_type o = 3%N -> o_data o = v) /\
     (forall o, In o (r_nak r) -> o_type o = 3%N -> o_data o = v) /\
     (forall o, In o os -> o_type o = 3%N -> length (o_data o) = 4%nat -> o_data o <> v ->
        In (mkopt 3 v) (r_nak r) /\ is_good r = false /\ ~ In o (r_ack r))).
Proof. exact ipcp_history. Qed.
Print Assumptions C06_ipcp_history.

(* What an IPCP object remembers as the negotiated peer address (peer.Address) is after every history an
   address it would acknowledge again under the configuration in force — in particular never an address
   accepted under a previous assignment (SetPeerAddress forgets it, /repo 95b0af2).  A shortcut "acknowledge
   what was acknowledged before" (seeded change C06_m1) is therefore behaviourally neutral on the fixed tree. *)
Theorem C06_ipcp_remembered_is_acceptable :
  forall ops s,
  (forall x, pp_addr (io_peer s) = Some x -> ipcp_kind (io_cfg s) (mkopt 3 x) = KAck) ->
  forall x, pp_addr (io_peer (iobj_run repaired s ops)) = Some x ->
            ipcp_kind (io_cfg (iobj_run repaired s ops)) (mkopt 3 x) = KAck.
Proof. exact iobj_run_remembered. Qed.
Print Assumptions C06_ipcp_remembered_is_acceptable.

(* Same for one LCP object (requests interleaved with Ack/Nak/Reject of our own options — which may change
   the local magic number and fill rejected[...] — and SetMagic/SetMRU/SetAuthProto): each request is
   answered as by a fresh object with the local magic number m in force, and for m <> 0 that number is never
   acknowledged, whatever has been rejected or learned before. *)
Theorem C06_lcp_history :
  forall fl s ops m os r,
  In (m, os, r) (lobj_trace fl s ops) ->
  r = fst (lcp_req fl m lpeer0 os) /\
  (m <> 0%N ->
   (forall o, In o (r_ack r) -> o_type o = 5%N -> length (o_data o) = 4%nat /\ num32 (o_data o) <> m) /\
   (forall o, In o os -> o_type o = 5%N -> length (o_data o) = 4%nat -> num32 (o_data o) = m ->
      In o (r_nak r) /\ ~ In o (r_ack r) /\ is_good r = false)).
Proof. exact lcp_history. Qed.
Print Assumptions C06_lcp_history.

Theorem C06_lcp_history_auth :
  forall s ops m os r,
  In (m, os, r) (lobj_trace repaired s ops) ->
  forall o, In o (r_ack r) -> o_type o = 3%N ->
     num16 (o_data o) = proto_pap \/
     (num16 (o_data o) = proto_chap /\ exists a b, o_data o = [a; b; chap_md5]).
Proof. exact lcp_history_auth. Qed.
Print Assumptions C06_lcp_history_auth.

(* and for one IPv6CP object, l being the local identifier in force (set, or learned from an Ack/Nak) *)
Theorem C06_ipv6cp_history :
  forall s ops l os r,
  In (l, os, r) (v6obj_trace s ops) ->
  forall o, In o (r_ack r) ->
  In o os /\ o_type o = 1%N /\ length (o_data o) = 8%nat /\ all_zero (o_data o) = false /\ o_data o <> l.
Proof. exact ipv6cp_history. Qed.
Print Assumptions C06_ipv6cp_history.

Example C06_history_nonvacuous :
  (* negotiated with A, assignment changes to B, subscriber re-requests A: Nak(B); magic rejected by the
     subscriber and then looped back: Nak *)
  map (fun t => snd t) (iobj_trace repaired (mkiobj (mk_ipcp_cfg (Some [10;0;0;5]%N) None) ipeer0)
     [IReq [mkopt 3 [10;0;0;5]%N]; ISetPeer (Some [10;0;0;9]%N); IReq [mkopt 3 [10;0;0;5]%N]])
  = [mkres [mkopt 3 [10;0;0;5]%N] [] []; mkres [] [mkopt 3 [10;0;0;9]%N] []] /\
  map (fun t => snd t) (lobj_trace repaired (lobj0 7)
     [LRej [mkopt 5 [0;0;0;7]%N]; LReq [mkopt 5 [0;0;0;7]%N]])
  = [mkres [] [mkopt 5 [0;0;0;7]%N] []].
Proof. vm_compute. split; reflexivity. Qed.
Print Assumptions C06_history_nonvacuous.

(* ---- wire format ---------------------------------------------------------------------------- *)

(* ParseOptions terminates within len(data) iterations and never indexes out of range *)
Theorem C06_parse_total :
  forall d, parse_wire d <> OutOfFuel /\ parse_wire d <> Panic.
Proof. intros d. apply parse_options_fuel. apply le_n. Qed.
Print Assumptions C06_parse_total.

(* what SerializeOptions emits for options of at most 253 data bytes parses back to the same list, so the
   lists the theorems above speak about are what the subscriber decodes *)
Theorem C06_serialize_parse :
  forall os, (forall o, In o os -> (length (o_data o) <= 253)%nat) ->
  parse_wire (serialize_options os) = Ok os.
Proof. intros os H. apply serialize_parse; auto. Qed.
Print Assumptions C06_serialize_parse.

(* ---- non-vacuity ---------------------------------------------------------------------------- *)
Definition ex_cfg : ipcp_cfg := mk_ipcp_cfg (Some [10;0;0;5]%N) (Some (Some [8;8;8;8]%N, Some [8;8;4;4]%N)).
Definition ex_req : list opt :=
  [mkopt 3 [10;0;0;5]; mkopt 3 [0;0;0;0]; mkopt 3 [10;0;0;6]; mkopt 129 [0;0;0;0]; mkopt 2 [0;45;15;1];
   mkopt 3 [10;0;0]; mkopt 131 [1;1;1;1]; mkopt 3 [10;0;0;5]]%N.
Example C06_ipcp_nonvacuous :
  usable (ic_assigned ex_cfg) = true /\ to4o (ic_assigned ex_cfg) = Some [10;0;0;5]%N /\
  let r := fst (ipcp_req ex_cfg ipeer0 ex_req) in
  r_ack r = [mkopt 3 [10;0;0;5]; mkopt 131 [1;1;1;1]; mkopt 3 [10;0;0;5]]%N /\
  r_nak r = [mkopt 3 [10;0;0;5]; mkopt 3 [10;0;0;5]; mkopt 129 [8;8;8;8]]%N /\
  r_rej r = [mkopt 2 [0;45;15;1]; mkopt 3 [10;0;0]]%N /\
  reply 9 r = Scj 9 (r_rej r) /\
  fst (fst (ipcp_input ex_cfg 7 ipeer0 9 [3;6;10;0;0;5]%N)) = [Sca 9 [mkopt 3 [10;0;0;5]%N]; Tlu].
Proof. vm_compute. repeat split. Qed.
Print Assumptions C06_ipcp_nonvacuous.

Example C06_session_nonvacuous :
  let s := sess_run repaired (sess_start repaired (Some (v4prefix ++ [10;0;0;5])%N))
             [EvReq 1 [3;6;0;0;0;0]; EvReq 2 []; EvAck; EvNak [3;6;6;6;6;6;129;6;1;1;1;1]; EvRej [129;6;1;1;1;1];
              EvReq 3 [3;6;10;0;0;5]; EvReauth (Some (v4prefix ++ [10;0;0;9])); EvReq 4 [3;6;10;0;0;5];
              EvReq 5 [3;6;10;0;0;9]; EvAckW [3;6;6;6;6;6]]%N in
  s_open s = true /\ s_fsm s = 9%N /\ to4o (s_addr s) = Some [10;0;0;9]%N /\
  pp_addr (s_peer s) = Some [10;0;0;9]%N.
Proof. vm_compute. repeat split. Qed.
Print Assumptions C06_session_nonvacuous.

Example C06_lcp_nonvacuous :
  let r := fst (lcp_req repaired 3735928559 lpeer0
                  [mkopt 1 [5;212]; mkopt 5 [222;173;190;239]; mkopt 5 [1;2;3;4]; mkopt 3 [194;35;5];
                   mkopt 3 [194;35;129]; mkopt 3 [192;35]; mkopt 7 []]%N) in
  r_ack r = [mkopt 1 [5;212]; mkopt 5 [1;2;3;4]; mkopt 3 [194;35;5]; mkopt 3 [192;35]]%N /\
  r_nak r = [mkopt 5 [222;173;190;239]; auth_chap_md5]%N /\
  r_rej r = [mkopt 7 []]%N.
Proof. vm_compute. repeat split. Qed.
Print Assumptions C06_lcp_nonvacuous.

Example C06_ipv6cp_nonvacuous :
  let s := ipv6cp_req [2;0;0;0;0;0;0;1]%N [] [[9;9;9;9;9;9;9;9]%N]
             [mkopt 1 [2;0;0;0;0;0;0;2]; mkopt 1 [0;0;0;0;0;0;0;0]; mkopt 1 [2;0;0;0;0;0;0;1]; mkopt 1 [1;2]]%N in
  r_ack (v6_res s) = [mkopt 1 [2;0;0;0;0;0;0;2]]%N /\ length (r_nak (v6_res s)) = 2%nat /\
  r_rej (v6_res s) = [mkopt 1 [1;2]]%N.
Proof. vm_compute. repeat split. Qed.
Print Assumptions C06_ipv6cp_nonvacuous.
