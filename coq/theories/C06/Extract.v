From Coq Require Import Extraction ExtrOcamlBasic.
From OV Require Import Common.Base C06.Model.
Extraction Language OCaml.
Extraction "C06_model.ml" mkflags repaired defective lns_found def_restore def_rguard sess_restore mkorc mk_ipcp_cfg ipcp_req lcp_req ipv6cp_req
  ipcp_input lcp_input ipv6cp_input ipeer0 lpeer0 sess_start sess_start_dns sess_restore_f with_refuse with_stage ipcp_req_c sess_step astep head_choice lsess0 lsess_restored lsess_step v6sess0 v6sess_step iid_from_mac iobj_step lobj_step v6obj_step lobj0 lcp_build v6_build build_confreq to4 to4o parse_wire serialize_options.
