(* C07/RoundTrip.v — "well-formed input parses to the values it was built from": builders and round trips. *)
From OV Require Import Common.Base C07.Model C07.Proofs.
From Coq Require Import ZifyBool ZifyNat ZifyN.
Local Open Scope N_scope.

Ltac zdiv := Z.div_mod_to_equations.
Ltac Zify.zify_post_hook ::= Z.div_mod_to_equations.

Lemma lenN_cons x l : lenN (x :: l) = 1 + lenN l.
Proof. unfold lenN. cbn [length]. lia. Qed.
Lemma lenN_nil : lenN [] = 0.
Proof. reflexivity. Qed.
Lemma lenN_put16 n : lenN (put16 n) = 2.
Proof. reflexivity. Qed.
Lemma lenN_put32 n : lenN (put32 n) = 4.
Proof. reflexivity. Qed.
Lemma lenN_repeat x k : lenN (repeat x k) = N.of_nat k.
Proof. unfold lenN. rewrite repeat_length. reflexivity. Qed.
Ltac lens := repeat (rewrite lenN_app in * || rewrite lenN_cons in * || rewrite lenN_put16 in * || rewrite lenN_put32 in * || rewrite lenN_repeat in * || rewrite lenN_nil in *).

Lemma be16_put16 n : n < 65536 -> be16 (byte_of (n / 256)) (byte_of n) = n.
Proof. unfold be16, byte_of. intros. lia. Qed.
Lemma be32_put32 n : n < 4294967296 ->
  be32 (byte_of (n / 16777216)) (byte_of (n / 65536)) (byte_of (n / 256)) (byte_of n) = n.
Proof. unfold be32, byte_of. intros. lia. Qed.

(* reading a big-endian field that sits right after [pre] *)
Lemma rd16 pre n post lo hi : lo = lenN pre -> hi = lenN pre + 2 -> n < 65536 ->
  (s <- sl lo hi (pre ++ put16 n ++ post);; u16at 0 s) = Ok n.
Proof.
  intros -> -> Hn. rewrite (sl_app_mid pre (put16 n) post) by (lens; lia). cbn [rbind].
  unfold put16, u16at. rewrite idx0. cbn [rbind]. change (0 + 1) with 1. rewrite idx1. cbn [rbind].
  rewrite be16_put16 by assumption. reflexivity.
Qed.
Lemma rd32 pre n post lo hi : lo = lenN pre -> hi = lenN pre + 4 -> n < 4294967296 ->
  (s <- sl lo hi (pre ++ put32 n ++ post);; u32at 0 s) = Ok n.
Proof.
  intros -> -> Hn. rewrite (sl_app_mid pre (put32 n) post) by (lens; lia). cbn [rbind].
  unfold put32, u32at. rewrite idx0. cbn [rbind].
  change (idx (0 + 1) ?l) with (idx 1 l). rewrite idx1. cbn [rbind].
  replace (idx (0 + 2) _) with (Ok (A:=N) (byte_of (n / 256))) by reflexivity. cbn [rbind].
  replace (idx (0 + 3) _) with (Ok (A:=N) (byte_of n)) by reflexivity. cbn [rbind].
  rewrite be32_put32 by assumption. reflexivity.
Qed.
Lemma rdbytes pre mid post lo hi : lo = lenN pre -> hi = lenN pre + lenN mid ->
  sl lo hi (pre ++ mid ++ post) = Ok mid.
Proof. intros. apply sl_app_mid; assumption. Qed.
Lemma rd8 pre x post off : off = lenN pre -> idx off (pre ++ x :: post) = Ok x.
Proof. intros. apply idx_app_mid. assumption. Qed.

(* ------------------------------------------------------------------ *)
(* PPPoE tags: TagBuilder.AddTag ... Build, then ParseTags *)
Fixpoint tags_fold (l : list (N * bytes)) (t : tags) : result tags :=
  match l with
  | [] => Ok t
  | (ty, v) :: r => t' <- tag_apply t ty v;; tags_fold r t'
  end.
Definition wf_tag (tv : N * bytes) : bool :=
  (0 <? fst tv) && (fst tv <? 65536) && (lenN (snd tv) <? 65536).
Definition wf_tags (l : list (N * bytes)) : bool := forallb wf_tag l.

Lemma tags_loop_build : forall l fuel pre t, wf_tags l = true -> (length l < fuel)%nat ->
  tags_loop fuel (lenN pre) (pre ++ build_tags l) t = tags_fold l t.
Proof.
  induction l as [|[ty v] r IH]; intros fuel pre t Hwf Hf.
  - destruct fuel; [cbn in Hf; lia|]. cbn [build_tags tags_loop tags_fold]. rewrite app_nil_r.
    destruct (lenN pre + 4 <=? lenN pre) eqn:E; [lia|reflexivity].
  - destruct fuel; [lia|]. cbn [wf_tags forallb] in Hwf. apply andb_prop in Hwf. destruct Hwf as [Hw Hr].
    unfold wf_tag in Hw. cbn [fst snd] in Hw.
    cbn [build_tags tags_loop tags_fold]. unfold put_tag. rewrite <- !app_assoc.
    set (rest := build_tags r).
    destruct (lenN pre + 4 <=? lenN (pre ++ put16 ty ++ put16 (lenN v) ++ v ++ rest)) eqn:E0; [|lens; lia].
    rewrite (rd16 pre) by (lens; lia). cbn [rbind].
    replace (pre ++ put16 ty ++ put16 (lenN v) ++ v ++ rest)
      with ((pre ++ put16 ty) ++ put16 (lenN v) ++ v ++ rest) by (rewrite <- app_assoc; reflexivity).
    rewrite (rd16 (pre ++ put16 ty)) by (lens; lia). cbn [rbind]. cbv zeta.
    destruct (ty =? 0) eqn:E1; [lia|].
    destruct (lenN ((pre ++ put16 ty) ++ put16 (lenN v) ++ v ++ rest) <? lenN pre + 4 + lenN v) eqn:E2; [lens; lia|].
    replace ((pre ++ put16 ty) ++ put16 (lenN v) ++ v ++ rest)
      with ((pre ++ put16 ty ++ put16 (lenN v)) ++ v ++ rest) by (rewrite <- !app_assoc; reflexivity).
    rewrite (rdbytes (pre ++ put16 ty ++ put16 (lenN v)) v rest) by (lens; lia). cbn [rbind].
    destruct (tag_apply t ty v) as [t'| | |]; cbn [rbind]; try reflexivity.
    replace ((pre ++ put16 ty ++ put16 (lenN v)) ++ v ++ rest)
      with ((pre ++ put16 ty ++ put16 (lenN v) ++ v) ++ rest) by (rewrite <- !app_assoc; reflexivity).
    replace (lenN pre + 4 + lenN v) with (lenN (pre ++ put16 ty ++ put16 (lenN v) ++ v)) by (lens; lia).
    apply IH; [exact Hr|cbn [length] in Hf; lia].
Qed.
(* parsing what the builder wrote = applying the tags, in order, to the empty Tags value *)
Lemma tags_roundtrip l : wf_tags l = true -> parse_tags (build_tags l) = tags_fold l tags0.
Proof.
  intros H. unfold parse_tags.
  pose proof (tags_loop_build l (S (length (build_tags l))) [] tags0 H) as P.
  cbn [app] in P. change (lenN []) with 0 in P. apply P.
  clear. induction l as [|[ty v] r IH]; cbn [build_tags length]; [lia|].
  unfold put_tag. rewrite !app_length. cbn [length put16]. lia.
Qed.
(* ... and the list of raw tags that comes back is the list that was built *)
Lemma tag_apply_raw t ty v t' : tag_apply t ty v = Ok t' -> t_raw t' = t_raw t ++ [(ty, v)].
Proof.
  unfold tag_apply. intros H.
  repeat match type of H with
  | (if ?c then _ else _) = Ok _ => destruct c
  | Ok _ = Ok _ => apply Ok_inj in H; subst; reflexivity
  | rbind ?r _ = Ok _ => destruct r; cbn [rbind] in H; try discriminate H
  | Err _ = Ok _ => discriminate H
  end.
Qed.
Lemma tags_fold_raw : forall l t t', tags_fold l t = Ok t' -> t_raw t' = t_raw t ++ l.
Proof.
  induction l as [|[ty v] r IH]; intros t t' H; cbn [tags_fold] in H.
  - apply Ok_inj in H. subst. rewrite app_nil_r. reflexivity.
  - destruct (tag_apply t ty v) as [t1| | |] eqn:E; cbn [rbind] in H; try discriminate H.
    apply tag_apply_raw in E. apply IH in H. rewrite H, E, <- app_assoc. reflexivity.
Qed.
Lemma tags_roundtrip_raw l t : wf_tags l = true -> parse_tags (build_tags l) = Ok t -> t_raw t = l.
Proof. intros Hw H. rewrite tags_roundtrip in H by assumption. apply tags_fold_raw in H. exact H. Qed.

(* vendor-specific tag value: vendor id (BBF 3561 or Cisco 9) followed by type/len/value sub-options *)
Fixpoint build_subs (l : list (N * bytes)) : bytes :=
  match l with [] => [] | (t, v) :: r => t :: byte_of (lenN v) :: v ++ build_subs r end.
Fixpoint vendor_fold (l : list (N * bytes)) (c r : bytes) : bytes * bytes :=
  match l with
  | [] => (c, r)
  | (t, v) :: q => if t =? 1 then vendor_fold q v r else if t =? 2 then vendor_fold q c v else vendor_fold q c r
  end.
Definition wf_subs (l : list (N * bytes)) : bool := forallb (fun tv => lenN (snd tv) <? 256) l.
Lemma vendor_loop_build : forall l fuel pre c r, wf_subs l = true -> (length l < fuel)%nat ->
  vendor_loop fuel (lenN pre) (pre ++ build_subs l) c r = Ok (vendor_fold l c r).
Proof.
  induction l as [|[t v] q IH]; intros fuel pre c r Hwf Hf.
  - destruct fuel; [cbn in Hf; lia|]. cbn [build_subs vendor_loop vendor_fold]. rewrite app_nil_r.
    destruct (lenN pre + 2 <=? lenN pre) eqn:E; [lia|reflexivity].
  - destruct fuel; [lia|]. cbn [wf_subs forallb snd] in Hwf. apply andb_prop in Hwf. destruct Hwf as [Hw Hr].
    cbn [build_subs vendor_loop vendor_fold]. rewrite byte_of_small by lia.
    set (rest := build_subs q).
    destruct (lenN pre + 2 <=? lenN (pre ++ t :: lenN v :: v ++ rest)) eqn:E0; [|lens; lia].
    rewrite rd8 by reflexivity. cbn [rbind].
    replace (pre ++ t :: lenN v :: v ++ rest) with ((pre ++ [t]) ++ lenN v :: v ++ rest)
      by (rewrite <- app_assoc; reflexivity).
    rewrite (rd8 (pre ++ [t])) by (lens; lia). cbn [rbind]. cbv zeta.
    destruct (lenN ((pre ++ [t]) ++ lenN v :: v ++ rest) <? lenN pre + 2 + lenN v) eqn:E1; [lens; lia|].
    replace ((pre ++ [t]) ++ lenN v :: v ++ rest) with ((pre ++ [t; lenN v]) ++ v ++ rest)
      by (rewrite <- !app_assoc; reflexivity).
    rewrite (rdbytes (pre ++ [t; lenN v]) v rest) by (lens; lia). cbn [rbind].
    replace ((pre ++ [t; lenN v]) ++ v ++ rest) with ((pre ++ t :: lenN v :: v) ++ rest)
      by (rewrite <- !app_assoc; reflexivity).
    replace (lenN pre + 2 + lenN v) with (lenN (pre ++ t :: lenN v :: v)) by (lens; lia).
    cbn [length] in Hf.
    destruct (t =? 1); [apply IH; [exact Hr|lia]|].
    destruct (t =? 2); apply IH; try exact Hr; lia.
Qed.
Lemma build_subs_length l : (length l <= length (build_subs l))%nat.
Proof. induction l as [|[t v] q IH]; cbn [build_subs length]; [lia|]. rewrite app_length. lia. Qed.
Lemma vendor_roundtrip vid l c r : vid = 3561 \/ vid = 9 -> wf_subs l = true ->
  parse_vendor (put32 vid ++ build_subs l) c r = Ok (vendor_fold l c r).
Proof.
  intros Hv Hwf. unfold parse_vendor.
  destruct l as [|[t v] q].
  - cbn [build_subs vendor_fold]. rewrite app_nil_r. reflexivity.
  - assert (Hlen : 6 <= lenN (put32 vid ++ build_subs ((t, v) :: q))).
    { cbn [build_subs]. lens. lia. }
    destruct (lenN (put32 vid ++ build_subs ((t, v) :: q)) <? 6) eqn:E; [lia|].
    pose proof (rd32 [] vid (build_subs ((t, v) :: q)) 0 4 eq_refl eq_refl) as R. cbn [app] in R.
    rewrite R by (destruct Hv; subst; lia). cbn [rbind].
    destruct (negb (vid =? 3561) && negb (vid =? 9)) eqn:E2; [destruct Hv; subst; discriminate E2|].
    apply (vendor_loop_build ((t, v) :: q) _ (put32 vid)); [exact Hwf|].
    rewrite app_length. pose proof (build_subs_length ((t, v) :: q)). cbn [length put32] in *. lia.
Qed.

(* ------------------------------------------------------------------ *)
(* L2TP AVPs: AppendAVP ... then ParseAVPs (hidden bit off) *)
Definition wf_avp (a : avp) : bool :=
  negb (a_h a) && (a_vendor a <? 65536) && (a_type a <? 65536) && (lenN (a_value a) <=? 1017).
Definition wf_avps (l : list avp) : bool := forallb wf_avp l.

Definition flcheck (m : bool) (x : N) : bool :=
  let fl := N.land x 1023 + b2n m 32768 + b2n false 16384 in
  (fl <? 65536) && (N.land fl 15360 =? 0) && (N.land fl 1023 =? x) && Bool.eqb (bit fl 15) m && negb (bit fl 14).
Lemma flcheck_all : forallb (fun x => flcheck true x && flcheck false x) (map N.of_nat (seq 0 1024)) = true.
Proof. vm_compute. reflexivity. Qed.
Lemma flcheck_ok m x : x < 1024 -> flcheck m x = true.
Proof.
  intros Hx. pose proof flcheck_all as H. rewrite forallb_forall in H.
  specialize (H x). assert (Hin : In x (map N.of_nat (seq 0 1024))).
  { replace x with (N.of_nat (N.to_nat x)) by lia. apply in_map. apply in_seq. lia. }
  apply H in Hin. apply andb_prop in Hin. destruct m; tauto.
Qed.

Lemma avps_loop_build : forall l fuel seen, wf_avps l = true -> (length l < fuel)%nat ->
  avps_loop fuel (build_avps l) seen = Ok l.
Proof.
  induction l as [|a r IH]; intros fuel seen Hwf Hf.
  - destruct fuel; [cbn in Hf; lia|]. reflexivity.
  - destruct fuel; [lia|]. cbn [wf_avps forallb] in Hwf. apply andb_prop in Hwf. destruct Hwf as [Hw Hr].
    destruct a as [m h vid ty v]. unfold wf_avp in Hw. cbn [a_m a_h a_vendor a_type a_value] in Hw.
    assert (h = false) by (destruct h; [discriminate Hw|reflexivity]). subst h.
    cbn [build_avps avps_loop]. unfold append_avp. cbn [a_m a_h a_vendor a_type a_value].
    pose proof (flcheck_ok m (6 + lenN v) ltac:(lia)) as Hfl. unfold flcheck in Hfl. cbv zeta in Hfl.
    set (fl := N.land (6 + lenN v) 1023 + b2n m 32768 + b2n false 16384) in *.
    rewrite <- !app_assoc. set (rest := build_avps r).
    set (b := put16 fl ++ put16 vid ++ put16 ty ++ v ++ rest).
    assert (Hlen : lenN b = 6 + lenN v + lenN rest) by (subst b; lens; lia).
    destruct (0 <? lenN b) eqn:E0; [|lia].
    destruct (lenN b <? 6) eqn:E1; [lia|].
    apply andb_prop in Hfl. destruct Hfl as [Hfl H14].
    apply andb_prop in Hfl. destruct Hfl as [Hfl H15].
    apply andb_prop in Hfl. destruct Hfl as [Hfl H1023].
    apply andb_prop in Hfl. destruct Hfl as [Hlt H15360].
    subst b.
    pose proof (rd16 [] fl (put16 vid ++ put16 ty ++ v ++ rest) 0 2 eq_refl eq_refl ltac:(lia)) as R0.
    cbn [app] in R0. rewrite R0. cbn [rbind].
    destruct (negb (N.land fl 15360 =? 0)) eqn:E2; [rewrite H15360 in E2; discriminate E2|].
    cbv zeta. apply N.eqb_eq in H1023. rewrite H1023.
    destruct (6 + lenN v <? 6) eqn:E3; [lia|].
    destruct (lenN (put16 fl ++ put16 vid ++ put16 ty ++ v ++ rest) <? 6 + lenN v) eqn:E4; [lia|].
    rewrite (rd16 (put16 fl) vid) by (lens; lia). cbn [rbind].
    replace (put16 fl ++ put16 vid ++ put16 ty ++ v ++ rest)
      with ((put16 fl ++ put16 vid) ++ put16 ty ++ v ++ rest) by (rewrite <- app_assoc; reflexivity).
    rewrite (rd16 (put16 fl ++ put16 vid) ty) by (lens; lia). cbn [rbind].
    replace ((put16 fl ++ put16 vid) ++ put16 ty ++ v ++ rest)
      with ((put16 fl ++ put16 vid ++ put16 ty) ++ v ++ rest) by (rewrite <- !app_assoc; reflexivity).
    rewrite (rdbytes (put16 fl ++ put16 vid ++ put16 ty) v rest) by (lens; lia). cbn [rbind a_h].
    apply Bool.eqb_prop in H15. rewrite H15.
    destruct (bit fl 14) eqn:E14; [discriminate H14|]. cbn [andb].
    replace ((put16 fl ++ put16 vid ++ put16 ty) ++ v ++ rest)
      with ((put16 fl ++ put16 vid ++ put16 ty ++ v) ++ rest) by (rewrite <- !app_assoc; reflexivity).
    rewrite slf_app by (lens; lia). cbn [rbind].
    rewrite IH; [reflexivity|exact Hr|cbn [length] in Hf; lia].
Qed.
Lemma avps_roundtrip l : wf_avps l = true -> parse_avps (build_avps l) = Ok l.
Proof.
  intros H. unfold parse_avps. apply avps_loop_build; [exact H|].
  clear. induction l as [|a r IH]; cbn [build_avps length]; [lia|].
  unfold append_avp. rewrite !app_length. cbn [length put16]. lia.
Qed.

(* ------------------------------------------------------------------ *)
(* L2TP header: Header.AppendTo(nil, bodyLen) ++ body, then Parse — every combination of T/L/S/O/P *)
Definition l2_flags (c l s o p : bool) (ver : N) : N :=
  b2n c 32768 + b2n l 16384 + b2n s 2048 + b2n o 512 + b2n p 256 + N.land ver 15.
Definition l2flcheck (c l s o p : bool) (ver : N) : bool :=
  let fl := l2_flags c l s o p ver in
  (fl <? 65536) && (N.land fl 13552 =? 0) && Bool.eqb (bit fl 15) c && Bool.eqb (bit fl 14) l &&
  Bool.eqb (bit fl 11) s && Bool.eqb (bit fl 9) o && Bool.eqb (bit fl 8) p && (N.land fl 15 =? ver).
Lemma l2flcheck_all : forall c l s o p, forallb (l2flcheck c l s o p) (map N.of_nat (seq 0 16)) = true.
Proof. intros [] [] [] [] []; vm_compute; reflexivity. Qed.
Lemma l2flcheck_ok c l s o p ver : ver < 16 -> l2flcheck c l s o p ver = true.
Proof.
  intros Hv. pose proof (l2flcheck_all c l s o p) as H. rewrite forallb_forall in H. apply H.
  replace ver with (N.of_nat (N.to_nat ver)) by lia. apply in_map. apply in_seq. lia.
Qed.

Definition wf_l2hdr (h : l2hdr) (bodylen : N) : bool :=
  (h_ver h <? 16) && (h_tid h <? 65536) && (h_sid h <? 65536) &&
  (if h_hasseq h then (h_ns h <? 65536) && (h_nr h <? 65536) else (h_ns h =? 0) && (h_nr h =? 0)) &&
  (if h_hasoff h then h_offsz h <? 65536 else h_offsz h =? 0) &&
  (if h_haslen h then l2_hlen_bytes h + bodylen <? 65536 else true).
(* what Parse reports for a header written by AppendTo: Length is the total when L is set (0 otherwise),
   HeaderLen is HeaderLenBytes() *)
Definition l2_expected (h : l2hdr) (bodylen : N) : l2hdr :=
  mkL2 (h_ctrl h) (h_haslen h) (h_hasseq h) (h_hasoff h) (h_prio h) (h_ver h)
       (if h_haslen h then l2_hlen_bytes h + bodylen else 0)
       (h_tid h) (h_sid h) (h_ns h) (h_nr h) (h_offsz h) (l2_hlen_bytes h).

Ltac rd P n := rewrite (rd16 P n) by (lens; lia); cbn [rbind]; rewrite (app_assoc P (put16 n)).
Ltac nolt := match goal with |- context [if (?a <? ?b) then _ else _] =>
               let E := fresh "E" in destruct (a <? b) eqn:E; [lens; lia|] end.
Ltac rdnext := match goal with |- context [sl _ _ ?L] => match L with ?P ++ put16 ?n ++ ?R => rd P n end end.
Ltac flhyps := repeat match goal with
  | H : _ && _ = true |- _ => apply andb_prop in H; destruct H
  | H : Bool.eqb _ _ = true |- _ => apply Bool.eqb_prop in H
  | H : (N.land _ _ =? _) = true |- _ => apply N.eqb_eq in H end.
Ltac useflags := repeat match goal with
  | H : bit _ _ = _ |- _ => rewrite H; clear H
  | H : N.land _ _ = _ |- _ => rewrite H; clear H end.

Lemma l2tp_roundtrip h body : wf_l2hdr h (lenN body) = true ->
  l2tp_parse (l2tp_append h (lenN body) ++ body) = Ok (l2_expected h (lenN body), body).
Proof.
  destruct h as [c l s o p ver len tid sid ns nr osz hl].
  unfold wf_l2hdr, l2_expected, l2tp_append, l2_hlen_bytes.
  cbn [h_ctrl h_haslen h_hasseq h_hasoff h_prio h_ver h_length h_tid h_sid h_ns h_nr h_offsz h_hlen].
  intros Hwf.
  assert (Hver : ver < 16) by lia.
  pose proof (l2flcheck_ok c l s o p ver Hver) as Hfl. unfold l2flcheck in Hfl. cbv zeta in Hfl.
  fold (l2_flags c l s o p ver). set (fl := l2_flags c l s o p ver) in *.
  flhyps. assert (Hfl16 : fl < 65536) by lia.
  unfold l2tp_parse. rewrite <- !app_assoc.
  destruct l, s, o; cbn [b2n] in *; rewrite ?N.mod_small by lia; cbn [app]; rewrite <- ?app_assoc.
  all: nolt.
  all: match goal with |- context [sl 0 2 (put16 ?f ++ ?R)] =>
     pose proof (rd16 [] f R 0 2 eq_refl eq_refl ltac:(lia)) as R0; cbn [app] in R0; rewrite R0; clear R0 end.
  all: cbn [rbind]; useflags; change (negb (0 =? 0)) with false; cbv iota zeta.
  all: match goal with |- context [sl _ _ (put16 ?f ++ ?R)] =>
     change (put16 f ++ R) with ([] ++ put16 f ++ R); rewrite (app_assoc [] (put16 f)); cbn [app] end.
  all: repeat first [nolt | rdnext | progress cbn [rbind fst snd andb]].
  all: try (match goal with |- context [slf _ (?P ++ repeat 0 ?k ++ ?R)] => rewrite (app_assoc P (repeat 0 k) R) end).
  all: rewrite slf_app by (lens; lia); cbn [rbind].
  all: do 3 f_equal; lia.
Qed.

(* ------------------------------------------------------------------ *)
(* DHCPv6 options: code(2) len(2) data, as written by writeOption / BuildRelayForward *)
Definition put_opt6 (code : N) (d : bytes) : bytes := put16 code ++ put16 (lenN d) ++ d.
Fixpoint build_opts6 (l : list (N * bytes)) : bytes :=
  match l with [] => [] | (c, d) :: r => put_opt6 c d ++ build_opts6 r end.
Fixpoint opts6_fold (l : list (N * bytes)) (o : opts6) : result opts6 :=
  match l with
  | [] => Ok o
  | (c, d) :: r => o' <- opt6_apply o c d;; opts6_fold r o'
  end.
Definition wf_opt6 (cd : N * bytes) : bool := (fst cd <? 65536) && (lenN (snd cd) <? 65536).
Definition wf_opts6 (l : list (N * bytes)) : bool := forallb wf_opt6 l.

Lemma opts6_loop_build : forall l fuel o, wf_opts6 l = true -> (length l < fuel)%nat ->
  opts6_loop fuel (build_opts6 l) o = opts6_fold l o.
Proof.
  induction l as [|[c d] r IH]; intros fuel o Hwf Hf.
  - destruct fuel; [cbn in Hf; lia|]. reflexivity.
  - destruct fuel; [lia|]. cbn [wf_opts6 forallb] in Hwf. apply andb_prop in Hwf. destruct Hwf as [Hw Hr].
    unfold wf_opt6 in Hw. cbn [fst snd] in Hw.
    cbn [build_opts6 opts6_loop opts6_fold]. unfold put_opt6. rewrite <- !app_assoc.
    set (rest := build_opts6 r).
    destruct (4 <=? lenN (put16 c ++ put16 (lenN d) ++ d ++ rest)) eqn:E0; [|lens; lia].
    pose proof (rd16 [] c (put16 (lenN d) ++ d ++ rest) 0 2 eq_refl eq_refl ltac:(lia)) as R0.
    cbn [app] in R0. rewrite R0. cbn [rbind].
    rewrite (rd16 (put16 c) (lenN d)) by (lens; lia). cbn [rbind]. cbv zeta.
    destruct (lenN (put16 c ++ put16 (lenN d) ++ d ++ rest) <? 4 + lenN d) eqn:E1; [lens; lia|].
    replace (put16 c ++ put16 (lenN d) ++ d ++ rest) with ((put16 c ++ put16 (lenN d)) ++ d ++ rest)
      by (rewrite <- app_assoc; reflexivity).
    rewrite (rdbytes (put16 c ++ put16 (lenN d)) d rest) by (lens; lia). cbn [rbind].
    destruct (opt6_apply o c d) as [o'| | |]; cbn [rbind]; try reflexivity.
    replace ((put16 c ++ put16 (lenN d)) ++ d ++ rest) with ((put16 c ++ put16 (lenN d) ++ d) ++ rest)
      by (rewrite <- !app_assoc; reflexivity).
    rewrite slf_app by (lens; lia). cbn [rbind].
    apply IH; [exact Hr|cbn [length] in Hf; lia].
Qed.
Lemma build_opts6_length l : (length l <= length (build_opts6 l))%nat.
Proof.
  induction l as [|[c d] r IH]; cbn [build_opts6 length]; [lia|].
  unfold put_opt6. rewrite !app_length. cbn [length put16]. lia.
Qed.
Lemma options6_roundtrip l : wf_opts6 l = true -> parse_options6 (build_opts6 l) = opts6_fold l opts6_0.
Proof.
  intros H. unfold parse_options6. apply opts6_loop_build; [exact H|].
  pose proof (build_opts6_length l). lia.
Qed.

(* the Relay-Message walk of UnwrapRelay / UnwrapRelayReply over built options *)
Fixpoint find9 (l : list (N * bytes)) : option bytes :=
  match l with [] => None | (c, d) :: r => if c =? 9 then Some d else find9 r end.
Lemma find_relay_build : forall l fuel pre, wf_opts6 l = true -> (length l < fuel)%nat ->
  find_relay_msg fuel (lenN pre) (pre ++ build_opts6 l) = Ok (find9 l).
Proof.
  induction l as [|[c d] r IH]; intros fuel pre Hwf Hf.
  - destruct fuel; [cbn in Hf; lia|]. cbn [build_opts6 find_relay_msg find9]. rewrite app_nil_r.
    destruct (lenN pre + 4 <=? lenN pre) eqn:E; [lia|reflexivity].
  - destruct fuel; [lia|]. cbn [wf_opts6 forallb] in Hwf. apply andb_prop in Hwf. destruct Hwf as [Hw Hr].
    unfold wf_opt6 in Hw. cbn [fst snd] in Hw.
    cbn [build_opts6 find_relay_msg find9]. unfold put_opt6. rewrite <- !app_assoc.
    set (rest := build_opts6 r).
    destruct (lenN pre + 4 <=? lenN (pre ++ put16 c ++ put16 (lenN d) ++ d ++ rest)) eqn:E0; [|lens; lia].
    rewrite (rd16 pre c) by (lens; lia). cbn [rbind].
    replace (pre ++ put16 c ++ put16 (lenN d) ++ d ++ rest) with ((pre ++ put16 c) ++ put16 (lenN d) ++ d ++ rest)
      by (rewrite <- app_assoc; reflexivity).
    rewrite (rd16 (pre ++ put16 c) (lenN d)) by (lens; lia). cbn [rbind].
    destruct (lenN ((pre ++ put16 c) ++ put16 (lenN d) ++ d ++ rest) <? lenN pre + 4 + lenN d) eqn:E1; [lens; lia|].
    replace ((pre ++ put16 c) ++ put16 (lenN d) ++ d ++ rest) with ((pre ++ put16 c ++ put16 (lenN d)) ++ d ++ rest)
      by (rewrite <- !app_assoc; reflexivity).
    destruct (c =? 9).
    + rewrite (rdbytes (pre ++ put16 c ++ put16 (lenN d)) d rest) by (lens; lia). reflexivity.
    + replace ((pre ++ put16 c ++ put16 (lenN d)) ++ d ++ rest) with ((pre ++ put16 c ++ put16 (lenN d) ++ d) ++ rest)
        by (rewrite <- !app_assoc; reflexivity).
      replace (lenN pre + 4 + lenN d) with (lenN (pre ++ put16 c ++ put16 (lenN d) ++ d)) by (lens; lia).
      apply IH; [exact Hr|cbn [length] in Hf; lia].
Qed.

(* ------------------------------------------------------------------ *)
(* pkg/dhcp/relay BuildRelayForward, then pkg/dhcp6 UnwrapRelay — nested to any depth *)
Record rfparams := mkRF { rf_hop : N; rf_link : bytes; rf_peer : bytes; rf_ifid : bytes;
                          rf_remote : bytes; rf_ent : N; rf_sub : bytes }.
Definition optnz (b : bytes) : option bytes := match b with [] => None | _ => Some b end.
Definition rf_opts (p : rfparams) (client : bytes) : list (N * bytes) :=
  (match rf_ifid p with [] => [] | _ => [(18, rf_ifid p)] end) ++
  (match rf_remote p with [] => [] | _ => [(37, put32 (rf_ent p) ++ rf_remote p)] end) ++
  (match rf_sub p with [] => [] | _ => [(38, rf_sub p)] end) ++ [(9, client)].
Definition build_relay_fwd (p : rfparams) (client : bytes) : bytes :=
  12 :: rf_hop p :: rf_link p ++ rf_peer p ++ build_opts6 (rf_opts p client).
Definition rf_info (p : rfparams) : relayinfo :=
  mkRI (rf_hop p) (rf_link p) (rf_peer p) (optnz (rf_ifid p)) (optnz (rf_remote p)) None.
Definition wf_rf (p : rfparams) : bool :=
  (lenN (rf_link p) =? 16) && (lenN (rf_peer p) =? 16) && (lenN (rf_ifid p) <? 65536) &&
  (lenN (rf_remote p) + 4 <? 65536) && (lenN (rf_sub p) <? 65536).

Lemma opt6_apply_18 o d : opt6_apply o 18 d =
  Ok (mkO6 (o_client o) (o_server o) (o_iana o) (o_iapd o) (o_dns o) (Some d) (o_remote o) (o_clla o) (o_rapid o) (o_status o)).
Proof. reflexivity. Qed.
Lemma opt6_apply_38 o d : opt6_apply o 38 d = Ok o.
Proof. reflexivity. Qed.
Lemma opt6_apply_9 o d : opt6_apply o 9 d = Ok o.
Proof. reflexivity. Qed.
Lemma opt6_apply_37 o ent x r : opt6_apply o 37 (put32 ent ++ x :: r) =
  Ok (mkO6 (o_client o) (o_server o) (o_iana o) (o_iapd o) (o_dns o) (o_ifid o) (Some (x :: r)) (o_clla o) (o_rapid o) (o_status o)).
Proof.
  unfold opt6_apply. cbn [N.eqb Pos.eqb].
  destruct (4 <? lenN (put32 ent ++ x :: r)) eqn:E; [|lens; lia].
  rewrite slf_app by reflexivity. reflexivity.
Qed.

Lemma rf_opts_fold p client :
  exists o, opts6_fold (rf_opts p client) opts6_0 = Ok o /\
            o_ifid o = optnz (rf_ifid p) /\ o_remote o = optnz (rf_remote p) /\ o_clla o = None.
Proof.
  unfold rf_opts.
  destruct (rf_ifid p) as [|i0 ir], (rf_remote p) as [|r0 rr], (rf_sub p) as [|s0 sr];
    cbn [app opts6_fold optnz];
    rewrite ?opt6_apply_18, ?opt6_apply_37; cbn [rbind];
    rewrite ?opt6_apply_37, ?opt6_apply_38; cbn [rbind];
    rewrite ?opt6_apply_38, ?opt6_apply_9; cbn [rbind];
    rewrite ?opt6_apply_9; cbn [rbind];
    eexists; (split; [reflexivity|cbn; auto]).
Qed.
Lemma rf_opts_wf p client : wf_rf p = true -> lenN client <? 65536 = true -> wf_opts6 (rf_opts p client) = true.
Proof.
  unfold wf_rf, rf_opts, wf_opts6. intros H Hc.
  destruct (rf_ifid p) as [|i0 ir] eqn:E1, (rf_remote p) as [|r0 rr] eqn:E2, (rf_sub p) as [|s0 sr] eqn:E3;
    cbn [app forallb]; unfold wf_opt6; cbn [fst snd]; lens; lia.
Qed.
Lemma rf_opts_find9 p client : find9 (rf_opts p client) = Some client.
Proof.
  unfold rf_opts.
  destruct (rf_ifid p), (rf_remote p), (rf_sub p); reflexivity.
Qed.
Lemma rf_opts_length p client : (length (rf_opts p client) <= 4)%nat.
Proof. unfold rf_opts. destruct (rf_ifid p), (rf_remote p), (rf_sub p); cbn; lia. Qed.

(* one level: the relay header, its options, and what the walk finds *)
Lemma unwrap_one fuel p client : wf_rf p = true -> lenN client <? 65536 = true ->
  unwrap_relay (S fuel) (build_relay_fwd p client) =
  (it <- (if 0 <? lenN client then idx 0 client else Ok 0);;
   if (0 <? lenN client) && (it =? 12) then unwrap_relay fuel client else
   match parse_message6 client with
   | Ok m => Ok (Some m, Some (rf_info p))
   | Err _ => Ok (None, Some (rf_info p))
   | Panic => Panic
   | OutOfFuel => OutOfFuel
   end).
Proof.
  intros Hwf Hc. pose proof Hwf as Hwf0. unfold wf_rf in Hwf.
  assert (Hl : lenN (rf_link p) = 16) by lia. assert (Hp : lenN (rf_peer p) = 16) by lia.
  cbn [unwrap_relay]. unfold build_relay_fwd.
  set (opts := build_opts6 (rf_opts p client)).
  set (data := 12 :: rf_hop p :: rf_link p ++ rf_peer p ++ opts).
  assert (Hlen : lenN data = 34 + lenN opts) by (subst data; lens; lia).
  destruct (lenN data <? 34) eqn:E0; [lia|].
  subst data. rewrite idx0. cbn [rbind]. change (negb (12 =? 12)) with false. cbv iota.
  rewrite idx1. cbn [rbind].
  rewrite (rdbytes [12; rf_hop p] (rf_link p) (rf_peer p ++ opts)) by (lens; lia). cbn [rbind].
  change (12 :: rf_hop p :: rf_link p ++ rf_peer p ++ opts) with ((12 :: rf_hop p :: rf_link p) ++ rf_peer p ++ opts).
  rewrite (rdbytes (12 :: rf_hop p :: rf_link p) (rf_peer p) opts) by (lens; lia). cbn [rbind].
  replace ((12 :: rf_hop p :: rf_link p) ++ rf_peer p ++ opts) with ((12 :: rf_hop p :: rf_link p ++ rf_peer p) ++ opts)
    by (cbn [app]; rewrite <- app_assoc; reflexivity).
  rewrite slf_app by (lens; lia). cbn [rbind].
  subst opts. rewrite options6_roundtrip by (apply rf_opts_wf; assumption).
  destruct (rf_opts_fold p client) as (o & Ho & Hi & Hr & Hcl). rewrite Ho. cbn [rbind].
  replace 34 with (lenN (12 :: rf_hop p :: rf_link p ++ rf_peer p)) at 1 by (lens; lia).
  rewrite find_relay_build;
    [|apply rf_opts_wf; assumption
     |pose proof (rf_opts_length p client); rewrite app_length; cbn [length]; rewrite app_length; unfold lenN in Hl, Hp; lia].
  cbn [rbind]. rewrite rf_opts_find9. rewrite Hi, Hr, Hcl. reflexivity.
Qed.

(* wrap a client message in a chain of relays, outermost first *)
Fixpoint wrap_all (ps : list rfparams) (msg : bytes) : bytes :=
  match ps with [] => msg | p :: r => build_relay_fwd p (wrap_all r msg) end.
Fixpoint wf_chain (ps : list rfparams) (msg : bytes) : bool :=
  match ps with
  | [] => true
  | p :: r => wf_rf p && (lenN (wrap_all r msg) <? 65536) && wf_chain r msg
  end.
Lemma wrap_head12 p r msg : exists t, wrap_all (p :: r) msg = 12 :: t.
Proof. cbn [wrap_all]. unfold build_relay_fwd. eexists. reflexivity. Qed.

(* any depth: UnwrapRelay returns the client's message and the info of the relay closest to the client *)
Lemma unwrap_chain : forall ps fuel msg m, ps <> [] -> wf_chain ps msg = true ->
  (length ps <= fuel)%nat -> parse_message6 msg = Ok m -> hd 0 msg <> 12 ->
  unwrap_relay fuel (wrap_all ps msg) = Ok (Some m, Some (rf_info (last ps (mkRF 0 [] [] [] [] 0 [])))).
Proof.
  induction ps as [|p r IH]; intros fuel msg m Hne Hwf Hf Hm Hhd; [congruence|].
  destruct fuel; [cbn in Hf; lia|].
  cbn [wf_chain] in Hwf. apply andb_prop in Hwf. destruct Hwf as [Hwf Hr].
  apply andb_prop in Hwf. destruct Hwf as [Hp Hc].
  cbn [wrap_all]. rewrite unwrap_one by assumption.
  destruct r as [|p2 r2].
  - cbn [wrap_all last]. destruct msg as [|x t].
    + cbn in Hm. discriminate Hm.
    + destruct (0 <? lenN (x :: t)) eqn:E; [|lens; lia]. rewrite idx0. cbn [rbind hd] in *.
      destruct (x =? 12) eqn:E12; [lia|]. cbn [andb]. rewrite Hm. reflexivity.
  - destruct (wrap_head12 p2 r2 msg) as [t Ht]. rewrite Ht.
    destruct (0 <? lenN (12 :: t)) eqn:E; [|lens; lia]. rewrite idx0. cbn [rbind andb].
    change (12 =? 12) with true. cbv iota. rewrite <- Ht.
    rewrite (IH fuel msg m); try assumption; [reflexivity|discriminate|cbn [length] in *; lia].
Qed.
Lemma rf_opts_carry p client : (length client <= length (build_opts6 (rf_opts p client)))%nat.
Proof.
  unfold rf_opts. destruct (rf_ifid p), (rf_remote p), (rf_sub p); cbn [app build_opts6];
    unfold put_opt6; rewrite ?app_length; lia.
Qed.
Lemma wrap_all_length ps msg : (length ps <= length (wrap_all ps msg))%nat.
Proof.
  induction ps as [|p r IH]; cbn [wrap_all length]; [lia|].
  unfold build_relay_fwd. cbn [length]. rewrite !app_length.
  pose proof (rf_opts_carry p (wrap_all r msg)). lia.
Qed.
Lemma relay_roundtrip ps msg m : ps <> [] -> wf_chain ps msg = true ->
  parse_message6 msg = Ok m -> hd 0 msg <> 12 ->
  unwrap_relay_top (wrap_all ps msg) = Ok (Some m, Some (rf_info (last ps (mkRF 0 [] [] [] [] 0 [])))).
Proof.
  intros. unfold unwrap_relay_top. apply unwrap_chain; try assumption.
  pose proof (wrap_all_length ps msg). lia.
Qed.

(* ------------------------------------------------------------------ *)
(* pkg/dhcp6/serialize.go buildIANAPayload / buildIAPDPayload, then parseIANA / parseIAPD *)
Definition build_iana (a : ia) (addr : bytes) : bytes :=
  put32 (ia_iaid a) ++ put32 (ia_t1 a) ++ put32 (ia_t2 a) ++
  put16 5 ++ put16 24 ++ addr ++ put32 (ia_pref a) ++ put32 (ia_valid a).
Definition build_iapd (a : ia) (prefix : bytes) : bytes :=
  put32 (ia_iaid a) ++ put32 (ia_t1 a) ++ put32 (ia_t2 a) ++
  put16 26 ++ put16 25 ++ put32 (ia_pref a) ++ put32 (ia_valid a) ++ ia_plen a :: prefix.
Definition wf_ia (a : ia) : bool :=
  (ia_iaid a <? 4294967296) && (ia_t1 a <? 4294967296) && (ia_t2 a <? 4294967296) &&
  (ia_pref a <? 4294967296) && (ia_valid a <? 4294967296) &&
  match ia_addr a with Some x => lenN x =? 16 | None => false end.

Ltac rd4 P n := rewrite (rd32 P n) by (lens; lia); cbn [rbind]; rewrite (app_assoc P (put32 n)).
Ltac rd2 P n := rewrite (rd16 P n) by (lens; lia); cbn [rbind]; rewrite (app_assoc P (put16 n)).

Lemma iana_roundtrip a addr : wf_ia a = true -> ia_addr a = Some addr -> ia_plen a = 0 ->
  parse_ia false (build_iana a addr) = Ok (Some a).
Proof.
  destruct a as [iaid t1 t2 ad plen pref valid]. unfold wf_ia. cbn [ia_iaid ia_t1 ia_t2 ia_addr ia_plen ia_pref ia_valid].
  intros Hwf -> ->. unfold parse_ia, build_iana. cbn [ia_iaid ia_t1 ia_t2 ia_addr ia_plen ia_pref ia_valid].
  set (sub := put16 5 ++ put16 24 ++ addr ++ put32 pref ++ put32 valid).
  assert (Hsub : lenN sub = 28) by (subst sub; lens; lia).
  destruct (lenN (put32 iaid ++ put32 t1 ++ put32 t2 ++ sub) <? 12) eqn:E; [lens; lia|].
  change (put32 iaid ++ ?R) with ([] ++ put32 iaid ++ R).
  rd4 (@nil N) iaid. rd4 ([] ++ put32 iaid) t1. rd4 (([] ++ put32 iaid) ++ put32 t1) t2.
  rewrite slf_app by (lens; lia). cbn [rbind].
  (* one IAAddr sub-option, then the end of the data *)
  assert (Hf : exists f, length sub = S (S f)).
  { unfold lenN in Hsub. destruct (length sub) as [|[|f]]; try lia. eexists; reflexivity. }
  destruct Hf as [f Hf]. rewrite Hf. cbn [ia_loop].
  destruct (4 <=? lenN sub) eqn:E4; [|lia]. subst sub.
  change (put16 5 ++ ?R) with ([] ++ put16 5 ++ R).
  rd2 (@nil N) 5. rd2 ([] ++ put16 5) 24. cbv zeta.
  match goal with |- context [if lenN ?L <? 4 + 24 then _ else _] => destruct (lenN L <? 4 + 24) eqn:E5; [lens; lia|] end.
  change ((5 =? 5) && (24 <=? 24)) with true. cbv iota.
  rewrite (rdbytes (([] ++ put16 5) ++ put16 24) addr) by (lens; lia). cbn [rbind].
  rewrite (app_assoc _ addr). rd4 ((([] ++ put16 5) ++ put16 24) ++ addr) pref.
  rewrite <- (app_nil_r (put32 valid)).
  rd4 (((([] ++ put16 5) ++ put16 24) ++ addr) ++ put32 pref) valid. cbn [ia_iaid ia_t1 ia_t2].
  rewrite slf_app by (lens; lia). cbn [rbind].
  destruct f; cbn [ia_loop]; reflexivity.
Qed.

Lemma iapd_roundtrip a prefix : wf_ia a = true -> ia_addr a = Some prefix ->
  parse_ia true (build_iapd a prefix) = Ok (Some a).
Proof.
  destruct a as [iaid t1 t2 ad plen pref valid]. unfold wf_ia. cbn [ia_iaid ia_t1 ia_t2 ia_addr ia_plen ia_pref ia_valid].
  intros Hwf ->. cbv iota beta in Hwf. unfold parse_ia, build_iapd. cbn [ia_iaid ia_t1 ia_t2 ia_addr ia_plen ia_pref ia_valid].
  set (sub := put16 26 ++ put16 25 ++ put32 pref ++ put32 valid ++ plen :: prefix).
  assert (Hsub : lenN sub = 29) by (subst sub; lens; lia).
  destruct (lenN (put32 iaid ++ put32 t1 ++ put32 t2 ++ sub) <? 12) eqn:E; [lens; lia|].
  change (put32 iaid ++ ?R) with ([] ++ put32 iaid ++ R).
  rd4 (@nil N) iaid. rd4 ([] ++ put32 iaid) t1. rd4 (([] ++ put32 iaid) ++ put32 t1) t2.
  rewrite slf_app by (lens; lia). cbn [rbind].
  assert (Hf : exists f, length sub = S (S f)).
  { unfold lenN in Hsub. destruct (length sub) as [|[|f]]; try lia. eexists; reflexivity. }
  destruct Hf as [f Hf]. rewrite Hf. cbn [ia_loop].
  destruct (4 <=? lenN sub) eqn:E4; [|lia]. subst sub.
  change (put16 26 ++ ?R) with ([] ++ put16 26 ++ R).
  rd2 (@nil N) 26. rd2 ([] ++ put16 26) 25. cbv zeta.
  match goal with |- context [if lenN ?L <? 4 + 25 then _ else _] => destruct (lenN L <? 4 + 25) eqn:E5; [lens; lia|] end.
  change ((26 =? 26) && (25 <=? 25)) with true. cbv iota.
  rd4 (([] ++ put16 26) ++ put16 25) pref. rd4 ((([] ++ put16 26) ++ put16 25) ++ put32 pref) valid.
  rewrite rd8 by (lens; lia). cbn [rbind].
  replace (((((([] ++ put16 26) ++ put16 25) ++ put32 pref) ++ put32 valid) ++ plen :: prefix))
    with (((((([] ++ put16 26) ++ put16 25) ++ put32 pref) ++ put32 valid) ++ [plen]) ++ prefix ++ [])
    by (rewrite app_nil_r, <- (app_assoc _ [plen] prefix); reflexivity).
  rewrite (rdbytes _ prefix []); [| lens; lia | lens; lia]. cbn [rbind ia_iaid ia_t1 ia_t2].
  rewrite (app_assoc _ prefix []). rewrite slf_app by (lens; lia). cbn [rbind].
  destruct f; cbn [ia_loop]; reflexivity.
Qed.

(* DNS servers: 16-byte addresses back to back *)
Definition wf_addrs (l : list bytes) : bool := forallb (fun a => lenN a =? 16) l.
Lemma dns_loop_build : forall l fuel pre, wf_addrs l = true -> (length l < fuel)%nat ->
  dns_loop fuel (lenN pre) (pre ++ concat l) = Ok l.
Proof.
  induction l as [|a r IH]; intros fuel pre Hwf Hf.
  - destruct fuel; [cbn in Hf; lia|]. cbn [concat dns_loop]. rewrite app_nil_r.
    destruct (lenN pre + 16 <=? lenN pre) eqn:E; [lia|reflexivity].
  - destruct fuel; [lia|]. cbn [wf_addrs forallb] in Hwf. apply andb_prop in Hwf. destruct Hwf as [Ha Hr].
    cbn [concat dns_loop].
    destruct (lenN pre + 16 <=? lenN (pre ++ a ++ concat r)) eqn:E; [|lens; lia].
    rewrite (rdbytes pre a (concat r)) by lia. cbn [rbind].
    rewrite app_assoc. replace (lenN pre + 16) with (lenN (pre ++ a)) by (lens; lia).
    rewrite IH; [reflexivity|exact Hr|cbn [length] in Hf; lia].
Qed.
Lemma concat_length_ge (l : list bytes) : wf_addrs l = true -> lenN (concat l) = 16 * N.of_nat (length l).
Proof.
  induction l as [|a r IH]; intros H; [reflexivity|].
  cbn [wf_addrs forallb] in H. apply andb_prop in H. destruct H as [Ha Hr].
  cbn [concat length]. lens. rewrite IH by exact Hr. lia.
Qed.
Lemma dns_roundtrip l : wf_addrs l = true -> l <> [] -> parse_dns6 (concat l) = Ok l.
Proof.
  intros Hwf Hne. unfold parse_dns6. pose proof (concat_length_ge l Hwf) as HL.
  destruct l as [|a r]; [congruence|].
  destruct (lenN (concat (a :: r)) <? 16) eqn:E; [cbn [length] in HL; lia|].
  apply (dns_loop_build (a :: r) _ []); [exact Hwf|]. unfold lenN in HL. cbn [length] in *. lia.
Qed.

(* pkg/dhcp6/serialize.go Response.Serialize, then ParseMessage *)
Record resp6 := mkR6 { rs_type : N; rs_xid : bytes; rs_client : bytes; rs_server : bytes;
                       rs_iana : option ia; rs_iapd : option ia; rs_dns : list bytes;
                       rs_status : option (N * bytes); rs_extras : list (N * bytes) }.
Definition ia_opt (code : N) (pd : bool) (o : option ia) : list (N * bytes) :=
  match o with
  | Some a => match ia_addr a with
              | Some x => [(code, if pd then build_iapd a x else build_iana a x)]
              | None => []        (* Serialize skips an IA without address / prefix *)
              end
  | None => []
  end.
Definition resp_opts (r : resp6) : list (N * bytes) :=
  [(1, rs_client r); (2, rs_server r)] ++ ia_opt 3 false (rs_iana r) ++ ia_opt 25 true (rs_iapd r)
  ++ (match rs_dns r with [] => [] | d0 :: dr => [(23, concat (d0 :: dr))] end)
  ++ (match rs_status r with Some (c, m) => [(13, put16 c ++ m)] | None => [] end)
  ++ rs_extras r.
Definition serialize6 (r : resp6) : bytes := rs_type r :: rs_xid r ++ build_opts6 (resp_opts r).
Definition known6 (c : N) : bool :=
  (c =? 1) || (c =? 2) || (c =? 3) || (c =? 25) || (c =? 23) || (c =? 18) || (c =? 37) || (c =? 79) || (c =? 14) || (c =? 13).
Definition wf_ia_opt (pd : bool) (o : option ia) : bool :=
  match o with Some a => wf_ia a && (pd || (ia_plen a =? 0)) | None => true end.
Definition wf_resp (r : resp6) : bool :=
  (lenN (rs_xid r) =? 3) && (lenN (rs_client r) <? 65536) && (lenN (rs_server r) <? 65536) &&
  wf_ia_opt false (rs_iana r) && wf_ia_opt true (rs_iapd r) &&
  wf_addrs (rs_dns r) && (N.of_nat (length (rs_dns r)) <? 4096) &&
  (match rs_status r with Some (c, m) => (c <? 65536) && (lenN m + 2 <? 65536) | None => true end) &&
  forallb (fun cd => wf_opt6 cd && negb (known6 (fst cd))) (rs_extras r).
Definition resp_expected (r : resp6) : msg6 :=
  mkM6 (rs_type r) (rs_xid r)
       (mkO6 (Some (rs_client r)) (Some (rs_server r)) (rs_iana r) (rs_iapd r) (rs_dns r) None None None false (rs_status r)).

Lemma opts6_fold_app : forall a b o, opts6_fold (a ++ b) o = (o' <- opts6_fold a o;; opts6_fold b o').
Proof.
  induction a as [|[c d] r IH]; intros b o; cbn [app opts6_fold rbind]; [reflexivity|].
  destruct (opt6_apply o c d); cbn [rbind]; auto.
Qed.
Lemma opt6_apply_unknown o c d : known6 c = false -> opt6_apply o c d = Ok o.
Proof.
  unfold known6, opt6_apply. intros H.
  repeat (apply Bool.orb_false_elim in H; let H2 := fresh "K" in destruct H as [H H2]; rewrite ?H2).
  rewrite H. reflexivity.
Qed.
Lemma extras_fold : forall l o, forallb (fun cd => wf_opt6 cd && negb (known6 (fst cd))) l = true ->
  opts6_fold l o = Ok o.
Proof.
  induction l as [|[c d] r IH]; intros o H; [reflexivity|].
  cbn [forallb fst] in H. apply andb_prop in H. destruct H as [H1 H2]. apply andb_prop in H1. destruct H1 as [_ H1].
  cbn [opts6_fold]. rewrite opt6_apply_unknown by (destruct (known6 c); [discriminate H1|reflexivity]).
  cbn [rbind]. apply IH. exact H2.
Qed.
Lemma opt6_apply_1 o d : opt6_apply o 1 d = Ok (mkO6 (Some d) (o_server o) (o_iana o) (o_iapd o) (o_dns o) (o_ifid o) (o_remote o) (o_clla o) (o_rapid o) (o_status o)).
Proof. reflexivity. Qed.
Lemma opt6_apply_2 o d : opt6_apply o 2 d = Ok (mkO6 (o_client o) (Some d) (o_iana o) (o_iapd o) (o_dns o) (o_ifid o) (o_remote o) (o_clla o) (o_rapid o) (o_status o)).
Proof. reflexivity. Qed.
Lemma opt6_apply_3 o d : opt6_apply o 3 d = (a <- parse_ia false d;; Ok (mkO6 (o_client o) (o_server o) a (o_iapd o) (o_dns o) (o_ifid o) (o_remote o) (o_clla o) (o_rapid o) (o_status o))).
Proof. reflexivity. Qed.
Lemma opt6_apply_25 o d : opt6_apply o 25 d = (a <- parse_ia true d;; Ok (mkO6 (o_client o) (o_server o) (o_iana o) a (o_dns o) (o_ifid o) (o_remote o) (o_clla o) (o_rapid o) (o_status o))).
Proof. reflexivity. Qed.
Lemma opt6_apply_23 o d : opt6_apply o 23 d = (l <- parse_dns6 d;; Ok (mkO6 (o_client o) (o_server o) (o_iana o) (o_iapd o) l (o_ifid o) (o_remote o) (o_clla o) (o_rapid o) (o_status o))).
Proof. reflexivity. Qed.
Lemma opt6_apply_13 o c m : c < 65536 -> opt6_apply o 13 (put16 c ++ m) =
  Ok (mkO6 (o_client o) (o_server o) (o_iana o) (o_iapd o) (o_dns o) (o_ifid o) (o_remote o) (o_clla o) (o_rapid o) (Some (c, m))).
Proof.
  intros Hc. unfold opt6_apply. cbn [N.eqb Pos.eqb].
  destruct (2 <=? lenN (put16 c ++ m)) eqn:E; [|lens; lia].
  pose proof (rd16 [] c m 0 2 eq_refl eq_refl Hc) as R. cbn [app] in R. rewrite R. cbn [rbind].
  rewrite slf_app by reflexivity. reflexivity.
Qed.

Lemma resp_opts_fold r : wf_resp r = true ->
  opts6_fold (resp_opts r) opts6_0 = Ok (m_opts (resp_expected r)).
Proof.
  unfold wf_resp, resp_opts, resp_expected. cbn [m_opts]. intros H.
  repeat (apply andb_prop in H; let H2 := fresh "W" in destruct H as [H H2]).
  rewrite !opts6_fold_app. cbn [opts6_fold]. rewrite opt6_apply_1. cbn [rbind]. rewrite opt6_apply_2. cbn [rbind o_client o_server o_iana o_iapd o_dns o_ifid o_remote o_clla o_rapid o_status opts6_0].
  (* IA_NA *)
  assert (Hna : opts6_fold (ia_opt 3 false (rs_iana r)) (mkO6 (Some (rs_client r)) (Some (rs_server r)) None None [] None None None false None)
                = Ok (mkO6 (Some (rs_client r)) (Some (rs_server r)) (rs_iana r) None [] None None None false None)).
  { destruct (rs_iana r) as [a|]; [|reflexivity]. cbn [wf_ia_opt orb] in W4. apply andb_prop in W4. destruct W4 as [Wa Wp].
    unfold ia_opt. pose proof Wa as Wa0. unfold wf_ia in Wa. destruct (ia_addr a) as [x|] eqn:Ex; [|lia].
    cbn [opts6_fold]. rewrite opt6_apply_3, (iana_roundtrip a x Wa0 Ex) by lia. reflexivity. }
  rewrite opts6_fold_app, Hna. cbn [rbind].
  assert (Hpd : opts6_fold (ia_opt 25 true (rs_iapd r)) (mkO6 (Some (rs_client r)) (Some (rs_server r)) (rs_iana r) None [] None None None false None)
                = Ok (mkO6 (Some (rs_client r)) (Some (rs_server r)) (rs_iana r) (rs_iapd r) [] None None None false None)).
  { destruct (rs_iapd r) as [a|]; [|reflexivity]. cbn [wf_ia_opt orb] in W3. apply andb_prop in W3. destruct W3 as [Wa _].
    unfold ia_opt. pose proof Wa as Wa0. unfold wf_ia in Wa. destruct (ia_addr a) as [x|] eqn:Ex; [|lia].
    cbn [opts6_fold]. rewrite opt6_apply_25, (iapd_roundtrip a x Wa0 Ex). reflexivity. }
  rewrite opts6_fold_app, Hpd. cbn [rbind].
  destruct (rs_dns r) as [|d0 dr] eqn:Ed; destruct (rs_status r) as [[c m]|] eqn:Es;
    cbn [app opts6_fold];
    rewrite ?opt6_apply_23, ?dns_roundtrip by (try assumption; discriminate); cbn [rbind];
    rewrite ?opt6_apply_13 by lia; cbn [rbind];
    cbn [o_client o_server o_iana o_iapd o_dns o_ifid o_remote o_clla o_rapid o_status];
    apply extras_fold; assumption.
Qed.
Lemma resp_opts_wf r : wf_resp r = true -> wf_opts6 (resp_opts r) = true.
Proof.
  unfold wf_resp, resp_opts, wf_opts6. intros H.
  repeat (apply andb_prop in H; let H2 := fresh "W" in destruct H as [H H2]).
  cbn [app forallb]. rewrite !forallb_app. unfold wf_opt6 at 1 2. cbn [fst snd].
  assert (Hx : forallb wf_opt6 (rs_extras r) = true).
  { clear -W. induction (rs_extras r) as [|x l IH]; [reflexivity|]. cbn [forallb] in *.
    apply andb_prop in W. destruct W as [W1 W2]. apply andb_prop in W1. destruct W1 as [W1 _].
    rewrite W1, IH by assumption. reflexivity. }
  assert (Hna : forallb wf_opt6 (ia_opt 3 false (rs_iana r)) = true).
  { unfold ia_opt. destruct (rs_iana r) as [a|]; [|reflexivity]. cbn [wf_ia_opt] in W4.
    apply andb_prop in W4. destruct W4 as [Wa _]. unfold wf_ia in Wa.
    destruct (ia_addr a) as [x|]; [|reflexivity]. cbn [forallb]. unfold wf_opt6, build_iana. cbn [fst snd]. lens. lia. }
  assert (Hpd : forallb wf_opt6 (ia_opt 25 true (rs_iapd r)) = true).
  { unfold ia_opt. destruct (rs_iapd r) as [a|]; [|reflexivity]. cbn [wf_ia_opt] in W3.
    apply andb_prop in W3. destruct W3 as [Wa _]. unfold wf_ia in Wa.
    destruct (ia_addr a) as [x|]; [|reflexivity]. cbn [forallb]. unfold wf_opt6, build_iapd. cbn [fst snd]. lens. lia. }
  repeat (apply andb_true_intro; split); try exact Hx; try exact Hna; try exact Hpd; try lia.
  - destruct (rs_dns r) as [|d0 dr] eqn:Ed; [reflexivity|]. cbn [forallb]. unfold wf_opt6. cbn [fst snd].
    pose proof (concat_length_ge (d0 :: dr) W2) as HL. rewrite HL. lia.
  - destruct (rs_status r) as [[c m]|]; [|reflexivity]. cbn [forallb]. unfold wf_opt6. cbn [fst snd]. lens. lia.
Qed.
Lemma dhcp6_roundtrip r : wf_resp r = true -> parse_message6 (serialize6 r) = Ok (resp_expected r).
Proof.
  intros Hwf. pose proof Hwf as Hwf0. unfold wf_resp in Hwf.
  assert (Hx : lenN (rs_xid r) = 3) by lia.
  unfold parse_message6, serialize6.
  set (opts := build_opts6 (resp_opts r)).
  destruct (lenN (rs_type r :: rs_xid r ++ opts) <? 4) eqn:E; [lens; lia|].
  rewrite idx0. cbn [rbind].
  rewrite (rdbytes [rs_type r] (rs_xid r) opts) by (lens; lia). cbn [rbind].
  change (rs_type r :: rs_xid r ++ opts) with ((rs_type r :: rs_xid r) ++ opts).
  rewrite slf_app by (lens; lia). cbn [rbind]. subst opts.
  rewrite options6_roundtrip by (apply resp_opts_wf; exact Hwf0).
  rewrite resp_opts_fold by exact Hwf0. reflexivity.
Qed.

(* ------------------------------------------------------------------ *)
(* option 82 sub-options: relay.BuildOption82 (circuit-id, remote-id, optional flags), then parseOption82 *)
Fixpoint sub82_fold (l : list (N * bytes)) (c r : option bytes) : option bytes * option bytes :=
  match l with
  | [] => (c, r)
  | (t, v) :: q => if t =? 1 then sub82_fold q (Some v) r else if t =? 2 then sub82_fold q c (Some v) else sub82_fold q c r
  end.
Lemma sub82_loop_build : forall l fuel pre c r, wf_subs l = true -> (length l < fuel)%nat ->
  sub82_loop fuel (lenN pre) (pre ++ build_subs l) c r = Ok (sub82_fold l c r).
Proof.
  induction l as [|[t v] q IH]; intros fuel pre c r Hwf Hf.
  - destruct fuel; [cbn in Hf; lia|]. cbn [build_subs sub82_loop sub82_fold]. rewrite app_nil_r.
    destruct (lenN pre <? lenN pre) eqn:E; [lia|reflexivity].
  - destruct fuel; [lia|]. cbn [wf_subs forallb snd] in Hwf. apply andb_prop in Hwf. destruct Hwf as [Hw Hr].
    cbn [build_subs sub82_loop sub82_fold]. rewrite byte_of_small by lia.
    set (rest := build_subs q).
    destruct (lenN pre <? lenN (pre ++ t :: lenN v :: v ++ rest)) eqn:E0; [|lens; lia].
    destruct (lenN (pre ++ t :: lenN v :: v ++ rest) <=? lenN pre + 1) eqn:E1; [lens; lia|].
    rewrite rd8 by reflexivity. cbn [rbind].
    replace (pre ++ t :: lenN v :: v ++ rest) with ((pre ++ [t]) ++ lenN v :: v ++ rest)
      by (rewrite <- app_assoc; reflexivity).
    rewrite (rd8 (pre ++ [t])) by (lens; lia). cbn [rbind].
    destruct (lenN ((pre ++ [t]) ++ lenN v :: v ++ rest) <? lenN pre + 2 + lenN v) eqn:E2; [lens; lia|].
    replace ((pre ++ [t]) ++ lenN v :: v ++ rest) with ((pre ++ [t; lenN v]) ++ v ++ rest)
      by (rewrite <- !app_assoc; reflexivity).
    rewrite (rdbytes (pre ++ [t; lenN v]) v rest) by (lens; lia). cbn [rbind].
    replace ((pre ++ [t; lenN v]) ++ v ++ rest) with ((pre ++ t :: lenN v :: v) ++ rest)
      by (rewrite <- !app_assoc; reflexivity).
    replace (lenN pre + 2 + lenN v) with (lenN (pre ++ t :: lenN v :: v)) by (lens; lia).
    cbn [length] in Hf.
    destruct (t =? 1); [apply IH; [exact Hr|lia]|].
    destruct (t =? 2); apply IH; try exact Hr; lia.
Qed.
Lemma sub82_roundtrip l : wf_subs l = true -> parse_sub82 (build_subs l) = Ok (sub82_fold l None None).
Proof.
  intros H. unfold parse_sub82. apply (sub82_loop_build l _ []); [exact H|].
  pose proof (build_subs_length l). lia.
Qed.
(* BuildOption82: option header (82, total) followed by circuit-id, remote-id and optionally the flags sub-option *)
Definition build_opt82 (circuit remote : bytes) (flags : option N) : bytes :=
  let body := build_subs ([(1, circuit); (2, remote)] ++ match flags with Some f => [(10, [f])] | None => [] end) in
  82 :: byte_of (lenN body) :: body.
Lemma opt82_roundtrip circuit remote flags :
  lenN circuit <? 256 = true -> lenN remote <? 256 = true ->
  exists body, build_opt82 circuit remote flags = 82 :: byte_of (lenN body) :: body /\
               parse_sub82 body = Ok (Some circuit, Some remote).
Proof.
  intros Hc Hr. unfold build_opt82. eexists. split; [reflexivity|].
  rewrite sub82_roundtrip.
  - destruct flags; reflexivity.
  - destruct flags; cbn [app wf_subs forallb snd]; rewrite Hc, Hr; reflexivity.
Qed.

(* ------------------------------------------------------------------ *)
(* DHCPv4: plugins/dhcp4/local buildDHCPv4Reply + optionWriter.addByte, then dhcp4.ParseMessage *)
Fixpoint add_byte (fuel : nat) (t : N) (d : bytes) : bytes :=
  match fuel with
  | O => []
  | S f => if 255 <? lenN d then t :: 255 :: firstn 255 d ++ add_byte f t (skipn 255 d)
           else t :: byte_of (lenN d) :: d
  end.
Definition add_opt (t : N) (d : bytes) : bytes := add_byte (S (length d)) t d.
Fixpoint build_opts4 (l : list (N * bytes)) : bytes :=
  match l with [] => [] | (t, d) :: r => add_opt t d ++ build_opts4 r end.
Definition build_reply4 (xid : N) (ci yi si ch : bytes) (mt : N) (opts : list (N * bytes)) : bytes :=
  [2; 1; 6; 0] ++ put32 xid ++ put16 0 ++ put16 0 ++ ci ++ yi ++ si ++ repeat 0 4 ++
  ch ++ repeat 0 (16 - length ch) ++ repeat 0 64 ++ repeat 0 128 ++ put32 1669485411 ++
  build_opts4 ((53, [mt]) :: opts) ++ [255].

Fixpoint o4_fold (l : list (N * bytes)) (o : o4) : result o4 :=
  match l with [] => Ok o | (t, d) :: r => o' <- o4_apply o t (lenN d) d;; o4_fold r o' end.
Definition wf_opt4 (td : N * bytes) : bool :=
  negb (fst td =? 0) && negb (fst td =? 255) && (lenN (snd td) <? 256).
Definition wf_opts4 (l : list (N * bytes)) : bool := forallb wf_opt4 l.

Lemma add_opt_small t d : lenN d < 256 -> add_opt t d = t :: lenN d :: d.
Proof.
  intros H. unfold add_opt. cbn [add_byte]. destruct (255 <? lenN d) eqn:E; [lia|].
  rewrite byte_of_small by lia. reflexivity.
Qed.
Lemma build_opts4_small l : wf_opts4 l = true -> build_opts4 l = build_subs l.
Proof.
  induction l as [|[t d] r IH]; intros H; [reflexivity|].
  cbn [wf_opts4 forallb] in H. apply andb_prop in H. destruct H as [Hw Hr]. unfold wf_opt4 in Hw. cbn [fst snd] in Hw.
  cbn [build_opts4 build_subs]. rewrite add_opt_small by lia. rewrite IH by exact Hr.
  rewrite byte_of_small by lia. reflexivity.
Qed.
Lemma o4_loop_build : forall l fuel tail o, wf_opts4 l = true -> (length l < fuel)%nat ->
  o4_loop fuel (build_subs l ++ 255 :: tail) o = o4_fold l o.
Proof.
  induction l as [|[t d] r IH]; intros fuel tail o Hwf Hf.
  - destruct fuel; [cbn in Hf; lia|]. cbn [build_subs app o4_loop o4_fold].
    destruct (2 <=? lenN (255 :: tail)); [|reflexivity]. rewrite idx0. reflexivity.
  - destruct fuel; [lia|]. cbn [wf_opts4 forallb] in Hwf. apply andb_prop in Hwf. destruct Hwf as [Hw Hr].
    unfold wf_opt4 in Hw. cbn [fst snd] in Hw.
    cbn [build_subs o4_loop o4_fold]. rewrite byte_of_small by lia.
    set (rest := build_subs r ++ 255 :: tail).
    change ((t :: lenN d :: d ++ build_subs r) ++ 255 :: tail) with (t :: lenN d :: (d ++ build_subs r) ++ 255 :: tail).
    rewrite <- app_assoc. fold rest.
    destruct (2 <=? lenN (t :: lenN d :: d ++ rest)) eqn:E0; [|lens; lia].
    rewrite idx0. cbn [rbind].
    destruct (t =? 255) eqn:E1; [lia|]. destruct (t =? 0) eqn:E2; [lia|].
    rewrite idx1. cbn [rbind].
    destruct (lenN (t :: lenN d :: d ++ rest) <? 2 + lenN d) eqn:E3; [lens; lia|].
    rewrite (rdbytes [t; lenN d] d rest) by (lens; lia). cbn [rbind].
    destruct (o4_apply o t (lenN d) d) as [o'| | |]; cbn [rbind]; try reflexivity.
    change (t :: lenN d :: d ++ rest) with ((t :: lenN d :: d) ++ rest).
    rewrite slf_app by (lens; lia). cbn [rbind].
    subst rest. apply IH; [exact Hr|cbn [length] in Hf; lia].
Qed.

Definition wf_reply4 (xid : N) (ci yi si ch : bytes) (opts : list (N * bytes)) : bool :=
  (xid <? 4294967296) && (lenN ci =? 4) && (lenN yi =? 4) && (lenN si =? 4) && (lenN ch =? 6) && wf_opts4 opts.
Lemma idx2 a b c l : idx 2 (a :: b :: c :: l) = Ok c.
Proof. reflexivity. Qed.
Lemma idx3 a b c d l : idx 3 (a :: b :: c :: d :: l) = Ok d.
Proof. reflexivity. Qed.

Ltac rdb P M := rewrite (rdbytes P M) by (lens; lia); cbn [rbind]; rewrite (app_assoc P M).

Lemma dhcp4_roundtrip xid ci yi si ch mt opts : wf_reply4 xid ci yi si ch opts = true ->
  parse_message4 (build_reply4 xid ci yi si ch mt opts) =
  (o <- o4_fold ((53, [mt]) :: opts) o4_0;;
   Ok (mkM4 2 1 6 0 xid 0 0 ci yi si (repeat 0 4) ch (repeat 0 64) (repeat 0 128) true o)).
Proof.
  unfold wf_reply4. intros H.
  repeat (apply andb_prop in H; let H2 := fresh "W" in destruct H as [H H2]).
  assert (Hch : length ch = 6%nat) by (unfold lenN in *; lia).
  unfold parse_message4, build_reply4. rewrite Hch. change (16 - 6)%nat with 10%nat.
  assert (Hwf : wf_opts4 ((53, [mt]) :: opts) = true) by (unfold wf_opts4 in *; cbn [forallb]; rewrite W; reflexivity).
  rewrite build_opts4_small by exact Hwf.
  set (ob := build_subs ((53, [mt]) :: opts) ++ [255]).
  match goal with |- context [lenN ?L <? 240] => destruct (lenN L <? 240) eqn:E; [lens; lia|] end.
  cbn [app]. rewrite idx0, idx1, idx2, idx3. cbn [rbind].
  change (2 :: 1 :: 6 :: 0 :: ?R) with ([2; 1; 6; 0] ++ R).
  rd4 [2; 1; 6; 0] xid. rd2 ([2; 1; 6; 0] ++ put32 xid) 0. rd2 (([2; 1; 6; 0] ++ put32 xid) ++ put16 0) 0.
  rdb ((([2; 1; 6; 0] ++ put32 xid) ++ put16 0) ++ put16 0) ci.
  rdb (((([2; 1; 6; 0] ++ put32 xid) ++ put16 0) ++ put16 0) ++ ci) yi.
  rdb ((((([2; 1; 6; 0] ++ put32 xid) ++ put16 0) ++ put16 0) ++ ci) ++ yi) si.
  rdb (((((([2; 1; 6; 0] ++ put32 xid) ++ put16 0) ++ put16 0) ++ ci) ++ yi) ++ si) (repeat 0 4).
  change (if 16 <? 6 then 16 else 6) with 6.
  rdb ((((((([2; 1; 6; 0] ++ put32 xid) ++ put16 0) ++ put16 0) ++ ci) ++ yi) ++ si) ++ repeat 0 4) ch.
  rewrite (app_assoc _ (repeat 0 10)).
  rdb ((((((((([2; 1; 6; 0] ++ put32 xid) ++ put16 0) ++ put16 0) ++ ci) ++ yi) ++ si) ++ repeat 0 4) ++ ch) ++ repeat 0 10) (repeat 0 64).
  rdb (((((((((([2; 1; 6; 0] ++ put32 xid) ++ put16 0) ++ put16 0) ++ ci) ++ yi) ++ si) ++ repeat 0 4) ++ ch) ++ repeat 0 10) ++ repeat 0 64) (repeat 0 128).
  rd4 ((((((((((([2; 1; 6; 0] ++ put32 xid) ++ put16 0) ++ put16 0) ++ ci) ++ yi) ++ si) ++ repeat 0 4) ++ ch) ++ repeat 0 10) ++ repeat 0 64) ++ repeat 0 128) 1669485411.
  change (negb (1669485411 =? 1669485411)) with false. cbv iota.
  rewrite slf_app by (lens; lia). cbn [rbind].
  subst ob. change [255] with (255 :: @nil N).
  rewrite o4_loop_build; [reflexivity|exact Hwf|].
  rewrite app_length. pose proof (build_subs_length ((53, [mt]) :: opts)). lia.
Qed.

(* RFC 3396 splitting in the builder vs. a parser that does not concatenate: a value longer than 255 bytes does NOT
   come back.  Witness: 64 DNS servers (256 bytes) are written as 255 + 1 bytes; the parser reads 63 servers from the
   first fragment, drops its 3 trailing bytes and finds no server in the second. *)
Definition dns64 : bytes := map N.of_nat (seq 0 256).
Lemma dhcp4_split_refuted :
  exists m, parse_message4 (build_reply4 1 [0; 0; 0; 0] [10; 0; 0; 2] [10; 0; 0; 1] [2; 0; 0; 0; 0; 1] 5 [(6, dns64)]) = Ok m /\
            length (q_dns (w_opts m)) = 63%nat /\ lenN dns64 = 4 * 64.
Proof. eexists. split; [vm_compute; reflexivity|]. split; vm_compute; reflexivity. Qed.
Lemma dhcp4_roundtrip_nonvacuous :
  wf_reply4 305419896 [0; 0; 0; 0] [10; 0; 0; 2] [10; 0; 0; 1] [2; 0; 0; 0; 0; 1]
            [(54, [10; 0; 0; 1]); (51, [0; 0; 14; 16]); (1, [255; 255; 255; 0]); (3, [10; 0; 0; 1]); (6, [8; 8; 8; 8; 1; 1; 1; 1])] = true /\
  (exists o, o4_fold [(53, [5]); (54, [10; 0; 0; 1]); (51, [0; 0; 14; 16]); (1, [255; 255; 255; 0]); (3, [10; 0; 0; 1]);
                      (6, [8; 8; 8; 8; 1; 1; 1; 1])] o4_0 = Ok o /\
             q_type o = 5 /\ q_lease o = 3600 /\ q_dns o = [[8; 8; 8; 8]; [1; 1; 1; 1]]).
Proof. split; [vm_compute; reflexivity|]. eexists. split; [vm_compute; reflexivity|]. cbn. repeat split; reflexivity. Qed.

(* ------------------------------------------------------------------ *)
(* driver entry for the build -> parse correspondence cases (Go builder output fed to the Go parser) *)
Fixpoint zip_avps (ns : list N) (bs : list bytes) : list avp :=
  match ns, bs with
  | m :: vid :: ty :: r, v :: bs' => mkAvp (negb (m =? 0)) false vid ty v :: zip_avps r bs'
  | _, _ => []
  end.
Definition nb (n : N) : bool := negb (n =? 0).
Definition run_build (entry : N) (na : list N) (ba : list bytes) : result (list tok) :=
  if entry =? 80 then
    let b := build_tags (combine na ba) in rmap (fun t => TB b :: tags_toks t) (parse_tags b)
  else if entry =? 81 then
    let b := build_avps (zip_avps na ba) in rmap (fun x => TB b :: avp_toks x) (parse_avps b)
  else if entry =? 82 then
    let h := mkL2 (nb (arg 0 na)) (nb (arg 1 na)) (nb (arg 2 na)) (nb (arg 3 na)) (nb (arg 4 na)) (arg 5 na) 0
                  (arg 6 na) (arg 7 na) (arg 8 na) (arg 9 na) (arg 10 na) 0 in
    let body := barg 0 ba in
    let b := l2tp_append h (lenN body) ++ body in rmap (fun x => TB b :: l2_toks x) (l2tp_parse b)
  else if entry =? 83 then
    let p := mkRF (arg 0 na) (barg 0 ba) (barg 1 ba) (barg 2 ba) (barg 3 ba) (arg 1 na) (barg 4 ba) in
    let b := wrap_all (repeat p (N.to_nat (arg 2 na))) (barg 5 ba) in
    rmap (fun mi => TB b :: msg6_toks (fst mi) ++ ri_toks (snd mi)) (unwrap_relay_top b)
  else if entry =? 84 then
    let iana := if nb (arg 1 na) then Some (mkIA (arg 2 na) (arg 3 na) (arg 4 na) (Some (barg 3 ba)) 0 (arg 5 na) (arg 6 na)) else None in
    let iapd := if nb (arg 7 na) then Some (mkIA (arg 8 na) (arg 9 na) (arg 10 na) (Some (barg 4 ba)) (arg 13 na) (arg 11 na) (arg 12 na)) else None in
    let st := if nb (arg 14 na) then Some (arg 15 na, barg 5 ba) else None in
    let ndns := N.to_nat (arg 16 na) in
    let dns := firstn ndns (skipn 6 ba) in
    let extras := combine (skipn 17 na) (skipn (6 + ndns) ba) in
    let r := mkR6 (arg 0 na) (barg 0 ba) (barg 1 ba) (barg 2 ba) iana iapd dns st extras in
    let b := serialize6 r in rmap (fun m => TB b :: msg6_toks (Some m)) (parse_message6 b)
  else if entry =? 85 then
    Ok [TB (build_opt82 (barg 0 ba) (barg 1 ba) (if nb (arg 0 na) then Some (arg 1 na) else None))]
  else if entry =? 86 then
    let b := build_reply4 (arg 0 na) (barg 0 ba) (barg 1 ba) (barg 2 ba) (barg 3 ba) (arg 1 na)
                          (combine (skipn 2 na) (skipn 4 ba)) in
    rmap (fun m => TB b :: msg4_toks m) (parse_message4 b)
  else Err 99.

(* ------------------------------------------------------------------ *)
(* non-vacuity: concrete well-formed values and what they serialise to *)
Lemma tags_roundtrip_nonvacuous :
  wf_tags [(257, [105; 115; 112]); (259, [1; 2; 3; 4]); (261, put32 3561 ++ build_subs [(1, [97; 98]); (2, [99])]); (288, [5; 220])] = true /\
  (exists t, parse_tags (build_tags [(257, [105; 115; 112]); (259, [1; 2; 3; 4]);
                                      (261, put32 3561 ++ build_subs [(1, [97; 98]); (2, [99])]); (288, [5; 220])]) = Ok t /\
             t_service t = [105; 115; 112] /\ t_hostuniq t = Some [1; 2; 3; 4] /\ t_circuit t = [97; 98] /\
             t_remote t = [99] /\ t_maxpayload t = 1500).
Proof. split; [vm_compute; reflexivity|]. eexists. split; [vm_compute; reflexivity|]. cbn. repeat split; reflexivity. Qed.
Lemma avps_roundtrip_nonvacuous :
  wf_avps [mkAvp true false 0 0 [0; 1]; mkAvp false false 3561 65535 (repeat 7 1017)] = true /\
  lenN (build_avps [mkAvp true false 0 0 [0; 1]; mkAvp false false 3561 65535 (repeat 7 1017)]) = 1031.
Proof. split; vm_compute; reflexivity. Qed.
Lemma l2tp_roundtrip_nonvacuous :
  wf_l2hdr (mkL2 true true true true false 2 0 7 9 65535 1 3 0) 5 = true /\
  wf_l2hdr (mkL2 false false false false true 2 0 7 9 0 0 0 0) 0 = true /\
  l2tp_append (mkL2 true true true true false 2 0 7 9 65535 1 3 0) 5 =
    [202; 2; 0; 22; 0; 7; 0; 9; 255; 255; 0; 1; 0; 3; 0; 0; 0].
Proof. repeat split; vm_compute; reflexivity. Qed.
Definition ex_resp : resp6 :=
  mkR6 7 [1; 2; 3] [0; 3; 0; 1; 170; 187] [0; 3; 0; 1; 204; 221]
       (Some (mkIA 1 1800 2880 (Some (repeat 32 16)) 0 3600 7200))
       (Some (mkIA 2 1800 2880 (Some (repeat 33 16)) 56 3600 7200))
       [repeat 1 16; repeat 2 16] (Some (0, [111; 107])) [(82, [9; 9]); (1000, [])].
Lemma dhcp6_roundtrip_nonvacuous :
  wf_resp ex_resp = true /\ lenN (serialize6 ex_resp) = 167.
Proof. split; vm_compute; reflexivity. Qed.
Definition ex_rf1 := mkRF 0 (repeat 32 16) (repeat 254 16) [101; 116; 104] [114; 105; 100] 3561 [].
Definition ex_rf2 := mkRF 1 (repeat 33 16) (repeat 253 16) [] [] 0 [115].
Lemma relay_roundtrip_nonvacuous :
  wf_chain [ex_rf2; ex_rf1] [1; 10; 11; 12; 0; 1; 0; 2; 170; 187] = true /\
  hd 0 [1; 10; 11; 12; 0; 1; 0; 2; 170; 187] <> 12 /\
  (exists m, parse_message6 [1; 10; 11; 12; 0; 1; 0; 2; 170; 187] = Ok m /\ o_client (m_opts m) = Some [170; 187]) /\
  lenN (wrap_all [ex_rf2; ex_rf1] [1; 10; 11; 12; 0; 1; 0; 2; 170; 187]) = 109.
Proof.
  split; [vm_compute; reflexivity|]. split; [cbn; lia|]. split; [eexists; split; vm_compute; reflexivity|].
  vm_compute. reflexivity.
Qed.
Lemma opt82_roundtrip_nonvacuous :
  build_opt82 [101; 116; 104; 49] [109; 97; 99] (Some 1) = [82; 14; 1; 4; 101; 116; 104; 49; 2; 3; 109; 97; 99; 10; 1; 1].
Proof. vm_compute. reflexivity. Qed.

(* ------------------------------------------------------------------ *)
(* the fuel hypotheses are met by, and are close to what is needed for, real inputs *)
Definition ex_chain2 : bytes := wrap_all [ex_rf2; ex_rf1] [1; 10; 11; 12; 0; 1; 0; 2; 170; 187].
Lemma fuel_nonvacuous :
  (* DHCPv4 pad options: 7 bytes need fuel 7 = length; the theorem asks for length < fuel, i.e. 8 *)
  (length (repeat 0 7) < 8)%nat /\ o4_loop 7 (repeat 0 7) o4_0 = Ok o4_0 /\ o4_loop 6 (repeat 0 7) o4_0 = OutOfFuel /\
  (* PPP options of length 2: one iteration per two bytes, plus the final test *)
  ppp_opts_loop 4 [1; 2; 1; 2; 1; 2] = Ok [(1, []); (1, []); (1, [])] /\ ppp_opts_loop 3 [1; 2; 1; 2; 1; 2] = OutOfFuel /\
  (* the hypothesis of C07_dhcp6_relay_nesting_shrinks: the walk finds the inner message of a two-level relay chain *)
  (exists inner, find_relay_msg 2 34 ex_chain2 = Ok (Some inner) /\ lenN inner = 66 /\ lenN ex_chain2 = 109 /\ 4 <= 34) /\
  find_relay_msg 1 34 ex_chain2 = OutOfFuel /\
  (* recursion depth: two levels need fuel 2 *)
  unwrap_relay 1 ex_chain2 = OutOfFuel /\ is_crash (unwrap_relay 2 ex_chain2) = false /\ (length ex_chain2 < 110)%nat.
Proof.
  repeat split; try (vm_compute; reflexivity); try (vm_compute; lia).
  eexists. repeat split; try (vm_compute; reflexivity). vm_compute. discriminate.
Qed.

(* ------------------------------------------------------------------ *)
(* PPP control header: code | id | length | data as every sender in the repo frames it (sendPPPPacket, buildPPPPacket),
   then ParsePAPPacket/… and the dispatcher *)
Definition build_ppp (code id : N) (d : bytes) : bytes := code :: id :: put16 (4 + lenN d) ++ d.
Lemma ppp_hdr_roundtrip v code id d : lenN d + 4 < 65536 -> ppp_hdr v (build_ppp code id d) = Ok (code, id, d).
Proof.
  intros H. unfold ppp_hdr, build_ppp.
  assert (Hlen : lenN (code :: id :: put16 (4 + lenN d) ++ d) = 4 + lenN d) by (lens; lia).
  destruct (lenN (code :: id :: put16 (4 + lenN d) ++ d) <? 4) eqn:E0; [lia|].
  rewrite idx0, idx1. cbn [rbind].
  rewrite (rd16 [code; id] (4 + lenN d) d) by (lens; lia). cbn [rbind].
  destruct (lenN (code :: id :: put16 (4 + lenN d) ++ d) <? 4 + lenN d) eqn:E1; [lia|].
  assert (Hv : (match v with Repaired => 4 + lenN d <? 4 | Defective => false end) = false) by (destruct v; lia).
  rewrite Hv.
  assert (Hs : sl 4 (4 + lenN d) (code :: id :: put16 (4 + lenN d) ++ d) = Ok d).
  { replace (code :: id :: put16 (4 + lenN d) ++ d) with ((code :: id :: put16 (4 + lenN d)) ++ d ++ [])
      by (rewrite app_nil_r; reflexivity).
    rewrite (rdbytes (code :: id :: put16 (4 + lenN d)) d []); [reflexivity|lens; lia|lens; lia]. }
  rewrite Hs. reflexivity.
Qed.
Lemma dispatcher_roundtrip v cfg code id d : lenN d + 4 < 65536 ->
  handle_frame v cfg 49187 (build_ppp code id d) = Ok (RPap code id d) /\
  handle_frame v cfg 49699 (build_ppp code id d) = Ok (RChap code id d).
Proof.
  intros H. unfold handle_frame, build_ppp.
  assert (Hlen : lenN (code :: id :: put16 (4 + lenN d) ++ d) = 4 + lenN d) by (lens; lia).
  change (49187 =? 87) with false. change (49699 =? 87) with false. cbv iota.
  destruct (lenN (code :: id :: put16 (4 + lenN d) ++ d) <? 4) eqn:E0; [lia|].
  rewrite idx0, idx1. cbn [rbind].
  rewrite (rd16 [code; id] (4 + lenN d) d) by (lens; lia). cbn [rbind].
  destruct (lenN (code :: id :: put16 (4 + lenN d) ++ d) <? 4 + lenN d) eqn:E1; [lia|].
  assert (Hv : (match v with Repaired => 4 + lenN d <? 4 | Defective => false end) = false) by (destruct v; lia).
  rewrite Hv.
  assert (Hs : sl 4 (4 + lenN d) (code :: id :: put16 (4 + lenN d) ++ d) = Ok d).
  { replace (code :: id :: put16 (4 + lenN d) ++ d) with ((code :: id :: put16 (4 + lenN d)) ++ d ++ [])
      by (rewrite app_nil_r; reflexivity).
    rewrite (rdbytes (code :: id :: put16 (4 + lenN d)) d []); [reflexivity|lens; lia|lens; lia]. }
  rewrite Hs. cbn [rbind]. split; reflexivity.
Qed.

(* ------------------------------------------------------------------ *)
(* L2TP SCCRQ as the LAC side builds it (pkg/l2tp/messages.go BuildSCCRQ: Message Type, Host Name, Assigned Tunnel ID, …),
   parsed and handed to the LNS handler: the host name and the peer's tunnel id come back *)
Definition sccrq_avps (host : bytes) (tid : N) (extra : list avp) : list avp :=
  mkAvp true false 0 0 (put16 1) :: mkAvp true false 0 7 host :: mkAvp true false 0 9 (put16 tid) :: extra.
Lemma decode_u16_put16 m h v t n : n < 65536 -> decode_u16 (mkAvp m h v t (put16 n)) = Ok n.
Proof.
  intros Hn. unfold decode_u16. cbn [a_value].
  pose proof (rd16 [] n [] 0 2 eq_refl eq_refl Hn) as R. cbn [app] in R. rewrite app_nil_r in R. exact R.
Qed.
Lemma sccrq_roundtrip host tid extra :
  tid < 65536 -> lenN host <=? 1017 = true -> wf_avps extra = true ->
  forallb (fun a => negb ((a_vendor a =? 0) && ((a_type a =? 7) || (a_type a =? 9) || (a_type a =? 11)))) extra = true ->
  parse_avps (build_avps (sccrq_avps host tid extra)) = Ok (sccrq_avps host tid extra) /\
  sccrq_extract (sccrq_avps host tid extra) = Ok (Some tid) /\
  option_map a_value (find_first 0 7 (sccrq_avps host tid extra)) = Some host.
Proof.
  intros Ht Hh Hx Hn. split; [|split].
  - apply avps_roundtrip. unfold sccrq_avps, wf_avps. cbn [forallb]. unfold wf_avp at 1 2 3.
    cbn [a_h a_vendor a_type a_value negb]. unfold wf_avps in Hx. rewrite Hx. lens. 
    replace (2 <=? 1017) with true by reflexivity. rewrite Hh. destruct (tid <? 65536) eqn:E; [reflexivity|lia].
  - unfold sccrq_extract, sccrq_avps. cbn [decode_msg_type a_vendor a_type a_value].
    change (negb (0 =? 0) || negb (0 =? 0) || (lenN (put16 1) <? 2)) with false. cbv iota.
    rewrite decode_u16_put16 by lia. cbn [rbind]. change (negb (1 =? 1)) with false. cbv iota.
    unfold find_first. cbn [find a_vendor a_type]. 
    change ((0 =? 0) && (0 =? 7)) with false. change ((0 =? 0) && (7 =? 7)) with true. cbv iota.
    change ((0 =? 0) && (0 =? 9)) with false. change ((0 =? 0) && (7 =? 9)) with false. change ((0 =? 0) && (9 =? 9)) with true. cbv iota.
    cbn [a_value]. change (lenN (put16 tid) <? 2) with false. cbv iota.
    rewrite decode_u16_put16 by lia. cbn [rbind].
    change ((0 =? 0) && (0 =? 11)) with false. change ((0 =? 0) && (7 =? 11)) with false. change ((0 =? 0) && (9 =? 11)) with false. cbv iota.
    assert (Hf : find (fun a : avp => (a_vendor a =? 0) && (a_type a =? 11)) extra = None).
    { clear -Hn. induction extra as [|a r IH]; [reflexivity|]. cbn [forallb find] in *.
      apply andb_prop in Hn. destruct Hn as [Ha Hr]. rewrite (IH Hr).
      destruct ((a_vendor a =? 0) && (a_type a =? 11)) eqn:E; [|reflexivity]. lia. }
    rewrite Hf. reflexivity.
  - unfold sccrq_avps, find_first. cbn [find a_vendor a_type].
    change ((0 =? 0) && (0 =? 7)) with false. change ((0 =? 0) && (7 =? 7)) with true. reflexivity.
Qed.
Lemma sccrq_roundtrip_nonvacuous :
  wf_avps [mkAvp true false 0 2 [1; 0]; mkAvp true false 0 10 (put16 8)] = true /\
  lenN (build_avps (sccrq_avps [108; 97; 99; 49] 4242 [mkAvp true false 0 2 [1; 0]; mkAvp true false 0 10 (put16 8)])) = 42 /\
  peer_rws (sccrq_avps [108; 97; 99; 49] 4242 [mkAvp true false 0 2 [1; 0]; mkAvp true false 0 10 (put16 8)]) = Ok 8.
Proof. repeat split; vm_compute; reflexivity. Qed.
