From Coq Require Import Extraction ExtrOcamlBasic.
From OV Require Import Common.Base C07.Model C07.RoundTrip.
Extraction Language OCaml.
Extraction "C07_model.ml" run run_alts run_build ppp_serialize_options build_tags l2tp_append build_avps pap_build chap_build.
