From Coq Require Import Extraction ExtrOcamlBasic.
From OV Require Import Common.Base C07.Model.
Extraction Language OCaml.
Extraction "C07_model.ml" run ppp_serialize_options build_tags l2tp_append build_avps build_relay_forward pap_build chap_build.
