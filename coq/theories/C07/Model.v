(* C07/Model.v — executable transcriptions of the byte-level parsers of /repo.
   Every Go slice / index expression is a checked [sl]/[slf]/[idx] (Panic exactly when Go
   would panic on a slice whose cap = len); every Go loop is recursion on explicit fuel
   (OutOfFuel = the real loop might not terminate).  Definitions only, no proofs. *)
From OV Require Import Common.Base.
Local Open Scope N_scope.

Definition bytes := list N.
Definition lenN (l : bytes) : N := N.of_nat (length l).
Definition idx (i : N) (l : bytes) : result N := index (N.to_nat i) l.
(* l[lo:hi] and l[lo:] *)
Definition sl (lo hi : N) (l : bytes) : result bytes := slice (N.to_nat lo) (N.to_nat hi) l.
Definition slf (lo : N) (l : bytes) : result bytes := slice (N.to_nat lo) (length l) l.
(* binary.BigEndian.Uint16(l[i:]) / Uint32(l[i:]) *)
Definition u16at (i : N) (l : bytes) : result N :=
  a <- idx i l;; b <- idx (i + 1) l;; Ok (be16 a b).
Definition u32at (i : N) (l : bytes) : result N :=
  a <- idx i l;; b <- idx (i + 1) l;; c <- idx (i + 2) l;; d <- idx (i + 3) l;; Ok (be32 a b c d).

(* Repaired = /repo HEAD; Defective = the code before 7065ffb / 890d5a0 (declared PPP length below 4 panicked), kept only
   for the historical *_refuted / *_repair_conservative theorems; the correspondence check uses Repaired alone *)
Inductive variant := Repaired | Defective.

(* projected observables *)
Inductive tok := TN (n : N) | TB (b : bytes) | TNil.
Definition tob (o : option bytes) : tok := match o with Some b => TB b | None => TNil end.
Definition tbool (b : bool) : tok := TN (if b then 1 else 0).

(* ------------------------------------------------------------------ *)
(* pkg/ppp: ParsePAPPacket / ParseCHAPPacket / ParseIPv6CPPacket (three identical copies) *)
Definition ppp_hdr (v : variant) (data : bytes) : result (N * N * bytes) :=
  if lenN data <? 4 then Err 1 else
  code <- idx 0 data;; id <- idx 1 data;;
  length <- (h <- sl 2 4 data;; u16at 0 h);;
  if lenN data <? length then Err 1 else
  if (match v with Repaired => length <? 4 | Defective => false end) then Err 1 else
  p <- sl 4 length data;; Ok (code, id, p).

(* ------------------------------------------------------------------ *)
(* internal/ppp/dispatcher.go HandleFrame *)
Record dcfg := mk_dcfg { d_net : bool;    (* inNetworkPhase() *)
                         d_v6up : bool;   (* HandleIPv6 != nil && IPv6CP != nil && IPv6CP Opened *)
                         d_fsm : bool }.  (* LCP / IPCP / IPv6CP installed *)
Inductive route :=
| RNone
| RIPv6 (p : bytes)
| REchoReq (id : N) (d : bytes)
| REchoRep (id : N) (d : bytes)
| RProtoRej (proto : N)
| RLcpFsm (code id : N) (d : bytes)
| RPap (code id : N) (d : bytes)
| RChap (code id : N) (d : bytes)
| RIpcpFsm (code id : N) (d : bytes)
| RIpv6cpFsm (code id : N) (d : bytes)
| RUnknown (proto : N) (payload : bytes).

Definition handle_lcp (cfg : dcfg) (code id : N) (data : bytes) : result route :=
  if code =? 9 then Ok (REchoReq id data)
  else if code =? 10 then Ok (REchoRep id data)
  else if code =? 8 then
    (if 2 <=? lenN data then (s <- sl 0 2 data;; p <- u16at 0 s;; Ok (RProtoRej p)) else Ok RNone)
  else if d_fsm cfg then Ok (RLcpFsm code id data) else Ok RNone.

Definition handle_frame (v : variant) (cfg : dcfg) (proto : N) (payload : bytes) : result route :=
  if proto =? 87 then
    (if d_v6up cfg && d_net cfg then Ok (RIPv6 payload) else Ok RNone)
  else if lenN payload <? 4 then Err 1 else
  code <- idx 0 payload;; id <- idx 1 payload;;
  length <- (h <- sl 2 4 payload;; u16at 0 h);;
  if lenN payload <? length then Err 2 else
  if (match v with Repaired => length <? 4 | Defective => false end) then Err 2 else
  data <- sl 4 length payload;;
  if proto =? 49185 then handle_lcp cfg code id data            (* 0xc021 *)
  else if proto =? 49187 then Ok (RPap code id data)             (* 0xc023 *)
  else if proto =? 49699 then Ok (RChap code id data)            (* 0xc223 *)
  else if proto =? 32801 then                                    (* 0x8021 *)
    (if d_fsm cfg && d_net cfg then Ok (RIpcpFsm code id data) else Ok RNone)
  else if proto =? 32855 then                                    (* 0x8057 *)
    (if d_fsm cfg && d_net cfg then Ok (RIpv6cpFsm code id data) else Ok RNone)
  else Ok (RUnknown proto payload).

(* what a harness can see: callbacks and their arguments; deliveries to an FSM are not observable *)
Definition route_toks (r : route) : list tok :=
  match r with
  | RNone | RLcpFsm _ _ _ | RIpcpFsm _ _ _ | RIpv6cpFsm _ _ _ => [TN 0]
  | RIPv6 p => [TN 1; TB p]
  | REchoReq id d => [TN 2; TN id; TB d]
  | REchoRep id d => [TN 3; TN id; TB d]
  | RProtoRej p => [TN 4; TN p]
  | RPap c i d => [TN 6; TN c; TN i; TB d]
  | RChap c i d => [TN 7; TN c; TN i; TB d]
  | RUnknown p d => [TN 10; TN p; TB d]
  end.

(* ------------------------------------------------------------------ *)
(* pkg/ppp/fsm.go ParseOptions / SerializeOptions *)
Fixpoint ppp_opts_loop (fuel : nat) (data : bytes) : result (list (N * bytes)) :=
  match fuel with
  | O => OutOfFuel
  | S f =>
    if 2 <=? lenN data then
      t <- idx 0 data;; l <- idx 1 data;;
      if (l <? 2) || (lenN data <? l) then Err 1 else
      d <- sl 2 l data;; rest <- slf l data;;
      more <- ppp_opts_loop f rest;; Ok ((t, d) :: more)
    else Ok []
  end.
Definition ppp_parse_options (data : bytes) := ppp_opts_loop (S (length data)) data.

(* Is a packet that reached an automaton answered?  Predictable from the packet alone — in the Req-Sent and Opened states
   the harness installs — for Configure-Request (answered with Ack/Nak/Rej whenever its options parse), Terminate-Request
   (Terminate-Ack) and unknown codes (Code-Reject).  This makes "delivered to the FSM" vs "dropped" observable. *)
Definition fsm_predictable (code : N) : bool := (code =? 1) || (code =? 5) || (code =? 0) || (11 <? code).
Definition fsm_answers (r : route) : bool :=
  match r with
  | RLcpFsm c _ d | RIpcpFsm c _ d | RIpv6cpFsm c _ d =>
    if c =? 1 then is_ok (ppp_parse_options d) else fsm_predictable c
  | _ => false
  end.
Definition is_fsm_proto (p : N) : bool := (p =? 49185) || (p =? 32801) || (p =? 32855).
Fixpoint ppp_serialize_options (opts : list (N * bytes)) : bytes :=
  match opts with
  | [] => []
  | (t, d) :: r => t :: byte_of (2 + lenN d) :: d ++ ppp_serialize_options r
  end.

(* pkg/ppp/auth.go PAPHandler.HandleAuthReq and internal/pppoe/session.go handlePAPPacket (same logic):
   None = "malformed request", Some (user, password) = handed to the validator *)
Definition pap_req (data : bytes) : result (option (bytes * bytes)) :=
  if lenN data <? 2 then Ok None else
  ul <- idx 0 data;;
  if lenN data <? 1 + ul + 1 then Ok None else
  u <- sl 1 (1 + ul) data;;
  pl <- idx (1 + ul) data;;
  if lenN data <? 2 + ul + pl then Ok None else
  p <- sl (2 + ul) (2 + ul + pl) data;;
  Ok (Some (u, p)).
(* PAPHandler.SendAuthReq *)
Definition pap_build (u p : bytes) : bytes := byte_of (lenN u) :: u ++ byte_of (lenN p) :: p.

(* HandleAuthAck / HandleAuthNak: the message handed to OnResult *)
Definition pap_msg (data : bytes) : result bytes :=
  if 0 <? lenN data then
    ml <- idx 0 data;;
    if ml <? lenN data then sl 1 (1 + ml) data else Ok []
  else Ok [].

(* CHAPHandler.HandleChallenge: Some (challenge, name) when a response is sent *)
Definition chap_challenge (data : bytes) : result (option (bytes * bytes)) :=
  if lenN data <? 1 then Ok None else
  vl <- idx 0 data;;
  if lenN data <? 1 + vl then Ok None else
  c <- sl 1 (1 + vl) data;; n <- slf (1 + vl) data;; Ok (Some (c, n)).
(* CHAPHandler.HandleResponse and session.go handleCHAPPacket: Some (response, name) *)
Definition chap_response (data : bytes) : result (option (bytes * bytes)) :=
  if lenN data <? 1 then Ok None else
  vl <- idx 0 data;;
  if lenN data <? 1 + vl then Ok None else
  r <- sl 1 (1 + vl) data;; n <- slf (1 + vl) data;; Ok (Some (r, n)).
Definition chap_build (value name : bytes) : bytes := byte_of (lenN value) :: value ++ name.

(* lcp.go EchoHandler.HandleEchoReq / session.go sendLCPEchoReply: reply body after the 4 magic bytes *)
Definition echo_tail (data : bytes) : result (option bytes) :=
  if 4 <=? lenN data then (t <- slf 4 data;; Ok (Some t)) else Ok None.

(* ------------------------------------------------------------------ *)
(* pkg/pppoe/tags.go *)
Record tags := mkTags {
  t_service : bytes; t_acname : bytes;
  t_hostuniq : option bytes; t_cookie : option bytes; t_relay : option bytes; t_vendor : option bytes;
  t_circuit : bytes; t_remote : bytes; t_maxpayload : N;
  t_errors : list (N * bytes);      (* kind 1 service-name-error, 2 ac-system-error, 3 generic-error *)
  t_raw : list (N * bytes) }.
Definition tags0 := mkTags [] [] None None None None [] [] 0 [] [].

Fixpoint vendor_loop (fuel : nat) (off : N) (data c r : bytes) : result (bytes * bytes) :=
  match fuel with
  | O => OutOfFuel
  | S f =>
    if off + 2 <=? lenN data then
      st <- idx off data;; sln <- idx (off + 1) data;;
      let off1 := off + 2 in
      if lenN data <? off1 + sln then Ok (c, r) else
      sv <- sl off1 (off1 + sln) data;;
      let off2 := off1 + sln in
      if st =? 1 then vendor_loop f off2 data sv r
      else if st =? 2 then vendor_loop f off2 data c sv
      else vendor_loop f off2 data c r
    else Ok (c, r)
  end.
Definition parse_vendor (data c r : bytes) : result (bytes * bytes) :=
  if lenN data <? 6 then Ok (c, r) else
  vid <- (h <- sl 0 4 data;; u32at 0 h);;
  if negb (vid =? 3561) && negb (vid =? 9) then Ok (c, r) else
  vendor_loop (S (length data)) 4 data c r.

Definition tag_apply (t : tags) (ty : N) (v : bytes) : result tags :=
  let t := mkTags (t_service t) (t_acname t) (t_hostuniq t) (t_cookie t) (t_relay t) (t_vendor t)
                  (t_circuit t) (t_remote t) (t_maxpayload t) (t_errors t) (t_raw t ++ [(ty, v)]) in
  if ty =? 257 then Ok (mkTags v (t_acname t) (t_hostuniq t) (t_cookie t) (t_relay t) (t_vendor t)
                               (t_circuit t) (t_remote t) (t_maxpayload t) (t_errors t) (t_raw t))
  else if ty =? 258 then Ok (mkTags (t_service t) v (t_hostuniq t) (t_cookie t) (t_relay t) (t_vendor t)
                               (t_circuit t) (t_remote t) (t_maxpayload t) (t_errors t) (t_raw t))
  else if ty =? 259 then Ok (mkTags (t_service t) (t_acname t) (Some v) (t_cookie t) (t_relay t) (t_vendor t)
                               (t_circuit t) (t_remote t) (t_maxpayload t) (t_errors t) (t_raw t))
  else if ty =? 260 then Ok (mkTags (t_service t) (t_acname t) (t_hostuniq t) (Some v) (t_relay t) (t_vendor t)
                               (t_circuit t) (t_remote t) (t_maxpayload t) (t_errors t) (t_raw t))
  else if ty =? 272 then Ok (mkTags (t_service t) (t_acname t) (t_hostuniq t) (t_cookie t) (Some v) (t_vendor t)
                               (t_circuit t) (t_remote t) (t_maxpayload t) (t_errors t) (t_raw t))
  else if ty =? 261 then
    cr <- parse_vendor v (t_circuit t) (t_remote t);;
    Ok (mkTags (t_service t) (t_acname t) (t_hostuniq t) (t_cookie t) (t_relay t) (Some v)
               (fst cr) (snd cr) (t_maxpayload t) (t_errors t) (t_raw t))
  else if ty =? 288 then
    if negb (lenN v =? 2) then Err 2 else
    p <- u16at 0 v;;
    Ok (mkTags (t_service t) (t_acname t) (t_hostuniq t) (t_cookie t) (t_relay t) (t_vendor t)
               (t_circuit t) (t_remote t) (if 1492 <=? p then p else t_maxpayload t) (t_errors t) (t_raw t))
  else if (ty =? 513) || (ty =? 514) || (ty =? 515) then
    Ok (mkTags (t_service t) (t_acname t) (t_hostuniq t) (t_cookie t) (t_relay t) (t_vendor t)
               (t_circuit t) (t_remote t) (t_maxpayload t) (t_errors t ++ [(ty - 512, v)]) (t_raw t))
  else Ok t.

Fixpoint tags_loop (fuel : nat) (off : N) (payload : bytes) (t : tags) : result tags :=
  match fuel with
  | O => OutOfFuel
  | S f =>
    if off + 4 <=? lenN payload then
      ty <- (s <- sl off (off + 2) payload;; u16at 0 s);;
      tl <- (s <- sl (off + 2) (off + 4) payload;; u16at 0 s);;
      let off1 := off + 4 in
      if ty =? 0 then Ok t else
      if lenN payload <? off1 + tl then Err 1 else
      v <- sl off1 (off1 + tl) payload;;
      t' <- tag_apply t ty v;;
      tags_loop f (off1 + tl) payload t'
    else Ok t
  end.
Definition parse_tags (payload : bytes) : result tags := tags_loop (S (length payload)) 0 payload tags0.
(* TagBuilder.AddTag *)
Definition put_tag (ty : N) (v : bytes) : bytes := put16 ty ++ put16 (lenN v) ++ v.
Fixpoint build_tags (l : list (N * bytes)) : bytes :=
  match l with [] => [] | (ty, v) :: r => put_tag ty v ++ build_tags r end.

(* ------------------------------------------------------------------ *)
(* pkg/l2tp/header.go Parse *)
Record l2hdr := mkL2 { h_ctrl : bool; h_haslen : bool; h_hasseq : bool; h_hasoff : bool; h_prio : bool;
                       h_ver : N; h_length : N; h_tid : N; h_sid : N; h_ns : N; h_nr : N; h_offsz : N;
                       h_hlen : N }.
Definition bit (flags : N) (k : N) : bool := N.testbit flags k.
Definition l2tp_parse (b : bytes) : result (l2hdr * bytes) :=
  if lenN b <? 6 then Err 1 else
  flags <- (s <- sl 0 2 b;; u16at 0 s);;
  if negb (N.land flags 13552 =? 0) then Err 2 else       (* resMask 0x34f0 *)
  let isc := bit flags 15 in let hasl := bit flags 14 in let hass := bit flags 11 in
  let haso := bit flags 9 in let prio := bit flags 8 in let ver := N.land flags 15 in
  let off := 2 in
  lo <- (if hasl then
           (if lenN b <? off + 2 then Err 1 else
            l <- (s <- sl off (off + 2) b;; u16at 0 s);; Ok (l, off + 2))
         else Ok (0, off));;
  let length := fst lo in let off := snd lo in
  if lenN b <? off + 4 then Err 1 else
  tid <- (s <- sl off (off + 2) b;; u16at 0 s);;
  sid <- (s <- sl (off + 2) (off + 4) b;; u16at 0 s);;
  let off := off + 4 in
  so <- (if hass then
           (if lenN b <? off + 4 then Err 1 else
            ns <- (s <- sl off (off + 2) b;; u16at 0 s);;
            nr <- (s <- sl (off + 2) (off + 4) b;; u16at 0 s);; Ok (ns, nr, off + 4))
         else Ok (0, 0, off));;
  let ns := fst (fst so) in let nr := snd (fst so) in let off := snd so in
  oo <- (if haso then
           (if lenN b <? off + 2 then Err 1 else
            osz <- (s <- sl off (off + 2) b;; u16at 0 s);;
            let off := off + 2 in
            if lenN b <? off + osz then Err 1 else Ok (osz, off + osz))
         else Ok (0, off));;
  let osz := fst oo in let off := snd oo in
  if hasl && (length <? off) then Err 3 else
  if hasl && (lenN b <? length) then Err 1 else
  p <- slf off b;;
  Ok (mkL2 isc hasl hass haso prio ver length tid sid ns nr osz off, p).

(* Header.AppendTo (dst = nil) *)
Definition b2n (b : bool) (w : N) : N := if b then w else 0.
Definition l2_hlen_bytes (h : l2hdr) : N :=
  6 + b2n (h_haslen h) 2 + b2n (h_hasseq h) 4 + (if h_hasoff h then 2 + h_offsz h else 0).
Definition l2tp_append (h : l2hdr) (bodylen : N) : bytes :=
  let flags := b2n (h_ctrl h) 32768 + b2n (h_haslen h) 16384 + b2n (h_hasseq h) 2048 +
               b2n (h_hasoff h) 512 + b2n (h_prio h) 256 + N.land (h_ver h) 15 in
  put16 flags
  ++ (if h_haslen h then put16 ((l2_hlen_bytes h + bodylen) mod 65536) else [])
  ++ put16 (h_tid h) ++ put16 (h_sid h)
  ++ (if h_hasseq h then put16 (h_ns h) ++ put16 (h_nr h) else [])
  ++ (if h_hasoff h then put16 (h_offsz h) ++ repeat 0 (N.to_nat (h_offsz h)) else []).

(* pkg/l2tp/avp.go ParseAVPs *)
Record avp := mkAvp { a_m : bool; a_h : bool; a_vendor : N; a_type : N; a_value : bytes }.
Fixpoint avps_loop (fuel : nat) (b : bytes) (seenrv : bool) : result (list avp) :=
  match fuel with
  | O => OutOfFuel
  | S f =>
    if 0 <? lenN b then
      if lenN b <? 6 then Err 1 else
      fl <- (s <- sl 0 2 b;; u16at 0 s);;
      if negb (N.land fl 15360 =? 0) then Err 2 else      (* 0x3c00 *)
      let length := N.land fl 1023 in
      if length <? 6 then Err 3 else
      if lenN b <? length then Err 4 else
      vid <- (s <- sl 2 4 b;; u16at 0 s);;
      ty <- (s <- sl 4 6 b;; u16at 0 s);;
      v <- sl 6 length b;;
      let a := mkAvp (bit fl 15) (bit fl 14) vid ty v in
      if a_h a && negb seenrv then Err 5 else
      let seen := seenrv || ((vid =? 0) && (ty =? 36)) in
      rest <- slf length b;;
      more <- avps_loop f rest seen;; Ok (a :: more)
    else Ok []
  end.
Definition parse_avps (b : bytes) := avps_loop (S (length b)) b false.
(* AppendAVP (value no longer than 1017 bytes; the Go function panics above that, it is not an input path) *)
Definition append_avp (a : avp) : bytes :=
  put16 (N.land (6 + lenN (a_value a)) 1023 + b2n (a_m a) 32768 + b2n (a_h a) 16384)
  ++ put16 (a_vendor a) ++ put16 (a_type a) ++ a_value a.
Fixpoint build_avps (l : list avp) : bytes :=
  match l with [] => [] | a :: r => append_avp a ++ build_avps r end.

(* v3_detect.go IsL2TPv3 *)
Definition is_l2tpv3 (b : bytes) : result bool :=
  if lenN b <? 2 then Ok false else
  fl <- (s <- sl 0 2 b;; u16at 0 s);; Ok (N.land fl 15 =? 3).

(* ------------------------------------------------------------------ *)
(* pkg/dhcp6/message.go *)
Record ia := mkIA { ia_iaid : N; ia_t1 : N; ia_t2 : N; ia_addr : option bytes; ia_plen : N;
                    ia_pref : N; ia_valid : N }.
Record opts6 := mkO6 { o_client : option bytes; o_server : option bytes; o_iana : option ia;
                       o_iapd : option ia; o_dns : list bytes; o_ifid : option bytes;
                       o_remote : option bytes; o_clla : option bytes; o_rapid : bool;
                       o_status : option (N * bytes) }.
Definition opts6_0 := mkO6 None None None None [] None None None false None.

(* the sub-option loops of parseIANA (want = 5, minimum 24) and parseIAPD (want = 26, minimum 25) *)
Fixpoint ia_loop (fuel : nat) (pd : bool) (sub : bytes) (a : ia) : result ia :=
  match fuel with
  | O => OutOfFuel
  | S f =>
    if 4 <=? lenN sub then
      sc <- (s <- sl 0 2 sub;; u16at 0 s);;
      sn <- (s <- sl 2 4 sub;; u16at 0 s);;
      let e := 4 + sn in
      if lenN sub <? e then Ok a else
      a' <- (if pd then
               (if (sc =? 26) && (25 <=? sn) then
                  p <- (s <- sl 4 8 sub;; u32at 0 s);;
                  vl <- (s <- sl 8 12 sub;; u32at 0 s);;
                  pl <- idx 12 sub;;
                  px <- sl 13 29 sub;;
                  Ok (mkIA (ia_iaid a) (ia_t1 a) (ia_t2 a) (Some px) pl p vl)
                else Ok a)
             else
               (if (sc =? 5) && (24 <=? sn) then
                  ad <- sl 4 20 sub;;
                  p <- (s <- sl 20 24 sub;; u32at 0 s);;
                  vl <- (s <- sl 24 28 sub;; u32at 0 s);;
                  Ok (mkIA (ia_iaid a) (ia_t1 a) (ia_t2 a) (Some ad) 0 p vl)
                else Ok a));;
      rest <- slf e sub;;
      ia_loop f pd rest a'
    else Ok a
  end.
Definition parse_ia (pd : bool) (data : bytes) : result (option ia) :=
  if lenN data <? 12 then Ok None else
  iaid <- (s <- sl 0 4 data;; u32at 0 s);;
  t1 <- (s <- sl 4 8 data;; u32at 0 s);;
  t2 <- (s <- sl 8 12 data;; u32at 0 s);;
  sub <- slf 12 data;;
  a <- ia_loop (S (length sub)) pd sub (mkIA iaid t1 t2 None 0 0 0);;
  Ok (Some a).

Fixpoint dns_loop (fuel : nat) (i : N) (data : bytes) : result (list bytes) :=
  match fuel with
  | O => OutOfFuel
  | S f =>
    if i + 16 <=? lenN data then
      a <- sl i (i + 16) data;; more <- dns_loop f (i + 16) data;; Ok (a :: more)
    else Ok []
  end.
Definition parse_dns6 (data : bytes) : result (list bytes) :=
  if lenN data <? 16 then Ok [] else dns_loop (S (length data)) 0 data.

Definition opt6_apply (o : opts6) (code : N) (d : bytes) : result opts6 :=
  if code =? 1 then Ok (mkO6 (Some d) (o_server o) (o_iana o) (o_iapd o) (o_dns o) (o_ifid o) (o_remote o) (o_clla o) (o_rapid o) (o_status o))
  else if code =? 2 then Ok (mkO6 (o_client o) (Some d) (o_iana o) (o_iapd o) (o_dns o) (o_ifid o) (o_remote o) (o_clla o) (o_rapid o) (o_status o))
  else if code =? 3 then
    a <- parse_ia false d;;
    Ok (mkO6 (o_client o) (o_server o) a (o_iapd o) (o_dns o) (o_ifid o) (o_remote o) (o_clla o) (o_rapid o) (o_status o))
  else if code =? 25 then
    a <- parse_ia true d;;
    Ok (mkO6 (o_client o) (o_server o) (o_iana o) a (o_dns o) (o_ifid o) (o_remote o) (o_clla o) (o_rapid o) (o_status o))
  else if code =? 23 then
    l <- parse_dns6 d;;
    Ok (mkO6 (o_client o) (o_server o) (o_iana o) (o_iapd o) l (o_ifid o) (o_remote o) (o_clla o) (o_rapid o) (o_status o))
  else if code =? 18 then Ok (mkO6 (o_client o) (o_server o) (o_iana o) (o_iapd o) (o_dns o) (Some d) (o_remote o) (o_clla o) (o_rapid o) (o_status o))
  else if code =? 37 then
    r <- (if 4 <? lenN d then slf 4 d else Ok d);;
    Ok (mkO6 (o_client o) (o_server o) (o_iana o) (o_iapd o) (o_dns o) (o_ifid o) (Some r) (o_clla o) (o_rapid o) (o_status o))
  else if code =? 79 then Ok (mkO6 (o_client o) (o_server o) (o_iana o) (o_iapd o) (o_dns o) (o_ifid o) (o_remote o) (Some d) (o_rapid o) (o_status o))
  else if code =? 14 then Ok (mkO6 (o_client o) (o_server o) (o_iana o) (o_iapd o) (o_dns o) (o_ifid o) (o_remote o) (o_clla o) true (o_status o))
  else if code =? 13 then
    (if 2 <=? lenN d then
       c <- (s <- sl 0 2 d;; u16at 0 s);; m <- slf 2 d;;
       Ok (mkO6 (o_client o) (o_server o) (o_iana o) (o_iapd o) (o_dns o) (o_ifid o) (o_remote o) (o_clla o) (o_rapid o) (Some (c, m)))
     else Ok o)
  else Ok o.

Fixpoint opts6_loop (fuel : nat) (data : bytes) (o : opts6) : result opts6 :=
  match fuel with
  | O => OutOfFuel
  | S f =>
    if 4 <=? lenN data then
      code <- (s <- sl 0 2 data;; u16at 0 s);;
      ln <- (s <- sl 2 4 data;; u16at 0 s);;
      let e := 4 + ln in
      if lenN data <? e then Ok o else
      d <- sl 4 e data;;
      o' <- opt6_apply o code d;;
      rest <- slf e data;;
      opts6_loop f rest o'
    else Ok o
  end.
Definition parse_options6 (data : bytes) : result opts6 := opts6_loop (S (length data)) data opts6_0.

Record msg6 := mkM6 { m_type : N; m_xid : bytes; m_opts : opts6 }.
Definition parse_message6 (data : bytes) : result msg6 :=
  if lenN data <? 4 then Err 1 else
  ty <- idx 0 data;; x <- sl 1 4 data;; od <- slf 4 data;;
  o <- parse_options6 od;; Ok (mkM6 ty x o).

Record relayinfo := mkRI { r_hop : N; r_link : bytes; r_peer : bytes; r_ifid : option bytes;
                           r_remote : option bytes; r_clla : option bytes }.

(* the option walk shared by UnwrapRelay / UnwrapRelayReply: contents of the first Relay-Message option *)
Fixpoint find_relay_msg (fuel : nat) (off : N) (data : bytes) : result (option bytes) :=
  match fuel with
  | O => OutOfFuel
  | S f =>
    if off + 4 <=? lenN data then
      code <- (s <- sl off (off + 2) data;; u16at 0 s);;
      ln <- (s <- sl (off + 2) (off + 4) data;; u16at 0 s);;
      if lenN data <? off + 4 + ln then Ok None else
      if code =? 9 then (i <- sl (off + 4) (off + 4 + ln) data;; Ok (Some i))
      else find_relay_msg f (off + 4 + ln) data
    else Ok None
  end.

Fixpoint unwrap_relay (fuel : nat) (data : bytes) : result (option msg6 * option relayinfo) :=
  match fuel with
  | O => OutOfFuel
  | S f =>
    if lenN data <? 34 then Ok (None, None) else
    t <- idx 0 data;;
    if negb (t =? 12) then Ok (None, None) else
    hop <- idx 1 data;; link <- sl 2 18 data;; peer <- sl 18 34 data;;
    ro <- (od <- slf 34 data;; parse_options6 od);;
    let info := mkRI hop link peer (o_ifid ro) (o_remote ro) (o_clla ro) in
    rm <- find_relay_msg (S (length data)) 34 data;;
    match rm with
    | None => Ok (None, Some info)
    | Some inner =>
      it <- (if 0 <? lenN inner then idx 0 inner else Ok 0);;
      if (0 <? lenN inner) && (it =? 12) then unwrap_relay f inner else
      match parse_message6 inner with
      | Ok m => Ok (Some m, Some info)
      | Err _ => Ok (None, Some info)
      | Panic => Panic
      | OutOfFuel => OutOfFuel
      end
    end
  end.
Definition unwrap_relay_top (data : bytes) := unwrap_relay (S (length data)) data.

Fixpoint unwrap_relay_reply (fuel : nat) (data : bytes) : result (option msg6) :=
  match fuel with
  | O => OutOfFuel
  | S f =>
    if lenN data <? 34 then Ok None else
    t <- idx 0 data;;
    if negb (t =? 13) then Ok None else
    rm <- find_relay_msg (S (length data)) 34 data;;
    match rm with
    | None => Ok None
    | Some inner =>
      it <- (if 0 <? lenN inner then idx 0 inner else Ok 0);;
      if (0 <? lenN inner) && (it =? 13) then unwrap_relay_reply f inner else
      match parse_message6 inner with
      | Ok m => Ok (Some m)
      | Err _ => Ok None
      | Panic => Panic
      | OutOfFuel => OutOfFuel
      end
    end
  end.
Definition unwrap_relay_reply_top (data : bytes) := unwrap_relay_reply (S (length data)) data.

(* pkg/dhcp/relay/v6relay.go extractRelayMessage / UnwrapRelayReply / GetRelayTransactionID *)
Fixpoint extract_loop (fuel : nat) (i : N) (pkt : bytes) : result (option bytes) :=
  match fuel with
  | O => OutOfFuel
  | S f =>
    if i + 4 <=? lenN pkt then
      code <- u16at i pkt;; ln <- u16at (i + 2) pkt;;
      if lenN pkt <? i + 4 + ln then Ok None else
      if code =? 9 then (x <- sl (i + 4) (i + 4 + ln) pkt;; Ok (Some x))
      else extract_loop f (i + 4 + ln) pkt
    else Ok None
  end.
Definition extract_relay_message (pkt : bytes) : result (option bytes) :=
  if lenN pkt <? 34 then Ok None else extract_loop (S (length pkt)) 34 pkt.
Definition relay_unwrap_reply (pkt : bytes) : result bytes :=
  if lenN pkt <? 34 then Err 1 else
  t <- idx 0 pkt;;
  if negb (t =? 13) then Err 2 else
  r <- extract_relay_message pkt;;
  match r with None => Err 3 | Some x => Ok x end.
Definition relay_txid (pkt : bytes) : result (option bytes) :=
  r <- extract_relay_message pkt;;
  match r with
  | None => Ok None
  | Some x => if lenN x <? 4 then Ok None else (t <- sl 1 4 x;; Ok (Some t))
  end.
(* BuildRelayForward with no Interface-ID / Remote-ID / Subscriber-ID, and with an Interface-ID *)
Definition build_relay_forward (hop : N) (link peer : bytes) (ifid : bytes) (client : bytes) : bytes :=
  12 :: hop :: link ++ peer
  ++ (match ifid with [] => [] | _ => put16 18 ++ put16 (lenN ifid) ++ ifid end)
  ++ put16 9 ++ put16 (lenN client) ++ client.

(* ------------------------------------------------------------------ *)
(* pkg/dhcp/relay/option82.go and rewrite.go *)
Definition remove_range (data : bytes) (s e : N) : result bytes :=
  a <- sl 0 s data;; b <- slf e data;; Ok (a ++ b).

(* removeRanges: the ranges are kept last-found-first, i.e. in the order Go's backwards loop visits them *)
Fixpoint remove_ranges (data : bytes) (rs : list (N * N)) : result bytes :=
  match rs with
  | [] => Ok data
  | (s, e) :: r => d <- remove_range data s e;; remove_ranges d r
  end.
Definition ranges_total (rs : list (N * N)) : N := fold_right (fun r t => (snd r - fst r) + t) 0 rs.

(* how the option walk of InsertOption82 / StripOption82 ends *)
Inductive scan_end :=
| EEnd (i : N)      (* End option at offset i *)
| ECut (i : N)      (* cut-off trailing option starting at offset i (length byte missing or value past the end) *)
| EAll.             (* ran off the end of the packet *)
(* scan of InsertOption82 / StripOption82: (how it ended, every complete option 82, last found first) *)
Fixpoint o82_scan (fuel : nat) (i : N) (pkt : bytes) (ex : list (N * N))
  : result (scan_end * list (N * N)) :=
  match fuel with
  | O => OutOfFuel
  | S f =>
    if i <? lenN pkt then
      c <- idx i pkt;;
      if c =? 0 then o82_scan f (i + 1) pkt ex else
      if c =? 255 then Ok (EEnd i, ex) else
      if lenN pkt <=? i + 1 then Ok (ECut i, ex) else
      ol <- idx (i + 1) pkt;;
      if lenN pkt <? i + 2 + ol then Ok (ECut i, ex) else
      o82_scan f (i + 2 + ol) pkt (if c =? 82 then (i, i + 2 + ol) :: ex else ex)
    else Ok (EAll, ex)
  end.
(* policy: 1 keep, 2 drop, anything else replace.  Since 703d203 a cut-off trailing option is dropped first (pkt = pkt[:i]):
   otherwise its length byte would swallow the option 82 appended after it. *)
Definition insert_option82 (pkt opt82 : bytes) (policy : N) : result bytes :=
  if lenN pkt <? 240 then Ok pkt else
  sc <- o82_scan (S (length pkt)) 240 pkt [];;
  pkt1 <- (match fst sc with ECut i => sl 0 i pkt | _ => Ok pkt end);;
  let endidx := match fst sc with EEnd e => e | _ => lenN pkt1 end in
  let ex := snd sc in
  if (policy =? 1) && negb (match ex with [] => true | _ => false end) then Ok pkt1 else
  if policy =? 2 then remove_ranges pkt1 ex else
  let endidx' := endidx - ranges_total ex in
  pkt' <- remove_ranges pkt1 ex;;
  a <- sl 0 endidx' pkt';; b <- slf endidx' pkt';; Ok (a ++ opt82 ++ b).

(* StripOption82 (the same walk; the End offset is not used) *)
Definition strip_option82 (pkt : bytes) : result bytes :=
  if lenN pkt <? 240 then Ok pkt else
  sc <- o82_scan (S (length pkt)) 240 pkt [];;
  remove_ranges pkt (snd sc).

(* findOption: offset of the option or None (-1) *)
Fixpoint find_opt_loop (fuel : nat) (i : N) (pkt : bytes) (code : N) : result (option N) :=
  match fuel with
  | O => OutOfFuel
  | S f =>
    if i <? lenN pkt then
      c <- idx i pkt;;
      if c =? 0 then find_opt_loop f (i + 1) pkt code else
      if c =? 255 then Ok None else
      if lenN pkt <=? i + 1 then Ok None else
      if c =? code then Ok (Some i) else
      ol <- idx (i + 1) pkt;;
      find_opt_loop f (i + 2 + ol) pkt code
    else Ok None
  end.
Definition find_option (pkt : bytes) (code : N) : result (option N) :=
  if lenN pkt <? 240 then Ok None else find_opt_loop (S (length pkt)) 240 pkt code.

Fixpoint ins_scan (fuel : nat) (i : N) (pkt : bytes) : result N :=
  match fuel with
  | O => OutOfFuel
  | S f =>
    if i <? lenN pkt then
      c <- idx i pkt;;
      if c =? 0 then ins_scan f (i + 1) pkt else
      if c =? 255 then Ok i else
      if lenN pkt <=? i + 1 then Ok (lenN pkt) else
      ol <- idx (i + 1) pkt;;
      ins_scan f (i + 2 + ol) pkt
    else Ok (lenN pkt)
  end.
Definition insert_option (pkt : bytes) (code : N) (val : bytes) : result bytes :=
  e <- (if 240 <=? lenN pkt then ins_scan (S (length pkt)) 240 pkt else Ok (lenN pkt));;
  a <- sl 0 e pkt;; b <- slf e pkt;; Ok (a ++ code :: byte_of (lenN val) :: val ++ b).
(* optionSpans: every complete instance of the option before End, last found first *)
Fixpoint spans_loop (fuel : nat) (i : N) (pkt : bytes) (code : N) (acc : list (N * N)) : result (list (N * N)) :=
  match fuel with
  | O => OutOfFuel
  | S f =>
    if i <? lenN pkt then
      c <- idx i pkt;;
      if c =? 0 then spans_loop f (i + 1) pkt code acc else
      if (c =? 255) || (lenN pkt <=? i + 1) then Ok acc else
      ol <- idx (i + 1) pkt;;
      let e := i + 2 + ol in
      if lenN pkt <? e then Ok acc else
      spans_loop f e pkt code (if c =? code then (i, e) :: acc else acc)
    else Ok acc
  end.
Definition option_spans (pkt : bytes) (code : N) := spans_loop (S (length pkt)) 240 pkt code [].
(* setOption4 (SetOptionUint32 / SetOptionIP with a 4-byte value) *)
Definition set_option4 (pkt : bytes) (code : N) (val : bytes) : result bytes :=
  spans <- option_spans pkt code;;
  match spans with
  | [(s, e)] =>
    if e - s =? 6 then
      (a <- sl 0 (s + 2) pkt;; w <- sl (s + 2) (s + 6) pkt;; b <- slf (s + 6) pkt;; Ok (a ++ val ++ b))
    else (p <- remove_ranges pkt spans;; insert_option p code val)
  | _ => p <- remove_ranges pkt spans;; insert_option p code val
  end.
Definition get_option4 (pkt : bytes) (code : N) : result (option bytes) :=
  o <- find_option pkt code;;
  match o with
  | Some off =>
    l <- (if off + 5 <? lenN pkt then idx (off + 1) pkt else Ok 0);;
    if (off + 5 <? lenN pkt) && (l =? 4) then (v <- sl (off + 2) (off + 6) pkt;; Ok (Some v))
    else Ok None
  | None => Ok None
  end.

(* ------------------------------------------------------------------ *)
(* internal/ipoe/dhcpv4.go parseOption82 and pkg/dhcp/parser.go Packet.parseOption82 *)
Fixpoint sub82_loop (fuel : nat) (i : N) (data : bytes) (c r : option bytes)
  : result (option bytes * option bytes) :=
  match fuel with
  | O => OutOfFuel
  | S f =>
    if i <? lenN data then
      if lenN data <=? i + 1 then Ok (c, r) else
      sc <- idx i data;; sn <- idx (i + 1) data;;
      if lenN data <? i + 2 + sn then Ok (c, r) else
      d <- sl (i + 2) (i + 2 + sn) data;;
      if sc =? 1 then sub82_loop f (i + 2 + sn) data (Some d) r
      else if sc =? 2 then sub82_loop f (i + 2 + sn) data c (Some d)
      else sub82_loop f (i + 2 + sn) data c r
    else Ok (c, r)
  end.
Definition parse_sub82 (data : bytes) := sub82_loop (S (length data)) 0 data None None.

(* pkg/dhcp/parser.go Parse: option map as an association list, last occurrence wins *)
Fixpoint d4_opts_loop (fuel : nat) (i : N) (data : bytes) (m : list (N * bytes)) : result (list (N * bytes)) :=
  match fuel with
  | O => OutOfFuel
  | S f =>
    if i <? lenN data then
      c <- idx i data;;
      if c =? 0 then d4_opts_loop f (i + 1) data m else
      if c =? 255 then Ok m else
      if lenN data <=? i + 1 then Ok m else
      ol <- idx (i + 1) data;;
      if lenN data <? i + 2 + ol then Ok m else
      d <- sl (i + 2) (i + 2 + ol) data;;
      d4_opts_loop f (i + 2 + ol) data ((c, d) :: filter (fun kv => negb (fst kv =? c)) m)
    else Ok m
  end.
Fixpoint assoc (k : N) (m : list (N * bytes)) : option bytes :=
  match m with [] => None | (k', v) :: r => if k' =? k then Some v else assoc k r end.
Record pkt4 := mkP4 { p_op : N; p_htype : N; p_hlen : N; p_hops : N; p_xid : N; p_secs : N; p_flags : N;
                      p_ci : bytes; p_yi : bytes; p_si : bytes; p_gi : bytes; p_ch : bytes;
                      p_opts : list (N * bytes); p_circuit : option bytes; p_remote : option bytes }.
Definition dhcp_parse (data : bytes) : result pkt4 :=
  if lenN data <? 236 then Err 1 else
  op <- idx 0 data;; ht <- idx 1 data;; hl <- idx 2 data;; hops <- idx 3 data;;
  xid <- (s <- sl 4 8 data;; u32at 0 s);;
  secs <- (s <- sl 8 10 data;; u16at 0 s);;
  flags <- (s <- sl 10 12 data;; u16at 0 s);;
  ci <- sl 12 16 data;; yi <- sl 16 20 data;; si <- sl 20 24 data;; gi <- sl 24 28 data;;
  ch <- sl 28 34 data;;
  if lenN data <? 240 then Ok (mkP4 op ht hl hops xid secs flags ci yi si gi ch [] None None) else
  magic <- (s <- sl 236 240 data;; u32at 0 s);;
  if negb (magic =? 1669485411) then Err 2 else
  od <- slf 240 data;;
  m <- d4_opts_loop (S (length od)) 0 od [];;
  cr <- (match assoc 82 m with Some o => parse_sub82 o | None => Ok (None, None) end);;
  Ok (mkP4 op ht hl hops xid secs flags ci yi si gi ch m (fst cr) (snd cr)).

(* pkg/dhcp4/message.go ParseMessage *)
Record o4 := mkO4 { q_type : N; q_server : option bytes; q_req : option bytes; q_host : bytes;
                    q_client : option bytes; q_lease : N; q_mask : option bytes; q_router : option bytes;
                    q_dns : list bytes; q_o82 : option bytes }.
Definition o4_0 := mkO4 0 None None [] None 0 None None [] None.
Fixpoint dns4_loop (fuel : nat) (i : N) (ol : N) (d : bytes) : result (list bytes) :=
  match fuel with
  | O => OutOfFuel
  | S f =>
    if i + 4 <=? ol then (a <- sl i (i + 4) d;; more <- dns4_loop f (i + 4) ol d;; Ok (a :: more))
    else Ok []
  end.
Definition o4_apply (o : o4) (t ol : N) (d : bytes) : result o4 :=
  if t =? 53 then
    (if 1 <=? ol then (x <- idx 0 d;; Ok (mkO4 x (q_server o) (q_req o) (q_host o) (q_client o) (q_lease o) (q_mask o) (q_router o) (q_dns o) (q_o82 o))) else Ok o)
  else if t =? 54 then
    (if 4 <=? ol then (x <- sl 0 4 d;; Ok (mkO4 (q_type o) (Some x) (q_req o) (q_host o) (q_client o) (q_lease o) (q_mask o) (q_router o) (q_dns o) (q_o82 o))) else Ok o)
  else if t =? 50 then
    (if 4 <=? ol then (x <- sl 0 4 d;; Ok (mkO4 (q_type o) (q_server o) (Some x) (q_host o) (q_client o) (q_lease o) (q_mask o) (q_router o) (q_dns o) (q_o82 o))) else Ok o)
  else if t =? 12 then Ok (mkO4 (q_type o) (q_server o) (q_req o) d (q_client o) (q_lease o) (q_mask o) (q_router o) (q_dns o) (q_o82 o))
  else if t =? 61 then Ok (mkO4 (q_type o) (q_server o) (q_req o) (q_host o) (Some d) (q_lease o) (q_mask o) (q_router o) (q_dns o) (q_o82 o))
  else if t =? 51 then
    (if 4 <=? ol then (x <- (s <- sl 0 4 d;; u32at 0 s);; Ok (mkO4 (q_type o) (q_server o) (q_req o) (q_host o) (q_client o) x (q_mask o) (q_router o) (q_dns o) (q_o82 o))) else Ok o)
  else if t =? 1 then
    (if 4 <=? ol then (x <- sl 0 4 d;; Ok (mkO4 (q_type o) (q_server o) (q_req o) (q_host o) (q_client o) (q_lease o) (Some x) (q_router o) (q_dns o) (q_o82 o))) else Ok o)
  else if t =? 3 then
    (if 4 <=? ol then (x <- sl 0 4 d;; Ok (mkO4 (q_type o) (q_server o) (q_req o) (q_host o) (q_client o) (q_lease o) (q_mask o) (Some x) (q_dns o) (q_o82 o))) else Ok o)
  else if t =? 6 then
    (l <- dns4_loop (S (length d)) 0 ol d;;
     Ok (mkO4 (q_type o) (q_server o) (q_req o) (q_host o) (q_client o) (q_lease o) (q_mask o) (q_router o) (q_dns o ++ l) (q_o82 o)))
  else if t =? 82 then Ok (mkO4 (q_type o) (q_server o) (q_req o) (q_host o) (q_client o) (q_lease o) (q_mask o) (q_router o) (q_dns o) (Some d))
  else Ok o.
Fixpoint o4_loop (fuel : nat) (data : bytes) (o : o4) : result o4 :=
  match fuel with
  | O => OutOfFuel
  | S f =>
    if 2 <=? lenN data then
      t <- idx 0 data;;
      if t =? 255 then Ok o else
      if t =? 0 then (r <- slf 1 data;; o4_loop f r o) else
      ol <- idx 1 data;;
      if lenN data <? 2 + ol then Ok o else
      d <- sl 2 (2 + ol) data;;
      o' <- o4_apply o t ol d;;
      r <- slf (2 + ol) data;;
      o4_loop f r o'
    else Ok o
  end.
Record msg4 := mkM4 { w_op : N; w_htype : N; w_hlen : N; w_hops : N; w_xid : N; w_secs : N; w_flags : N;
                      w_ci : bytes; w_yi : bytes; w_si : bytes; w_gi : bytes; w_ch : bytes;
                      w_sname : bytes; w_file : bytes; w_hasopts : bool; w_opts : o4 }.
Definition parse_message4 (data : bytes) : result msg4 :=
  if lenN data <? 240 then Err 1 else
  op <- idx 0 data;; ht <- idx 1 data;; hl <- idx 2 data;; hops <- idx 3 data;;
  xid <- (s <- sl 4 8 data;; u32at 0 s);;
  secs <- (s <- sl 8 10 data;; u16at 0 s);;
  flags <- (s <- sl 10 12 data;; u16at 0 s);;
  ci <- sl 12 16 data;; yi <- sl 16 20 data;; si <- sl 20 24 data;; gi <- sl 24 28 data;;
  let hw := if 16 <? hl then 16 else hl in
  ch <- sl 28 (28 + hw) data;;
  sn <- sl 44 108 data;; fl <- sl 108 236 data;;
  magic <- (s <- sl 236 240 data;; u32at 0 s);;
  if negb (magic =? 1669485411) then
    Ok (mkM4 op ht hl hops xid secs flags ci yi si gi ch sn fl false o4_0)
  else
  od <- slf 240 data;;
  o <- o4_loop (S (length od)) od o4_0;;
  Ok (mkM4 op ht hl hops xid secs flags ci yi si gi ch sn fl true o).

(* ------------------------------------------------------------------ *)
(* plugins/auth/radius/transport.go findAttr80 (+ the 16-byte window its callers slice) *)
Fixpoint attr80_loop (fuel : nat) (i : N) (raw : bytes) : result (option N) :=
  match fuel with
  | O => OutOfFuel
  | S f =>
    if i + 2 <=? lenN raw then
      t <- idx i raw;; l <- idx (i + 1) raw;;
      if (l <? 2) || (lenN raw <? i + l) then Ok None else
      if (t =? 80) && (l =? 18) then Ok (Some (i + 2)) else attr80_loop f (i + l) raw
    else Ok None
  end.
Definition find_attr80 (raw : bytes) : result (option N) :=
  if lenN raw <? 20 then Ok None else attr80_loop (S (length raw)) 20 raw.
(* validateMessageAuthenticator's slicing: the saved authenticator bytes, or None when absent *)
Definition attr80_window (raw : bytes) : result (option (N * bytes)) :=
  o <- find_attr80 raw;;
  match o with
  | None => Ok None
  | Some off => w <- sl off (off + 16) raw;; Ok (Some (off, w))
  end.

(* ------------------------------------------------------------------ *)
(* plugins/auth/radius: the hand-written byte handling around the third-party packet parser.
   MD5 / HMAC-MD5 are external: the digests enter as arguments (oracle) and the model states which slices of the
   datagram they are compared with. *)
(* transport.go isAuthenticReply(raw, reqAuth, secret): [d_resp] = MD5(raw[:4] ++ reqAuth ++ raw[20:length] ++ secret),
   [d_ma] = HMAC-MD5 over the copy with reqAuth at 4..20 and the attribute value zeroed *)
Definition is_authentic_reply (raw d_resp d_ma : bytes) : result bool :=
  if lenN raw <? 20 then Ok false else
  hi <- idx 2 raw;; lo <- idx 3 raw;;
  let length := hi * 256 + lo in
  if (length <? 20) || (lenN raw <? length) then Ok false else
  raw' <- sl 0 length raw;;
  _h1 <- sl 0 4 raw';; _h2 <- slf 20 raw';; auth <- sl 4 20 raw';;
  if negb (if list_eq_dec N.eq_dec d_resp auth then true else false) then Ok false else
  o <- find_attr80 raw';;
  match o with
  | None => Ok true
  | Some off =>
    _t <- sl 4 20 raw';;                       (* copy(tmp[4:20], reqAuth) *)
    _z <- sl off (off + 16) raw';;             (* tmp[offset+i] = 0, i < 16 *)
    w <- sl off (off + 16) raw';;
    Ok (if list_eq_dec N.eq_dec d_ma w then true else false)
  end.
(* coa.go validateRequestAuthenticator: [d] = MD5(raw[:4] ++ 16 zero bytes ++ raw[20:] ++ secret) *)
Definition validate_request_auth (raw d : bytes) : result bool :=
  if lenN raw <? 20 then Ok false else
  _a <- sl 0 4 raw;; _b <- slf 20 raw;; auth <- sl 4 20 raw;;
  Ok (if list_eq_dec N.eq_dec d auth then true else false).
(* coa.go validateMessageAuthenticator: [d] = HMAC-MD5 over the copy with bytes 4..20 and the attribute value zeroed *)
Definition validate_message_auth (raw d : bytes) : result bool :=
  o <- find_attr80 raw;;
  match o with
  | None => Ok true
  | Some off =>
    _a <- sl 4 20 raw;;                        (* tmp[4+i] = 0 *)
    _z <- sl off (off + 16) raw;;              (* tmp[offset+i] = 0 *)
    w <- sl off (off + 16) raw;;
    Ok (if list_eq_dec N.eq_dec d w then true else false)
  end.
(* coa.go readLoop: raw = raw[:binary.BigEndian.Uint16(raw[2:4])] — executed only after radius.Parse accepted the
   datagram; what Parse guarantees (20 <= declared length <= len) is a hypothesis of the totality theorem *)
Definition coa_trim (raw : bytes) : result bytes :=
  l <- (s <- sl 2 4 raw;; u16at 0 s);; sl 0 l raw.

(* CoA attribute accessors over the attribute list the third-party parser returns *)
Definition attrs := list (N * bytes).
Fixpoint first_attr (ty : N) (ok : bytes -> bool) (l : attrs) : option bytes :=
  match l with [] => None | (t, v) :: r => if (t =? ty) && ok v then Some v else first_attr ty ok r end.
(* resolveCoATarget: 1 Acct-Session-Id, 2 Framed-IP-Address, 3 User-Name, 4 Framed-IPv6-Address, 0 missing.
   A string attribute only counts when non-empty (`if acctSessID == ""` keeps looking). *)
Definition nonempty (v : bytes) : bool := negb (lenN v =? 0).
Definition resolve_coa_target (l : attrs) : N * bytes :=
  match first_attr 44 nonempty l with Some v => (1, v) | None =>
  match first_attr 8 (fun v => lenN v =? 4) l with Some v => (2, v) | None =>
  match first_attr 1 nonempty l with Some v => (3, v) | None =>
  match first_attr 168 (fun v => lenN v =? 16) l with Some v => (4, v) | None => (0, []) end end end end.
Fixpoint has_service_type (value : N) (l : attrs) : result bool :=
  match l with
  | [] => Ok false
  | (t, v) :: r =>
    if (t =? 6) && (lenN v =? 4) then (x <- u32at 0 v;; if x =? value then Ok true else has_service_type value r)
    else has_service_type value r
  end.
Fixpoint event_timestamp (l : attrs) : result N :=
  match l with
  | [] => Ok 0
  | (t, v) :: r => if (t =? 55) && (lenN v =? 4) then u32at 0 v else event_timestamp r
  end.
Definition ident_attr (t : N) : bool :=
  (t =? 1) || (t =? 8) || (t =? 44) || (t =? 168) || (t =? 32) || (t =? 4) || (t =? 5) || (t =? 31) || (t =? 61) ||
  (t =? 87) || (t =? 55) || (t =? 80) || (t =? 33) || (t =? 101).
Definition has_non_ident (l : attrs) : bool := existsb (fun tv => negb (ident_attr (fst tv))) l.
(* validateNASIdentifier: 0 ok, 1 mismatch (first NAS-Identifier decides) *)
Fixpoint validate_nas (expected : bytes) (l : attrs) : N :=
  match l with
  | [] => 0
  | (t, v) :: r =>
    if t =? 32 then (if negb (lenN expected =? 0) && negb (if list_eq_dec N.eq_dec v expected then true else false) then 1 else 0)
    else validate_nas expected r
  end.

(* internal/ipoe/dhcpv4.go getDHCPMessageType / getDHCPOption over the decoded option list *)
Fixpoint ipoe_msg_type (l : attrs) : result N :=
  match l with
  | [] => Ok 0
  | (t, v) :: r => if (t =? 53) && (lenN v =? 1) then idx 0 v else ipoe_msg_type r
  end.
Definition ipoe_get_option (ty : N) (l : attrs) : option bytes := first_attr ty (fun _ => true) l.

(* internal/l2tp/ppp.go dispatchPPPFrame: optional HDLC address/control, 2-byte protocol, then HandleFrame *)
Definition l2tp_dispatch_ppp (v : variant) (cfg : dcfg) (frame : bytes) : result route :=
  fr <- (if 2 <=? lenN frame then
           (a <- idx 0 frame;; c <- idx 1 frame;;
            if (a =? 255) && (c =? 3) then slf 2 frame else Ok frame)
         else Ok frame);;
  if lenN fr <? 2 then Err 3 else
  proto <- (s <- sl 0 2 fr;; u16at 0 s);;
  if (proto =? 33) || (proto =? 87) then Ok RNone else
  p <- slf 2 fr;; handle_frame v cfg proto p.

(* ------------------------------------------------------------------ *)
(* Reference transcription of what the third-party layeh radius.Parse accepts (packet.go Parse, attributes.go
   ParseAttributes): used as the specification of the third-party check, compared with the real one by the `radparse` cases *)
Fixpoint rad_attrs (fuel : nat) (b : bytes) : option attrs :=
  match fuel with
  | O => None
  | S f =>
    match b with
    | [] => Some []
    | [_] => None
    | t :: l :: _ =>
      if (lenN b <? l) || (l <? 2) || (255 <? l) then None else
      match rad_attrs f (skipn (N.to_nat l) b) with
      | Some r => Some ((t, firstn (N.to_nat l - 2) (skipn 2 b)) :: r)
      | None => None
      end
    end
  end.
Definition rad_declared (raw : bytes) : N := nth 2 raw 0 * 256 + nth 3 raw 0.
Definition rad_parse (raw : bytes) : option attrs :=
  if lenN raw <? 20 then None else
  let l := rad_declared raw in
  if (l <? 20) || (4096 <? l) || (lenN raw <? l) then None else
  rad_attrs (S (length raw)) (firstn (N.to_nat l - 20) (skipn 20 raw)).
Definition rad_parse_ok (raw : bytes) : bool := match rad_parse raw with Some _ => true | None => false end.

(* plugins/auth/radius/transport.go readLoop: what a datagram from the server's address does to the table of outstanding
   requests (identifier -> Request Authenticator).  The datagram is parsed, looked up by identifier, verified against the
   outstanding request with isAuthenticReply — the MD5 / HMAC-MD5 computations are the function arguments D1, D2
   (request authenticator -> datagram -> expected digest) — and only then consumes the slot.  [claim_first = true] is the
   alternative that clears the slot at lookup time, before the verification. *)
Definition authentic (raw d1 d2 : bytes) : bool :=
  match is_authentic_reply raw d1 d2 with Ok true => true | _ => false end.
Definition pend := list (N * bytes).
Fixpoint pfind (id : N) (p : pend) : option bytes :=
  match p with [] => None | (i, ra) :: r => if i =? id then Some ra else pfind id r end.
Definition pdel (id : N) (p : pend) : pend := filter (fun x => negb (fst x =? id)) p.
Section RadTable.
  Variables D1 D2 : bytes -> bytes -> bytes.
  (* the datagram is an authentic reply to a request that is outstanding *)
  Definition accepts (p : pend) (raw : bytes) : bool :=
    rad_parse_ok raw &&
    match pfind (nth 1 raw 0) p with Some ra => authentic raw (D1 ra raw) (D2 ra raw) | None => false end.
  Definition rad_step (claim_first : bool) (p : pend) (raw : bytes) : pend * option bytes :=
    if negb (rad_parse_ok raw) then (p, None) else
    let id := nth 1 raw 0 in
    match pfind id p with
    | None => (p, None)
    | Some ra => if authentic raw (D1 ra raw) (D2 ra raw) then (pdel id p, Some raw)
                 else ((if claim_first then pdel id p else p), None)
    end.
  Fixpoint rad_run (claim_first : bool) (p : pend) (ds : list bytes) : pend * list bytes :=
    match ds with
    | [] => (p, [])
    | d :: r => let '(p1, o) := rad_step claim_first p d in
                let '(p2, os) := rad_run claim_first p1 r in
                (p2, match o with Some x => x :: os | None => os end)
    end.
End RadTable.
(* driver: the digests of every datagram of the history are given (computed by an independent implementation) *)
Fixpoint digest_of (tbl : list (bytes * bytes)) (raw : bytes) : bytes :=
  match tbl with [] => [] | (r, d) :: q => if list_eq_dec N.eq_dec r raw then d else digest_of q raw end.
Fixpoint triples (l : list bytes) : list (bytes * bytes * bytes) :=
  match l with a :: b :: c :: r => (a, b, c) :: triples r | _ => [] end.
Definition rad_history (reqauth : bytes) (l : list bytes) : list tok :=
  let t := triples l in
  let d1 := map (fun x => (fst (fst x), snd (fst x))) t in
  let d2 := map (fun x => (fst (fst x), snd x)) t in
  let '(_, delivered) := rad_run (fun _ => digest_of d1) (fun _ => digest_of d2) false [(1, reqauth)] (map (fun x => fst (fst x)) t) in
  match delivered with
  | [] => [TN 0]
  | raw :: _ => [TN (N.of_nat (length delivered));
                 tob (match rad_parse raw with Some a => first_attr 18 (fun _ => true) a | None => None end)]
  end.

(* ------------------------------------------------------------------ *)
(* Bounded worker pool / bounded hand-off queue on the receive path:
   internal/pppoe/dhcpv6.go dispatchDHCPv6 (16-slot dhcp6Sem, the handler runs under the session lock s.mu, every
   worker needs s.mu before it can finish), internal/pppoe/session.go onIPv6CPUp (raKicks), internal/ipoe
   forwardToL2GW (l2gwChan).  The code acquires a slot with `select { case sem <- x: default: drop }`.
   [blocking = true] is the "wait instead of drop" alternative (`sem <- x`), modelled to show what it would do. *)
Inductive pevent := Arrive | Finish.             (* a frame reaches the handler / a worker completes *)
Inductive poutcome := Dispatched | Dropped | Blocked | Finished | Idle.
Record pstate := mkPS { ps_busy : N;             (* slots in use *)
                        ps_stuck : bool }.       (* a handler waits for a slot while holding the session lock *)
Definition pool_step (blocking : bool) (cap : N) (s : pstate) (e : pevent) : pstate * poutcome :=
  if ps_stuck s then (s, Blocked)   (* the lock is never released: no later handler and no worker makes progress *)
  else match e with
       | Arrive =>
         if ps_busy s <? cap then (mkPS (ps_busy s + 1) false, Dispatched)
         else if blocking then (mkPS (ps_busy s) true, Blocked)
         else (s, Dropped)
       | Finish =>
         if 0 <? ps_busy s then (mkPS (ps_busy s - 1) false, Finished) else (s, Idle)
       end.
Fixpoint pool_run (blocking : bool) (cap : N) (s : pstate) (evs : list pevent) : pstate * list poutcome :=
  match evs with
  | [] => (s, [])
  | e :: r => let '(s1, o) := pool_step blocking cap s e in
              let '(s2, os) := pool_run blocking cap s1 r in (s2, o :: os)
  end.
Definition pool0 := mkPS 0 false.
Definition count_out (o : poutcome) (l : list poutcome) : N :=
  N.of_nat (length (filter (fun x => match x, o with
                                     | Dispatched, Dispatched | Dropped, Dropped | Blocked, Blocked
                                     | Finished, Finished | Idle, Idle => true | _, _ => false end) l)).
(* occupancy and outcome after every step of an arbitrary arrive / finish history: what the harness reads off the real
   channel (len(chan)) after each step.  outcome codes: 1 dispatched, 2 dropped, 3 blocked, 4 finished, 5 idle *)
Definition outcome_code (o : poutcome) : N :=
  match o with Dispatched => 1 | Dropped => 2 | Blocked => 3 | Finished => 4 | Idle => 5 end.
Fixpoint pool_trace (blocking : bool) (cap : N) (s : pstate) (evs : list pevent) : list tok :=
  match evs with
  | [] => []
  | e :: r => let '(s1, o) := pool_step blocking cap s e in
              TN (ps_busy s1) :: TN (outcome_code o) :: pool_trace blocking cap s1 r
  end.
Definition events_of (b : bytes) : list pevent := map (fun x => if x =? 70 then Finish else Arrive) b.
(* the harness scenario: n frames while every worker is held, then all workers are released *)
Definition pool_burst (cap n : N) : list tok :=
  let '(s1, os1) := pool_run false cap pool0 (repeat Arrive (N.to_nat n)) in
  let returned := n - count_out Blocked os1 in
  let accepted := count_out Dispatched os1 in
  let '(s2, os2) := pool_run false cap s1 (repeat Finish (N.to_nat accepted)) in
  [TN returned; TN accepted; tbool (negb (ps_stuck s1)); tbool (ps_busy s2 =? 0)].

(* ------------------------------------------------------------------ *)
(* Sequences of frames through the dispatcher: the host's state (phase, automata installed, IPv6CP open) evolves between
   frames by an arbitrary function of the previous state and the previous outcome *)
Fixpoint disp_run (next : dcfg -> result route -> dcfg) (cfg : dcfg) (frames : list (N * bytes)) : list (result route) :=
  match frames with
  | [] => []
  | (proto, pl) :: r => let o := handle_frame Repaired cfg proto pl in o :: disp_run next (next cfg o) r
  end.

(* ------------------------------------------------------------------ *)
(* internal/l2tp/dispatch.go Dispatch + dispatchSCCRQ, internal/l2tp/lns.go HandleSCCRQ (AVP extraction part),
   pkg/l2tp/avp_catalog.go FindFirst / DecodeUint16 / DecodeMessageType: one L2TP datagram from the wire to its handler.
   DecodeUint16 is `binary.BigEndian.Uint16(a.Value[:2])` and panics on a value shorter than 2 bytes ("caller must have
   validated"): the model keeps it a checked slice, so the totality theorem establishes that every caller does validate. *)
Definition find_first (vid ty : N) (l : list avp) : option avp :=
  find (fun a => (a_vendor a =? vid) && (a_type a =? ty)) l.
Definition decode_u16 (a : avp) : result N := s <- sl 0 2 (a_value a);; u16at 0 s.
Definition decode_msg_type (l : list avp) : result N :=
  match l with
  | [] => Ok 0
  | a :: _ => if negb (a_vendor a =? 0) || negb (a_type a =? 0) || (lenN (a_value a) <? 2) then Ok 0 else decode_u16 a
  end.
(* HandleSCCRQ up to the point where the tunnel is instantiated (no secret configured, challenge not required):
   Some peer-tunnel-id when a tunnel is created *)
Definition sccrq_extract (l : list avp) : result (option N) :=
  mt <- decode_msg_type l;;
  if negb (mt =? 1) then Ok None else
  match find_first 0 7 l with
  | None => Ok None
  | Some _ =>
    match find_first 0 9 l with
    | None => Ok None
    | Some a =>
      if lenN (a_value a) <? 2 then Ok None else
      tid <- decode_u16 a;;
      match find_first 0 11 l with Some _ => Ok None | None => Ok (Some tid) end
    end
  end.
(* applyPeerReceiveWindow *)
Definition peer_rws (l : list avp) : result N :=
  match find_first 0 10 l with
  | Some a => if 2 <=? lenN (a_value a) then decode_u16 a else Ok 4
  | None => Ok 4
  end.
(* what one datagram does on a component that knows one session (tunnel 7, session 9, reached from the data path) and
   authorises the LAC host name [auth]:
   data frame to that session -> the PPP route; SCCRQ -> host name handed to the resolver, and the peer's tunnel id when a
   tunnel is created; everything else is rejected or has no visible effect *)
Inductive l2obs :=
| LNothing
| LData (r : route)
| LSccrq (host : bytes) (created : option N).
Definition l2tp_dispatch (auth : bytes) (b : bytes) : result l2obs :=
  v3 <- is_l2tpv3 b;;
  if v3 then Ok LNothing else
  match l2tp_parse b with
  | Err _ => Ok LNothing
  | Panic => Panic
  | OutOfFuel => OutOfFuel
  | Ok (h, payload) =>
    if negb (h_ver h =? 2) then Ok LNothing else
    if negb (h_ctrl h) then
      (if (h_tid h =? 7) && (h_sid h =? 9) then
         match l2tp_dispatch_ppp Repaired (mk_dcfg true false false) payload with
         | Ok r => Ok (LData r) | Err _ => Ok LNothing | Panic => Panic | OutOfFuel => OutOfFuel
         end
       else Ok LNothing)
    else
    match parse_avps payload with
    | Err _ => Ok LNothing
    | Panic => Panic
    | OutOfFuel => OutOfFuel
    | Ok avps =>
      mt <- decode_msg_type avps;;
      if negb (mt =? 1) then Ok LNothing else
      match find_first 0 7 avps with
      | None => Ok LNothing
      | Some ha =>
        if negb (if list_eq_dec N.eq_dec (a_value ha) auth then true else false) then Ok (LSccrq (a_value ha) None) else
        (* dispatchSCCRQ: duplicate detection reads the assigned id under the same guard, then HandleSCCRQ *)
        _dup <- (match find_first 0 9 avps with
                 | Some a => if 2 <=? lenN (a_value a) then decode_u16 a else Ok 0
                 | None => Ok 0 end);;
        c <- sccrq_extract avps;;
        _w <- (match c with Some _ => peer_rws avps | None => Ok 0 end);;
        Ok (LSccrq (a_value ha) c)
      end
    end
  end.
Definition l2obs_toks (o : l2obs) : list tok :=
  match o with
  | LNothing => [TN 0]
  | LData r => match r with RNone | RLcpFsm _ _ _ | RIpcpFsm _ _ _ | RIpv6cpFsm _ _ _ => [TN 0] | _ => TN 30 :: route_toks r end
  | LSccrq h c => [TN 20; TB h; match c with Some t => TN (t + 1) | None => TN 0 end]
  end.

(* ------------------------------------------------------------------ *)
(* The LNS side of internal/l2tp over a SEQUENCE of datagrams from one peer (Dispatch, dispatchSCCRQ, HandleSCCRQ, HandleSCCCN,
   HandleICRQ, HandleICCN, HandleCDN, HandleStopCCN, handleSCCRP / handleICRP role checks; pkg/l2tp tunnel and session FSMs).
   No transmit function is installed, so tunnels have no reliable control channel (sequence numbers are not consulted: that part
   is C16's) and every control message that parses reaches its handler.
   Tunnel states: 2 wait-ctl-conn, 3 established.  Session states: 1 wait-reply, 2 established. *)
Record l2sess := mkLS { ls_local : N; ls_peer : N; ls_state : N }.
Record l2tun := mkLT { lt_local : N; lt_peer : N; lt_state : N; lt_sess : list l2sess }.
Record lns := mkLNS { ln_tuns : list l2tun; ln_next : N;           (* tunnel-id allocator: sequential *)
                      ln_closed : list N }.                         (* peer tunnel ids of torn-down connections (linger) *)
Definition lns0 := mkLNS [] 1 [].
Fixpoint tun_find (id : N) (l : list l2tun) : option l2tun :=
  match l with [] => None | t :: r => if lt_local t =? id then Some t else tun_find id r end.
Definition tun_put (t : l2tun) (l : list l2tun) : list l2tun :=
  map (fun x => if lt_local x =? lt_local t then t else x) l.
Definition tun_del (id : N) (l : list l2tun) : list l2tun := filter (fun x => negb (lt_local x =? id)) l.
Fixpoint sess_find (id : N) (l : list l2sess) : option l2sess :=
  match l with [] => None | x :: r => if ls_local x =? id then Some x else sess_find id r end.
(* smallest unused local session id, searched from 1 (bounded by the number of sessions + 1) *)
Fixpoint sess_free (fuel : nat) (try : N) (l : list l2sess) : N :=
  match fuel with
  | O => try
  | S f => match sess_find try l with None => try | Some _ => sess_free f (try + 1) l end
  end.
Fixpoint sess_ins (x : l2sess) (l : list l2sess) : list l2sess :=
  match l with [] => [x] | y :: r => if ls_local x <? ls_local y then x :: l else y :: sess_ins x r end.
Definition lns_step (auth : bytes) (st : lns) (b : bytes) : result lns :=
  v3 <- is_l2tpv3 b;;
  if v3 then Ok st else
  match l2tp_parse b with
  | Err _ => Ok st
  | Panic => Panic
  | OutOfFuel => OutOfFuel
  | Ok (h, payload) =>
    if negb (h_ver h =? 2) then Ok st else
    if negb (h_ctrl h) then
      (* data frame: reaches the session's PPP dispatcher once the session is established; no effect on this state *)
      (match tun_find (h_tid h) (ln_tuns st) with
       | Some t => match sess_find (h_sid h) (lt_sess t) with
                   | Some x => if ls_state x =? 2 then
                                 match l2tp_dispatch_ppp Repaired (mk_dcfg true false true) payload with
                                 | Panic => Panic | OutOfFuel => OutOfFuel | _ => Ok st end
                               else Ok st
                   | None => Ok st end
       | None => Ok st end)
    else
    match parse_avps payload with
    | Err _ => Ok st
    | Panic => Panic
    | OutOfFuel => OutOfFuel
    | Ok avps =>
      mt <- decode_msg_type avps;;
      if mt =? 1 then
        match find_first 0 7 avps with
        | None => Ok st
        | Some ha =>
          if negb (if list_eq_dec N.eq_dec (a_value ha) auth then true else false) then Ok st else
          dup <- (match find_first 0 9 avps with
                  | Some a => if 2 <=? lenN (a_value a) then (x <- decode_u16 a;; Ok (Some x)) else Ok None
                  | None => Ok None end);;
          let known := match dup with
                       | Some p => existsb (fun t => lt_peer t =? p) (ln_tuns st) || existsb (N.eqb p) (ln_closed st)
                       | None => false end in
          if known then Ok st else
          c <- sccrq_extract avps;;
          match c with
          | None => Ok st
          | Some p => Ok (mkLNS (ln_tuns st ++ [mkLT (ln_next st) p 2 []]) (ln_next st + 1) (ln_closed st))
          end
        end
      else
      match tun_find (h_tid h) (ln_tuns st) with
      | None => Ok st
      | Some t =>
        match avps with [] => Ok st | _ =>      (* ZLB *)
        if mt =? 3 then                          (* SCCCN *)
          (if lt_state t =? 2 then Ok (mkLNS (tun_put (mkLT (lt_local t) (lt_peer t) 3 (lt_sess t)) (ln_tuns st)) (ln_next st) (ln_closed st))
           else Ok st)
        else if mt =? 4 then                     (* StopCCN *)
          Ok (mkLNS (tun_del (lt_local t) (ln_tuns st)) (ln_next st) (lt_peer t :: ln_closed st))
        else if mt =? 10 then                    (* ICRQ *)
          match find_first 0 14 avps with
          | None => Ok st
          | Some a =>
            if lenN (a_value a) <? 2 then Ok st else
            ps <- decode_u16 a;;
            let id := sess_free (S (length (lt_sess t))) 1 (lt_sess t) in
            Ok (mkLNS (tun_put (mkLT (lt_local t) (lt_peer t) (lt_state t) (sess_ins (mkLS id ps 1) (lt_sess t))) (ln_tuns st))
                      (ln_next st) (ln_closed st))
          end
        else if mt =? 12 then                    (* ICCN *)
          match sess_find (h_sid h) (lt_sess t) with
          | Some x =>
            if ls_state x =? 1 then
              Ok (mkLNS (tun_put (mkLT (lt_local t) (lt_peer t) (lt_state t)
                                       (map (fun y => if ls_local y =? ls_local x then mkLS (ls_local y) (ls_peer y) 2 else y) (lt_sess t)))
                                 (ln_tuns st)) (ln_next st) (ln_closed st))
            else Ok st
          | None => Ok st
          end
        else if mt =? 14 then                    (* CDN *)
          match sess_find (h_sid h) (lt_sess t) with
          | Some x => Ok (mkLNS (tun_put (mkLT (lt_local t) (lt_peer t) (lt_state t)
                                               (filter (fun y => negb (ls_local y =? ls_local x)) (lt_sess t)))
                                         (ln_tuns st)) (ln_next st) (ln_closed st))
          | None => Ok st
          end
        else Ok st                               (* SCCRP / ICRP (wrong role), Hello, unsupported types *)
        end
      end
    end
  end.
Fixpoint lns_run (auth : bytes) (st : lns) (ds : list bytes) : result (list lns) :=
  match ds with
  | [] => Ok []
  | d :: r => st' <- lns_step auth st d;; more <- lns_run auth st' r;; Ok (st' :: more)
  end.
Definition lns_toks (st : lns) : list tok :=
  TN (N.of_nat (length (ln_tuns st))) ::
  flat_map (fun t => TN (lt_local t) :: TN (lt_peer t) :: TN (lt_state t) :: TN (N.of_nat (length (lt_sess t))) ::
                     flat_map (fun x => [TN (ls_local x); TN (ls_peer x); TN (ls_state x)]) (lt_sess t)) (ln_tuns st).

(* ------------------------------------------------------------------ *)
(* pkg/pppoe/cookie.go CookieManager.Validate: the AC-Cookie of a PADR comes from the subscriber.  HMAC-SHA256 is external:
   [d] = HMAC(secret, mac ++ svlan ++ cvlan ++ cookie[32:]); [fresh] = the timestamp in cookie[32:36] is within the TTL. *)
Definition cookie_validate (cookie d : bytes) (fresh : bool) : result bool :=
  if negb (lenN cookie =? 36) then Ok false else
  _ts <- (t <- slf 32 cookie;; u32at 0 t);;
  if negb fresh then Ok false else
  _tail <- slf 32 cookie;;
  sig <- sl 0 32 cookie;;
  Ok (if list_eq_dec N.eq_dec sig d then true else false).
(* pkg/l2tp/challenge.go VerifyChallengeResponse: [d] = MD5(type ++ secret ++ challenge); 0 ok, 1 too short, 2 mismatch *)
Definition verify_challenge (observed d : bytes) : result N :=
  if lenN observed <? 16 then Ok 1 else
  o <- sl 0 16 observed;;
  Ok (if list_eq_dec N.eq_dec d o then 0 else 2).

(* ------------------------------------------------------------------ *)
(* pkg/dhcp/relay/v6rewrite.go (DHCPv6 proxy: the server's reply is walked and patched): GetServerDUID, ReplaceServerDUID,
   RewriteV6Lifetimes / rewriteV6Options (recursive: IA options nest) *)
Fixpoint server_duid_loop (fuel : nat) (i : N) (pkt : bytes) : result (option bytes) :=
  match fuel with
  | O => OutOfFuel
  | S f =>
    if i + 4 <=? lenN pkt then
      code <- u16at i pkt;; ol <- u16at (i + 2) pkt;;
      if lenN pkt <? i + 4 + ol then Ok None else
      if code =? 2 then (d <- sl (i + 4) (i + 4 + ol) pkt;; Ok (Some d)) else server_duid_loop f (i + 4 + ol) pkt
    else Ok None
  end.
Definition get_server_duid (pkt : bytes) : result (option bytes) :=
  if lenN pkt <? 4 then Ok None else server_duid_loop (S (length pkt)) 4 pkt.
Fixpoint replace_duid_loop (fuel : nat) (i : N) (pkt duid : bytes) : result bytes :=
  match fuel with
  | O => OutOfFuel
  | S f =>
    if i + 4 <=? lenN pkt then
      code <- u16at i pkt;; ol <- u16at (i + 2) pkt;;
      if lenN pkt <? i + 4 + ol then Ok pkt else
      if code =? 2 then
        (if ol =? lenN duid then
           (a <- sl 0 (i + 4) pkt;; _o <- sl (i + 4) (i + 4 + ol) pkt;; b <- slf (i + 4 + ol) pkt;; Ok (a ++ duid ++ b))
         else
           (a <- sl 0 (i + 2) pkt;; b <- slf (i + 4 + ol) pkt;; Ok (a ++ put16 (lenN duid mod 65536) ++ duid ++ b)))
      else replace_duid_loop f (i + 4 + ol) pkt duid
    else Ok pkt
  end.
Definition replace_server_duid (pkt duid : bytes) : result bytes :=
  if lenN pkt <? 4 then Ok pkt else replace_duid_loop (S (length pkt)) 4 pkt duid.
Fixpoint rw6 (fuel : nat) (data : bytes) (pref valid : N) : result bytes :=
  match fuel with
  | O => OutOfFuel
  | S f =>
    if 4 <=? lenN data then
      code <- u16at 0 data;; ol <- u16at 2 data;;
      if lenN data <? 4 + ol then Ok data else
      hd <- sl 0 4 data;; od <- sl 4 (4 + ol) data;;
      od' <- (if (code =? 3) || (code =? 25) then
                (if 12 <=? lenN od then
                   iaid <- sl 0 4 od;; _t <- sl 4 8 od;; _u <- sl 8 12 od;;
                   sub' <- (if 12 <? lenN od then (sub <- slf 12 od;; rw6 f sub pref valid) else Ok []);;
                   Ok (iaid ++ put32 (pref / 2) ++ put32 ((pref * 4 / 5) mod 4294967296) ++ sub')
                 else Ok od)
              else if code =? 5 then
                (if 24 <=? lenN od then
                   a <- sl 0 16 od;; _p <- sl 16 20 od;; _v <- sl 20 24 od;; r <- slf 24 od;;
                   Ok (a ++ put32 pref ++ put32 valid ++ r)
                 else Ok od)
              else if code =? 26 then
                (if 8 <=? lenN od then
                   _p <- sl 0 4 od;; _v <- sl 4 8 od;; r <- slf 8 od;; Ok (put32 pref ++ put32 valid ++ r)
                 else Ok od)
              else Ok od);;
      rest <- slf (4 + ol) data;;
      rest' <- rw6 f rest pref valid;;
      Ok (hd ++ od' ++ rest')
    else Ok data
  end.
Definition rewrite_v6_lifetimes (pkt : bytes) (pref valid : N) : result bytes :=
  if lenN pkt <? 4 then Ok pkt else
  h <- sl 0 4 pkt;; d <- slf 4 pkt;; d' <- rw6 (S (length d)) d pref valid;; Ok (h ++ d').
(* rewrite.go GetGIAddr / SetGIAddr / GetHops / IncrementHops *)
Definition get_giaddr (pkt : bytes) : result (option bytes) :=
  if lenN pkt <? 28 then Ok None else (x <- sl 24 28 pkt;; Ok (Some x)).
(* net.IP.To4: a 4-byte address is itself, a 16-byte IPv4-mapped address gives its last four bytes, anything else is nil
   (and copy() of nil changes nothing) *)
Definition ip_to4 (ip : bytes) : bytes :=
  if lenN ip =? 4 then ip
  else if (lenN ip =? 16) && forallb (fun x => x =? 0) (firstn 10 ip) && forallb (fun x => x =? 255) (firstn 2 (skipn 10 ip))
       then skipn 12 ip else [].
Definition set_giaddr (pkt ip : bytes) : result bytes :=
  if lenN pkt <? 28 then Ok pkt else
  if lenN (ip_to4 ip) =? 4 then (a <- sl 0 24 pkt;; _o <- sl 24 28 pkt;; b <- slf 28 pkt;; Ok (a ++ ip_to4 ip ++ b)) else Ok pkt.
Definition incr_hops (pkt : bytes) : result bytes :=
  if 3 <? lenN pkt then (a <- sl 0 3 pkt;; h <- idx 3 pkt;; b <- slf 4 pkt;; Ok (a ++ byte_of (h + 1) :: b)) else Ok pkt.
Definition get_hops (pkt : bytes) : result N := if 3 <? lenN pkt then idx 3 pkt else Ok 0.

(* ------------------------------------------------------------------ *)
(* Admissible outcomes.  The property lets the code reject or ignore malformed input; where an implementation may
   legitimately be stricter than /repo HEAD the model marks exactly those inputs "may ignore" and nothing wider:
   a PPP-IPv6 (0x0057) frame whose Information field is not an IPv6 datagram (shorter than the 40-byte fixed header, or
   version nibble not 6) may be handed to the host callback (HEAD) or dropped by the dispatcher.  A well-formed IPv6
   datagram has exactly one admissible outcome. *)
Definition ipv6_wellformed (p : bytes) : bool := (40 <=? lenN p) && (nth 0 p 0 / 16 =? 6).
Definition frame_admissible (v : variant) (cfg : dcfg) (proto : N) (payload : bytes) (o : result route) : Prop :=
  o = handle_frame v cfg proto payload \/ (proto = 87 /\ ipv6_wellformed payload = false /\ o = Ok RNone).
(* sequences where every step takes any admissible outcome and the host state evolves from it *)
Inductive adm_run (next : dcfg -> result route -> dcfg) : dcfg -> list (N * bytes) -> list (result route) -> Prop :=
| adm_nil cfg : adm_run next cfg [] []
| adm_cons cfg proto pl r o os :
    frame_admissible Repaired cfg proto pl o -> adm_run next (next cfg o) r os ->
    adm_run next cfg ((proto, pl) :: r) (o :: os).

(* ------------------------------------------------------------------ *)
(* Lock discipline of the PPPoE session's receive path (internal/pppoe/session.go, dhcpv6.go, ra.go; pkg/ppp/fsm.go): which
   mutexes each handler path takes, in which order, and where it may block.  sync.Mutex is not re-entrant. *)
Inductive lock := LD     (* Component.sidMu: PPPoE session-id allocation (discovery stage) *)
                | LM     (* Component.sessionMu: session indexes *)
                | LS     (* SessionState.mu *)
                | LL     (* LCP FSM.mu *)
                | LI     (* IPCP FSM.mu *)
                | LV     (* IPv6CP FSM.mu *)
                | LR.    (* Component.raBucketMu *)
Inductive lop :=
| Acq (l : lock) | Rel (l : lock)
| NonBlocking      (* select-with-default send, event-bus Publish, timer arm, async dataplane call, go statement *)
| Blocking.        (* channel operation without default, provider exchange, anything that can wait for another goroutine *)
Definition lock_eqb (a b : lock) : bool :=
  match a, b with LD, LD | LM, LM | LS, LS | LL, LL | LI, LI | LV, LV | LR, LR => true | _, _ => false end.
Definition lrank (l : lock) : N := match l with LD => 0 | LM => 1 | LS => 2 | LL => 3 | LI => 4 | LV => 5 | LR => 6 end.
Definition holds (l : lock) (held : list lock) : bool := existsb (lock_eqb l) held.
Definition drop (l : lock) (held : list lock) : list lock := filter (fun h => negb (lock_eqb l h)) held.
(* a path is fine when it never acquires a lock it holds, acquires in increasing rank (one global order: no cyclic wait
   between goroutines), releases only what it holds, and performs blocking operations with no lock held *)
Fixpoint path_ok (held : list lock) (p : list lop) : bool :=
  match p with
  | [] => true
  | Acq l :: r => negb (holds l held) && forallb (fun h => lrank h <? lrank l) held && path_ok (l :: held) r
  | Rel l :: r => holds l held && path_ok (drop l held) r
  | NonBlocking :: r => path_ok held r
  | Blocking :: r => match held with [] => path_ok held r | _ => false end
  end.
Fixpoint held_after (held : list lock) (p : list lop) : list lock :=
  match p with
  | [] => held
  | Acq l :: r => held_after (l :: held) r
  | Rel l :: r => held_after (drop l held) r
  | _ :: r => held_after held r
  end.
(* the paths of /repo HEAD, transcribed by hand (name = handler / trigger) *)
Definition fsm_event (l : lock) (body : list lop) : list lop := Acq l :: body ++ [Rel l].   (* FSM.Input / Open / Up / Close *)
Definition head_paths : list (N * list lop) :=
  [ (* 1 handlePPP, LCP packet to the automaton; actions send (Publish) and arm timers *)
    (1, Acq LS :: fsm_event LL [NonBlocking; NonBlocking] ++ [Rel LS]);
    (* 2 LCP reaches Opened: onLCPUp -> startAuth (CHAP challenge: Publish + timer) *)
    (2, Acq LS :: fsm_event LL [NonBlocking; NonBlocking; NonBlocking] ++ [Rel LS]);
    (* 3 Code-Reject in Opened: rxjEvent does tld; irc; str inline (no call back into an exported FSM method) *)
    (3, Acq LS :: fsm_event LL [NonBlocking; NonBlocking] ++ [Rel LS]);
    (* 4 Protocol-Reject: handleProtocolReject closes the rejected NCP *)
    (4, Acq LS :: NonBlocking :: fsm_event LI [NonBlocking] ++ [Rel LS]);
    (* 5 PAP / CHAP packet: publishAAARequest *)
    (5, [Acq LS; NonBlocking; Rel LS]);
    (* 6 AAA verdict: onAuthResult accept -> startNCP opens both NCPs; reject -> LCP Close *)
    (6, Acq LS :: NonBlocking :: fsm_event LI [NonBlocking] ++ fsm_event LV [NonBlocking] ++ [Rel LS]);
    (7, Acq LS :: NonBlocking :: fsm_event LL [NonBlocking] ++ [Rel LS]);
    (* 8 IPCP / IPv6CP packet; IPv6CP up: raBucketMu, raKicks (select default), checkOpen (Publish, async dataplane) *)
    (8, Acq LS :: fsm_event LI [NonBlocking; NonBlocking; NonBlocking] ++ [Rel LS]);
    (9, Acq LS :: fsm_event LV [NonBlocking; Acq LR; Rel LR; NonBlocking; NonBlocking; NonBlocking] ++ [Rel LS]);
    (* 10 echo request / reply *)
    (10, [Acq LS; NonBlocking; Rel LS]);
    (* 11 in-band DHCPv6: dispatchDHCPv6 (select default on dhcp6Sem, go worker) *)
    (11, [Acq LS; NonBlocking; NonBlocking; Rel LS]);
    (* 12 DHCPv6 worker: snapshot under s.mu, provider exchange with NO lock, reply (Publish), bind under s.mu, release slot *)
    (12, [Acq LS; Rel LS; Blocking; NonBlocking; Acq LS; Rel LS; NonBlocking; NonBlocking]);
    (* 13 terminate(): the three automata are killed one after the other *)
    (13, Acq LS :: NonBlocking :: fsm_event LI [] ++ fsm_event LV [] ++ fsm_event LL [] ++ [NonBlocking; Rel LS]);
    (* 14 FSM restart timer (time.AfterFunc): FSM.Timeout under the FSM lock only, sends (Publish) *)
    (14, fsm_event LL [NonBlocking; NonBlocking]);
    (* 15 CHAP retry timer *)
    (15, [Acq LS; NonBlocking; NonBlocking; Rel LS]);
    (* --- PPPoE discovery (internal/pppoe/component.go), every return path separately --- *)
    (* 16 handlePADI: no lock; PADO published.  17 PADI / PADR rejected early (tags, cookie, group): nothing held *)
    (16, [NonBlocking]); (17, []);
    (* 18 handlePADR, no free session id: sidMu, allocateSessionIDLocked (sessionMu read-locked per probe), error return *)
    (18, [Acq LD; Acq LM; Rel LM; Rel LD]);
    (* 19 handlePADR, session created: id allocated and indexed under sidMu, then PADS, then sess.up() (LCP Open/Up) *)
    (19, [Acq LD; Acq LM; Rel LM; NonBlocking; Acq LM; Rel LM; Rel LD; NonBlocking; Acq LS] ++ fsm_event LL [NonBlocking] ++ [Rel LS]);
    (* 20 handlePADR, PADS could not be sent: error return after both locks were released *)
    (20, [Acq LD; Acq LM; Rel LM; NonBlocking; Acq LM; Rel LM; Rel LD; NonBlocking]);
    (* 21 handlePADT, unknown session / not the owner.  22 owner: indexes updated, then terminate() *)
    (21, [Acq LM; Rel LM]);
    (22, [Acq LM; Rel LM; Acq LS; NonBlocking] ++ fsm_event LI [] ++ fsm_event LV [] ++ fsm_event LL [] ++ [NonBlocking; Rel LS]);
    (* 23 handleSession: lookup under sessionMu (read), then handlePPP *)
    (23, [Acq LM; Rel LM; Acq LS] ++ fsm_event LL [NonBlocking; NonBlocking] ++ [Rel LS]) ].
(* the two seeded changes of this class *)
Definition path_q2 : list lop :=      (* rxjEvent calls the exported Close() while FSM.Input holds f.mu *)
  Acq LS :: Acq LL :: fsm_event LL [NonBlocking] ++ [Rel LL; Rel LS].
Definition path_r2 : list lop :=      (* handlePADR returns "no free session id" without releasing sidMu (seeded C07_r2) *)
  [Acq LD; Acq LM; Rel LM].
Definition path_m2 : list lop :=      (* dispatchDHCPv6 waits for a worker slot under the session lock *)
  [Acq LS; Blocking; NonBlocking; Rel LS].

(* ------------------------------------------------------------------ *)
(* PPPoE discovery under session-id exhaustion (handlePADR / handlePADT): the observable effect of a history of
   R = PADR from a new host, F = one id becomes free, T = PADT from the owner of the session created last.
   State: free ids, sessions created by the history (newest first is irrelevant: only their number matters).
   Outcome codes: 1 session created, 2 refused (no free id), 4 id freed / session terminated, 5 nothing to do. *)
Definition padr_step (st : N * N) (e : N) : (N * N) * N :=
  let '(free, mine) := st in
  if e =? 82 then (if 0 <? free then ((free - 1, mine + 1), 1) else (st, 2))
  else if e =? 84 then (if 0 <? mine then ((free + 1, mine - 1), 4) else (st, 5))
  else ((free + 1, mine), 4).
Fixpoint padr_trace (st : N * N) (evs : bytes) : list tok :=
  match evs with
  | [] => []
  | e :: r => let '(st', o) := padr_step st e in TN o :: TN (fst st') :: padr_trace st' r
  end.

(* ------------------------------------------------------------------ *)
(* one entry point for the driver: entry id, numeric arguments, byte-string arguments *)
Definition arg (k : nat) (l : list N) : N := nth k l 0.
Definition barg (k : nat) (l : list bytes) : bytes := nth k l [].
Definition opt_toks (l : list (N * bytes)) : list tok :=
  TN (N.of_nat (length l)) :: flat_map (fun kv => [TN (fst kv); TB (snd kv)]) l.
Definition ia_toks (o : option ia) : list tok :=
  match o with
  | None => [TNil]
  | Some a => [TN (ia_iaid a); TN (ia_t1 a); TN (ia_t2 a); tob (ia_addr a); TN (ia_plen a); TN (ia_pref a); TN (ia_valid a)]
  end.
Definition opts6_toks (o : opts6) : list tok :=
  [tob (o_client o); tob (o_server o)] ++ ia_toks (o_iana o) ++ ia_toks (o_iapd o)
  ++ TN (N.of_nat (length (o_dns o))) :: map TB (o_dns o)
  ++ [tob (o_ifid o); tob (o_remote o); tob (o_clla o); tbool (o_rapid o)]
  ++ (match o_status o with None => [TNil] | Some (c, m) => [TN c; TB m] end).
Definition msg6_toks (m : option msg6) : list tok :=
  match m with None => [TNil] | Some m => TN (m_type m) :: TB (m_xid m) :: opts6_toks (m_opts m) end.
Definition ri_toks (r : option relayinfo) : list tok :=
  match r with None => [TNil]
  | Some r => [TN (r_hop r); TB (r_link r); TB (r_peer r); tob (r_ifid r); tob (r_remote r); tob (r_clla r)] end.
Definition pair_toks (o : option (bytes * bytes)) : list tok :=
  match o with None => [TN 0] | Some (a, b) => [TN 1; TB a; TB b] end.
Definition tags_toks (t : tags) : list tok :=
  [TB (t_service t); TB (t_acname t); tob (t_hostuniq t); tob (t_cookie t); tob (t_relay t); tob (t_vendor t);
   TB (t_circuit t); TB (t_remote t); TN (t_maxpayload t)] ++ opt_toks (t_errors t) ++ opt_toks (t_raw t).
Definition l2_toks (hp : l2hdr * bytes) : list tok :=
  let h := fst hp in
  [tbool (h_ctrl h); tbool (h_haslen h); tbool (h_hasseq h); tbool (h_hasoff h); tbool (h_prio h);
   TN (h_ver h); TN (h_length h); TN (h_tid h); TN (h_sid h); TN (h_ns h); TN (h_nr h); TN (h_offsz h);
   TN (h_hlen h); TB (snd hp)].
Definition avp_toks (l : list avp) : list tok :=
  TN (N.of_nat (length l)) ::
  flat_map (fun a => [tbool (a_m a); tbool (a_h a); TN (a_vendor a); TN (a_type a); TB (a_value a)]) l.
Definition o4_toks (o : o4) : list tok :=
  [TN (q_type o); tob (q_server o); tob (q_req o); TB (q_host o); tob (q_client o); TN (q_lease o);
   tob (q_mask o); tob (q_router o)] ++ TN (N.of_nat (length (q_dns o))) :: map TB (q_dns o) ++ [tob (q_o82 o)].
Definition msg4_toks (m : msg4) : list tok :=
  [TN (w_op m); TN (w_htype m); TN (w_hlen m); TN (w_hops m); TN (w_xid m); TN (w_secs m); TN (w_flags m);
   TB (w_ci m); TB (w_yi m); TB (w_si m); TB (w_gi m); TB (w_ch m); TB (w_sname m); TB (w_file m)] ++ o4_toks (w_opts m).
(* insertion sort of the option map by code for printing *)
Fixpoint ins_sorted (kv : N * bytes) (l : list (N * bytes)) : list (N * bytes) :=
  match l with [] => [kv] | x :: r => if fst kv <=? fst x then kv :: l else x :: ins_sorted kv r end.
Definition sort_opts (l : list (N * bytes)) := fold_right ins_sorted [] l.
Definition pkt4_toks (p : pkt4) : list tok :=
  [TN (p_op p); TN (p_htype p); TN (p_hlen p); TN (p_hops p); TN (p_xid p); TN (p_secs p); TN (p_flags p);
   TB (p_ci p); TB (p_yi p); TB (p_si p); TB (p_gi p); TB (p_ch p)] ++ opt_toks (sort_opts (p_opts p))
  ++ [tob (p_circuit p); tob (p_remote p)].

Definition rmap {A B} (f : A -> B) (r : result A) : result B := x <- r;; Ok (f x).

Definition run (v : variant) (entry : N) (na : list N) (ba : list bytes) : result (list tok) :=
  let b := barg 0 ba in
  if entry =? 1 then (rmap (fun r => let '(c, i, p) := r in [TN c; TN i; TB p]) (ppp_hdr v b)) else
  if entry =? 2 then
    (* phase argument: 1 Network, 2 Open, 3 no PhaseFn are "network phase"; 0 Authenticate, 4 Dead, 5 Establish, 6 Terminate,
        7 LAC-tunnel-pending, 8 LAC-tunneled are not *)
    (r <- handle_frame v (mk_dcfg ((arg 1 na =? 1) || (arg 1 na =? 2) || (arg 1 na =? 3)) (negb (arg 2 na =? 0)) (negb (arg 3 na =? 0))) (arg 0 na) b;;
     Ok (route_toks r ++
         (if negb (arg 3 na =? 0) && is_fsm_proto (arg 0 na) && fsm_predictable (nth 0 b 0)
          then [TN 77; tbool (fsm_answers r)] else []))) else
  if entry =? 3 then (rmap opt_toks (ppp_parse_options b)) else
  if entry =? 4 then (rmap pair_toks (pap_req b)) else
  if entry =? 5 then (rmap (fun m => [TB m]) (pap_msg b)) else
  if entry =? 6 then (rmap pair_toks (chap_challenge b)) else
  if entry =? 7 then (rmap (fun o => match o with
                        | None => [TN 0]
                        | Some (r, n) => [TN (if list_eq_dec N.eq_dec r (barg 1 ba) then 2 else 1); TB n]
                        end) (chap_response b)) else
  if entry =? 8 then (rmap (fun o => [tob o]) (echo_tail b)) else
  if entry =? 9 then (rmap (fun o => [TB (ppp_serialize_options o)]) (ppp_parse_options b)) else
  if entry =? 11 then Ok [TB (pap_build b (barg 1 ba))] else
  if entry =? 12 then Ok [TB (chap_build b (barg 1 ba))] else
  if entry =? 10 then (rmap tags_toks (parse_tags b)) else
  if entry =? 20 then (rmap l2_toks (l2tp_parse b)) else
  if entry =? 21 then (rmap avp_toks (parse_avps b)) else
  if entry =? 22 then (rmap (fun x => [tbool x]) (is_l2tpv3 b)) else
  if entry =? 30 then (rmap (fun m => msg6_toks (Some m)) (parse_message6 b)) else
  if entry =? 31 then (rmap (fun mi => msg6_toks (fst mi) ++ ri_toks (snd mi)) (unwrap_relay_top b)) else
  if entry =? 32 then (rmap msg6_toks (unwrap_relay_reply_top b)) else
  if entry =? 33 then (rmap (fun x => [TB x]) (relay_unwrap_reply b)) else
  if entry =? 34 then (rmap (fun o => [tob o]) (relay_txid b)) else
  if entry =? 40 then (rmap (fun x => [TB x]) (insert_option82 b (barg 1 ba) (arg 0 na))) else
  if entry =? 41 then (rmap (fun x => [TB x]) (strip_option82 b)) else
  if entry =? 42 then (rmap (fun x => [TB x]) (set_option4 b (arg 0 na) (barg 1 ba))) else
  if entry =? 43 then (rmap (fun o => [tob o]) (get_option4 b (arg 0 na))) else
  if entry =? 50 then (rmap (fun cr => [tob (fst cr); tob (snd cr)]) (parse_sub82 b)) else
  if entry =? 51 then (rmap pkt4_toks (dhcp_parse b)) else
  if entry =? 52 then (rmap msg4_toks (parse_message4 b)) else
  if entry =? 70 then Ok (pool_burst (arg 0 na) (arg 1 na)) else
  if entry =? 72 then Ok (rad_history b (skipn 1 ba)) else
  if entry =? 73 then Ok [tbool (rad_parse_ok b); TN (if rad_parse_ok b then rad_declared b else 0)] else
  if entry =? 79 then rmap (fun o => [tob o]) (get_server_duid b) else
  if entry =? 80 then rmap (fun x => [TB x]) (replace_server_duid b (barg 1 ba)) else
  if entry =? 81 then rmap (fun x => [TB x]) (rewrite_v6_lifetimes b (arg 0 na) (arg 1 na)) else
  if entry =? 82 then (g <- get_giaddr b;; s <- set_giaddr b (barg 1 ba);; h <- get_hops b;; i <- incr_hops b;;
                        Ok [tob g; TB s; TN h; TB i]) else
  if entry =? 77 then rmap (fun x => [tbool x]) (cookie_validate b (barg 1 ba) (negb (arg 0 na =? 0))) else
  if entry =? 78 then rmap (fun x => [TN (if x =? 0 then 0 else 1)]) (verify_challenge b (barg 1 ba)) else
  if entry =? 76 then rmap (fun l => flat_map (fun st => TN 255 :: lns_toks st) l) (lns_run (barg 0 ba) lns0 (skipn 1 ba)) else
  if entry =? 75 then rmap l2obs_toks (l2tp_dispatch (barg 1 ba) b) else
  if entry =? 74 then Ok (padr_trace (arg 0 na, 0) b) else
  if entry =? 71 then Ok (pool_trace false (arg 0 na) pool0 (events_of b)) else
  if entry =? 61 then rmap (fun x => [tbool x]) (is_authentic_reply b (barg 1 ba) (barg 2 ba)) else
  if entry =? 62 then rmap (fun x => [tbool x]) (validate_request_auth b (barg 1 ba)) else
  if entry =? 63 then rmap (fun x => [tbool x]) (validate_message_auth b (barg 1 ba)) else
  if entry =? 64 then
    (let l := combine na (skipn 1 ba) in
     st <- has_service_type 8 l;; ts <- event_timestamp l;;
     Ok [TN (fst (resolve_coa_target l)); TB (snd (resolve_coa_target l)); tbool st; TN ts; tbool (has_non_ident l);
         TN (validate_nas b l)]) else
  if entry =? 65 then
    (let l := combine (skipn 1 na) ba in
     mt <- ipoe_msg_type l;; Ok [TN mt; tob (ipoe_get_option (arg 0 na) l)]) else
  if entry =? 66 then
    rmap route_toks (l2tp_dispatch_ppp v (mk_dcfg (negb (arg 0 na =? 0)) (negb (arg 1 na =? 0)) (negb (arg 2 na =? 0))) b) else
  if entry =? 60 then (rmap (fun o => match o with None => [TNil] | Some (off, w) => [TN off; TB w] end) (attr80_window b)) else
  Err 99.

(* alternative admissible lines for the driver (besides [run]): see [frame_admissible] *)
Definition run_alts (entry : N) (na : list N) (ba : list bytes) : list (result (list tok)) :=
  if (entry =? 2) && (arg 0 na =? 87) && negb (ipv6_wellformed (barg 0 ba)) then [Ok [TN 0]] else [].
