From OV Require Import Common.Base C07.Model.
Lemma placeholder : True. Proof. exact I. Qed.
