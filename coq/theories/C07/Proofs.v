(* C07/Proofs.v — totality (no Panic, no OutOfFuel) of every modelled parser, round trips. *)
From OV Require Import Common.Base C07.Model.
From Coq Require Import ZifyBool ZifyNat ZifyN.
Local Open Scope N_scope.

Definition safe {A} (r : result A) : Prop := is_crash r = false.

Lemma safe_bind {A B} (r : result A) (f : A -> result B) :
  safe r -> (forall a, r = Ok a -> safe (f a)) -> safe (rbind r f).
Proof. destruct r; cbn; intros H1 H2; auto. Qed.

Lemma safe_rmap {A B} (f : A -> B) (r : result A) : safe r -> safe (rmap f r).
Proof. destruct r; cbn; auto. Qed.

Lemma safe_idx i l : i < lenN l -> safe (idx i l).
Proof.
  unfold idx, index, lenN, safe. intros H.
  destruct (nth_error l (N.to_nat i)) eqn:E; [reflexivity|].
  apply nth_error_None in E. lia.
Qed.

Lemma safe_sl lo hi l : lo <= hi -> hi <= lenN l -> safe (sl lo hi l).
Proof.
  unfold sl, slice, lenN, safe. intros H1 H2.
  destruct (Nat.leb_spec (N.to_nat lo) (N.to_nat hi)); [|lia].
  destruct (Nat.leb_spec (N.to_nat hi) (length l)); [|lia]. reflexivity.
Qed.

Lemma sl_len lo hi l r : sl lo hi l = Ok r -> lenN r = hi - lo /\ lo <= hi /\ hi <= lenN l.
Proof.
  unfold sl, lenN. intros H. pose proof (slice_length _ _ _ _ H) as HL.
  unfold slice in H.
  destruct (Nat.leb_spec (N.to_nat lo) (N.to_nat hi)); cbn in H; [|discriminate].
  destruct (Nat.leb_spec (N.to_nat hi) (length l)); cbn in H; [|discriminate]. lia.
Qed.

Lemma safe_slf lo l : lo <= lenN l -> safe (slf lo l).
Proof.
  unfold slf, slice, lenN, safe. intros H1.
  destruct (Nat.leb_spec (N.to_nat lo) (length l)); [|lia].
  rewrite Nat.leb_refl. reflexivity.
Qed.

Lemma slf_len lo l r : slf lo l = Ok r -> lenN r = lenN l - lo /\ lo <= lenN l.
Proof.
  unfold slf, lenN. intros H. pose proof (slice_length _ _ _ _ H) as HL.
  unfold slice in H.
  destruct (Nat.leb_spec (N.to_nat lo) (length l)); cbn in H; [|discriminate]. lia.
Qed.

Lemma safe_u16at i l : i + 2 <= lenN l -> safe (u16at i l).
Proof.
  intros H. unfold u16at.
  apply safe_bind; [apply safe_idx; lia|intros a _].
  apply safe_bind; [apply safe_idx; lia|intros b _]. reflexivity.
Qed.

Lemma safe_u32at i l : i + 4 <= lenN l -> safe (u32at i l).
Proof.
  intros H. unfold u32at.
  apply safe_bind; [apply safe_idx; lia|intros a _].
  apply safe_bind; [apply safe_idx; lia|intros b _].
  apply safe_bind; [apply safe_idx; lia|intros c _].
  apply safe_bind; [apply safe_idx; lia|intros d _]. reflexivity.
Qed.

Lemma lenN_nat l : N.to_nat (lenN l) = length l.
Proof. unfold lenN. lia. Qed.

(* turn slice facts in the context into length facts *)
Ltac note_len :=
  repeat match goal with
  | H : sl _ _ _ = Ok _ |- _ => apply sl_len in H
  | H : slf _ _ = Ok _ |- _ => apply slf_len in H
  end.

Ltac safe_step :=
  match goal with
  | |- safe (rbind _ _) =>
      apply safe_bind; [ | let a := fresh "a" in let H := fresh "Hb" in intros a H; note_len ]
  | |- safe (rmap _ _) => apply safe_rmap
  | |- safe (idx _ _) => apply safe_idx; lia
  | |- safe (sl _ _ _) => apply safe_sl; lia
  | |- safe (slf _ _) => apply safe_slf; lia
  | |- safe (u16at _ _) => apply safe_u16at; lia
  | |- safe (u32at _ _) => apply safe_u32at; lia
  | |- safe (Ok _) => reflexivity
  | |- safe (Err _) => reflexivity
  | |- safe (if ?c then _ else _) => let E := fresh "E" in destruct c eqn:E
  | |- safe (match ?x with _ => _ end) => let E := fresh "E" in destruct x eqn:E
  | |- safe (let _ := _ in _) => cbv zeta
  end.
Ltac safe_tac := repeat safe_step.

(* ---------------- PPP header helpers and dispatcher ---------------- *)
Lemma ppp_hdr_total data : safe (ppp_hdr Repaired data).
Proof. unfold ppp_hdr. safe_tac. Qed.

Lemma handle_lcp_total cfg code id data : safe (handle_lcp cfg code id data).
Proof. unfold handle_lcp. safe_tac. Qed.

Lemma handle_frame_total cfg proto payload : safe (handle_frame Repaired cfg proto payload).
Proof. unfold handle_frame. safe_tac; apply handle_lcp_total. Qed.

(* ---------------- pkg/ppp ---------------- *)
Ltac fuel_ind fuel :=
  induction fuel as [|fuel IH]; [intros; lia|].

Lemma ppp_opts_loop_total : forall fuel data, (length data < fuel)%nat -> safe (ppp_opts_loop fuel data).
Proof.
  fuel_ind fuel. intros data Hf. cbn [ppp_opts_loop]. safe_tac.
  apply IH. unfold lenN in *. lia.
Qed.
Lemma ppp_parse_options_total data : safe (ppp_parse_options data).
Proof. apply ppp_opts_loop_total. lia. Qed.

Lemma pap_req_total data : safe (pap_req data).
Proof. unfold pap_req. safe_tac. Qed.
Lemma pap_msg_total data : safe (pap_msg data).
Proof. unfold pap_msg. safe_tac. Qed.
Lemma chap_challenge_total data : safe (chap_challenge data).
Proof. unfold chap_challenge. safe_tac. Qed.
Lemma chap_response_total data : safe (chap_response data).
Proof. unfold chap_response. safe_tac. Qed.
Lemma echo_tail_total data : safe (echo_tail data).
Proof. unfold echo_tail. safe_tac. Qed.

(* ---------------- PPPoE tags ---------------- *)
Lemma vendor_loop_total : forall fuel off data c r,
  (N.to_nat (lenN data - off) < fuel)%nat -> safe (vendor_loop fuel off data c r).
Proof.
  fuel_ind fuel. intros off data c r Hf. cbn [vendor_loop]. safe_tac; apply IH; lia.
Qed.
Lemma parse_vendor_total data c r : safe (parse_vendor data c r).
Proof.
  unfold parse_vendor. safe_tac. apply vendor_loop_total. unfold lenN. lia.
Qed.
Lemma tag_apply_total t ty v : safe (tag_apply t ty v).
Proof. unfold tag_apply. safe_tac. apply parse_vendor_total. Qed.
Lemma tags_loop_total : forall fuel off payload t,
  (N.to_nat (lenN payload - off) < fuel)%nat -> safe (tags_loop fuel off payload t).
Proof.
  fuel_ind fuel. intros off payload t Hf. cbn [tags_loop]. safe_tac.
  - apply tag_apply_total.
  - apply IH. lia.
Qed.
Lemma parse_tags_total payload : safe (parse_tags payload).
Proof. apply tags_loop_total. unfold lenN. lia. Qed.

(* ---------------- inversion of successful binds ---------------- *)
Lemma Ok_inj {A} (a b : A) : @Ok A a = Ok b -> a = b.
Proof. congruence. Qed.
Ltac inv_ok :=
  repeat match goal with
  | H : Ok ?a = Ok ?b |- _ => apply Ok_inj in H; subst
  | H : Err _ = Ok _ |- _ => discriminate H
  | H : Panic = Ok _ |- _ => discriminate H
  | H : OutOfFuel = Ok _ |- _ => discriminate H
  | H : (if ?c then _ else _) = Ok _ |- _ => let E := fresh "E" in destruct c eqn:E
  | H : rbind ?r _ = Ok _ |- _ =>
      let x := fresh "x" in let E := fresh "E" in
      destruct r as [x| | |] eqn:E; cbn [rbind] in H; try discriminate H
  end.

(* ---------------- L2TP ---------------- *)
Lemma l2tp_parse_total b : safe (l2tp_parse b).
Proof. unfold l2tp_parse. safe_tac; inv_ok; cbv [fst snd] in *; note_len; safe_tac. Qed.

Lemma avps_loop_total : forall fuel b seen, (length b < fuel)%nat -> safe (avps_loop fuel b seen).
Proof.
  fuel_ind fuel. intros b seen Hf. cbn [avps_loop]. safe_tac.
  apply IH. unfold lenN in *. lia.
Qed.
Lemma parse_avps_total b : safe (parse_avps b).
Proof. apply avps_loop_total. lia. Qed.
Lemma is_l2tpv3_total b : safe (is_l2tpv3 b).
Proof. unfold is_l2tpv3. safe_tac. Qed.

(* ---------------- DHCPv6 ---------------- *)
Lemma ia_loop_total : forall fuel pd sub a, (length sub < fuel)%nat -> safe (ia_loop fuel pd sub a).
Proof.
  fuel_ind fuel. intros pd sub a Hf. cbn [ia_loop]. safe_tac; apply IH; unfold lenN in *; lia.
Qed.
Lemma parse_ia_total pd data : safe (parse_ia pd data).
Proof. unfold parse_ia. safe_tac. apply ia_loop_total. lia. Qed.
Lemma dns_loop_total : forall fuel i data, (N.to_nat (lenN data - i) < fuel)%nat -> safe (dns_loop fuel i data).
Proof.
  fuel_ind fuel. intros i data Hf. cbn [dns_loop]. safe_tac. apply IH. lia.
Qed.
Lemma parse_dns6_total data : safe (parse_dns6 data).
Proof. unfold parse_dns6. safe_tac. apply dns_loop_total. unfold lenN. lia. Qed.
Lemma opt6_apply_total o code d : safe (opt6_apply o code d).
Proof.
  unfold opt6_apply. safe_tac; try apply parse_ia_total; try apply parse_dns6_total.
Qed.
Lemma opts6_loop_total : forall fuel data o, (length data < fuel)%nat -> safe (opts6_loop fuel data o).
Proof.
  fuel_ind fuel. intros data o Hf. cbn [opts6_loop]. safe_tac.
  - apply opt6_apply_total.
  - apply IH. unfold lenN in *. lia.
Qed.
Lemma parse_options6_total data : safe (parse_options6 data).
Proof. apply opts6_loop_total. lia. Qed.
Lemma parse_message6_total data : safe (parse_message6 data).
Proof. unfold parse_message6. safe_tac. apply parse_options6_total. Qed.

Lemma find_relay_msg_total : forall fuel off data,
  (N.to_nat (lenN data - off) < fuel)%nat -> safe (find_relay_msg fuel off data).
Proof.
  fuel_ind fuel. intros off data Hf. cbn [find_relay_msg]. safe_tac. apply IH. lia.
Qed.
(* the inner message found by the walk is strictly shorter than the relay message *)
Lemma find_relay_msg_shorter : forall fuel off data inner,
  find_relay_msg fuel off data = Ok (Some inner) -> 4 <= off -> lenN inner < lenN data.
Proof.
  induction fuel as [|fuel IH]; intros off data inner H Hoff; [discriminate|].
  cbn [find_relay_msg] in H.
  destruct (off + 4 <=? lenN data) eqn:E1; [|discriminate].
  destruct (s <- sl off (off + 2) data;; u16at 0 s) as [code| | |] eqn:Ec; cbn [rbind] in H; try discriminate.
  destruct (s <- sl (off + 2) (off + 4) data;; u16at 0 s) as [ln| | |] eqn:El; cbn [rbind] in H; try discriminate.
  destruct (lenN data <? off + 4 + ln) eqn:E2; [discriminate|].
  destruct (code =? 9) eqn:E3.
  - destruct (sl (off + 4) (off + 4 + ln) data) as [i| | |] eqn:Es; cbn [rbind] in H; try discriminate.
    apply Ok_inj in H. inversion H; subst. apply sl_len in Es. lia.
  - eapply IH; [exact H|lia].
Qed.

Ltac relay_tac IH :=
  safe_tac; try apply parse_options6_total; try (apply find_relay_msg_total; unfold lenN; lia);
  try (match goal with H : find_relay_msg _ _ _ = Ok (Some _) |- _ =>
         apply find_relay_msg_shorter in H; [|lia] end);
  try (apply IH; unfold lenN in *; lia);
  try (match goal with H : parse_message6 ?b = _ |- _ =>
         pose proof (parse_message6_total b) as P; rewrite H in P; discriminate P end).

Lemma unwrap_relay_total : forall fuel data, (length data < fuel)%nat -> safe (unwrap_relay fuel data).
Proof. fuel_ind fuel. intros data Hf. cbn [unwrap_relay]. relay_tac IH. Qed.
Lemma unwrap_relay_top_total data : safe (unwrap_relay_top data).
Proof. apply unwrap_relay_total. lia. Qed.
Lemma unwrap_relay_reply_total : forall fuel data, (length data < fuel)%nat -> safe (unwrap_relay_reply fuel data).
Proof. fuel_ind fuel. intros data Hf. cbn [unwrap_relay_reply]. relay_tac IH. Qed.
Lemma unwrap_relay_reply_top_total data : safe (unwrap_relay_reply_top data).
Proof. apply unwrap_relay_reply_total. lia. Qed.

Lemma extract_loop_total : forall fuel i pkt,
  (N.to_nat (lenN pkt - i) < fuel)%nat -> safe (extract_loop fuel i pkt).
Proof. fuel_ind fuel. intros i pkt Hf. cbn [extract_loop]. safe_tac. apply IH. lia. Qed.
Lemma extract_relay_message_total pkt : safe (extract_relay_message pkt).
Proof. unfold extract_relay_message. safe_tac. apply extract_loop_total. unfold lenN. lia. Qed.
Lemma relay_unwrap_reply_total pkt : safe (relay_unwrap_reply pkt).
Proof. unfold relay_unwrap_reply. safe_tac. apply extract_relay_message_total. Qed.
Lemma relay_txid_total pkt : safe (relay_txid pkt).
Proof. unfold relay_txid. safe_tac. apply extract_relay_message_total. Qed.

(* ---------------- DHCPv4 option rewriting ---------------- *)
Lemma remove_range_total data s e : s <= e -> e <= lenN data -> safe (remove_range data s e).
Proof. intros. unfold remove_range. safe_tac. Qed.

(* ranges kept last-found-first: descending, non-overlapping, below a bound *)
Fixpoint ranges_ok (bound : N) (rs : list (N * N)) : Prop :=
  match rs with
  | [] => True
  | (s, e) :: r => s <= e /\ e <= bound /\ ranges_ok s r
  end.
Lemma ranges_ok_mono rs : forall b b', b <= b' -> ranges_ok b rs -> ranges_ok b' rs.
Proof. destruct rs as [|[s e] r]; cbn; intros; [exact I|]. intuition lia. Qed.
Lemma ranges_total_le rs : forall b, ranges_ok b rs -> ranges_total rs <= b.
Proof.
  induction rs as [|[s e] r IH]; cbn [ranges_total fold_right ranges_ok fst snd]; intros b H; [lia|].
  destruct H as (H1 & H2 & H3). apply IH in H3. fold (ranges_total r). lia.
Qed.
Lemma lenN_app a b : lenN (a ++ b) = lenN a + lenN b.
Proof. unfold lenN. rewrite app_length. lia. Qed.
Lemma remove_range_len data s e r :
  remove_range data s e = Ok r -> s <= e -> lenN r = lenN data - (e - s).
Proof.
  unfold remove_range. intros H Hse. inv_ok. note_len. rewrite lenN_app. lia.
Qed.
Lemma remove_ranges_total rs : forall data, ranges_ok (lenN data) rs -> safe (remove_ranges data rs).
Proof.
  induction rs as [|[s e] r IH]; intros data H; [reflexivity|].
  cbn [remove_ranges]. destruct H as (H1 & H2 & H3).
  apply safe_bind; [apply remove_range_total; lia|]. intros d Hd.
  apply remove_range_len in Hd; [|lia]. apply IH. eapply ranges_ok_mono; [|exact H3]. lia.
Qed.
Lemma remove_ranges_len rs : forall data r, ranges_ok (lenN data) rs ->
  remove_ranges data rs = Ok r -> lenN r = lenN data - ranges_total rs.
Proof.
  induction rs as [|[s e] q IH]; intros data r H Hr.
  - apply Ok_inj in Hr. subst. cbn. lia.
  - cbn [remove_ranges] in Hr. destruct H as (H1 & H2 & H3).
    destruct (remove_range data s e) as [d| | |] eqn:Ed; cbn [rbind] in Hr; try discriminate Hr.
    apply remove_range_len in Ed; [|lia].
    pose proof (ranges_total_le _ _ H3) as Ht.
    apply IH in Hr; [|eapply ranges_ok_mono; [|exact H3]; lia].
    cbn [ranges_total fold_right fst snd]. fold (ranges_total q). lia.
Qed.

Lemma o82_scan_total : forall fuel i pkt ex,
  (N.to_nat (lenN pkt - i) < fuel)%nat -> safe (o82_scan fuel i pkt ex).
Proof. fuel_ind fuel. intros i pkt ex Hf. cbn [o82_scan]. safe_tac; apply IH; lia. Qed.
Definition scan_post (pkt : bytes) (r : scan_end * list (N * N)) : Prop :=
  match fst r with
  | EEnd ei => ei < lenN pkt /\ ranges_ok ei (snd r)
  | ECut ci => ci < lenN pkt /\ ranges_ok ci (snd r)
  | EAll => ranges_ok (lenN pkt) (snd r)
  end.
Lemma o82_scan_inv : forall fuel i pkt ex r,
  o82_scan fuel i pkt ex = Ok r -> i <= lenN pkt -> ranges_ok i ex -> scan_post pkt r.
Proof.
  induction fuel as [|fuel IH]; intros i pkt ex r H Hi Hex; [discriminate|].
  cbn [o82_scan] in H. unfold scan_post.
  destruct (i <? lenN pkt) eqn:E0.
  2:{ apply Ok_inj in H; subst; cbn [fst snd]. eapply ranges_ok_mono; [|exact Hex]. lia. }
  destruct (idx i pkt) as [c| | |] eqn:Ec; cbn [rbind] in H; try discriminate H.
  destruct (c =? 0) eqn:E1.
  { eapply (IH _ _ _ _ H); [lia|]. eapply ranges_ok_mono; [|exact Hex]. lia. }
  destruct (c =? 255) eqn:E2.
  { apply Ok_inj in H; subst; cbn [fst snd]. split; [lia|exact Hex]. }
  destruct (lenN pkt <=? i + 1) eqn:E3.
  { apply Ok_inj in H; subst; cbn [fst snd]. split; [lia|exact Hex]. }
  destruct (idx (i + 1) pkt) as [ol| | |] eqn:Eo; cbn [rbind] in H; try discriminate H.
  destruct (lenN pkt <? i + 2 + ol) eqn:E4.
  { apply Ok_inj in H; subst; cbn [fst snd]. split; [lia|exact Hex]. }
  eapply (IH _ _ _ _ H); [lia|].
  destruct (c =? 82).
  - cbn [ranges_ok]. repeat split; try lia. exact Hex.
  - eapply ranges_ok_mono; [|exact Hex]. lia.
Qed.
(* the packet InsertOption82 works on after the walk (cut at a trailing fragment) and the End offset in it: what the scan
   found can be removed from it and leaves room for the End offset: no int underflow in `endIdx -= r[1]-r[0]` *)
Definition cut_len (pkt : bytes) (e : scan_end) : N := match e with ECut i => i | _ => lenN pkt end.
Definition end_off (pkt : bytes) (e : scan_end) : N := match e with EEnd i => i | _ => cut_len pkt e end.
Lemma o82_scan_ranges pkt r :
  o82_scan (S (length pkt)) 240 pkt [] = Ok r -> 240 <= lenN pkt ->
  cut_len pkt (fst r) <= lenN pkt /\
  ranges_ok (cut_len pkt (fst r)) (snd r) /\
  ranges_total (snd r) <= end_off pkt (fst r) /\ end_off pkt (fst r) <= cut_len pkt (fst r).
Proof.
  intros H Hl. apply o82_scan_inv in H; [|lia|exact I]. unfold scan_post in H.
  destruct (fst r) as [ei|ci|]; cbn [cut_len end_off].
  - destruct H as [H1 H2]. repeat split; try lia; [eapply ranges_ok_mono; [|exact H2]; lia|apply ranges_total_le; exact H2].
  - destruct H as [H1 H2]. repeat split; try lia; [exact H2|apply ranges_total_le; exact H2].
  - repeat split; try lia; [exact H|apply ranges_total_le; exact H].
Qed.

Lemma insert_option82_total pkt opt82 policy : safe (insert_option82 pkt opt82 policy).
Proof.
  unfold insert_option82. destruct (lenN pkt <? 240) eqn:E; [reflexivity|].
  apply safe_bind; [apply o82_scan_total; unfold lenN; lia|]. intros r Hs.
  apply o82_scan_ranges in Hs; [|lia]. destruct Hs as (H0 & H1 & H2 & H3).
  apply safe_bind.
  { destruct (fst r); try reflexivity. cbn [cut_len] in H0. apply safe_sl; lia. }
  intros pkt1 Hp1.
  assert (Hlen : lenN pkt1 = cut_len pkt (fst r)).
  { destruct (fst r) as [ei|ci|]; cbn [cut_len] in *; try (apply Ok_inj in Hp1; subst; reflexivity).
    apply sl_len in Hp1. lia. }
  assert (Hend : match fst r with EEnd e => e | _ => lenN pkt1 end = end_off pkt (fst r)).
  { destruct (fst r); cbn [end_off cut_len] in *; lia. }
  cbv zeta. rewrite Hend. rewrite <- Hlen in H1, H3.
  destruct ((policy =? 1) && negb match snd r with [] => true | _ :: _ => false end); [reflexivity|].
  destruct (policy =? 2); [apply remove_ranges_total; exact H1|].
  apply safe_bind; [apply remove_ranges_total; exact H1|]. intros p Hp.
  apply remove_ranges_len in Hp; [|exact H1]. safe_tac.
Qed.
Lemma strip_option82_total pkt : safe (strip_option82 pkt).
Proof.
  unfold strip_option82. destruct (lenN pkt <? 240) eqn:E; [reflexivity|].
  apply safe_bind; [apply o82_scan_total; unfold lenN; lia|]. intros r Hs.
  apply o82_scan_ranges in Hs; [|lia]. destruct Hs as (H0 & H1 & _).
  apply remove_ranges_total. eapply ranges_ok_mono; [|exact H1]. exact H0.
Qed.

Lemma find_opt_loop_total : forall fuel i pkt code,
  (N.to_nat (lenN pkt - i) < fuel)%nat -> safe (find_opt_loop fuel i pkt code).
Proof. fuel_ind fuel. intros i pkt code Hf. cbn [find_opt_loop]. safe_tac; apply IH; lia. Qed.
Lemma find_option_total pkt code : safe (find_option pkt code).
Proof. unfold find_option. safe_tac. apply find_opt_loop_total. unfold lenN. lia. Qed.

Lemma ins_scan_total : forall fuel i pkt, (N.to_nat (lenN pkt - i) < fuel)%nat -> safe (ins_scan fuel i pkt).
Proof. fuel_ind fuel. intros i pkt Hf. cbn [ins_scan]. safe_tac; apply IH; lia. Qed.
Lemma ins_scan_inv : forall fuel i pkt e, ins_scan fuel i pkt = Ok e -> e <= lenN pkt.
Proof.
  induction fuel as [|fuel IH]; intros i pkt e H; [discriminate|].
  cbn [ins_scan] in H. inv_ok; try lia; try (eapply IH; eassumption).
Qed.
Lemma insert_option_total pkt code val : safe (insert_option pkt code val).
Proof.
  unfold insert_option. apply safe_bind.
  - safe_tac. apply ins_scan_total. unfold lenN. lia.
  - intros e He. assert (e <= lenN pkt).
    { destruct (240 <=? lenN pkt); [eapply ins_scan_inv; eassumption|apply Ok_inj in He; lia]. }
    safe_tac.
Qed.
Lemma spans_loop_total : forall fuel i pkt code acc,
  (N.to_nat (lenN pkt - i) < fuel)%nat -> safe (spans_loop fuel i pkt code acc).
Proof. fuel_ind fuel. intros i pkt code acc Hf. cbn [spans_loop]. safe_tac; apply IH; lia. Qed.
Lemma spans_loop_inv : forall fuel i pkt code acc r,
  spans_loop fuel i pkt code acc = Ok r -> i <= lenN pkt -> ranges_ok i acc -> ranges_ok (lenN pkt) r.
Proof.
  induction fuel as [|fuel IH]; intros i pkt code acc r H Hi Hacc; [discriminate|].
  cbn [spans_loop] in H.
  destruct (i <? lenN pkt) eqn:E0.
  2:{ apply Ok_inj in H; subst. eapply ranges_ok_mono; [|exact Hacc]. lia. }
  destruct (idx i pkt) as [c| | |] eqn:Ec; cbn [rbind] in H; try discriminate H.
  destruct (c =? 0) eqn:E1.
  { eapply (IH _ _ _ _ _ H); [lia|]. eapply ranges_ok_mono; [|exact Hacc]. lia. }
  destruct ((c =? 255) || (lenN pkt <=? i + 1)) eqn:E2.
  { apply Ok_inj in H; subst. eapply ranges_ok_mono; [|exact Hacc]. lia. }
  destruct (idx (i + 1) pkt) as [ol| | |] eqn:Eo; cbn [rbind] in H; try discriminate H.
  cbv zeta in H.
  destruct (lenN pkt <? i + 2 + ol) eqn:E4.
  { apply Ok_inj in H; subst. eapply ranges_ok_mono; [|exact Hacc]. lia. }
  eapply (IH _ _ _ _ _ H); [lia|].
  destruct (c =? code).
  - cbn [ranges_ok]. repeat split; try lia. exact Hacc.
  - eapply ranges_ok_mono; [|exact Hacc]. lia.
Qed.
Lemma option_spans_total pkt code : safe (option_spans pkt code).
Proof.
  unfold option_spans.
  destruct (Nat.leb_spec 240 (length pkt)).
  - apply spans_loop_total. unfold lenN. lia.
  - cbn [spans_loop]. destruct (240 <? lenN pkt) eqn:E; [unfold lenN in E; lia|reflexivity].
Qed.
Lemma set_option4_total pkt code val : safe (set_option4 pkt code val).
Proof.
  unfold set_option4. apply safe_bind; [apply option_spans_total|]. intros spans Hs.
  assert (Hok : ranges_ok (lenN pkt) spans).
  { unfold option_spans in Hs. destruct (240 <=? lenN pkt) eqn:E240.
    - eapply spans_loop_inv; [exact Hs|lia|exact I].
    - cbn [spans_loop] in Hs. destruct (240 <? lenN pkt) eqn:E; [lia|]. apply Ok_inj in Hs. subst. exact I. }
  assert (Hrem : safe (p <- remove_ranges pkt spans;; insert_option p code val)).
  { apply safe_bind; [apply remove_ranges_total; exact Hok|]. intros; apply insert_option_total. }
  destruct spans as [|[s e] [|x r]]; try exact Hrem.
  destruct (e - s =? 6) eqn:E6; [|exact Hrem].
  cbn [ranges_ok] in Hok. safe_tac.
Qed.
Lemma get_option4_total pkt code : safe (get_option4 pkt code).
Proof. unfold get_option4. safe_tac; apply find_option_total. Qed.

(* ---------------- DHCPv4 parsing ---------------- *)
Lemma sub82_loop_total : forall fuel i data c r,
  (N.to_nat (lenN data - i) < fuel)%nat -> safe (sub82_loop fuel i data c r).
Proof. fuel_ind fuel. intros i data c r Hf. cbn [sub82_loop]. safe_tac; apply IH; lia. Qed.
Lemma parse_sub82_total data : safe (parse_sub82 data).
Proof. apply sub82_loop_total. unfold lenN. lia. Qed.
Lemma d4_opts_loop_total : forall fuel i data m,
  (N.to_nat (lenN data - i) < fuel)%nat -> safe (d4_opts_loop fuel i data m).
Proof. fuel_ind fuel. intros i data m Hf. cbn [d4_opts_loop]. safe_tac; apply IH; lia. Qed.
Lemma dhcp_parse_total data : safe (dhcp_parse data).
Proof.
  unfold dhcp_parse. safe_tac; try apply parse_sub82_total.
  apply d4_opts_loop_total. unfold lenN. lia.
Qed.

Lemma dns4_loop_total : forall fuel i ol d,
  ol <= lenN d -> (N.to_nat (ol - i) < fuel)%nat -> safe (dns4_loop fuel i ol d).
Proof. fuel_ind fuel. intros i ol d Ho Hf. cbn [dns4_loop]. safe_tac. apply IH; lia. Qed.
Lemma o4_apply_total o t ol d : ol = lenN d -> safe (o4_apply o t ol d).
Proof.
  intros ->. unfold o4_apply. safe_tac. apply dns4_loop_total; unfold lenN; lia.
Qed.
Lemma o4_loop_total : forall fuel data o, (length data < fuel)%nat -> safe (o4_loop fuel data o).
Proof.
  fuel_ind fuel. intros data o Hf. cbn [o4_loop]. safe_tac.
  - apply IH. unfold lenN in *. lia.
  - apply o4_apply_total. lia.
  - apply IH. unfold lenN in *. lia.
Qed.
Lemma parse_message4_total data : safe (parse_message4 data).
Proof.
  unfold parse_message4. safe_tac.
  all: try (match goal with |- context [if ?c then 16 else _] => destruct c eqn:? end); safe_tac.
  all: apply o4_loop_total; lia.
Qed.

(* ---------------- RADIUS Message-Authenticator offset ---------------- *)
Lemma attr80_loop_total : forall fuel i raw, (N.to_nat (lenN raw - i) < fuel)%nat -> safe (attr80_loop fuel i raw).
Proof. fuel_ind fuel. intros i raw Hf. cbn [attr80_loop]. safe_tac. apply IH. lia. Qed.
Lemma attr80_loop_inv : forall fuel i raw off, attr80_loop fuel i raw = Ok (Some off) -> off + 16 <= lenN raw.
Proof.
  induction fuel as [|fuel IH]; intros i raw off H; [discriminate|].
  cbn [attr80_loop] in H. inv_ok; try discriminate; try (eapply IH; eassumption).
  inversion H; subst. lia.
Qed.
Lemma find_attr80_total raw : safe (find_attr80 raw).
Proof. unfold find_attr80. safe_tac. apply attr80_loop_total. unfold lenN. lia. Qed.
Lemma attr80_window_total raw : safe (attr80_window raw).
Proof.
  unfold attr80_window. safe_tac; try apply find_attr80_total. subst.
  unfold find_attr80 in Hb. destruct (lenN raw <? 20); [discriminate|].
  apply attr80_loop_inv in Hb. apply safe_sl; lia.
Qed.

(* ---------------- RADIUS / CoA byte handling, IPoE option accessors, L2TP PPP frame dispatch ---------------- *)
Lemma find_attr80_inv raw off : find_attr80 raw = Ok (Some off) -> off + 16 <= lenN raw /\ 20 <= lenN raw.
Proof.
  unfold find_attr80. destruct (lenN raw <? 20) eqn:E; [discriminate|]. intros H.
  apply attr80_loop_inv in H. lia.
Qed.
Lemma is_authentic_reply_total raw d1 d2 : safe (is_authentic_reply raw d1 d2).
Proof.
  unfold is_authentic_reply. safe_tac; try apply find_attr80_total.
  all: subst; match goal with H : find_attr80 _ = Ok (Some _) |- _ => apply find_attr80_inv in H end; apply safe_sl; lia.
Qed.
Lemma validate_request_auth_total raw d : safe (validate_request_auth raw d).
Proof. unfold validate_request_auth. safe_tac. Qed.
Lemma validate_message_auth_total raw d : safe (validate_message_auth raw d).
Proof.
  unfold validate_message_auth. safe_tac; try apply find_attr80_total.
  all: subst; match goal with H : find_attr80 _ = Ok (Some _) |- _ => apply find_attr80_inv in H end; apply safe_sl; lia.
Qed.
(* the trim in the CoA read loop is safe exactly under what radius.Parse guarantees for an accepted datagram *)
Lemma coa_trim_total raw :
  4 <= lenN raw -> (forall l, (s <- sl 2 4 raw;; u16at 0 s) = Ok l -> l <= lenN raw) -> safe (coa_trim raw).
Proof. intros H4 Hl. unfold coa_trim. safe_tac. apply safe_sl; [lia|]. apply Hl. assumption. Qed.
Lemma coa_trim_needs_parse : exists raw, coa_trim raw = Panic.
Proof. exists [43; 1; 0; 30; 0]. vm_compute. reflexivity. Qed.
Lemma has_service_type_total value l : safe (has_service_type value l).
Proof. induction l as [|[t v] r IH]; cbn [has_service_type]; [reflexivity|]. safe_tac; exact IH. Qed.
Lemma event_timestamp_total l : safe (event_timestamp l).
Proof. induction l as [|[t v] r IH]; cbn [event_timestamp]; [reflexivity|]. safe_tac; exact IH. Qed.
Lemma ipoe_msg_type_total l : safe (ipoe_msg_type l).
Proof. induction l as [|[t v] r IH]; cbn [ipoe_msg_type]; [reflexivity|]. safe_tac; exact IH. Qed.
Lemma l2tp_dispatch_ppp_total cfg frame : safe (l2tp_dispatch_ppp Repaired cfg frame).
Proof. unfold l2tp_dispatch_ppp. safe_tac; apply handle_frame_total. Qed.



(* ---------------- the defect and its repair ---------------- *)
Lemma handle_frame_refuted :
  exists cfg proto payload, handle_frame Defective cfg proto payload = Panic.
Proof. exists (mk_dcfg true false false), 49185, [1; 1; 0; 0]. vm_compute. reflexivity. Qed.
Lemma ppp_hdr_refuted : exists data, ppp_hdr Defective data = Panic.
Proof. exists [1; 1; 0; 0]. vm_compute. reflexivity. Qed.

(* the repair only changes the inputs on which the current code panics, and rejects them with the
   length-mismatch error *)
Lemma handle_frame_repair_conservative cfg proto payload :
  handle_frame Defective cfg proto payload = handle_frame Repaired cfg proto payload \/
  (handle_frame Defective cfg proto payload = Panic /\ handle_frame Repaired cfg proto payload = Err 2).
Proof.
  unfold handle_frame.
  destruct (proto =? 87); [left; reflexivity|].
  destruct (lenN payload <? 4) eqn:E0; [left; reflexivity|].
  destruct (idx 0 payload) as [code| | |]; cbn [rbind]; try (left; reflexivity).
  destruct (idx 1 payload) as [id| | |]; cbn [rbind]; try (left; reflexivity).
  destruct (h <- sl 2 4 payload;; u16at 0 h) as [len| | |]; cbn [rbind]; try (left; reflexivity).
  destruct (lenN payload <? len) eqn:E1; [left; reflexivity|].
  destruct (len <? 4) eqn:E2; [|left; reflexivity].
  right. split; [|reflexivity].
  unfold sl, slice. destruct (Nat.leb_spec (N.to_nat 4) (N.to_nat len)); [lia|]. reflexivity.
Qed.
Lemma ppp_hdr_repair_conservative data :
  ppp_hdr Defective data = ppp_hdr Repaired data \/
  (ppp_hdr Defective data = Panic /\ ppp_hdr Repaired data = Err 1).
Proof.
  unfold ppp_hdr.
  destruct (lenN data <? 4) eqn:E0; [left; reflexivity|].
  destruct (idx 0 data) as [code| | |]; cbn [rbind]; try (left; reflexivity).
  destruct (idx 1 data) as [id| | |]; cbn [rbind]; try (left; reflexivity).
  destruct (h <- sl 2 4 data;; u16at 0 h) as [len| | |]; cbn [rbind]; try (left; reflexivity).
  destruct (lenN data <? len) eqn:E1; [left; reflexivity|].
  destruct (len <? 4) eqn:E2; [|left; reflexivity].
  right. split; [|reflexivity].
  unfold sl, slice. destruct (Nat.leb_spec (N.to_nat 4) (N.to_nat len)); [lia|]. reflexivity.
Qed.

(* ---------------- round trips ---------------- *)
Lemma idx0 x l : idx 0 (x :: l) = Ok x.
Proof. reflexivity. Qed.
Lemma idx1 x y l : idx 1 (x :: y :: l) = Ok y.
Proof. reflexivity. Qed.
Lemma idx_app_mid a x c i : i = lenN a -> idx i (a ++ x :: c) = Ok x.
Proof.
  intros ->. unfold idx, index, lenN. rewrite Nat2N.id, nth_error_app2, Nat.sub_diag by lia. reflexivity.
Qed.
Lemma sl_app_mid a b c lo hi : lo = lenN a -> hi = lenN a + lenN b -> sl lo hi (a ++ b ++ c) = Ok b.
Proof.
  intros -> ->. unfold sl, slice, lenN.
  replace (N.to_nat (N.of_nat (length a) + N.of_nat (length b))) with (length a + length b)%nat by lia.
  rewrite Nat2N.id.
  destruct (Nat.leb_spec (length a) (length a + length b)); [|lia].
  destruct (Nat.leb_spec (length a + length b) (length (a ++ b ++ c))); [|rewrite !app_length in *; lia].
  cbn [andb]. f_equal.
  rewrite skipn_app, skipn_all, Nat.sub_diag. cbn [skipn app].
  replace (length a + length b - length a)%nat with (length b) by lia.
  rewrite firstn_app, firstn_all, Nat.sub_diag. cbn [firstn]. apply app_nil_r.
Qed.
Lemma slf_app a b lo : lo = lenN a -> slf lo (a ++ b) = Ok b.
Proof.
  intros ->. unfold slf, slice, lenN. rewrite Nat2N.id.
  destruct (Nat.leb_spec (length a) (length (a ++ b))); [|rewrite app_length in *; lia].
  rewrite Nat.leb_refl. cbn [andb]. f_equal.
  rewrite skipn_app, skipn_all, Nat.sub_diag. cbn [skipn app].
  apply firstn_all2. rewrite app_length. lia.
Qed.
Lemma byte_of_small n : n < 256 -> byte_of n = n.
Proof. unfold byte_of. intros. apply N.mod_small. assumption. Qed.

Definition wf_opt (o : N * bytes) : Prop := lenN (snd o) + 2 < 256.
Lemma ppp_options_roundtrip_fuel : forall opts fuel, Forall wf_opt opts ->
  (length (ppp_serialize_options opts) < fuel)%nat ->
  ppp_opts_loop fuel (ppp_serialize_options opts) = Ok opts.
Proof.
  induction opts as [|[t d] r IH]; intros fuel Hwf Hf.
  - destruct fuel; [cbn in Hf; lia|]. reflexivity.
  - destruct fuel; [lia|]. inversion Hwf as [|? ? Hw Hr]; subst. unfold wf_opt in Hw. cbn [snd] in Hw.
    cbn [ppp_serialize_options] in *. cbn [ppp_opts_loop].
    set (l := byte_of (2 + lenN d)).
    assert (Hl : l = 2 + lenN d) by (apply byte_of_small; lia).
    assert (Hlen : lenN (t :: l :: d ++ ppp_serialize_options r) = 2 + lenN d + lenN (ppp_serialize_options r)).
    { unfold lenN. cbn [length]. rewrite app_length. lia. }
    destruct (2 <=? lenN (t :: l :: d ++ ppp_serialize_options r)) eqn:E; [|lia].
    rewrite idx0, idx1. cbn [rbind].
    destruct ((l <? 2) || (lenN (t :: l :: d ++ ppp_serialize_options r) <? l)) eqn:E2; [lia|].
    rewrite (sl_app_mid [t; l] d (ppp_serialize_options r)) by (unfold lenN in *; cbn [length] in *; lia).
    cbn [rbind].
    change (t :: l :: d ++ ppp_serialize_options r) with ((t :: l :: d) ++ ppp_serialize_options r).
    rewrite slf_app by (unfold lenN in *; cbn [length]; lia). cbn [rbind].
    rewrite IH; [reflexivity|assumption|].
    cbn [length] in Hf. rewrite app_length in Hf. lia.
Qed.
Lemma ppp_options_roundtrip opts : Forall wf_opt opts ->
  ppp_parse_options (ppp_serialize_options opts) = Ok opts.
Proof. intros. apply ppp_options_roundtrip_fuel; [assumption|lia]. Qed.

Lemma pap_roundtrip u p : lenN u < 256 -> lenN p < 256 -> pap_req (pap_build u p) = Ok (Some (u, p)).
Proof.
  intros Hu Hp. unfold pap_req, pap_build.
  rewrite (byte_of_small _ Hu), (byte_of_small _ Hp).
  assert (Hlen : lenN (lenN u :: u ++ lenN p :: p) = 2 + lenN u + lenN p).
  { unfold lenN. cbn [length]. rewrite app_length. cbn [length]. lia. }
  destruct (lenN (lenN u :: u ++ lenN p :: p) <? 2) eqn:E0; [lia|].
  rewrite idx0. cbn [rbind].
  destruct (lenN (lenN u :: u ++ lenN p :: p) <? 1 + lenN u + 1) eqn:E1; [lia|].
  rewrite (sl_app_mid [lenN u] u (lenN p :: p)) by (unfold lenN in *; cbn [length] in *; lia). cbn [rbind].
  change (lenN u :: u ++ lenN p :: p) with ((lenN u :: u) ++ lenN p :: p).
  rewrite idx_app_mid by (unfold lenN in *; cbn [length] in *; lia). cbn [rbind].
  destruct (lenN ((lenN u :: u) ++ lenN p :: p) <? 2 + lenN u + lenN p) eqn:E2;
    [change ((lenN u :: u) ++ lenN p :: p) with (lenN u :: u ++ lenN p :: p) in E2; lia|].
  replace ((lenN u :: u) ++ lenN p :: p) with ((lenN u :: u ++ [lenN p]) ++ p ++ [])
    by (cbn [app]; rewrite <- app_assoc, app_nil_r; reflexivity).
  rewrite sl_app_mid; [reflexivity| |]; unfold lenN; cbn [length]; rewrite app_length; cbn [length]; lia.
Qed.

Lemma chap_roundtrip v n : lenN v < 256 -> chap_response (chap_build v n) = Ok (Some (v, n)).
Proof.
  intros Hv. unfold chap_response, chap_build. rewrite (byte_of_small _ Hv).
  assert (Hlen : lenN (lenN v :: v ++ n) = 1 + lenN v + lenN n).
  { unfold lenN. cbn [length]. rewrite app_length. lia. }
  destruct (lenN (lenN v :: v ++ n) <? 1) eqn:E0; [lia|].
  rewrite idx0. cbn [rbind].
  destruct (lenN (lenN v :: v ++ n) <? 1 + lenN v) eqn:E1; [lia|].
  rewrite (sl_app_mid [lenN v] v n) by (unfold lenN in *; cbn [length] in *; lia). cbn [rbind].
  change (lenN v :: v ++ n) with ((lenN v :: v) ++ n).
  rewrite slf_app by (unfold lenN in *; cbn [length] in *; lia). reflexivity.
Qed.

Lemma ppp_options_roundtrip_nonvacuous :
  Forall wf_opt [(1, [5; 220]); (5, [1; 2; 3; 4]); (3, [194; 35; 5])] /\
  ppp_serialize_options [(1, [5; 220]); (5, [1; 2; 3; 4]); (3, [194; 35; 5])] =
    [1; 4; 5; 220; 5; 6; 1; 2; 3; 4; 3; 5; 194; 35; 5].
Proof. split; [repeat constructor; vm_compute; reflexivity|vm_compute; reflexivity]. Qed.
Lemma pap_roundtrip_nonvacuous :
  lenN [117; 115; 101; 114] < 256 /\ lenN [112; 119] < 256 /\
  pap_build [117; 115; 101; 114] [112; 119] = [4; 117; 115; 101; 114; 2; 112; 119].
Proof. vm_compute. repeat split. Qed.


(* ---------------- bounded worker pool on the receive path ---------------- *)
Lemma pool_run_cons b cap s e r :
  pool_run b cap s (e :: r) =
  (fst (pool_run b cap (fst (pool_step b cap s e)) r),
   snd (pool_step b cap s e) :: snd (pool_run b cap (fst (pool_step b cap s e)) r)).
Proof.
  cbn [pool_run]. destruct (pool_step b cap s e) as [s1 o]. cbn [fst snd].
  destruct (pool_run b cap s1 r) as [s2 os]. reflexivity.
Qed.

(* with the non-blocking acquire no handler call ever blocks, whatever the history *)
Lemma pool_never_blocks cap : forall evs s, ps_stuck s = false ->
  ps_stuck (fst (pool_run false cap s evs)) = false /\ ~ In Blocked (snd (pool_run false cap s evs)).
Proof.
  induction evs as [|e r IH]; intros s Hs; [cbn; auto|].
  rewrite pool_run_cons. cbn [fst snd].
  assert (H1 : ps_stuck (fst (pool_step false cap s e)) = false /\ snd (pool_step false cap s e) <> Blocked).
  { unfold pool_step. rewrite Hs. destruct e.
    - destruct (ps_busy s <? cap); cbn; split; auto; discriminate.
    - destruct (0 <? ps_busy s); cbn; split; auto; discriminate. }
  destruct H1 as [H1 H2]. destruct (IH _ H1) as [H3 H4]. split; [exact H3|].
  intros [H|H]; [exact (H2 H)|exact (H4 H)].
Qed.

(* the number of busy workers (goroutines) never exceeds the pool size *)
Lemma pool_bounded b cap : forall evs s, ps_busy s <= cap -> ps_busy (fst (pool_run b cap s evs)) <= cap.
Proof.
  induction evs as [|e r IH]; intros s Hs; [exact Hs|].
  rewrite pool_run_cons. cbn [fst]. apply IH.
  unfold pool_step. destruct (ps_stuck s); [exact Hs|]. destruct e.
  - destruct (ps_busy s <? cap) eqn:E; cbn [fst ps_busy]; [lia|]. destruct b; exact Hs.
  - destruct (0 <? ps_busy s) eqn:E; cbn [fst ps_busy]; lia.
Qed.

Lemma count_out_cons o x l :
  count_out o (x :: l) = (if match x, o with
                             | Dispatched, Dispatched | Dropped, Dropped | Blocked, Blocked
                             | Finished, Finished | Idle, Idle => true | _, _ => false end then 1 else 0)
                         + count_out o l.
Proof.
  unfold count_out. cbn [filter].
  destruct x, o; cbn [length]; lia.
Qed.

Lemma arrivals_spec cap : forall k b, b <= cap ->
  fst (pool_run false cap (mkPS b false) (repeat Arrive k)) = mkPS (N.min cap (b + N.of_nat k)) false /\
  count_out Dispatched (snd (pool_run false cap (mkPS b false) (repeat Arrive k))) = N.min (N.of_nat k) (cap - b) /\
  count_out Blocked (snd (pool_run false cap (mkPS b false) (repeat Arrive k))) = 0.
Proof.
  induction k as [|k IH]; intros b Hb.
  - cbn. repeat split; try reflexivity; [f_equal; lia|lia].
  - cbn [repeat]. rewrite pool_run_cons.
    assert (St : pool_step false cap (mkPS b false) Arrive =
                 if b <? cap then (mkPS (b + 1) false, Dispatched) else (mkPS b false, Dropped)) by reflexivity.
    rewrite St. destruct (b <? cap) eqn:E; cbn [fst snd].
    + destruct (IH (b + 1)) as (H1 & H2 & H3); [lia|].
      rewrite H1. rewrite !count_out_cons, H2, H3. split; [f_equal; lia|split; lia].
    + destruct (IH b Hb) as (H1 & H2 & H3).
      rewrite H1. rewrite !count_out_cons, H2, H3. split; [f_equal; lia|split; lia].
Qed.
Lemma finishes_spec cap : forall k b,
  fst (pool_run false cap (mkPS b false) (repeat Finish k)) = mkPS (b - N.of_nat k) false.
Proof.
  induction k as [|k IH]; intros b.
  - cbn. f_equal. lia.
  - cbn [repeat]. rewrite pool_run_cons.
    assert (St : pool_step false cap (mkPS b false) Finish =
                 if 0 <? b then (mkPS (b - 1) false, Finished) else (mkPS b false, Idle)) by reflexivity.
    rewrite St. destruct (0 <? b) eqn:E; cbn [fst]; rewrite IH; f_equal; lia.
Qed.
(* the harness scenario: n frames against a pool of cap held workers: all n handler calls return, min n cap are
   dispatched, the session is not wedged, and the pool drains once the workers are released *)
Lemma pool_burst_spec cap n : pool_burst cap n = [TN n; TN (N.min n cap); TN 1; TN 1].
Proof.
  unfold pool_burst.
  destruct (arrivals_spec cap (N.to_nat n) 0) as (H1 & H2 & H3); [lia|].
  destruct (pool_run false cap pool0 (repeat Arrive (N.to_nat n))) as [s1 os1] eqn:E1.
  unfold pool0 in E1. rewrite E1 in H1, H2, H3. cbn [fst snd] in H1, H2, H3.
  rewrite H2, H3.
  pose proof (finishes_spec cap (N.to_nat (N.min (N.of_nat (N.to_nat n)) (cap - 0))) (ps_busy s1)) as F.
  subst s1. cbn [ps_busy ps_stuck] in *.
  destruct (pool_run false cap (mkPS (N.min cap (0 + N.of_nat (N.to_nat n))) false)
              (repeat Finish (N.to_nat (N.min (N.of_nat (N.to_nat n)) (cap - 0))))) as [s2 os2] eqn:E2.
  cbn [fst] in F. subst s2. cbn [ps_busy negb tbool].
  replace (n - 0) with n by lia.
  replace (N.min (N.of_nat (N.to_nat n)) (cap - 0)) with (N.min n cap) by lia.
  replace (N.min cap (0 + N.of_nat (N.to_nat n)) - N.of_nat (N.to_nat (N.min n cap)) =? 0) with true
    by (symmetry; apply N.eqb_eq; lia).
  reflexivity.
Qed.

(* what "wait instead of drop" would do: the 17th frame against 16 held workers blocks under the session lock,
   and from then on nothing makes progress any more *)
Lemma pool_blocking_wedges :
  ps_stuck (fst (pool_run true 16 pool0 (repeat Arrive 17))) = true /\
  In Blocked (snd (pool_run true 16 pool0 (repeat Arrive 17))).
Proof. vm_compute. split; [reflexivity|]. repeat (try (left; reflexivity); right). Qed.
Lemma pool_stuck_forever b cap : forall evs s, ps_stuck s = true ->
  fst (pool_run b cap s evs) = s /\ Forall (fun o => o = Blocked) (snd (pool_run b cap s evs)).
Proof.
  induction evs as [|e r IH]; intros s Hs; [cbn; auto|].
  rewrite pool_run_cons. unfold pool_step. rewrite Hs. cbn [fst snd].
  destruct (IH s Hs) as [H1 H2]. split; [exact H1|constructor; [reflexivity|exact H2]].
Qed.
Lemma pool_nonvacuous :
  ps_stuck pool0 = false /\ ps_busy pool0 <= 16 /\
  ps_stuck (fst (pool_run true 16 pool0 (repeat Arrive 17))) = true.
Proof. vm_compute. repeat split; congruence. Qed.

(* ---------------- hostile datagrams and the table of outstanding RADIUS requests ---------------- *)
Section RadTableProofs.
  Variables D1 D2 : bytes -> bytes -> bytes.
  Lemma rad_run_cons c p d r :
    rad_run D1 D2 c p (d :: r) =
    (fst (rad_run D1 D2 c (fst (rad_step D1 D2 c p d)) r),
     match snd (rad_step D1 D2 c p d) with Some x => x :: snd (rad_run D1 D2 c (fst (rad_step D1 D2 c p d)) r)
                                         | None => snd (rad_run D1 D2 c (fst (rad_step D1 D2 c p d)) r) end).
  Proof.
    cbn [rad_run]. destruct (rad_step D1 D2 c p d) as [p1 o]. cbn [fst snd].
    destruct (rad_run D1 D2 c p1 r) as [p2 os]. reflexivity.
  Qed.
  Lemma rad_step_rejected p raw : accepts D1 D2 p raw = false -> rad_step D1 D2 false p raw = (p, None).
  Proof.
    unfold accepts, rad_step. destruct (rad_parse_ok raw); cbn [andb negb]; [|reflexivity].
    destruct (pfind (nth 1 raw 0) p) as [ra|]; [|reflexivity]. intros ->. reflexivity.
  Qed.
  Lemma rad_step_accepted p raw : accepts D1 D2 p raw = true ->
    rad_step D1 D2 false p raw = (pdel (nth 1 raw 0) p, Some raw).
  Proof.
    unfold accepts, rad_step. destruct (rad_parse_ok raw); cbn [andb negb]; [|discriminate].
    destruct (pfind (nth 1 raw 0) p) as [ra|]; [|discriminate]. intros ->. reflexivity.
  Qed.
  (* every datagram that is not an authentic reply to an outstanding request — judged by the real verification over its
     bytes — leaves the table untouched and wakes nobody *)
  Lemma rad_junk_ignored : forall ds p, (forall raw, In raw ds -> accepts D1 D2 p raw = false) ->
    rad_run D1 D2 false p ds = (p, []).
  Proof.
    induction ds as [|d r IH]; intros p H; [reflexivity|].
    rewrite rad_run_cons, rad_step_rejected by (apply H; left; reflexivity). cbn [fst snd].
    rewrite IH; [reflexivity|]. intros raw Hin. apply H. right. exact Hin.
  Qed.
  (* ... so an authentic reply that follows any amount of them is delivered, and only then is its slot cleared *)
  Lemma rad_genuine_after_junk junk g rest p :
    (forall raw, In raw junk -> accepts D1 D2 p raw = false) -> accepts D1 D2 p g = true ->
    exists os, snd (rad_run D1 D2 false p (junk ++ g :: rest)) = g :: os /\
               fst (rad_run D1 D2 false p (junk ++ [g])) = pdel (nth 1 g 0) p.
  Proof.
    intros Hj Hg. induction junk as [|d r IH].
    - cbn [app]. rewrite !rad_run_cons, rad_step_accepted by exact Hg. cbn [fst snd]. eexists. split; reflexivity.
    - cbn [app]. rewrite !rad_run_cons, rad_step_rejected by (apply Hj; left; reflexivity). cbn [fst snd].
      apply IH. intros raw Hin. apply Hj. right. exact Hin.
  Qed.
End RadTableProofs.

(* what "authentic" means on the bytes: the datagram is at least its declared length (>= 20), bytes 4..20 of the declared
   part equal the Response-Authenticator digest, and a Message-Authenticator attribute, if present, equals the HMAC digest *)
Lemma authentic_sound raw d1 d2 : authentic raw d1 d2 = true ->
  exists raw', sl 0 (rad_declared raw) raw = Ok raw' /\ 20 <= rad_declared raw /\ sl 4 20 raw' = Ok d1 /\
    (forall off, find_attr80 raw' = Ok (Some off) -> sl off (off + 16) raw' = Ok d2).
Proof.
  unfold authentic, is_authentic_reply. intros H.
  destruct (lenN raw <? 20) eqn:E0; [discriminate H|].
  assert (H2 : idx 2 raw = Ok (nth 2 raw 0) /\ idx 3 raw = Ok (nth 3 raw 0)).
  { unfold idx, index. split.
    - destruct (nth_error raw (N.to_nat 2)) eqn:E; [erewrite nth_error_nth by exact E; reflexivity|].
      apply nth_error_None in E. unfold lenN in E0. lia.
    - destruct (nth_error raw (N.to_nat 3)) eqn:E; [erewrite nth_error_nth by exact E; reflexivity|].
      apply nth_error_None in E. unfold lenN in E0. lia. }
  destruct H2 as [I2 I3]. rewrite I2, I3 in H. cbn [rbind] in H. cbv zeta in H. fold (rad_declared raw) in H.
  destruct ((rad_declared raw <? 20) || (lenN raw <? rad_declared raw)) eqn:E1; [discriminate H|].
  destruct (sl 0 (rad_declared raw) raw) as [raw'| | |] eqn:Es; cbn [rbind] in H; try discriminate H.
  destruct (sl 0 4 raw') as [h1| | |]; cbn [rbind] in H; try discriminate H.
  destruct (slf 20 raw') as [h2| | |]; cbn [rbind] in H; try discriminate H.
  destruct (sl 4 20 raw') as [auth| | |] eqn:Ea; cbn [rbind] in H; try discriminate H.
  destruct (list_eq_dec N.eq_dec d1 auth) as [->|]; cbn [negb] in H; [|discriminate H].
  exists raw'. split; [reflexivity|]. split; [lia|]. split; [exact Ea|].
  intros off Hoff. rewrite Hoff in H. cbn [rbind] in H.
  destruct (sl off (off + 16) raw') as [w| | |]; cbn [rbind] in H; try discriminate H.
  destruct (list_eq_dec N.eq_dec d2 w) as [->|]; [reflexivity|discriminate H].
Qed.

(* clearing the slot at lookup time, before the reply is verified, violates this (seeded change C07_q3): with digests
   7..7 expected, a forged 20-byte datagram (zero authenticator, identifier 1) followed by the authentic one *)
Definition ex_forged : bytes := [3; 1; 0; 20] ++ repeat 0 16.
Definition ex_genuine : bytes := [2; 1; 0; 20] ++ repeat 7 16.
Lemma rad_claim_first_refuted :
  let D := fun (_ _ : bytes) => repeat 7 16 in
  rad_run D D true [(1, [])] [ex_forged; ex_genuine] = ([], []) /\
  rad_run D D false [(1, [])] [ex_forged; ex_genuine] = ([], [ex_genuine]) /\
  accepts D D [(1, [])] ex_forged = false /\ accepts D D [(1, [])] ex_genuine = true.
Proof. repeat split; vm_compute; reflexivity. Qed.

(* the third-party acceptance check implies the hypothesis under which the CoA read loop trims the datagram *)
Lemma rad_parse_ok_declared raw : rad_parse_ok raw = true ->
  20 <= lenN raw /\ 20 <= rad_declared raw /\ rad_declared raw <= lenN raw.
Proof.
  unfold rad_parse_ok, rad_parse. destruct (lenN raw <? 20) eqn:E0; [discriminate|]. cbv zeta.
  destruct ((rad_declared raw <? 20) || (4096 <? rad_declared raw) || (lenN raw <? rad_declared raw)) eqn:E1; [discriminate|].
  intros _. lia.
Qed.
Lemma coa_trim_total_after_parse raw : rad_parse_ok raw = true -> safe (coa_trim raw).
Proof.
  intros H. apply rad_parse_ok_declared in H. destruct H as (H1 & H2 & H3).
  apply coa_trim_total; [lia|]. intros l Hl.
  assert (l = rad_declared raw); [|lia].
  destruct raw as [|a [|b [|c [|d r]]]]; try (unfold lenN in H1; cbn in H1; lia).
  unfold rad_declared. cbn [nth]. cbv in Hl. apply Ok_inj in Hl. subst l. reflexivity.
Qed.

(* ---------------- sequences of frames ---------------- *)
Lemma disp_run_total next : forall frames cfg, Forall (fun o => safe o) (disp_run next cfg frames).
Proof.
  induction frames as [|[proto pl] r IH]; intros cfg; cbn [disp_run]; constructor.
  - apply handle_frame_total.
  - apply IH.
Qed.
Lemma disp_run_length next : forall frames cfg, length (disp_run next cfg frames) = length frames.
Proof. induction frames as [|[proto pl] r IH]; intros cfg; cbn [disp_run length]; [reflexivity|]. rewrite IH. reflexivity. Qed.

(* ---------------- lock discipline ---------------- *)
Lemma path_ok_acquire : forall a held l b, path_ok held (a ++ Acq l :: b) = true -> holds l (held_after held a) = false.
Proof.
  induction a as [|op r IH]; intros held l b H.
  - cbn [app path_ok held_after] in *. apply andb_prop in H. destruct H as [H _]. apply andb_prop in H. destruct H as [H _].
    destruct (holds l held); [discriminate H|reflexivity].
  - cbn [app] in H. destruct op as [l0|l0| |]; cbn [path_ok held_after] in *.
    + apply andb_prop in H. destruct H as [_ H]. eapply IH; exact H.
    + apply andb_prop in H. destruct H as [_ H]. eapply IH; exact H.
    + eapply IH; exact H.
    + destruct held; [eapply IH; exact H|discriminate H].
Qed.
Lemma path_ok_blocking : forall a held b, path_ok held (a ++ Blocking :: b) = true -> held_after held a = [].
Proof.
  induction a as [|op r IH]; intros held b H.
  - cbn [app path_ok held_after] in *. destruct held; [reflexivity|discriminate H].
  - cbn [app] in H. destruct op as [l0|l0| |]; cbn [path_ok held_after] in *.
    + apply andb_prop in H. destruct H as [_ H]. eapply IH; exact H.
    + apply andb_prop in H. destruct H as [_ H]. eapply IH; exact H.
    + eapply IH; exact H.
    + destruct held; [eapply IH; exact H|discriminate H].
Qed.
Lemma path_ok_ordered : forall a held l b, path_ok held (a ++ Acq l :: b) = true ->
  forallb (fun h => lrank h <? lrank l) (held_after held a) = true.
Proof.
  induction a as [|op r IH]; intros held l b H.
  - cbn [app path_ok held_after] in *. apply andb_prop in H. destruct H as [H _]. apply andb_prop in H. destruct H as [_ H]. exact H.
  - cbn [app] in H. destruct op as [l0|l0| |]; cbn [path_ok held_after] in *.
    + apply andb_prop in H. destruct H as [_ H]. eapply IH; exact H.
    + apply andb_prop in H. destruct H as [_ H]. eapply IH; exact H.
    + eapply IH; exact H.
    + destruct held; [eapply IH; exact H|discriminate H].
Qed.
Lemma head_paths_ok : forallb (fun np => path_ok [] (snd np) && match held_after [] (snd np) with [] => true | _ => false end) head_paths = true.
Proof. vm_compute. reflexivity. Qed.
Lemma seeded_paths_refuted : path_ok [] path_q2 = false /\ path_ok [] path_m2 = false /\
  (path_ok [] path_r2 = true /\ held_after [] path_r2 = [LD]).
Proof. repeat split; vm_compute; reflexivity. Qed.
(* a lock left held by a handler that has returned blocks every later handler that needs it, for ever *)
Lemma leaked_lock_blocks l held q : holds l held = true -> path_ok held (Acq l :: q) = false.
Proof. intros H. cbn [path_ok]. rewrite H. reflexivity. Qed.

(* ---------------- admissible outcomes ---------------- *)
Lemma frame_admissible_total cfg proto payload o :
  frame_admissible Repaired cfg proto payload o -> safe o.
Proof. intros [->|(_ & _ & ->)]; [apply handle_frame_total|reflexivity]. Qed.
Lemma frame_admissible_wellformed v cfg proto payload o :
  proto <> 87 \/ ipv6_wellformed payload = true ->
  frame_admissible v cfg proto payload o -> o = handle_frame v cfg proto payload.
Proof. intros H [->|(Hp & Hw & _)]; [reflexivity|]. destruct H as [H|H]; [contradiction|congruence]. Qed.
Lemma frame_admissible_head v cfg proto payload : frame_admissible v cfg proto payload (handle_frame v cfg proto payload).
Proof. left. reflexivity. Qed.
Lemma adm_run_total next : forall frames cfg outs, adm_run next cfg frames outs -> Forall (fun o => safe o) outs.
Proof.
  induction frames as [|[proto pl] r IH]; intros cfg outs H; inversion H; subst; constructor.
  - eapply frame_admissible_total; eassumption.
  - eapply IH; eassumption.
Qed.
Lemma adm_run_head next : forall frames cfg, adm_run next cfg frames (disp_run next cfg frames).
Proof.
  induction frames as [|[proto pl] r IH]; intros cfg; cbn [disp_run]; constructor; [apply frame_admissible_head|apply IH].
Qed.
Lemma ipv6_wellformed_nonvacuous :
  ipv6_wellformed (96 :: repeat 0 39) = true /\ ipv6_wellformed (repeat 0 39) = false /\ ipv6_wellformed (64 :: repeat 0 39) = false /\
  frame_admissible Repaired (mk_dcfg true true true) 87 [1; 2; 3] (Ok RNone) /\
  handle_frame Repaired (mk_dcfg true true true) 87 [1; 2; 3] = Ok (RIPv6 [1; 2; 3]).
Proof. repeat split; try (vm_compute; reflexivity). right. repeat split; vm_compute; reflexivity. Qed.

(* ---------------- L2TP datagram dispatch and guarded AVP value decoders ---------------- *)
Lemma decode_u16_guarded a : 2 <= lenN (a_value a) -> safe (decode_u16 a).
Proof. intros H. unfold decode_u16. safe_tac. Qed.
Lemma decode_u16_unguarded_panics : exists a, decode_u16 a = Panic.
Proof. exists (mkAvp true false 0 9 [7]). vm_compute. reflexivity. Qed.
Lemma decode_msg_type_total l : safe (decode_msg_type l).
Proof.
  unfold decode_msg_type. destruct l as [|a r]; [reflexivity|].
  destruct (negb (a_vendor a =? 0) || negb (a_type a =? 0) || (lenN (a_value a) <? 2)) eqn:E; [reflexivity|].
  apply decode_u16_guarded. lia.
Qed.
Lemma sccrq_extract_total l : safe (sccrq_extract l).
Proof.
  unfold sccrq_extract. apply safe_bind; [apply decode_msg_type_total|]. intros mt _.
  destruct (negb (mt =? 1)); [reflexivity|].
  destruct (find_first 0 7 l) as [a7|]; [|reflexivity].
  destruct (find_first 0 9 l) as [a9|]; [|reflexivity].
  destruct (lenN (a_value a9) <? 2) eqn:E; [reflexivity|].
  apply safe_bind; [apply decode_u16_guarded; lia|]. intros tid _.
  destruct (find_first 0 11 l); reflexivity.
Qed.
Lemma peer_rws_total l : safe (peer_rws l).
Proof.
  unfold peer_rws. destruct (find_first 0 10 l) as [a10|]; [|reflexivity].
  destruct (2 <=? lenN (a_value a10)) eqn:E; [apply decode_u16_guarded; lia|reflexivity].
Qed.
Lemma l2tp_dispatch_total auth b : safe (l2tp_dispatch auth b).
Proof.
  unfold l2tp_dispatch. apply safe_bind; [apply is_l2tpv3_total|]. intros v3 _.
  destruct v3; [reflexivity|].
  pose proof (l2tp_parse_total b) as Hp.
  destruct (l2tp_parse b) as [[h payload]| | |]; try reflexivity; try discriminate Hp.
  destruct (negb (h_ver h =? 2)); [reflexivity|].
  destruct (negb (h_ctrl h)).
  - destruct ((h_tid h =? 7) && (h_sid h =? 9)); [|reflexivity].
    pose proof (l2tp_dispatch_ppp_total (mk_dcfg true false false) payload) as Hd.
    destruct (l2tp_dispatch_ppp Repaired (mk_dcfg true false false) payload); try reflexivity; discriminate Hd.
  - pose proof (parse_avps_total payload) as Ha.
    destruct (parse_avps payload) as [avps| | |]; try reflexivity; try discriminate Ha.
    apply safe_bind; [apply decode_msg_type_total|]. intros mt _.
    destruct (negb (mt =? 1)); [reflexivity|].
    destruct (find_first 0 7 avps) as [ha|]; [|reflexivity].
    destruct (negb (if list_eq_dec N.eq_dec (a_value ha) auth then true else false)); [reflexivity|].
    apply safe_bind.
    { destruct (find_first 0 9 avps) as [a9|]; [|reflexivity].
      destruct (2 <=? lenN (a_value a9)) eqn:E; [apply decode_u16_guarded; lia|reflexivity]. }
    intros _ _. apply safe_bind; [apply sccrq_extract_total|]. intros c _.
    apply safe_bind; [destruct c; [apply peer_rws_total|reflexivity]|]. intros; reflexivity.
Qed.

(* ---------------- the LNS over sequences of datagrams ---------------- *)
Lemma lns_step_total auth st b : safe (lns_step auth st b).
Proof.
  unfold lns_step. apply safe_bind; [apply is_l2tpv3_total|]. intros v3 _.
  destruct v3; [reflexivity|].
  pose proof (l2tp_parse_total b) as Hp.
  destruct (l2tp_parse b) as [[h payload]| | |]; try reflexivity; try discriminate Hp.
  destruct (negb (h_ver h =? 2)); [reflexivity|].
  destruct (negb (h_ctrl h)).
  - destruct (tun_find (h_tid h) (ln_tuns st)) as [t|]; [|reflexivity].
    destruct (sess_find (h_sid h) (lt_sess t)) as [x|]; [|reflexivity].
    destruct (ls_state x =? 2); [|reflexivity].
    pose proof (l2tp_dispatch_ppp_total (mk_dcfg true false true) payload) as Hd.
    destruct (l2tp_dispatch_ppp Repaired (mk_dcfg true false true) payload); try reflexivity; discriminate Hd.
  - pose proof (parse_avps_total payload) as Ha.
    destruct (parse_avps payload) as [avps| | |]; try reflexivity; try discriminate Ha.
    apply safe_bind; [apply decode_msg_type_total|]. intros mt _.
    destruct (mt =? 1).
    + destruct (find_first 0 7 avps) as [ha|]; [|reflexivity].
      destruct (negb (if list_eq_dec N.eq_dec (a_value ha) auth then true else false)); [reflexivity|].
      apply safe_bind.
      { destruct (find_first 0 9 avps) as [a9|]; [|reflexivity].
        destruct (2 <=? lenN (a_value a9)) eqn:E; [|reflexivity].
        apply safe_bind; [apply decode_u16_guarded; lia|]. intros; reflexivity. }
      intros dup _. cbv zeta.
      match goal with |- safe (if ?c then _ else _) => destruct c end; [reflexivity|].
      apply safe_bind; [apply sccrq_extract_total|]. intros c _. destruct c; reflexivity.
    + destruct (tun_find (h_tid h) (ln_tuns st)) as [t|]; [|reflexivity].
      destruct avps as [|a0 ar]; [reflexivity|].
      destruct (mt =? 3); [destruct (lt_state t =? 2); reflexivity|].
      destruct (mt =? 4); [reflexivity|].
      destruct (mt =? 10).
      { destruct (find_first 0 14 (a0 :: ar)) as [a14|]; [|reflexivity].
        destruct (lenN (a_value a14) <? 2) eqn:E; [reflexivity|].
        apply safe_bind; [apply decode_u16_guarded; lia|]. intros; reflexivity. }
      destruct (mt =? 12).
      { destruct (sess_find (h_sid h) (lt_sess t)) as [x|]; [|reflexivity]. destruct (ls_state x =? 1); reflexivity. }
      destruct (mt =? 14); [destruct (sess_find (h_sid h) (lt_sess t)); reflexivity|reflexivity].
Qed.
Lemma lns_run_total auth : forall ds st, safe (lns_run auth st ds).
Proof.
  induction ds as [|d r IH]; intros st; cbn [lns_run]; [reflexivity|].
  apply safe_bind; [apply lns_step_total|]. intros st' _.
  apply safe_bind; [apply IH|]. intros; reflexivity.
Qed.
(* the number of tunnels only grows by SCCRQs that create one, and every tunnel id handed out is fresh *)
Lemma lns_nonvacuous :
  exists st, lns_run [108] lns0
    [ [200; 2; 0; 35; 0; 0; 0; 0; 0; 0; 0; 0;  128; 8; 0; 0; 0; 0; 0; 1;  128; 7; 0; 0; 0; 7; 108;  128; 8; 0; 0; 0; 9; 16; 146];
      [200; 2; 0; 20; 0; 1; 0; 0; 0; 1; 0; 1;  128; 8; 0; 0; 0; 0; 0; 3] ] = Ok st /\
    map lns_toks st = [[TN 1; TN 1; TN 4242; TN 2; TN 0]; [TN 1; TN 1; TN 4242; TN 3; TN 0]].
Proof. eexists. split; vm_compute; reflexivity. Qed.

(* ---------------- PPPoE AC-Cookie and L2TP challenge response ---------------- *)
Lemma cookie_validate_total cookie d fresh : safe (cookie_validate cookie d fresh).
Proof. unfold cookie_validate. safe_tac. Qed.
Lemma verify_challenge_total observed d : safe (verify_challenge observed d).
Proof. unfold verify_challenge. safe_tac. Qed.
(* a cookie is accepted only if it is exactly 36 bytes, fresh, and its first 32 bytes are the HMAC *)
Lemma cookie_validate_sound cookie d fresh : cookie_validate cookie d fresh = Ok true ->
  lenN cookie = 36 /\ fresh = true /\ sl 0 32 cookie = Ok d.
Proof.
  unfold cookie_validate. destruct (negb (lenN cookie =? 36)) eqn:E; [discriminate|]. intros H.
  destruct (t <- slf 32 cookie;; u32at 0 t); cbn [rbind] in H; try discriminate H.
  destruct fresh; cbn [negb] in H; [|discriminate H].
  destruct (slf 32 cookie); cbn [rbind] in H; try discriminate H.
  destruct (sl 0 32 cookie) as [sig| | |]; cbn [rbind] in H; try discriminate H.
  destruct (list_eq_dec N.eq_dec sig d) as [->|]; [|discriminate H]. repeat split. lia.
Qed.

(* ---------------- DHCPv6 proxy rewriting and giaddr / hops accessors ---------------- *)
Lemma server_duid_loop_total : forall fuel i pkt, (N.to_nat (lenN pkt - i) < fuel)%nat -> safe (server_duid_loop fuel i pkt).
Proof. fuel_ind fuel. intros i pkt Hf. cbn [server_duid_loop]. safe_tac. apply IH. lia. Qed.
Lemma get_server_duid_total pkt : safe (get_server_duid pkt).
Proof. unfold get_server_duid. safe_tac. apply server_duid_loop_total. unfold lenN. lia. Qed.
Lemma replace_duid_loop_total : forall fuel i pkt duid, (N.to_nat (lenN pkt - i) < fuel)%nat -> safe (replace_duid_loop fuel i pkt duid).
Proof. fuel_ind fuel. intros i pkt duid Hf. cbn [replace_duid_loop]. safe_tac. apply IH. lia. Qed.
Lemma replace_server_duid_total pkt duid : safe (replace_server_duid pkt duid).
Proof. unfold replace_server_duid. safe_tac. apply replace_duid_loop_total. unfold lenN. lia. Qed.
(* IA options nest: the recursion (into the sub-options and on to the next option) always works on strictly shorter data *)
Lemma rw6_total : forall fuel data pref valid, (length data < fuel)%nat -> safe (rw6 fuel data pref valid).
Proof.
  fuel_ind fuel. intros data pref valid Hf. cbn [rw6]. safe_tac; try (apply IH; unfold lenN in *; lia).
Qed.
Lemma rewrite_v6_lifetimes_total pkt pref valid : safe (rewrite_v6_lifetimes pkt pref valid).
Proof. unfold rewrite_v6_lifetimes. safe_tac. apply rw6_total. lia. Qed.
Lemma giaddr_hops_total pkt ip :
  safe (get_giaddr pkt) /\ safe (set_giaddr pkt ip) /\ safe (get_hops pkt) /\ safe (incr_hops pkt).
Proof. unfold get_giaddr, set_giaddr, get_hops, incr_hops. repeat split; safe_tac. Qed.

(* ---------------- the driver-level statement ---------------- *)
Lemma run_total entry na ba : safe (run Repaired entry na ba).
Proof.
  unfold run. cbv zeta.
  repeat (match goal with |- safe (if ?c then _ else _) => destruct c end;
          [first [reflexivity | apply safe_rmap;
           first [apply ppp_hdr_total|apply handle_frame_total|apply ppp_parse_options_total|apply pap_req_total
                 |apply pap_msg_total|apply chap_challenge_total|apply chap_response_total|apply echo_tail_total
                 |apply parse_tags_total|apply l2tp_parse_total|apply parse_avps_total|apply is_l2tpv3_total
                 |apply parse_message6_total|apply unwrap_relay_top_total|apply unwrap_relay_reply_top_total
                 |apply relay_unwrap_reply_total|apply relay_txid_total|apply insert_option82_total
                 |apply strip_option82_total|apply set_option4_total|apply get_option4_total
                 |apply parse_sub82_total|apply dhcp_parse_total|apply parse_message4_total
                 |apply attr80_window_total|apply is_authentic_reply_total|apply validate_request_auth_total
                 |apply validate_message_auth_total|apply l2tp_dispatch_ppp_total|apply l2tp_dispatch_total|apply lns_run_total|apply cookie_validate_total|apply verify_challenge_total|apply get_server_duid_total|apply replace_server_duid_total
                 |apply rewrite_v6_lifetimes_total]
            | cbv zeta; safe_tac; first [apply (proj1 (giaddr_hops_total _ []))|apply (proj1 (proj2 (giaddr_hops_total _ _)))
                 |apply (proj1 (proj2 (proj2 (giaddr_hops_total _ []))))|apply (proj2 (proj2 (proj2 (giaddr_hops_total _ []))))|apply handle_frame_total|apply has_service_type_total|apply event_timestamp_total|apply ipoe_msg_type_total]]|]).
  reflexivity.
Qed.
