From OV Require Import Common.Base C07.Model C07.Proofs.
Theorem C07_placeholder : True. Proof. exact Proofs.placeholder. Qed.
Print Assumptions C07_placeholder.
